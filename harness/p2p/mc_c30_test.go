//go:build verif

package p2p

import (
	"encoding/binary"
	"fmt"
	"net"
	"sync"
	"testing"
	"testing/synctest"
	"time"

	"github.com/MixinNetwork/mixin/crypto"
	"github.com/MixinNetwork/mixin/verifmc"
	"github.com/dgraph-io/ristretto/v2"
)

// C30, p2p side — the freshness clause of peer authentication is enforced by
// two cooperating sites: the caller chooses the skew argument timeoutSec and
// kernel.Node.AuthenticateAs treats timeoutSec <= 0 as "no freshness check"
// (kernel side: harness/kernel/mc_c30_test.go enumerates timeoutSec in
// {0,1,10,3600} x token ages and shows exactly that contract).
//
// Callers of handle.AuthenticateAs in package p2p:
//   * (*Peer).authenticateNeighbor — the HANDSHAKE path. It must always ask for
//     freshness: 0 < timeoutSec <= 10 (the protocol's skew, HandshakeTimeout).
//   * (*Peer).updateRemoteRelayerConsumers — the consumers ANNOUNCEMENT path. A
//     relayer re-announces the tokens its consumers presented at their own
//     handshake, arbitrarily later, so passing 0 is legitimate there: the token
//     only proves that the consumer once authenticated to THAT relayer
//     (recipient argument = the announcing relayer) and grants no session.
//
// This harness drives the REAL authenticateNeighbor with a stub handle that
// records every (recipient, timeoutSec) it receives and mirrors the kernel's
// freshness contract, over a full menu of peer response delays x token ages.
// Time is controlled, not slept: every case runs inside a testing/synctest
// bubble, where time.Now / Sleep / After / Until use a virtual clock that
// advances only when every goroutine of the bubble is blocked. The delays are
// therefore exact to the nanosecond and cost no wall time.

const c30ProtocolSkewSec = 10 // DESIGN.md C30: T = 10 on the handshake path

type c30Call struct {
	recipient crypto.Hash
	timeout   int64
	elapsed   time.Duration // virtual time since the handshake started
	tokenAge  int64         // now - ts at the call, seconds
	accepted  bool
}

// c30Handle records the arguments and mirrors kernel.Node.AuthenticateAs for the
// clauses that matter here (length, freshness, recipient). Other SyncHandle
// methods are never reached by the two functions under test.
type c30Handle struct {
	SyncHandle
	mu    sync.Mutex
	calls []c30Call
	start time.Time
}

func (h *c30Handle) GetCacheStore() *ristretto.Cache[[]byte, any] { return nil }

func (h *c30Handle) AuthenticateAs(recipientId crypto.Hash, msg []byte, timeoutSec int64) (*AuthToken, error) {
	call := c30Call{recipient: recipientId, timeout: timeoutSec, elapsed: time.Since(h.start)}
	defer func() {
		h.mu.Lock()
		h.calls = append(h.calls, call)
		h.mu.Unlock()
	}()
	if len(msg) != authenticationPayloadSize {
		return nil, fmt.Errorf("peer authentication message malformatted %d", len(msg))
	}
	ts := int64(binary.BigEndian.Uint64(msg[:8]))
	now := time.Now().Unix()
	call.tokenAge = now - ts
	d := now - ts
	if d < 0 {
		d = -d
	}
	if timeoutSec > 0 && d > timeoutSec {
		return nil, fmt.Errorf("peer authentication message timeout %d %d", ts, now)
	}
	var relayerId crypto.Hash
	copy(relayerId[:], msg[8:40])
	if relayerId != recipientId {
		return nil, fmt.Errorf("peer authentication is not for me %s", relayerId)
	}
	call.accepted = true
	return &AuthToken{PeerId: crypto.Blake3Hash(msg[40:72]), Timestamp: uint64(ts), IsRelayer: msg[72] == 1, Data: append([]byte{}, msg...)}, nil
}

type c30Addr string

func (a c30Addr) Network() string { return "verif" }
func (a c30Addr) String() string  { return string(a) }

// c30SlowClient delivers its only message after a (virtual) delay.
type c30SlowClient struct {
	delay time.Duration
	data  []byte
	once  sync.Once
}

func (c *c30SlowClient) RemoteAddr() net.Addr { return c30Addr("c30-slow-peer") }
func (c *c30SlowClient) Send([]byte) error    { return nil }
func (c *c30SlowClient) Close(string)         {}
func (c *c30SlowClient) Receive() (*TransportMessage, error) {
	var tm *TransportMessage
	c.once.Do(func() {
		time.Sleep(c.delay)
		tm = &TransportMessage{Version: TransportMessageVersion, Size: uint32(len(c.data)), Data: c.data}
	})
	if tm == nil {
		return nil, fmt.Errorf("EOF")
	}
	return tm, nil
}

func c30Token(recipient crypto.Hash, ts int64, relayer byte) []byte {
	data := make([]byte, authenticationPayloadSize)
	binary.BigEndian.PutUint64(data[:8], uint64(ts))
	copy(data[8:], recipient[:])
	key := crypto.Blake3Hash([]byte("c30-p2p-peer-key"))
	copy(data[40:], key[:])
	data[72] = relayer
	return data
}

func TestMC_C30(t *testing.T) {
	c := verifmc.Start(t, "C30", "exploration")
	defer c.Finish()
	c.SetRule("p2p handshake path: real authenticateNeighbor x every peer response delay of {0, 1ns, k s - 1ms, k s - 1ns, k s, k s + 1ns, k s + 1ms for k = 1..12, 2.5 s, 9.5 s} x token age {0, +-9, +-10, +-11, +-3600 s, 1 day} under a virtual clock (testing/synctest); announcement path: real updateRemoteRelayerConsumers x 1..3 tokens x the same ages; a case is distinct by (path, delay, age)")
	c.Assume("the stub handle mirrors the freshness contract of kernel.Node.AuthenticateAs (timeoutSec > 0 bounds |now - ts|, timeoutSec <= 0 disables the check); that contract is what the kernel part of C30 enumerates for timeoutSec in {0,1,10,3600}",
		"testing/synctest virtual time is a faithful model of package time for goroutines that only sleep, select on timers and lock mutexes",
		"passing timeoutSec = 0 is legitimate on the consumers announcement path only (updateRemoteRelayerConsumers: re-announced tokens of a relayer's consumers); the handshake path must pass 0 < timeoutSec <= 10")
	c.Require(int64(HandshakeTimeout/time.Second) == c30ProtocolSkewSec, "HandshakeTimeout is %s, the protocol skew of the statement is %d s", HandshakeTimeout, c30ProtocolSkewSec)

	delaySet := map[time.Duration]bool{0: true, 1: true, 2500 * time.Millisecond: true, 9500 * time.Millisecond: true}
	for k := 1; k <= 12; k++ {
		s := time.Duration(k) * time.Second
		for _, e := range []time.Duration{-time.Millisecond, -1, 0, 1, time.Millisecond} {
			delaySet[s+e] = true
		}
	}
	var delays []time.Duration
	for d := range delaySet {
		delays = append(delays, d)
	}
	for i := range delays {
		for j := i; j > 0 && delays[j-1] > delays[j]; j-- {
			delays[j-1], delays[j] = delays[j], delays[j-1]
		}
	}
	ages := []int64{0, 9, 10, 11, 3600, 86400, -9, -10, -11, -3600} // seconds before (positive) / after (negative) the start of the handshake
	me0 := crypto.Blake3Hash([]byte("c30-p2p-receiver"))

	var reached, authed int64
	for _, delay := range delays {
		for _, age := range ages {
			delay, age := delay, age
			var calls []c30Call
			var peer *Peer
			var err error
			var returnedAfter time.Duration
			synctest.Test(t, func(t *testing.T) {
				h := &c30Handle{start: time.Now()}
				me := NewPeer(h, me0, "127.0.0.1:0", true)
				tok := c30Token(me.IdForNetwork, h.start.Unix()-age, 0)
				peer, err = me.authenticateNeighbor(&c30SlowClient{delay: delay, data: buildAuthenticationMessage(tok)})
				returnedAfter = time.Since(h.start)
				synctest.Wait()
				// let the detached authentication goroutine of a timed-out handshake finish (virtual time)
				time.Sleep(20 * time.Second)
				synctest.Wait()
				h.mu.Lock()
				calls = append(calls, h.calls...)
				h.mu.Unlock()
			})
			c.Eval(1)
			c.Distinct(fmt.Sprintf("handshake|%d|%d", delay, age))
			replay := map[string]any{"path": "authenticateNeighbor", "peer_delay_ns": int64(delay), "peer_delay": delay.String(), "token_age_at_start_sec": age, "clock": "testing/synctest bubble"}
			cls := fmt.Sprintf("delay-in-second-%d", int64(delay/time.Second))
			if len(calls) == 0 {
				c.Outcome("handshake:handle-not-reached")
			}
			for _, k := range calls {
				reached++
				replay["timeoutSec_passed"] = k.timeout
				switch {
				case k.recipient != me0:
					c.Outcome("handshake:WRONG-RECIPIENT-ARG")
					c.Violation("handshake:recipient-argument", fmt.Sprintf("authenticateNeighbor asked to authenticate as %s instead of its own id (delay %s)", k.recipient, delay), replay)
				case k.timeout <= 0:
					c.Outcome("handshake:FRESHNESS-DISABLED")
					c.Violation("handshake:freshness-disabled:"+cls, fmt.Sprintf("authenticateNeighbor passed timeoutSec=%d to AuthenticateAs for a token presented %s into the handshake: the kernel skips the freshness check for timeoutSec <= 0", k.timeout, delay), replay)
				case k.timeout > c30ProtocolSkewSec:
					c.Outcome("handshake:SKEW-TOO-WIDE")
					c.Violation("handshake:skew-wider-than-protocol", fmt.Sprintf("authenticateNeighbor passed timeoutSec=%d > %d (delay %s)", k.timeout, c30ProtocolSkewSec, delay), replay)
				case k.timeout < c30ProtocolSkewSec:
					c.Outcome("handshake:skew-narrower")
					c.Stricter(fmt.Sprintf("handshake passes timeoutSec=%d < %d", k.timeout, c30ProtocolSkewSec))
				default:
					c.Outcome("handshake:skew-10")
				}
			}
			// end to end: a token outside the protocol skew at the moment it was judged never authenticates
			if peer != nil {
				authed++
				if len(calls) != 1 {
					c.Violation("handshake:peer-without-handle-call", fmt.Sprintf("a peer was authenticated with %d handle calls", len(calls)), replay)
				} else {
					a := calls[0].tokenAge
					if a < 0 {
						a = -a
					}
					if a > c30ProtocolSkewSec {
						c.Outcome("handshake:STALE-AUTHENTICATED")
						c.Violation("handshake:stale-token-authenticated:"+cls, fmt.Sprintf("a token %d s away from now authenticated the handshake when presented %s after the connection was accepted (timeoutSec=%d)", calls[0].tokenAge, delay, calls[0].timeout), replay)
					} else {
						c.Outcome("handshake:authenticated-fresh")
					}
				}
			} else {
				c.Outcome("handshake:refused")
				_ = err
			}
			_ = returnedAfter
		}
	}
	c.Set("p2p_handshake_delays", len(delays))
	c.Set("p2p_handshake_handle_calls", reached)
	c.Set("p2p_handshake_authenticated", authed)

	// ---- announcement path: timeoutSec = 0 is the documented, legitimate use ----
	relayerId := crypto.Blake3Hash([]byte("c30-remote-relayer"))
	var annCalls, annZero int64
	for n := 1; n <= 3; n++ {
		for _, age := range ages {
			h := &c30Handle{start: time.Now()}
			me := NewPeer(h, me0, "127.0.0.1:0", true)
			var data []byte
			for i := 0; i < n; i++ {
				tok := c30Token(relayerId, time.Now().Unix()-age, 0)
				id := crypto.Blake3Hash(tok[40:72])
				data = append(append(data, id[:]...), tok...)
			}
			err := me.updateRemoteRelayerConsumers(relayerId, data)
			c.Eval(1)
			c.Distinct(fmt.Sprintf("announcement|%d|%d", n, age))
			for _, k := range h.calls {
				annCalls++
				if k.recipient != relayerId {
					c.Violation("announcement:recipient-argument", fmt.Sprintf("updateRemoteRelayerConsumers authenticates tokens as %s, not as the announcing relayer", k.recipient), map[string]any{"path": "updateRemoteRelayerConsumers", "tokens": n, "age": age})
				}
				if k.timeout == 0 {
					annZero++
					c.Outcome("announcement:timeout-0(legitimate)")
				} else {
					c.Outcome("announcement:timeout-nonzero")
					c.Stricter(fmt.Sprintf("announcement path passes timeoutSec=%d", k.timeout))
				}
			}
			if err != nil {
				c.Outcome("announcement:error")
			}
		}
	}
	c.Set("p2p_announcement_handle_calls", annCalls)
	c.Set("p2p_announcement_calls_with_timeout_0", annZero)

	c.Sample(map[string]any{"path": "authenticateNeighbor", "peer_delay": "9.5s", "token_age_sec": 3600, "expect": "handle called with 0 < timeoutSec <= 10, token refused"})
	c.Sample(map[string]any{"path": "authenticateNeighbor", "peer_delay": "2.999999999s", "token_age_sec": 10, "expect": "handle sees timeoutSec 10; the token is 12 s old at the call: refused"})
	c.Sample(map[string]any{"path": "updateRemoteRelayerConsumers", "tokens": 2, "token_age_sec": 86400, "expect": "timeoutSec 0 (legitimate), recipient = announcing relayer"})

	if c.Violations() == 0 {
		c.Require(reached >= int64(len(delays)*len(ages))/2, "the handle was reached by only %d of %d handshakes", reached, len(delays)*len(ages))
		c.Require(c.OutcomeCount("handshake:authenticated-fresh") > 0 && c.OutcomeCount("handshake:refused") > 0, "handshake outcomes are vacuous")
		c.Require(annCalls > 0, "announcement path never reached the handle")
	}
}
