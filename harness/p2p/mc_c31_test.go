//go:build verif

package p2p

// C31, framing half — the transport frames a message of any legal size
// (1..TransportMessageMaxSize) and the receiver gets it back byte-exactly;
// Send refuses empty and oversized messages before writing anything; Receive
// refuses an announced size above the limit BEFORE allocating the announced
// size.
//
// TWO tests are named TestMC_C31: /verif/harness/kernel/mc_c31_test.go (batch
// accounting model + conformance; the main check) and this one. bin/verif-run
// runs the packages in the order of its PKGS list (common, crypto, storage,
// kernel, p2p): kernel first, this half last; the wrapper collects the evidence
// each half writes and merges them (merge_evidence). Each half reports its own
// violations through its own Check; neither reads the other's output.
//
// The stream part (every small size, back-to-back batches, retention of
// delivered frames) is in mc_c31_stream_test.go.
//
// No wall-clock oracle: the only time limits are the transport's own I/O
// deadlines (10 s write, 20 s read per frame); an I/O timeout on the loaded
// loopback is retried on a fresh connection and then marks the run capped
// (exhaustive:false, exit 0), never a violation.

import (
	"context"
	"crypto/sha256"
	"encoding/binary"
	"errors"
	"fmt"
	"net"
	"os"
	"runtime"
	"strings"
	"testing"
	"time"

	"github.com/MixinNetwork/mixin/verifmc"
)

type c31Pair struct {
	relayer *QuicRelayer
	client  *QuicClient // dialing side
	server  *QuicClient // accepting side
}

// c31NewPair sets up a loopback QUIC pair exactly as the repository's TestQuic
// does; the accepting side sees the stream when the first frame arrives.
func c31NewPair() (*c31Pair, error) {
	relayer, err := NewQuicRelayer("127.0.0.1:0")
	if err != nil {
		return nil, err
	}
	type acc struct {
		c   Client
		err error
	}
	ch := make(chan acc, 1)
	ctx, cancel := context.WithTimeout(context.Background(), 2*time.Minute)
	defer cancel()
	go func() {
		s, err := relayer.Accept(ctx)
		ch <- acc{s, err}
	}()
	client, err := NewQuicConsumer(ctx, relayer.listener.Addr().String())
	if err != nil {
		_ = relayer.Close()
		return nil, err
	}
	if err := client.Send([]byte("c31")); err != nil {
		_ = relayer.Close()
		return nil, err
	}
	a := <-ch
	if a.err != nil {
		_ = relayer.Close()
		return nil, a.err
	}
	p := &c31Pair{relayer: relayer, client: client, server: a.c.(*QuicClient)}
	m, err := p.server.Receive()
	if err != nil || string(m.Data) != "c31" {
		p.Close()
		return nil, fmt.Errorf("hello frame: %v", err)
	}
	return p, nil
}

func (p *c31Pair) Close() {
	p.client.Close("c31 done")
	p.server.Close("c31 done")
	_ = p.relayer.Close()
}

// c31Payload is a deterministic pseudo-random payload (xorshift64*).
func c31Payload(n int, seed uint64) []byte {
	b := make([]byte, n)
	x := seed*0x9E3779B97F4A7C15 + 1
	i := 0
	for ; i+8 <= n; i += 8 {
		x ^= x >> 12
		x ^= x << 25
		x ^= x >> 27
		binary.LittleEndian.PutUint64(b[i:], x*0x2545F4914F6CDD1D)
	}
	for ; i < n; i++ {
		x ^= x >> 12
		x ^= x << 25
		x ^= x >> 27
		b[i] = byte(x)
	}
	return b
}

func c31IsTimeout(err error) bool {
	var ne net.Error
	return err != nil && (errors.As(err, &ne) && ne.Timeout() || errors.Is(err, os.ErrDeadlineExceeded) || strings.Contains(err.Error(), "deadline exceeded") || strings.Contains(err.Error(), "timeout"))
}

type c31Recv struct {
	m   *TransportMessage
	err error
}

// c31Transfer sends data from one end and receives it on the other concurrently.
func c31Transfer(from, to *QuicClient, data []byte) (sendErr error, got c31Recv) {
	ch := make(chan c31Recv, 1)
	go func() {
		m, err := to.Receive()
		ch <- c31Recv{m, err}
	}()
	sendErr = from.Send(data)
	if sendErr != nil && !c31IsTimeout(sendErr) {
		// refused up front, nothing was written: do not wait for the read deadline
		return sendErr, c31Recv{}
	}
	// a Send that ran into its write deadline may mean that the receiver refused
	// the frame and stopped reading: its verdict decides
	return sendErr, <-ch
}

func TestMC_C31(t *testing.T) {
	c := verifmc.Start(t, "C31", "model_checking")
	defer c.Finish()
	c.Assume("framing half: loopback QUIC pair set up as the repository's TestQuic does; payloads are deterministic pseudo-random bytes compared by length and SHA-256; allocation is measured with runtime.MemStats.TotalAlloc around the refused Receive (GOMAXPROCS(1), background allocation of the QUIC stack tolerated up to 1 MiB)")

	const max = TransportMessageMaxSize
	sizes := []int{1, 2, 6, 65535, 65536, max - 1, max}
	ioTrouble := 0

	// ---- A. round trips, both directions, consecutive frames on one stream ----
	var pair *c31Pair
	newPair := func() bool {
		if pair != nil {
			pair.Close()
		}
		var err error
		for try := 0; try < 3; try++ {
			if pair, err = c31NewPair(); err == nil {
				return true
			}
		}
		c.Capped(fmt.Sprintf("framing part incomplete (loopback QUIC unavailable, not a verdict): %v", err))
		return false
	}
	if !newPair() {
		return
	}
	defer func() { pair.Close() }()
	for _, dir := range []string{"client->server", "server->client"} {
		for _, n := range sizes {
			key := fmt.Sprintf("roundtrip|%s|%d", dir, n)
			c.Eval(1)
			c.Distinct(key)
			data := c31Payload(n, uint64(n)+uint64(len(dir)))
			want := sha256.Sum256(data)
			var sendErr error
			var got c31Recv
			for try := 0; try < 3; try++ {
				from, to := pair.client, pair.server
				if dir == "server->client" {
					from, to = to, from
				}
				sendErr, got = c31Transfer(from, to, data)
				if got.err != nil && !c31IsTimeout(got.err) {
					sendErr = nil // the receiver refused the frame: that is the verdict
					break
				}
				if !c31IsTimeout(sendErr) && !c31IsTimeout(got.err) {
					break
				}
				ioTrouble++
				if !newPair() { // a torn frame poisons the stream: fresh connection
					return
				}
			}
			switch {
			case c31IsTimeout(sendErr) || c31IsTimeout(got.err):
				c.Capped(fmt.Sprintf("framing part incomplete (loopback too slow for a %d byte frame within the transport's own deadlines, not a verdict): %v %v", n, sendErr, got.err))
				return
			case sendErr != nil:
				c.Outcome("roundtrip:send-refused")
				c.Violation("send:refuses-legal-size", fmt.Sprintf("Send of a %d byte message (legal: 1..%d) failed: %v", n, max, sendErr), map[string]any{"size": n, "direction": dir})
				if !newPair() {
					return
				}
			case got.err != nil:
				c.Outcome("roundtrip:receive-refused")
				c.Violation("receive:refuses-legal-size", fmt.Sprintf("Receive of a %d byte frame (legal: 1..%d) failed: %v", n, max, got.err), map[string]any{"size": n, "direction": dir})
				if !newPair() {
					return
				}
			default:
				m := got.m
				if m.Version != TransportMessageVersion || int(m.Size) != n || len(m.Data) != n || sha256.Sum256(m.Data) != want {
					c.Outcome("roundtrip:mismatch")
					c.Violation("frame:roundtrip-mismatch", fmt.Sprintf("%d byte message %s arrived as version %d size %d len %d sha256 %x (sent %x)", n, dir, m.Version, m.Size, len(m.Data), sha256.Sum256(m.Data), want), map[string]any{"size": n, "direction": dir})
				} else {
					c.Outcome("roundtrip:exact")
				}
			}
		}
	}
	c.Sample(map[string]any{"roundtrip_sizes": sizes, "directions": 2, "max": max})

	// ---- B. Send refuses empty and oversized messages and writes nothing ----
	if !newPair() {
		return
	}
	for _, n := range []int{0, max + 1} {
		c.Eval(1)
		c.Distinct(fmt.Sprintf("send-refusal|%d", n))
		err := pair.client.Send(make([]byte, n))
		if err == nil {
			c.Outcome("send:accepted-illegal")
			key := "send:accepts-empty"
			if n > 0 {
				key = "send:accepts-oversize"
			}
			c.Violation(key, fmt.Sprintf("Send accepted a %d byte message (legal: 1..%d)", n, max), map[string]any{"size": n})
			if !newPair() {
				return
			}
			continue
		}
		c.Outcome("send:refused")
		// nothing may have been written: the next legal frame arrives intact
		probe := c31Payload(777, uint64(n))
		sendErr, got := c31Transfer(pair.client, pair.server, probe)
		c.Eval(1)
		if c31IsTimeout(sendErr) || c31IsTimeout(got.err) {
			c.Capped(fmt.Sprintf("framing part incomplete (loopback too slow after a refused Send, not a verdict): %v %v", sendErr, got.err))
			return
		}
		if sendErr != nil || got.err != nil || sha256.Sum256(got.m.Data) != sha256.Sum256(probe) {
			c.Violation("send:refusal-leaves-bytes-on-the-stream", fmt.Sprintf("after Send refused %d bytes the next legal frame did not arrive intact: %v %v", n, sendErr, got.err), map[string]any{"size": n})
			if !newPair() {
				return
			}
		}
	}

	// ---- C. Receive refuses an announced size above the limit before allocating ----
	prev := runtime.GOMAXPROCS(1)
	type hdrCase struct {
		name     string
		limit    uint32 // 0 = Receive()
		announce uint32
		accept   bool
	}
	cases := []hdrCase{
		{"Receive", 0, max + 1, false},
		{"Receive", 0, 1<<32 - 1, false},
		{"receiveWithLimit(max)", max, max + 1, false},
		{"receiveWithLimit(max)", max, 1<<32 - 1, false},
		{"receiveWithLimit(6)", 6, 7, false},
		{"receiveWithLimit(6)", 6, 6, true},
		{"receiveWithLimit(1)", 1, 2, false},
		{"receiveWithLimit(1)", 1, 1, true},
	}
	for _, hc := range cases {
		c.Eval(1)
		c.Distinct(fmt.Sprintf("header|%s|%d", hc.name, hc.announce))
		if !newPair() {
			runtime.GOMAXPROCS(prev)
			return
		}
		header := []byte{TransportMessageVersion, 0, 0, 0, 0, 0}
		binary.BigEndian.PutUint32(header[2:], hc.announce)
		frame := header
		if hc.accept {
			frame = append(frame, c31Payload(int(hc.announce), 5)...)
		}
		if _, err := pair.server.stream.Write(frame); err != nil {
			c.Capped(fmt.Sprintf("framing part incomplete (raw header write failed, not a verdict): %v", err))
			continue
		}
		runtime.GC()
		var before, after runtime.MemStats
		runtime.ReadMemStats(&before)
		var m *TransportMessage
		var err error
		if hc.limit == 0 {
			m, err = pair.client.Receive()
		} else {
			m, err = pair.client.receiveWithLimit(hc.limit)
		}
		runtime.ReadMemStats(&after)
		delta := after.TotalAlloc - before.TotalAlloc
		replay := map[string]any{"call": hc.name, "announced": hc.announce}
		switch {
		case c31IsTimeout(err):
			c.Capped(fmt.Sprintf("framing part incomplete (%s timed out on a %d byte announcement, not a verdict): %v", hc.name, hc.announce, err))
		case hc.accept && (err != nil || m == nil || uint32(len(m.Data)) != hc.announce):
			c.Outcome("receive:refused-at-limit")
			c.Violation("receive:refuses-legal-size", fmt.Sprintf("%s refused a frame of exactly the limit (%d bytes): %v", hc.name, hc.announce, err), replay)
		case hc.accept:
			c.Outcome("receive:accepted-at-limit")
		case err == nil:
			c.Outcome("receive:accepted-oversize")
			c.Violation("receive:accepts-oversize", fmt.Sprintf("%s accepted a header announcing %d bytes", hc.name, hc.announce), replay)
		default:
			c.Outcome("receive:refused-oversize")
			// the announced size must not have been allocated
			if hc.announce >= 1<<20 && delta >= 1<<20 {
				c.Violation("receive:allocates-before-size-check", fmt.Sprintf("%s refused a header announcing %d bytes (%v) but %d bytes were allocated during the call", hc.name, hc.announce, err, delta), replay)
			}
			if hc.announce >= 1<<20 {
				c.Set(fmt.Sprintf("alloc_delta_%s_%d", hc.name, hc.announce), delta)
			}
		}
	}
	runtime.GOMAXPROCS(prev)
	// invalid limits and a torn frame
	for _, l := range []uint32{0, max + 1} {
		c.Eval(1)
		c.Distinct(fmt.Sprintf("limit|%d", l))
		if _, err := pair.client.receiveWithLimit(l); err == nil {
			c.Violation("receive:accepts-invalid-limit", fmt.Sprintf("receiveWithLimit(%d) did not fail", l), l)
		} else {
			c.Outcome("receive:invalid-limit-refused")
		}
	}
	if newPair() {
		c.Eval(1)
		c.Distinct("torn-frame")
		_, _ = pair.server.stream.Write([]byte{TransportMessageVersion, 0, 0, 0, 0, 10, 1, 2, 3, 4, 5})
		_ = pair.server.stream.Close()
		if m, err := pair.client.Receive(); err == nil {
			c.Violation("frame:torn-frame-delivered", fmt.Sprintf("a frame announcing 10 bytes with 5 bytes on the stream was delivered: %v", m), nil)
		} else {
			c.Outcome("receive:torn-frame-refused")
		}
	}
	c.Sample(map[string]any{"refused_sends": []int{0, max + 1}, "refused_announcements": []uint32{max + 1, 1<<32 - 1}, "alloc_budget": 1 << 20})
	c.Set("io_retries", ioTrouble)
	c.Require(c.OutcomeCount("roundtrip:exact") > 0 || c.Violations() > 0, "no round trip succeeded")

	c31Stream(c)
	c.SetRule("stream: every payload size 1..2100, 2^k-1|2^k|2^k+1 (k<=20), 65528..65544 and mixed long/short orders, sent back to back in batches of 64 in both directions over one connection each, every frame compared on delivery and again after its batch and after the next batch; a case is distinct by (direction, batch, position, size) || framing: frame sizes {1,2,6,65535,65536,max-1,max} x 2 directions round-trip consecutively on one stream; Send of {0,max+1} followed by a legal frame; hand-written headers announcing {max+1, 2^32-1} to Receive and receiveWithLimit(max) with the allocation measured, {limit, limit+1} to receiveWithLimit(1|6); invalid limits {0,max+1}; a torn frame; a case is distinct by (operation, direction or call, size)")
}
