//go:build verif

package p2p

import (
	"github.com/MixinNetwork/mixin/common"
	"github.com/MixinNetwork/mixin/crypto"
)

// This file is injected through the overlay (tag verif) and only ADDS exported
// forwarders to the unexported message builders, so that the C31 harness of
// package kernel can size the REAL messages. It is not part of /repo.

// VerifBuildTransactionsMessage forwards to buildTransactionsMessage (bundle
// and finalized bundle, selected by typ).
func VerifBuildTransactionsMessage(txs []*common.VersionedTransaction, typ byte) []byte {
	return buildTransactionsMessage(txs, typ)
}

// VerifBuildTransactionChallenge forwards to buildBatchTransactionChallengeMessage.
func VerifBuildTransactionChallenge(snap crypto.Hash, cosi *crypto.CosiSignature, txs []*common.VersionedTransaction) []byte {
	return buildBatchTransactionChallengeMessage(snap, cosi, txs)
}

// VerifBuildFullChallenge forwards to buildBatchFullChallengeMessage.
func VerifBuildFullChallenge(s *common.Snapshot, commitment, challenge *crypto.Key, txs []*common.VersionedTransaction) []byte {
	return buildBatchFullChallengeMessage(s, commitment, challenge, txs)
}

// VerifBuildRelay forwards to (*Peer).buildRelayMessage of a peer with id self.
func VerifBuildRelay(self, to crypto.Hash, msg []byte) []byte {
	me := &Peer{IdForNetwork: self}
	return me.buildRelayMessage(to, msg)
}

// VerifParseNetworkMessage forwards to parseNetworkMessage.
func VerifParseNetworkMessage(data []byte) (*PeerMessage, error) {
	return parseNetworkMessage(TransportMessageVersion, data)
}
