//go:build verif

package p2p

import (
	"bytes"
	"encoding/binary"
	"encoding/hex"
	"fmt"
	"math"
	"sort"
	"strings"
	"testing"

	"filippo.io/edwards25519"
	"github.com/MixinNetwork/mixin/common"
	"github.com/MixinNetwork/mixin/crypto"
	"github.com/MixinNetwork/mixin/verifmc"
	"github.com/MixinNetwork/mixin/verifmc/fixc"
	"github.com/dgraph-io/ristretto/v2"
)

// C08 — peer message parsing is total and faithful.
//
// Bounded-exhaustive enumeration (E1) against the real parseNetworkMessage,
// parseTransactionsPayload, build*Message and the sync point codec:
//
//   totality     every type byte 0..255 x every payload length 0..300 x a menu
//                of fill patterns; every truncation, every single-byte
//                substitution by {0,1,0x7f,0xff} and every 2/4-byte length
//                field overwrite at every offset of every builder output.
//                Oracle: no panic, error xor message, Type echoes byte 0,
//                every accepted must-be-valid point passes CheckKey.
//   faithfulness builders x argument menus; Parse(build(x)) has the same type
//                and field-wise equal contents.
//   points       a menu of invalid encodings substituted into every point
//                position of every builder output must be refused.

// ---------------------------------------------------------------- fixtures

type c08Handle struct {
	key   crypto.Key
	graph []*SyncPoint
}

func (h *c08Handle) GetCacheStore() *ristretto.Cache[[]byte, any] { return nil }
func (h *c08Handle) SignData(data []byte) crypto.Signature {
	return h.key.Sign(crypto.Blake3Hash(data))
}
func (h *c08Handle) BuildAuthenticationMessage(crypto.Hash) []byte { return nil }
func (h *c08Handle) AuthenticateAs(crypto.Hash, []byte, int64) (*AuthToken, error) {
	return nil, fmt.Errorf("c08: not used")
}
func (h *c08Handle) BuildGraph() []*SyncPoint { return h.graph }
func (h *c08Handle) UpdateSyncPoint(crypto.Hash, []*SyncPoint, []byte, *crypto.Signature) error {
	return nil
}
func (h *c08Handle) ReadAllNodesWithoutState() []crypto.Hash { return nil }
func (h *c08Handle) ReadSnapshotsSinceTopology(uint64, uint64) ([]*common.SnapshotWithTopologicalOrder, error) {
	return nil, nil
}
func (h *c08Handle) ReadSnapshotsForNodeRound(crypto.Hash, uint64) ([]*common.SnapshotWithTopologicalOrder, error) {
	return nil, nil
}
func (h *c08Handle) SendTransactionToPeer(crypto.Hash, crypto.Hash) error          { return nil }
func (h *c08Handle) SendTransactionsToPeer(crypto.Hash, []crypto.Hash, bool) error { return nil }
func (h *c08Handle) CacheQueueTransactions(crypto.Hash, []*common.VersionedTransaction) error {
	return nil
}
func (h *c08Handle) CacheStoreTransactions(crypto.Hash, []*common.VersionedTransaction) error {
	return nil
}
func (h *c08Handle) CosiQueueExternalAnnouncement(crypto.Hash, *common.Snapshot, *crypto.Key, *crypto.Signature) error {
	return nil
}
func (h *c08Handle) CosiAggregateSelfCommitments(crypto.Hash, crypto.Hash, *crypto.Key, []crypto.Hash, []byte, *crypto.Signature) error {
	return nil
}
func (h *c08Handle) CosiQueueExternalChallenge(crypto.Hash, crypto.Hash, *crypto.CosiSignature, []*common.VersionedTransaction) error {
	return nil
}
func (h *c08Handle) CosiQueueExternalFullChallenge(crypto.Hash, *common.Snapshot, *crypto.Key, *crypto.Key, *crypto.CosiSignature, []*common.VersionedTransaction) error {
	return nil
}
func (h *c08Handle) CosiAggregateSelfResponses(crypto.Hash, crypto.Hash, *[32]byte) error { return nil }
func (h *c08Handle) VerifyAndQueueAppendSnapshotFinalization(crypto.Hash, *common.Snapshot) error {
	return nil
}
func (h *c08Handle) CosiQueueExternalPreCommitments(crypto.Hash, []*crypto.Key, []byte, *crypto.Signature) error {
	return nil
}

// the message types the parser knows (constants of p2p/handle.go)
var c08KnownTypes = []byte{
	PeerMessageTypePing, PeerMessageTypeAuthentication, PeerMessageTypeGraph, PeerMessageTypeSnapshotConfirm,
	PeerMessageTypeTransactionRequest, PeerMessageTypeTransaction, PeerMessageTypeTransactionBundle,
	PeerMessageTypeFinalizedTransactionBundle, PeerMessageTypePreCommitments,
	PeerMessageTypeBatchSnapshotAnnouncement, PeerMessageTypeBatchSnapshotCommitment,
	PeerMessageTypeBatchTransactionChallenge, PeerMessageTypeBatchSnapshotResponse,
	PeerMessageTypeBatchFullChallenge, PeerMessageTypeBatchSnapshotFinalization,
	PeerMessageTypeRelay, PeerMessageTypeConsumers,
}

func c08IsKnown(t byte) bool { return bytes.IndexByte(c08KnownTypes, t) >= 0 }

type c08SnapSpec struct {
	name  string
	round uint64
	ts    uint64
	refs  bool
	ntx   int
	mask  uint64 // 0 = unsigned
}

// fresh returns a new snapshot value (the encoder sorts Transactions in place,
// so the expected value is always an independent copy).
func (sp c08SnapSpec) fresh() *common.Snapshot {
	s := &common.Snapshot{
		Version:     common.SnapshotVersionCommonEncoding,
		NodeId:      fixc.Hash("c08-node-" + sp.name),
		RoundNumber: sp.round,
		Timestamp:   sp.ts,
	}
	if sp.refs {
		s.References = &common.RoundLink{Self: fixc.Hash("c08-self-" + sp.name), External: fixc.Hash("c08-ext-" + sp.name)}
	}
	for i := 0; i < sp.ntx; i++ {
		s.Transactions = append(s.Transactions, fixc.Hash(fmt.Sprintf("c08-snaptx-%d", i)))
	}
	if sp.mask != 0 {
		sig := &crypto.CosiSignature{Mask: sp.mask}
		for i := range sig.Signature {
			sig.Signature[i] = byte(0xa0 + i)
		}
		s.Signature = sig
	}
	return s
}

// expected = fresh with the transaction list in canonical (sorted) order.
func (sp c08SnapSpec) expected() *common.Snapshot {
	s := sp.fresh()
	sort.Slice(s.Transactions, func(i, j int) bool {
		return bytes.Compare(s.Transactions[i][:], s.Transactions[j][:]) < 0
	})
	return s
}

func c08SnapSpecs() []c08SnapSpec {
	return []c08SnapSpec{
		{"r0-unsigned", 0, 1, false, 1, 0},
		{"r0-signed", 0, 1, false, 1, 1},
		{"r7-unsigned", 7, 11, true, 1, 0},
		{"r7-signed", 7, 11, true, 2, 0x7f},
		{"rmax-signed", math.MaxUint64, math.MaxUint64, true, 3, math.MaxUint64},
		{"r9-unsigned-255", 9, 12, true, 255, 0},
		{"r9-signed-255", 9, 12, true, 255, 1 << 63},
	}
}

func c08SnapDiff(want, got *common.Snapshot, wantSig *crypto.CosiSignature) string {
	switch {
	case got == nil:
		return "snapshot is nil"
	case got.Version != want.Version:
		return fmt.Sprintf("snapshot version %d != %d", got.Version, want.Version)
	case got.NodeId != want.NodeId:
		return "snapshot node id differs"
	case got.RoundNumber != want.RoundNumber:
		return fmt.Sprintf("snapshot round %d != %d", got.RoundNumber, want.RoundNumber)
	case got.Timestamp != want.Timestamp:
		return fmt.Sprintf("snapshot timestamp %d != %d", got.Timestamp, want.Timestamp)
	case (got.References == nil) != (want.References == nil):
		return "snapshot references nil-ness differs"
	case want.References != nil && *got.References != *want.References:
		return "snapshot references differ"
	case len(got.Transactions) != len(want.Transactions):
		return fmt.Sprintf("snapshot has %d transactions, want %d", len(got.Transactions), len(want.Transactions))
	case (got.Signature == nil) != (wantSig == nil):
		return "snapshot signature nil-ness differs"
	case wantSig != nil && (got.Signature.Mask != wantSig.Mask || got.Signature.Signature != wantSig.Signature):
		return "snapshot signature differs"
	}
	for i := range want.Transactions {
		if got.Transactions[i] != want.Transactions[i] {
			return fmt.Sprintf("snapshot transaction %d differs", i)
		}
	}
	if got.PayloadHash() != want.PayloadHash() {
		return "snapshot payload hash differs"
	}
	return ""
}

func c08TxsDiff(want, got []*common.VersionedTransaction) string {
	if len(want) != len(got) {
		return fmt.Sprintf("%d transactions, want %d", len(got), len(want))
	}
	var lastWant *common.VersionedTransaction
	var lastBytes []byte
	for i := range want {
		if got[i] == nil {
			return fmt.Sprintf("transaction %d is nil", i)
		}
		if want[i] != lastWant {
			lastWant, lastBytes = want[i], want[i].Marshal()
		}
		if !bytes.Equal(got[i].Marshal(), lastBytes) {
			return fmt.Sprintf("transaction %d marshals differently", i)
		}
		if got[i].PayloadHash() != want[i].PayloadHash() {
			return fmt.Sprintf("transaction %d payload hash differs", i)
		}
	}
	return ""
}

type c08Point struct {
	off   int
	field string
}

type c08Case struct {
	name    string
	builder string
	vclass  string // canonical class of a faithfulness failure of this case
	data    []byte
	verify  func(m *PeerMessage) string
	refuse  string // non-empty: the statement lets the parser refuse this output (why)
	points  []c08Point
}

type c08Fixture struct {
	h        *c08Handle
	p1, p2   crypto.Key // valid points
	txs      map[string]*common.VersionedTransaction
	snapWire []byte // a valid marshalled snapshot
	txWire   []byte // a valid marshalled transaction
	cases    []*c08Case
}

func c08Build(c *verifmc.Check) *c08Fixture {
	fx := &c08Fixture{h: &c08Handle{key: fixc.Key("c08-handle")}}
	fx.p1, fx.p2 = fixc.Key("c08-R1").Public(), fixc.Key("c08-R2").Public()
	spend := fixc.Key("c08-spend")
	spendPub := spend.Public()
	handlePub := fx.h.key.Public()

	// ---- transactions
	net := fixc.NewNet(7, "c08")
	a1, a2 := fixc.Addr("c08-a1"), fixc.Addr("c08-a2")
	small := common.NewTransactionV5(common.XINAssetId).AsVersioned()
	extraTx := common.NewTransactionV5(common.XINAssetId)
	extraTx.Extra = bytes.Repeat([]byte{4}, 220)
	extra := extraTx.AsVersioned()
	deposit := net.DepositXIN("c08-deposit", "12.5", []*common.Address{&a1, &a2}, 2)
	transfer := fixc.Transfer(common.XINAssetId,
		[]*common.Input{{Hash: fixc.Hash("c08-in0"), Index: 0}, {Hash: fixc.Hash("c08-in1"), Index: 3}},
		[]fixc.Out{{To: []*common.Address{&a1}, T: 1, Amount: "1"}, {To: []*common.Address{&a1, &a2}, T: 1, Amount: "0.00000001"}},
		"c08-transfer").AsVersioned()
	fx.txs = map[string]*common.VersionedTransaction{"small": small, "extra": extra, "deposit": deposit, "transfer": transfer}
	fx.txWire = deposit.Marshal()
	for name, tx := range fx.txs {
		back, err := common.UnmarshalVersionedTransaction(tx.Marshal())
		c.Require(err == nil && back != nil && bytes.Equal(back.Marshal(), tx.Marshal()), "fixture transaction %s does not round trip: %v", name, err)
	}
	many := make([]*common.VersionedTransaction, 255)
	for i := range many {
		many[i] = small
	}
	type txList struct {
		name string
		l    []*common.VersionedTransaction
	}
	txLists := []txList{
		{"0", nil},
		{"1", []*common.VersionedTransaction{deposit}},
		{"2", []*common.VersionedTransaction{small, transfer}},
		{"255", many},
	}
	if c.Thorough() {
		txLists = append(txLists, txList{"4", []*common.VersionedTransaction{extra, deposit, transfer, small}})
	}

	specs := c08SnapSpecs()
	fx.snapWire = specs[3].fresh().VersionedMarshal()
	hashes := []struct {
		name string
		h    crypto.Hash
	}{{"zero", crypto.Hash{}}, {"ff", func() (h crypto.Hash) {
		for i := range h {
			h[i] = 0xff
		}
		return
	}()}, {"h", fixc.Hash("c08-h")}}

	add := func(cs *c08Case, build func() []byte) {
		if p := verifmc.Catch(func() { cs.data = build() }); p != nil {
			c.Violation("faithful:"+cs.builder+"-builder-panic", fmt.Sprintf("%s: builder panicked on an argument inside the quantifier: %v", cs.name, p), map[string]any{"case": cs.name})
			return
		}
		fx.cases = append(fx.cases, cs)
	}
	typeIs := func(m *PeerMessage, t byte) string {
		if m.Type != t {
			return fmt.Sprintf("type %d, want %d", m.Type, t)
		}
		return ""
	}
	first := func(ss ...string) string {
		for _, s := range ss {
			if s != "" {
				return s
			}
		}
		return ""
	}
	sigIs := func(m *PeerMessage, pub crypto.Key, signed []byte, wire []byte) string {
		if m.signature == nil {
			return "signature not extracted"
		}
		if !bytes.Equal(m.signature[:], wire) {
			return "signature bytes differ from the wire"
		}
		if !pub.Verify(crypto.Blake3Hash(signed), *m.signature) {
			return "extracted signature does not verify over the signed part"
		}
		return ""
	}

	// ---- announcement: snapshots x R
	for _, sp := range specs {
		for ri, R := range []crypto.Key{fx.p1, fx.p2} {
			want := sp.expected()
			cs := &c08Case{name: fmt.Sprintf("announcement(%s,R%d)", sp.name, ri+1), builder: "announcement", vclass: "announcement",
				points: []c08Point{{65, "commitment"}}}
			cs.verify = func(m *PeerMessage) string {
				return first(typeIs(m, PeerMessageTypeBatchSnapshotAnnouncement),
					c08SnapDiff(want, m.Snapshot, want.Signature),
					map[bool]string{false: "commitment differs"}[m.Commitment == R],
					sigIs(m, spendPub, cs.data[65:], cs.data[1:65]))
			}
			add(cs, func() []byte { return buildBatchSnapshotAnnouncementMessage(sp.fresh(), R, spend) })
		}
	}
	// ---- snapshot commitment: snap x want lists
	wantCounts := verifmc.Pick(c, []int{0, 1, 3}, []int{0, 1, 2, 3, 255})
	for _, hh := range hashes {
		for _, n := range wantCounts {
			var wants []crypto.Hash
			for i := 0; i < n; i++ {
				wants = append(wants, fixc.Hash(fmt.Sprintf("c08-want-%d", i)))
			}
			snap, R := hh.h, fx.p1
			cs := &c08Case{name: fmt.Sprintf("snapshot-commitment(%s,want=%d)", hh.name, n), builder: "snapshot-commitment",
				vclass: fmt.Sprintf("snapshot-commitment-want%d", min(n, 2)), points: []c08Point{{97, "commitment"}}}
			cs.verify = func(m *PeerMessage) string {
				unsigned := append(append(append([]byte{}, snap[:]...), R[:]...), func() (b []byte) {
					for _, w := range wants {
						b = append(b, w[:]...)
					}
					return
				}()...)
				d := first(typeIs(m, PeerMessageTypeBatchSnapshotCommitment),
					map[bool]string{false: "snapshot hash differs"}[m.SnapshotHash == snap],
					map[bool]string{false: "commitment differs"}[m.Commitment == R],
					map[bool]string{false: fmt.Sprintf("%d want hashes, want %d", len(m.WantTxs), len(wants))}[len(m.WantTxs) == len(wants)])
				if d != "" {
					return d
				}
				for i := range wants {
					if m.WantTxs[i] != wants[i] {
						return fmt.Sprintf("want hash %d differs", i)
					}
				}
				return first(map[bool]string{false: "unsigned part differs"}[bytes.Equal(m.unsigned, unsigned)],
					sigIs(m, handlePub, unsigned, cs.data[1:65]))
			}
			add(cs, func() []byte { return buildBatchSnapshotCommitmentMessage(fx.h, snap, R, wants) })
		}
	}
	// ---- transaction challenge: cosi x tx lists
	cosis := []*crypto.CosiSignature{{Mask: 1}, {Mask: 0}, {Mask: math.MaxUint64}}
	for i := range cosis[0].Signature {
		cosis[0].Signature[i] = byte(i + 1)
		cosis[2].Signature[i] = 0xff
	}
	for ci, cosi := range cosis {
		for _, tl := range txLists {
			snap := fixc.Hash("c08-challenge-snap")
			cs := &c08Case{name: fmt.Sprintf("transaction-challenge(cosi%d,txs=%s)", ci, tl.name), builder: "transaction-challenge", vclass: "transaction-challenge"}
			cs.verify = func(m *PeerMessage) string {
				return first(typeIs(m, PeerMessageTypeBatchTransactionChallenge),
					map[bool]string{false: "snapshot hash differs"}[m.SnapshotHash == snap],
					map[bool]string{false: "cosi signature differs"}[m.Cosi.Signature == cosi.Signature],
					map[bool]string{false: fmt.Sprintf("cosi mask %d, want %d", m.Cosi.Mask, cosi.Mask)}[m.Cosi.Mask == cosi.Mask],
					c08TxsDiff(tl.l, m.Transactions))
			}
			add(cs, func() []byte { return buildBatchTransactionChallengeMessage(snap, cosi, tl.l) })
		}
	}
	// ---- full challenge: snapshots x tx lists
	for _, sp := range specs {
		for _, tl := range txLists {
			if sp.ntx == 255 && tl.name != "1" || tl.name == "255" && sp.name != "r7-signed" {
				continue // the two large axes are crossed with one representative of the other
			}
			want := sp.expected()
			cs := &c08Case{name: fmt.Sprintf("full-challenge(%s,txs=%s)", sp.name, tl.name), builder: "full-challenge", vclass: "full-challenge"}
			if sp.round == 0 && len(tl.l) == 0 {
				cs.vclass = "full-challenge-round0-empty-list" // the shortest output a builder argument in the quantifier can give
			}
			if sp.mask == 0 {
				cs.refuse = "a full challenge carries the aggregated signature inside the snapshot; one without it is not a message the node builds"
			}
			snapLen := len(sp.fresh().VersionedMarshal())
			cs.points = []c08Point{{5 + snapLen, "commitment"}, {5 + snapLen + 32, "challenge"}}
			cs.verify = func(m *PeerMessage) string {
				return first(typeIs(m, PeerMessageTypeBatchFullChallenge),
					c08SnapDiff(want, m.Snapshot, nil),
					map[bool]string{false: "cosi differs from the snapshot's signature"}[want.Signature != nil && m.Cosi.Mask == want.Signature.Mask && m.Cosi.Signature == want.Signature.Signature],
					map[bool]string{false: "commitment differs"}[m.Commitment == fx.p1],
					map[bool]string{false: "challenge differs"}[m.Challenge == fx.p2],
					c08TxsDiff(tl.l, m.Transactions))
			}
			add(cs, func() []byte { return buildBatchFullChallengeMessage(sp.fresh(), &fx.p1, &fx.p2, tl.l) })
		}
	}
	// ---- response
	for ri, si := range [][32]byte{{}, func() (b [32]byte) {
		for i := range b {
			b[i] = 0xff
		}
		return
	}(), func() (b [32]byte) {
		for i := range b {
			b[i] = byte(i)
		}
		return
	}()} {
		for _, hh := range hashes {
			snap := hh.h
			cs := &c08Case{name: fmt.Sprintf("response(%s,si%d)", hh.name, ri), builder: "response", vclass: "response"}
			cs.verify = func(m *PeerMessage) string {
				return first(typeIs(m, PeerMessageTypeBatchSnapshotResponse),
					map[bool]string{false: "snapshot hash differs"}[m.SnapshotHash == snap],
					map[bool]string{false: "response differs"}[m.Response == si])
			}
			add(cs, func() []byte { return buildSnapshotResponseMessage(snap, &si) })
		}
	}
	// ---- finalization
	for _, sp := range specs {
		want := sp.expected()
		cs := &c08Case{name: fmt.Sprintf("finalization(%s)", sp.name), builder: "finalization", vclass: "finalization"}
		cs.verify = func(m *PeerMessage) string {
			return first(typeIs(m, PeerMessageTypeBatchSnapshotFinalization), c08SnapDiff(want, m.Snapshot, want.Signature))
		}
		add(cs, func() []byte { return buildBatchSnapshotFinalizationMessage(sp.fresh()) })
	}
	// ---- confirm / request
	for _, hh := range hashes {
		h := hh.h
		cs := &c08Case{name: "confirm(" + hh.name + ")", builder: "confirm", vclass: "confirm"}
		cs.verify = func(m *PeerMessage) string {
			return first(typeIs(m, PeerMessageTypeSnapshotConfirm), map[bool]string{false: "snapshot hash differs"}[m.SnapshotHash == h])
		}
		add(cs, func() []byte { return buildSnapshotConfirmMessage(h) })
		cr := &c08Case{name: "request(" + hh.name + ")", builder: "request", vclass: "request"}
		cr.verify = func(m *PeerMessage) string {
			return first(typeIs(m, PeerMessageTypeTransactionRequest), map[bool]string{false: "transaction hash differs"}[m.TransactionHash == h])
		}
		add(cr, func() []byte { return buildTransactionRequestMessage(h) })
	}
	// ---- single transaction
	for _, name := range []string{"small", "extra", "deposit", "transfer"} {
		tx := fx.txs[name]
		cs := &c08Case{name: "transaction(" + name + ")", builder: "transaction", vclass: "transaction"}
		cs.verify = func(m *PeerMessage) string {
			return first(typeIs(m, PeerMessageTypeTransaction), c08TxsDiff([]*common.VersionedTransaction{tx}, m.Transactions))
		}
		add(cs, func() []byte { return buildTransactionMessage(tx) })
	}
	// ---- bundles
	for _, typ := range []byte{PeerMessageTypeTransactionBundle, PeerMessageTypeFinalizedTransactionBundle} {
		for _, tl := range txLists {
			cs := &c08Case{name: fmt.Sprintf("bundle(type=%d,txs=%s)", typ, tl.name), builder: "bundle", vclass: "bundle"}
			cs.verify = func(m *PeerMessage) string {
				return first(typeIs(m, typ), c08TxsDiff(tl.l, m.Transactions))
			}
			add(cs, func() []byte { return buildTransactionsMessage(tl.l, typ) })
		}
	}
	// ---- graph
	for _, n := range verifmc.Pick(c, []int{0, 1, 3}, []int{0, 1, 2, 3, 512}) {
		var pts []*SyncPoint
		for i := 0; i < n; i++ {
			pts = append(pts, &SyncPoint{NodeId: fixc.Hash(fmt.Sprintf("c08-sp-node-%d", i)),
				Number: []uint64{0, 1, math.MaxUint64}[i%3], Hash: fixc.Hash(fmt.Sprintf("c08-sp-hash-%d", i))})
		}
		cs := &c08Case{name: fmt.Sprintf("graph(points=%d)", n), builder: "graph", vclass: "graph"}
		cs.verify = func(m *PeerMessage) string {
			d := first(typeIs(m, PeerMessageTypeGraph), c08PointsDiff(pts, m.Graph))
			if d != "" {
				return d
			}
			return first(map[bool]string{false: "unsigned part differs"}[bytes.Equal(m.unsigned, cs.data[65:])],
				sigIs(m, handlePub, cs.data[65:], cs.data[1:65]))
		}
		add(cs, func() []byte {
			return buildGraphMessage(&c08Handle{key: fx.h.key, graph: pts})
		})
	}
	// ---- pre-commitments
	for _, n := range []int{0, 1, 2, 1024} {
		keys := make([]*crypto.Key, n)
		for i := range keys {
			k := fixc.Key(fmt.Sprintf("c08-commitment-%d", i)).Public()
			keys[i] = &k
		}
		cs := &c08Case{name: fmt.Sprintf("commitments(n=%d)", n), builder: "commitments", vclass: map[bool]string{true: "commitments-empty-list", false: "commitments"}[n == 0]}
		for i := range keys {
			cs.points = append(cs.points, c08Point{67 + 32*i, map[bool]string{true: "item0", false: "itemN"}[i == 0]})
		}
		cs.verify = func(m *PeerMessage) string {
			d := first(typeIs(m, PeerMessageTypePreCommitments),
				map[bool]string{false: fmt.Sprintf("%d commitments, want %d", len(m.Commitments), n)}[len(m.Commitments) == n])
			if d != "" {
				return d
			}
			for i := range keys {
				if m.Commitments[i] == nil || *m.Commitments[i] != *keys[i] {
					return fmt.Sprintf("commitment %d differs", i)
				}
			}
			return first(map[bool]string{false: "unsigned part differs"}[bytes.Equal(m.unsigned, cs.data[65:])],
				sigIs(m, handlePub, cs.data[65:], cs.data[1:65]))
		}
		add(cs, func() []byte { return buildCommitmentsMessage(fx.h, keys) })
	}
	// ---- authentication
	for i, fill := range []byte{0x00, 0x5a} {
		body := bytes.Repeat([]byte{fill}, authenticationPayloadSize)
		cs := &c08Case{name: fmt.Sprintf("authentication(%d)", i), builder: "authentication", vclass: "authentication"}
		cs.verify = func(m *PeerMessage) string {
			return first(typeIs(m, PeerMessageTypeAuthentication), map[bool]string{false: "data differs"}[bytes.Equal(m.Data, body)])
		}
		add(cs, func() []byte { return buildAuthenticationMessage(body) })
	}
	// ---- relay / consumers (Peer methods)
	me := NewPeer(nil, fixc.Hash("c08-me"), "127.0.0.1:0", true)
	relayTo := fixc.Hash("c08-to")
	for i, inner := range [][]byte{nil, buildSnapshotConfirmMessage(fixc.Hash("c08-h"))} {
		cs := &c08Case{name: fmt.Sprintf("relay(%d)", i), builder: "relay", vclass: "relay"}
		cs.verify = func(m *PeerMessage) string {
			want := append(append(append([]byte{PeerMessageTypeRelay}, me.IdForNetwork[:]...), relayTo[:]...), inner...)
			return first(typeIs(m, PeerMessageTypeRelay), map[bool]string{false: "data differs"}[bytes.Equal(m.Data, want)])
		}
		add(cs, func() []byte { return me.buildRelayMessage(relayTo, inner) })
	}
	for n := 0; n < 2; n++ {
		auth := bytes.Repeat([]byte{9}, authenticationPayloadSize)
		id := fixc.Hash("c08-consumer")
		cs := &c08Case{name: fmt.Sprintf("consumers(%d)", n), builder: "consumers", vclass: "consumers"}
		cs.verify = func(m *PeerMessage) string {
			var want []byte
			if n == 1 {
				want = append(append(want, id[:]...), auth...)
			}
			return first(typeIs(m, PeerMessageTypeConsumers), map[bool]string{false: "data differs"}[bytes.Equal(m.Data, want)])
		}
		add(cs, func() []byte {
			p := NewPeer(nil, fixc.Hash("c08-me"), "127.0.0.1:0", true)
			if n == 1 {
				cp := NewPeer(nil, id, "127.0.0.1:1", false)
				cp.consumerAuth = &AuthToken{Data: auth}
				p.consumers.Set(id, cp)
			}
			return p.buildConsumersMessage()
		})
	}
	return fx
}

func c08PointsDiff(want, got []*SyncPoint) string {
	if len(want) != len(got) {
		return fmt.Sprintf("%d sync points, want %d", len(got), len(want))
	}
	for i := range want {
		if got[i] == nil || *got[i] != *want[i] {
			return fmt.Sprintf("sync point %d differs", i)
		}
	}
	return ""
}

// c08InvalidPoints: encodings that are not valid (prime-order, canonical)
// curve points, constructed without the code under test.
func c08InvalidPoints(c *verifmc.Check, valid crypto.Key) map[string]crypto.Key {
	out := map[string]crypto.Key{}
	set := func(name string, b []byte) {
		var k crypto.Key
		copy(k[:], b)
		out[name] = k
	}
	unhex := func(s string) []byte { b, _ := hex.DecodeString(s); return b }
	set("zero(order4)", make([]byte, 32))
	set("identity", append([]byte{1}, make([]byte, 31)...))
	set("ff(non-canonical-y)", bytes.Repeat([]byte{0xff}, 32))
	set("y=p(non-canonical-0)", unhex("edffffffffffffffffffffffffffffffffffffffffffffffffffffffffffff7f"))
	set("y=p+1(non-canonical-identity)", unhex("eeffffffffffffffffffffffffffffffffffffffffffffffffffffffffffff7f"))
	set("y=-1(order2)", unhex("ecffffffffffffffffffffffffffffffffffffffffffffffffffffffffffff7f"))
	set("negative-zero-x", append(append([]byte{1}, make([]byte, 30)...), 0x80))
	order8 := unhex("c7176a703d4dd84fba3c0b760d10670f2a2053fa2c39ccc64ec7fd7792ac037a")
	set("order8", order8)
	// first small y that is not the y-coordinate of any curve point
	for y := byte(2); y < 255; y++ {
		b := append([]byte{y}, make([]byte, 31)...)
		if _, err := edwards25519.NewIdentityPoint().SetBytes(b); err != nil {
			set(fmt.Sprintf("off-curve(y=%d)", y), b)
			break
		}
	}
	// prime-order point plus a torsion point: on the curve, canonical, wrong subgroup
	P, err1 := edwards25519.NewIdentityPoint().SetBytes(valid[:])
	T, err2 := edwards25519.NewIdentityPoint().SetBytes(order8)
	c.Require(err1 == nil && err2 == nil, "invalid point menu construction failed: %v %v", err1, err2)
	if err1 == nil && err2 == nil {
		set("mixed-order(P+T8)", edwards25519.NewIdentityPoint().Add(P, T).Bytes())
	}
	c.Require(len(out) == 10, "invalid point menu has %d entries, want 10", len(out))
	for name, k := range out {
		c.Require(!k.CheckKey(), "menu point %s is accepted by crypto.Key.CheckKey (trusted base of this check)", name)
	}
	c.Require(valid.CheckKey(), "fixture point is not valid")
	return out
}

// ------------------------------------------------------------------ oracle

// c08Oracle parses data and applies the totality oracle. bad == "" when fine.
func c08Oracle(data []byte) (m *PeerMessage, err error, bad, desc string) {
	p, site := verifmc.CatchSite(func() { m, err = parseNetworkMessage(TransportMessageVersion, data) })
	switch {
	case p != nil:
		return nil, nil, "total:panic", fmt.Sprintf("parseNetworkMessage panicked: %v at %s", p, site)
	case err != nil && m != nil:
		return m, err, "total:error-and-message", fmt.Sprintf("parseNetworkMessage returned both a message and the error %v", err)
	case err == nil && m == nil:
		return m, err, "total:neither", "parseNetworkMessage returned neither a message nor an error"
	case err != nil:
		return nil, err, "", ""
	}
	if len(data) == 0 || m.Type != data[0] {
		return m, nil, "total:type-mismatch", fmt.Sprintf("accepted message has type %d for input of %d bytes", m.Type, len(data))
	}
	invalid := ""
	switch m.Type {
	case PeerMessageTypePreCommitments:
		for i, k := range m.Commitments {
			if k == nil || !k.CheckKey() {
				invalid = fmt.Sprintf("commitments[%d]", i)
				break
			}
		}
	case PeerMessageTypeBatchSnapshotAnnouncement, PeerMessageTypeBatchSnapshotCommitment:
		if !m.Commitment.CheckKey() {
			invalid = "commitment"
		}
	case PeerMessageTypeBatchFullChallenge:
		if !m.Commitment.CheckKey() {
			invalid = "commitment"
		} else if !m.Challenge.CheckKey() {
			invalid = "challenge"
		}
	}
	if invalid != "" {
		return m, nil, "points:accepted-invalid", "accepted message carries an invalid curve point in " + invalid
	}
	return m, nil, "", ""
}

func c08Hex(b []byte) string {
	if len(b) > 2048 {
		return hex.EncodeToString(b[:2048]) + fmt.Sprintf("...(%d bytes)", len(b))
	}
	return hex.EncodeToString(b)
}

// ------------------------------------------------------------------- check

func TestMC_C08(t *testing.T) {
	c := verifmc.Start(t, "C08", "exploration")
	defer c.Finish()
	c.SetRule("totality: full product type byte 0..255 x payload length 0..300 x fill patterns (zeros, 0xff, ascending, valid point repeated, snapshot||transaction wire cycled, transaction wire cycled, type-aligned valid body cut/zero-padded, and 7 real length-field positions x {0,1,rest,rest+1,max}); every truncation, every single-byte substitution by {0,1,0x7f,0xff} and every 2/4-byte length overwrite {0,1,rest,rest+1,max} at every offset of every builder output; same sweeps directly on parseTransactionsPayload and unmarshalSyncPoints. faithfulness: every builder x its argument menu. points: invalid-encoding menu x every point position of every builder output. A case is distinct by (part, type or builder case, length/offset, pattern/value); inputs of unknown type bytes are trivial and counted once per type")
	c.Assume("crypto.Key.CheckKey is the definition of a valid curve point (the menu of invalid encodings is built independently and required to be refused by it)",
		"transaction equality is equality of Marshal() bytes and payload hash; snapshot equality is field-wise on every encoded field (Hash is derived, not carried)",
		"a full challenge built from a snapshot without aggregated signature is not a message the node builds; its refusal is recorded as stricter, not as a violation")

	fx := c08Build(c)
	invalid := c08InvalidPoints(c, fx.p1)
	var invalidNames []string
	for n := range invalid {
		invalidNames = append(invalidNames, n)
	}
	sort.Strings(invalidNames)

	tkey := func(t byte) string {
		if c08IsKnown(t) {
			return fmt.Sprintf("t%d", t)
		}
		return "unknown-type"
	}
	// run one totality case; dkey is the distinct key (only built for known types)
	total := func(data []byte, dkey func() string, replay func() map[string]any) (*PeerMessage, error) {
		c.Eval(1)
		m, err, bad, desc := c08Oracle(data)
		var t byte
		if len(data) > 0 {
			t = data[0]
			if c08IsKnown(t) {
				c.Distinct(dkey())
			}
		}
		if bad != "" {
			c.Outcome(bad)
			r := replay()
			r["data_hex"] = c08Hex(data)
			c.Violation(fmt.Sprintf("%s:type%d", bad, t), fmt.Sprintf("%s (input %d bytes, type %d)", desc, len(data), t), r)
			return m, err
		}
		if len(data) == 0 && err != nil {
			c.Outcome("reject:empty-input")
		} else if err != nil {
			c.Outcome("reject:" + tkey(t))
		} else {
			c.Outcome("accept:" + tkey(t))
		}
		return m, err
	}

	// ================= faithfulness
	for _, cs := range fx.cases {
		c.Eval(1)
		c.Distinct("faithful|" + cs.name)
		replay := map[string]any{"part": "faithful", "case": cs.name, "data_hex": c08Hex(cs.data)}
		m, err, bad, desc := c08Oracle(cs.data)
		switch {
		case bad != "":
			c.Outcome(bad)
			c.Violation(bad+":"+cs.builder, cs.name+": "+desc, replay)
		case err != nil && cs.refuse != "":
			c.Outcome("faithful:refused-allowed")
			c.Stricter("parser refuses " + cs.builder + " output: " + cs.refuse)
		case err != nil:
			c.Outcome("faithful:refused")
			c.Violation("faithful:"+cs.vclass, fmt.Sprintf("%s: the builder's own %d-byte output is refused by parseNetworkMessage: %v", cs.name, len(cs.data), err), replay)
		case cs.refuse != "":
			c.Outcome("faithful:accepted-unsigned-full-challenge")
			c.Stricter("(not refused) " + cs.builder)
		default:
			if d := cs.verify(m); d != "" {
				c.Outcome("faithful:differs")
				c.Violation("faithful:"+cs.vclass, fmt.Sprintf("%s: Parse(build(x)) differs from x: %s", cs.name, d), replay)
			} else {
				c.Outcome("faithful:equal")
			}
		}
	}
	// codec-level round trips (parseTransactionsPayload, sync points) without the envelope
	for _, n := range verifmc.Pick(c, []int{0, 1, 3, 100}, []int{0, 1, 2, 3, 100, 1000}) {
		var pts []*SyncPoint
		for i := 0; i < n; i++ {
			pts = append(pts, &SyncPoint{NodeId: fixc.Hash(fmt.Sprintf("c08-cp-node-%d", i)), Number: uint64(i) << 40, Hash: fixc.Hash(fmt.Sprintf("c08-cp-hash-%d", i))})
		}
		c.Eval(1)
		c.Distinct(fmt.Sprintf("faithful|syncpoints|%d", n))
		var got []*SyncPoint
		var err error
		p := verifmc.Catch(func() { got, err = unmarshalSyncPoints(marshalSyncPoints(pts)) })
		if d := c08PointsDiff(pts, got); p != nil || err != nil || d != "" {
			c.Violation("faithful:sync-point-codec", fmt.Sprintf("unmarshalSyncPoints(marshalSyncPoints(%d points)): panic=%v err=%v %s", n, p, err, d), map[string]any{"part": "faithful", "points": n})
		} else {
			c.Outcome("faithful:equal")
		}
	}

	// ================= invalid points at every point position
	type ptJob struct {
		cs *c08Case
		pt c08Point
	}
	var ptJobs []ptJob
	for _, cs := range fx.cases {
		if cs.refuse != "" {
			continue // already refused as built; a substituted point proves nothing
		}
		for _, pt := range cs.points {
			ptJobs = append(ptJobs, ptJob{cs, pt})
		}
	}
	c.ParallelN(len(ptJobs), "invalid points", func(_, i int) {
		j := ptJobs[i]
		var valid crypto.Key
		copy(valid[:], j.cs.data[j.pt.off:j.pt.off+32])
		if !valid.CheckKey() {
			c.Require(false, "%s: offset %d does not hold a valid point (harness layout error)", j.cs.name, j.pt.off)
			return
		}
		buf := append([]byte(nil), j.cs.data...)
		buf = buf[:len(buf):len(buf)]
		for _, name := range invalidNames {
			k := invalid[name]
			copy(buf[j.pt.off:], k[:])
			c.Eval(1)
			c.Distinct(fmt.Sprintf("points|%s|%d|%s", j.cs.name, j.pt.off, name))
			m, err, bad, desc := c08Oracle(buf)
			replay := map[string]any{"part": "points", "case": j.cs.name, "offset": j.pt.off, "point": name, "point_hex": hex.EncodeToString(k[:]), "data_hex": c08Hex(buf)}
			switch {
			case bad != "" && !strings.HasPrefix(bad, "points:"):
				c.Outcome(bad)
				c.Violation(bad+":"+j.cs.builder, j.cs.name+": "+desc, replay)
			case err == nil:
				c.Outcome("points:accepted")
				_ = m
				c.Violation("points:"+j.cs.builder+"-"+j.pt.field, fmt.Sprintf("%s: invalid point %s at offset %d (%s) is accepted at parse time", j.cs.name, name, j.pt.off, j.pt.field), replay)
			default:
				c.Outcome("points:refused")
			}
		}
	})

	// ================= totality 1: type x length x pattern
	maxLen := 300
	pointFill := fx.p1[:]
	snapTx := append(append([]byte{}, fx.snapWire...), fx.txWire...)
	aligned := map[byte][]byte{}
	for _, cs := range fx.cases {
		if len(cs.data) == 0 {
			continue
		}
		// prefer, per type, the first case that parses and has a non-minimal body
		if _, ok := aligned[cs.data[0]]; !ok && len(cs.data) > 1 && len(cs.data) < 4096 && cs.refuse == "" {
			if _, err := parseNetworkMessage(TransportMessageVersion, cs.data); err == nil {
				aligned[cs.data[0]] = cs.data[1:]
			}
		}
	}
	type lenField struct{ off, width int }
	lenFields := []lenField{{0, 4}, {0, 1}, {1, 4}, {64, 2}, {68, 2}, {104, 1}, {105, 4}}
	lenValue := func(vi, width, rest int) uint64 {
		maxv := uint64(1)<<(8*width) - 1
		v := []uint64{0, 1, uint64(rest), uint64(rest + 1), maxv}[vi]
		return v & maxv
	}
	putField := func(b []byte, width int, v uint64) {
		switch width {
		case 1:
			b[0] = byte(v)
		case 2:
			binary.BigEndian.PutUint16(b, uint16(v))
		case 4:
			binary.BigEndian.PutUint32(b, uint32(v))
		}
	}
	basePatterns := []string{"zeros", "ff", "ascending", "point", "snapshot+tx", "tx", "aligned"}
	// fill writes payload pattern pi of length L for type t into p; false = variant not applicable
	fill := func(p []byte, t byte, pi int) bool {
		L := len(p)
		cyc := func(src []byte) {
			for i := range p {
				p[i] = src[i%len(src)]
			}
		}
		switch {
		case pi == 0:
			clear(p)
		case pi == 1:
			for i := range p {
				p[i] = 0xff
			}
		case pi == 2:
			for i := range p {
				p[i] = byte(i)
			}
		case pi == 3:
			cyc(pointFill)
		case pi == 4:
			cyc(snapTx)
		case pi == 5:
			cyc(fx.txWire)
		case pi == 6:
			body, ok := aligned[t]
			if !ok {
				body = fx.snapWire
			}
			clear(p)
			copy(p, body)
		default:
			k := pi - len(basePatterns)
			f, vi := lenFields[k/5], k%5
			if f.off+f.width > L {
				return false
			}
			cyc(pointFill)
			putField(p[f.off:], f.width, lenValue(vi, f.width, L-f.off-f.width))
		}
		return true
	}
	patName := func(pi int) string {
		if pi < len(basePatterns) {
			return basePatterns[pi]
		}
		k := pi - len(basePatterns)
		return fmt.Sprintf("len@%d/%d=%s", lenFields[k/5].off, lenFields[k/5].width, []string{"0", "1", "rest", "rest+1", "max"}[k%5])
	}
	nPat := len(basePatterns) + 5*len(lenFields)
	c.Set("sweep_patterns", nPat)
	// the empty input
	total(nil, func() string { return "sweep|empty" }, func() map[string]any { return map[string]any{"part": "sweep", "len": -1} })
	c.ParallelN(256, "type x length x pattern sweep", func(_, ti int) {
		t := byte(ti)
		buf := make([]byte, 1+maxLen)
		known := c08IsKnown(t)
		var trivialAccept, trivialReject int64
		for L := 0; L <= maxLen; L++ {
			data := buf[: 1+L : 1+L]
			for pi := 0; pi < nPat; pi++ {
				data[0] = t
				if !fill(data[1:], t, pi) {
					continue
				}
				if !known {
					// same oracle, bulk bookkeeping (2.6M trivial cases would
					// otherwise serialise on the evidence counters)
					_, err, bad, _ := c08Oracle(data)
					if bad == "" && err == nil {
						trivialAccept++
						continue
					} else if bad == "" {
						trivialReject++
						continue
					}
				}
				total(data, func() string { return fmt.Sprintf("sweep|%d|%d|%d", t, L, pi) },
					func() map[string]any {
						return map[string]any{"part": "sweep", "type": t, "len": L, "pattern": patName(pi)}
					})
			}
		}
		if !known {
			c.Distinct(fmt.Sprintf("sweep|unknown-type|%d", t))
			c.Eval(trivialAccept + trivialReject)
			c.Add("unknown_type_inputs_accepted", trivialAccept)
			c.Add("unknown_type_inputs_refused", trivialReject)
			if trivialAccept > 0 {
				c.Outcome("accept:unknown-type")
			}
			if trivialReject > 0 {
				c.Outcome("reject:unknown-type")
			}
		}
	})

	// ================= totality 2: mutations of every builder output
	quickBig := !c.Thorough()
	type mutJob struct {
		cs     *c08Case
		lo, hi int
	}
	var mutJobs []mutJob
	for _, cs := range fx.cases {
		for lo := 0; lo < len(cs.data); lo += 128 {
			mutJobs = append(mutJobs, mutJob{cs, lo, min(lo+128, len(cs.data))})
		}
	}
	subs := []byte{0, 1, 0x7f, 0xff}
	c.ParallelN(len(mutJobs), "builder output mutations", func(_, ji int) {
		j := mutJobs[ji]
		orig := j.cs.data
		n := len(orig)
		big := quickBig && n > 4096
		buf := make([]byte, n)
		copy(buf, orig)
		for pos := j.lo; pos < j.hi; pos++ {
			// truncation to pos bytes (exact capacity: an over-read must fault)
			tr := buf[:pos:pos]
			total(tr, func() string { return fmt.Sprintf("trunc|%s|%d", j.cs.name, pos) },
				func() map[string]any { return map[string]any{"part": "mutate", "case": j.cs.name, "op": "truncate", "len": pos} })
			// in the quick tier the long outputs (>4 KiB: 255-entry lists, 1024
			// commitments) get substitutions/length overwrites in their first
			// 640 and last 160 bytes and at every 32-byte boundary +-1
			if big && !(pos < 640 || pos >= n-160 || pos%32 <= 1 || pos%32 == 31) {
				continue
			}
			for _, v := range subs {
				if orig[pos] == v {
					continue
				}
				buf[pos] = v
				total(buf, func() string { return fmt.Sprintf("sub|%s|%d|%d", j.cs.name, pos, v) },
					func() map[string]any {
						return map[string]any{"part": "mutate", "case": j.cs.name, "op": "substitute", "pos": pos, "value": v}
					})
				buf[pos] = orig[pos]
			}
			for _, w := range []int{2, 4} {
				if pos+w > n {
					continue
				}
				for vi := 0; vi < 5; vi++ {
					v := lenValue(vi, w, n-pos-w)
					putField(buf[pos:], w, v)
					if !bytes.Equal(buf[pos:pos+w], orig[pos:pos+w]) {
						total(buf, func() string { return fmt.Sprintf("len|%s|%d|%d|%d", j.cs.name, pos, w, vi) },
							func() map[string]any {
								return map[string]any{"part": "mutate", "case": j.cs.name, "op": "length-field", "pos": pos, "width": w, "value": v}
							})
					}
					copy(buf[pos:pos+w], orig[pos:pos+w])
				}
			}
		}
	})
	if quickBig {
		c.Set("quick_tier_large_outputs", "outputs > 4096 bytes: all truncations; substitutions and length overwrites at offsets <640, the last 160 and every 32-byte boundary -1/+0/+1 (thorough tier: every offset)")
	}

	// ================= totality 3: the two inner codecs called directly
	hdr := marshalSyncPoints(nil)[:4]
	inner := func(kind string, b []byte, dkey string, replay map[string]any) {
		c.Eval(1)
		c.Distinct(dkey)
		var okRes, failed bool
		var err error
		var pts []*SyncPoint
		p, site := verifmc.CatchSite(func() {
			if kind == "txs" {
				var txs []*common.VersionedTransaction
				txs, err = parseTransactionsPayload(b)
				okRes = txs != nil
				for _, tx := range txs {
					if tx == nil {
						failed = true
					}
				}
			} else {
				pts, err = unmarshalSyncPoints(b)
				okRes = pts != nil
			}
		})
		replay["data_hex"] = c08Hex(b)
		switch {
		case p != nil:
			c.Outcome("total:panic")
			c.Violation("total:panic:"+kind, fmt.Sprintf("%s decoder panicked: %v at %s", kind, p, site), replay)
		case (err != nil) == okRes || failed:
			c.Outcome("total:error-xor-result")
			c.Violation("total:error-xor-result:"+kind, fmt.Sprintf("%s decoder: err=%v result-present=%v nil-entry=%v", kind, err, okRes, failed), replay)
		case err != nil:
			c.Outcome("reject:" + kind)
		default:
			c.Outcome("accept:" + kind)
			if kind == "points" {
				// what was accepted must be what the bytes say (prefix re-encoding)
				re := marshalSyncPoints(pts)
				if len(re) > len(b) || !bytes.Equal(re, b[:len(re)]) {
					c.Violation("faithful:sync-point-decode", fmt.Sprintf("unmarshalSyncPoints accepted %d points that do not re-encode to the input prefix", len(pts)), replay)
				}
			}
		}
	}
	c.ParallelN(maxLen+1, "inner codec sweep", func(_, L int) {
		b := make([]byte, L)
		for pi := 0; pi < 6; pi++ {
			fill(b, 0, pi)
			for _, kind := range []string{"txs", "points"} {
				inner(kind, b[:L:L], fmt.Sprintf("inner|%s|%d|%d", kind, L, pi), map[string]any{"part": "inner-sweep", "decoder": kind, "len": L, "pattern": patName(pi)})
			}
		}
		// transactions payload: count byte x first size field
		if L >= 1 {
			for _, cnt := range []int{0, 1, 2, 255} {
				for vi := 0; vi < 5; vi++ {
					fill(b, 0, 5)
					b[0] = byte(cnt)
					if L >= 5 {
						putField(b[1:], 4, lenValue(vi, 4, L-5))
					} else if vi > 0 {
						continue
					}
					inner("txs", b[:L:L], fmt.Sprintf("inner|txs|%d|cnt%d|%d", L, cnt, vi), map[string]any{"part": "inner-sweep", "decoder": "txs", "len": L, "count": cnt, "size": vi})
				}
			}
		}
		// sync points: valid header, count in {0,1,fit,fit+1,0xffff}
		if L >= 6 {
			fit := (L - 6) / 72
			for vi, cnt := range []int{0, 1, fit, fit + 1, 0xffff} {
				fill(b, 0, 2)
				copy(b, hdr)
				binary.BigEndian.PutUint16(b[4:], uint16(cnt))
				inner("points", b[:L:L], fmt.Sprintf("inner|points|%d|cnt%d", L, vi), map[string]any{"part": "inner-sweep", "decoder": "points", "len": L, "count": cnt})
			}
		}
	})
	// every truncation / substitution of a 3-point encoding and of a 2-transaction payload
	for kind, wire := range map[string][]byte{
		"points": marshalSyncPoints([]*SyncPoint{{NodeId: fixc.Hash("a"), Number: 1, Hash: fixc.Hash("b")}, {NodeId: fixc.Hash("c"), Number: math.MaxUint64, Hash: fixc.Hash("d")}, {NodeId: fixc.Hash("e")}}),
		"txs":    buildTransactionsPayload([]*common.VersionedTransaction{fx.txs["deposit"], fx.txs["transfer"]}),
	} {
		buf := append([]byte(nil), wire...)
		for pos := range wire {
			inner(kind, buf[:pos:pos], fmt.Sprintf("inner-trunc|%s|%d", kind, pos), map[string]any{"part": "inner-mutate", "decoder": kind, "op": "truncate", "len": pos})
			for _, v := range subs {
				if wire[pos] == v {
					continue
				}
				buf[pos] = v
				inner(kind, buf, fmt.Sprintf("inner-sub|%s|%d|%d", kind, pos, v), map[string]any{"part": "inner-mutate", "decoder": kind, "op": "substitute", "pos": pos, "value": v})
				buf[pos] = wire[pos]
			}
		}
	}

	// ================= transport: parsed messages survive later receives (mc_c08_transport_test.go)
	c08Transport(c, fx)

	// ================= samples and guards
	c.Set("builder_cases", len(fx.cases))
	c.Set("point_positions", len(ptJobs))
	c.Set("invalid_point_menu", invalidNames)
	var totalBytes int
	builders := map[string]bool{}
	for _, cs := range fx.cases {
		totalBytes += len(cs.data)
		builders[cs.builder] = true
	}
	c.Set("builder_output_bytes", totalBytes)
	c.Set("builders", len(builders))
	for _, i := range []int{0, len(fx.cases) / 3, len(fx.cases) / 2} {
		c.Sample(map[string]any{"part": "faithful", "case": fx.cases[i].name, "bytes": len(fx.cases[i].data), "wire": verifmc.Hex(fx.cases[i].data)})
	}
	c.Sample(map[string]any{"part": "points", "case": ptJobs[len(ptJobs)-1].cs.name, "offset": ptJobs[len(ptJobs)-1].pt.off, "point": invalidNames[0], "expect": "refused"})
	c.Sample(map[string]any{"part": "sweep", "type": PeerMessageTypeBatchFullChallenge, "len": 300, "pattern": patName(len(basePatterns) + 3), "expect": "refused, no panic"})
	c.Sample(map[string]any{"part": "mutate", "case": fx.cases[len(fx.cases)/2].name, "op": "length-field", "pos": 1, "width": 4, "value": "max", "expect": "refused, no panic"})

	c.Require(len(builders) >= 15, "only %d builders exercised", len(builders))
	for _, t := range c08KnownTypes {
		c.Require(c.OutcomeCount(fmt.Sprintf("accept:t%d", t)) > 0, "no accepted message of type %d: the sweep never reaches the interesting branch", t)
		if t != PeerMessageTypeConsumers {
			c.Require(c.OutcomeCount(fmt.Sprintf("reject:t%d", t)) > 0, "no refused message of type %d", t)
		}
	}
	c.Require(c.OutcomeCount("accept:unknown-type") > 0, "unknown types never parsed")
	c.Require(c.OutcomeCount("faithful:equal") >= 60, "only %d faithful round trips", c.OutcomeCount("faithful:equal"))
	c.Require(c.OutcomeCount("points:refused") > 0 || c.Violations() > 0, "no invalid point case was refused")
	c.Require(c.OutcomeCount("accept:txs") > 0 && c.OutcomeCount("reject:txs") > 0 && c.OutcomeCount("accept:points") > 0 && c.OutcomeCount("reject:points") > 0, "inner codec sweep is one-sided")
}
