//go:build verif

package p2p

import (
	"bytes"
	"fmt"
	"math/bits"
	"strings"

	"github.com/MixinNetwork/mixin/verifmc"
)

// C31, stream part — over ONE loopback QUIC connection per direction:
//
// (a) SIZES. Frames of EVERY payload size 1..2100 (all small-size boundaries:
// packet sizes, buffer sizes, header-sized offsets around them), sizes
// 2^k-1, 2^k, 2^k+1 for k <= 20 and every size 64 KiB-8..64 KiB+8, each with
// its own position dependent pseudo-random pattern, are sent BACK TO BACK in
// batches of 64 (a batch of at most 256 KiB is completely queued before the
// first Receive; larger ones are sent while the receiver reads) and each must
// arrive with exactly its length and bytes: a mis-framed stream shows as a
// wrong tail of a frame, a wrong NEXT frame or an invalid next header.
//
// (b) RETENTION. Every TransportMessage of a batch is kept and ALL of them are
// compared again after the whole batch has been received, and once more after
// the following batch (the receive queue of a peer is 1024 messages deep):
// delivered frames must stay intact while later frames are received. Batch
// orders: ascending (short then long), descending (long then short) and mixed.
//
// An unavailable loopback, a timeout or a connection error is never a
// violation: the part is marked capped. An invalid frame header read from the
// reliable ordered stream, on which only Send wrote, is a framing violation.

// c31Bucket is the canonical size class of a frame (binary order of magnitude).
func c31Bucket(n int) string { return fmt.Sprintf("2^%d", bits.Len(uint(n))) }

func c31EnvTrouble(err error) bool {
	if err == nil {
		return false
	}
	s := err.Error()
	return c31IsTimeout(err) || strings.Contains(s, "closed") || strings.Contains(s, "reset") || strings.Contains(s, "canceled") || strings.Contains(s, "EOF") || strings.Contains(s, "Application error") || strings.Contains(s, "no recent network activity")
}

type c31Frame struct {
	size int
	sent []byte
	got  *TransportMessage
}

func c31Stream(c *verifmc.Check) {
	capped := func(why string) {
		c.Capped("stream part incomplete (loopback QUIC trouble, not a verdict): " + why)
		c.Set("stream_note", why)
	}
	// ---- the batches
	var batches [][]int
	names := map[int]string{}
	add := func(name string, sizes []int) {
		for len(sizes) > 0 {
			n := min(64, len(sizes))
			names[len(batches)] = name
			batches = append(batches, sizes[:n])
			sizes = sizes[n:]
		}
	}
	var every, desc []int
	for n := 1; n <= 2100; n++ {
		every = append(every, n)
	}
	for n := 2100; n >= 1; n -= 7 { // long then short through the small range
		desc = append(desc, n)
	}
	var pow, around64k []int
	for k := 1; k <= 20; k++ {
		pow = append(pow, 1<<k-1, 1<<k, 1<<k+1)
	}
	for n := 65536 - 8; n <= 65536+8; n++ {
		around64k = append(around64k, n)
	}
	rev := func(a []int) []int {
		b := make([]int, len(a))
		for i := range a {
			b[len(a)-1-i] = a[i]
		}
		return b
	}
	add("every-size-ascending", every)
	add("small-descending", desc)
	add("powers-of-two-ascending", pow)
	add("powers-of-two-descending", rev(pow))
	add("around-64KiB-ascending", around64k)
	add("around-64KiB-descending", rev(around64k))
	add("mixed-long-short", []int{65544, 98, 65536, 1, 1 << 20, 33, 65535, 1200, 70000, 129, 4097, 65, 1<<16 + 1, 138, 2048, 6})
	add("mixed-short-long", rev([]int{65544, 98, 65536, 1, 1 << 20, 33, 65535, 1200, 70000, 129, 4097, 65, 1<<16 + 1, 138, 2048, 6}))

	frames, retained := 0, 0
	for _, dir := range []string{"client->server", "server->client"} {
		pair, err := c31NewPair()
		if err != nil {
			capped(fmt.Sprintf("pair: %v", err))
			return
		}
		from, to := pair.client, pair.server
		if dir == "server->client" {
			from, to = to, from
		}
		var prev []*c31Frame
		prevName := ""
		seq := uint64(len(dir)) << 32
		recheck := func(fs []*c31Frame, name, when string) bool {
			ok := true
			for i, f := range fs {
				retained++
				if len(f.got.Data) == f.size && bytes.Equal(f.got.Data, f.sent) {
					c.Outcome("stream:retained-intact")
					continue
				}
				ok = false
				c.Outcome("stream:retained-mutated")
				c.Violation("framing:delivered-frame-mutated-by-later-receive",
					fmt.Sprintf("%s, batch %s: frame %d of %d (%d bytes) equalled the sent bytes when Receive returned it but differs %s (the delivered TransportMessage.Data was written again)", dir, name, i, len(fs), f.size, when),
					map[string]any{"part": "stream", "direction": dir, "batch": name, "index": i, "size": f.size, "when": when})
			}
			return ok
		}
		broken := false
		for bi, sizes := range batches {
			if broken || c.Expired("stream batches") {
				break
			}
			name := names[bi]
			fs := make([]*c31Frame, len(sizes))
			total := 0
			for i, n := range sizes {
				seq++
				fs[i] = &c31Frame{size: n, sent: c31Payload(n, seq)}
				total += n + TransportMessageHeaderSize
			}
			sendErr := make(chan error, 1)
			send := func() {
				for _, f := range fs {
					if err := from.Send(f.sent); err != nil {
						sendErr <- fmt.Errorf("send of %d bytes: %w", f.size, err)
						return
					}
				}
				sendErr <- nil
			}
			queued := total <= 256<<10
			if queued { // the whole batch is on the stream before the first Receive
				send()
			} else {
				go send()
			}
			for i, f := range fs {
				m, err := to.Receive()
				frames++
				c.Eval(1)
				c.Distinct(fmt.Sprintf("stream|%s|%s|%d|%d", dir, name, i, f.size))
				if err != nil {
					broken = true
					var serr error
					select {
					case serr = <-sendErr:
					default:
					}
					switch {
					case strings.Contains(err.Error(), "invalid message version") || strings.Contains(err.Error(), "invalid message size") || strings.Contains(err.Error(), "invalid message header"):
						c.Outcome("stream:misframed")
						c.Violation("framing:stream-misframed:size="+c31Bucket(f.size),
							fmt.Sprintf("%s, batch %s: Receive of frame %d (%d bytes, after frames of %v bytes) failed with %q although only Send wrote to the stream", dir, name, i, f.size, sizes[max(0, i-3):i], err),
							map[string]any{"part": "stream", "direction": dir, "batch": name, "index": i, "size": f.size})
					case serr != nil && !c31EnvTrouble(serr):
						c.Outcome("stream:send-refused")
						c.Violation("send:refuses-legal-size", fmt.Sprintf("%s, batch %s: %v", dir, name, serr), map[string]any{"part": "stream", "size": f.size})
					default:
						capped(fmt.Sprintf("%s batch %s frame %d (%d bytes): receive %v send %v", dir, name, i, f.size, err, serr))
					}
					break
				}
				if int(m.Size) != f.size || len(m.Data) != f.size || !bytes.Equal(m.Data, f.sent) {
					broken = true
					c.Outcome("stream:payload-differs")
					first := 0
					for first < len(m.Data) && first < f.size && m.Data[first] == f.sent[first] {
						first++
					}
					c.Violation("framing:payload-differs:size="+c31Bucket(f.size),
						fmt.Sprintf("%s, batch %s (%s): frame %d sent with %d bytes arrived with size %d, %d bytes, first difference at offset %d", dir, name, map[bool]string{true: "queued before the first Receive", false: "sent while receiving"}[queued], i, f.size, m.Size, len(m.Data), first),
						map[string]any{"part": "stream", "direction": dir, "batch": name, "index": i, "size": f.size, "first_difference": first})
					break
				}
				c.Outcome("stream:exact")
				f.got = m
			}
			if broken {
				break
			}
			if err := <-sendErr; err != nil {
				broken = true
				if c31EnvTrouble(err) {
					capped(fmt.Sprintf("%s batch %s: %v", dir, name, err))
				} else {
					c.Violation("send:refuses-legal-size", fmt.Sprintf("%s, batch %s: %v", dir, name, err), map[string]any{"part": "stream"})
				}
				break
			}
			// only now look at the delivered frames again
			ok := recheck(fs, name, "after the rest of its batch was received")
			ok = recheck(prev, prevName, "after the following batch was received") && ok
			if !ok {
				broken = true // one report per key is enough; the defect repeats on every batch
			}
			prev, prevName = fs, name
		}
		pair.Close()
		if broken {
			break
		}
	}
	c.Set("stream_batches_per_direction", len(batches))
	c.Set("stream_frames_received", frames)
	c.Set("stream_retained_comparisons", retained)
	c.Sample(map[string]any{"part": "stream", "every_size": "1..2100", "batch": 64, "also": "2^k-1,2^k,2^k+1 (k<=20), 65528..65544, mixed long/short", "retention": "all frames of a batch re-compared after the batch and after the next batch"})
}
