//go:build verif

package p2p

import (
	"bytes"
	"context"
	"fmt"
	"reflect"
	"strings"
	"time"

	"github.com/MixinNetwork/mixin/crypto"
	"github.com/MixinNetwork/mixin/verifmc"
)

// C08, transport part — a parsed message keeps its field values while further
// messages are received on the same stream.
//
// parseNetworkMessage aliases its input (unsigned = data[65:] for graph,
// pre-commitments and snapshot commitment; Data for relay, authentication and
// consumers) and loopReceiveMessage queues the parsed message for another
// goroutine, so the bytes a Receive hands out must never be written again.
// Over ONE loopback QUIC connection (receiver state chains from sequence to
// sequence, so every sequence but the first starts from a non-initial state)
// all ordered sequences up to a length bound over a menu of builder outputs are
// sent, then received and parsed exactly as loopReceiveMessage does, and only
// THEN compared field by field with a parse of a private copy of the sent
// bytes. The messages of the previous sequence are re-compared after the next
// one as well (the receive queue is 1024 deep).
//
// A loopback that cannot be set up, or a Send/Receive that errors or times
// out, is never a violation: the part is marked capped and the run exits 0.

func c08MsgDiff(want, got *PeerMessage) string {
	type f struct {
		name string
		a, b any
	}
	for _, x := range []f{
		{"Type", want.Type, got.Type},
		{"Snapshot", want.Snapshot, got.Snapshot},
		{"SnapshotHash", want.SnapshotHash, got.SnapshotHash},
		{"Transactions", want.Transactions, got.Transactions},
		{"TransactionHash", want.TransactionHash, got.TransactionHash},
		{"Cosi", want.Cosi, got.Cosi},
		{"Commitment", want.Commitment, got.Commitment},
		{"Challenge", want.Challenge, got.Challenge},
		{"Response", want.Response, got.Response},
		{"WantTxs", want.WantTxs, got.WantTxs},
		{"Commitments", want.Commitments, got.Commitments},
		{"Graph", want.Graph, got.Graph},
		{"Data", want.Data, got.Data},
		{"unsigned", want.unsigned, got.unsigned},
		{"signature", want.signature, got.signature},
		{"version", want.version, got.version},
	} {
		if !reflect.DeepEqual(x.a, x.b) {
			return "field " + x.name + " differs"
		}
	}
	return ""
}

func c08Transport(c *verifmc.Check, fx *c08Fixture) {
	// ---- menu: every input-aliasing message type plus some that copy
	names := []string{
		"graph(points=1)", "graph(points=3)", // unsigned aliases, two sizes
		"snapshot-commitment(h,want=0)", "snapshot-commitment(h,want=3)", // unsigned aliases
		"commitments(n=1)", "commitments(n=2)", // unsigned aliases
		"relay(0)", "relay(1)", // Data aliases the whole input
		"authentication(1)", // Data aliases
		"consumers(1)",      // Data aliases
		"confirm(h)",        // copies, shortest message
		"bundle(type=8,txs=2)", // decoded, longest of the menu
	}
	var menu []*c08Case
	for _, n := range names {
		for _, cs := range fx.cases {
			if cs.name == n {
				menu = append(menu, cs)
			}
		}
	}
	if len(menu) != len(names) {
		c.Require(false, "transport menu: %d of %d builder cases found", len(menu), len(names))
		return
	}
	refs := make([]*PeerMessage, len(menu))
	aliasing := 0
	for i, cs := range menu {
		m, err := parseNetworkMessage(TransportMessageVersion, bytes.Clone(cs.data))
		if err != nil {
			c.Require(false, "transport menu: %s does not parse: %v", cs.name, err)
			return
		}
		refs[i] = m
		if m.unsigned != nil || m.Data != nil {
			aliasing++
		}
	}
	handlePub := fx.h.key.Public()
	maxLen := verifmc.Pick(c, 2, 3)

	skip := func(why string) {
		c.Capped("transport part incomplete (loopback QUIC unavailable, not a verdict): " + why)
		c.Set("transport_note", why)
	}

	// ---- one loopback connection
	var relayer *QuicRelayer
	var err error
	if p := verifmc.Catch(func() { relayer, err = NewQuicRelayer("127.0.0.1:0") }); p != nil || err != nil {
		skip(fmt.Sprintf("listener: %v %v", p, err))
		return
	}
	defer relayer.Close()
	ctx, cancel := context.WithTimeout(context.Background(), 60*time.Second)
	defer cancel()
	accepted := make(chan Client, 1)
	go func() {
		s, err := relayer.Accept(ctx)
		if err != nil {
			close(accepted)
			return
		}
		accepted <- s
	}()
	client, err := NewQuicConsumer(ctx, relayer.listener.Addr().String())
	if err != nil {
		skip(fmt.Sprintf("dial: %v", err))
		return
	}
	defer client.Close("c08 done")
	var server Client
	defer func() {
		if server != nil {
			server.Close("c08 done")
		}
	}()

	type got struct {
		mi  int // menu index
		msg *PeerMessage
		raw []byte // the slice Receive handed out
	}
	// compare a parsed message (and the received bytes) with the independent parse
	check := func(g got, seq []int, pos int, when string) {
		cs, ref := menu[g.mi], refs[g.mi]
		d := c08MsgDiff(ref, g.msg)
		if d == "" && !bytes.Equal(g.raw, cs.data) {
			d = "received bytes differ from the sent bytes"
		}
		if d == "" && g.msg.signature != nil && g.msg.unsigned != nil &&
			!handlePub.Verify(crypto.Blake3Hash(g.msg.unsigned), *g.msg.signature) {
			d = "signature no longer verifies over the unsigned part"
		}
		if d == "" {
			c.Outcome("transport:intact")
			return
		}
		c.Outcome("transport:mutated")
		var sn []string
		for _, i := range seq {
			sn = append(sn, menu[i].name)
		}
		c.Violation(fmt.Sprintf("transport:parsed-message-mutated-by-later-receive:type%d", cs.data[0]),
			fmt.Sprintf("message %d (%s, %d bytes) of the sequence [%s] received over one QUIC stream: %s %s; it equalled the independent parse when it was parsed",
				pos, cs.name, len(cs.data), strings.Join(sn, " ; "), d, when),
			map[string]any{"part": "transport", "sequence": sn, "position": pos, "when": when})
	}

	var prev []got
	var prevSeq []int
	sequences, messages := 0, 0
	failed := ""
	verifmc.Sequences(len(menu), 1, maxLen, func(seq []int) bool {
		if c.Expired("transport sequences") {
			return false
		}
		seq = append([]int(nil), seq...)
		for _, mi := range seq {
			if err := client.Send(menu[mi].data); err != nil {
				failed = fmt.Sprintf("send: %v", err)
				return false
			}
		}
		if server == nil {
			// the stream becomes visible to the acceptor with its first bytes
			select {
			case s, ok := <-accepted:
				if !ok {
					failed = "accept failed"
					return false
				}
				server = s
			case <-ctx.Done():
				failed = "accept timed out"
				return false
			}
		}
		// receive and parse everything first, as loopReceiveMessage does
		var cur []got
		for pos, mi := range seq {
			tm, err := server.Receive()
			if err != nil {
				failed = fmt.Sprintf("receive: %v", err)
				return false
			}
			if !bytes.Equal(tm.Data, menu[mi].data) {
				c.Outcome("transport:delivery-differs")
				c.Violation(fmt.Sprintf("transport:received-bytes-differ:type%d", menu[mi].data[0]),
					fmt.Sprintf("Receive returned %d bytes that differ from the %d bytes sent (%s)", len(tm.Data), len(menu[mi].data), menu[mi].name),
					map[string]any{"part": "transport", "position": pos, "case": menu[mi].name})
				failed = "delivery differs (reported)"
				return false
			}
			var msg *PeerMessage
			p := verifmc.Catch(func() { msg, err = parseNetworkMessage(tm.Version, tm.Data) })
			if p != nil || err != nil || msg == nil {
				// same bytes as the reference parse accepted: deterministic parser, cannot happen
				c.Require(false, "transport: %s parsed from the stream gives panic=%v err=%v", menu[mi].name, p, err)
				failed = "parse"
				return false
			}
			if d := c08MsgDiff(refs[mi], msg); d != "" {
				c.Require(false, "transport: %s parsed from identical bytes differs at once: %s", menu[mi].name, d)
				failed = "parse differs"
				return false
			}
			cur = append(cur, got{mi, msg, tm.Data})
		}
		// only now look at the parsed messages
		c.Eval(1)
		var key []string
		for _, mi := range seq {
			key = append(key, fmt.Sprint(mi))
		}
		c.Distinct("transport|" + strings.Join(key, ","))
		for pos, g := range cur {
			check(g, seq, pos, "after the rest of its sequence was received")
		}
		for pos, g := range prev {
			check(g, prevSeq, pos, "after the following sequence was received")
		}
		prev, prevSeq = cur, seq
		sequences++
		messages += len(seq)
		return true
	})
	c.Set("transport_menu", names)
	c.Set("transport_menu_aliasing_types", aliasing)
	c.Set("transport_max_sequence_length", maxLen)
	c.Set("transport_sequences", sequences)
	c.Set("transport_messages", messages)
	if failed != "" && !strings.Contains(failed, "reported") {
		skip(failed + fmt.Sprintf(" after %d sequences", sequences))
	}
	c.Sample(map[string]any{"part": "transport", "sequence": []string{names[1], names[10]}, "expect": "both parsed messages equal the independent parse after both receives"})
}
