//go:build verif

package storage

import (
	"bytes"
	"fmt"
	"sort"
	"strings"
	"sync"
	"testing"

	"github.com/MixinNetwork/mixin/common"
	"github.com/MixinNetwork/mixin/config"
	"github.com/MixinNetwork/mixin/crypto"
	"github.com/MixinNetwork/mixin/verifmc"
	"github.com/MixinNetwork/mixin/verifmc/fixc"
	"github.com/dgraph-io/badger/v4"
	"github.com/dgraph-io/badger/v4/options"
)

// C23 — only queueing makes a cached transaction eligible for proposal.
// BFS over all sequences of queue/store/retrieve/remove on the real cache DB
// against a token model; plus bounded schedule exploration of concurrent
// callers checked for linearisability. storage/badger_cache.go is compiled
// with the vtime shim: queue keys are ordered by call order, and the retry
// sleeps are scheduling points.

type c23Body struct {
	name    string // p1s, p1t, p2, p3
	payload int    // 0..2
	ver     *common.VersionedTransaction
	bytes   []byte
	hash    crypto.Hash
}

var c23Bodies = func() []*c23Body {
	net := fixc.NewNet(7, "net7")
	to := fixc.Addr("c23")
	mk := func(name string, payload int, ext string, signer crypto.Key) *c23Body {
		tx := common.NewTransactionV5(common.BitcoinAssetId)
		tx.AddDepositInput(&common.DepositData{Chain: common.BitcoinAssetId, AssetKey: fixc.BTCAssetKey, Transaction: ext, Index: 0, Amount: common.NewIntegerFromString("1")})
		tx.AddScriptOutput([]*common.Address{&to}, common.NewThresholdScript(1), common.NewIntegerFromString("1"), fixc.Seed64("c23:"+ext))
		ver := tx.AsVersioned()
		if err := ver.SignRaw(signer); err != nil {
			panic(err)
		}
		return &c23Body{name: name, payload: payload, ver: ver, bytes: ver.Marshal(), hash: ver.PayloadHash()}
	}
	b := []*c23Body{
		mk("p1s", 0, "c23-1", net.Custodian.PrivateSpendKey),
		mk("p1t", 0, "c23-1", fixc.Key("c23-other-signer")),
		mk("p2", 1, "c23-2", net.Custodian.PrivateSpendKey),
		mk("p3", 2, "c23-3", net.Custodian.PrivateSpendKey),
	}
	if b[0].hash != b[1].hash || bytes.Equal(b[0].bytes, b[1].bytes) {
		panic("p1s/p1t must share the payload hash and differ in bytes")
	}
	return b
}()

func c23Open() *BadgerStore {
	opts := badger.DefaultOptions("").WithInMemory(true)
	opts = opts.WithCompression(options.None).WithBlockCacheSize(0).WithIndexCacheSize(0)
	opts = opts.WithMetricsEnabled(false).WithLoggingLevel(badger.ERROR)
	opts = opts.WithNumCompactors(2).WithMemTableSize(8 << 20).WithNumMemtables(2)
	db, err := badger.Open(opts)
	if err != nil {
		panic(err)
	}
	custom := &config.Custom{}
	custom.Node.CacheTTL = 7200
	return &BadgerStore{custom: custom, cacheDB: db}
}

// ---- reference model: bodies, "currently queued" flags, queue tokens ----

type c23Model struct {
	body   [3]string // name of the stored body per payload ("" none)
	queued [3]bool
	tokens []int // payload ids in queue order
}

func (m *c23Model) clone() *c23Model {
	n := *m
	n.tokens = append([]int(nil), m.tokens...)
	return &n
}

func (m *c23Model) key() string {
	return fmt.Sprintf("body=%v queued=%v tokens=%v", m.body, m.queued, m.tokens)
}

func (m *c23Model) queue(b *c23Body) {
	if m.queued[b.payload] {
		return
	}
	m.queued[b.payload] = true
	m.body[b.payload] = b.name
	m.tokens = append(m.tokens, b.payload)
}

func (m *c23Model) store(b *c23Body) {
	if m.body[b.payload] == "" {
		m.body[b.payload] = b.name
	}
}

func (m *c23Model) retrieve(limit int) []string {
	var out []string
	seen := map[int]bool{}
	used := 0
	for _, p := range m.tokens {
		if len(out) >= limit {
			break
		}
		used++
		m.queued[p] = false
		if seen[p] {
			continue
		}
		seen[p] = true
		if m.body[p] != "" {
			out = append(out, m.body[p])
		}
	}
	m.tokens = append([]int(nil), m.tokens[used:]...)
	return out
}

func (m *c23Model) remove(ps []int) {
	for _, p := range ps {
		m.body[p] = ""
		m.queued[p] = false
	}
}

// ---- events ----

type c23Event struct {
	name   string
	kind   string // queue store retrieve remove
	body   int
	limit  int
	remove []int
}

var c23Events = func() []c23Event {
	var ev []c23Event
	for i, b := range c23Bodies {
		ev = append(ev, c23Event{name: "queue(" + b.name + ")", kind: "queue", body: i})
	}
	for i, b := range c23Bodies {
		ev = append(ev, c23Event{name: "store(" + b.name + ")", kind: "store", body: i})
	}
	for _, l := range []int{0, 1, 2, 255} {
		ev = append(ev, c23Event{name: fmt.Sprintf("retrieve(%d)", l), kind: "retrieve", limit: l})
	}
	ev = append(ev, c23Event{name: "remove(p1)", kind: "remove", remove: []int{0}})
	ev = append(ev, c23Event{name: "remove(p2)", kind: "remove", remove: []int{1}})
	ev = append(ev, c23Event{name: "remove(p1,p2,p3)", kind: "remove", remove: []int{0, 1, 2}})
	return ev
}()

func c23NameOf(ver *common.VersionedTransaction) string {
	if ver == nil {
		return ""
	}
	raw := ver.Marshal()
	for _, b := range c23Bodies {
		if bytes.Equal(raw, b.bytes) {
			return b.name
		}
	}
	return "?" + ver.PayloadHash().String()[:8]
}

// c23Exec runs one event on the real store; returns the retrieved names (for
// retrieve) and an error string.
func c23Exec(st *BadgerStore, e c23Event) (out []string, errs string) {
	var err error
	switch e.kind {
	case "queue":
		err = st.CacheQueueTransaction(c23Bodies[e.body].ver)
	case "store":
		err = st.CacheStoreTransaction(c23Bodies[e.body].ver)
	case "retrieve":
		var txs []*common.VersionedTransaction
		txs, err = st.CacheRetrieveTransactions(e.limit)
		for _, tx := range txs {
			out = append(out, c23NameOf(tx))
		}
	case "remove":
		var hs []crypto.Hash
		for _, p := range e.remove {
			for _, b := range c23Bodies {
				if b.payload == p {
					hs = append(hs, b.hash)
					break
				}
			}
		}
		err = st.CacheRemoveTransactions(hs)
	}
	if err != nil {
		// (result, error): a result returned together with an error is void for the
		// caller (kernel/queue.go drops it), e.g. ErrConflict after the closure ran
		errs = err.Error()
		out = nil
	}
	return
}

func c23Observe(st *BadgerStore) [3]string {
	var got [3]string
	for p := 0; p < 3; p++ {
		for _, b := range c23Bodies {
			if b.payload == p {
				ver, err := st.CacheGetTransaction(b.hash)
				if err != nil {
					panic(err)
				}
				got[p] = c23NameOf(ver)
				break
			}
		}
	}
	return got
}

type c23State struct {
	st *BadgerStore
	m  *c23Model
}

func c23ModelApply(m *c23Model, e c23Event) []string {
	switch e.kind {
	case "queue":
		m.queue(c23Bodies[e.body])
	case "store":
		m.store(c23Bodies[e.body])
	case "retrieve":
		return m.retrieve(e.limit)
	case "remove":
		m.remove(e.remove)
	}
	return nil
}

func TestMC_C23(t *testing.T) { c23Main(t) }

// TestMCRace_C23 is the separate free-running pass (go test -race) over the
// bodies of the concurrent scenarios.
func TestMCRace_C23(t *testing.T) {
	c23Main(t)
	verifmc.RacePassDone("C23")
}

func c23Main(t *testing.T) {
	c := verifmc.Start(t, "C23", "model_checking")
	defer c.Finish()
	c.SetRule("BFS over all sequences of {queue(x), store(x) for 4 bodies of 3 payloads (one payload in two differently signed bodies), retrieve(0|1|2|255), remove({p1}|{p2}|{p1,p2,p3})} on the real cache DB; after every call the returned list and the bodies (CacheGetTransaction) are compared with a token model (body map, queued flag, ordered queue tokens); plus concurrent scenarios explored over all interleavings up to the preemption bound and checked for linearisability; plus the sizes product on the real cache DB against the same model over n payloads: one CacheRemoveTransactions call for every list length in {0,1,2,100,101,102,103,150,201,202,203,255,256} x {all queued, all stored only, every other queued, queued/stored/absent by turns, none stored} x {drain with retrieve(255), queue all again then drain} with sentinels outside the list, and one CacheRetrieveTransactions(limit) for limit in {0,1,2,100,101,255} x queue length {0,1,150,300} x {plain, every third body removed, removed ones queued twice}")
	c.Assume("queue order = call order (vtime shim makes time.Now strictly increasing); Badger SSI; TTL expiry (2 h) is outside the explored time")
	if !verifmc.FreeRunning() {
		b := &verifmc.BFS[*c23State]{
			C: c, NumEvents: len(c23Events), MaxDepth: verifmc.Pick(c, 5, 6),
			EventName: func(e int) string { return c23Events[e].name },
			New:       func(int) *c23State { return &c23State{st: c23Open(), m: &c23Model{}} },
			Close:     func(s *c23State) { _ = s.st.cacheDB.Close() },
			Key:       func(s *c23State) string { return s.m.key() },
			Apply: func(s *c23State, ei int, replaying bool, report func(key, desc string)) bool {
				e := c23Events[ei]
				before := s.m.key()
				want := c23ModelApply(s.m, e)
				got, errs := c23Exec(s.st, e)
				if replaying {
					return true
				}
				if errs != "" {
					report("sequential:error:"+e.kind, fmt.Sprintf("%s failed: %s (state %s)", e.name, errs, before))
					return true
				}
				if e.kind == "retrieve" {
					if len(got) > e.limit {
						report("retrieve:over-limit", fmt.Sprintf("%s returned %d transactions", e.name, len(got)))
					}
					seen := map[string]bool{}
					for _, g := range got {
						if seen[g[:2]] {
							report("retrieve:duplicate", fmt.Sprintf("%s returned payload %s twice: %v", e.name, g[:2], got))
						}
						seen[g[:2]] = true
					}
					if strings.Join(got, ",") != strings.Join(want, ",") {
						key := "retrieve:differs"
						// classify: returned something that was never queued / already consumed
						ws := map[string]bool{}
						for _, w := range want {
							ws[w] = true
						}
						for _, g := range got {
							if !ws[g] {
								key = "retrieve:not-eligible"
							}
						}
						report(key, fmt.Sprintf("%s in state [%s] returned %v, the contract gives %v", e.name, before, got, want))
					}
				}
				if obs := c23Observe(s.st); obs != s.m.body {
					report("body:"+e.kind, fmt.Sprintf("after %s from [%s]: stored bodies %v, contract %v", e.name, before, obs, s.m.body))
				}
				return true
			},
		}
		st, tr, _, _ := b.Run()
		c.Require(st > 200 && tr > 2000, "vacuous sequential exploration %d/%d", st, tr)
		// list lengths / limits around the internal batch boundaries (mc_c23_sizes_test.go)
		c23Sizes(c)
	}

	// ---- concurrent callers ----
	badger.VerifHook = func(kind, dir string, writes int) error {
		verifmc.Point("txn." + kind)
		return nil
	}
	defer func() { badger.VerifHook = nil }()
	ev := func(name string) c23Event {
		for _, e := range c23Events {
			if e.name == name {
				return e
			}
		}
		panic(name)
	}
	type scenario struct {
		name    string
		pre     []string
		threads [][]string
	}
	scen := []scenario{
		{"queue(p1s) || queue(p1t) || retrieve", nil, [][]string{{"queue(p1s)"}, {"queue(p1t)"}, {"retrieve(255)"}}},
		{"[queued p1,p2] retrieve || retrieve", []string{"queue(p1s)", "queue(p2)"}, [][]string{{"retrieve(255)"}, {"retrieve(255)"}}},
		{"[queued p1] retrieve || store(p1t) || remove(p1)", []string{"queue(p1s)"}, [][]string{{"retrieve(255)"}, {"store(p1t)"}, {"remove(p1)"}}},
		{"store(p1s);queue(p2) || queue(p1t);retrieve", nil, [][]string{{"store(p1s)", "queue(p2)"}, {"queue(p1t)", "retrieve(255)"}}},
		{"[queued p1] retrieve;queue(p1s) || retrieve", []string{"queue(p1s)"}, [][]string{{"retrieve(255)", "queue(p1s)"}, {"retrieve(255)"}}},
		{"[queued p1,p2,p3] retrieve(255) || remove(all) || queue(p2)", []string{"queue(p1s)", "queue(p2)", "queue(p3)"}, [][]string{{"retrieve(255)"}, {"remove(p1,p2,p3)"}, {"queue(p2)"}}},
	}
	bound := verifmc.Pick(c, 2, 3)
	var mu sync.Mutex
	var execs int64
	contended := 0
	c.ParallelN(len(scen), "concurrent scenarios", func(_, i int) {
		sc := scen[i]
		ex := &verifmc.Explorer{C: c, Bound: bound, Name: sc.name}
		type call struct {
			e    c23Event
			out  []string
			errs string
		}
		ex.Body = func(s *verifmc.Sched, report func(key, desc string)) string {
			st := c23Open()
			defer st.cacheDB.Close()
			start := &c23Model{}
			for _, p := range sc.pre {
				c23Exec(st, ev(p))
				c23ModelApply(start, ev(p))
			}
			calls := make([][]*call, len(sc.threads))
			for ti, ops := range sc.threads {
				for _, o := range ops {
					calls[ti] = append(calls[ti], &call{e: ev(o)})
				}
				mine := calls[ti]
				s.Go(fmt.Sprint("t", ti), func() {
					for _, cl := range mine {
						cl.out, cl.errs = c23Exec(st, cl.e)
					}
				})
			}
			for ti, p := range s.RunAll() {
				if p != nil {
					report("concurrent:thread-panic", fmt.Sprintf("thread %d: %v", ti, p))
				}
			}
			if s.Deadlock {
				report("concurrent:deadlock", strings.Join(s.Trace, " "))
				return "deadlock"
			}
			finalBodies := c23Observe(st)
			rest, _ := c23Exec(st, ev("retrieve(255)")) // drain what is still eligible
			sort.Strings(rest)
			var pat []string
			for ti := range calls {
				for _, cl := range calls[ti] {
					o := append([]string(nil), cl.out...)
					sort.Strings(o)
					pat = append(pat, fmt.Sprintf("%s=%v%s", cl.e.name, o, map[bool]string{true: "!conflict", false: ""}[cl.errs != ""]))
				}
			}
			outcome := strings.Join(pat, " ") + fmt.Sprintf(" => bodies=%v left=%v", finalBodies, rest)
			// the statement's core, independent of any order: no queueing is returned twice
			count := map[string]int{}
			for ti := range calls {
				for _, cl := range calls[ti] {
					for _, o := range cl.out {
						count[o[:2]]++
					}
				}
			}
			for _, o := range rest {
				count[o[:2]]++
			}
			// linearisability: some order of the calls (program order per thread) under
			// the token model gives the same results (as sets; a call that returned
			// ErrConflict after its retries has no effect), bodies and leftover
			idx := make([]int, len(calls))
			var rec func(m *c23Model) bool
			rec = func(m *c23Model) bool {
				done := true
				for t := range calls {
					if idx[t] >= len(calls[t]) {
						continue
					}
					done = false
					cl := calls[t][idx[t]]
					n := m.clone()
					var want []string
					if cl.errs == "" {
						want = c23ModelApply(n, cl.e)
					}
					w := append([]string(nil), want...)
					g := append([]string(nil), cl.out...)
					sort.Strings(w)
					sort.Strings(g)
					if strings.Join(w, ",") == strings.Join(g, ",") {
						idx[t]++
						r := rec(n)
						idx[t]--
						if r {
							return true
						}
					}
				}
				if done {
					if m.body != finalBodies {
						return false
					}
					left := m.clone().retrieve(255)
					sort.Strings(left)
					return strings.Join(left, ",") == strings.Join(rest, ",")
				}
				return false
			}
			if !rec(start) {
				report("concurrent:not-linearizable", fmt.Sprintf("scenario %q: [%s] is not explained by any sequential order under the queue contract (returned counts %v)", sc.name, outcome, count))
			}
			return outcome
		}
		ex.Run()
		mu.Lock()
		execs += ex.Executions
		if len(ex.Outcomes) >= 2 {
			contended++
		}
		mu.Unlock()
	})
	c.Set("concurrent_scenarios", len(scen))
	c.Set("concurrent_executions", execs)
	c.Set("preemption_bound", bound)
	c.Require(verifmc.FreeRunning() || contended >= 4 || c.Violations() > 0, "only %d of %d concurrent scenarios produced several outcomes", contended, len(scen))
}
