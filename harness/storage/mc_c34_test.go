//go:build verif

package storage

import (
	"bytes"
	"crypto/sha256"
	"fmt"
	"math/big"
	"sort"
	"strings"
	"sync"
	"testing"

	"github.com/MixinNetwork/mixin/common"
	"github.com/MixinNetwork/mixin/crypto"
	"github.com/MixinNetwork/mixin/verifmc"
	"github.com/MixinNetwork/mixin/verifmc/fixc"
)

// C34 — custodian updates are accepted only in canonical, fully signed form.
//
// Bounded-exhaustive enumeration (E1) of update transactions validated by the
// real VersionedTransaction.Validate against a real BadgerStore whose previous
// custodian state is one of three real histories. The reference predicate is
// written from the statement on the raw bytes of the update (own layout
// parser); only "accepted although the predicate is false" is a violation.

const (
	c34EntrySize = 353 // 1 || custodian(64) || payee(64) || node id(32) || signerSig || payeeSig || custodianSig
	// the statement's price rule: every entry whose custodian is not part of the
	// previous state costs c34NewPrice, every known custodian whose payee
	// differs costs c34ChangedPrice (whole XIN)
	c34NewPrice     = 100
	c34ChangedPrice = 1
)

var c34Unit = big.NewInt(100000000)

type c34Slot struct {
	Cust, Payee, PayeeAlt, Signer common.Address
}

// c34Ent is one encoded node entry together with what the harness meant it to be.
type c34Ent struct {
	Label string
	Cust  common.Address // public keys only
	Payee common.Address
	Extra []byte
}

type c34World struct {
	Net      *fixc.Net
	Slots    [9]c34Slot
	G        common.Address // genesis custodian account
	N, N2    common.Address // other custodian accounts
	Stranger common.Address
	base     [9]*c34Ent
	alt      [9]*c34Ent
}

func c34Pub(a common.Address) common.Address {
	return common.Address{PublicSpendKey: a.PublicSpendKey, PublicViewKey: a.PublicViewKey}
}

func (w *c34World) encode(label string, cust, payee common.Address, signerPriv, payeePriv, custPriv crypto.Key) *c34Ent {
	c, p := c34Pub(cust), c34Pub(payee)
	extra := common.EncodeCustodianNode(&c, &p, &signerPriv, &payeePriv, &custPriv, w.Net.NetworkId)
	if len(extra) != c34EntrySize {
		panic(len(extra))
	}
	return &c34Ent{Label: label, Cust: c, Payee: p, Extra: extra}
}

func c34NewWorld(net *fixc.Net) *c34World {
	w := &c34World{Net: net, G: net.Custodian}
	for k := 0; k < 9; k++ {
		s := &w.Slots[k]
		if k < len(net.Signers) {
			s.Cust, s.Payee, s.Signer = net.Custodians[k], net.Payees[k], net.Signers[k]
		} else {
			s.Cust = fixc.Addr(fmt.Sprintf("c34-cust-%d", k))
			s.Payee = fixc.NodeAddr(fmt.Sprintf("c34-payee-%d", k))
			s.Signer = fixc.NodeAddr(fmt.Sprintf("c34-signer-%d", k))
		}
		s.PayeeAlt = fixc.NodeAddr(fmt.Sprintf("c34-payee-alt-%d", k))
		w.base[k] = w.encode(fmt.Sprintf("e%d", k), s.Cust, s.Payee, s.Signer.PrivateSpendKey, s.Payee.PrivateSpendKey, s.Cust.PrivateSpendKey)
		w.alt[k] = w.encode(fmt.Sprintf("e%d'", k), s.Cust, s.PayeeAlt, s.Signer.PrivateSpendKey, s.PayeeAlt.PrivateSpendKey, s.Cust.PrivateSpendKey)
	}
	w.N = fixc.Addr("c34-account-N")
	w.N2 = fixc.Addr("c34-account-N2")
	w.Stranger = fixc.Addr("c34-stranger")
	return w
}

func (w *c34World) ent(k int, alt bool) *c34Ent {
	if alt {
		return w.alt[k]
	}
	return w.base[k]
}

func c34Sorted(ents []*c34Ent) []*c34Ent {
	out := append([]*c34Ent(nil), ents...)
	sort.SliceStable(out, func(i, j int) bool {
		return bytes.Compare(out[i].Cust.PublicSpendKey[:], out[j].Cust.PublicSpendKey[:]) < 0
	})
	return out
}

func c34Body(header common.Address, ents []*c34Ent) []byte {
	body := append([]byte{}, header.PublicSpendKey[:]...)
	body = append(body, header.PublicViewKey[:]...)
	for _, e := range ents {
		body = append(body, e.Extra...)
	}
	return body
}

// c34Approve appends the approval trailer. msgMode 0 = over the whole body (the
// statement's rule), 1 = over the entries without the header, 2 = over the
// body followed by a zero trailer.
func c34Approve(body []byte, signer crypto.Key, msgMode int) []byte {
	msg := body
	switch msgMode {
	case 1:
		msg = body[64:]
	case 2:
		msg = append(append([]byte{}, body...), make([]byte, 64)...)
	}
	sig := signer.Sign(crypto.Blake3Hash(msg))
	return append(append([]byte{}, body...), sig[:]...)
}

// ---- reference -------------------------------------------------------------------

type c34PrevRef struct {
	Account common.Address    // public
	Priv    crypto.Key        // private spend key of the account (harness side)
	Nodes   map[string]string // custodian address -> payee address
}

func c34PrevOf(account common.Address, ents []*c34Ent) *c34PrevRef {
	p := &c34PrevRef{Account: c34Pub(account), Priv: account.PrivateSpendKey, Nodes: map[string]string{}}
	for _, e := range ents {
		p.Nodes[e.Cust.String()] = e.Payee.String()
	}
	return p
}

type c34RefEntry struct {
	Cust, Payee common.Address
	Extra       []byte
}

type c34Verdict struct {
	Layout    bool // 64 + 353*n + 64 with n >= 1
	N         int
	Header    common.Address
	Entries   []c34RefEntry
	Approval  crypto.Signature
	Sorted    bool
	Unique    bool
	EntrySigs bool
	Approved  bool
	Paid      bool
	New       int
	Changed   int
	Price     *big.Int
}

func (v *c34Verdict) Structural() bool { return v.Layout && v.Sorted && v.Unique && v.EntrySigs }
func (v *c34Verdict) OK() bool         { return v.Structural() && v.Approved && v.Paid }
func (v *c34Verdict) Why() string {
	switch {
	case !v.Layout:
		return "malformed-layout"
	case !v.EntrySigs:
		return "bad-entry-signature"
	case !v.Unique:
		return "duplicate-key"
	case !v.Sorted:
		return "unsorted"
	case !v.Approved:
		return "bad-approval"
	case !v.Paid:
		return "underpaid"
	}
	return "ok"
}

var c34SigCache sync.Map // string(entry bytes) -> bool

func c34EntrySigsValid(e []byte) bool {
	if v, ok := c34SigCache.Load(string(e)); ok {
		return v.(bool)
	}
	var cs, ps crypto.Key
	copy(cs[:], e[1:33])
	copy(ps[:], e[65:97])
	var payeeSig, custSig crypto.Signature
	copy(payeeSig[:], e[225:289])
	copy(custSig[:], e[289:353])
	eh := crypto.Blake3Hash(e[:161])
	ok := ps.Verify(eh, payeeSig) && cs.Verify(eh, custSig)
	c34SigCache.Store(string(e), ok)
	return ok
}

// c34Judge evaluates the statement's predicate on raw bytes.
func c34Judge(extra []byte, prev *c34PrevRef, amount *big.Int) *c34Verdict {
	v := &c34Verdict{Price: new(big.Int)}
	if len(extra) < 128+c34EntrySize || (len(extra)-128)%c34EntrySize != 0 {
		return v
	}
	v.Layout = true
	v.N = (len(extra) - 128) / c34EntrySize
	copy(v.Header.PublicSpendKey[:], extra[:32])
	copy(v.Header.PublicViewKey[:], extra[32:64])
	copy(v.Approval[:], extra[len(extra)-64:])
	v.Sorted, v.Unique, v.EntrySigs = true, true, true
	spend := map[crypto.Key]bool{}
	for i := 0; i < v.N; i++ {
		e := extra[64+i*c34EntrySize : 64+(i+1)*c34EntrySize]
		var re c34RefEntry
		re.Extra = e
		copy(re.Cust.PublicSpendKey[:], e[1:33])
		copy(re.Cust.PublicViewKey[:], e[33:65])
		copy(re.Payee.PublicSpendKey[:], e[65:97])
		copy(re.Payee.PublicViewKey[:], e[97:129])
		if !c34EntrySigsValid(e) {
			v.EntrySigs = false
		}
		if spend[re.Cust.PublicSpendKey] {
			v.Unique = false
		}
		spend[re.Cust.PublicSpendKey] = true
		if spend[re.Payee.PublicSpendKey] {
			v.Unique = false
		}
		spend[re.Payee.PublicSpendKey] = true
		if i > 0 && bytes.Compare(v.Entries[i-1].Cust.PublicSpendKey[:], re.Cust.PublicSpendKey[:]) >= 0 {
			v.Sorted = false
		}
		v.Entries = append(v.Entries, re)
		old, found := prev.Nodes[re.Cust.String()]
		if !found {
			v.New++
		} else if old != re.Payee.String() {
			v.Changed++
		}
	}
	v.Price.Mul(big.NewInt(int64(c34NewPrice*v.New+c34ChangedPrice*v.Changed)), c34Unit)
	v.Approved = prev.Account.PublicSpendKey.Verify(crypto.Blake3Hash(extra[:len(extra)-64]), v.Approval)
	v.Paid = amount.Cmp(v.Price) >= 0
	return v
}

func c34IntFromUnits(u *big.Int) common.Integer {
	q, r := new(big.Int).QuoRem(u, c34Unit, new(big.Int))
	return common.NewIntegerFromString(fmt.Sprintf("%s.%08d", q.String(), r.Int64()))
}

// ---- cases -------------------------------------------------------------------------

type c34Case struct {
	Label  string
	Group  string
	Ledger int  // previous custodian state: 0 genesis, 1 one payee changed by the same account, 2 different account
	Before bool // validate at the instant before the ledger's own update (sees genesis state)
	Extra  []byte
	Amount *big.Int
	AmtRel int // -1 / 0 / +1 units relative to the reference price
	Shape  int // 0 = 1 key + fffe40, 1 = 2 keys + fffe40, 2 = 1 key + fffe01
	BTC    bool
	Ents   []*c34Ent // the entries the update was assembled from (nil when bytes were mutated afterwards)
	Header common.Address
}

func (cs *c34Case) fundKey() string {
	a := "X"
	if cs.BTC {
		a = "B"
	}
	return a + ":" + cs.Amount.String()
}

// ---- ledgers (previous custodian states) --------------------------------------------

type c34Ledger struct {
	Kind       int
	W          *mcWallet
	Funds      map[string]crypto.Hash
	Now        uint64
	BeforeTs   uint64
	PrevNow    *c34PrevRef
	PrevBefore *c34PrevRef
	Updates    int // number of custodian records in the store (genesis included)
}

func c34OutputFor(tx *common.Transaction, shape int, amount common.Integer, seedLabel string) {
	// shape 0 is what the genesis custodian output looks like: one internal-vanish key + fffe40
	recv := common.NewAddressFromSeedInternalVanish(make([]byte, 64))
	a1, a2 := fixc.Addr("c34-receiver-1"), fixc.Addr("c34-receiver-2")
	accounts := []*common.Address{&recv}
	script := common.NewThresholdScript(common.Operator64)
	switch shape {
	case 1:
		accounts = []*common.Address{&a1, &a2}
	case 2:
		accounts = []*common.Address{&a1}
		script = common.NewThresholdScript(1)
	}
	tx.AddOutputWithType(common.OutputTypeCustodianUpdateNodes, accounts, script, amount, fixc.Seed64("c34-out:"+seedLabel))
}

func (L *c34Ledger) build(cs *c34Case) *common.VersionedTransaction {
	fund, ok := L.Funds[cs.fundKey()]
	if !ok {
		panic("c34: no funding output for " + cs.fundKey() + " in ledger " + fmt.Sprint(L.Kind))
	}
	return L.buildWith(cs, fund)
}

func (L *c34Ledger) buildWith(cs *c34Case, fund crypto.Hash) *common.VersionedTransaction {
	asset := common.XINAssetId
	if cs.BTC {
		asset = common.BitcoinAssetId
	}
	tx := common.NewTransactionV5(asset)
	tx.AddInput(fund, 0)
	c34OutputFor(tx, cs.Shape, c34IntFromUnits(cs.Amount), cs.Label)
	tx.Extra = cs.Extra
	return L.W.sign(tx)
}

func (L *c34Ledger) ts(cs *c34Case) uint64 {
	if cs.Before {
		return L.BeforeTs
	}
	return L.Now
}

func (L *c34Ledger) prev(cs *c34Case) *c34PrevRef {
	if cs.Before {
		return L.PrevBefore
	}
	return L.PrevNow
}

// c34LedgerUpdate is the finalized update that produces previous state `kind`.
func c34LedgerUpdate(w *c34World, kind int) (header common.Address, ents []*c34Ent, price int64) {
	switch kind {
	case 1: // same account, payee of slot 3 changed
		for k := 0; k < 7; k++ {
			ents = append(ents, w.ent(k, k == 3))
		}
		return w.G, c34Sorted(ents), c34ChangedPrice
	case 2: // different account, slot 6 dropped, slot 7 added
		for _, k := range []int{0, 1, 2, 3, 4, 5, 7} {
			ents = append(ents, w.ent(k, false))
		}
		return w.N, c34Sorted(ents), c34NewPrice
	}
	panic(kind)
}

func c34GenesisPrev(w *c34World) *c34PrevRef {
	var ents []*c34Ent
	for k := 0; k < 7; k++ {
		ents = append(ents, w.base[k])
	}
	return c34PrevOf(w.G, ents)
}

func c34NewLedger(w *c34World, kind int, funds map[string]bool) *c34Ledger {
	L := &c34Ledger{Kind: kind, W: newMCWallet(newMCLedger("")), Funds: map[string]crypto.Hash{}, Updates: 1}
	keys := make([]string, 0, len(funds)+1)
	for k := range funds {
		keys = append(keys, k)
	}
	var updKey string
	if kind != 0 {
		_, _, p := c34LedgerUpdate(w, kind)
		updKey = "X:" + new(big.Int).Mul(big.NewInt(p), c34Unit).String() + ":ledger"
		keys = append(keys, updKey)
	}
	sort.Strings(keys)
	for _, k := range keys {
		parts := strings.Split(k, ":")
		u, _ := new(big.Int).SetString(parts[1], 10)
		asset := common.XINAssetId
		if parts[0] == "B" {
			asset = common.BitcoinAssetId
		}
		dep := L.W.txDeposit(asset, c34IntFromUnits(u).String())
		if verr, werr := L.W.admit(dep); verr != nil || werr != nil {
			panic(fmt.Sprint("c34: funding deposit ", k, " failed: ", verr, werr))
		}
		L.Funds[k] = dep.PayloadHash()
	}
	L.PrevBefore = c34GenesisPrev(w)
	L.PrevNow = L.PrevBefore
	if kind != 0 {
		header, ents, p := c34LedgerUpdate(w, kind)
		cs := &c34Case{Label: fmt.Sprintf("ledger-update-%d", kind), Extra: c34Approve(c34Body(c34Pub(header), ents), w.G.PrivateSpendKey, 0), Amount: new(big.Int).Mul(big.NewInt(p), c34Unit)}
		tx := L.buildWith(cs, L.Funds[updKey])
		delete(L.Funds, updKey)
		L.BeforeTs = L.W.Time - 1
		if verr, werr := L.W.admit(tx); verr != nil || werr != nil {
			panic(fmt.Sprint("c34: ledger update ", kind, " failed: ", verr, werr))
		}
		L.PrevNow = c34PrevOf(header, ents)
		L.Updates = 2
	}
	L.Now = L.W.Time
	return L
}

func c34Classify(err error) string {
	if err == nil {
		return "accept"
	}
	s := err.Error()
	for _, m := range [][2]string{
		{"invalid extra size", "reject:extra-size"},
		{"invalid custodian update extra", "reject:extra-length"},
		{"invalid custodian node data", "reject:extra-length"},
		{"invalid custodian update action", "reject:action"},
		{"invalid custodian or payee keys", "reject:custodian-equals-payee"},
		{"custodian update payee signature", "reject:payee-signature"},
		{"custodian update custodian signature", "reject:custodian-signature"},
		{"duplicate custodian or payee keys", "reject:duplicate-key"},
		{"sort order", "reject:sort-order"},
		{"invalid custodian nodes count", "reject:nodes-count"},
		{"approval signature", "reject:approval"},
		{"update price", "reject:price"},
		{"account and nodes mismatch", "reject:account-nodes-mismatch"},
		{"output receiver", "reject:receiver"},
		{"invalid custodian update asset", "reject:asset"},
	} {
		if strings.Contains(s, m[0]) {
			return m[1]
		}
	}
	if len(s) > 48 {
		s = s[:48]
	}
	return "reject:other:" + strings.ReplaceAll(s, " ", "_")
}

// ---- enumeration --------------------------------------------------------------------

type c34Gen struct {
	w      *c34World
	prevs  [3]*c34PrevRef // reference state "now" of each ledger
	gen    *c34PrevRef
	cases  []*c34Case
	labels map[string]bool
}

func (g *c34Gen) prevFor(ledger int, before bool) *c34PrevRef {
	if before {
		return g.gen
	}
	return g.prevs[ledger]
}

// add computes the reference price for the bytes and attaches the amount
// price+rel units; a non-positive amount cannot be expressed as an output and
// is not a case (returns false).
func (g *c34Gen) add(cs *c34Case) bool {
	zero := new(big.Int)
	v := c34Judge(cs.Extra, g.prevFor(cs.Ledger, cs.Before), zero)
	amt := new(big.Int).Add(v.Price, big.NewInt(int64(cs.AmtRel)))
	if amt.Sign() <= 0 {
		return false
	}
	cs.Amount = amt
	if g.labels[cs.Label] {
		panic("c34: duplicate label " + cs.Label)
	}
	g.labels[cs.Label] = true
	g.cases = append(g.cases, cs)
	return true
}

// addPaid adds the case with exactly the reference price (or one unit when the price is zero).
func (g *c34Gen) addPaid(cs *c34Case) {
	cs.AmtRel = 0
	if !g.add(cs) {
		cs.AmtRel = 1
		if !g.add(cs) {
			panic("c34: cannot fund " + cs.Label)
		}
	}
}

func (g *c34Gen) currentKey(ledger int, before bool) crypto.Key {
	return g.prevFor(ledger, before).Priv
}

func c34Subsets(n, size int) [][]int {
	var out [][]int
	verifmc.Subsets(n, func(_ uint32, members []int) {
		if len(members) == size {
			out = append(out, append([]int(nil), members...))
		}
	})
	return out
}

func (g *c34Gen) baseT() []*c34Ent {
	w := g.w
	return c34Sorted([]*c34Ent{w.ent(0, false), w.ent(1, false), w.ent(2, false), w.ent(3, true), w.ent(4, false), w.ent(7, false), w.ent(8, false)})
}

func (g *c34Gen) baseU() []*c34Ent {
	var ents []*c34Ent
	for k := 0; k < 7; k++ {
		ents = append(ents, g.w.ent(k, false))
	}
	return c34Sorted(ents)
}

func (g *c34Gen) genOrderings() {
	w := g.w
	T := g.baseT()
	verifmc.Permutations(len(T), func(p []int) {
		ents := make([]*c34Ent, len(T))
		lab := "ord:"
		for i, k := range p {
			ents[i] = T[k]
			lab += fmt.Sprint(k)
		}
		g.addPaid(&c34Case{Label: lab, Group: "orderings", Ledger: 0, Extra: c34Approve(c34Body(c34Pub(w.N), ents), w.G.PrivateSpendKey, 0), Ents: ents, Header: c34Pub(w.N)})
	})
}

func (g *c34Gen) genSizes(allSingles bool) {
	w := g.w
	for ledger := 0; ledger < 3; ledger++ {
		for hi, header := range []common.Address{w.G, w.N} {
			for size := 6; size <= 9; size++ {
				for _, sub := range c34Subsets(9, size) {
					var masks [][]bool
					none, all := make([]bool, 9), make([]bool, 9)
					for _, k := range sub {
						all[k] = true
					}
					masks = append(masks, none)
					singles := []int{sub[0], sub[len(sub)-1]}
					if allSingles {
						singles = sub
					}
					for _, k := range singles {
						m := make([]bool, 9)
						m[k] = true
						masks = append(masks, m)
					}
					masks = append(masks, all)
					for _, m := range masks {
						var ents []*c34Ent
						ml := ""
						sl := ""
						for _, k := range sub {
							ents = append(ents, w.ent(k, m[k]))
							sl += fmt.Sprint(k)
							if m[k] {
								ml += fmt.Sprint(k)
							}
						}
						ents = c34Sorted(ents)
						extra := c34Approve(c34Body(c34Pub(header), ents), g.currentKey(ledger, false), 0)
						for rel := -1; rel <= 1; rel++ {
							g.add(&c34Case{Label: fmt.Sprintf("size:L%d:h%d:s%s:m%s:a%d", ledger, hi, sl, ml, rel), Group: "sizes", Ledger: ledger, Extra: extra, AmtRel: rel, Ents: ents, Header: c34Pub(header)})
						}
					}
				}
			}
		}
	}
}

// genPairs: every ordered pair (i,j) of the 7 genesis slots shares a key.
func (g *c34Gen) genPairs() {
	w := g.w
	emit := func(label string, ents []*c34Ent) {
		ents = c34Sorted(ents)
		variants := [][]*c34Ent{ents}
		for i := 0; i+1 < len(ents); i++ {
			if ents[i].Cust.PublicSpendKey == ents[i+1].Cust.PublicSpendKey {
				sw := append([]*c34Ent(nil), ents...)
				sw[i], sw[i+1] = sw[i+1], sw[i]
				variants = append(variants, sw)
			}
		}
		for vi, es := range variants {
			g.addPaid(&c34Case{Label: fmt.Sprintf("%s:t%d", label, vi), Group: "pairs", Ledger: 0, Extra: c34Approve(c34Body(c34Pub(w.N), es), w.G.PrivateSpendKey, 0), Ents: es, Header: c34Pub(w.N)})
		}
	}
	for i := 0; i < 7; i++ {
		for j := 0; j < 7; j++ {
			si, sj := w.Slots[i], w.Slots[j]
			for kind := 1; kind <= 7; kind++ {
				if (kind == 6) != (i == j) {
					continue
				}
				var repl *c34Ent
				lab := fmt.Sprintf("pair:k%d:%d:%d", kind, i, j)
				switch kind {
				case 1: // custodian address of i reused by j
					repl = w.encode(lab, si.Cust, sj.Payee, sj.Signer.PrivateSpendKey, sj.Payee.PrivateSpendKey, si.Cust.PrivateSpendKey)
				case 2: // custodian spend key of i reused by j with j's view key
					repl = w.encode(lab, common.Address{PublicSpendKey: si.Cust.PublicSpendKey, PublicViewKey: sj.Cust.PublicViewKey}, sj.Payee, sj.Signer.PrivateSpendKey, sj.Payee.PrivateSpendKey, si.Cust.PrivateSpendKey)
				case 3: // payee of i reused by j
					repl = w.encode(lab, sj.Cust, si.Payee, sj.Signer.PrivateSpendKey, si.Payee.PrivateSpendKey, sj.Cust.PrivateSpendKey)
				case 4: // payee of j is the custodian of i
					repl = w.encode(lab, sj.Cust, si.Cust, sj.Signer.PrivateSpendKey, si.Cust.PrivateSpendKey, sj.Cust.PrivateSpendKey)
				case 5: // custodian of j is the payee of i
					repl = w.encode(lab, si.Payee, sj.Payee, sj.Signer.PrivateSpendKey, sj.Payee.PrivateSpendKey, si.Payee.PrivateSpendKey)
				case 6: // custodian = payee inside one entry
					repl = w.encode(lab, sj.Cust, sj.Cust, sj.Signer.PrivateSpendKey, sj.Cust.PrivateSpendKey, sj.Cust.PrivateSpendKey)
				case 7: // payee spend key of j is the custodian VIEW key of i (informational: statement speaks of keys)
					repl = w.encode(lab, sj.Cust, common.Address{PublicSpendKey: si.Cust.PublicViewKey, PublicViewKey: sj.Payee.PublicViewKey}, sj.Signer.PrivateSpendKey, si.Cust.PrivateViewKey, sj.Cust.PrivateSpendKey)
				}
				var ents []*c34Ent
				for k := 0; k < 7; k++ {
					if k == j {
						ents = append(ents, repl)
					} else {
						ents = append(ents, w.base[k])
					}
				}
				emit(lab, ents)
			}
		}
	}
}

func (g *c34Gen) genMutations(entryPositions []int) {
	w := g.w
	T := g.baseT()
	body := c34Body(c34Pub(w.N), T)
	bits := []byte{0x01, 0x80}
	mut := func(label string, off int) {
		for _, bit := range bits {
			for mode := 0; mode < 2; mode++ {
				var extra []byte
				if mode == 0 { // mutate, then approve the mutated body
					b := append([]byte{}, body...)
					b[off] ^= bit
					extra = c34Approve(b, w.G.PrivateSpendKey, 0)
				} else { // approve, then mutate
					extra = c34Approve(body, w.G.PrivateSpendKey, 0)
					extra[off] ^= bit
				}
				g.addPaid(&c34Case{Label: fmt.Sprintf("%s:b%02x:m%d", label, bit, mode), Group: "mutations", Ledger: 0, Extra: extra, Header: c34Pub(w.N)})
			}
		}
	}
	for pos := 0; pos < 64; pos++ {
		mut(fmt.Sprintf("mut:header:%d", pos), pos)
	}
	for _, e := range entryPositions {
		for pos := 0; pos < c34EntrySize; pos++ {
			mut(fmt.Sprintf("mut:entry%d:%d", e, pos), 64+e*c34EntrySize+pos)
		}
	}
	for pos := 0; pos < 64; pos++ {
		for _, bit := range bits {
			extra := c34Approve(body, w.G.PrivateSpendKey, 0)
			extra[len(extra)-64+pos] ^= bit
			g.addPaid(&c34Case{Label: fmt.Sprintf("mut:approval:%d:b%02x", pos, bit), Group: "mutations", Ledger: 0, Extra: extra, Header: c34Pub(w.N)})
		}
	}
	// lengths
	good := c34Approve(body, w.G.PrivateSpendKey, 0)
	for _, lc := range []struct {
		name  string
		extra []byte
	}{
		{"short1", good[:len(good)-1]}, {"long1", append(append([]byte{}, good...), 0)}, {"header-only", good[:64]},
		{"no-approval", good[:len(good)-64]}, {"half-entry", append(append([]byte{}, good[:64+3*c34EntrySize+100]...), good[len(good)-64:]...)},
	} {
		g.addPaid(&c34Case{Label: "mut:length:" + lc.name, Group: "mutations", Ledger: 0, Extra: lc.extra, Header: c34Pub(w.N)})
	}
}

func (g *c34Gen) genApprovals() {
	w := g.w
	V2 := c34Sorted([]*c34Ent{w.base[0], w.base[1], w.base[2], w.base[3], w.base[4], w.base[5], w.base[7]})
	sets := [][]*c34Ent{g.baseU(), V2}
	signers := []struct {
		name string
		key  crypto.Key
	}{
		{"G", w.G.PrivateSpendKey}, {"N", w.N.PrivateSpendKey}, {"N2", w.N2.PrivateSpendKey},
		{"node-signer0", w.Slots[0].Signer.PrivateSpendKey}, {"entry-custodian7", w.Slots[7].Cust.PrivateSpendKey}, {"entry-payee0", w.Slots[0].Payee.PrivateSpendKey},
	}
	for ledger := 0; ledger < 3; ledger++ {
		for _, before := range []bool{false, true} {
			if before && ledger == 0 {
				continue
			}
			for hi, header := range []common.Address{w.G, w.N} {
				for si, set := range sets {
					body := c34Body(c34Pub(header), set)
					for _, s := range signers {
						for msg := 0; msg < 3; msg++ {
							g.addPaid(&c34Case{Label: fmt.Sprintf("appr:L%d:b%v:h%d:s%d:%s:m%d", ledger, before, hi, si, s.name, msg), Group: "approvals", Ledger: ledger, Before: before,
								Extra: c34Approve(body, s.key, msg), Ents: set, Header: c34Pub(header)})
						}
					}
				}
			}
		}
	}
}

func (g *c34Gen) genOutputs() {
	w := g.w
	T := g.baseT()
	extra := c34Approve(c34Body(c34Pub(w.N), T), w.G.PrivateSpendKey, 0)
	for rel := -1; rel <= 1; rel++ {
		for shape := 0; shape < 3; shape++ {
			for _, btc := range []bool{false, true} {
				g.add(&c34Case{Label: fmt.Sprintf("out:a%d:s%d:btc%v", rel, shape, btc), Group: "outputs", Ledger: 0, Extra: extra, AmtRel: rel, Shape: shape, BTC: btc, Ents: T, Header: c34Pub(w.N)})
			}
		}
	}
}

// genViewKeys: entries that reuse a previous SPEND key under a different VIEW
// key. A custodian address with a known spend key and another view key is a
// new custodian address (price 100); a payee whose view key changed is a
// changed payee (price 1). Amounts around the reference price.
func (g *c34Gen) genViewKeys() {
	w := g.w
	view := func(role string, k int) crypto.Key { return fixc.Key(fmt.Sprintf("c34-view-%s-%d", role, k)).Public() }
	var variant [4][7]*c34Ent // [kind][slot]; kind 1 = custodian view, 2 = payee view, 3 = both
	for k := 0; k < 7; k++ {
		sl := w.Slots[k]
		custV := common.Address{PublicSpendKey: sl.Cust.PublicSpendKey, PublicViewKey: view("cust", k)}
		payeeV := common.Address{PublicSpendKey: sl.Payee.PublicSpendKey, PublicViewKey: view("payee", k)}
		variant[0][k] = w.base[k]
		variant[1][k] = w.encode(fmt.Sprintf("e%d-cv", k), custV, sl.Payee, sl.Signer.PrivateSpendKey, sl.Payee.PrivateSpendKey, sl.Cust.PrivateSpendKey)
		variant[2][k] = w.encode(fmt.Sprintf("e%d-pv", k), sl.Cust, payeeV, sl.Signer.PrivateSpendKey, sl.Payee.PrivateSpendKey, sl.Cust.PrivateSpendKey)
		variant[3][k] = w.encode(fmt.Sprintf("e%d-cvpv", k), custV, payeeV, sl.Signer.PrivateSpendKey, sl.Payee.PrivateSpendKey, sl.Cust.PrivateSpendKey)
	}
	for ledger := 0; ledger < 3; ledger++ {
		for hi, header := range []common.Address{w.G, w.N} {
			for j := -1; j < 7; j++ { // -1 = every slot
				for kind := 1; kind <= 3; kind++ {
					var ents []*c34Ent
					for k := 0; k < 7; k++ {
						if j == -1 || j == k {
							ents = append(ents, variant[kind][k])
						} else {
							ents = append(ents, w.base[k])
						}
					}
					ents = c34Sorted(ents)
					extra := c34Approve(c34Body(c34Pub(header), ents), g.currentKey(ledger, false), 0)
					for rel := -1; rel <= 1; rel++ {
						g.add(&c34Case{Label: fmt.Sprintf("view:L%d:h%d:j%d:k%d:a%d", ledger, hi, j, kind, rel), Group: "view-keys", Ledger: ledger, Extra: extra, AmtRel: rel, Ents: ents, Header: c34Pub(header)})
					}
				}
			}
		}
	}
}

// genSigRoles: one entry whose three signature fields are made by every
// combination of {signer, payee, custodian, stranger} keys.
func (g *c34Gen) genSigRoles() {
	w := g.w
	type slotAlt struct {
		k   int
		alt bool
	}
	members := []slotAlt{{0, false}, {1, false}, {2, false}, {3, true}, {4, false}, {7, false}, {8, false}}
	for mi, m := range members {
		s := w.Slots[m.k]
		payee := s.Payee
		if m.alt {
			payee = s.PayeeAlt
		}
		keys := []crypto.Key{s.Signer.PrivateSpendKey, payee.PrivateSpendKey, s.Cust.PrivateSpendKey, w.Stranger.PrivateSpendKey}
		names := "spcx"
		for a := 0; a < 4; a++ {
			for b := 0; b < 4; b++ {
				for c := 0; c < 4; c++ {
					lab := fmt.Sprintf("roles:e%d:%c%c%c", mi, names[a], names[b], names[c])
					repl := w.encode(lab, s.Cust, payee, keys[a], keys[b], keys[c])
					var ents []*c34Ent
					for mj, o := range members {
						if mj == mi {
							ents = append(ents, repl)
						} else {
							ents = append(ents, w.ent(o.k, o.alt))
						}
					}
					ents = c34Sorted(ents)
					g.addPaid(&c34Case{Label: lab, Group: "sig-roles", Ledger: 0, Extra: c34Approve(c34Body(c34Pub(w.N), ents), w.G.PrivateSpendKey, 0), Ents: ents, Header: c34Pub(w.N)})
				}
			}
		}
	}
}

// ---- the check ---------------------------------------------------------------------

func c34SameEntries(req *common.CustodianUpdateRequest, v *c34Verdict) string {
	if req.Custodian == nil || req.Custodian.PublicSpendKey != v.Header.PublicSpendKey || req.Custodian.PublicViewKey != v.Header.PublicViewKey {
		return "custodian account differs"
	}
	if req.Signature == nil || *req.Signature != v.Approval {
		return "approval signature differs"
	}
	if len(req.Nodes) != v.N {
		return fmt.Sprintf("%d entries, want %d", len(req.Nodes), v.N)
	}
	for i, n := range req.Nodes {
		e := v.Entries[i]
		if n.Custodian.PublicSpendKey != e.Cust.PublicSpendKey || n.Custodian.PublicViewKey != e.Cust.PublicViewKey ||
			n.Payee.PublicSpendKey != e.Payee.PublicSpendKey || n.Payee.PublicViewKey != e.Payee.PublicViewKey || !bytes.Equal(n.Extra, e.Extra) {
			return fmt.Sprintf("entry %d differs", i)
		}
	}
	return ""
}

func TestMC_C34(t *testing.T) {
	c := verifmc.Start(t, "C34", "exploration")
	defer c.Finish()
	c.SetRule("custodian-update transactions validated by the real Validate on a real BadgerStore: all 5040 orderings of a 7-entry update; every subset of sizes 6..9 of a 9-entry pool x update account {same,other} x payee-change masks x amount {price-1e-8, price, price+1e-8} x 3 previous custodian states; every ordered pair of entries sharing a custodian key / payee key / custodian=payee; single-byte (2 bit positions) mutations of every byte of header, one entry and approval, before and after approving; approval signer x signed message x previous state x instant; output shape x asset x amount; all 64 signature-role assignments of each entry; entries reusing a previous custodian / payee SPEND key under a different VIEW key (one slot or all, x previous state x account x amount). A case is distinct by (previous state, instant, update bytes, amount, output shape, asset)")
	c.Assume("crypto.Key.Verify / Blake3 are the trusted base of the reference predicate", "the reference price counts an entry as new when its custodian address (spend+view key) is absent from the previous state, and as changed when the payee address differs",
		"snapshots are finalized at the storage layer (no kernel election / hour window)")

	w := c34NewWorld(mcNet7)
	g := &c34Gen{w: w, labels: map[string]bool{}, gen: c34GenesisPrev(w)}
	g.prevs[0] = g.gen
	for kind := 1; kind <= 2; kind++ {
		h, ents, _ := c34LedgerUpdate(w, kind)
		g.prevs[kind] = c34PrevOf(h, ents)
	}
	g.genOrderings()
	g.genSizes(c.Thorough())
	g.genPairs()
	g.genMutations(verifmc.Pick(c, []int{3}, []int{0, 1, 2, 3, 4, 5, 6}))
	g.genApprovals()
	g.genOutputs()
	g.genSigRoles()
	g.genViewKeys()

	// funding outputs needed per ledger
	var need [3]map[string]bool
	for i := range need {
		need[i] = map[string]bool{}
	}
	for _, cs := range g.cases {
		need[cs.Ledger][cs.fundKey()] = true
	}
	var ledgers [3]*c34Ledger
	for kind := 0; kind < 3; kind++ {
		ledgers[kind] = c34NewLedger(w, kind, need[kind])
		defer ledgers[kind].W.L.Close()
		c.Set(fmt.Sprintf("funding_outputs_ledger%d", kind), len(need[kind]))
	}
	// the real stores must be in the states the reference assumes
	for kind, L := range ledgers {
		cur, err := L.W.L.Store.ReadCustodian(L.Now)
		c.Require(err == nil && cur != nil && cur.Custodian.String() == L.PrevNow.Account.String() && len(cur.Nodes) == len(L.PrevNow.Nodes), "ledger %d: previous custodian state not as modelled", kind)
		if cur != nil {
			for _, n := range cur.Nodes {
				c.Require(L.PrevNow.Nodes[n.Custodian.String()] == n.Payee.String(), "ledger %d: node %s not as modelled", kind, n.Custodian.String())
			}
		}
		if kind > 0 {
			old, err := L.W.L.Store.ReadCustodian(L.BeforeTs)
			c.Require(err == nil && old != nil && old.Custodian.String() == w.G.String(), "ledger %d: state before the update is not genesis", kind)
		}
	}

	type result struct {
		outcome string
		v       *c34Verdict
	}
	results := make([]result, len(g.cases))
	run := func(cs *c34Case) (string, *c34Verdict) {
		L := ledgers[cs.Ledger]
		v := c34Judge(cs.Extra, L.prev(cs), cs.Amount)
		var err error
		tx := L.build(cs) // a panic here is a harness bug
		p, site := verifmc.CatchSite(func() {
			err = tx.Validate(L.W.L.Store, L.ts(cs), false)
		})
		if p != nil {
			return "panic:" + site, v
		}
		return c34Classify(err), v
	}
	roundTripped := sync.Map{}
	complete := c.ParallelN(len(g.cases), "validate cases", func(_, i int) {
		cs := g.cases[i]
		outcome, v := run(cs)
		results[i] = result{outcome, v}
		c.Eval(1)
		h := sha256.Sum256(cs.Extra)
		c.Distinct(fmt.Sprintf("%d|%v|%x|%s|%d|%v", cs.Ledger, cs.Before, h, cs.Amount, cs.Shape, cs.BTC))
		c.Outcome(outcome)
		switch {
		case outcome == "accept" && !v.OK():
			c.ViolationChecked("accepted-"+v.Why(), fmt.Sprintf("case %s (group %s, previous state %d): Validate accepted an update although the statement's predicate fails (%s): n=%d sorted=%v unique=%v entrySigs=%v approvedByCurrent=%v amount=%s price=%s (new=%d changed=%d)",
				cs.Label, cs.Group, cs.Ledger, v.Why(), v.N, v.Sorted, v.Unique, v.EntrySigs, v.Approved, cs.Amount, v.Price, v.New, v.Changed),
				map[string]any{"label": cs.Label, "group": cs.Group, "ledger": cs.Ledger, "before": cs.Before, "extra": verifmc.Hex(cs.Extra), "amount_units": cs.Amount.String(), "shape": cs.Shape, "btc": cs.BTC},
				func() bool { o, _ := run(cs); return o == "accept" })
		case outcome == "accept":
		case strings.HasPrefix(outcome, "panic:"):
			c.Stricter("validation panics instead of returning an error: " + outcome)
		case v.OK():
			switch {
			case outcome == "reject:nodes-count" && v.N < 7:
				c.Stricter("update with fewer than 7 entries refused")
			case outcome == "reject:extra-length" && v.N < 7:
				c.Stricter("update with fewer than 7 entries refused")
			case outcome == "reject:account-nodes-mismatch":
				c.Stricter("same custodian account must keep exactly the previous node set")
			case outcome == "reject:extra-size" && (cs.Shape != 0 || cs.BTC):
				c.Stricter("output must be 1 key + fffe40 in XIN (extra size limit otherwise)")
			case outcome == "reject:duplicate-key" && strings.HasPrefix(cs.Label, "pair:k7"):
				c.Stricter("a spend key equal to an earlier entry's view key is refused")
			default:
				c.Stricter("unclassified: " + cs.Group + " " + outcome)
			}
		}
		if strings.HasPrefix(outcome, "reject:other:") {
			c.Require(false, "case %s rejected for a reason outside the custodian rules (harness problem?): %s", cs.Label, outcome)
		}

		// encode -> parse round trip on the distinct byte strings
		if _, seen := roundTripped.LoadOrStore(string(h[:]), true); !seen {
			req, err := common.ParseCustodianUpdateNodesExtra(cs.Extra, false)
			c.Eval(1)
			switch {
			case err == nil && !v.Structural():
				c.Violation("parse-accepted-"+v.Why(), fmt.Sprintf("case %s: ParseCustodianUpdateNodesExtra accepted bytes whose entries are not sorted/unique/signed (%s)", cs.Label, v.Why()), map[string]any{"label": cs.Label, "extra": verifmc.Hex(cs.Extra)})
			case err == nil:
				c.Outcome("roundtrip:ok")
				if d := c34SameEntries(req, v); d != "" {
					c.Violation("roundtrip-mismatch", fmt.Sprintf("case %s: parse(encode(x)) != x: %s", cs.Label, d), map[string]any{"label": cs.Label, "extra": verifmc.Hex(cs.Extra)})
				}
				if cs.Ents != nil {
					for k, e := range cs.Ents {
						if k < len(req.Nodes) && (req.Nodes[k].Custodian.String() != e.Cust.String() || req.Nodes[k].Payee.String() != e.Payee.String()) {
							c.Violation("roundtrip-mismatch", fmt.Sprintf("case %s: entry %d parsed as another (custodian,payee) than encoded", cs.Label, k), map[string]any{"label": cs.Label})
						}
					}
				}
			case v.Structural() && v.N >= 7 && !strings.HasPrefix(cs.Label, "pair:k7"):
				c.Outcome("roundtrip:refused")
				c.Violation("roundtrip-refused", fmt.Sprintf("case %s: a sorted, unique, fully signed update of %d entries does not parse back: %v", cs.Label, v.N, err), map[string]any{"label": cs.Label, "extra": verifmc.Hex(cs.Extra)})
			default:
				c.Outcome("roundtrip:n/a")
			}
		}
	})
	if !complete {
		return
	}

	// ---- finalization of accepted updates: ReadCustodian returns the accepted entries ----
	var fin []int
	seenClass := map[string]bool{}
	for i, cs := range g.cases {
		r := results[i]
		if r.outcome != "accept" || !r.v.OK() || cs.Before || cs.Shape != 0 || cs.BTC {
			continue
		}
		same := r.v.Header.String() == ledgers[cs.Ledger].PrevNow.Account.String()
		class := fmt.Sprintf("%d|%v|%d|%d|%d|%s", cs.Ledger, same, r.v.N, r.v.New, r.v.Changed, cs.Group)
		if c.Thorough() && cs.Group == "sizes" && cs.AmtRel == 0 {
			class = cs.Label
		}
		if seenClass[class] {
			continue
		}
		seenClass[class] = true
		fin = append(fin, i)
	}
	c.Set("finalized_updates", len(fin))
	c.ParallelN(len(fin), "finalize accepted", func(_, fi int) {
		cs := g.cases[fin[fi]]
		v := results[fin[fi]].v
		L := c34NewLedger(w, cs.Ledger, map[string]bool{cs.fundKey(): true})
		defer L.W.L.Close()
		store := L.W.L.Store
		tx := L.build(cs)
		ts := L.W.Time
		verr, werr := L.W.admit(tx)
		c.Eval(1)
		replay := map[string]any{"label": cs.Label, "ledger": cs.Ledger, "extra": verifmc.Hex(cs.Extra), "amount_units": cs.Amount.String()}
		if verr != nil {
			c.Require(false, "case %s accepted on the shared ledger but refused on a fresh one: %v", cs.Label, verr)
			return
		}
		if werr != nil {
			c.Outcome("finalize:failed")
			c.Violation("finalize-failed", fmt.Sprintf("case %s: accepted update could not be finalized: %v", cs.Label, werr), replay)
			return
		}
		c.Outcome("finalize:ok")
		for round := 0; round < 2; round++ { // second round is served from the store's cache
			for _, at := range []uint64{ts, ts + 1, ^uint64(0)} {
				cur, err := store.ReadCustodian(at)
				if err != nil || cur == nil {
					c.Violation("readback-missing", fmt.Sprintf("case %s: ReadCustodian(%d) after finalization at %d: %v %v", cs.Label, at, ts, cur, err), replay)
					return
				}
				if d := c34SameEntries(cur, v); d != "" || cur.Transaction != tx.PayloadHash() || cur.Timestamp != ts {
					c.Violation("readback-mismatch", fmt.Sprintf("case %s: ReadCustodian(%d) does not return the accepted update: %s tx=%s ts=%d", cs.Label, at, d, cur.Transaction, cur.Timestamp), replay)
					return
				}
			}
			old, err := store.ReadCustodian(ts - 1)
			if err != nil || old == nil || old.Custodian.String() != L.PrevNow.Account.String() || len(old.Nodes) != len(L.PrevNow.Nodes) {
				c.Violation("readback-previous", fmt.Sprintf("case %s: ReadCustodian(ts-1) is not the previous state: %v %v", cs.Label, old, err), replay)
				return
			}
			for _, n := range old.Nodes {
				if L.PrevNow.Nodes[n.Custodian.String()] != n.Payee.String() {
					c.Violation("readback-previous", fmt.Sprintf("case %s: previous state node %s changed", cs.Label, n.Custodian.String()), replay)
					return
				}
			}
			all, err := store.ListCustodianUpdates()
			if err != nil || len(all) != L.Updates+1 || c34SameEntries(all[len(all)-1], v) != "" {
				c.Violation("readback-list", fmt.Sprintf("case %s: ListCustodianUpdates has %d records (want %d) or a different last record: %v", cs.Label, len(all), L.Updates+1, err), replay)
				return
			}
		}
	})

	// ---- samples and vacuity guards ----
	for _, lab := range []string{"ord:0123456", "size:L1:h0:s0123456:m:a0", "pair:k3:2:5:t0", "mut:entry3:170:b01:m0", "appr:L2:bfalse:h1:s1:G:m0", "roles:e2:spp"} {
		for i, cs := range g.cases {
			if cs.Label == lab {
				v := results[i].v
				c.Sample(map[string]any{"case": cs.Label, "group": cs.Group, "previous_state": cs.Ledger, "entries": v.N, "amount_units": cs.Amount.String(), "reference": v.Why(), "price_units": v.Price.String(), "code": results[i].outcome})
			}
		}
	}
	groupCount := func(group, outcome string) int {
		n := 0
		for i, cs := range g.cases {
			if cs.Group == group && (outcome == "" || results[i].outcome == outcome) {
				n++
			}
		}
		return n
	}
	for _, grp := range []string{"orderings", "sizes", "pairs", "mutations", "approvals", "outputs", "sig-roles", "view-keys"} {
		c.Set("cases_"+grp, groupCount(grp, ""))
		c.Set("accepted_"+grp, groupCount(grp, "accept"))
	}
	refOK := 0
	for i := range g.cases {
		if results[i].v.OK() {
			refOK++
		}
	}
	c.Set("reference_valid_cases", refOK)
	c.Require(groupCount("orderings", "") == 5040 && groupCount("orderings", "accept") == 1, "orderings: %d cases, %d accepted (want 5040 / exactly the sorted one)", groupCount("orderings", ""), groupCount("orderings", "accept"))
	c.Require(groupCount("sizes", "accept") > 500 && groupCount("sizes", "reject:price") > 500, "sizes group vacuous: %d accepted %d underpaid", groupCount("sizes", "accept"), groupCount("sizes", "reject:price"))
	c.Require(groupCount("mutations", "accept") > 0 && groupCount("approvals", "accept") > 0 && groupCount("sig-roles", "accept") > 0 && groupCount("outputs", "accept") > 0, "a group has no accepted case")
	for _, o := range []string{"reject:sort-order", "reject:duplicate-key", "reject:custodian-equals-payee", "reject:payee-signature", "reject:custodian-signature", "reject:approval", "reject:price", "reject:account-nodes-mismatch", "reject:extra-size", "reject:extra-length", "reject:action", "roundtrip:ok", "finalize:ok"} {
		c.Require(c.OutcomeCount(o) > 0, "outcome %s never reached", o)
	}
	c.Require(groupCount("view-keys", "accept") > 20 && groupCount("view-keys", "reject:price") > 20, "view-keys group vacuous: %d accepted %d underpaid", groupCount("view-keys", "accept"), groupCount("view-keys", "reject:price"))
	c.Require(len(fin) >= 10, "only %d accepted updates finalized", len(fin))
}
