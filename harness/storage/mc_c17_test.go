//go:build verif

package storage

import (
	"fmt"
	"math/big"
	"sort"
	"strings"
	"testing"

	"github.com/MixinNetwork/mixin/common"
	"github.com/MixinNetwork/mixin/crypto"
	"github.com/MixinNetwork/mixin/verifmc"
	"github.com/MixinNetwork/mixin/verifmc/fixc"
)

// C17 — asset supply equals the value held in unconsumed outputs.
// Explicit-state BFS (E2) over histories of real finalized snapshots. The
// reference ledger (math/big sums of what was applied) lives in the wallet.

var c17Events = []string{
	"deposit-btc-1", "deposit-btc-1000", "deposit-xin-13439", "deposit-xin-1",
	"split-btc", "merge-btc", "submit-btc-0.5", "submit-btc-all", "claim-last-submit",
	"mint-next-500", "pledge", "cancel", "refinalize-last-on-other-chain", "split-xin",
	"admit-pending-spend-btc", "takeover-finalize-competitor", "finalize-pending",
	"finalized-cross-asset-spend",
}

type c17State struct {
	w *mcWallet
}

func c17Assets() []crypto.Hash { return []crypto.Hash{common.XINAssetId, common.BitcoinAssetId} }

// c17Check evaluates the invariant of the statement in the current state.
func c17Check(w *mcWallet, report func(key, desc string)) {
	spent := w.finalizedInputs()
	utxos := w.scanUTXOs()
	for _, asset := range c17Assets() {
		name := map[crypto.Hash]string{common.XINAssetId: "XIN", common.BitcoinAssetId: "BTC"}[asset]
		info, bal, err := w.L.Store.ReadAssetWithBalance(asset)
		if err != nil {
			report("read-error", fmt.Sprintf("ReadAssetWithBalance(%s): %v", name, err))
			continue
		}
		recorded := new(big.Int)
		if info != nil {
			recorded = mcUnits(bal)
		}
		ref := w.RefTotal[asset]
		if recorded.Cmp(ref) != 0 {
			report("total-vs-history:"+name, fmt.Sprintf("recorded total of %s is %s units, genesis+deposits+mints-submits is %s", name, recorded, ref))
		}
		sum := new(big.Int)
		for _, u := range utxos {
			if u.Asset == asset && !spent[fmt.Sprintf("%s:%d", u.Hash, u.Index)] {
				sum.Add(sum, mcUnits(u.Amount))
			}
		}
		if sum.Cmp(recorded) != 0 {
			report("total-vs-unspent:"+name, fmt.Sprintf("recorded total of %s is %s units, unconsumed outputs hold %s", name, recorded, sum))
		}
		if recorded.Sign() < 0 || recorded.Cmp(mcUnits(common.GetAssetCapacity(asset))) > 0 {
			report("total-range:"+name, fmt.Sprintf("total of %s = %s outside [0, capacity]", name, recorded))
		}
	}
}

func c17Apply(w *mcWallet, e int, replaying bool, report func(key, desc string)) bool {
	var tx *common.VersionedTransaction
	addRef := func(asset crypto.Hash, amt common.Integer, sign int) {
		d := mcUnits(amt)
		if sign < 0 {
			d.Neg(d)
		}
		w.RefTotal[asset] = new(big.Int).Add(w.RefTotal[asset], d)
	}
	var after func()
	switch c17Events[e] {
	case "deposit-btc-1":
		tx = w.txDeposit(common.BitcoinAssetId, "1")
		after = func() { addRef(common.BitcoinAssetId, common.NewIntegerFromString("1"), 1) }
	case "deposit-btc-1000":
		tx = w.txDeposit(common.BitcoinAssetId, "1000")
		after = func() { addRef(common.BitcoinAssetId, common.NewIntegerFromString("1000"), 1) }
	case "deposit-xin-13439":
		tx = w.txDeposit(common.XINAssetId, "13439")
		after = func() { addRef(common.XINAssetId, common.NewIntegerFromString("13439"), 1) }
	case "deposit-xin-1":
		tx = w.txDeposit(common.XINAssetId, "1")
		after = func() { addRef(common.XINAssetId, common.NewIntegerFromString("1"), 1) }
	case "split-btc":
		tx = w.txSplit(common.BitcoinAssetId)
	case "split-xin":
		tx = w.txSplit(common.XINAssetId)
	case "merge-btc":
		tx = w.txMerge(common.BitcoinAssetId)
	case "submit-btc-0.5":
		tx = w.txSubmit(common.BitcoinAssetId, "0.5")
		if tx != nil {
			amt := tx.Outputs[0].Amount
			h := tx.PayloadHash()
			after = func() { addRef(common.BitcoinAssetId, amt, -1); w.LastSubmit = &h }
		}
	case "submit-btc-all":
		tx = w.txSubmit(common.BitcoinAssetId, "")
		if tx != nil {
			amt := tx.Outputs[0].Amount
			h := tx.PayloadHash()
			after = func() { addRef(common.BitcoinAssetId, amt, -1); w.LastSubmit = &h }
		}
	case "claim-last-submit":
		if w.LastSubmit == nil {
			return false
		}
		tx = w.txClaim(*w.LastSubmit)
		after = func() { w.LastSubmit = nil }
	case "mint-next-500":
		b := w.MintBatch + 1
		tx = w.txMint(b, "500")
		after = func() { addRef(common.XINAssetId, common.NewIntegerFromString("500"), 1); w.MintBatch = b }
	case "pledge":
		if w.Pledging != nil {
			return false
		}
		tx = w.txPledge(w.PledgeN)
		if tx != nil {
			p := tx
			after = func() { w.Pledging = p; w.PledgeN++ }
		}
	case "cancel":
		if w.Pledging == nil {
			return false
		}
		tx = w.txCancel(w.Pledging)
		after = func() { w.Pledging = nil }
	case "admit-pending-spend-btc":
		// ordinary admission without finalization: validate, lock, persist
		if w.Pending != nil {
			return false
		}
		tx = w.txSplit(common.BitcoinAssetId)
		if tx == nil {
			return false
		}
		if tx.Validate(w.L.Store, w.Time, false) != nil {
			return false
		}
		if err := tx.LockInputs(w.L.Store, false); err != nil {
			report("admit-lock-failed", err.Error())
			return true
		}
		if err := w.L.Store.WriteTransaction(tx); err != nil {
			report("admit-write-failed", err.Error())
			return true
		}
		w.Pending, w.TakenOver = tx, false
		if !replaying {
			c17Check(w, report)
		}
		return true
	case "takeover-finalize-competitor":
		// a finalized snapshot carries a competitor of the pending spend: the
		// finalization path takes the input over (fork lock) and is finalized
		if w.Pending == nil || w.TakenOver {
			return false
		}
		if _, snap, _ := w.L.Store.ReadTransaction(w.Pending.PayloadHash()); snap != "" {
			return false
		}
		in := w.Pending.Inputs[0]
		u, err := w.L.Store.ReadUTXOLock(in.Hash, in.Index)
		if err != nil || u == nil {
			return false
		}
		ctx := fixc.Transfer(common.BitcoinAssetId, []*common.Input{{Hash: in.Hash, Index: in.Index}}, []fixc.Out{{To: w.acct(), T: 1, Amount: u.Amount.String()}}, w.label("competitor"))
		comp := w.sign(ctx)
		var ferr error
		p := verifmc.Catch(func() {
			if ferr = comp.LockInputs(w.L.Store, true); ferr != nil {
				return
			}
			_, ferr = w.L.Store.VerifFinalize(w.L.Net.NodeIds[w.Chain], w.Time, false, comp)
		})
		w.Time += 1e9
		if p != nil || ferr != nil {
			report("takeover-failed", fmt.Sprintf("finalization-path takeover of a pending spend failed: %v %v", p, ferr))
			return true
		}
		w.TakenOver = true
		w.LastFinal = comp
		if !replaying {
			c17Check(w, report)
		}
		return true
	case "finalize-pending":
		// a later snapshot names the pending transaction; the kernel skips
		// validation and locking for transactions it finds in the store
		if w.Pending == nil {
			return false
		}
		body, snap, err := w.L.Store.ReadTransaction(w.Pending.PayloadHash())
		if err != nil || body == nil || snap != "" {
			return false // displaced (body pruned) or already final
		}
		var ferr error
		p := verifmc.Catch(func() {
			_, ferr = w.L.Store.VerifSnapshotOnly(w.L.Net.NodeIds[w.Chain], w.Time, w.Pending.PayloadHash())
		})
		w.Time += 1e9
		if p != nil || ferr != nil {
			report("finalize-pending-failed", fmt.Sprintf("%v %v", p, ferr))
			return true
		}
		w.LastFinal = w.Pending
		w.Pending = nil
		if !replaying {
			c17Check(w, report)
		}
		return true
	case "finalized-cross-asset-spend":
		// a finalized snapshot carries a BTC transaction that names a XIN output
		// of the same owner: validated the way finalized snapshots are (fork=true);
		// if the validator lets it through it is finalized like any other member
		xs := w.spendable(common.XINAssetId)
		if len(xs) == 0 {
			return false
		}
		u := xs[0]
		ctx := fixc.Transfer(common.BitcoinAssetId, []*common.Input{{Hash: u.Hash, Index: u.Index}}, []fixc.Out{{To: w.acct(), T: 1, Amount: u.Amount.String()}}, w.label("cross-asset"))
		cross := w.sign(ctx)
		for _, fork := range []bool{false, true} {
			var verr error
			if pv := verifmc.Catch(func() { verr = cross.Validate(w.L.Store, w.Time, fork) }); pv != nil {
				return false
			}
			if verr != nil {
				continue
			}
			var ferr error
			p := verifmc.Catch(func() {
				if ferr = cross.LockInputs(w.L.Store, fork); ferr != nil {
					return
				}
				_, ferr = w.L.Store.VerifFinalize(w.L.Net.NodeIds[w.Chain], w.Time, false, cross)
			})
			w.Time += 1e9
			report("cross-asset-spend-validated", fmt.Sprintf("a %s-asset transaction spending a XIN output validated (fork=%v); finalization: %v %v", "BTC", fork, p, ferr))
			if !replaying {
				c17Check(w, report)
			}
			return true
		}
		return false
	case "refinalize-last-on-other-chain":
		if w.LastFinal == nil {
			return false
		}
		// a second snapshot, on another chain, containing an already final transaction
		other := 2 + (w.Chain+w.Seq)%3
		var err error
		p := verifmc.Catch(func() {
			_, err = w.L.Store.VerifFinalize(w.L.Net.NodeIds[other], w.Time, false, w.LastFinal)
		})
		w.Time += 1e9
		w.Seq++
		if p != nil || err != nil {
			// UNIQUE per node: the same chain may not carry it twice; other chains may
			report("refinalize-failed", fmt.Sprintf("second finalization of %s on chain %d failed: %v %v", w.LastFinal.PayloadHash(), other, p, err))
			return true
		}
		if !replaying {
			c17Check(w, report)
		}
		return true
	}
	if tx == nil {
		return false
	}
	verr, werr := w.admit(tx)
	if verr != nil {
		// rejected by validation: not a ledger transition (e.g. deposit above capacity)
		return false
	}
	if werr != nil {
		report("finalize-failed:"+c17Events[e], fmt.Sprintf("validated transaction could not be finalized: %v", werr))
		return true
	}
	if after != nil {
		after()
	}
	if !replaying {
		c17Check(w, report)
	}
	return true
}

func c17Key(w *mcWallet) string {
	spent := w.finalizedInputs()
	var parts []string
	for _, u := range w.scanUTXOs() {
		a := "X"
		if u.Asset == common.BitcoinAssetId {
			a = "B"
		}
		parts = append(parts, fmt.Sprintf("%s/%x/%s/%v", a, u.Type, u.Amount, spent[fmt.Sprintf("%s:%d", u.Hash, u.Index)]))
	}
	sort.Strings(parts)
	return strings.Join(parts, ",") + fmt.Sprintf("|x=%s b=%s sub=%v mint=%d pl=%v last=%v pend=%v/%v", w.RefTotal[common.XINAssetId], w.RefTotal[common.BitcoinAssetId], w.LastSubmit != nil, w.MintBatch, w.Pledging != nil, c17LastClass(w), w.Pending != nil, w.TakenOver)
}

func c17LastClass(w *mcWallet) string {
	if w.LastFinal == nil {
		return "-"
	}
	return fmt.Sprint(w.LastFinal.TransactionType())
}

func TestMC_C17(t *testing.T) {
	c := verifmc.Start(t, "C17", "model_checking")
	defer c.Finish()
	c.SetRule("(1) BFS over all histories of real finalized one-transaction snapshots (deposit / split / merge / withdrawal submit / claim / mint / pledge / cancel / re-finalization on another chain / admission without finalization, finalization-path takeover by a competitor, later finalization of the pending spend) built by a deterministic wallet against the current state; canonical state = multiset of (asset,type,amount,spent) of all UTXO records + reference totals + pending flags; invariant evaluated in every state")
	c.Assume("Badger transactions are atomic; snapshots are written directly on a genesis chain's head round (storage layer, no kernel round logic); the wallet's choice of inputs (smallest first) is part of the alphabet")
	// the concurrent part first: it is short, and a wall-clock cap that cuts the
	// BFS below must not keep it from running
	c17Concurrent(c)
	depth := verifmc.Pick(c, 5, 7)
	b := &verifmc.BFS[*mcWallet]{
		C: c, NumEvents: len(c17Events), MaxDepth: depth,
		EventName: func(e int) string { return c17Events[e] },
		New:       func(int) *mcWallet { return newMCWallet(newMCLedger("")) },
		Apply:     c17Apply,
		Key:       c17Key,
		Close:     func(w *mcWallet) { w.L.Close() },
	}
	states, trans, d, _ := b.Run()
	c.Set("max_depth", d)
	c.Require(states > 50 && trans > 200, "vacuous C17 exploration: %d states %d transitions", states, trans)
}
