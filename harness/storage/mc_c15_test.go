//go:build verif

package storage

import (
	"bytes"
	"crypto/sha256"
	"encoding/binary"
	"encoding/hex"
	"encoding/json"
	"errors"
	"fmt"
	"math/big"
	"os"
	"path/filepath"
	"sort"
	"strings"
	"sync"
	"sync/atomic"
	"syscall"
	"testing"
	"time"

	"github.com/MixinNetwork/mixin/common"
	"github.com/MixinNetwork/mixin/config"
	"github.com/MixinNetwork/mixin/crypto"
	"github.com/MixinNetwork/mixin/verifmc"
	"github.com/MixinNetwork/mixin/verifmc/fixc"
	"github.com/dgraph-io/badger/v4"
)

// C15 — finalizing a snapshot is atomic and idempotent.
//
// Every WriteSnapshot call issued here is bracketed by two full dumps of the
// snapshot database. A small reference model (c15Expect) computes, from the
// pre-dump, the snapshot and the transaction bodies, the exact key/value set
// the statement allows the call to write (or that the call must fail). The
// oracle is byte-level: failure/panic/cut => post == pre; success => post ==
// pre + expected writes. A second, history-level reference (first finalizing
// snapshot per transaction, asset totals as math/big sums applied once) is
// compared after every successful call.

var c15AssetZ = fixc.Hash("c15-asset-z")

// ---------------------------------------------------------------- key helpers

var c15Prefixes = []string{
	"GHOST", "UTXO", "DEPOSIT", "WITHDRAWAL", "MINTUNIVERSAL", "TRANSACTION", "FINALIZATION", "UNIQUE",
	"ROUND", "SNAPSHOT", "LINK", "TOPOLOGY", "SNAPTOPO", "WORKPROPOSE", "WORKVOTE", "WORKCHECKPOINT",
	"WORKSNAPSHOT", "SPACECHECKPOINT", "SPACEQUEUE", "ASSETINFO", "ASSETTOTAL", "CUSTODIANUPDATE",
	"CONSENSUSSNAPSHOT", "NODESTATEQUEUE", "NODEOPERATION",
}

func c15PrefixOf(hexKey string) string {
	k, _ := hex.DecodeString(hexKey)
	best := ""
	for _, p := range c15Prefixes {
		if len(p) > len(best) && bytes.HasPrefix(k, []byte(p)) {
			best = p
		}
	}
	if best == "" {
		return "OTHER"
	}
	return best
}

func c15K(prefix string, parts ...[]byte) []byte {
	k := []byte(prefix)
	for _, p := range parts {
		k = append(k, p...)
	}
	return k
}

func c15BE(v uint64) []byte { return binary.BigEndian.AppendUint64(nil, v) }

func c15Varint(i uint) []byte {
	buf := make([]byte, binary.MaxVarintLen64)
	n := binary.PutVarint(buf, int64(i))
	return buf[:n]
}

func c15DumpHash(d map[string]string) string {
	h := sha256.New()
	for _, k := range verifmc.SortedKeys(d) {
		h.Write([]byte(k))
		h.Write([]byte{'='})
		h.Write([]byte(d[k]))
		h.Write([]byte{'\n'})
	}
	return hex.EncodeToString(h.Sum(nil)[:16])
}

// ---------------------------------------------------------------- reference model

// c15Exp is the effect set the statement allows for one WriteSnapshot call.
type c15Exp struct {
	pre     map[string]string
	writes  map[string]string // hex key -> hex value
	fail    string            // "" or error:ghost / error:asset / error:pledge / panic:claim / panic:capacity / panic:assetinfo
	failAt  int               // index in the snapshot's transaction list
	already []crypto.Hash     // members that were final before the call
	fresh   []crypto.Hash
	// every Set in issue order (repeats included), with the member it belongs
	// to (-1 = snapshot/topology/work tail): replayed on a scratch transaction of
	// a size-limited store to learn where Badger's ErrTxnTooBig must strike
	order        []c15Write
	cur          int
	tooBigAt     int // index in order, -1 = the call fits in one Badger transaction
	tooBigMember int
}

type c15Write struct {
	k, v   []byte
	member int
}

func (x *c15Exp) get(k []byte) (string, bool) {
	hk := hex.EncodeToString(k)
	if v, ok := x.writes[hk]; ok {
		return v, true
	}
	v, ok := x.pre[hk]
	return v, ok
}

func (x *c15Exp) set(k, v []byte) {
	x.writes[hex.EncodeToString(k)] = hex.EncodeToString(v)
	x.order = append(x.order, c15Write{k: append([]byte{}, k...), v: append([]byte{}, v...), member: x.cur})
}

func c15Expect(pre map[string]string, topo *common.SnapshotWithTopologicalOrder, signers []crypto.Hash, bodies map[crypto.Hash]*common.VersionedTransaction) *c15Exp {
	x := &c15Exp{pre: pre, writes: map[string]string{}, failAt: -1, tooBigAt: -1, tooBigMember: -1}
	snapHash := topo.PayloadHash()
	for i, h := range topo.Transactions {
		x.cur = i
		tx := bodies[h]
		if tx == nil {
			panic("c15: member without body " + h.String())
		}
		if _, ok := x.get(c15K("FINALIZATION", h[:])); ok {
			// already final: first record wins, nothing else of the transaction is applied
			x.already = append(x.already, h)
		} else {
			if why := x.finalize(tx, h, snapHash, topo.Timestamp); why != "" {
				x.fail, x.failAt = why, i
				return x
			}
			x.fresh = append(x.fresh, h)
		}
		x.set(c15K("UNIQUE", h[:], topo.NodeId[:]), nil)
	}
	x.cur = -1
	snapKey := c15K("SNAPSHOT", topo.NodeId[:], c15BE(topo.RoundNumber), snapHash[:])
	x.set(snapKey, topo.VersionedMarshal())
	topoKey := c15K("TOPOLOGY", c15BE(topo.TopologicalOrder))
	x.set(topoKey, snapKey)
	x.set(c15K("SNAPTOPO", snapHash[:]), topoKey)
	work := append([]byte{}, topo.Hash[:]...)
	for _, s := range signers {
		work = append(work, s[:]...)
	}
	x.set(c15K("WORKSNAPSHOT", topo.NodeId[:], c15BE(topo.RoundNumber), c15BE(topo.Timestamp)), work)
	return x
}

func (x *c15Exp) finalize(tx *common.VersionedTransaction, h, snapHash crypto.Hash, ts uint64) string {
	x.set(c15K("FINALIZATION", h[:]), snapHash[:])
	infoKey := c15K("ASSETINFO", tx.Asset[:])
	if d := tx.Inputs[0].Deposit; d != nil {
		a := d.Asset()
		if old, ok := x.get(infoKey); ok {
			var o common.Asset
			ob, _ := hex.DecodeString(old)
			if err := json.Unmarshal(ob, &o); err != nil {
				panic(err)
			}
			if o.Chain != a.Chain || o.AssetKey != a.AssetKey {
				return "error:asset"
			}
		} else {
			v, err := json.Marshal(a)
			if err != nil {
				panic(err)
			}
			x.set(infoKey, v)
		}
	}
	for _, u := range tx.UnspentOutputs() {
		for _, gk := range u.Keys {
			k := c15K("GHOST", gk[:])
			if old, ok := x.get(k); ok {
				if old != hex.EncodeToString(h[:]) {
					return "error:ghost"
				}
			} else {
				x.set(k, h[:])
			}
		}
		x.set(c15K("UTXO", h[:], c15Varint(u.Index)), u.Marshal())
		switch u.Type {
		case common.OutputTypeNodePledge:
			var signer, payee crypto.Key
			copy(signer[:], tx.Extra)
			copy(payee[:], tx.Extra[32:])
			if why := x.pledge(signer, payee, h, ts); why != "" {
				return why
			}
		case common.OutputTypeWithdrawalClaim:
			ref := tx.References[0]
			_, okBody := x.get(c15K("TRANSACTION", ref[:]))
			_, okFinal := x.get(c15K("FINALIZATION", ref[:]))
			if !okBody || !okFinal {
				return "panic:claim"
			}
			x.set(c15K("WITHDRAWAL", ref[:]), h[:])
		case common.OutputTypeCustodianUpdateNodes:
			x.set(c15K("CUSTODIANUPDATE", c15BE(ts)), h[:])
		}
	}
	// asset total
	if _, ok := x.get(infoKey); !ok {
		return "panic:assetinfo"
	}
	totalKey := c15K("ASSETTOTAL", tx.Asset[:])
	total := common.Zero
	if v, ok := x.get(totalKey); ok {
		b, _ := hex.DecodeString(v)
		total = common.NewIntegerFromString(string(b))
	}
	switch tx.TransactionType() {
	case common.TransactionTypeWithdrawalSubmit:
		for _, o := range tx.Outputs {
			if o.Type == common.OutputTypeWithdrawalSubmit {
				total = total.Sub(o.Amount)
			}
		}
	case common.TransactionTypeDeposit:
		total = total.Add(tx.Inputs[0].Deposit.Amount)
	case common.TransactionTypeMint:
		total = total.Add(tx.Inputs[0].Mint.Amount)
	default:
		return ""
	}
	if total.Cmp(common.GetAssetCapacity(tx.Asset)) > 0 {
		return "panic:capacity"
	}
	x.set(totalKey, []byte(total.String()))
	return ""
}

// pledge mirrors the statement's membership rule: a pledge is applied only
// when every node (latest state up to ts+period) is accepted/removed/cancelled
// and neither the signer nor the transaction is known.
func (x *c15Exp) pledge(signer, payee crypto.Key, h crypto.Hash, ts uint64) string {
	pfx := hex.EncodeToString([]byte("NODESTATEQUEUE"))
	merged := map[string]string{}
	for k, v := range x.pre {
		if strings.HasPrefix(k, pfx) {
			merged[k] = v
		}
	}
	for k, v := range x.writes {
		if strings.HasPrefix(k, pfx) {
			merged[k] = v
		}
	}
	threshold := ts + uint64(config.KernelNodePledgePeriodMinimum)
	type ent struct {
		tx    string
		state string
	}
	latest := map[string]ent{}
	for _, k := range verifmc.SortedKeys(merged) {
		kb, _ := hex.DecodeString(k)
		vb, _ := hex.DecodeString(merged[k])
		kb = kb[len("NODESTATEQUEUE"):]
		if binary.BigEndian.Uint64(kb[:8]) > threshold {
			continue
		}
		latest[string(kb[8:])] = ent{tx: string(vb[32:64]), state: string(vb[64:])}
	}
	for s, n := range latest {
		if n.state != "ACCEPTED" && n.state != "REMOVED" && n.state != "CANCELLED" {
			return "error:pledge"
		}
		if s == string(signer[:]) || n.tx == string(h[:]) {
			return "error:pledge"
		}
	}
	val := append(append(append([]byte{}, payee[:]...), h[:]...), []byte("PLEDGING")...)
	x.set(c15K("NODESTATEQUEUE", c15BE(ts), signer[:]), val)
	return ""
}

// ---------------------------------------------------------------- commit cut seam

var c15ErrCut = errors.New("c15: process cut before commit")
var c15ErrRunaway = errors.New("c15: more than 64 commits inside one WriteSnapshot call")

type c15Cut struct {
	failAt int32
	seen   atomic.Int32
	fired  atomic.Bool
}

var c15Cuts sync.Map // snapshot DB dir -> *c15Cut (armed while present)

func c15Hook(kind, dir string, writes int) error {
	if kind != "commit" {
		return nil
	}
	v, ok := c15Cuts.Load(dir)
	if !ok {
		return nil
	}
	cut := v.(*c15Cut)
	n := cut.seen.Add(1)
	if n == cut.failAt {
		cut.fired.Store(true)
		return c15ErrCut
	}
	if n > 64 {
		// one WriteSnapshot call that keeps committing: stop it deterministically
		// (no wall clock) so that the oracle can look at what it left behind
		return c15ErrRunaway
	}
	return nil
}

// ---------------------------------------------------------------- environment

type c15Member struct {
	Class string
	Tx    *common.VersionedTransaction
	H     crypto.Hash
}

type c15Env struct {
	L      *mcLedger
	Dir    string
	Acct   common.Address
	Other  common.Address
	setupN uint64
	xIn    []*common.Input
	bIn    []*common.Input
	pIn    []*common.Input
	w0     *crypto.Hash
	pool   []*c15Member
	bodies map[crypto.Hash]*common.VersionedTransaction
	// history-level reference
	firstFinal map[crypto.Hash]crypto.Hash
	baseTotal  map[crypto.Hash]*big.Int
	onChain    [3]map[crypto.Hash]bool
	lastKey    string
	base       map[string]string // dump at the end of the setup
	baseKey    string
	resets     int
	tsDelta    int64 // seconds added to the timestamp of the next snapshot (may be negative)
	small      bool  // snapshot DB opened with a small memtable (low per-transaction limits)
	cutSeam    bool  // arm the commit seam around every call (key = snapshot DB dir; "" for in-memory: one ledger at a time)
}

func (e *c15Env) acct() []*common.Address { a := e.Acct; return []*common.Address{&a} }

func (e *c15Env) setupFinalize(tx *common.VersionedTransaction) {
	ts := e.L.Net.Epoch + uint64(time.Hour) + e.setupN*uint64(time.Second)
	e.setupN++
	if _, err := e.L.Store.VerifFinalize(e.L.Net.NodeIds[0], ts, true, tx); err != nil {
		panic(fmt.Errorf("c15 setup finalize: %v", err))
	}
}

func (e *c15Env) signScript(tx *common.Transaction) *common.VersionedTransaction {
	accs := make([][]*common.Address, len(tx.Inputs))
	for i := range accs {
		accs[i] = e.acct()
	}
	return fixc.SignAll(tx, e.L.Store, accs)
}

// c15NewEnv: genesis ledger; XIN funding (deposit + fan-out: nX outputs of 10
// XIN, nP outputs of 13439 XIN); early(e) (bodies that must exist before the
// BTC asset info does); BTC funding (deposit + fan-out: nB outputs of 1 BTC).
func c15NewEnv(dir string, nX, nB, nP int, early func(e *c15Env)) *c15Env {
	e := &c15Env{L: newMCLedger(dir), Dir: dir, Acct: fixc.Addr("c15-wallet"), Other: fixc.Addr("c15-other"),
		bodies: map[crypto.Hash]*common.VersionedTransaction{}, firstFinal: map[crypto.Hash]crypto.Hash{}, baseTotal: map[crypto.Hash]*big.Int{}}
	for i := range e.onChain {
		e.onChain[i] = map[crypto.Hash]bool{}
	}
	net := e.L.Net
	fx := net.DepositXIN("c15-fx", fmt.Sprint(nX*10+nP*13439), e.acct(), 1)
	e.setupFinalize(fx)
	var outs []fixc.Out
	for i := 0; i < nX; i++ {
		outs = append(outs, fixc.Out{To: e.acct(), T: 1, Amount: "10"})
	}
	for i := 0; i < nP; i++ {
		outs = append(outs, fixc.Out{To: e.acct(), T: 1, Amount: "13439"})
	}
	fanX := e.signScript(fixc.Transfer(common.XINAssetId, []*common.Input{{Hash: fx.PayloadHash(), Index: 0}}, outs, "c15-fanx"))
	e.setupFinalize(fanX)
	for i := 0; i < nX; i++ {
		e.xIn = append(e.xIn, &common.Input{Hash: fanX.PayloadHash(), Index: uint(i)})
	}
	for i := 0; i < nP; i++ {
		e.pIn = append(e.pIn, &common.Input{Hash: fanX.PayloadHash(), Index: uint(nX + i)})
	}
	if early != nil {
		early(e)
	}
	if nB < 1 {
		nB = 1
	}
	fb := net.DepositBTC("c15-fb", fmt.Sprint(nB), e.acct(), 1)
	e.setupFinalize(fb)
	outs = nil
	for i := 0; i < nB; i++ {
		outs = append(outs, fixc.Out{To: e.acct(), T: 1, Amount: "1"})
	}
	fanB := e.signScript(fixc.Transfer(common.BitcoinAssetId, []*common.Input{{Hash: fb.PayloadHash(), Index: 0}}, outs, "c15-fanb"))
	e.setupFinalize(fanB)
	for i := 0; i < nB; i++ {
		e.bIn = append(e.bIn, &common.Input{Hash: fanB.PayloadHash(), Index: uint(i)})
	}
	return e
}

// sealSetup records the asset totals at the end of the setup (reference base).
func (e *c15Env) sealSetup() {
	d := e.L.Store.VerifDump("")
	for _, a := range []crypto.Hash{common.XINAssetId, common.BitcoinAssetId, c15AssetZ} {
		e.baseTotal[a] = c15TotalOf(d, a)
	}
	e.lastKey = c15DumpHash(d)
	e.base, e.baseKey = d, e.lastKey
}

// reset puts the snapshot DB back to the dump taken at the end of the setup
// (raw deletes/sets of exactly the differing keys; WriteSnapshot touches only
// this DB) and verifies that the dump is byte-identical again. Used by the BFS
// to avoid rebuilding a ledger per history; the state of the exploration IS
// the dump.
func (e *c15Env) reset(c *verifmc.Check) {
	cur := e.L.Store.VerifDump("")
	if e.small {
		wb := e.L.Store.snapshotsDB.NewWriteBatch()
		defer wb.Cancel()
		for k := range cur {
			if _, ok := e.base[k]; !ok {
				kb, _ := hex.DecodeString(k)
				if err := wb.Delete(kb); err != nil {
					panic(err)
				}
			}
		}
		for k, v := range e.base {
			if cv, ok := cur[k]; !ok || cv != v {
				kb, _ := hex.DecodeString(k)
				vb, _ := hex.DecodeString(v)
				if err := wb.Set(kb, vb); err != nil {
					panic(err)
				}
			}
		}
		if err := wb.Flush(); err != nil {
			panic(err)
		}
		if got := c15DumpHash(e.L.Store.VerifDump("")); got != e.baseKey {
			c.Require(false, "small ledger reset did not restore the setup dump")
			panic("c15: reset failed")
		}
		e.firstFinal = map[crypto.Hash]crypto.Hash{}
		for i := range e.onChain {
			e.onChain[i] = map[crypto.Hash]bool{}
		}
		e.lastKey = e.baseKey
		e.resets++
		return
	}
	err := e.L.Store.snapshotsDB.Update(func(txn *badger.Txn) error {
		for k := range cur {
			if _, ok := e.base[k]; !ok {
				kb, _ := hex.DecodeString(k)
				if err := txn.Delete(kb); err != nil {
					return err
				}
			}
		}
		for k, v := range e.base {
			if cv, ok := cur[k]; !ok || cv != v {
				kb, _ := hex.DecodeString(k)
				vb, _ := hex.DecodeString(v)
				if err := txn.Set(kb, vb); err != nil {
					return err
				}
			}
		}
		return nil
	})
	if err != nil {
		panic(err)
	}
	if got := c15DumpHash(e.L.Store.VerifDump("")); got != e.baseKey {
		c.Require(false, "ledger reset did not restore the setup dump")
		panic("c15: reset failed")
	}
	e.firstFinal = map[crypto.Hash]crypto.Hash{}
	for i := range e.onChain {
		e.onChain[i] = map[crypto.Hash]bool{}
	}
	e.lastKey = e.baseKey
	e.resets++
}

func c15TotalOf(d map[string]string, a crypto.Hash) *big.Int {
	v, ok := d[hex.EncodeToString(c15K("ASSETTOTAL", a[:]))]
	if !ok {
		return new(big.Int)
	}
	b, _ := hex.DecodeString(v)
	return mcUnits(common.NewIntegerFromString(string(b)))
}

func (e *c15Env) take(list *[]*common.Input, what string) *common.Input {
	if len(*list) == 0 {
		panic("c15: out of funded inputs: " + what)
	}
	in := (*list)[0]
	*list = (*list)[1:]
	return in
}

var c15CustodianNodes struct {
	once  sync.Once
	extra []byte
}

func c15CustodianNodesExtra(net *fixc.Net) []byte {
	c15CustodianNodes.once.Do(func() {
		type nx struct {
			key   crypto.Key
			extra []byte
		}
		var ns []nx
		for i := range net.Signers {
			cu, pa := fixc.Pub(net.Custodians[i]), fixc.Pub(net.Payees[i])
			ex := common.EncodeCustodianNode(&cu, &pa, &net.Signers[i].PrivateSpendKey, &net.Payees[i].PrivateSpendKey, &net.Custodians[i].PrivateSpendKey, net.NetworkId)
			ns = append(ns, nx{cu.PublicSpendKey, ex})
		}
		sort.Slice(ns, func(i, j int) bool { return bytes.Compare(ns[i].key[:], ns[j].key[:]) < 0 })
		for _, n := range ns {
			c15CustodianNodes.extra = append(c15CustodianNodes.extra, n.extra...)
		}
	})
	return c15CustodianNodes.extra
}

// make builds one member of the given class. tag makes instances distinct;
// salt is searched upwards until accept(hash) holds (steers the position of
// the member in the hash-sorted snapshot). deps: members of the same scenario
// by class (C claims deps["W"], Xg collides with deps["T1"]).
func (e *c15Env) make(class, tag string, deps map[string]*c15Member, accept func(h crypto.Hash) bool) *c15Member {
	net := e.L.Net
	thr1 := common.NewThresholdScript(1)
	var in *common.Input
	xkN, xkI := 0, 0 // "Xk<n><i>": transfer with n outputs whose output i has a one-time key pre-locked for another transaction
	if strings.HasPrefix(class, "Xk") {
		xkN, xkI = int(class[2]-'0'), int(class[3]-'0')
		in = e.take(&e.xIn, class)
	}
	switch class {
	case "T1", "C", "U", "Xg", "t", "t3":
		in = e.take(&e.xIn, class)
	case "T2", "W":
		in = e.take(&e.bIn, class)
	case "P", "P2":
		in = e.take(&e.pIn, class)
	}
	seed := func(s string) []byte { return fixc.Seed64("c15:" + tag + ":" + s) }
	deposit := func(asset, chain crypto.Hash, key, amount string, salt int) *common.Transaction {
		tx := common.NewTransactionV5(asset)
		tx.AddDepositInput(&common.DepositData{Chain: chain, AssetKey: key, Transaction: fmt.Sprintf("c15-%s-%s-%d", class, tag, salt), Index: 0, Amount: common.NewIntegerFromString(amount)})
		tx.AddScriptOutput(e.acct(), thr1, common.NewIntegerFromString(amount), seed(class+":o0"))
		return tx
	}
	mk := func(salt int) *common.Transaction {
		saltB := []byte(fmt.Sprintf("s%d", salt))
		switch class {
		case "T1":
			tx := common.NewTransactionV5(common.XINAssetId)
			tx.AddInput(in.Hash, in.Index)
			tx.AddScriptOutput(e.acct(), thr1, common.NewIntegerFromString("3"), seed("t1:o0"))
			tx.AddScriptOutput(e.acct(), thr1, common.NewIntegerFromString("7"), seed("t1:o1"))
			tx.Extra = saltB
			return tx
		case "t3":
			tx := common.NewTransactionV5(common.XINAssetId)
			tx.AddInput(in.Hash, in.Index)
			for k, a := range []string{"2", "3", "5"} {
				tx.AddScriptOutput(e.acct(), thr1, common.NewIntegerFromString(a), seed(fmt.Sprintf("t3:o%d", k)))
			}
			tx.Extra = saltB
			return tx
		case "t":
			tx := common.NewTransactionV5(common.XINAssetId)
			tx.AddInput(in.Hash, in.Index)
			tx.AddScriptOutput(e.acct(), thr1, common.NewIntegerFromString("10"), seed("t:o0"))
			tx.Extra = saltB
			return tx
		case "T2":
			tx := common.NewTransactionV5(common.BitcoinAssetId)
			tx.AddInput(in.Hash, in.Index)
			o := e.Other
			tx.AddScriptOutput([]*common.Address{&e.Acct, &o}, common.NewThresholdScript(2), common.NewIntegerFromString("1"), seed("t2:o0"))
			tx.Extra = saltB
			return tx
		case "D":
			return deposit(common.BitcoinAssetId, common.BitcoinAssetId, fixc.BTCAssetKey, "0.5", salt)
		case "d":
			return deposit(common.BitcoinAssetId, common.BitcoinAssetId, fixc.BTCAssetKey, "0.01", salt)
		case "N":
			return deposit(c15AssetZ, common.EthereumAssetId, "0xc15aaaaaaaaaaaaaaaaaaaaaaaaaaaaaaaaaaaaa", "5", salt)
		case "N2":
			return deposit(c15AssetZ, common.EthereumAssetId, "0xc15bbbbbbbbbbbbbbbbbbbbbbbbbbbbbbbbbbbbb", "6", salt)
		case "Xa":
			return deposit(common.BitcoinAssetId, common.BitcoinAssetId, "c15-conflicting-asset-key", "2", salt)
		case "W":
			tx := common.NewTransactionV5(common.BitcoinAssetId)
			tx.AddInput(in.Hash, in.Index)
			tx.Outputs = append(tx.Outputs, &common.Output{Type: common.OutputTypeWithdrawalSubmit, Amount: common.NewIntegerFromString("0.4"), Withdrawal: &common.WithdrawalData{Address: fmt.Sprintf("bc1-c15-%s-%d", tag, salt), Tag: ""}})
			tx.AddScriptOutput(e.acct(), thr1, common.NewIntegerFromString("0.6"), seed("w:chg"))
			return tx
		case "C":
			var ref crypto.Hash
			if w := deps["W"]; w != nil {
				ref = w.H
			} else if e.w0 != nil {
				ref = *e.w0
			} else {
				panic("c15: claim without a submit")
			}
			fee := common.NewIntegerFromString(config.WithdrawalClaimFee)
			tx := common.NewTransactionV5(common.XINAssetId)
			tx.AddInput(in.Hash, in.Index)
			tx.Outputs = append(tx.Outputs, &common.Output{Type: common.OutputTypeWithdrawalClaim, Amount: fee})
			tx.AddScriptOutput(e.acct(), thr1, common.NewIntegerFromString("10").Sub(fee), seed("c:chg"))
			tx.References = []crypto.Hash{ref}
			payload := []byte(fmt.Sprintf("external-withdrawal-tx-%s-%d", ref.String(), salt))
			sig := net.Custodian.PrivateSpendKey.Sign(crypto.Blake3Hash(payload))
			tx.Extra = append(sig[:], payload...)
			return tx
		case "P", "P2":
			signer := fixc.NodeAddr(fmt.Sprintf("c15-%s-signer-%s-%d", class, tag, salt))
			payee := fixc.NodeAddr(fmt.Sprintf("c15-%s-payee-%s-%d", class, tag, salt))
			tx := common.NewTransactionV5(common.XINAssetId)
			tx.AddInput(in.Hash, in.Index)
			tx.Outputs = append(tx.Outputs, &common.Output{Type: common.OutputTypeNodePledge, Amount: common.KernelNodePledgeAmount})
			tx.Extra = append(signer.PublicSpendKey[:], payee.PublicSpendKey[:]...)
			return tx
		case "M":
			tx := common.NewTransactionV5(common.XINAssetId)
			tx.AddUniversalMintInput(1, common.NewIntegerFromString("500"))
			tx.AddScriptOutput(e.acct(), thr1, common.NewIntegerFromString("500"), fixc.Seed64(fmt.Sprintf("c15:%s:m:%d", tag, salt)))
			return tx
		case "U":
			nc := fixc.Addr(fmt.Sprintf("c15-new-custodian-%s-%d", tag, salt))
			extra := append(append([]byte{}, nc.PublicSpendKey[:]...), nc.PublicViewKey[:]...)
			extra = append(extra, c15CustodianNodesExtra(net)...)
			sig := net.Custodian.PrivateSpendKey.Sign(crypto.Blake3Hash(extra))
			extra = append(extra, sig[:]...)
			tx := common.NewTransactionV5(common.XINAssetId)
			tx.AddInput(in.Hash, in.Index)
			tx.AddOutputWithType(common.OutputTypeCustodianUpdateNodes, []*common.Address{&nc}, common.NewThresholdScript(64), common.NewIntegerFromString("10"), seed("u:o0"))
			tx.Extra = extra
			return tx
		case "Xg":
			// output 1 reuses the one-time key of an output that is (or will be)
			// bound to another transaction: T1's output 1 when T1 is part of the
			// scenario, else output 1 of the (final) XIN fan-out
			collide := fixc.Seed64("out:c15-fanx:1")
			if deps["T1"] != nil {
				collide = seed("t1:o1")
			}
			tx := common.NewTransactionV5(common.XINAssetId)
			tx.AddInput(in.Hash, in.Index)
			tx.AddScriptOutput(e.acct(), thr1, common.NewIntegerFromString("4"), seed("xg:o0"))
			tx.AddScriptOutput(e.acct(), thr1, common.NewIntegerFromString("6"), collide)
			tx.Extra = saltB
			return tx
		}
		if xkN > 0 {
			tx := common.NewTransactionV5(common.XINAssetId)
			tx.AddInput(in.Hash, in.Index)
			for k := 0; k < xkN; k++ {
				amt := "1"
				if k == 0 {
					amt = fmt.Sprint(10 - (xkN - 1))
				}
				tx.AddScriptOutput(e.acct(), thr1, common.NewIntegerFromString(amt), seed(fmt.Sprintf("%s:o%d", class, k)))
			}
			tx.Extra = saltB
			return tx
		}
		panic("c15: unknown class " + class)
	}
	var tx *common.Transaction
	for salt := 0; ; salt++ {
		tx = mk(salt)
		if accept == nil || accept(tx.AsVersioned().PayloadHash()) {
			break
		}
		if salt > 200000 {
			panic("c15: salt search failed for " + class)
		}
	}
	var ver *common.VersionedTransaction
	switch {
	case tx.Inputs[0].Deposit != nil:
		ver = tx.AsVersioned()
		if err := ver.SignRaw(net.Custodian.PrivateSpendKey); err != nil {
			panic(err)
		}
	case tx.Inputs[0].Mint != nil:
		ver = tx.AsVersioned()
		if err := ver.SignRaw(net.Signers[0].PrivateSpendKey); err != nil {
			panic(err)
		}
	default:
		ver = e.signScript(tx)
	}
	m := &c15Member{Class: class, Tx: ver, H: ver.PayloadHash()}
	e.bodies[m.H] = ver
	if xkN > 0 {
		// another transaction took the one-time key of output xkI beforehand
		other := fixc.Hash("c15-owner-of-" + class)
		if err := e.L.Store.LockGhostKeys([]*crypto.Key{ver.Outputs[xkI].Keys[0]}, other, false); err != nil {
			panic(err)
		}
	}
	return m
}

// admit: the driver preconditions of WriteSnapshot — inputs locked, body written.
func (e *c15Env) admit(m *c15Member) {
	if err := m.Tx.LockInputs(e.L.Store, false); err != nil {
		panic(fmt.Errorf("c15 lock %s: %v", m.Class, err))
	}
	if err := e.L.Store.WriteTransaction(m.Tx); err != nil {
		panic(fmt.Errorf("c15 write body %s: %v", m.Class, err))
	}
}

func c15Band(p int) func(h crypto.Hash) bool {
	return func(h crypto.Hash) bool { return int(h[0])*3/256 == p }
}

// c15BuildSel builds a ledger whose pool holds one member per class of sel
// (bodies written, inputs locked, nothing final). banded: the member at
// position p gets a hash in the p-th third of the hash space, so sel is also
// the order inside a snapshot that holds all of them.
func c15BuildSel(dir string, sel []string, banded bool) *c15Env {
	pos := map[string]int{}
	for i, s := range sel {
		pos[s] = i
	}
	accept := func(class string) func(h crypto.Hash) bool {
		if !banded {
			return nil
		}
		return c15Band(pos[class])
	}
	byClass := map[string]*c15Member{}
	_, hasXa := pos["Xa"]
	var early func(e *c15Env)
	if hasXa {
		early = func(e *c15Env) {
			m := e.make("Xa", "s", nil, accept("Xa"))
			e.admit(m)
			byClass["Xa"] = m
		}
	}
	e := c15NewEnv(dir, 8, 4, 2, early)
	_, hasC := pos["C"]
	_, hasW := pos["W"]
	if hasC && !hasW {
		w0 := e.make("W", "w0", nil, nil)
		e.setupFinalize(w0.Tx)
		e.w0 = &w0.H
		delete(e.bodies, w0.H) // part of the setup, not of the pool
	}
	for pass := 0; pass < 2; pass++ {
		for _, s := range sel {
			late := s == "C" || s == "Xg"
			if s == "Xa" || late != (pass == 1) {
				continue
			}
			m := e.make(s, "s", byClass, accept(s))
			e.admit(m)
			byClass[s] = m
		}
	}
	for _, s := range sel {
		e.pool = append(e.pool, byClass[s])
	}
	e.sealSetup()
	return e
}

// ---------------------------------------------------------------- one checked call

type c15Step struct {
	OK       bool
	Outcome  string
	FailAt   int
	N        int
	Already  int
	CutFired bool
	Commits  int
	Sorted   []*c15Member
	Writes   int // number of Sets the call needs (size-limited stores only)
	TooBigAt int // write index at which the Badger transaction overflows, -1 = fits
}

var c15States sync.Map

func c15Classes(ms []*c15Member) []string {
	out := make([]string, len(ms))
	for i, m := range ms {
		out[i] = m.Class
	}
	return out
}

// step issues one WriteSnapshot (chain slot 0..2 = genesis chains 1..3) for
// the given members and evaluates the oracle when check is set.
func (e *c15Env) step(c *verifmc.Check, slot int, ms []*c15Member, check bool, cutAt int, count bool, report func(key, desc string)) c15Step {
	store := e.L.Store
	node := e.L.Net.NodeIds[1+slot]
	head, err := store.ReadRound(node)
	if err != nil || head == nil {
		panic(fmt.Errorf("c15 head round: %v", err))
	}
	next := store.VerifNextTopology()
	ts := uint64(int64(e.L.Net.Epoch+uint64(2*time.Hour)+next*uint64(time.Second)) + e.tsDelta*int64(time.Second))
	sorted := append([]*c15Member{}, ms...)
	sort.Slice(sorted, func(i, j int) bool { return bytes.Compare(sorted[i].H[:], sorted[j].H[:]) < 0 })
	snap := &common.Snapshot{Version: common.SnapshotVersionCommonEncoding, NodeId: node, RoundNumber: head.Number, References: head.References, Timestamp: ts}
	for _, m := range sorted {
		snap.AddTransaction(m.H)
	}
	snap.Hash = snap.PayloadHash()
	snap.Signature = &crypto.CosiSignature{Mask: 1}
	topo := &common.SnapshotWithTopologicalOrder{Snapshot: snap, TopologicalOrder: next}
	signers := []crypto.Hash{node, e.L.Net.NodeIds[0]}

	res := c15Step{FailAt: -1, N: len(sorted), Sorted: sorted, TooBigAt: -1}
	var pre map[string]string
	var exp *c15Exp
	if check {
		pre = store.VerifDump("")
		exp = c15Expect(pre, topo, signers, e.bodies)
		res.Already = len(exp.already)
		if e.small && exp.fail == "" {
			// where does Badger's per-transaction limit strike on this store?
			txn := store.snapshotsDB.NewTransaction(true)
			for i, w := range exp.order {
				err := txn.Set(w.k, w.v)
				if err == badger.ErrTxnTooBig {
					exp.tooBigAt, exp.tooBigMember = i, w.member
					break
				} else if err != nil {
					panic(err)
				}
			}
			txn.Discard()
			res.Writes, res.TooBigAt = len(exp.order), exp.tooBigAt
		}
	}
	var cut *c15Cut
	if e.cutSeam {
		cut = &c15Cut{failAt: int32(cutAt)}
		c15Cuts.Store(store.VerifSnapshotsDir(), cut)
	}
	var werr error
	p := verifmc.Catch(func() { werr = store.WriteSnapshot(topo, signers) })
	if cut != nil {
		c15Cuts.Delete(store.VerifSnapshotsDir())
		res.CutFired = cut.fired.Load()
		res.Commits = int(cut.seen.Load())
	}
	res.OK = p == nil && werr == nil
	if res.OK {
		for _, m := range sorted {
			if _, ok := e.firstFinal[m.H]; !ok {
				e.firstFinal[m.H] = snap.Hash
			}
			e.onChain[slot][m.H] = true
		}
	}
	if !check {
		return res
	}
	post := store.VerifDump("")
	e.lastKey = c15DumpHash(post)
	if count {
		c.Eval(1)
		c.AddTrans(1)
		c.AddTraces(1)
		if _, loaded := c15States.LoadOrStore(e.lastKey, true); !loaded {
			c.AddStates(1)
		}
	}
	shape := fmt.Sprintf("chain%d[%s]", slot+1, strings.Join(c15Classes(sorted), "<"))
	if len(sorted) > 6 {
		cnt := map[string]int{}
		var odd []string
		for j, m := range sorted {
			cnt[m.Class]++
			if m.Class != "t" && m.Class != "d" {
				odd = append(odd, fmt.Sprintf("%s@%d", m.Class, j))
			}
		}
		shape = fmt.Sprintf("chain%d[%d members in hash order: t×%d d×%d %s]", slot+1, len(sorted), cnt["t"], cnt["d"], strings.Join(odd, " "))
	}
	describe := func(keys []string) string {
		cnt := map[string]int{}
		for _, k := range keys {
			cnt[c15PrefixOf(k)]++
		}
		var parts []string
		for _, p := range verifmc.SortedKeys(cnt) {
			parts = append(parts, fmt.Sprintf("%s×%d", p, cnt[p]))
		}
		return strings.Join(parts, " ")
	}
	diffKeys := func(a, b map[string]string) []string {
		var out []string
		for k, v := range a {
			if w, ok := b[k]; !ok || w != v {
				out = append(out, k)
			}
		}
		for k := range b {
			if _, ok := a[k]; !ok {
				out = append(out, k)
			}
		}
		sort.Strings(out)
		return out
	}

	if !res.OK {
		how := "error"
		switch {
		case res.CutFired:
			how = "cut"
		case p != nil:
			how = "panic"
		}
		res.Outcome = "reject:" + how
		if d := diffKeys(pre, post); len(d) > 0 {
			report("atomicity:"+how+"-left-effects", fmt.Sprintf("WriteSnapshot %s failed (%s: %v %v) but the snapshot DB changed: %s", shape, how, werr, p, describe(d)))
		}
		if res.CutFired {
			if !errors.Is(werr, c15ErrCut) {
				report("atomicity:cut-error-swallowed", fmt.Sprintf("commit of WriteSnapshot %s was cut but the call returned %v / %v", shape, werr, p))
			}
			if e.Dir == "" {
				res.Outcome += fmt.Sprintf("@commit%d", cutAt)
				return res
			}
			// the process dies here: what a restarted node sees
			if err := store.Close(); err != nil {
				panic(err)
			}
			ns, err := OpenForVerif(e.Dir)
			if err != nil {
				panic(err)
			}
			e.L.Store = ns
			if d := diffKeys(pre, ns.VerifDump("")); len(d) > 0 {
				report("atomicity:cut-left-durable-effects", fmt.Sprintf("WriteSnapshot %s cut before commit %d; reopened DB differs: %s", shape, cutAt, describe(d)))
			}
			res.Outcome += fmt.Sprintf("@commit%d", cutAt)
			return res
		}
		if exp.fail == "" && exp.tooBigAt >= 0 {
			// the batch does not fit in one Badger transaction: rejected as a whole
			if !errors.Is(werr, badger.ErrTxnTooBig) {
				c.Require(false, "scratch transaction overflows at write %d for %s, code failed with %v %v", exp.tooBigAt, shape, werr, p)
			}
			res.FailAt = exp.tooBigMember
			res.Outcome = fmt.Sprintf("reject:error:toobig@%d/%d", exp.tooBigMember, len(sorted))
			return res
		}
		if exp.fail == "" {
			// allowed by the statement (none of the effects), but not expected from a valid batch
			c.Stricter("valid batch rejected: " + shape)
			c.Require(false, "reference model expected success for %s, code failed: %v %v", shape, werr, p)
			res.Outcome += ":unexpected"
			return res
		}
		res.FailAt = exp.failAt
		res.Outcome = fmt.Sprintf("reject:%s@%d/%d", exp.fail, exp.failAt, len(sorted))
		if (p != nil) != strings.HasPrefix(exp.fail, "panic:") {
			c.Require(false, "reference model expected %s for %s, code gave error=%v panic=%v", exp.fail, shape, werr, p)
		}
		return res
	}

	// success
	res.Outcome = fmt.Sprintf("ok:%d-fresh+%d-final", len(exp.fresh), len(exp.already))
	if exp.fail != "" {
		report("atomicity:partial-success", fmt.Sprintf("WriteSnapshot %s returned nil although member %d cannot be finalized (%s): some effects applied, not all: %s", shape, exp.failAt, exp.fail, describe(diffKeys(pre, post))))
		return res
	}
	want := make(map[string]string, len(pre)+len(exp.writes))
	for k, v := range pre {
		want[k] = v
	}
	for k, v := range exp.writes {
		want[k] = v
	}
	for _, k := range diffKeys(want, post) {
		pfx := c15PrefixOf(k)
		wv, inWant := want[k]
		gv, inPost := post[k]
		_, written := exp.writes[k]
		_, inPre := pre[k]
		switch {
		case written && !inPost:
			report("effects:missing:"+pfx, fmt.Sprintf("WriteSnapshot %s succeeded without writing %s record %s", shape, pfx, k))
		case written:
			report("effects:wrong-value:"+pfx, fmt.Sprintf("WriteSnapshot %s wrote %s record %s = %s, statement requires %s", shape, pfx, k, gv, wv))
		case len(exp.already) > 0 && inPre && (pfx == "FINALIZATION" || pfx == "UTXO" || pfx == "ASSETTOTAL" || pfx == "GHOST"):
			report("idempotence:"+pfx+"-rewritten", fmt.Sprintf("WriteSnapshot %s contains %d already-final transaction(s); %s record %s changed from %s to %s", shape, len(exp.already), pfx, k, wv, gv))
		case inWant && !inPost:
			report("effects:deleted:"+pfx, fmt.Sprintf("WriteSnapshot %s deleted %s record %s", shape, pfx, k))
		default:
			report("effects:unexpected:"+pfx, fmt.Sprintf("WriteSnapshot %s changed %s record %s (%q -> %q) outside the effect set of the statement", shape, pfx, k, pre[k], gv))
		}
	}
	e.checkHistory(post, shape, report)
	if cut != nil && res.Commits != 1 {
		report("atomicity:snapshot-spread-over-several-commits", fmt.Sprintf("WriteSnapshot %s returned nil after %d Badger commits on the snapshot DB: a crash or a later failure between them leaves part of the snapshot applied", shape, res.Commits))
	}
	if exp.tooBigAt >= 0 {
		res.Outcome += ":although-too-big"
		if len(diffKeys(want, post)) == 0 && res.Commits == 1 {
			c.Require(false, "scratch transaction overflows at write %d/%d for %s but the code applied everything in one commit", exp.tooBigAt, len(exp.order), shape)
		}
	}
	return res
}

// checkHistory: history-level reference, independent of the per-call model.
func (e *c15Env) checkHistory(post map[string]string, shape string, report func(key, desc string)) {
	sum := map[crypto.Hash]*big.Int{}
	for a, b := range e.baseTotal {
		sum[a] = new(big.Int).Set(b)
	}
	for h, tx := range e.bodies {
		got, ok := post[hex.EncodeToString(c15K("FINALIZATION", h[:]))]
		first, final := e.firstFinal[h]
		if !final {
			if ok {
				report("history:finalized-without-successful-snapshot", fmt.Sprintf("after %s: transaction %s has a FINALIZATION record but no WriteSnapshot containing it succeeded", shape, h))
			}
			continue
		}
		if !ok || got != hex.EncodeToString(first[:]) {
			report("idempotence:first-finalization-record-lost", fmt.Sprintf("after %s: FINALIZATION of %s is %q, first finalizing snapshot was %s", shape, h, got, first))
		}
		if sum[tx.Asset] == nil {
			continue
		}
		switch tx.TransactionType() {
		case common.TransactionTypeDeposit:
			sum[tx.Asset].Add(sum[tx.Asset], mcUnits(tx.Inputs[0].Deposit.Amount))
		case common.TransactionTypeMint:
			sum[tx.Asset].Add(sum[tx.Asset], mcUnits(tx.Inputs[0].Mint.Amount))
		case common.TransactionTypeWithdrawalSubmit:
			for _, o := range tx.Outputs {
				if o.Type == common.OutputTypeWithdrawalSubmit {
					sum[tx.Asset].Sub(sum[tx.Asset], mcUnits(o.Amount))
				}
			}
		}
	}
	names := map[crypto.Hash]string{common.XINAssetId: "XIN", common.BitcoinAssetId: "BTC", c15AssetZ: "Z"}
	for a, want := range sum {
		if got := c15TotalOf(post, a); got.Cmp(want) != 0 {
			report("idempotence:asset-total-applied-not-once:"+names[a], fmt.Sprintf("after %s: recorded total of %s is %s units; applying every finalized deposit/mint/submit exactly once gives %s", shape, names[a], got, want))
		}
	}
}

func c15Record(c *verifmc.Check, part string, r c15Step) {
	c.Outcome(r.Outcome)
	if r.OK && r.Already > 0 {
		c.Add("refinalizing_calls_ok", 1)
		c.Add("already_final_members_in_ok_calls", int64(r.Already))
	}
	c.Add("calls_"+part, 1)
}

func c15Guard(c *verifmc.Check, what string, f func()) {
	if p := verifmc.Catch(f); p != nil {
		c.Require(false, "c15 %s: harness panic: %v", what, p)
	}
}

// ---------------------------------------------------------------- part 1: batches

var c15BatchClasses = []string{"T1", "T2", "D", "N", "N2", "W", "C", "P", "M", "U", "Xg", "Xa"}

func c15Selections(classes []string, max int) [][]string {
	var out [][]string
	var rec func(cur []string)
	rec = func(cur []string) {
		if len(cur) > 0 {
			out = append(out, append([]string{}, cur...))
		}
		if len(cur) == max {
			return
		}
	next:
		for _, s := range classes {
			for _, u := range cur {
				if u == s {
					continue next
				}
			}
			rec(append(cur, s))
		}
	}
	rec(nil)
	return out
}

func c15PartBatches(c *verifmc.Check) {
	sels := c15Selections(c15BatchClasses, 3)
	// members with 2..3 outputs whose output i (every i, not only the last) has
	// its one-time key locked by another transaction: alone, as 2nd member, as
	// 1st member, and in the middle of three
	extra := 0
	for _, v := range []string{"Xk20", "Xk21", "Xk30", "Xk31", "Xk32"} {
		for _, sel := range [][]string{{v}, {"T1", v}, {v, "T1"}, {"D", v, "T1"}, {"T2", "D", v}} {
			sels = append(sels, sel)
			extra++
		}
	}
	c.Set("batch_selections_prelocked_output_key", extra)
	c.Set("batch_selections", len(sels))
	c.ParallelN(len(sels), "batches", func(_, i int) {
		sel := sels[i]
		c15Guard(c, "batch "+strings.Join(sel, ">"), func() {
			e := c15BuildSel("", sel, true)
			defer func() { e.L.Close() }()
			var calls []string
			rep := func(key, desc string) {
				c.Violation(key, desc, map[string]any{"part": "batches", "selection": sel, "calls": append([]string{}, calls...)})
			}
			calls = append(calls, "chain1:all")
			r1 := e.step(c, 0, e.pool, true, 0, true, rep)
			c15Record(c, "batches", r1)
			for j, m := range r1.Sorted {
				c.Require(m.Class == sel[j], "banding failed: %v sorted as %v", sel, c15Classes(r1.Sorted))
			}
			calls = append(calls, "chain2:all")
			r2 := e.step(c, 1, e.pool, true, 0, true, rep)
			c15Record(c, "batches", r2)
			var third []*c15Member
			if !r1.OK && r1.FailAt >= 0 {
				for j, m := range r1.Sorted {
					if j != r1.FailAt {
						third = append(third, m)
					}
				}
				calls = append(calls, "chain3:all-but-failed")
			} else {
				third = e.pool[:1]
				calls = append(calls, "chain3:first-only")
			}
			out3 := "-"
			if len(third) > 0 {
				r3 := e.step(c, 2, third, true, 0, true, rep)
				c15Record(c, "batches", r3)
				out3 = r3.Outcome
			}
			if !r1.OK {
				c.Add(fmt.Sprintf("batch_fail_%s_pos%d_of%d", strings.SplitN(strings.TrimPrefix(r1.Outcome, "reject:"), "@", 2)[0], r1.FailAt, r1.N), 1)
			}
			c.Distinct(fmt.Sprintf("batch:%s|%s|%s|%s", strings.Join(sel, ">"), r1.Outcome, r2.Outcome, out3))
			if len(sel) == 3 && (i%97 == 0) {
				c.Sample(map[string]any{"part": "batches", "selection_in_snapshot_order": sel, "call1": r1.Outcome, "call2_other_chain": r2.Outcome, "call3": out3})
			}
		})
	})
}

// ---------------------------------------------------------------- part 2: one large batch

func c15PartLarge(c *verifmc.Check) {
	n := verifmc.Pick(c, 64, 255)
	type lc struct{ poison, where string }
	cases := []lc{{"", ""}}
	for _, p := range []string{"Xg", "Xa"} {
		for _, w := range []string{"first", "middle", "last"} {
			cases = append(cases, lc{p, w})
		}
	}
	c.Set("large_batch_members", n)
	c.ParallelN(len(cases), "large", func(_, i int) {
		lcase := cases[i]
		c15Guard(c, fmt.Sprintf("large %v", lcase), func() {
			others := n
			if lcase.poison != "" {
				others = n - 1
			}
			var tiny []*c15Member
			var poison *c15Member
			accept := func(h crypto.Hash) bool {
				below := 0
				for _, m := range tiny {
					if bytes.Compare(m.H[:], h[:]) < 0 {
						below++
					}
				}
				switch lcase.where {
				case "first":
					return below == 0
				case "last":
					return below == len(tiny)
				}
				return below == len(tiny)/2
			}
			early := func(e *c15Env) {
				for j := 0; j < others; j++ {
					cl := "t"
					if j%2 == 1 {
						cl = "d"
					}
					m := e.make(cl, fmt.Sprintf("b%d", j), nil, nil)
					e.admit(m)
					tiny = append(tiny, m)
				}
				if lcase.poison == "Xa" {
					poison = e.make("Xa", "big", nil, accept)
					e.admit(poison)
				}
			}
			e := c15NewEnv("", others/2+4, 1, 0, early)
			defer func() { e.L.Close() }()
			if lcase.poison == "Xg" {
				poison = e.make("Xg", "big", nil, accept)
				e.admit(poison)
			}
			e.sealSetup()
			all := append([]*c15Member{}, tiny...)
			if poison != nil {
				all = append(all, poison)
			}
			var calls []string
			rep := func(key, desc string) {
				c.Violation(key, desc, map[string]any{"part": "large", "members": n, "poison": lcase.poison, "poison_position": lcase.where, "calls": append([]string{}, calls...)})
			}
			calls = append(calls, "chain1:all")
			r1 := e.step(c, 0, all, true, 0, true, rep)
			c15Record(c, "large", r1)
			if poison != nil {
				wantAt := map[string]int{"first": 0, "middle": len(tiny) / 2, "last": len(tiny)}[lcase.where]
				c.Require(!r1.OK && r1.FailAt == wantAt, "large batch %v: expected failure at %d, got %s", lcase, wantAt, r1.Outcome)
				c.Outcome(fmt.Sprintf("large:%s-%s:%s", lcase.poison, lcase.where, strings.SplitN(r1.Outcome, "@", 2)[0]))
				calls = append(calls, "chain1:all-but-poison")
				r2 := e.step(c, 0, tiny, true, 0, true, rep)
				c15Record(c, "large", r2)
				c.Require(r2.OK, "large batch %v: clean retry failed: %s", lcase, r2.Outcome)
			} else {
				c.Require(r1.OK, "large clean batch failed: %s", r1.Outcome)
			}
			calls = append(calls, "chain2:all-but-poison")
			r3 := e.step(c, 1, tiny, true, 0, true, rep)
			c15Record(c, "large", r3)
			c.Require(r3.OK && r3.Already == len(tiny), "large batch %v: re-finalization on another chain: %s already=%d", lcase, r3.Outcome, r3.Already)
			c.Distinct(fmt.Sprintf("large:%d:%s:%s|%s|%s", n, lcase.poison, lcase.where, r1.Outcome, r3.Outcome))
			c.Sample(map[string]any{"part": "large", "members": n, "poison": lcase.poison, "poison_position": lcase.where, "call1": r1.Outcome, "refinalize_other_chain": r3.Outcome})
		})
	})
}

// ---------------------------------------------------------------- part 3: histories (BFS)

func c15Subsets(n, max int) [][]int {
	var out [][]int
	var rec func(start int, cur []int)
	rec = func(start int, cur []int) {
		if len(cur) > 0 {
			out = append(out, append([]int{}, cur...))
		}
		if len(cur) == max {
			return
		}
		for i := start; i < n; i++ {
			rec(i+1, append(cur, i))
		}
	}
	rec(0, nil)
	return out
}

func c15PartHistories(c *verifmc.Check, name string, classes []string, maxSub, depth int) (int64, int64) {
	subs := c15Subsets(len(classes), maxSub)
	evName := func(ev int) string {
		slot, si := ev/len(subs), ev%len(subs)
		var cl []string
		for _, k := range subs[si] {
			cl = append(cl, classes[k])
		}
		return fmt.Sprintf("chain%d{%s}", slot+1, strings.Join(cl, ","))
	}
	// one ledger per worker, reset to the setup dump between histories
	envs := make([]*c15Env, c.Workers()+1)
	var envMu sync.Mutex
	refKey := ""
	defer func() {
		for _, e := range envs {
			if e != nil {
				e.L.Close()
			}
		}
	}()
	b := &verifmc.BFS[*c15Env]{
		C: c, NumEvents: 3 * len(subs), MaxDepth: depth,
		EventName: evName,
		New: func(w int) *c15Env {
			if envs[w] != nil && envs[w].resets >= 64 {
				// bound the garbage (stale versions/tombstones) the resets leave in the in-memory DB
				envs[w].L.Close()
				envs[w] = nil
			}
			if envs[w] != nil {
				envs[w].reset(c)
				return envs[w]
			}
			e := c15BuildSel("", classes, false)
			envMu.Lock()
			if refKey == "" {
				refKey = e.baseKey
			}
			c.Require(refKey == e.baseKey, "nondeterministic ledger setup: %s vs %s", refKey, e.baseKey)
			envMu.Unlock()
			envs[w] = e
			return e
		},
		Close: func(e *c15Env) {},
		Key:   func(e *c15Env) string { return name + ":" + e.lastKey },
		Apply: func(e *c15Env, ev int, replaying bool, report func(key, desc string)) bool {
			slot, si := ev/len(subs), ev%len(subs)
			// chains are interchangeable: introduce them in order
			used := 0
			for used < 3 && len(e.onChain[used]) > 0 {
				used++
			}
			if slot > used {
				return false
			}
			var ms []*c15Member
			for _, k := range subs[si] {
				m := e.pool[k]
				if e.onChain[slot][m.H] {
					return false // UNIQUE per (node, tx): driver precondition
				}
				ms = append(ms, m)
			}
			r := e.step(c, slot, ms, !replaying, 0, false, report)
			if !replaying {
				c15Record(c, name, r)
				if !r.OK && r.FailAt >= 0 {
					c.Add(fmt.Sprintf("%s_fail_%s", name, strings.SplitN(strings.TrimPrefix(r.Outcome, "reject:"), "@", 2)[0]), 1)
				}
			}
			return true
		},
	}
	states, trans, _, _ := b.Run()
	c.Set(name+"_events", 3*len(subs))
	c.Set(name+"_states", states)
	c.Set(name+"_transitions", trans)
	return states, trans
}

// ---------------------------------------------------------------- part 4: cut before the commit

func c15PartCut(c *verifmc.Check, t *testing.T) {
	base := t.TempDir()
	pairs := c15Selections(c15BatchClasses, 2)
	// (a) in-memory ledgers, one at a time (the seam is a process global and
	// in-memory Badger has no directory to key it by): every ordered selection
	// of 1..2 classes; thorough adds the triples led by a transfer or a deposit
	mem := append([][]string{}, pairs...)
	// (b) on-disk ledgers in parallel (seam keyed by directory), store closed
	// and reopened after every cut: singles + pairs led by T1 (quick), all
	// ordered pairs (thorough)
	var disk [][]string
	for _, s := range pairs {
		if c.Thorough() || len(s) == 1 || s[0] == "T1" {
			disk = append(disk, s)
		}
	}
	if c.Thorough() {
		for _, s := range c15Selections(c15BatchClasses, 3) {
			if len(s) == 3 && (s[0] == "D" || s[0] == "T1") {
				mem = append(mem, s)
			}
		}
	}
	c.Set("cut_selections_in_memory", len(mem))
	c.Set("cut_selections_on_disk_reopened", len(disk))
	var fired, maxCommits atomic.Int64
	run := func(i int, sel []string, onDisk bool) {
		kind := "mem"
		if onDisk {
			kind = "disk"
		}
		c15Guard(c, "cut "+kind+" "+strings.Join(sel, ">"), func() {
			dir := ""
			if onDisk {
				dir = filepath.Join(base, fmt.Sprintf("cut-%d", i))
				if err := os.MkdirAll(dir, 0o755); err != nil {
					panic(err)
				}
			}
			e := c15BuildSel(dir, sel, true)
			e.cutSeam = true
			defer func() {
				e.L.Close()
				if dir != "" {
					_ = os.RemoveAll(dir)
				}
			}()
			var calls []string
			rep := func(key, desc string) {
				c.Violation(key, desc, map[string]any{"part": "cut", "ledger": kind, "selection": sel, "calls": append([]string{}, calls...)})
			}
			outs := []string{}
			for k := 1; k <= 300; k++ {
				calls = append(calls, fmt.Sprintf("chain1:all:fail-commit-%d", k))
				r := e.step(c, 0, e.pool, true, k, true, rep)
				c15Record(c, "cut", r)
				outs = append(outs, r.Outcome)
				if int64(r.Commits) > maxCommits.Load() {
					maxCommits.Store(int64(r.Commits))
				}
				if !r.CutFired {
					break
				}
				fired.Add(1)
			}
			c.Distinct("cut:" + kind + ":" + strings.Join(sel, ">") + "|" + strings.Join(outs, "|"))
			if i%40 == 0 {
				c.Sample(map[string]any{"part": "cut", "ledger": kind, "selection_in_snapshot_order": sel, "calls": outs})
			}
		})
	}
	for i, sel := range mem {
		if i%16 == 0 && c.Expired("cut in-memory") {
			break
		}
		run(i, sel, false)
	}
	c.ParallelN(len(disk), "cut", func(_, i int) { run(i, disk[i], true) })
	c.Set("cuts_fired", fired.Load())
	c.Set("max_commits_seen_in_one_writesnapshot", maxCommits.Load())
	c.Require(c.Expired("cut guard") || fired.Load() >= int64(len(mem)+len(disk))/3, "commit seam fired only %d times over %d scenarios", fired.Load(), len(mem)+len(disk))
}

// ---------------------------------------------------------------- part 5: re-finalization matrix

// A transaction shared by snapshots of two (three) chains: kind x timestamp of
// the later-written snapshot relative to the first {earlier, equal, later} x
// {an output of the transaction was locked by a spender between the two
// writes} x {the second snapshot holds only the shared transaction / also a
// fresh one}. The byte-level oracle of step() requires that the second write
// adds only its own UNIQUE/SNAPSHOT/TOPOLOGY/SNAPTOPO/WORKSNAPSHOT records.
func c15PartRefinalize(c *verifmc.Check) {
	kinds := []string{"T1", "T2", "D", "N", "W", "C", "M", "P", "U"}
	rels := []struct {
		name  string
		delta int64
	}{{"earlier", -2}, {"equal", -1}, {"later", 0}}
	type rc struct {
		kind  string
		rel   int
		lock  bool
		mixed bool
	}
	var cases []rc
	for _, k := range kinds {
		for r := range rels {
			for _, l := range []bool{false, true} {
				for _, m := range []bool{false, true} {
					cases = append(cases, rc{k, r, l, m})
				}
			}
		}
	}
	c.Set("refinalize_cases", len(cases))
	c.ParallelN(len(cases), "refinalize", func(_, i int) {
		rcase := cases[i]
		name := fmt.Sprintf("%s/second-%s/locked-between=%v/with-fresh-member=%v", rcase.kind, rels[rcase.rel].name, rcase.lock, rcase.mixed)
		c15Guard(c, "refinalize "+name, func() {
			sel := []string{rcase.kind}
			if rcase.mixed {
				if rcase.kind == "D" {
					sel = append(sel, "T1")
				} else {
					sel = append(sel, "D")
				}
			}
			e := c15BuildSel("", sel, false)
			defer func() { e.L.Close() }()
			x := e.pool[0]
			var calls []string
			rep := func(key, desc string) {
				c.Violation(key, desc, map[string]any{"part": "refinalize", "case": name, "calls": append([]string{}, calls...)})
			}
			calls = append(calls, "chain1:{X} at t0")
			r1 := e.step(c, 0, []*c15Member{x}, true, 0, true, rep)
			c15Record(c, "refinalize", r1)
			c.Require(r1.OK, "refinalize %s: first finalization failed: %s", name, r1.Outcome)
			if rcase.lock {
				// a spender of the first unspent output locks it (admission path of the spender)
				u := x.Tx.UnspentOutputs()[0]
				spender := fixc.Hash("c15-spender-of-" + x.H.String())
				if err := e.L.Store.LockUTXOs([]*common.Input{{Hash: x.H, Index: u.Index}}, spender, false); err != nil {
					panic(err)
				}
				calls = append(calls, fmt.Sprintf("lock output %d of X for a spender", u.Index))
			}
			e.tsDelta = rels[rcase.rel].delta
			calls = append(calls, fmt.Sprintf("chain2:%v at t0%+d s", sel, e.tsDelta+1))
			r2 := e.step(c, 1, e.pool, true, 0, true, rep)
			c15Record(c, "refinalize", r2)
			c.Require(r2.OK && r2.Already == 1, "refinalize %s: second snapshot: %s already=%d", name, r2.Outcome, r2.Already)
			e.tsDelta = -5
			calls = append(calls, "chain3:{X} at t0-3 s")
			r3 := e.step(c, 2, []*c15Member{x}, true, 0, true, rep)
			c15Record(c, "refinalize", r3)
			c.Require(r3.OK && r3.Already == 1, "refinalize %s: third snapshot: %s", name, r3.Outcome)
			c.Outcome("refinalize:second-" + rels[rcase.rel].name + ":" + strings.SplitN(r2.Outcome, ":", 2)[0])
			c.Distinct("refinalize:" + name + "|" + r2.Outcome + "|" + r3.Outcome)
			if i%37 == 0 {
				c.Sample(map[string]any{"part": "refinalize", "case": name, "second": r2.Outcome, "third_earlier_than_both": r3.Outcome})
			}
		})
	})
}

// ---------------------------------------------------------------- part 6: batches around Badger's per-transaction limit

// The snapshot DB of a prepared ledger is copied into on-disk Badger stores
// opened with small memtables (Badger derives its per-transaction entry count
// and size limits from the memtable size), sweeping the memtable size so that
// the overflow point of a batch of k = 1..6 members moves over every write of
// the call, up to stores where the whole batch fits. Oracle: the call either
// fails and leaves the dump unchanged, or returns nil with every effect of
// every member present and exactly one Badger commit.
func c15PartTooBig(c *verifmc.Check, t *testing.T) {
	classes := []string{"t3", "d", "t3", "d", "t3", "t3"}
	// template ledger (ordinary limits): funding, bodies written, inputs locked
	var tmplPool []*c15Member
	tmpl := c15NewEnv("", len(classes)+2, 1, 0, nil)
	for j, cl := range classes {
		m := tmpl.make(cl, fmt.Sprintf("big%d", j), nil, nil)
		tmpl.admit(m)
		tmplPool = append(tmplPool, m)
	}
	tmpl.sealSetup()
	defer tmpl.L.Close()

	base := t.TempDir()
	step := verifmc.Pick(c, int64(384), int64(64))
	var sizes []int64
	for sz := int64(2048); sz <= 48<<10; sz += step {
		sizes = append(sizes, sz)
	}
	c.Set("toobig_stores", len(sizes))
	var mu sync.Mutex
	covered := map[string]bool{} // "k/writeIndex" of overflow points reached for the full batch
	fits := 0
	c.ParallelN(len(sizes), "toobig", func(_, i int) {
		c15Guard(c, fmt.Sprintf("toobig memtable %d", sizes[i]), func() {
			dir := filepath.Join(base, fmt.Sprintf("small-%d", sizes[i]))
			opts := badger.DefaultOptions(dir).WithLogger(nil).WithMemTableSize(sizes[i]).WithValueThreshold(1).WithMetricsEnabled(false).WithNumCompactors(2)
			db, err := badger.Open(opts)
			if err != nil {
				panic(err)
			}
			store, err := OpenForVerif("")
			if err != nil {
				panic(err)
			}
			_ = store.snapshotsDB.Close()
			store.snapshotsDB = db
			defer func() { _ = store.Close(); _ = os.RemoveAll(dir) }()
			wb := db.NewWriteBatch()
			for k, v := range tmpl.base {
				kb, _ := hex.DecodeString(k)
				vb, _ := hex.DecodeString(v)
				if err := wb.Set(kb, vb); err != nil {
					panic(err)
				}
			}
			if err := wb.Flush(); err != nil {
				panic(err)
			}
			e := &c15Env{L: &mcLedger{Net: tmpl.L.Net, Store: store}, Dir: dir, small: true, cutSeam: true, Acct: tmpl.Acct, Other: tmpl.Other,
				pool: tmplPool, bodies: tmpl.bodies, firstFinal: map[crypto.Hash]crypto.Hash{}, baseTotal: tmpl.baseTotal, base: tmpl.base, baseKey: tmpl.baseKey, lastKey: tmpl.baseKey}
			for j := range e.onChain {
				e.onChain[j] = map[crypto.Hash]bool{}
			}
			c.Require(c15DumpHash(store.VerifDump("")) == tmpl.baseKey, "copy of the prepared ledger into the small store differs")
			for k := 1; k <= len(tmplPool); k++ {
				var calls []string
				rep := func(key, desc string) {
					c.Violation(key, desc, map[string]any{"part": "toobig", "memtable_bytes": sizes[i], "max_batch_count": db.MaxBatchCount(), "max_batch_size": db.MaxBatchSize(), "members": c15Classes(tmplPool[:k]), "calls": calls})
				}
				calls = append(calls, fmt.Sprintf("chain1:first %d members", k))
				r := e.step(c, 0, tmplPool[:k], true, 0, true, rep)
				c15Record(c, "toobig", r)
				cls := "fits"
				if r.TooBigAt >= 0 {
					cls = fmt.Sprintf("overflow-at-write-%d-of-%d", r.TooBigAt, r.Writes)
				}
				c.Distinct(fmt.Sprintf("toobig:k=%d:%s:%s", k, cls, strings.SplitN(r.Outcome, "@", 2)[0]))
				mu.Lock()
				if k == len(tmplPool) {
					if r.TooBigAt >= 0 {
						covered[fmt.Sprintf("%d", r.TooBigAt)] = true
					} else {
						fits++
					}
					covered["writes"] = true
					c.Set("toobig_full_batch_writes", r.Writes)
				}
				mu.Unlock()
				if k == len(tmplPool) && i%16 == 0 {
					c.Sample(map[string]any{"part": "toobig", "memtable_bytes": sizes[i], "max_batch_count": db.MaxBatchCount(), "members": k, "writes": r.Writes, "overflow_at_write": r.TooBigAt, "outcome": r.Outcome})
				}
				if r.OK {
					e.reset(c)
				}
			}
		})
	})
	c.Set("toobig_full_batch_overflow_points", len(covered)-1)
	c.Set("toobig_full_batch_fitting_stores", fits)
	if !c.Expired("toobig guards") {
		c.Require(fits > 0, "no small store on which the full batch fits")
		c.Require(len(covered)-1 >= verifmc.Pick(c, 30, 40), "overflow point of the full batch reached only %d distinct writes", len(covered)-1)
	}
}

// ---------------------------------------------------------------- part 7: overlapping WriteSnapshot calls (E3)

type c15CCall struct {
	name    string
	topo    *common.SnapshotWithTopologicalOrder
	signers []crypto.Hash
	err     error
	pv      any
}

// prepared snapshot of chain slot for ms with explicit topology order
func (e *c15Env) prepared(slot int, ms []*c15Member, order uint64) *c15CCall {
	node := e.L.Net.NodeIds[1+slot]
	head, err := e.L.Store.ReadRound(node)
	if err != nil || head == nil {
		panic(fmt.Errorf("c15 head round: %v", err))
	}
	sorted := append([]*c15Member{}, ms...)
	sort.Slice(sorted, func(i, j int) bool { return bytes.Compare(sorted[i].H[:], sorted[j].H[:]) < 0 })
	snap := &common.Snapshot{Version: common.SnapshotVersionCommonEncoding, NodeId: node, RoundNumber: head.Number, References: head.References,
		Timestamp: e.L.Net.Epoch + uint64(2*time.Hour) + order*uint64(time.Second)}
	for _, m := range sorted {
		snap.AddTransaction(m.H)
	}
	snap.Hash = snap.PayloadHash()
	snap.Signature = &crypto.CosiSignature{Mask: 1}
	return &c15CCall{name: fmt.Sprintf("chain%d[%s]", slot+1, strings.Join(c15Classes(sorted), "<")),
		topo: &common.SnapshotWithTopologicalOrder{Snapshot: snap, TopologicalOrder: order}, signers: []crypto.Hash{node, e.L.Net.NodeIds[0]}}
}

// c15Concurrent: WriteSnapshot calls of different chains that share a
// not-yet-final transaction run as threads; every interleaving up to the
// preemption bound (scheduling points: the store mutex, Badger begin/commit) is
// executed on a fresh ledger. Oracle: the final dump equals the dump the
// reference model gives for SOME sequential order of the calls that returned
// nil (first finalization wins, outputs and asset total applied once).
func c15Concurrent(c *verifmc.Check) {
	badger.VerifHook = func(kind, dir string, writes int) error {
		verifmc.Point("txn." + kind)
		return nil
	}
	pool := []string{"D", "T1", "T2"}
	type scen struct {
		name string
		a, b []int // pool indexes per thread
	}
	scens := []scen{
		{"same deposit on two chains", []int{0}, []int{0}},
		{"same transfer on two chains", []int{1}, []int{1}},
		{"shared deposit + one fresh member each", []int{0, 1}, []int{0, 2}},
		{"shared transfer + one fresh member each", []int{1, 0}, []int{1, 2}},
	}
	bound := verifmc.Pick(c, 2, 3)
	var mu sync.Mutex
	var execs int64
	c.ParallelN(len(scens), "C15 concurrent scenarios", func(_, i int) {
		sc := scens[i]
		ex := &verifmc.Explorer{C: c, Bound: bound, Name: "concurrent:" + sc.name}
		ex.Body = func(s *verifmc.Sched, report func(key, desc string)) string {
			e := c15BuildSel("", pool, false)
			defer e.L.Close()
			pick := func(ix []int) []*c15Member {
				var ms []*c15Member
				for _, k := range ix {
					ms = append(ms, e.pool[k])
				}
				return ms
			}
			n := e.L.Store.VerifNextTopology()
			calls := []*c15CCall{e.prepared(0, pick(sc.a), n), e.prepared(1, pick(sc.b), n+1)}
			pre := e.base
			for ti, cl := range calls {
				cl := cl
				s.Go(fmt.Sprint("t", ti), func() {
					cl.pv = verifmc.Catch(func() { cl.err = e.L.Store.WriteSnapshot(cl.topo, cl.signers) })
				})
			}
			for ti, p := range s.RunAll() {
				if p != nil {
					report("concurrent:thread-panic", fmt.Sprintf("scenario %q thread %d: %v", sc.name, ti, p))
				}
			}
			if s.Deadlock {
				report("concurrent:deadlock", strings.Join(s.Trace, " "))
				return "deadlock"
			}
			post := e.L.Store.VerifDump("")
			var ok []*c15CCall
			var pat []string
			for _, cl := range calls {
				good := cl.err == nil && cl.pv == nil
				pat = append(pat, fmt.Sprintf("%s=%v", cl.name, good))
				if good {
					ok = append(ok, cl)
				} else {
					c.Stricter("overlapping WriteSnapshot rejected: " + fmt.Sprint(cl.err, cl.pv))
				}
			}
			// admissible final states: every sequential order of the successful calls
			var orders [][]*c15CCall
			switch len(ok) {
			case 0:
				orders = [][]*c15CCall{{}}
			case 1:
				orders = [][]*c15CCall{ok}
			default:
				orders = [][]*c15CCall{{ok[0], ok[1]}, {ok[1], ok[0]}}
			}
			best := ""
			var bestDiff []string
			for _, ord := range orders {
				cur := make(map[string]string, len(pre)+64)
				for k, v := range pre {
					cur[k] = v
				}
				var names []string
				possible := true
				for _, cl := range ord {
					x := c15Expect(cur, cl.topo, cl.signers, e.bodies)
					if x.fail != "" {
						possible = false
						break
					}
					for k, v := range x.writes {
						cur[k] = v
					}
					names = append(names, cl.name)
				}
				if !possible {
					continue
				}
				var diff []string
				for k, v := range cur {
					if w, in := post[k]; !in || w != v {
						diff = append(diff, k)
					}
				}
				for k := range post {
					if _, in := cur[k]; !in {
						diff = append(diff, k)
					}
				}
				if len(diff) == 0 {
					return strings.Join(pat, " ") + " => as sequential " + strings.Join(names, " then ")
				}
				if best == "" || len(diff) < len(bestDiff) {
					best, bestDiff = strings.Join(names, " then "), diff
				}
			}
			cnt := map[string]int{}
			for _, k := range bestDiff {
				cnt[c15PrefixOf(k)]++
			}
			pf := verifmc.SortedKeys(cnt)
			report("concurrent:final-state-not-sequential:"+strings.Join(pf, "+"), fmt.Sprintf("scenario %q [%s] schedule %s: the final snapshot DB equals no sequential order of the successful calls; closest order (%s) differs in %v", sc.name, strings.Join(pat, " "), strings.Join(s.Trace, ""), best, cnt))
			return strings.Join(pat, " ") + " => NOT sequential"
		}
		ex.Run()
		mu.Lock()
		execs += ex.Executions
		mu.Unlock()
	})
	c.Set("concurrent_scenarios", len(scens))
	c.Set("concurrent_executions", execs)
	c.Set("preemption_bound", bound)
	c.Require(verifmc.FreeRunning() || c.Expired("concurrent guard") || execs >= 20, "vacuous concurrent part: %d executions", execs)
}

// TestMCRace_C15 is the separate free-running pass (go test -race) over the
// bodies of the concurrent scenarios.
func TestMCRace_C15(t *testing.T) {
	c := verifmc.Start(t, "C15", "model_checking")
	defer c.Finish()
	defer func() { badger.VerifHook = nil }()
	c15Concurrent(c)
	verifmc.RacePassDone("C15")
}

// ---------------------------------------------------------------- test

func TestMC_C15(t *testing.T) {
	c := verifmc.Start(t, "C15", "model_checking")
	defer c.Finish()
	c.SetRule("every WriteSnapshot call is bracketed by full dumps of the snapshot DB and compared byte for byte with a reference effect set (failure/panic/cut => unchanged; success => pre + FINALIZATION/UTXO/GHOST/ASSETINFO/ASSETTOTAL/NODESTATEQUEUE/WITHDRAWAL/CUSTODIANUPDATE of not-yet-final members + UNIQUE + SNAPSHOT + TOPOLOGY + SNAPTOPO + WORKSNAPSHOT). " +
		"(1) batches: every ordered selection of 1..3 of 12 member classes (transfers, deposits, new-asset deposit and its conflicting twin, withdrawal submit, claim, pledge, mint, custodian update, ghost-key poison, asset-info poison), hashes steered into thirds of the hash space so the selection order is the snapshot order, each followed by the same batch on a second chain and the surviving/first members on a third; " +
		"(2) one large batch (64 quick / 255 thorough tiny transfers+deposits) clean and with either poison sorted first/middle/last, retry without poison, re-finalization on another chain; " +
		"(3) BFS over histories of WriteSnapshot calls (chain x subset of a fixed pool, chains introduced in order), state = hash of the full dump; " +
		"(4) commit cut: the k-th Badger commit during the call is failed through badger.VerifHook for k=1,2,.. until the call completes (in-memory ledgers one at a time for every ordered selection of 1..2 classes; on-disk ledgers closed and reopened after each cut); a successful call must have used exactly one commit; " +
		"(5) re-finalization matrix: kind of the shared transaction (9) x timestamp of the second-written snapshot {earlier, equal, later than the first} x {an output locked by a spender between the writes} x {second snapshot holds only the shared transaction / also a fresh one}, plus a third snapshot earlier than both; " +
		"(6) Badger per-transaction limit: the prepared ledger copied into on-disk stores with memtable sizes swept (384 B steps quick / 64 B thorough) so that ErrTxnTooBig strikes at every write index of batches of 1..6 members (overflow point computed by replaying the reference writes on a scratch transaction), up to stores where the batch fits. A distinct case = selection/history/shape with its outcome vector")
	c.Assume("transaction bodies are written and inputs locked before the call (Debug assertions of WriteSnapshot are driver preconditions); snapshots are written on the genesis head round of chains 1..3 with unique timestamps; genesis chains are interchangeable (BFS introduces chains in order); Badger's own commit is atomic (the cut is injected before it); signatures are not checked by the storage layer")

	badger.VerifHook = c15Hook
	defer func() { badger.VerifHook = nil }()

	t0, cpu0 := time.Now(), c15CPU()
	lap := func(what string) {
		c.Set("wall_s_"+what, fmt.Sprintf("%.1f", time.Since(t0).Seconds()))
		c.Set("cpu_s_"+what, fmt.Sprintf("%.1f", c15CPU()-cpu0))
		t0, cpu0 = time.Now(), c15CPU()
	}
	c15PartBatches(c)
	lap("batches")
	c15PartLarge(c)
	lap("large")
	full := []string{"D", "T1", "W", "C", "M", "P", "P2", "N", "N2", "Xg", "U"}
	if c.Thorough() {
		c15PartHistories(c, "bfs_full_sub3_d2", full, 3, 2)
		c15PartHistories(c, "bfs_full_sub2_d3", full, 2, 3)
	} else {
		c15PartHistories(c, "bfs_full_sub2_d2", full, 2, 2)
	}
	lap("histories")
	c15PartCut(c, t)
	lap("cut")
	c15PartRefinalize(c)
	lap("refinalize")
	c15PartTooBig(c, t)
	lap("toobig")
	c15Concurrent(c) // replaces the seam; the deferred reset above clears it
	lap("concurrent")

	// vacuity guards (meaningless when the wall-clock cap cut the run short)
	if c.Expired("vacuity guards") {
		return
	}
	need := func(prefix string) {
		var n int64
		for _, o := range c15OutcomeNames(c) {
			if strings.HasPrefix(o, prefix) {
				n += c.OutcomeCount(o)
			}
		}
		c.Require(n > 0, "no call with outcome %s*", prefix)
	}
	for _, why := range []string{"error:ghost", "error:asset"} {
		for pos := 0; pos < 3; pos++ {
			need(fmt.Sprintf("reject:%s@%d/3", why, pos))
		}
	}
	need("reject:error:pledge")
	need("reject:panic:claim")
	need("reject:cut@commit1")
	need("ok:1-fresh+0-final")
	need("ok:3-fresh+0-final")
	need("ok:0-fresh+3-final")
	need("ok:1-fresh+1-final")
	for _, r := range []string{"earlier", "equal", "later"} {
		need("refinalize:second-" + r + ":ok")
	}
	need("reject:error:toobig@0/")
	need("reject:error:toobig@5/6")
	need("reject:error:toobig@-1/")
	for _, l := range []string{"Xg-first", "Xg-middle", "Xg-last", "Xa-first", "Xa-middle", "Xa-last"} {
		need("large:" + l + ":reject:error:")
	}
}

// c15CPU is the process CPU time (user+sys) in seconds: the machine-load
// independent cost measure reported per part.
func c15CPU() float64 {
	var ru syscall.Rusage
	if err := syscall.Getrusage(syscall.RUSAGE_SELF, &ru); err != nil {
		return 0
	}
	return float64(ru.Utime.Sec+ru.Stime.Sec) + float64(ru.Utime.Usec+ru.Stime.Usec)/1e6
}

func c15OutcomeNames(c *verifmc.Check) []string {
	// the engine exposes counts by name only; enumerate the names this harness can produce
	var out []string
	for _, why := range []string{"error:ghost", "error:asset", "error:pledge", "panic:claim", "panic:capacity", "panic:assetinfo"} {
		for n := 1; n <= 3; n++ {
			for p := 0; p < n; p++ {
				out = append(out, fmt.Sprintf("reject:%s@%d/%d", why, p, n))
			}
		}
	}
	for f := 0; f <= 3; f++ {
		for a := 0; a <= 3; a++ {
			out = append(out, fmt.Sprintf("ok:%d-fresh+%d-final", f, a))
		}
	}
	out = append(out, "reject:cut@commit1")
	for _, r := range []string{"earlier", "equal", "later"} {
		out = append(out, "refinalize:second-"+r+":ok")
	}
	for n := 1; n <= 6; n++ {
		for p := -1; p < n; p++ {
			out = append(out, fmt.Sprintf("reject:error:toobig@%d/%d", p, n))
		}
	}
	for _, l := range []string{"Xg-first", "Xg-middle", "Xg-last", "Xa-first", "Xa-middle", "Xa-last"} {
		out = append(out, "large:"+l+":reject:error:ghost", "large:"+l+":reject:error:asset")
	}
	return out
}
