//go:build verif

package storage

import (
	"crypto/sha256"
	"encoding/hex"
	"errors"
	"fmt"
	"os"
	"path/filepath"
	"time"
	"sort"
	"strings"
	"sync"
	"sync/atomic"
	"testing"

	"github.com/MixinNetwork/mixin/common"
	"github.com/MixinNetwork/mixin/crypto"
	"github.com/MixinNetwork/mixin/verifmc"
	vsync "github.com/MixinNetwork/mixin/verifmc/vsync"
	"github.com/dgraph-io/badger/v4"
	"github.com/dgraph-io/badger/v4/options"
)

// C26 — node work is credited exactly once per snapshot.
//
// Part 1 (E2): explicit-state BFS over histories of real WriteRoundWork calls
// on a real BadgerStore (generated genesis loaded, so that round 0 of the
// proposer carries the two signer-less genesis snapshots). The first event of
// a history selects the fixture (day/credit plan x signer layout), every
// further event is one call WriteRoundWork(P, round, first k snapshots of the
// round, credit[round]). Calls that run into one of the function's own
// panics (round > offset+1, a previously submitted snapshot missing, fresh
// credited snapshots of two different days) are "disabled": they are executed,
// must panic, must leave the counters alone and are not transitions.
// Part 2 (E4): on-disk ledgers, a commit failure injected through
// badger.VerifHook into every call attempted after a successful history, then
// close + reopen + the resubmission loop of kernel.AggregateMintWork.
//
// Part 3 (E3, mc_c26_conc_test.go): overlapping WriteRoundWork calls of several
// proposers under the preemption-bounded scheduler.
//
// Reference model: the SET of snapshots that were handed to a non-stale
// credited call. Expected counters are a pure function of that set, so the
// reference cannot double count whatever the call sequence is.

type c26Call struct {
	Round uint64
	K     int
	// insertion alphabet: the submitted snapshots by index into the round's
	// list, in the order they are handed over (Sel != nil)
	Sel []int
}

// call alphabet: round 0 = genesis round (two snapshots), rounds 1..3 carry
// three snapshots each; K is the length of the submitted prefix (0 = empty).
var c26Calls = []c26Call{
	{Round: 0, K: 1}, {Round: 0, K: 2},
	{Round: 1, K: 0}, {Round: 1, K: 1}, {Round: 1, K: 2}, {Round: 1, K: 3},
	{Round: 2, K: 0}, {Round: 2, K: 1}, {Round: 2, K: 2}, {Round: 2, K: 3},
	{Round: 3, K: 0}, {Round: 3, K: 1}, {Round: 3, K: 2}, {Round: 3, K: 3},
}

const (
	c26Sec = int64(1000000000)
	// day before the boundary used by every plan (genesis day is 17955)
	c26Day0 = uint32(17955 + 30)
)

type c26Plan struct {
	Name string
	// offsets (ns) relative to the day boundary between c26Day0 and c26Day0+1
	Off [3][3]int64
	// first timestamp of the round after round 3 (only for the kernel credit rule)
	Next int64
	// forced: credit every round (the mainnet fork-batch exception in
	// Chain.writeRoundWork); otherwise the kernel rule of AggregateMintWork:
	// credit(r) = day(first snapshot of r) == day(first snapshot of r+1)
	Forced bool
}

var c26Plans = []c26Plan{
	{Name: "lastRoundOfDay", Off: [3][3]int64{{-9 * c26Sec, -8 * c26Sec, -7 * c26Sec}, {-6 * c26Sec, -5 * c26Sec, -4 * c26Sec}, {1 * c26Sec, 2 * c26Sec, 3 * c26Sec}}, Next: 4 * c26Sec},
	{Name: "straddle", Off: [3][3]int64{{-9 * c26Sec, -8 * c26Sec, -7 * c26Sec}, {-2 * c26Sec, -1, 0}, {1 * c26Sec, 2 * c26Sec, 3 * c26Sec}}, Next: 4 * c26Sec},
	{Name: "firstRoundOfDayBefore", Off: [3][3]int64{{-3 * c26Sec, -2 * c26Sec, -1}, {0, 1 * c26Sec, 2 * c26Sec}, {3 * c26Sec, 4 * c26Sec, 5 * c26Sec}}, Next: 6 * c26Sec},
	{Name: "forced", Forced: true, Off: [3][3]int64{{-9 * c26Sec, -8 * c26Sec, -7 * c26Sec}, {-6 * c26Sec, -5 * c26Sec, -1}, {0, 2 * c26Sec, 3 * c26Sec}}, Next: 4 * c26Sec},
	{Name: "forcedStraddle21", Forced: true, Off: [3][3]int64{{-9 * c26Sec, -8 * c26Sec, -7 * c26Sec}, {-2 * c26Sec, -1, 0}, {1 * c26Sec, 2 * c26Sec, 3 * c26Sec}}, Next: 4 * c26Sec},
	{Name: "forcedStraddle12", Forced: true, Off: [3][3]int64{{-9 * c26Sec, -8 * c26Sec, -7 * c26Sec}, {-1, 0, 1 * c26Sec}, {2 * c26Sec, 3 * c26Sec, 4 * c26Sec}}, Next: 5 * c26Sec},
}

// signer menu: indices into (P, A, B, C); the proposer signs everything (the
// code asserts it) but is not always listed first.
var c26Menu = [4][]int{{0}, {1, 0}, {0, 2, 3}, {1, 2, 0, 3}}

type c26Cfg struct {
	Name   string
	Plan   int
	Layout [3]int
	Rounds [4][]*common.SnapshotWork
	Credit [4]bool
	Names  map[crypto.Hash]string
	Ins    bool // insertion alphabet (c26InsCalls) instead of the prefix alphabet
}

type c26Fix struct {
	P, Z    crypto.Hash
	Nodes   []crypto.Hash // P, A, B, C
	Cids    []crypto.Hash // P, A, B, C, Z (bystander)
	Roles   map[crypto.Hash]string
	Genesis []*common.SnapshotWork
	Days    []uint32
}

func c26NewFix(c *verifmc.Check) *c26Fix {
	l := newMCLedger("")
	defer l.Close()
	ids := l.Net.NodeIds
	f := &c26Fix{P: ids[0], Z: ids[4], Nodes: ids[:4], Cids: ids[:5], Roles: map[crypto.Hash]string{}}
	for i, r := range []string{"P", "A", "B", "C", "Z"} {
		f.Roles[ids[i]] = r
	}
	g, err := l.Store.ReadSnapshotWorksForNodeRound(f.P, 0)
	c.Require(err == nil && len(g) == 2, "genesis round of the proposer should carry two snapshot works: %d %v", len(g), err)
	for _, w := range g {
		c.Require(len(w.Signers) == 0, "genesis snapshot work with signers")
	}
	f.Genesis = g
	gday := uint32(0)
	if len(g) > 0 {
		gday = uint32(g[0].Timestamp / DAY_U64)
	}
	f.Days = []uint32{gday, c26Day0 - 1, c26Day0, c26Day0 + 1, c26Day0 + 2}
	return f
}

func c26Ts(off int64) uint64 {
	b := uint64(c26Day0+1) * DAY_U64
	if off < 0 {
		return b - uint64(-off)
	}
	return b + uint64(off)
}

func c26NewCfg(f *c26Fix, plan int, layout [3]int) *c26Cfg {
	p := c26Plans[plan]
	cfg := &c26Cfg{Plan: plan, Layout: layout, Names: map[crypto.Hash]string{}}
	cfg.Name = fmt.Sprintf("cfg:%s/L%d%d%d", p.Name, layout[0], layout[1], layout[2])
	cfg.Rounds[0] = f.Genesis
	for j, g := range f.Genesis {
		cfg.Names[g.Hash] = fmt.Sprintf("g%d", j)
	}
	for i := 1; i <= 3; i++ {
		for j := 0; j < 3; j++ {
			w := &common.SnapshotWork{
				Hash:      crypto.Blake3Hash([]byte(fmt.Sprintf("verif-c26 snapshot round %d index %d", i, j))),
				Timestamp: c26Ts(p.Off[i-1][j]),
			}
			for _, s := range c26Menu[(layout[j]+i-1)%4] {
				w.Signers = append(w.Signers, f.Nodes[s])
			}
			cfg.Rounds[i] = append(cfg.Rounds[i], w)
			cfg.Names[w.Hash] = fmt.Sprintf("r%ds%d", i, j)
		}
	}
	first := func(r int) uint64 {
		if r == 4 {
			return c26Ts(p.Next) / DAY_U64
		}
		return cfg.Rounds[r][0].Timestamp / DAY_U64
	}
	for r := 0; r <= 3; r++ {
		cfg.Credit[r] = p.Forced || first(r) == first(r+1)
	}
	return cfg
}

// Insertion alphabet (second family of fixtures, cfg.Ins): round 1 has FOUR
// snapshots with pairwise distinct signer sets, round 2 two. A call submits any
// subset of the round in timestamp order (what ReadSnapshotWorksForNodeRound
// yields when snapshots of a round become known out of order), so that a grown
// re-submission inserts its new members before, between and after the ones
// already submitted; every subset of two or more is also submitted in reverse
// order (a permuted re-submission of the same set).
var c26InsCalls = func() []c26Call {
	var out []c26Call
	for mask := 0; mask < 16; mask++ {
		sel := []int{}
		for i := 0; i < 4; i++ {
			if mask&(1<<i) != 0 {
				sel = append(sel, i)
			}
		}
		out = append(out, c26Call{Round: 1, Sel: sel})
		if len(sel) >= 2 {
			rev := make([]int, len(sel))
			for i, v := range sel {
				rev[len(sel)-1-i] = v
			}
			out = append(out, c26Call{Round: 1, Sel: rev})
		}
	}
	for _, sel := range [][]int{{}, {0}, {1}, {0, 1}} {
		out = append(out, c26Call{Round: 2, Sel: sel})
	}
	return out
}()

// c26NCalls: prefix calls first (the crash part and the pure enumerations use
// only those), then the insertion calls, then the fixture selectors.
func c26NCalls() int { return len(c26Calls) + len(c26InsCalls) }

func c26CallAt(e int) c26Call {
	if e < len(c26Calls) {
		return c26Calls[e]
	}
	return c26InsCalls[e-len(c26Calls)]
}

func (cfg *c26Cfg) pick(cl c26Call) []*common.SnapshotWork {
	if cl.Sel == nil {
		return cfg.Rounds[cl.Round][:cl.K:cl.K]
	}
	out := make([]*common.SnapshotWork, 0, len(cl.Sel))
	for _, i := range cl.Sel {
		out = append(out, cfg.Rounds[cl.Round][i])
	}
	return out
}

// c26NewInsCfg: all snapshots on one credited day; snapshot j of round 1 carries
// menu entry perm[j] (a permutation: four different signer sets).
func c26NewInsCfg(f *c26Fix, perm [4]int) *c26Cfg {
	cfg := &c26Cfg{Ins: true, Names: map[crypto.Hash]string{}}
	cfg.Name = fmt.Sprintf("cfg:insertion/L%d%d%d%d", perm[0], perm[1], perm[2], perm[3])
	cfg.Rounds[0] = f.Genesis
	for i, n := range []int{4, 2} {
		for j := 0; j < n; j++ {
			w := &common.SnapshotWork{
				Hash:      crypto.Blake3Hash([]byte(fmt.Sprintf("verif-c26 insertion round %d index %d", i+1, j))),
				Timestamp: c26Ts(-int64(100-10*i-j) * c26Sec),
			}
			for _, s := range c26Menu[perm[(j+i)%4]] {
				w.Signers = append(w.Signers, f.Nodes[s])
			}
			cfg.Rounds[i+1] = append(cfg.Rounds[i+1], w)
			cfg.Names[w.Hash] = fmt.Sprintf("r%ds%d", i+1, j)
		}
	}
	cfg.Credit = [4]bool{false, true, true, true}
	return cfg
}

// ---- reference model ----

type c26Ref struct {
	HasRec   bool
	Off      uint64
	Seen     map[crypto.Hash]bool
	Credited map[crypto.Hash]*common.SnapshotWork
}

func c26NewRef() *c26Ref {
	return &c26Ref{Seen: map[crypto.Hash]bool{}, Credited: map[crypto.Hash]*common.SnapshotWork{}}
}

func (r *c26Ref) clone() *c26Ref {
	n := &c26Ref{HasRec: r.HasRec, Off: r.Off, Seen: map[crypto.Hash]bool{}, Credited: map[crypto.Hash]*common.SnapshotWork{}}
	for k, v := range r.Seen {
		n.Seen[k] = v
	}
	for k, v := range r.Credited {
		n.Credited[k] = v
	}
	return n
}

// classify mirrors only the PRECONDITIONS of WriteRoundWork (its panics) and
// names the kind of call; it does not compute any credit.
func (r *c26Ref) classify(round uint64, works []*common.SnapshotWork, credit bool) (class string, enabled bool) {
	if r.Off > round {
		return "stale-noop", true
	}
	if round > r.Off+1 {
		return "gap", false
	}
	fresh := works
	class = "advance"
	if round == r.Off {
		in := map[crypto.Hash]bool{}
		fresh = nil
		for _, w := range works {
			in[w.Hash] = true
			if !r.Seen[w.Hash] {
				fresh = append(fresh, w)
			}
		}
		for h := range r.Seen {
			if !in[h] {
				return "shrink", false
			}
		}
		switch {
		case !r.HasRec:
			class = "first-round0"
		case len(fresh) == 0:
			class = "repeat"
		default:
			class = "grow"
		}
	}
	if len(works) == 0 {
		class += "-empty"
	}
	if credit && len(fresh) > 0 && len(fresh[0].Signers) > 0 {
		for _, w := range fresh {
			if w.Timestamp/DAY_U64 != fresh[0].Timestamp/DAY_U64 {
				return "mixed-days", false
			}
		}
	}
	if !credit {
		class += "-uncredited"
	}
	return class, true
}

// apply is the reference semantics of an accepted call: set union.
func (r *c26Ref) apply(round uint64, works []*common.SnapshotWork, credit bool) {
	if r.Off > round {
		return
	}
	if credit {
		for _, w := range works {
			if len(w.Signers) > 0 {
				r.Credited[w.Hash] = w
			}
		}
	}
	r.HasRec, r.Off = true, round
	r.Seen = map[crypto.Hash]bool{}
	for _, w := range works {
		r.Seen[w.Hash] = true
	}
}

func (r *c26Ref) key(cfg *c26Cfg) string {
	var seen, cred []string
	for h := range r.Seen {
		seen = append(seen, cfg.Names[h])
	}
	for h := range r.Credited {
		cred = append(cred, cfg.Names[h])
	}
	sort.Strings(seen)
	sort.Strings(cred)
	return fmt.Sprintf("rec=%v off=%d seen=%s credited=%s", r.HasRec, r.Off, strings.Join(seen, ","), strings.Join(cred, ","))
}

// expect derives the counters from the credited set: one proposal credit for
// the proposer and one signing credit for every other signer, on the day of
// the snapshot.
func (r *c26Ref) expect(f *c26Fix) map[uint32]map[crypto.Hash][2]uint64 {
	out := map[uint32]map[crypto.Hash][2]uint64{}
	r.expectInto(out, f.P)
	return out
}

// expectInto adds the credits of the snapshots credited to proposer.
func (r *c26Ref) expectInto(out map[uint32]map[crypto.Hash][2]uint64, proposer crypto.Hash) {
	for _, w := range r.Credited {
		d := uint32(w.Timestamp / DAY_U64)
		if out[d] == nil {
			out[d] = map[crypto.Hash][2]uint64{}
		}
		for _, s := range w.Signers {
			v := out[d][s]
			if s == proposer {
				v[0]++
			} else {
				v[1]++
			}
			out[d][s] = v
		}
	}
}

// ---- instance ----

type c26Inst struct {
	c   *verifmc.Check
	f   *c26Fix
	all []*c26Cfg

	pool   *c26Pool
	worker int

	pending []int
	cfg     *c26Cfg
	L       *mcLedger
	pooled  bool
	ref     *c26Ref
}

func (x *c26Inst) close() {
	if x.L != nil && !x.pooled {
		x.L.Close()
	}
	x.L = nil
}

// c26Pool: one ledger per worker (in-memory for the BFS, on-disk for the
// crash cases). A "fresh instance" is that
// ledger after every WORK* record was deleted and the records of the genesis
// load were written back; the reset is verified against the dump taken right
// after LoadGenesis (Badger does not expose deleted keys, so the ledger is
// indistinguishable from a new one for every reader of these records).
type c26Pool struct {
	c     *verifmc.Check
	base  string // "" = in-memory ledgers, otherwise on-disk ledgers under base/w<worker>
	heavy bool   // on-disk: the repository's own NewBadgerStore (64 MiB memtables, two DBs)
	mu    sync.Mutex
	slots map[int]*c26Slot
	reset atomic.Int64
}

type c26Slot struct {
	L        *mcLedger
	dir      string
	uses     int
	pristine map[string]string
}

// c26OpenLight opens only the snapshots DB (WriteRoundWork, ListNodeWorks and
// the genesis load never touch the cache DB) with the options of the
// repository's openDB except for a 2 MiB memtable: the 2 x 80 MiB skiplist
// arenas of the default options cost more than everything else in a run.
func c26OpenLight(dir string) *BadgerStore {
	var opts badger.Options
	if dir == "" {
		opts = badger.DefaultOptions("").WithInMemory(true).WithNumCompactors(2)
	} else {
		opts = badger.DefaultOptions(dir + "/snapshots").WithSyncWrites(true)
		opts = opts.WithBaseLevelSize(16 << 20).WithLevelSizeMultiplier(16).WithMaxLevels(7)
	}
	opts = opts.WithCompression(options.None).WithBlockCacheSize(0).WithIndexCacheSize(0)
	opts = opts.WithMetricsEnabled(false).WithLoggingLevel(badger.ERROR)
	// (in-memory Badger refuses values above the threshold; 15% of the memtable bounds it)
	opts = opts.WithMemTableSize(2 << 20).WithNumMemtables(2).WithValueThreshold(128 << 10).WithValueLogFileSize(16 << 20)
	db, err := badger.Open(opts)
	if err != nil {
		panic(err)
	}
	return &BadgerStore{snapshotsDB: db, mutex: new(vsync.RWMutex)}
}

func (p *c26Pool) open(dir string) *BadgerStore {
	if p.heavy && dir != "" {
		store, err := OpenForVerif(dir)
		if err != nil {
			panic(fmt.Errorf("open %s: %v", dir, err))
		}
		return store
	}
	return c26OpenLight(dir)
}

func (p *c26Pool) closeStore(s *BadgerStore) {
	if s.cacheDB != nil {
		_ = s.Close()
		return
	}
	_ = s.snapshotsDB.Close()
}

func (p *c26Pool) newLedger(dir string) *mcLedger {
	store := p.open(dir)
	rounds, snapshots, transactions, err := mcNet7.Genesis.BuildSnapshots()
	if err != nil {
		panic(err)
	}
	if err := store.LoadGenesis(rounds, snapshots, transactions); err != nil {
		panic(err)
	}
	return &mcLedger{Net: mcNet7, Store: store}
}

// get returns the worker's ledger reset to the state right after LoadGenesis
// plus the records written by extra (nExtra of them), in ONE transaction:
// delete every WORK* record, write the genesis records back, run extra. The
// result is verified record by record.
func (p *c26Pool) get(worker int, nExtra int, extra func(txn *badger.Txn) error) *mcLedger {
	p.mu.Lock()
	sl := p.slots[worker]
	// superseded versions stay in the memtable and slow every prefix scan
	// down: start over with a new ledger now and then
	if sl != nil && sl.uses >= 64 {
		p.closeStore(sl.L.Store)
		sl = nil
	}
	if sl == nil {
		dir := ""
		if p.base != "" {
			dir = filepath.Join(p.base, fmt.Sprintf("w%d", worker))
			_ = os.RemoveAll(dir)
		}
		sl = &c26Slot{L: p.newLedger(dir), dir: dir}
		sl.pristine = sl.L.Store.VerifDump("WORK")
		p.slots[worker] = sl
	}
	p.mu.Unlock()
	sl.uses++
	db := sl.L.Store.snapshotsDB
	err := db.Update(func(txn *badger.Txn) error {
		if sl.uses > 1 {
			opts := badger.DefaultIteratorOptions
			opts.PrefetchValues = false
			opts.Prefix = []byte("WORK")
			it := txn.NewIterator(opts)
			var keys [][]byte
			for it.Rewind(); it.Valid(); it.Next() {
				keys = append(keys, it.Item().KeyCopy(nil))
			}
			it.Close()
			for _, k := range keys {
				if err := txn.Delete(k); err != nil {
					return err
				}
			}
			for k, v := range sl.pristine {
				kb, _ := hex.DecodeString(k)
				vb, _ := hex.DecodeString(v)
				if err := txn.Set(kb, vb); err != nil {
					return err
				}
			}
		}
		return extra(txn)
	})
	if err != nil {
		panic(err)
	}
	now := sl.L.Store.VerifDump("WORK")
	same := len(now) == len(sl.pristine)+nExtra
	for k, v := range sl.pristine {
		same = same && now[k] == v
	}
	snapPrefix := hex.EncodeToString([]byte(graphPrefixWorkSnapshot))
	for k := range now {
		// nothing but snapshot work records: no checkpoint, no counters
		same = same && strings.HasPrefix(k, snapPrefix)
	}
	p.c.Require(same, "ledger reset left %d WORK records, genesis has %d and the fixture %d", len(now), len(sl.pristine), nExtra)
	if sl.uses > 1 {
		p.reset.Add(1)
	}
	return sl.L
}

func (p *c26Pool) closeAll() {
	for _, sl := range p.slots {
		p.closeStore(sl.L.Store)
	}
}

func (x *c26Inst) setup(cfg *c26Cfg, dir string) {
	x.cfg, x.ref = cfg, c26NewRef()
	// the snapshots of rounds 1..3 are final: their work records are written
	// the way WriteSnapshot does it
	n := 0
	fixture := func(txn *badger.Txn) error {
		for i := 1; i <= 3; i++ {
			for _, w := range cfg.Rounds[i] {
				snap := &common.SnapshotWithTopologicalOrder{Snapshot: &common.Snapshot{
					Version: common.SnapshotVersionCommonEncoding, NodeId: x.f.P, RoundNumber: uint64(i), Timestamp: w.Timestamp, Hash: w.Hash,
				}}
				if err := writeSnapshotWork(txn, snap, w.Signers); err != nil {
					return err
				}
			}
		}
		return nil
	}
	for i := 1; i <= 3; i++ {
		n += len(cfg.Rounds[i])
	}
	if x.pool != nil {
		x.L, x.pooled = x.pool.get(x.worker, n, fixture), true
		return
	}
	x.L = newMCLedger(dir)
	if err := x.L.Store.snapshotsDB.Update(fixture); err != nil {
		panic(err)
	}
}

func c26SameWorks(a, b []*common.SnapshotWork) bool {
	if len(a) != len(b) {
		return false
	}
	for i := range a {
		if a[i].Hash != b[i].Hash || a[i].Timestamp != b[i].Timestamp || len(a[i].Signers) != len(b[i].Signers) {
			return false
		}
		for j := range a[i].Signers {
			if a[i].Signers[j] != b[i].Signers[j] {
				return false
			}
		}
	}
	return true
}

func (x *c26Inst) dump() string {
	m := x.L.Store.VerifDump("WORK")
	h := sha256.New()
	for _, k := range verifmc.SortedKeys(m) {
		h.Write([]byte(k))
		h.Write([]byte{'='})
		h.Write([]byte(m[k]))
		h.Write([]byte{'\n'})
	}
	return hex.EncodeToString(h.Sum(nil)[:12])
}

// oracle compares ListNodeWorks of every observed day with the reference.
func (x *c26Inst) oracle(stage, after string, report func(key, desc string)) {
	exp := x.ref.expect(x.f)
	for _, day := range x.f.Days {
		got, err := x.L.Store.ListNodeWorks(x.f.Cids, day)
		if err != nil {
			report(stage+":list-error", fmt.Sprintf("ListNodeWorks day %d: %v", day, err))
			return
		}
		for _, id := range x.f.Cids {
			want := exp[day][id]
			g := got[id]
			for k, kind := range []string{"proposal", "signing"} {
				if g[k] == want[k] {
					continue
				}
				dir := "overcount"
				if g[k] < want[k] {
					dir = "undercount"
				}
				report(fmt.Sprintf("%s:%s-%s", stage, kind, dir), fmt.Sprintf("%s after %s: node %s has %d %s credits on day %d (boundary day %d), the set of credited snapshots {%s} gives %d",
					x.cfg.Name, after, x.f.Roles[id], g[k], kind, day, c26Day0+1, x.ref.key(x.cfg), want[k]))
			}
		}
	}
}

// call executes one WriteRoundWork event. Returns false for a disabled call.
func (x *c26Inst) call(e int, stage string, quiet bool, report func(key, desc string)) bool {
	cl := c26CallAt(e)
	works := x.cfg.pick(cl)
	credit := x.cfg.Credit[cl.Round]
	class, enabled := x.ref.classify(cl.Round, works, credit)
	// where the new members of a grown set sit relative to the recorded ones,
	// and whether a re-submission lists the recorded ones in another order
	shape := ""
	if enabled && !quiet && cl.Round == x.ref.Off && x.ref.HasRec && len(x.ref.Seen) > 0 {
		var pos []bool // per submitted snapshot: already recorded
		sorted := true
		for i, w := range works {
			pos = append(pos, x.ref.Seen[w.Hash])
			sorted = sorted && (i == 0 || works[i-1].Timestamp < w.Timestamp)
		}
		if !sorted {
			shape = ":permuted"
		} else if n := len(pos); n > len(x.ref.Seen) {
			switch {
			case !pos[0] && pos[n-1]:
				shape = ":new-at-front"
			case pos[0] && pos[n-1]:
				shape = ":new-in-middle"
			case !pos[0] && !pos[n-1]:
				shape = ":new-at-both-ends"
			}
		}
	}
	var err error
	p, site := verifmc.CatchSite(func() { err = x.L.Store.WriteRoundWork(x.f.P, cl.Round, works, credit) })
	name := c26EventName(x.all, e)
	if !enabled && p != nil {
		if !quiet {
			x.c.Outcome("disabled:" + class)
			x.oracle(stage, "the rejected call "+name, report)
		}
		return false
	}
	if !enabled {
		// the code accepted a call the harness expected it to refuse: the
		// set semantics still says what the totals have to be
		x.c.Require(false, "%s: call %s (%s) expected to panic but returned %v", x.cfg.Name, name, class, err)
	}
	if p != nil {
		report(stage+":resubmission-panicked:"+class, fmt.Sprintf("%s: call %s (%s) respects the preconditions but panicked at %s: %v", x.cfg.Name, name, class, site, p))
		return true
	}
	if err != nil {
		report(stage+":resubmission-failed:"+class, fmt.Sprintf("%s: call %s (%s) failed: %v", x.cfg.Name, name, class, err))
		return true
	}
	x.ref.apply(cl.Round, works, credit)
	if !quiet {
		x.c.Outcome("call:" + class)
		if shape != "" {
			x.c.Outcome("call:" + class + shape)
		}
		x.oracle(stage, name, report)
	}
	return true
}

func c26EventName(all []*c26Cfg, e int) string {
	if e >= c26NCalls() {
		return all[e-c26NCalls()].Name
	}
	if cl := c26CallAt(e); cl.Sel != nil {
		return fmt.Sprintf("round%d%v", cl.Round, cl.Sel)
	}
	return fmt.Sprintf("round%d[:%d]", c26Calls[e].Round, c26Calls[e].K)
}

// bfsApply: replayed events are only queued; the store is created and the
// queue executed when the new event is known to need it (the fixture
// selectors are enabled in the root only and would otherwise cost a ledger
// per state).
func (x *c26Inst) bfsApply(e int, replaying bool, report func(key, desc string)) bool {
	if replaying {
		x.pending = append(x.pending, e)
		return true
	}
	if e >= c26NCalls() {
		if len(x.pending) > 0 || x.cfg != nil {
			return false
		}
		x.setup(x.all[e-c26NCalls()], "")
		x.oracle("bfs", "fixture setup", report)
		return true
	}
	if x.cfg == nil {
		if len(x.pending) == 0 {
			return false
		}
		// each fixture family has its own call alphabet
		if cfg := x.all[x.pending[0]-c26NCalls()]; cfg.Ins != (c26CallAt(e).Sel != nil) {
			return false
		}
		x.setup(x.all[x.pending[0]-c26NCalls()], "")
		for _, pe := range x.pending[1:] {
			if !x.call(pe, "bfs", true, func(string, string) {}) {
				x.c.Require(false, "replay divergence in %s at %s", x.cfg.Name, c26EventName(x.all, pe))
				return false
			}
		}
	}
	return x.call(e, "bfs", false, report)
}

func (x *c26Inst) bfsKey() string {
	if x.cfg == nil {
		return "root"
	}
	off, _ := x.L.Store.ReadWorkOffset(x.f.P)
	return fmt.Sprintf("%s|%s|store off=%d works=%s", x.cfg.Name, x.ref.key(x.cfg), off, x.dump())
}

// ---- pure enumeration over the reference (sequence counts, crash points) ----

type c26Point struct {
	cfg  *c26Cfg
	hist []int
	ref  *c26Ref
}

// c26RefStates: shortest call history for every reference state reachable
// with at most depth accepted calls.
func c26RefStates(cfg *c26Cfg, depth int) []c26Point {
	type node struct {
		r    *c26Ref
		hist []int
	}
	root := c26NewRef()
	seen := map[string]bool{root.key(cfg): true}
	frontier := []node{{r: root}}
	out := []c26Point{{cfg: cfg, ref: root}}
	for d := 0; d < depth; d++ {
		var next []node
		for _, n := range frontier {
			for e, cl := range c26Calls {
				works := cfg.Rounds[cl.Round][:cl.K]
				if _, ok := n.r.classify(cl.Round, works, cfg.Credit[cl.Round]); !ok {
					continue
				}
				r := n.r.clone()
				r.apply(cl.Round, works, cfg.Credit[cl.Round])
				k := r.key(cfg)
				if seen[k] {
					continue
				}
				seen[k] = true
				h := append(append([]int{}, n.hist...), e)
				next = append(next, node{r: r, hist: h})
				out = append(out, c26Point{cfg: cfg, hist: h, ref: r})
			}
		}
		frontier = next
	}
	return out
}

// c26CountSeqs: number of call sequences of length 1..depth in which every
// call respects the preconditions (what the state-deduplicating BFS stands for).
func c26CountSeqs(cfg *c26Cfg, depth int) int64 {
	memo := map[string]int64{}
	var rec func(r *c26Ref, rem int) int64
	rec = func(r *c26Ref, rem int) int64 {
		if rem == 0 {
			return 1
		}
		k := fmt.Sprintf("%d|%s", rem, r.key(cfg))
		if v, ok := memo[k]; ok {
			return v
		}
		total := int64(1)
		for _, cl := range c26Calls {
			works := cfg.Rounds[cl.Round][:cl.K]
			if _, ok := r.classify(cl.Round, works, cfg.Credit[cl.Round]); !ok {
				continue
			}
			n := r.clone()
			n.apply(cl.Round, works, cfg.Credit[cl.Round])
			total += rec(n, rem-1)
		}
		memo[k] = total
		return total
	}
	return rec(c26NewRef(), depth) - 1
}

// ---- crash part ----

// c26Arm: crash injector state of one snapshots directory: the first allow
// commits pass, every later commit is refused.
type c26Arm struct {
	allow         int64
	seen, refused atomic.Int64
}

var (
	c26Armed    sync.Map // snapshots directory -> *c26Arm
	c26ErrCrash = errors.New("verif c26: injected commit failure")
)

func c26Hook(kind, dir string, writes int) error {
	if kind != "commit" || dir == "" {
		return nil
	}
	if v, ok := c26Armed.Load(dir); ok {
		a := v.(*c26Arm)
		if a.seen.Add(1) > a.allow {
			a.refused.Add(1)
			return c26ErrCrash
		}
	}
	return nil
}

func c26HistNames(all []*c26Cfg, cfg *c26Cfg, hist []int) []string {
	out := []string{cfg.Name}
	for _, e := range hist {
		out = append(out, c26EventName(all, e))
	}
	return out
}

type c26CrashStats struct {
	refused, attempts, resubmitted, singleCommit, splitCommit atomic.Int64
	reopenNs, closeNs, setupNs                                atomic.Int64
}

const (
	c26ModeReopen = 0 // committed history, crash, restart
	c26ModeRefuse = 1 // every enabled call attempted with its commit refused, crash, restart
	c26ModeSplit  = 2 // + event: one call with only its FIRST commit allowed (crash between two commits of one call)
)

// c26CrashCase runs on the worker's on-disk ledger: history (committed), the
// crash of the given mode, close, reopen, AggregateMintWork's resubmission loop.
func c26CrashCase(c *verifmc.Check, f *c26Fix, all []*c26Cfg, pt c26Point, mode int, pool *c26Pool, worker int, st *c26CrashStats) {
	modeName := []string{"reopen-after-commit", "commit-refused"}
	var mname string
	if mode >= c26ModeSplit {
		cl := c26Calls[mode-c26ModeSplit]
		class, ok := pt.ref.classify(cl.Round, pt.cfg.Rounds[cl.Round][:cl.K], pt.cfg.Credit[cl.Round])
		if !ok || class == "stale-noop" {
			return // never reaches a commit
		}
		mname = "crash-inside:" + c26EventName(all, mode-c26ModeSplit)
	} else {
		mname = modeName[mode]
	}
	var steps []string
	report := func(key, desc string) {
		c.Violation(key, desc, map[string]any{"mode": mname, "history": c26HistNames(all, pt.cfg, pt.hist), "then": steps})
	}
	x := &c26Inst{c: c, f: f, all: all, pool: pool, worker: worker}
	ts := time.Now()
	x.setup(pt.cfg, "")
	st.setupNs.Add(int64(time.Since(ts)))
	sdir := x.L.Store.VerifSnapshotsDir()
	dir := filepath.Dir(sdir)
	for _, e := range pt.hist {
		if !x.call(e, "crash", true, report) {
			c.Require(false, "crash case: history event %s disabled in %s", c26EventName(all, e), pt.cfg.Name)
			return
		}
	}
	x.oracle("crash", "the committed history", report)
	predictable := true // reference offset / submitted set still describe the store
	switch {
	case mode == c26ModeRefuse:
		arm := &c26Arm{}
		before := x.dump()
		c26Armed.Store(sdir, arm)
		for e, cl := range c26Calls {
			works := pt.cfg.Rounds[cl.Round][:cl.K:cl.K]
			class, ok := x.ref.classify(cl.Round, works, pt.cfg.Credit[cl.Round])
			if !ok || class == "stale-noop" {
				continue // panics before / never reaches a commit
			}
			var err error
			n0 := arm.refused.Load()
			p := verifmc.Catch(func() { err = x.L.Store.WriteRoundWork(f.P, cl.Round, works, pt.cfg.Credit[cl.Round]) })
			steps = append(steps, "commit-refused:"+c26EventName(all, e))
			st.attempts.Add(1)
			c.Require(p == nil && errors.Is(err, c26ErrCrash) && arm.refused.Load() == n0+1, "crash case: commit of %s was not intercepted (panic %v err %v)", c26EventName(all, e), p, err)
			if x.dump() != before {
				report("crash:failed-commit-visible", fmt.Sprintf("%s: WriteRoundWork %s returned %v but changed the work records", pt.cfg.Name, c26EventName(all, e), err))
			}
		}
		st.refused.Add(arm.refused.Load())
		x.oracle("crash", "refused commits", report)
		tcl := time.Now()
		pool.closeStore(x.L.Store)
		st.closeNs.Add(int64(time.Since(tcl)))
		c26Armed.Delete(sdir)
	case mode >= c26ModeSplit:
		e := mode - c26ModeSplit
		cl := c26Calls[e]
		works := pt.cfg.Rounds[cl.Round][:cl.K:cl.K]
		arm := &c26Arm{allow: 1}
		c26Armed.Store(sdir, arm)
		var err error
		p := verifmc.Catch(func() { err = x.L.Store.WriteRoundWork(f.P, cl.Round, works, pt.cfg.Credit[cl.Round]) })
		if arm.refused.Load() == 0 {
			// the call is a single transaction: no crash point inside it
			c26Armed.Delete(sdir)
			c.Require(p == nil && err == nil && arm.seen.Load() <= 1, "crash case: call %s with one commit allowed: panic %v err %v commits %d", c26EventName(all, e), p, err, arm.seen.Load())
			x.ref.apply(cl.Round, works, pt.cfg.Credit[cl.Round])
			x.oracle("crash", c26EventName(all, e), report)
			st.singleCommit.Add(1)
			c.Eval(1)
			c.Outcome("crash-case:call-is-one-transaction")
			return
		}
		steps = append(steps, fmt.Sprintf("%s: commit 1 passed, commit 2 refused (%v)", c26EventName(all, e), err))
		st.splitCommit.Add(1)
		predictable = false
		pool.closeStore(x.L.Store)
		c26Armed.Delete(sdir)
	default:
		pool.closeStore(x.L.Store)
	}
	// restart
	t0 := time.Now()
	store := pool.open(dir)
	st.reopenNs.Add(int64(time.Since(t0)))
	x.L.Store = store // the pooled ledger continues on the reopened store
	steps = append(steps, "reopen")
	off, err := store.ReadWorkOffset(f.P)
	if predictable {
		x.oracle("crash", "reopen", report)
		c.Require(err == nil && off == x.ref.Off, "offset after reopen is %d (%v), reference %d", off, err, x.ref.Off)
	}
	for round := off; round <= 3; round++ {
		works, err := store.ReadSnapshotWorksForNodeRound(f.P, round)
		c.Require(err == nil && c26SameWorks(works, pt.cfg.Rounds[round]), "snapshot works of round %d read back differently after reopen (%d, %v)", round, len(works), err)
		credit := pt.cfg.Credit[round]
		name := fmt.Sprintf("resubmit:round%d[:%d]", round, len(works))
		class := "after-split-call"
		if predictable {
			var ok bool
			class, ok = x.ref.classify(round, works, credit)
			if !ok {
				// the kernel would die here as well (two days in one credited batch)
				c.Outcome("restart-blocked:" + class)
				break
			}
			if round == off && x.ref.HasRec && len(x.ref.Seen) > 0 {
				st.resubmitted.Add(1)
			}
		}
		steps = append(steps, name)
		var werr error
		p, site := verifmc.CatchSite(func() { werr = store.WriteRoundWork(f.P, round, works, credit) })
		if p != nil && !predictable && strings.HasPrefix(c26Plans[pt.cfg.Plan].Name, "forcedStraddle") {
			c.Outcome("restart-blocked:after-split-call")
			return
		}
		if p != nil || werr != nil {
			report("crash:resubmission-failed:"+class, fmt.Sprintf("%s: %s after restart: panic %v at %s, error %v", pt.cfg.Name, name, p, site, werr))
			return
		}
		if predictable {
			x.ref.apply(round, works, credit)
			c.Outcome("restart:" + class)
			x.oracle("crash", name, report)
		} else if credit {
			// set semantics only: everything resubmitted to a credited round counts once
			for _, w := range works {
				if len(w.Signers) > 0 {
					x.ref.Credited[w.Hash] = w
				}
			}
		}
	}
	if !predictable {
		x.oracle("crash", "the restart that followed a crash between two commits of one call", report)
	}
	c.Eval(1)
	c.AddTraces(1)
	c.Outcome("crash-case:" + strings.SplitN(mname, ":", 2)[0])
	c.Distinct(fmt.Sprintf("crash|%s|%s|%v", pt.cfg.Name, mname, pt.hist))
}

// ---- test ----

func TestMC_C26(t *testing.T) {
	c := verifmc.Start(t, "C26", "model_checking")
	defer c.Finish()
	c.SetRule("BFS with state deduplication over all histories [fixture, call, call, ...] for two fixture families. Insertion family: round 1 = four snapshots with pairwise distinct signer sets (menu permuted), round 2 = two, one credited day; call = WriteRoundWork(P, round, any subset of the round in timestamp order, or any subset of >=2 in reverse order), so grown re-submissions insert new members before / between / after the recorded ones and the same set is re-submitted permuted. Prefix family: fixture = (day/credit plan, signer layout) of one proposer P, three other signers and rounds 1..3 of three snapshots each around a day boundary, plus the two signer-less genesis snapshots of round 0; call = WriteRoundWork(P, round, first k snapshots of the round, credit[round]) for round 0..3, k 0..3. Calls that hit a panic of the function itself (round > offset+1, shrinking set, two days in one credited fresh batch) are executed, must panic and are not transitions; stale calls (round < offset) are transitions. State = fixture + reference (offset, submitted set, credited set) + digest of all WORK* records. Oracle in every state: ListNodeWorks(P,A,B,C,bystander) on 5 days = counters derived from the SET of snapshots handed to a non-stale credited call. Crash part: for every reference state reachable with <= n calls, on an on-disk ledger: (a, thorough only, subsumed by b) close and reopen, (b) every enabled call attempted with its commit refused through badger.VerifHook, then close and reopen, (c) per enabled call: only its first commit allowed (a crash point inside the call exists only if it is not one transaction); then the AggregateMintWork loop (ReadWorkOffset, ReadSnapshotWorksForNodeRound, WriteRoundWork for offset..3) with the oracle after every step. Concurrent part: 5 scenarios of 2-3 threads (different proposers sharing signers on one day, a proposer resubmitting next to another proposer, two threads of one proposer, two rounds over the day boundary), each thread = WriteRoundWork calls with the kernel's retry on badger.ErrConflict; all schedules of the Badger begin/commit points up to the preemption bound, each on a fresh ledger; counters and offsets compared with the same sequential reference")
	c.Assume("credit is fixed per round (kernel rule day(first(r)) == day(first(r+1)), or always true as in the mainnet fork-batch exception); every non-genesis snapshot is signed by its proposer; snapshot timestamps within a chain are distinct; a refused Badger commit leaves no trace (checked) and a closed+reopened on-disk store stands for a crashed process (Badger durability itself is trusted); dedup key contains every record WriteRoundWork reads")

	f := c26NewFix(c)
	// signer layouts: menu index of the three snapshot positions (rotated by
	// one per round). thorough: all 64; quick: the 16 rows of a strength-2
	// orthogonal array (every pair of positions sees every pair of menu entries)
	var layouts [][3]int
	for a := 0; a < 4; a++ {
		for b := 0; b < 4; b++ {
			for d := 0; d < 4; d++ {
				if c.Thorough() || d == (a+b)%4 {
					layouts = append(layouts, [3]int{a, b, d})
				}
			}
		}
	}
	var cfgs []*c26Cfg
	for p := range c26Plans {
		for _, l := range layouts {
			cfgs = append(cfgs, c26NewCfg(f, p, l))
		}
	}
	// insertion fixtures: the four menu entries permuted over the four
	// snapshots of round 1 (thorough: all 24 permutations)
	var ins []*c26Cfg
	verifmc.Permutations(4, func(pm []int) {
		perm := [4]int{pm[0], pm[1], pm[2], pm[3]}
		quick := map[[4]int]bool{{0, 1, 2, 3}: true, {3, 2, 1, 0}: true, {1, 2, 3, 0}: true, {2, 3, 0, 1}: true, {3, 0, 1, 2}: true, {1, 0, 3, 2}: true}
		if c.Thorough() || quick[perm] {
			ins = append(ins, c26NewInsCfg(f, perm))
		}
	})
	all := append(append([]*c26Cfg{}, cfgs...), ins...)
	c.Set("fixtures", len(all))
	c.Set("insertion_fixtures", len(ins))
	c.Set("insertion_call_alphabet", len(c26InsCalls))
	c.Set("call_alphabet", len(c26Calls))

	// E3 first: its scheduling hook and the crash injector below share the seam
	c26Concurrent(c)

	badger.VerifHook = c26Hook
	defer func() { badger.VerifHook = nil }()

	// fixture self-check: what the kernel would read is what the events submit
	{
		x := &c26Inst{c: c, f: f, all: cfgs}
		x.setup(cfgs[0], "")
		for r := uint64(0); r <= 3; r++ {
			w, err := x.L.Store.ReadSnapshotWorksForNodeRound(f.P, r)
			c.Require(err == nil && c26SameWorks(w, cfgs[0].Rounds[r]), "fixture: works of round %d differ from the store's view", r)
		}
		x.close()
	}

	depth := verifmc.Pick(c, 5, 7)
	var seqs atomic.Int64
	c.ParallelN(len(cfgs), "sequence count", func(w, i int) { seqs.Add(c26CountSeqs(cfgs[i], depth)) })
	c.Set("call_sequences_le_depth_represented", seqs.Load())
	c.Set("max_calls", depth)

	pool := &c26Pool{c: c, slots: map[int]*c26Slot{}}
	defer pool.closeAll()
	b := &verifmc.BFS[*c26Inst]{
		C: c, NumEvents: c26NCalls() + len(all), MaxDepth: depth + 1,
		EventName: func(e int) string { return c26EventName(all, e) },
		New:       func(w int) *c26Inst { return &c26Inst{c: c, f: f, all: all, pool: pool, worker: w} },
		Apply: func(x *c26Inst, e int, replaying bool, report func(key, desc string)) bool {
			return x.bfsApply(e, replaying, report)
		},
		Key:   func(x *c26Inst) string { return x.bfsKey() },
		Close: func(x *c26Inst) { x.close() },
	}
	tb := time.Now()
	states, trans, _, exhausted := b.Run()
	c.Set("bfs_wall_s", time.Since(tb).Seconds())
	c.Set("bfs_states", states)
	c.Set("bfs_transitions", trans)
	c.Set("ledger_resets_verified", pool.reset.Load())
	if !exhausted && !c.Expired("bfs") {
		c.Capped(fmt.Sprintf("BFS frontier not empty after %d calls", depth))
	}
	if !c.Expired("bfs") {
		c.Require(states > int64(40*len(all)) && trans > int64(300*len(all)), "vacuous BFS: %d states %d transitions for %d fixtures", states, trans, len(all))
		for _, o := range []string{"call:stale-noop", "call:repeat", "call:grow", "call:advance", "call:advance-uncredited", "call:grow-uncredited", "call:repeat-uncredited", "call:advance-empty", "call:first-round0-uncredited", "call:first-round0", "disabled:gap", "disabled:shrink", "disabled:mixed-days",
			"call:grow:new-at-front", "call:grow:new-in-middle", "call:grow:new-at-both-ends", "call:grow:permuted", "call:repeat:permuted"} {
			c.Require(c.OutcomeCount(o) > 0, "outcome %s never reached", o)
		}
	}

	// crash part
	scratch := os.Getenv("VERIF_SCRATCH")
	if scratch == "" {
		scratch = t.TempDir()
	}
	cdepth := verifmc.Pick(c, 2, 3)
	var ccfgs []*c26Cfg
	// quick: one layout of four plans; thorough: two layouts of every plan
	for i := 6; i < len(cfgs); i += len(layouts) / verifmc.Pick(c, 1, 2) {
		if name := c26Plans[cfgs[i].Plan].Name; !c.Thorough() && (name == "firstRoundOfDayBefore" || name == "forcedStraddle21") {
			continue
		}
		ccfgs = append(ccfgs, cfgs[i])
	}
	var points []c26Point
	for _, cfg := range ccfgs {
		points = append(points, c26RefStates(cfg, cdepth)...)
	}
	c.Set("crash_fixtures", len(ccfgs))
	c.Set("crash_points", len(points))
	var st c26CrashStats
	nm := c26ModeSplit + len(c26Calls)
	// thorough: the repository's own on-disk store (NewBadgerStore through
	// OpenForVerif); quick: the same directories with small memtables
	dpool := &c26Pool{c: c, base: filepath.Join(scratch, "c26-crash"), heavy: c.Thorough(), slots: map[int]*c26Slot{}}
	tc := time.Now()
	c.ParallelN(nm*len(points), "crash cases", func(w, i int) {
		if i%nm == c26ModeReopen && !c.Thorough() {
			// quick: the plain crash-after-commit is the prefix of the
			// commit-refused case (same history, same restart) and is left to it
			return
		}
		c26CrashCase(c, f, cfgs, points[i/nm], i%nm, dpool, w, &st)
	})
	dpool.closeAll()
	_ = os.RemoveAll(dpool.base)
	c.Set("crash_wall_s", time.Since(tc).Seconds())
	c.Set("crash_worker_s_reopen_close_setup", []float64{float64(st.reopenNs.Load()) / 1e9, float64(st.closeNs.Load()) / 1e9, float64(st.setupNs.Load()) / 1e9})
	c.Set("crash_commits_refused", st.refused.Load())
	c.Set("crash_restarts_resubmitting_a_recorded_set", st.resubmitted.Load())
	c.Set("crash_calls_found_to_be_one_transaction", st.singleCommit.Load())
	c.Set("crash_calls_split_over_transactions", st.splitCommit.Load())
	if !c.Expired("crash cases") {
		c.Require(st.refused.Load() > 0 && st.refused.Load() == st.attempts.Load(), "commit hook refused %d commits in %d attempts", st.refused.Load(), st.attempts.Load())
		c.Require(st.singleCommit.Load()+st.splitCommit.Load() == st.attempts.Load(), "crash-inside-a-call cases %d+%d do not cover the %d committing calls", st.singleCommit.Load(), st.splitCommit.Load(), st.attempts.Load())
		c.Require(st.resubmitted.Load() > int64(len(ccfgs)), "restart never resubmitted an already recorded round")
		c.Require(c.OutcomeCount("restart:repeat") > 0 && c.OutcomeCount("restart:grow") > 0 && c.OutcomeCount("restart:advance") > 0, "restart classes not reached")
	}
}
