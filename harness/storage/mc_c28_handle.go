//go:build verif

package storage

import (
	sync "github.com/MixinNetwork/mixin/verifmc/vsync"
)

// VerifC28FreshHandle returns a new BadgerStore handle over the same two
// Badger databases: what a restarted process sees (durable state only, every
// in-memory field of the handle empty). Used by the C28 history part (kernel).
func (s *BadgerStore) VerifC28FreshHandle() *BadgerStore {
	return &BadgerStore{custom: s.custom, snapshotsDB: s.snapshotsDB, cacheDB: s.cacheDB, mutex: new(sync.RWMutex)}
}
