//go:build verif

package storage

import (
	"fmt"
	"math/big"
	"sort"
	"strings"
	"time"

	"github.com/MixinNetwork/mixin/common"
	"github.com/MixinNetwork/mixin/config"
	"github.com/MixinNetwork/mixin/crypto"
	"github.com/MixinNetwork/mixin/verifmc/fixc"
)

// mcWallet drives a ledger through the real admission + finalization path
// (Validate -> LockInputs -> WriteTransaction -> WriteSnapshot) with a single
// 1-of-1 account and keeps the *reference ledger* next to it.
type mcWallet struct {
	L    *mcLedger
	Acct common.Address
	Seq  int    // counter that makes external ids / seeds unique and deterministic
	Time uint64 // timestamp of the next snapshot
	// reference model (math/big units)
	RefTotal map[crypto.Hash]*big.Int
	// last finalized withdrawal submit not yet claimed
	LastSubmit *crypto.Hash
	LastFinal  *common.VersionedTransaction
	MintBatch  uint64
	Pledging   *common.VersionedTransaction
	PledgeN    int
	Chain      int
	// an admitted (locked + persisted) but unfinalized spend, and whether a
	// finalization-path takeover of its input has happened
	Pending   *common.VersionedTransaction
	TakenOver bool
}

type mcUTXO struct {
	Hash   crypto.Hash
	Index  uint
	Amount common.Integer
	Asset  crypto.Hash
	Type   uint8
	Lock   crypto.Hash
}

func newMCWallet(l *mcLedger) *mcWallet {
	w := &mcWallet{L: l, Acct: fixc.Addr("wallet"), Time: l.Net.Epoch + uint64(time.Hour), RefTotal: map[crypto.Hash]*big.Int{}, Chain: 1}
	// genesis allocations: n accept outputs + the custodian output
	n := int64(len(l.Net.Signers))
	g := new(big.Int).Mul(big.NewInt(13439*n+100*n), big.NewInt(100000000))
	w.RefTotal[common.XINAssetId] = g
	w.RefTotal[common.BitcoinAssetId] = new(big.Int)
	return w
}

func mcUnits(i common.Integer) *big.Int {
	b, ok := new(big.Int).SetString(strings.Replace(i.String(), ".", "", 1), 10)
	if !ok {
		panic(i.String())
	}
	return b
}

func (w *mcWallet) acct() []*common.Address { a := w.Acct; return []*common.Address{&a} }

// scanUTXOs reads every UTXO record of the snapshot DB.
func (w *mcWallet) scanUTXOs() []*mcUTXO {
	var out []*mcUTXO
	for _, v := range w.L.Store.VerifDump(graphPrefixUTXO) {
		b := mcUnhex(v)
		u, err := common.UnmarshalUTXO(b)
		if err != nil {
			panic(err)
		}
		out = append(out, &mcUTXO{Hash: u.Hash, Index: u.Index, Amount: u.Amount, Asset: u.Asset, Type: u.Type, Lock: u.LockHash})
	}
	sort.Slice(out, func(i, j int) bool {
		if c := out[i].Amount.Cmp(out[j].Amount); c != 0 {
			return c < 0
		}
		if out[i].Hash != out[j].Hash {
			return string(out[i].Hash[:]) < string(out[j].Hash[:])
		}
		return out[i].Index < out[j].Index
	})
	return out
}

func mcUnhex(s string) []byte {
	b := make([]byte, len(s)/2)
	for i := range b {
		fmt.Sscanf(s[2*i:2*i+2], "%02x", &b[i])
	}
	return b
}

// finalizedInputs returns the set "hash:index" of ordinary inputs of all
// finalized transactions.
func (w *mcWallet) finalizedInputs() map[string]bool {
	spent := map[string]bool{}
	for k := range w.L.Store.VerifDump(graphPrefixFinalization) {
		kb := mcUnhex(k)
		var h crypto.Hash
		copy(h[:], kb[len(graphPrefixFinalization):])
		tx, _, err := w.L.Store.ReadTransaction(h)
		if err != nil || tx == nil {
			panic(fmt.Sprint("finalized transaction without body ", h, err))
		}
		for _, in := range tx.Inputs {
			if in.Genesis == nil && in.Deposit == nil && in.Mint == nil {
				spent[fmt.Sprintf("%s:%d", in.Hash, in.Index)] = true
			}
		}
	}
	return spent
}

// spendable returns this wallet's unspent, unlocked script outputs of asset, smallest first.
func (w *mcWallet) spendable(asset crypto.Hash) []*mcUTXO {
	spent := w.finalizedInputs()
	var out []*mcUTXO
	for _, u := range w.scanUTXOs() {
		if u.Asset != asset || u.Type != common.OutputTypeScript || u.Lock.HasValue() || spent[fmt.Sprintf("%s:%d", u.Hash, u.Index)] {
			continue
		}
		keys, err := w.L.Store.ReadUTXOKeys(u.Hash, u.Index)
		if err != nil || len(keys.Keys) != 1 {
			continue
		}
		// ours?
		priv := crypto.DeriveGhostPrivateKey(&keys.Mask, &w.Acct.PrivateViewKey, &w.Acct.PrivateSpendKey, uint64(u.Index))
		if priv.Public() != *keys.Keys[0] {
			continue
		}
		out = append(out, u)
	}
	return out
}

func (w *mcWallet) label(s string) string { w.Seq++; return fmt.Sprintf("%s-%d", s, w.Seq) }

// admit validates tx and, when valid, finalizes it in a one-transaction
// snapshot on the wallet's chain. Returns (validationError, writeError/panic).
func (w *mcWallet) admit(tx *common.VersionedTransaction) (verr error, werr any) {
	ts := w.Time
	verr = tx.Validate(w.L.Store, ts, false)
	if verr != nil {
		return verr, nil
	}
	var err error
	p := verifmcCatch(func() { _, err = w.L.Store.VerifFinalize(w.L.Net.NodeIds[w.Chain], ts, true, tx) })
	w.Time += uint64(time.Second)
	if p != nil {
		return nil, p
	}
	if err != nil {
		return nil, err
	}
	w.LastFinal = tx
	return nil, nil
}

func verifmcCatch(f func()) (p any) {
	defer func() {
		if r := recover(); r != nil {
			p = r
		}
	}()
	f()
	return nil
}

func (w *mcWallet) sign(tx *common.Transaction) *common.VersionedTransaction {
	accs := make([][]*common.Address, len(tx.Inputs))
	for i := range accs {
		accs[i] = w.acct()
	}
	return fixc.SignAll(tx, w.L.Store, accs)
}

// ---- transaction builders (all deterministic) ----

func (w *mcWallet) txDeposit(asset crypto.Hash, amount string) *common.VersionedTransaction {
	id := w.label("ext")
	if asset == common.XINAssetId {
		return w.L.Net.DepositXIN(id, amount, w.acct(), 1)
	}
	return w.L.Net.DepositBTC(id, amount, w.acct(), 1)
}

func mcSub(a common.Integer, b string) (common.Integer, bool) {
	bi := common.NewIntegerFromString(b)
	if a.Cmp(bi) <= 0 {
		return common.Zero, false
	}
	return a.Sub(bi), true
}

func (w *mcWallet) txSplit(asset crypto.Hash) *common.VersionedTransaction {
	us := w.spendable(asset)
	if len(us) == 0 {
		return nil
	}
	u := us[0]
	half := u.Amount.Div(2)
	if half.Sign() <= 0 {
		return nil
	}
	rest := u.Amount.Sub(half)
	tx := fixc.Transfer(asset, []*common.Input{{Hash: u.Hash, Index: u.Index}}, []fixc.Out{{To: w.acct(), T: 1, Amount: half.String()}, {To: w.acct(), T: 1, Amount: rest.String()}}, w.label("split"))
	return w.sign(tx)
}

func (w *mcWallet) txMerge(asset crypto.Hash) *common.VersionedTransaction {
	us := w.spendable(asset)
	if len(us) < 2 {
		return nil
	}
	sum := us[0].Amount.Add(us[1].Amount)
	tx := fixc.Transfer(asset, []*common.Input{{Hash: us[0].Hash, Index: us[0].Index}, {Hash: us[1].Hash, Index: us[1].Index}}, []fixc.Out{{To: w.acct(), T: 1, Amount: sum.String()}}, w.label("merge"))
	return w.sign(tx)
}

// txSubmit builds a withdrawal submit of `amount` (or the whole smallest output when amount=="") .
func (w *mcWallet) txSubmit(asset crypto.Hash, amount string) *common.VersionedTransaction {
	us := w.spendable(asset)
	if len(us) == 0 {
		return nil
	}
	var u *mcUTXO
	var change common.Integer
	hasChange := false
	if amount == "" {
		u = us[0]
		amount = u.Amount.String()
	} else {
		for _, c := range us {
			if r, ok := mcSub(c.Amount, amount); ok {
				u, change, hasChange = c, r, true
				break
			}
		}
		if u == nil {
			return nil
		}
	}
	tx := common.NewTransactionV5(asset)
	tx.AddInput(u.Hash, u.Index)
	tx.Outputs = append(tx.Outputs, &common.Output{Type: common.OutputTypeWithdrawalSubmit, Amount: common.NewIntegerFromString(amount), Withdrawal: &common.WithdrawalData{Address: "bc1-" + w.label("wd"), Tag: ""}})
	if hasChange {
		tx.AddScriptOutput(w.acct(), common.NewThresholdScript(1), change, fixc.Seed64(w.label("chg")))
	}
	return w.sign(tx)
}

func (w *mcWallet) txClaim(submit crypto.Hash) *common.VersionedTransaction {
	fee := common.NewIntegerFromString(config.WithdrawalClaimFee)
	us := w.spendable(common.XINAssetId)
	var u *mcUTXO
	for _, c := range us {
		if c.Amount.Cmp(fee) > 0 {
			u = c
			break
		}
	}
	if u == nil {
		return nil
	}
	tx := common.NewTransactionV5(common.XINAssetId)
	tx.AddInput(u.Hash, u.Index)
	tx.Outputs = append(tx.Outputs, &common.Output{Type: common.OutputTypeWithdrawalClaim, Amount: fee})
	tx.AddScriptOutput(w.acct(), common.NewThresholdScript(1), u.Amount.Sub(fee), fixc.Seed64(w.label("claimchg")))
	tx.References = []crypto.Hash{submit}
	payload := []byte("external-withdrawal-tx-" + submit.String())
	sig := w.L.Net.Custodian.PrivateSpendKey.Sign(crypto.Blake3Hash(payload))
	tx.Extra = append(sig[:], payload...)
	return w.sign(tx)
}

func (w *mcWallet) txMint(batch uint64, amount string) *common.VersionedTransaction {
	tx := common.NewTransactionV5(common.XINAssetId)
	tx.AddUniversalMintInput(batch, common.NewIntegerFromString(amount))
	tx.AddScriptOutput(w.acct(), common.NewThresholdScript(1), common.NewIntegerFromString(amount), fixc.Seed64(w.label("mint")))
	ver := tx.AsVersioned()
	if err := ver.SignRaw(w.L.Net.Signers[0].PrivateSpendKey); err != nil {
		panic(err)
	}
	return ver
}

// txPledge pledges a new node (signer/payee keys by index n) from an exact 13439 XIN output.
func (w *mcWallet) txPledge(n int) *common.VersionedTransaction {
	var u *mcUTXO
	for _, c := range w.spendable(common.XINAssetId) {
		if c.Amount.Cmp(common.KernelNodePledgeAmount) == 0 {
			u = c
			break
		}
	}
	if u == nil {
		return nil
	}
	signer := fixc.NodeAddr(fmt.Sprintf("pledge-signer-%d", n))
	payee := fixc.NodeAddr(fmt.Sprintf("pledge-payee-%d", n))
	tx := common.NewTransactionV5(common.XINAssetId)
	tx.AddInput(u.Hash, u.Index)
	tx.Outputs = append(tx.Outputs, &common.Output{Type: common.OutputTypeNodePledge, Amount: common.KernelNodePledgeAmount})
	tx.Extra = append(signer.PublicSpendKey[:], payee.PublicSpendKey[:]...)
	return w.sign(tx)
}

// txCancel cancels the pending pledge: 1% penalty output + refund to the pledge input's owner.
func (w *mcWallet) txCancel(pledge *common.VersionedTransaction) *common.VersionedTransaction {
	tx := common.NewTransactionV5(common.XINAssetId)
	tx.AddInput(pledge.PayloadHash(), 0)
	penalty := pledge.Outputs[0].Amount.Div(100)
	tx.Outputs = append(tx.Outputs, &common.Output{Type: common.OutputTypeNodeCancel, Amount: penalty})
	tx.AddScriptOutput(w.acct(), common.NewThresholdScript(1), pledge.Outputs[0].Amount.Sub(penalty), fixc.Seed64(w.label("cancel")))
	tx.Extra = append(append([]byte{}, pledge.Extra...), w.Acct.PrivateViewKey[:]...)
	// signed by the one-time key of the pledge's input
	pin := pledge.Inputs[0]
	keys, err := w.L.Store.ReadUTXOKeys(pin.Hash, pin.Index)
	if err != nil {
		panic(err)
	}
	priv := crypto.DeriveGhostPrivateKey(&keys.Mask, &w.Acct.PrivateViewKey, &w.Acct.PrivateSpendKey, uint64(pin.Index))
	ver := tx.AsVersioned()
	sig := priv.Sign(ver.PayloadHash())
	ver.SignaturesMap = []map[uint16]*crypto.Signature{{0: &sig}}
	return ver
}
