//go:build verif

package storage

import (
	"github.com/MixinNetwork/mixin/common"
	"github.com/MixinNetwork/mixin/crypto"
)

// This file is injected through the overlay (tag verif) and only ADDS an
// exported forwarder so that the C18 harness (package kernel) can compare the
// startup validator's unexported round hash with common.ComputeRoundHash and
// CacheRound.asFinal. It is not part of /repo.

// VerifComputeRoundHash forwards to the unexported computeRoundHash used by
// the startup graph validator (badger_validation.go).
func VerifComputeRoundHash(nodeId crypto.Hash, number uint64, snapshots []*common.SnapshotWithTopologicalOrder) (uint64, uint64, crypto.Hash) {
	return computeRoundHash(nodeId, number, snapshots)
}
