//go:build verif

package storage

import (
	"github.com/dgraph-io/badger/v4"
	"github.com/dgraph-io/badger/v4/options"
)

// VerifRenewCache replaces the cache database of an in-memory store by a fresh,
// empty in-memory database (small memtable: cheap to open and to close). The
// C24 harness calls it between cases: deleted queue keys otherwise pile up in
// the memtable and every iterator has to walk over them.
func (s *BadgerStore) VerifRenewCache() error {
	opts := badger.DefaultOptions("").WithInMemory(true)
	opts = opts.WithCompression(options.None).WithBlockCacheSize(0).WithIndexCacheSize(0)
	opts = opts.WithMetricsEnabled(false).WithLoggingLevel(badger.ERROR)
	opts = opts.WithNumCompactors(2).WithMemTableSize(256 << 10).WithNumMemtables(2)
	opts = opts.WithBaseTableSize(256 << 10).WithValueThreshold(8 << 10)
	db, err := badger.Open(opts)
	if err != nil {
		return err
	}
	old := s.cacheDB
	s.cacheDB = db
	return old.Close()
}
