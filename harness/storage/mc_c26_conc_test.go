//go:build verif

package storage

import (
	"errors"
	"fmt"
	"runtime"
	"strings"
	"sync"
	"sync/atomic"
	"testing"
	"time"

	"github.com/MixinNetwork/mixin/common"
	"github.com/MixinNetwork/mixin/crypto"
	"github.com/MixinNetwork/mixin/verifmc"
	"github.com/dgraph-io/badger/v4"
)

// C26, concurrent part (E3). Every chain has its own AggregateMintWork
// goroutine, so WriteRoundWork calls of different proposers overlap. The day
// counters are read-modify-write records shared between proposers (a node's
// signing counter is written by every proposer whose snapshots it signed), and
// exactly-once crediting relies on Badger's conflict detection plus the
// kernel's retry on badger.ErrConflict (Chain.writeRoundWork). Here the calls
// run as threads of the cooperative scheduler; every interleaving of the
// Badger begin/commit points up to the preemption bound is executed on a fresh
// ledger, each thread retrying on ErrConflict like the kernel caller. After
// each execution the counters and offsets are compared with the sequential
// reference of the BFS part (c26Ref: set of credited snapshots per proposer).

type c26cCall struct {
	prop  int // index into the node ids: the proposer whose chain is aggregated
	round uint64
	k     int // prefix of the round's three snapshots
}

type c26cScenario struct {
	name    string
	threads [][]c26cCall
	// day offsets (ns relative to the boundary) of rounds 1 and 2
	r2NextDay bool
}

// node roles: proposers 0,1,2 (P,Q,R); common signers 3,4 (A,B); bystander 5
var c26cRoles = []string{"P", "Q", "R", "A", "B", "Z"}

func c26cScenarios() []c26cScenario {
	return []c26cScenario{
		{name: "P.r1[:3] || Q.r1[:3]", threads: [][]c26cCall{{{0, 1, 3}}, {{1, 1, 3}}}},
		{name: "P.r1[:3] || Q.r1[:3] || R.r1[:2]", threads: [][]c26cCall{{{0, 1, 3}}, {{1, 1, 3}}, {{2, 1, 2}}}},
		{name: "P.r1[:2],P.r1[:3] || Q.r1[:3]", threads: [][]c26cCall{{{0, 1, 2}, {0, 1, 3}}, {{1, 1, 3}}}},
		{name: "P.r1[:3] || P.r1[:3] || Q.r1[:3]", threads: [][]c26cCall{{{0, 1, 3}}, {{0, 1, 3}}, {{1, 1, 3}}}},
		{name: "P.r1[:3],P.r2[:2] || Q.r1[:2],Q.r2[:3] (r2 next day)", r2NextDay: true, threads: [][]c26cCall{{{0, 1, 3}, {0, 2, 2}}, {{1, 1, 2}, {1, 2, 3}}}},
	}
}

// c26cWorks: snapshot j of round r of proposer x. Every snapshot is signed by
// its proposer and by the common signer A; some also by B and by another
// proposer (whose signing counter is then written by a foreign chain while its
// own chain writes its proposal counter).
func c26cWorks(ids []crypto.Hash, sc *c26cScenario, x int, round uint64) []*common.SnapshotWork {
	var out []*common.SnapshotWork
	for j := 0; j < 3; j++ {
		off := -int64(1000-100*int(round)-10*j-x) * c26Sec // same day for all proposers, distinct
		if round == 2 && sc.r2NextDay {
			off = int64(100+10*j+x) * c26Sec
		}
		w := &common.SnapshotWork{
			Hash:      crypto.Blake3Hash([]byte(fmt.Sprintf("verif-c26 concurrent proposer %d round %d index %d", x, round, j))),
			Timestamp: c26Ts(off),
		}
		other := (x + 1) % 2 // P<->Q, R->Q
		switch j {
		case 0:
			w.Signers = []crypto.Hash{ids[x], ids[3]}
		case 1:
			w.Signers = []crypto.Hash{ids[3], ids[x], ids[4]}
		default:
			w.Signers = []crypto.Hash{ids[x], ids[3], ids[other]}
		}
		out = append(out, w)
	}
	return out
}

func c26Concurrent(c *verifmc.Check) {
	prev := badger.VerifHook
	badger.VerifHook = func(kind, dir string, writes int) error {
		verifmc.Point("txn." + kind)
		return nil
	}
	defer func() { badger.VerifHook = prev }()

	light := &c26Pool{c: c} // only for its small-memtable in-memory opener
	scen := c26cScenarios()
	bound := verifmc.Pick(c, 2, 3)
	days := []uint32{c26Day0 - 1, c26Day0, c26Day0 + 1, c26Day0 + 2}
	var mu sync.Mutex
	var execs, several int64
	var conflicts atomic.Int64
	c.ParallelN(len(scen), "C26 concurrent scenarios", func(_, i int) {
		sc := &scen[i]
		ex := &verifmc.Explorer{C: c, Bound: bound, Name: "concurrent:" + sc.name, StepTimeout: 3 * time.Minute}
		ex.Body = func(s *verifmc.Sched, report func(key, desc string)) string {
			l := light.newLedger("")
			defer light.closeStore(l.Store)
			ids := l.Net.NodeIds[:6]
			retries := make([]int, len(sc.threads))
			errs := make([]error, len(sc.threads))
			for ti, calls := range sc.threads {
				ti, calls := ti, calls
				s.Go(fmt.Sprint("t", ti), func() {
					for _, cl := range calls {
						works := c26cWorks(ids, sc, cl.prop, cl.round)[:cl.k]
						// Chain.writeRoundWork: retry on ErrConflict, give up (panic) on anything else
						for {
							err := l.Store.WriteRoundWork(ids[cl.prop], cl.round, works, true)
							if err == nil {
								break
							}
							if errors.Is(err, badger.ErrConflict) && retries[ti] < 32 {
								retries[ti]++
								conflicts.Add(1)
								verifmc.Yield() // the kernel sleeps 100 ms here
								if verifmc.FreeRunning() {
									runtime.Gosched()
								}
								continue
							}
							errs[ti] = err
							return
						}
					}
				})
			}
			for ti, p := range s.RunAll() {
				if p != nil {
					report("concurrent:thread-panic", fmt.Sprintf("scenario %q thread %d: %v", sc.name, ti, p))
				}
			}
			if s.Deadlock {
				report("concurrent:deadlock", strings.Join(s.Trace, " "))
				return "deadlock"
			}
			for ti, err := range errs {
				if err != nil {
					report("concurrent:resubmission-failed", fmt.Sprintf("scenario %q thread %d: WriteRoundWork failed after %d conflict retries: %v", sc.name, ti, retries[ti], err))
				}
			}
			// sequential reference: per proposer the calls in thread order (threads of
			// one proposer submit the same set, so their order does not matter)
			refs := map[int]*c26Ref{}
			for _, calls := range sc.threads {
				for _, cl := range calls {
					if refs[cl.prop] == nil {
						refs[cl.prop] = c26NewRef()
					}
					refs[cl.prop].apply(cl.round, c26cWorks(ids, sc, cl.prop, cl.round)[:cl.k], true)
				}
			}
			exp := map[uint32]map[crypto.Hash][2]uint64{}
			for x, r := range refs {
				r.expectInto(exp, ids[x])
			}
			bad := 0
			for _, day := range days {
				got, err := l.Store.ListNodeWorks(ids, day)
				if err != nil {
					report("concurrent:list-error", err.Error())
					return "list-error"
				}
				for n, id := range ids {
					want, g := exp[day][id], got[id]
					for k, kind := range []string{"proposal", "signing"} {
						if g[k] == want[k] {
							continue
						}
						bad++
						dir := "overcount"
						if g[k] < want[k] {
							dir = "undercount"
						}
						report(fmt.Sprintf("concurrent:%s-%s", kind, dir), fmt.Sprintf("scenario %q (conflict retries %v): node %s has %d %s credits on day %d, every submitted snapshot counted once gives %d",
							sc.name, retries, c26cRoles[n], g[k], kind, day, want[k]))
					}
				}
			}
			for x, r := range refs {
				off, err := l.Store.ReadWorkOffset(ids[x])
				if err != nil || off != r.Off {
					bad++
					dir := "behind"
					if off > r.Off {
						dir = "ahead"
					}
					report("concurrent:offset-"+dir, fmt.Sprintf("scenario %q: work offset of %s is %d (%v), sequential reference %d", sc.name, c26cRoles[x], off, err, r.Off))
				}
			}
			if bad > 0 {
				return fmt.Sprintf("conflict-retries=%v mismatch", retries)
			}
			return fmt.Sprintf("conflict-retries=%v exactly-once", retries)
		}
		ex.Run()
		mu.Lock()
		execs += ex.Executions
		if len(ex.Outcomes) >= 2 {
			several++
		}
		mu.Unlock()
	})
	c.Set("concurrent_scenarios", len(scen))
	c.Set("concurrent_executions", execs)
	c.Set("concurrent_conflict_retries", conflicts.Load())
	c.Set("preemption_bound", bound)
	c.Set("scenarios_with_several_outcomes", several)
	if !verifmc.FreeRunning() && c.Violations() == 0 && !c.Expired("concurrent part") {
		c.Require(execs >= 100, "vacuous concurrent part: %d executions", execs)
		// overlapping calls on a shared signer must have been produced: the
		// unchanged code answers them with ErrConflict + retry
		c.Require(conflicts.Load() > 0 && several == int64(len(scen)), "concurrent part never overlapped two calls on a shared counter: %d conflict retries, %d/%d scenarios with several outcomes", conflicts.Load(), several, len(scen))
	}
}

// TestMCRace_C26 is the separate free-running pass (go test -race) over the
// bodies of the concurrent scenarios.
func TestMCRace_C26(t *testing.T) {
	c := verifmc.Start(t, "C26", "model_checking")
	defer c.Finish()
	c26Concurrent(c)
	verifmc.RacePassDone("C26")
}
