//go:build verif

package storage

import (
	"encoding/binary"
	"errors"
	"fmt"
	"sort"
	"strings"
	"sync"
	"testing"
	"time"

	"github.com/MixinNetwork/mixin/common"
	"github.com/MixinNetwork/mixin/crypto"
	"github.com/MixinNetwork/mixin/verifmc"
	"github.com/MixinNetwork/mixin/verifmc/fixc"
	"github.com/dgraph-io/badger/v4"
)

// C28, concurrent part (E3). The kernel part (harness/kernel/mc_c28_test.go)
// covers every sequential history of offers. The durable chain is written by
// BadgerStore.WriteConsensusSnapshot, which every chain goroutine of the kernel
// reaches on its own (validate(finalized) -> AddSnapshot -> reloadConsensusState
// has no lock around it). Here two or three different consensus operations
// (mint, node pledge, custodian update) that all reference the SAME recorded
// head with later timestamps are finalized on different chains, and their
// recordings run as threads; every interleaving up to the preemption bound at
// the store mutex and the Badger begin / commit points is executed on a fresh
// ledger. After each execution the CONSENSUSSNAPSHOT records are walked with the
// store's read functions: they must be one linked list from genesis.

type c28cCall struct {
	name string
	tx   *common.VersionedTransaction
	topo *common.SnapshotWithTopologicalOrder
	run  func() error
	err  error
	pv   any
	ran  bool
}

func (cl *c28cCall) ok() bool { return cl.ran && cl.err == nil && cl.pv == nil }

func (cl *c28cCall) result() string {
	switch {
	case !cl.ran:
		return "not-run"
	case cl.pv != nil:
		return "panic"
	case cl.err == nil:
		return "ok"
	case errors.Is(cl.err, badger.ErrConflict):
		return "conflict"
	}
	return "error"
}

type c28cEnv struct {
	w     *mcWallet
	head  *common.Snapshot // the recorded head every competitor references
	base  uint64
	order uint64
	n     int
}

func c28cNewEnv() *c28cEnv {
	w := newMCWallet(newMCLedger(""))
	e := &c28cEnv{w: w}
	// funding: one exact pledge amount, one custodian update fee
	for _, amt := range []string{"13439", "10"} {
		if verr, werr := w.admit(w.txDeposit(common.XINAssetId, amt)); verr != nil || werr != nil {
			panic(fmt.Sprintf("c28 funding %s: %v %v", amt, verr, werr))
		}
	}
	head, err := w.L.Store.ReadLastConsensusSnapshot()
	if err != nil || head == nil || len(head.Transactions) != 1 {
		panic(fmt.Sprintf("c28 genesis head: %v %v", head, err))
	}
	e.head = head
	e.base = w.Time + uint64(time.Minute)
	e.order = w.L.Store.VerifNextTopology()
	return e
}

func (e *c28cEnv) utxo(amount string) *mcUTXO {
	want := common.NewIntegerFromString(amount)
	for _, u := range e.w.spendable(common.XINAssetId) {
		if u.Amount.Cmp(want) == 0 {
			return u
		}
	}
	panic("c28: no funding output of " + amount)
}

// build makes a consensus-class transaction referencing ref.
func (e *c28cEnv) build(class string, ref crypto.Hash) *common.VersionedTransaction {
	w := e.w
	switch class {
	case "mint", "mint2":
		batch := uint64(1707)
		if class == "mint2" {
			batch = 1708
		}
		tx := common.NewTransactionV5(common.XINAssetId)
		tx.AddUniversalMintInput(batch, common.NewIntegerFromString("500"))
		tx.AddScriptOutput(w.acct(), common.NewThresholdScript(1), common.NewIntegerFromString("500"), fixc.Seed64("c28c-"+class))
		tx.References = []crypto.Hash{ref}
		ver := tx.AsVersioned()
		if err := ver.SignRaw(w.L.Net.Signers[0].PrivateSpendKey); err != nil {
			panic(err)
		}
		return ver
	case "pledge":
		u := e.utxo("13439")
		signer, payee := fixc.NodeAddr("c28c-pledge-signer"), fixc.NodeAddr("c28c-pledge-payee")
		tx := common.NewTransactionV5(common.XINAssetId)
		tx.AddInput(u.Hash, u.Index)
		tx.Outputs = append(tx.Outputs, &common.Output{Type: common.OutputTypeNodePledge, Amount: common.KernelNodePledgeAmount})
		tx.Extra = append(append([]byte{}, signer.PublicSpendKey[:]...), payee.PublicSpendKey[:]...)
		tx.References = []crypto.Hash{ref}
		return w.sign(tx)
	case "custodian":
		u := e.utxo("10")
		nc := fixc.Addr("txg-new-custodian")
		tx := common.NewTransactionV5(common.XINAssetId)
		tx.AddInput(u.Hash, u.Index)
		tx.AddOutputWithType(common.OutputTypeCustodianUpdateNodes, []*common.Address{&nc}, common.NewThresholdScript(64), common.NewIntegerFromString("10"), fixc.Seed64("c28c-custodian"))
		tx.Extra = txgCustodianExtra(w.L.Net)
		tx.References = []crypto.Hash{ref}
		return w.sign(tx)
	}
	panic("c28: class " + class)
}

const (
	c28cRecordOnly = iota // snapshot finalized up front, the thread records it
	c28cFinalize          // the thread writes the snapshot and then records it (TopoWrite + reloadConsensusState)
	c28cRetry             // as RecordOnly, retried on ErrConflict after a scheduling point
)

// op prepares one competitor on its own chain.
func (e *c28cEnv) op(class string, ref crypto.Hash, mode int) *c28cCall {
	store := e.w.L.Store
	tx := e.build(class, ref)
	e.n++
	node := e.w.L.Net.NodeIds[1+e.n]
	topo, err := store.VerifPrepare(node, e.base+uint64(e.n), e.order, true, tx)
	if err != nil {
		panic(fmt.Sprintf("c28 prepare %s: %v", class, err))
	}
	e.order++
	cl := &c28cCall{name: class, tx: tx, topo: topo}
	record := func() error { return store.WriteConsensusSnapshot(topo.Snapshot, tx, nil) }
	switch mode {
	case c28cRecordOnly:
		if err := store.WriteSnapshot(topo, []crypto.Hash{node}); err != nil {
			panic(fmt.Sprintf("c28 finalize %s: %v", class, err))
		}
		cl.run = record
	case c28cFinalize:
		cl.run = func() error {
			if err := store.WriteSnapshot(topo, []crypto.Hash{node}); err != nil {
				return fmt.Errorf("WriteSnapshot: %w", err)
			}
			return record()
		}
	case c28cRetry:
		if err := store.WriteSnapshot(topo, []crypto.Hash{node}); err != nil {
			panic(fmt.Sprintf("c28 finalize %s: %v", class, err))
		}
		cl.run = func() error {
			var err error
			for i := 0; i < 3; i++ {
				err = record()
				if !errors.Is(err, badger.ErrConflict) {
					return err
				}
				verifmc.Yield()
			}
			return err
		}
	}
	return cl
}

type c28cScenario struct {
	name  string
	build func(e *c28cEnv) [][]*c28cCall
}

func c28cScenarios() []c28cScenario {
	g := func(e *c28cEnv) crypto.Hash { return e.head.Transactions[0] }
	return []c28cScenario{
		{"record(mint->G) || record(pledge->G)", func(e *c28cEnv) [][]*c28cCall {
			return [][]*c28cCall{{e.op("mint", g(e), c28cRecordOnly)}, {e.op("pledge", g(e), c28cRecordOnly)}}
		}},
		{"record(mint->G) || record(pledge->G) || record(custodian->G)", func(e *c28cEnv) [][]*c28cCall {
			return [][]*c28cCall{{e.op("mint", g(e), c28cRecordOnly)}, {e.op("pledge", g(e), c28cRecordOnly)}, {e.op("custodian", g(e), c28cRecordOnly)}}
		}},
		{"finalize+record(custodian->G) || finalize+record(mint->G)", func(e *c28cEnv) [][]*c28cCall {
			return [][]*c28cCall{{e.op("custodian", g(e), c28cFinalize)}, {e.op("mint", g(e), c28cFinalize)}}
		}},
		{"retry-on-conflict: record(pledge->G) || record(custodian->G)", func(e *c28cEnv) [][]*c28cCall {
			return [][]*c28cCall{{e.op("pledge", g(e), c28cRetry)}, {e.op("custodian", g(e), c28cRetry)}}
		}},
		{"record(mint->G); record(mint2->mint) || record(pledge->G)", func(e *c28cEnv) [][]*c28cCall {
			a := e.op("mint", g(e), c28cRecordOnly)
			a2 := e.op("mint2", a.tx.PayloadHash(), c28cRecordOnly)
			return [][]*c28cCall{{a, a2}, {e.op("pledge", g(e), c28cRecordOnly)}}
		}},
	}
}

type c28cRec struct {
	ts   uint64
	snap crypto.Hash
	tx   crypto.Hash
	next []byte
	body *common.VersionedTransaction
}

// c28cCheck walks the recorded consensus history and compares it with the
// results of the calls. Returns a rendering of the chain.
func c28cCheck(e *c28cEnv, sc string, calls []*c28cCall, report func(key, desc string)) string {
	store := e.w.L.Store
	pl := len(graphPrefixConsensusSnapshot)
	dump := store.VerifDump(graphPrefixConsensusSnapshot)
	var recs []*c28cRec
	byTx := map[crypto.Hash]*c28cRec{}
	names := map[crypto.Hash]string{e.head.Transactions[0]: "G"}
	for _, cl := range calls {
		names[cl.tx.PayloadHash()] = cl.name
	}
	for _, k := range verifmc.SortedKeys(dump) {
		kb := mcUnhex(k)
		r := &c28cRec{ts: binary.BigEndian.Uint64(kb[pl : pl+8]), next: mcUnhex(dump[k])}
		copy(r.snap[:], kb[pl+8:])
		sn, err := store.ReadSnapshot(r.snap)
		if err != nil || sn == nil || len(sn.Transactions) != 1 || sn.Timestamp != r.ts {
			report("concurrent:record-dangling", fmt.Sprintf("scenario %q: consensus record %s@%d names no one-transaction snapshot of that time (%v %v)", sc, r.snap, r.ts, sn, err))
			return "dangling"
		}
		r.tx = sn.Transactions[0]
		r.body, _, err = store.ReadTransaction(r.tx)
		if err != nil || r.body == nil {
			report("concurrent:record-dangling", fmt.Sprintf("scenario %q: consensus record %s has no transaction body: %v", sc, r.snap, err))
			return "dangling"
		}
		recs = append(recs, r)
		byTx[r.tx] = r
	}
	show := func() string {
		var out []string
		for _, r := range recs {
			nx := "-"
			if len(r.next) == 32 {
				var h crypto.Hash
				copy(h[:], r.next)
				nx = names[h]
				if nx == "" {
					nx = h.String()[:8]
				}
			} else if len(r.next) != 0 {
				nx = fmt.Sprintf("%x", r.next)
			}
			out = append(out, fmt.Sprintf("%s->%s", names[r.tx], nx))
		}
		return strings.Join(out, " ")
	}
	var results []string
	for _, cl := range calls {
		results = append(results, cl.name+"="+cl.result())
	}
	ctx := fmt.Sprintf("scenario %q, calls [%s], records [%s]", sc, strings.Join(results, " "), show())

	// writers of the same predecessor
	okByPred := map[crypto.Hash][]string{}
	for _, cl := range calls {
		_, recorded := byTx[cl.tx.PayloadHash()]
		if cl.ok() {
			okByPred[cl.tx.References[0]] = append(okByPred[cl.tx.References[0]], cl.name)
			if !recorded {
				report("concurrent:successful-writer-not-recorded", ctx+": "+cl.name+" returned success but has no record")
			}
		} else if recorded && cl.ran {
			report("concurrent:failed-writer-recorded", ctx+": "+cl.name+" failed ("+cl.result()+") but is recorded")
		}
	}
	for pred, ws := range okByPred {
		if len(ws) > 1 {
			report("concurrent:two-writers-same-predecessor-both-committed", fmt.Sprintf("%s: %v all reference %s and all were recorded successfully", ctx, ws, names[pred]))
		}
	}

	// one linked list from genesis
	var genesis *c28cRec
	heads, pointed := 0, map[crypto.Hash]int{}
	for _, r := range recs {
		if len(r.body.Inputs) == 1 && r.body.Inputs[0].Genesis != nil {
			genesis = r
		}
		if len(r.next) == 0 {
			heads++
			continue
		}
		var h crypto.Hash
		copy(h[:], r.next)
		if len(r.next) != 32 || byTx[h] == nil {
			report("concurrent:record-dangling", ctx+": a record points at an operation that has no record")
			return show()
		}
		pointed[h]++
		if refs := byTx[h].body.References; len(refs) == 0 || refs[0] != r.tx {
			report("concurrent:predecessor-link-inconsistent", fmt.Sprintf("%s: %s is the successor of %s but references %v", ctx, names[h], names[r.tx], byTx[h].body.References))
		}
	}
	if genesis == nil {
		report("concurrent:record-dangling", ctx+": the genesis record is gone")
		return show()
	}
	forked := heads != 1
	for _, r := range recs {
		if r != genesis && pointed[r.tx] != 1 {
			forked = true
		}
	}
	if pointed[genesis.tx] != 0 {
		forked = true
	}
	var list []*c28cRec
	for r := genesis; r != nil && len(list) <= len(recs); {
		list = append(list, r)
		if len(r.next) == 0 {
			break
		}
		var h crypto.Hash
		copy(h[:], r.next)
		r = byTx[h]
	}
	if len(list) != len(recs) {
		forked = true
	}
	if forked {
		report("concurrent:chain-forked", fmt.Sprintf("%s: %d open heads, %d of %d records reachable from genesis", ctx, heads, len(list), len(recs)))
		return show()
	}
	for i := 0; i+1 < len(list); i++ {
		if list[i].ts >= list[i+1].ts {
			report("concurrent:timestamp-order", ctx+": timestamps do not increase along the chain")
		}
	}
	var last *common.Snapshot
	var err error
	p := verifmc.Catch(func() { last, err = store.ReadLastConsensusSnapshot() })
	tail := list[len(list)-1]
	if p != nil || err != nil || last == nil || last.PayloadHash() != tail.snap {
		report("concurrent:last-is-not-the-tail", fmt.Sprintf("%s: ReadLastConsensusSnapshot returns %v (%v %v), the chain ends at %s", ctx, last, err, p, names[tail.tx]))
	}
	var order []string
	for _, r := range list {
		order = append(order, names[r.tx])
	}
	return strings.Join(order, ">")
}

func c28cConcurrent(c *verifmc.Check) {
	badger.VerifHook = func(kind, dir string, writes int) error {
		verifmc.Point("txn." + kind)
		return nil
	}
	defer func() { badger.VerifHook = nil }()
	scen := c28cScenarios()
	bound := verifmc.Pick(c, 2, 3)
	var mu sync.Mutex
	var execs, okCalls, loudCalls int64
	several := 0
	c.ParallelN(len(scen), "C28 concurrent scenarios", func(_, i int) {
		sc := scen[i]
		ex := &verifmc.Explorer{C: c, Bound: bound, Name: "concurrent:" + sc.name}
		ex.Body = func(s *verifmc.Sched, report func(key, desc string)) string {
			e := c28cNewEnv()
			defer e.w.L.Close()
			threads := sc.build(e)
			var all []*c28cCall
			for ti, calls := range threads {
				mine := calls
				all = append(all, calls...)
				s.Go(fmt.Sprint("t", ti), func() {
					for _, cl := range mine {
						cl.ran = true
						cl.pv = verifmc.Catch(func() { cl.err = cl.run() })
					}
				})
			}
			for ti, p := range s.RunAll() {
				if p != nil {
					report("concurrent:thread-panic", fmt.Sprintf("scenario %q thread %d: %v", sc.name, ti, p))
				}
			}
			if s.Deadlock {
				report("concurrent:deadlock", strings.Join(s.Trace, " "))
				return "deadlock"
			}
			var pat []string
			var nok, nloud int64
			for _, cl := range all {
				pat = append(pat, cl.name+"="+cl.result())
				if cl.ok() {
					nok++
				} else {
					nloud++
				}
			}
			sort.Strings(pat)
			var chain string
			if pv := verifmc.Catch(func() { chain = c28cCheck(e, sc.name, all, report) }); pv != nil {
				report("concurrent:records-unreadable", fmt.Sprintf("scenario %q after [%s]: walking the records panics: %v", sc.name, strings.Join(pat, " "), pv))
				chain = "unreadable"
			}
			mu.Lock()
			okCalls += nok
			loudCalls += nloud
			mu.Unlock()
			return strings.Join(pat, " ") + " => " + chain
		}
		ex.Run()
		mu.Lock()
		execs += ex.Executions
		if len(ex.Outcomes) >= 2 {
			several++
		}
		mu.Unlock()
	})
	c.Set("concurrent_scenarios", len(scen))
	c.Set("concurrent_executions", execs)
	c.Set("preemption_bound", bound)
	c.Set("scenarios_with_several_outcomes", several)
	c.Set("concurrent_successful_recordings", okCalls)
	c.Set("concurrent_refused_recordings", loudCalls)
	if verifmc.FreeRunning() || c.Violations() > 0 || c.Expired("C28 concurrent guards") {
		return
	}
	c.Require(execs >= 20 && several == len(scen), "vacuous concurrent part: %d executions, %d of %d scenarios with several outcomes", execs, several, len(scen))
	c.Require(okCalls > 0 && loudCalls > 0, "vacuous concurrent part: %d successful and %d refused recordings", okCalls, loudCalls)
}

func c28cStart(t *testing.T) *verifmc.Check {
	c := verifmc.Start(t, "C28", "model_checking")
	c.SetRule("concurrent part: 5 scenarios of 2..3 threads, each recording (BadgerStore.WriteConsensusSnapshot; one scenario WriteSnapshot + WriteConsensusSnapshot, one with retry on ErrConflict, one with a two-operation thread) different consensus operations (mint, node pledge, custodian update) that reference the same recorded head with later timestamps; every interleaving up to the preemption bound at the store mutex and the Badger transaction begin / commit points, fresh ledger per execution; a case is distinct by (scenario, call results, resulting chain)")
	c.Assume("code between two scheduling points (store mutex, Badger begin / commit) is atomic with respect to the other threads (discharged by the free-running -race pass); Badger's SSI conflict detection is the real one")
	return c
}

// TestMC_C28 (package storage) is the concurrent part of C28; the sequential
// parts are TestMC_C28 of package kernel.
func TestMC_C28(t *testing.T) {
	c := c28cStart(t)
	defer c.Finish()
	c28cConcurrent(c)
}

// TestMCRace_C28 is the separate free-running pass (go test -race) over the
// bodies of the concurrent scenarios.
func TestMCRace_C28(t *testing.T) {
	c := c28cStart(t)
	defer c.Finish()
	c28cConcurrent(c)
	verifmc.RacePassDone("C28")
}
