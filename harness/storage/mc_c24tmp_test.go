//go:build verif

package storage

import (
	"syscall"
	"testing"
	"time"
)

func c24cpu() time.Duration {
	var ru syscall.Rusage
	syscall.Getrusage(syscall.RUSAGE_SELF, &ru)
	return time.Duration(ru.Utime.Nano() + ru.Stime.Nano())
}

func TestC24Tmp(t *testing.T) {
	l := newMCLedger("")
	defer l.Close()
	t0, c0 := time.Now(), c24cpu()
	for i := 0; i < 200; i++ {
		if err := l.Store.VerifRenewCache(); err != nil {
			t.Fatal(err)
		}
	}
	t.Logf("renew: wall %v cpu %v each", time.Since(t0)/200, (c24cpu()-c0)/200)
}
