//go:build verif

package storage

import (
	"fmt"
	"reflect"
	"sort"
	"strings"
	"sync"
	"testing"

	"github.com/MixinNetwork/mixin/common"
	"github.com/MixinNetwork/mixin/crypto"
	"github.com/MixinNetwork/mixin/verifmc"
	"github.com/MixinNetwork/mixin/verifmc/fixc"
	"github.com/dgraph-io/badger/v4"
)

// C04 — a one-time output key is bound to at most one transaction.
// BFS over histories of Validate / LockGhostKeys / finalization with
// overlapping output key sets, plus all interleavings (bounded) of concurrent
// reservations; reference = map key -> first owner.

var c04Exceptions = []string{
	"c63b6373652def5999c1d951fcb8f064db67b7d18565847b921b21639e15dddd",
	"60deaf2471bb0b6481efe9080d8852b020ab2941e7faae21989d2404f34284ee",
	"a558b1efbe27eb6a6f902fd97d4b7e2e3099e6edde1fe6e8e41204e0685fe426",
}

type c04Tx struct {
	name string
	ver  *common.VersionedTransaction
	hash crypto.Hash
	keys []int // indexes into the key pool, in output order (may repeat)
}

type c04Fix struct {
	w          *mcWallet
	txs        []*c04Tx
	pool       []*crypto.Key
	mask       crypto.Key
	competitor *common.VersionedTransaction
}

func c04Setup() *c04Fix {
	l := newMCLedger("")
	w := newMCWallet(l)
	f := &c04Fix{w: w}
	// key pool k0..k2: real one-time keys (valid points) sharing one mask
	r := fixc.Key("c04-mask")
	f.mask = r.Public()
	for i := 0; i < 3; i++ {
		k := crypto.DeriveGhostPublicKey(&r, &w.Acct.PublicViewKey, &w.Acct.PublicSpendKey, uint64(i))
		f.pool = append(f.pool, k)
	}
	sets := []struct {
		name string
		keys []int
	}{{"A", []int{0}}, {"B", []int{0, 1}}, {"C", []int{1, 1}}, {"D", []int{2}}, {"E", []int{1}}}
	for i, s := range sets {
		dep := l.Net.DepositBTC(fmt.Sprintf("c04-fund-%d", i), "10", w.acct(), 1)
		if v, e := w.admit(dep); v != nil || e != nil {
			panic(fmt.Sprint(v, e))
		}
		tx := common.NewTransactionV5(common.BitcoinAssetId)
		tx.AddInput(dep.PayloadHash(), 0)
		var ks []*crypto.Key
		for _, ki := range s.keys {
			ks = append(ks, f.pool[ki])
		}
		tx.Outputs = append(tx.Outputs, &common.Output{Type: common.OutputTypeScript, Amount: common.NewIntegerFromString("10"), Keys: ks, Mask: f.mask, Script: common.NewThresholdScript(1)})
		ver := w.sign(tx)
		// as delivered by a peer or client: decoded from the wire, so equal key
		// values sit behind distinct pointers
		dec, err := common.UnmarshalVersionedTransaction(ver.Marshal())
		if err != nil {
			panic(err)
		}
		ver = dec
		f.txs = append(f.txs, &c04Tx{name: s.name, ver: ver, hash: ver.PayloadHash(), keys: s.keys})
	}
	// W: a withdrawal submission whose CHANGE output is keyed k1 — the one
	// transaction type whose validation takes its own return path; its change
	// keys must be reserved like any other output key
	{
		dep := l.Net.DepositBTC("c04-fund-w", "10", w.acct(), 1)
		if v, e := w.admit(dep); v != nil || e != nil {
			panic(fmt.Sprint(v, e))
		}
		tx := common.NewTransactionV5(common.BitcoinAssetId)
		tx.AddInput(dep.PayloadHash(), 0)
		tx.Outputs = append(tx.Outputs, &common.Output{Type: common.OutputTypeWithdrawalSubmit, Amount: common.NewIntegerFromString("1"), Withdrawal: &common.WithdrawalData{Address: "bc1-c04", Tag: ""}})
		tx.Outputs = append(tx.Outputs, &common.Output{Type: common.OutputTypeScript, Amount: common.NewIntegerFromString("9"), Keys: []*crypto.Key{f.pool[1]}, Mask: f.mask, Script: common.NewThresholdScript(1)})
		dec, err := common.UnmarshalVersionedTransaction(w.sign(tx).Marshal())
		if err != nil {
			panic(err)
		}
		f.txs = append(f.txs, &c04Tx{name: "W", ver: dec, hash: dec.PayloadHash(), keys: []int{1}})
	}
	// X: a competitor of A's input (spends the same output, pays to k2); used only
	// for the finalization-path takeover of A's input (fork lock), which prunes
	// A's stored body but must leave A's key bindings alone
	{
		a := f.txs[0]
		if a.name != "A" {
			panic("A is not first")
		}
		tx := common.NewTransactionV5(common.BitcoinAssetId)
		tx.AddInput(a.ver.Inputs[0].Hash, a.ver.Inputs[0].Index)
		tx.Outputs = append(tx.Outputs, &common.Output{Type: common.OutputTypeScript, Amount: common.NewIntegerFromString("10"), Keys: []*crypto.Key{f.pool[2]}, Mask: f.mask, Script: common.NewThresholdScript(1)})
		f.competitor = w.sign(tx)
	}
	// R: a node-remove transaction (keyed 0xa6 output, spends genesis node 6's
	// accept output) whose output key is k0 — the non-script keyed output type
	{
		_, _, gtxs, err := l.Net.Genesis.BuildSnapshots()
		if err != nil {
			panic(err)
		}
		accept := gtxs[6]
		tx := common.NewTransactionV5(common.XINAssetId)
		tx.AddInput(accept.PayloadHash(), 0)
		tx.Outputs = append(tx.Outputs, &common.Output{Type: common.OutputTypeNodeRemove, Amount: common.KernelNodePledgeAmount, Keys: []*crypto.Key{f.pool[0]}, Mask: f.mask, Script: common.NewThresholdScript(1)})
		tx.Extra = append([]byte{}, accept.Extra...)
		ver := tx.AsVersioned()
		dec, err := common.UnmarshalVersionedTransaction(ver.Marshal())
		if err != nil {
			panic(err)
		}
		f.txs = append(f.txs, &c04Tx{name: "R", ver: dec, hash: dec.PayloadHash(), keys: []int{0}})
	}
	return f
}

type c04Model struct {
	owner map[int]string
	final map[string]bool
}

func (m *c04Model) clone() *c04Model {
	n := &c04Model{owner: map[int]string{}, final: map[string]bool{}}
	for k, v := range m.owner {
		n.owner[k] = v
	}
	for k, v := range m.final {
		n.final[k] = v
	}
	return n
}

func (m *c04Model) key() string {
	var p []string
	for i := 0; i < 3; i++ {
		p = append(p, fmt.Sprintf("k%d=%s", i, m.owner[i]))
	}
	return strings.Join(p, " ") + " final:" + strings.Join(verifmc.SortedKeys(m.final), "")
}

// reserve all keys of tx or none
func (m *c04Model) reserve(tx *c04Tx) bool {
	for _, k := range tx.keys {
		if o := m.owner[k]; o != "" && o != tx.name {
			return false
		}
	}
	for _, k := range tx.keys {
		m.owner[k] = tx.name
	}
	return true
}

func c04Repeats(tx *c04Tx) bool {
	seen := map[int]bool{}
	for _, k := range tx.keys {
		if seen[k] {
			return true
		}
		seen[k] = true
	}
	return false
}

const (
	c04Validate = iota
	c04LockNF
	c04LockFork
	c04Finalize
	c04NOps
)

var c04OpNames = []string{"validate", "lockghost", "lockghost-fork", "finalize"}

// c04Step: model transition; returns (enabled, expectOK).
func c04Step(m *c04Model, tx *c04Tx, op int) (bool, bool) {
	switch op {
	case c04Validate:
		if m.final[tx.name] {
			// still fine to validate a finalized transaction's body again, but the
			// input is then spent by itself: keep the alphabet simple
			return false, false
		}
		if c04Repeats(tx) {
			return true, false
		}
		return true, m.reserve(tx)
	case c04LockNF, c04LockFork:
		if c04Repeats(tx) {
			return true, false // LockGhostKeys refuses duplicates in one call
		}
		return true, m.reserve(tx)
	case c04Finalize:
		if m.final[tx.name] {
			return false, false
		}
		if !m.reserve(tx) {
			return true, false
		}
		m.final[tx.name] = true
		return true, true
	}
	return false, false
}

func (f *c04Fix) keysOf(tx *c04Tx) []*crypto.Key {
	var ks []*crypto.Key
	for _, k := range tx.keys {
		kc := *f.pool[k] // a copy: callers hand over freshly decoded keys, never shared pointers
		ks = append(ks, &kc)
	}
	return ks
}

// do executes on the real store. For finalize, dumpUnchanged reports whether a
// failed WriteSnapshot left the database byte-identical.
func (f *c04Fix) do(tx *c04Tx, op int) (ok bool, detail string, dumpUnchanged bool) {
	st := f.w.L.Store
	dumpUnchanged = true
	var err error
	p := verifmc.Catch(func() {
		switch op {
		case c04Validate:
			err = tx.ver.Validate(st, f.w.Time, false)
		case c04LockNF:
			err = st.LockGhostKeys(f.keysOf(tx), tx.hash, false)
		case c04LockFork:
			err = st.LockGhostKeys(f.keysOf(tx), tx.hash, true)
		case c04Finalize:
			if err = tx.ver.LockInputs(st, true); err != nil {
				panic("driver: lock inputs: " + err.Error())
			}
			if err = st.WriteTransaction(tx.ver); err != nil {
				panic("driver: write body: " + err.Error())
			}
			before := st.VerifDump("")
			f.w.Time += 1e9
			_, err = st.VerifFinalize(f.w.L.Net.NodeIds[2], f.w.Time, false, tx.ver)
			if err != nil {
				dumpUnchanged = reflect.DeepEqual(before, st.VerifDump(""))
			}
		}
	})
	if p != nil {
		return false, fmt.Sprint("panic: ", p), dumpUnchanged
	}
	if err != nil {
		return false, err.Error(), dumpUnchanged
	}
	return true, "", dumpUnchanged
}

func (f *c04Fix) observe(m *c04Model) *c04Model {
	o := &c04Model{owner: map[int]string{}, final: map[string]bool{}}
	byHash := map[crypto.Hash]string{}
	for _, tx := range f.txs {
		byHash[tx.hash] = tx.name
	}
	for i, k := range f.pool {
		h, err := f.w.L.Store.ReadGhostKeyLock(*k)
		if err != nil {
			panic(err)
		}
		if h != nil {
			n, ok := byHash[*h]
			if !ok {
				n = "?" + h.String()[:8]
			}
			o.owner[i] = n
		}
	}
	for _, tx := range f.txs {
		_, snap, err := f.w.L.Store.ReadTransaction(tx.hash)
		if err != nil {
			panic(err)
		}
		if snap != "" {
			o.final[tx.name] = true
		}
	}
	return o
}

type c04State struct {
	f        *c04Fix
	m        *c04Model
	admitted bool // A was admitted (locked + body persisted, not finalized)
	taken    bool // A's input was taken over by the competitor
}

type c04Call struct {
	tx  string
	op  int
	ok  bool
	det string
}

func c04Linearizable(f *c04Fix, threads [][]*c04Call, final *c04Model) bool {
	idx := make([]int, len(threads))
	var rec func(m *c04Model) bool
	rec = func(m *c04Model) bool {
		done := true
		for t := range threads {
			if idx[t] >= len(threads[t]) {
				continue
			}
			done = false
			call := threads[t][idx[t]]
			var tx *c04Tx
			for _, x := range f.txs {
				if x.name == call.tx {
					tx = x
				}
			}
			n := m.clone()
			en, ok := c04Step(n, tx, call.op)
			if !en {
				continue
			}
			if ok == call.ok {
				idx[t]++
				r := rec(n)
				idx[t]--
				if r {
					return true
				}
			}
		}
		if done {
			return m.key() == final.key()
		}
		return false
	}
	return rec(&c04Model{owner: map[int]string{}, final: map[string]bool{}})
}

func TestMC_C04(t *testing.T) { c04Main(t) }

// TestMCRace_C04 is the separate free-running pass (go test -race) over the
// bodies of the concurrent scenarios.
func TestMCRace_C04(t *testing.T) {
	c04Main(t)
	verifmc.RacePassDone("C04")
}

func c04Main(t *testing.T) {
	c := verifmc.Start(t, "C04", "model_checking")
	defer c.Finish()
	c.SetRule("BFS over all histories of {Validate, LockGhostKeys(nofork), LockGhostKeys(fork), finalize} x 7 wire-decoded transactions whose output key sets over a pool of 3 real one-time keys are {k0},{k0,k1},{k1,k1},{k2},{k1} (script outputs), {k1} on the change output of a withdrawal submission and {k0} on a node-remove output; reference = key -> first owner; plus every interleaving (bounded preemptions) of concurrent reservations checked for linearisability")
	c.Assume("generated transaction hashes are not one of the three hard-coded historical exceptions (asserted)", "Badger SSI; scheduling points at store mutex and txn begin/commit")
	probe := c04Setup()
	for _, tx := range probe.txs {
		for _, e := range c04Exceptions {
			c.Require(tx.hash.String() != e, "generated hash equals a hard-coded exception")
		}
	}
	names := []string{}
	for _, tx := range probe.txs {
		for op := 0; op < c04NOps; op++ {
			names = append(names, c04OpNames[op]+"("+tx.name+")")
		}
	}
	ntx := len(probe.txs)
	probe.w.L.Close()
	names = append(names, "admit(A)", "takeover-input-of-A(X)")
	if !verifmc.FreeRunning() {
		b := &verifmc.BFS[*c04State]{
			C: c, NumEvents: ntx*c04NOps + 2, MaxDepth: verifmc.Pick(c, 4, 5),
			EventName: func(e int) string { return names[e] },
			New: func(int) *c04State {
				return &c04State{f: c04Setup(), m: &c04Model{owner: map[int]string{}, final: map[string]bool{}}}
			},
			Close: func(s *c04State) { s.f.w.L.Close() },
			Key:   func(s *c04State) string { return fmt.Sprintf("%s adm=%v taken=%v", s.m.key(), s.admitted, s.taken) },
			Apply: func(s *c04State, e int, replaying bool, report func(key, desc string)) bool {
				if e >= ntx*c04NOps {
					// the two extra events around A: ordinary admission (validate, lock
					// inputs, persist body) and the takeover of A's input by a competitor
					a := s.f.txs[0]
					st := s.f.w.L.Store
					before := s.m.key()
					if e == ntx*c04NOps {
						if s.m.final[a.name] || s.admitted {
							return false
						}
						ok := s.m.reserve(a)
						err := a.ver.Validate(st, s.f.w.Time, false)
						if (err == nil) != ok {
							if !replaying {
								report("admit-validate-mismatch", fmt.Sprintf("admit(A) in [%s]: Validate error %v, reference allows=%v", before, err, ok))
							}
							return true
						}
						if err == nil {
							if lerr := a.ver.LockInputs(st, false); lerr == nil {
								if werr := st.WriteTransaction(a.ver); werr == nil {
									s.admitted = true
								}
							}
						}
					} else {
						if !s.admitted || s.m.final[a.name] || s.taken {
							return false
						}
						if err := s.f.competitor.LockInputs(st, true); err != nil {
							if !replaying {
								report("takeover-failed", err.Error())
							}
							return true
						}
						s.taken = true
					}
					if !replaying {
						if obs := s.f.observe(s.m); obs.key() != s.m.key() {
							report("binding-changed-by-"+names[e], fmt.Sprintf("after %s from [%s]: stored bindings [%s], reference [%s] (a key, once reserved, stays bound to its transaction)", names[e], before, obs.key(), s.m.key()))
						}
					}
					return true
				}
				tx, op := s.f.txs[e/c04NOps], e%c04NOps
				if s.taken && tx.name == "A" {
					return false // A's input now belongs to the competitor: A is dead, its keys stay bound
				}
				before := s.m.key()
				en, want := c04Step(s.m, tx, op)
				if !en {
					return false
				}
				got, detail, unchanged := s.f.do(tx, op)
				if replaying {
					return true
				}
				obs := s.f.observe(s.m)
				if got && !want {
					report(c04OpNames[op]+"-accepted", fmt.Sprintf("%s(%s) succeeded in [%s] although a key of it is bound to another transaction (or repeats inside the transaction); stored [%s]", c04OpNames[op], tx.name, before, obs.key()))
					return true
				}
				if !got && want {
					report(c04OpNames[op]+"-refused", fmt.Sprintf("%s(%s) failed (%s) in [%s] where no key conflicts", c04OpNames[op], tx.name, detail, before))
					return true
				}
				if !got && op == c04Finalize && !unchanged {
					report("finalize-failed-but-wrote", fmt.Sprintf("finalize(%s) failed (%s) but the database changed", tx.name, detail))
				}
				if obs.key() != s.m.key() {
					report(c04OpNames[op]+"-binding", fmt.Sprintf("after %s(%s) from [%s]: stored bindings [%s], reference [%s]", c04OpNames[op], tx.name, before, obs.key(), s.m.key()))
				}
				return true
			},
		}
		st, tr, _, _ := b.Run()
		c.Require(st > 20 && tr > 300, "vacuous sequential exploration %d/%d", st, tr)
	}

	// ---- concurrent reservations ----
	badger.VerifHook = func(kind, dir string, writes int) error {
		verifmc.Point("txn." + kind)
		return nil
	}
	defer func() { badger.VerifHook = nil }()
	V, L, F, Z := c04Validate, c04LockNF, c04LockFork, c04Finalize
	scen := []struct {
		name    string
		threads [][][2]any
	}{
		{"validate(A) || validate(B)", [][][2]any{{{"A", V}}, {{"B", V}}}},
		{"validate(B) || validate(E) || validate(D)", [][][2]any{{{"B", V}}, {{"E", V}}, {{"D", V}}}},
		{"lock(A) || lockfork(B)", [][][2]any{{{"A", L}}, {{"B", F}}}},
		{"validate(A);finalize(A) || validate(B)", [][][2]any{{{"A", V}, {"A", Z}}, {{"B", V}}}},
		{"finalize(B) || validate(A) || validate(E)", [][][2]any{{{"B", Z}}, {{"A", V}}, {{"E", V}}}},
		{"finalize(A) || finalize(B)", [][][2]any{{{"A", Z}}, {{"B", Z}}}},
	}
	bound := verifmc.Pick(c, 2, 3)
	var mu sync.Mutex
	var execs int64
	contended := 0
	c.ParallelN(len(scen), "concurrent scenarios", func(_, i int) {
		sc := scen[i]
		ex := &verifmc.Explorer{C: c, Bound: bound, Name: sc.name}
		ex.Body = func(s *verifmc.Sched, report func(key, desc string)) string {
			f := c04Setup()
			defer f.w.L.Close()
			find := func(n any) *c04Tx {
				for _, x := range f.txs {
					if x.name == n.(string) {
						return x
					}
				}
				panic(n)
			}
			calls := make([][]*c04Call, len(sc.threads))
			for ti, ops := range sc.threads {
				for _, o := range ops {
					calls[ti] = append(calls[ti], &c04Call{tx: o[0].(string), op: o[1].(int)})
				}
				mine := calls[ti]
				s.Go(fmt.Sprint("t", ti), func() {
					for _, call := range mine {
						call.ok, call.det, _ = f.do(find(call.tx), call.op)
					}
				})
			}
			for ti, p := range s.RunAll() {
				if p != nil {
					report("concurrent:thread-panic", fmt.Sprintf("thread %d: %v", ti, p))
				}
			}
			if s.Deadlock {
				report("concurrent:deadlock", strings.Join(s.Trace, " "))
				return "deadlock"
			}
			final := f.observe(nil)
			var pat []string
			for ti := range calls {
				for _, call := range calls[ti] {
					pat = append(pat, fmt.Sprintf("%s(%s)=%v", c04OpNames[call.op], call.tx, call.ok))
				}
			}
			sort.Strings(pat)
			out := strings.Join(pat, " ") + " => " + final.key()
			if !c04Linearizable(f, calls, final) {
				report("concurrent:not-linearizable", fmt.Sprintf("scenario %q: [%s] is not explained by any sequential order under the reference (e.g. two winners of one key, or a partial reservation)", sc.name, out))
			}
			return out
		}
		ex.Run()
		mu.Lock()
		execs += ex.Executions
		if len(ex.Outcomes) >= 2 {
			contended++
		}
		mu.Unlock()
	})
	c.Set("concurrent_scenarios", len(scen))
	c.Set("concurrent_executions", execs)
	c.Set("preemption_bound", bound)
	c.Require(verifmc.FreeRunning() || contended >= 4 || c.Violations() > 0, "only %d of %d scenarios produced several outcomes", contended, len(scen))
}
