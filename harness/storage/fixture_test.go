//go:build verif

package storage

import (
	"io"
	"log"

	"github.com/MixinNetwork/mixin/logger"
	"github.com/MixinNetwork/mixin/verifmc/fixc"
)

func init() {
	log.SetOutput(io.Discard)
	logger.SetLevel(0)
}

// mcLedger is the storage-level ledger fixture: a real BadgerStore loaded
// through the real LoadGenesis from a generated 7-node genesis.
type mcLedger struct {
	Net   *fixc.Net
	Store *BadgerStore
}

var mcNet7 = fixc.NewNet(7, "net7")

func newMCLedger(dir string) *mcLedger {
	store, err := OpenForVerif(dir)
	if err != nil {
		panic(err)
	}
	rounds, snapshots, transactions, err := mcNet7.Genesis.BuildSnapshots()
	if err != nil {
		panic(err)
	}
	if err := store.LoadGenesis(rounds, snapshots, transactions); err != nil {
		panic(err)
	}
	return &mcLedger{Net: mcNet7, Store: store}
}

func (l *mcLedger) Close() { _ = l.Store.Close() }
