//go:build verif

package storage

import (
	"fmt"
	"math/big"
	"sort"
	"sync"
	"testing"

	"github.com/MixinNetwork/mixin/common"
	"github.com/MixinNetwork/mixin/verifmc"
)

// C01 — accepted transactions conserve value within one asset.
// Bounded-exhaustive enumeration (E1) of transaction shapes against several
// ledger states (E2 prefixes built by the wallet), correct signatures for the
// ordinary inputs. Oracle on Validate()==nil: recomputation from the store.

// c01Oracle recomputes the statement for an accepted transaction from the
// store. It returns "" or (key, description).
func c01Oracle(e *txgEnv, tx *common.VersionedTransaction) (string, string) {
	in, out := new(big.Int), new(big.Int)
	seen := map[string]bool{}
	for i, input := range tx.Inputs {
		switch {
		case len(input.Genesis) > 0:
			return "genesis-input", fmt.Sprintf("accepted with a genesis input at %d", i)
		case input.Deposit != nil && input.Mint != nil:
			return "deposit-and-mint", fmt.Sprintf("input %d carries deposit and mint data", i)
		case input.Deposit != nil:
			if len(tx.Inputs) != 1 {
				return "deposit-with-other-inputs", fmt.Sprintf("deposit input among %d inputs", len(tx.Inputs))
			}
			in.Add(in, mcUnits(input.Deposit.Amount))
			info, _, err := e.store().ReadAssetWithBalance(tx.Asset)
			if err != nil {
				return "store-error", err.Error()
			}
			if info != nil && (info.Chain != input.Deposit.Chain || info.AssetKey != input.Deposit.AssetKey) {
				return "deposit-asset", fmt.Sprintf("deposit of %s/%s credited to asset %s known as %s/%s", input.Deposit.Chain, input.Deposit.AssetKey, tx.Asset, info.Chain, info.AssetKey)
			}
		case input.Mint != nil:
			if len(tx.Inputs) != 1 {
				return "mint-with-other-inputs", fmt.Sprintf("mint input among %d inputs", len(tx.Inputs))
			}
			if tx.Asset != common.XINAssetId {
				return "mint-asset", "mint of an asset other than XIN"
			}
			in.Add(in, mcUnits(input.Mint.Amount))
		default:
			fk := fmt.Sprintf("%s:%d", input.Hash, input.Index)
			if seen[fk] {
				return "duplicate-input", "output " + fk + " consumed twice"
			}
			seen[fk] = true
			u, err := e.store().ReadUTXOLock(input.Hash, input.Index)
			if err != nil {
				return "store-error", err.Error()
			}
			if u == nil {
				return "input-missing", "input " + fk + " is not an output in the store"
			}
			if u.Asset != tx.Asset {
				return "input-asset", fmt.Sprintf("input %s holds asset %s, transaction moves %s", fk, u.Asset, tx.Asset)
			}
			if u.Amount.Sign() <= 0 {
				return "input-amount", "stored output " + fk + " is not positive"
			}
			in.Add(in, mcUnits(u.Amount))
		}
	}
	for i, o := range tx.Outputs {
		if o.Amount.Sign() <= 0 {
			return "output-not-positive", fmt.Sprintf("output %d has amount %s", i, o.Amount)
		}
		out.Add(out, mcUnits(o.Amount))
	}
	if in.Sign() <= 0 {
		return "total-not-positive", "input total " + in.String()
	}
	if in.Cmp(out) != 0 {
		return "not-conserved", fmt.Sprintf("inputs hold %s units in the store, outputs carry %s units", in, out)
	}
	return "", ""
}

func c01Amounts() []txgAmount {
	return []txgAmount{
		txgAmt("1u", big.NewInt(1)), txgAmt("5", txgXIN(5)), txgAmt("7", txgXIN(7)), txgAmt("12", txgXIN(12)),
		txgAmt("2^64u", txgPow2(64)), txgAmt("2^256-1u", new(big.Int).Sub(txgPow2(256), big.NewInt(1))),
	}
}

func TestMC_C01(t *testing.T) {
	c := verifmc.Start(t, "C01", "exploration")
	defer c.Finish()
	c.SetRule("full product of asset {XIN,BTC,never-seen} x input lists (all sequences of length 1..L over {xin5, xin7, btc5, missing, duplicate-of-previous, deposit(a), mint(a), genesis}, a over the amount menu only when the list has a deposit/mint) x output lists (all sequences of length 1..L over kind x amount) x ledger states x snapshot times; correct signatures, type-appropriate extra/references; every transaction goes through Marshal->Unmarshal; a case is counted distinct/non-trivial when its (ledger,time,shape) is new and the real TransactionType() is not Unknown")
	c.Assume("signatures are always the correct ones (authorization is C02)", "ledger states are prefixes built by a deterministic wallet through real Validate+LockInputs+WriteTransaction+WriteSnapshot", "one-time output keys are unique per case so that the key reservation side effect of Validate cannot couple cases")

	amounts := c01Amounts()
	zero := txgAmt("0", big.NewInt(0))
	inAlpha := []txgIn{{txgInRef, "xin5"}, {txgInRef, "xin7"}, {txgInRef, "btc5"}, {txgInRef, "missing"}, {Kind: txgInDup}, {Kind: txgInDeposit}, {Kind: txgInMint}, {Kind: txgInGenesis}}
	// output alphabet: kind x amount
	var outAlpha []txgOut
	kinds := []uint8{common.OutputTypeScript, common.OutputTypeWithdrawalSubmit, common.OutputTypeNodePledge, 0x77}
	if c.Thorough() {
		kinds = append(kinds, common.OutputTypeNodeRemove, common.OutputTypeWithdrawalClaim, common.OutputTypeCustodianUpdateNodes)
	}
	for _, k := range kinds {
		for _, a := range amounts {
			outAlpha = append(outAlpha, txgOut{Type: k, Amt: a})
		}
	}
	outAlpha = append(outAlpha, txgOut{Type: common.OutputTypeScript, Amt: zero})
	maxLen := 2
	inSeqs := txgSeqs(len(inAlpha), 1, maxLen)
	outSeqs := txgSeqs(len(outAlpha), 1, maxLen)
	envNames := []string{"genesis", "deposits", "transfer", "spent"}
	if c.Thorough() {
		envNames = append(envNames, "submit", "alltypes")
	}
	var envs []*txgEnv
	for _, n := range envNames {
		e := txgNewEnv(n)
		defer e.W.L.Close()
		envs = append(envs, e)
	}
	c.Set("ledger_states", envNames)
	c.Set("input_lists", len(inSeqs))
	c.Set("output_lists", len(outSeqs))

	// work items: (env, time, asset, input list, a)
	type item struct {
		env, ti, asset, in, a int
	}
	var items []item
	for ei := range envs {
		for ti := range envs[ei].Times {
			for as := range txgAssets {
				for ii, seq := range inSeqs {
					special := false
					for _, k := range seq {
						special = special || inAlpha[k].Kind == txgInDeposit || inAlpha[k].Kind == txgInMint
					}
					na := 1
					if special {
						na = len(amounts)
					}
					for a := 0; a < na; a++ {
						items = append(items, item{ei, ti, as, ii, a})
					}
				}
			}
		}
	}
	var mu sync.Mutex
	accepted := map[string]int{}
	c.ParallelN(len(items), "C01 product", func(_, k int) {
		it := items[k]
		e := envs[it.env]
		shape := txgShape{Asset: it.asset, InAmt: amounts[it.a], Sig: txgSigCorrect, ExtraLen: -1, Refs: txgRefAuto}
		for _, x := range inSeqs[it.in] {
			shape.Ins = append(shape.Ins, inAlpha[x])
		}
		for _, os := range outSeqs {
			shape.Outs = shape.Outs[:0]
			for _, x := range os {
				shape.Outs = append(shape.Outs, outAlpha[x])
			}
			key := fmt.Sprintf("%s@%s %s", e.Name, e.TimeNames[it.ti], shape.Key())
			ver := txgBuild(e, &shape, key)
			res := txgRun(e, ver, e.Times[it.ti])
			c.Eval(1)
			if res.Stage != "validated" {
				c.Outcome(res.Stage)
				continue
			}
			if res.Tx.TransactionType() != common.TransactionTypeUnknown {
				c.Distinct(key)
			}
			if res.Panic != nil {
				// not this property's subject (C05); counted, never raised here
				c.Outcome("panic-in-validate(see C05)")
				continue
			}
			if res.Err != nil {
				c.Outcome("reject:" + txgErrClass(res.Err))
				continue
			}
			c.Outcome("accept")
			mu.Lock()
			accepted[fmt.Sprintf("type=%d in=%d out=%d", res.Tx.TransactionType(), len(res.Tx.Inputs), len(res.Tx.Outputs))]++
			mu.Unlock()
			c.Sample(map[string]any{"ledger": e.Name, "time": e.TimeNames[it.ti], "shape": shape.Key(), "result": "accept", "tx": verifmc.Hex(res.Raw)})
			if vk, desc := c01Oracle(e, res.Tx); vk != "" {
				raw, ts := res.Raw, e.Times[it.ti]
				c.ViolationChecked(vk, fmt.Sprintf("%s; ledger %s time %s shape %s", desc, e.Name, e.TimeNames[it.ti], shape.Key()),
					map[string]any{"ledger": e.recipe(), "snapshot_time": ts, "shape": shape.Key(), "transaction_hex": txgHex(raw)},
					func() bool {
						err, p, _ := txgReplayRaw(e, raw, ts)
						if err != nil || p != nil {
							return false
						}
						dec, _ := common.UnmarshalVersionedTransaction(raw)
						k2, _ := c01Oracle(e, dec)
						return k2 == vk
					})
			}
		}
	})
	var acc []string
	for k, n := range accepted {
		acc = append(acc, fmt.Sprintf("%s:%d", k, n))
	}
	sort.Strings(acc)
	c.Set("accepted_by_type_and_arity", acc)
	c.Require(c.OutcomeCount("accept") >= 50, "vacuous: only %d accepted transactions", c.OutcomeCount("accept"))
	c.Require(c.OutcomeCount("reject:invalid_input_asset") > 0 && c.OutcomeCount("reject:invalid_input_output_amount") > 0, "vacuous: asset / amount rejections not reached")
	c.Require(len(accepted) >= 4, "vacuous: accepted transactions of only %d type/arity classes", len(accepted))
}
