//go:build verif

package storage

import (
	"fmt"
	"math/big"
	"sort"
	"sync"
	"testing"

	"github.com/MixinNetwork/mixin/common"
	"github.com/MixinNetwork/mixin/verifmc"
)

// C01 — accepted transactions conserve value within one asset.
// Bounded-exhaustive enumeration (E1) of transaction shapes against several
// ledger states (E2 prefixes built by the wallet), correct signatures for the
// ordinary inputs. Oracle on Validate()==nil: recomputation from the store.

// c01Oracle recomputes the statement for an accepted transaction from the
// store. It returns "" or (key, description).
func c01Oracle(e *txgEnv, tx *common.VersionedTransaction) (string, string) {
	in, out := new(big.Int), new(big.Int)
	seen := map[string]bool{}
	for i, input := range tx.Inputs {
		switch {
		case len(input.Genesis) > 0:
			return "genesis-input", fmt.Sprintf("accepted with a genesis input at %d", i)
		case input.Deposit != nil && input.Mint != nil:
			// classified, locked and recorded as a mint (mint data has priority
			// everywhere): the value that enters is the mint amount
			if len(tx.Inputs) != 1 {
				return "mint-with-other-inputs", fmt.Sprintf("mint input among %d inputs", len(tx.Inputs))
			}
			if tx.Asset != common.XINAssetId {
				return "mint-asset", "mint of an asset other than XIN"
			}
			in.Add(in, mcUnits(input.Mint.Amount))
		case input.Deposit != nil:
			if len(tx.Inputs) != 1 {
				return "deposit-with-other-inputs", fmt.Sprintf("deposit input among %d inputs", len(tx.Inputs))
			}
			in.Add(in, mcUnits(input.Deposit.Amount))
			info, _, err := e.store().ReadAssetWithBalance(tx.Asset)
			if err != nil {
				return "store-error", err.Error()
			}
			if info != nil && (info.Chain != input.Deposit.Chain || info.AssetKey != input.Deposit.AssetKey) {
				return "deposit-asset", fmt.Sprintf("deposit of %s/%s credited to asset %s known as %s/%s", input.Deposit.Chain, input.Deposit.AssetKey, tx.Asset, info.Chain, info.AssetKey)
			}
		case input.Mint != nil:
			if len(tx.Inputs) != 1 {
				return "mint-with-other-inputs", fmt.Sprintf("mint input among %d inputs", len(tx.Inputs))
			}
			if tx.Asset != common.XINAssetId {
				return "mint-asset", "mint of an asset other than XIN"
			}
			in.Add(in, mcUnits(input.Mint.Amount))
		default:
			fk := fmt.Sprintf("%s:%d", input.Hash, input.Index)
			if seen[fk] {
				return "duplicate-input", "output " + fk + " consumed twice"
			}
			seen[fk] = true
			u, err := e.store().ReadUTXOLock(input.Hash, input.Index)
			if err != nil {
				return "store-error", err.Error()
			}
			if u == nil {
				return "input-missing", "input " + fk + " is not an output in the store"
			}
			if u.Asset != tx.Asset {
				return "input-asset", fmt.Sprintf("input %s holds asset %s, transaction moves %s", fk, u.Asset, tx.Asset)
			}
			if u.Amount.Sign() <= 0 {
				return "input-amount", "stored output " + fk + " is not positive"
			}
			in.Add(in, mcUnits(u.Amount))
		}
	}
	for i, o := range tx.Outputs {
		if o.Amount.Sign() <= 0 {
			return "output-not-positive", fmt.Sprintf("output %d has amount %s", i, o.Amount)
		}
		out.Add(out, mcUnits(o.Amount))
	}
	if in.Sign() <= 0 {
		return "total-not-positive", "input total " + in.String()
	}
	if in.Cmp(out) != 0 {
		return "not-conserved", fmt.Sprintf("inputs hold %s units in the store, outputs carry %s units", in, out)
	}
	return "", ""
}

func TestMC_C01(t *testing.T) {
	c := verifmc.Start(t, "C01", "exploration")
	defer c.Finish()
	c.SetRule("full product of asset {XIN,BTC,never-seen} x input lists (all sequences over {xin5, xin7, btc5, missing, duplicate-of-previous, deposit(a), mint(a), genesis}; a over the 6-amount menu only when the list has a deposit/mint) x output lists (all sequences over kind x amount, amounts {1u,5,7,12,2^64u,2^256-1u} and 0) x ledger states x snapshot times (all > epoch+1ns) x validation mode {fork=false, fork=true (finalized-snapshot path)}; quick: lists of length 1..2; thorough: larger output alphabet, 6 ledgers, 3 times, plus input lists of length 3 and output lists of length 3; correct signatures, type-appropriate extra/references; every transaction goes through Marshal->Unmarshal; a case is counted distinct/non-trivial when its (ledger,time,shape) is new and the real TransactionType() of the decoded transaction is not Unknown")
	c.Assume("signatures are always the correct ones (authorization is C02)", "ledger states are prefixes built by a deterministic wallet through real Validate+LockInputs+WriteTransaction+WriteSnapshot", "one-time output keys are unique per case so that the key reservation side effect of Validate (LockGhostKeys) cannot couple cases; they are valid prime-order points, not derived for an account", "valid signatures are produced with a fixed nonce per key (harness-only keys)")

	var ec txgEnvCache
	defer ec.close()
	amounts := txgC01Amounts()
	blocks := txgC01Blocks(c.Thorough(), ec.get)
	items := txgItems(blocks, amounts)
	var bl []string
	for _, b := range blocks {
		var en []string
		for _, e := range b.Envs {
			en = append(en, e.Name)
		}
		bl = append(bl, fmt.Sprintf("%s: %d input lists x %d output lists (alphabets %d/%d) x ledgers %v x times %v", b.Name, len(b.InSeqs), len(b.OutSeqs), len(b.InAlpha), len(b.OutAlpha), en, b.Envs[0].TimeNames[:b.NTimes]))
	}
	c.Set("blocks", bl)
	c.Set("ledgers", ec.describe())

	var mu sync.Mutex
	accepted := map[string]int{}
	complete := c.ParallelN(len(items), "C01 product", func(_, k int) {
		txgRunItem(items[k], amounts, func(e *txgEnv, ti int, shape *txgShape, key string, res *txgResult) {
			c.Eval(1)
			if res.Stage != "validated" {
				c.Outcome(res.Stage)
				return
			}
			// the same decoded transaction validated the way a finalized snapshot's
			// transactions are (fork=true): reservations by other transactions no
			// longer reject, every other clause of the statement must still hold
			if dec, ferr, fp := txgValidateRaw(e, res.Raw, e.Times[ti], true); fp == nil && ferr == nil {
				c.Eval(1)
				c.Outcome("accept:fork")
				if res.Err != nil {
					c.Outcome("accept:fork-only")
					c.Distinct("fork|" + key)
				}
				if vk, desc := c01Oracle(e, dec); vk != "" {
					raw, ts := res.Raw, e.Times[ti]
					c.ViolationChecked("fork:"+vk, fmt.Sprintf("validated with fork=true (finalized-snapshot path): %s; ledger %s time %s shape %s", desc, e.Name, e.TimeNames[ti], shape.Key()),
						map[string]any{"ledger": e.recipe(), "snapshot_time": ts, "shape": shape.Key(), "transaction_hex": txgHex(raw), "fork": true},
						func() bool {
							d2, err, p := txgValidateRaw(e, raw, ts, true)
							if err != nil || p != nil {
								return false
							}
							k2, _ := c01Oracle(e, d2)
							return k2 == vk
						})
				}
			} else if ferr != nil {
				c.Outcome("reject:fork")
			}
			if res.Tx.TransactionType() != common.TransactionTypeUnknown {
				c.Distinct(key)
			}
			if res.Panic != nil {
				// not this property's subject (C05); counted, never raised here
				c.Outcome("panic-in-validate(see C05)")
				return
			}
			if res.Err != nil {
				c.Outcome("reject:" + txgErrClass(res.Err))
				return
			}
			c.Outcome("accept")
			mu.Lock()
			accepted[fmt.Sprintf("type=%d in=%d out=%d", res.Tx.TransactionType(), len(res.Tx.Inputs), len(res.Tx.Outputs))]++
			mu.Unlock()
			if shape.Ins[0].Kind == txgInRef {
				c.Sample(map[string]any{"ledger": e.Name, "time": e.TimeNames[ti], "shape": shape.Key(), "result": "accept", "tx": verifmc.Hex(res.Raw)})
			}
			if vk, desc := c01Oracle(e, res.Tx); vk != "" {
				raw, ts := res.Raw, e.Times[ti]
				c.ViolationChecked(vk, fmt.Sprintf("%s; ledger %s time %s shape %s", desc, e.Name, e.TimeNames[ti], shape.Key()),
					map[string]any{"ledger": e.recipe(), "snapshot_time": ts, "shape": shape.Key(), "transaction_hex": txgHex(raw)},
					func() bool {
						err, p, _ := txgReplayRaw(e, raw, ts)
						if err != nil || p != nil {
							return false
						}
						dec, _ := common.UnmarshalVersionedTransaction(raw)
						k2, _ := c01Oracle(e, dec)
						return k2 == vk
					})
			}
		})
	})
	var acc []string
	for k, n := range accepted {
		acc = append(acc, fmt.Sprintf("%s:%d", k, n))
	}
	sort.Strings(acc)
	c.Set("accepted_by_type_and_arity", acc)
	c.Require(c.OutcomeCount("accept") >= 50, "vacuous: only %d accepted transactions", c.OutcomeCount("accept"))
	// the per-class guards presuppose that every ledger was visited (not a run cut by the wall-clock cap)
	c.Require(!complete || c.OutcomeCount("reject:invalid_input_asset") > 0 && c.OutcomeCount("reject:invalid_input_output_amount") > 0 && c.OutcomeCount("reject:invalid_input") > 0 && c.OutcomeCount("reject:input_locked_for_transaction") > 0,
		"vacuous: asset / amount / duplicate / locked rejections not all reached")
	c.Require(!complete || c.OutcomeCount("accept:fork-only") > 0, "vacuous: no transaction that only the fork=true validation admits (input reserved for another transaction)")
	c.Require(!complete || len(accepted) >= 6, "vacuous: accepted transactions of only %d type/arity classes", len(accepted))
}

// TestMCRace_C01 is the separate free-running pass (go test -race): a stride
// sample of the same product is validated by 16 workers against the shared
// ledgers, exactly as TestMC_C01 does, so that an unsynchronised access on the
// validation read path (which no enumeration of inputs can see) is reported by
// the race detector. Verdicts are not evaluated here.
func TestMCRace_C01(t *testing.T) {
	c := verifmc.Start(t, "C01", "exploration")
	defer c.Finish()
	var ec txgEnvCache
	defer ec.close()
	amounts := txgC01Amounts()
	items := txgItems(txgC01Blocks(false, ec.get), amounts)
	stride := len(items)/64 + 1
	var sub []int
	for k := 0; k < len(items); k += stride {
		sub = append(sub, k)
	}
	var n int64
	var mu sync.Mutex
	c.ParallelN(len(sub), "C01 race pass", func(_, k int) {
		cnt := 0
		txgRunItem(items[sub[k]], amounts, func(e *txgEnv, ti int, shape *txgShape, key string, res *txgResult) { cnt++ })
		mu.Lock()
		n += int64(cnt)
		mu.Unlock()
	})
	verifmc.FreeExecutions.Add(n)
	verifmc.RacePassDone("C01")
}
