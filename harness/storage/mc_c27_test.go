//go:build verif

package storage

import (
	"bytes"
	"fmt"
	"sort"
	"strings"
	"sync"
	"sync/atomic"
	"testing"
	"time"

	"github.com/MixinNetwork/mixin/common"
	"github.com/MixinNetwork/mixin/config"
	"github.com/MixinNetwork/mixin/crypto"
	"github.com/MixinNetwork/mixin/verifmc"
	"github.com/MixinNetwork/mixin/verifmc/fixc"
	"github.com/MixinNetwork/mixin/verifmc/vsync"
	"github.com/dgraph-io/badger/v4"
	"github.com/dgraph-io/badger/v4/options"
)

// C27 (storage layer) — membership follows the pledge/accept/cancel/remove
// lifecycle. Explicit-state BFS over histories (with non-monotone timestamps,
// see enabled) of real node transactions
// finalized with WriteTransaction + WriteSnapshot, WITHOUT Validate, so that
// invalid operations reach the durable transition checks of
// writeNodePledge/Accept/Cancel/Remove. The reference model is the list of
// (ts, signer, payee, state) records plus the rules of the statement.

const (
	c27Pledge = iota
	c27Accept
	c27Cancel
	c27Remove
)

var c27OpNames = []string{"pledge", "accept", "cancel", "remove"}
var c27OpState = []string{common.NodeStatePledging, common.NodeStateAccepted, common.NodeStateCancelled, common.NodeStateRemoved}

// c27GenesisIndex is the genesis node that the alphabet may remove / re-pledge.
const c27GenesisIndex = 3

type c27Event struct {
	Op int
	S  int // 0..2 pool signer, 3 = the genesis node's signer
	P  int // 0..1 pool payee, 2 = the genesis node's payee
	T  int // index in c27Times
}

type c27Alphabet struct {
	Signers []common.Address // 3 pool signers + genesis signer
	Payees  []common.Address // 2 pool payees + genesis payee
	Times   []uint64
	TNames  []string
	Events  []c27Event
	Labels  map[crypto.Key]string
	Genesis []c27Rec // the records LoadGenesis must produce
	Wallet  common.Address
}

func c27NewAlphabet() *c27Alphabet {
	a := &c27Alphabet{Labels: map[crypto.Key]string{}, Wallet: fixc.Addr("c27-wallet")}
	for i := 0; i < 3; i++ {
		a.Signers = append(a.Signers, fixc.NodeAddr(fmt.Sprintf("c27-signer-%d", i)))
	}
	a.Signers = append(a.Signers, mcNet7.Signers[c27GenesisIndex])
	for i := 0; i < 2; i++ {
		a.Payees = append(a.Payees, fixc.NodeAddr(fmt.Sprintf("c27-payee-%d", i)))
	}
	a.Payees = append(a.Payees, mcNet7.Payees[c27GenesisIndex])
	for i := range mcNet7.Signers {
		a.Labels[mcNet7.Signers[i].PublicSpendKey] = fmt.Sprintf("g%d", i)
		a.Labels[mcNet7.Payees[i].PublicSpendKey] = fmt.Sprintf("q%d", i)
	}
	for i, s := range a.Signers {
		a.Labels[s.PublicSpendKey] = []string{"S0", "S1", "S2", "G"}[i]
	}
	for i, p := range a.Payees {
		a.Labels[p.PublicSpendKey] = []string{"P0", "P1", "PG"}[i]
	}
	_, _, gtxs, err := mcNet7.Genesis.BuildSnapshots()
	if err != nil {
		panic(err)
	}
	for i := range mcNet7.Signers {
		a.Genesis = append(a.Genesis, c27Rec{Ts: mcNet7.Epoch, Signer: mcNet7.Signers[i].PublicSpendKey, Payee: mcNet7.Payees[i].PublicSpendKey, State: common.NodeStateAccepted, Tx: gtxs[i].PayloadHash()})
	}
	t := mcNet7.Epoch + uint64(time.Hour)
	h12 := uint64(config.KernelNodePledgePeriodMinimum)
	a.Times = []uint64{t, t + 1, t + h12, t + h12 + 2}
	a.TNames = []string{"t", "t+1", "t+12h", "t+12h+2"}
	for op := c27Pledge; op <= c27Remove; op++ {
		for s := 0; s < 3; s++ {
			for p := 0; p < 2; p++ {
				for ti := range a.Times {
					a.Events = append(a.Events, c27Event{op, s, p, ti})
				}
			}
		}
	}
	// the genesis node: remove with matching / mismatching payee, and a pledge
	// that reuses its signer key
	for _, g := range []c27Event{{Op: c27Remove, S: 3, P: 2}, {Op: c27Remove, S: 3, P: 0}, {Op: c27Pledge, S: 3, P: 2}} {
		for ti := range a.Times {
			g.T = ti
			a.Events = append(a.Events, g)
		}
	}
	return a
}

func (a *c27Alphabet) name(e int) string {
	ev := a.Events[e]
	return fmt.Sprintf("%s(%s,%s)@%s", c27OpNames[ev.Op], a.Labels[a.Signers[ev.S].PublicSpendKey], a.Labels[a.Payees[ev.P].PublicSpendKey], a.TNames[ev.T])
}

func (a *c27Alphabet) label(k crypto.Key) string {
	if l, ok := a.Labels[k]; ok {
		return l
	}
	return "?" + k.String()[:8]
}

func (a *c27Alphabet) tname(ts uint64) string {
	if ts == mcNet7.Epoch {
		return "epoch"
	}
	for i, t := range a.Times {
		if t == ts {
			return a.TNames[i]
		}
	}
	return fmt.Sprint(ts)
}

// c27Rec is one record of the reference history.
type c27Rec struct {
	Ts     uint64
	Signer crypto.Key
	Payee  crypto.Key
	State  string
	Tx     crypto.Hash
}

func (a *c27Alphabet) render(recs []c27Rec, withGenesis bool) string {
	var parts []string
	for _, r := range recs {
		if !withGenesis && r.Ts == mcNet7.Epoch {
			continue
		}
		parts = append(parts, fmt.Sprintf("%s/%s/%s/%s", a.tname(r.Ts), a.label(r.Signer), a.label(r.Payee), r.State))
	}
	return strings.Join(parts, ",")
}

func c27Sort(recs []c27Rec) []c27Rec {
	out := append([]c27Rec{}, recs...)
	sort.SliceStable(out, func(i, j int) bool {
		if out[i].Ts != out[j].Ts {
			return out[i].Ts < out[j].Ts
		}
		return bytes.Compare(out[i].Signer[:], out[j].Signer[:]) < 0
	})
	return out
}

type c27Counters struct {
	par, pc          atomic.Int64 // canonical sequences seen accepted inside the BFS
	accepted         [4]atomic.Int64
	rejected         [4]atomic.Int64
	equalTsAccepted  atomic.Int64    // an accepted record sharing its timestamp with another signer's record
	oooAccepted      [4]atomic.Int64 // accepted although stamped before the newest record
	oooRejected      [4]atomic.Int64
	boundaryRejected atomic.Int64    // out-of-order, newest record exactly at the end of the look-ahead, rejected
	reRemoveInside   atomic.Int64    // second remove stamped between the node's accept and its first remove, rejected
	beyondAccepted   [4]atomic.Int64 // stamped beyond the look-ahead (earlier than newest-12h) and recorded
	beyondWrong      [4]atomic.Int64 // ... although the statement forbids it
	beyondRejected   [4]atomic.Int64
	pruned           atomic.Int64 // violating states, not expanded
	mismatchReject   atomic.Int64 // rejected only because of the payee
	naturalInput     atomic.Int64
	fundedInput      atomic.Int64
	deposits         atomic.Int64
}

// c27State = real ledger + driver wallet + reference history.
type c27State struct {
	A    *c27Alphabet
	C    *verifmc.Check
	N    *c27Counters
	L    *mcLedger
	Acct common.Address
	Seq  int
	// Spare is the wallet output that events without an output of their own
	// spend: it stays available (fork-locked again) while the transactions that
	// named it were rejected, and is replaced once a finalized one consumed it.
	Spare *common.Input
	Hist  []c27Rec // reference history in order of acceptance (genesis first)
}

// c27NewLedger is newMCLedger("") (real BadgerStore over in-memory Badger +
// real LoadGenesis of the generated 7-node genesis) with 1 MiB instead of
// 8 MiB memtables: the BFS builds thousands of instances and zeroing the two
// 10 MiB skiplist arenas of OpenForVerif was 70% of the CPU time. Every value
// written here is far below the 64 KiB value threshold.
func c27NewLedger(a *c27Alphabet) *mcLedger {
	open := func() *badger.DB {
		opts := badger.DefaultOptions("").WithInMemory(true)
		opts = opts.WithCompression(options.None).WithBlockCacheSize(0).WithIndexCacheSize(0)
		opts = opts.WithMetricsEnabled(false).WithLoggingLevel(badger.ERROR)
		opts = opts.WithNumCompactors(2).WithMemTableSize(1 << 20).WithValueThreshold(64 << 10).WithNumMemtables(2)
		db, err := badger.Open(opts)
		if err != nil {
			panic(err)
		}
		return db
	}
	store := &BadgerStore{snapshotsDB: open(), cacheDB: open(), mutex: new(vsync.RWMutex)}
	rounds, snapshots, transactions, err := mcNet7.Genesis.BuildSnapshots()
	if err != nil {
		panic(err)
	}
	if err := store.LoadGenesis(rounds, snapshots, transactions); err != nil {
		panic(err)
	}
	return &mcLedger{Net: mcNet7, Store: store}
}

func c27New(a *c27Alphabet, c *verifmc.Check, n *c27Counters) *c27State {
	s := &c27State{A: a, C: c, N: n, L: c27NewLedger(a), Acct: a.Wallet}
	s.Hist = append(s.Hist, a.Genesis...)
	return s
}

func (s *c27State) latest() map[crypto.Key]c27Rec {
	m := map[crypto.Key]c27Rec{}
	for _, r := range s.Hist {
		if o, ok := m[r.Signer]; !ok || r.Ts > o.Ts {
			m[r.Signer] = r
		}
	}
	return m
}

// allows is the statement: the four "only" rules.
func (s *c27State) allows(op int, signer, payee crypto.Key) (bool, string) {
	latest := s.latest()
	l, known := latest[signer]
	switch op {
	case c27Pledge:
		if known {
			return false, "signer-key-reused-after-" + l.State
		}
		for _, o := range latest {
			if o.State == common.NodeStatePledging {
				return false, "another-node-is-pledging"
			}
		}
		return true, ""
	case c27Accept, c27Cancel:
		if !known {
			return false, "unknown-signer"
		}
		if l.State != common.NodeStatePledging {
			return false, "node-not-pledging-but-" + l.State
		}
		if l.Payee != payee {
			return false, "payee-mismatch"
		}
		return true, ""
	case c27Remove:
		if !known {
			return false, "unknown-signer"
		}
		if l.State != common.NodeStateAccepted {
			return false, "node-not-accepted-but-" + l.State
		}
		if l.Payee != payee {
			return false, "payee-mismatch"
		}
		return true, ""
	}
	panic(op)
}

func (s *c27State) chain() crypto.Hash { return s.L.Net.NodeIds[1] }

// fund finalizes a custodian-signed 13439 XIN deposit to the driver wallet and
// returns its output.
func (s *c27State) fund(ts uint64) *common.Input {
	s.Seq++
	acct := s.Acct
	dep := s.L.Net.DepositXIN(fmt.Sprintf("c27-ext-%d", s.Seq), "13439", []*common.Address{&acct}, 1)
	if _, err := s.L.Store.VerifFinalize(s.chain(), ts, true, dep); err != nil {
		panic(fmt.Errorf("funding deposit: %v", err))
	}
	return &common.Input{Hash: dep.PayloadHash(), Index: 0}
}

// spendableOutput returns (hash,0) when that output exists and is not consumed
// by a finalized transaction.
func (s *c27State) spendableOutput(h crypto.Hash) *common.Input {
	u, err := s.L.Store.ReadUTXOLock(h, 0)
	if err != nil || u == nil {
		return nil
	}
	if u.LockHash.HasValue() {
		_, final, err := s.L.Store.ReadTransaction(u.LockHash)
		if err != nil || final != "" {
			return nil
		}
	}
	return &common.Input{Hash: h, Index: 0}
}

// build constructs the real node transaction of the event. Pledges spend a
// 13439 XIN wallet output; accept/cancel spend the pledge output of the
// signer's pending pledge and remove spends the signer's accept output when
// that output exists and is unspent — otherwise (operation invalid in the
// current state) any suitable output: the 13439 XIN wallet output.
func (s *c27State) build(op int, signerAddr common.Address, payee crypto.Key, ts uint64) *common.VersionedTransaction {
	signer := signerAddr.PublicSpendKey
	var in *common.Input
	if op != c27Pledge {
		want := common.NodeStatePledging
		if op == c27Remove {
			want = common.NodeStateAccepted
		}
		if l, ok := s.latest()[signer]; ok && l.State == want {
			in = s.spendableOutput(l.Tx)
		}
	}
	if in != nil {
		s.N.naturalInput.Add(1)
	} else {
		if s.Spare == nil || s.spendableOutput(s.Spare.Hash) == nil {
			s.Spare = s.fund(ts)
			s.N.deposits.Add(1)
		}
		in = s.Spare
		s.N.fundedInput.Add(1)
	}
	s.Seq++
	tx := common.NewTransactionV5(common.XINAssetId)
	tx.AddInput(in.Hash, in.Index)
	tx.Extra = append(append([]byte{}, signer[:]...), payee[:]...)
	amount := common.KernelNodePledgeAmount
	acct := s.Acct
	switch op {
	case c27Pledge:
		tx.Outputs = append(tx.Outputs, &common.Output{Type: common.OutputTypeNodePledge, Amount: amount})
		return fixc.SignAll(tx, s.L.Store, [][]*common.Address{{&acct}})
	case c27Accept:
		tx.Outputs = append(tx.Outputs, &common.Output{Type: common.OutputTypeNodeAccept, Amount: amount})
		ver := tx.AsVersioned()
		sig := signerAddr.PrivateSpendKey.Sign(ver.PayloadHash())
		ver.SignaturesMap = []map[uint16]*crypto.Signature{{0: &sig}}
		return ver
	case c27Cancel:
		penalty := amount.Div(100)
		tx.Outputs = append(tx.Outputs, &common.Output{Type: common.OutputTypeNodeCancel, Amount: penalty})
		tx.AddScriptOutput([]*common.Address{&acct}, common.NewThresholdScript(1), amount.Sub(penalty), fixc.Seed64(fmt.Sprintf("c27-cancel-%d", s.Seq)))
		tx.Extra = append(tx.Extra, s.Acct.PrivateViewKey[:]...)
		ver := tx.AsVersioned()
		sig := s.Acct.PrivateSpendKey.Sign(ver.PayloadHash())
		ver.SignaturesMap = []map[uint16]*crypto.Signature{{0: &sig}}
		return ver
	case c27Remove:
		pa := common.Address{PublicSpendKey: payee}
		pa.PrivateViewKey = payee.DeterministicHashDerive()
		pa.PublicViewKey = pa.PrivateViewKey.Public()
		tx.AddOutputWithType(common.OutputTypeNodeRemove, []*common.Address{&pa}, common.NewThresholdScript(1), amount, fixc.Seed64(fmt.Sprintf("c27-remove-%d", s.Seq)))
		return tx.AsVersioned()
	}
	panic(op)
}

func c27FromNodes(nodes []*common.Node) []c27Rec {
	out := make([]c27Rec, 0, len(nodes))
	for _, n := range nodes {
		out = append(out, c27Rec{Ts: n.Timestamp, Signer: n.Signer.PublicSpendKey, Payee: n.Payee.PublicSpendKey, State: n.State, Tx: n.Transaction})
	}
	return out
}

func c27ErrClass(p any, err error) string {
	msg := ""
	if p != nil {
		msg = "panic:" + fmt.Sprint(p)
	} else if err != nil {
		msg = err.Error()
	}
	switch {
	case strings.HasPrefix(msg, "panic:"):
		return "panic"
	case strings.Contains(msg, "is already"):
		return "signer-or-tx-already-known"
	case strings.Contains(msg, "not match at pledging"):
		return "keys-differ-from-last-pledging"
	case strings.Contains(msg, "not match at"):
		return "payee-or-state-mismatch"
	case strings.Contains(msg, "not available to remove"):
		return "unknown-signer"
	case strings.Contains(msg, "while tx"):
		return "last-or-pending-state"
	}
	return "other:" + msg
}

// check compares the durable history with the reference and evaluates the
// implementation-independent invariants of the statement.
// c27Collapse replaces runs of one letter by "X+" (ARR, ARRR -> AR+).
func c27Collapse(seq string) string {
	out := []byte{}
	for i := 0; i < len(seq); i++ {
		if i > 0 && seq[i] == seq[i-1] && seq[i] != '!' {
			if out[len(out)-1] != '+' {
				out = append(out, '+')
			}
			continue
		}
		out = append(out, seq[i])
	}
	return string(out)
}

func (s *c27State) check(collapse, skipImplied bool, report func(key, desc string)) {
	var all, latest []*common.Node
	if p := verifmc.Catch(func() {
		all = s.L.Store.ReadAllNodes(^uint64(0), true)
		latest = s.L.Store.ReadAllNodes(^uint64(0), false)
	}); p != nil {
		report("read-all-nodes-panic", fmt.Sprintf("ReadAllNodes panicked: %v after %s", p, s.A.render(s.Hist, false)))
		return
	}
	got, want := c27FromNodes(all), c27Sort(s.Hist)
	same := len(got) == len(want)
	for i := 0; same && i < len(got); i++ {
		same = got[i] == want[i]
	}
	if !same {
		report("history-differs-from-reference", fmt.Sprintf("ReadAllNodes(inf,true) = [%s], reference history = [%s]", s.A.render(got, true), s.A.render(want, true)))
	}

	// each signer's latest state is the one reported
	ref := s.latest()
	seen := map[crypto.Key]bool{}
	okLatest := len(latest) == len(ref)
	for _, n := range c27FromNodes(latest) {
		if seen[n.Signer] {
			report("latest-view-repeats-signer", fmt.Sprintf("ReadAllNodes(inf,false) lists signer %s twice", s.A.label(n.Signer)))
		}
		seen[n.Signer] = true
		if r, ok := ref[n.Signer]; !ok || r != n {
			okLatest = false
		}
	}
	if !okLatest {
		var w []c27Rec
		for _, r := range ref {
			w = append(w, r)
		}
		report("latest-state-not-reported", fmt.Sprintf("ReadAllNodes(inf,false) = [%s], latest record per signer of the reference = [%s]", s.A.render(c27Sort(c27FromNodes(latest)), true), s.A.render(c27Sort(w), true)))
	}

	if skipImplied {
		return
	}
	// invariants on what the store itself reports
	pledging := 0
	for _, n := range latest {
		if n.State == common.NodeStatePledging {
			pledging++
		}
	}
	if pledging > 1 {
		report("two-nodes-pledging", fmt.Sprintf("%d nodes are PLEDGING at once: [%s]", pledging, s.A.render(got, false)))
	}
	// a node = one lifecycle of a signer key; a signer key used by two nodes
	// shows up as a second PLEDGING record, a record after a final state, or a
	// change of payee
	per := map[crypto.Key][]c27Rec{}
	for _, r := range got {
		per[r.Signer] = append(per[r.Signer], r)
	}
	for k, rs := range per {
		seq := ""
		for _, r := range rs {
			seq += r.State[:1]
			if r.Payee != rs[0].Payee {
				seq += "!"
			}
		}
		switch seq {
		case "P", "PA", "PC", "PAR", "A", "AR":
		default:
			if collapse {
				seq = c27Collapse(seq)
			}
			report("signer-lifecycle:"+seq, fmt.Sprintf("records of signer %s are %q (P=pledging A=accepted C=cancelled R=removed, !=payee changed): not one pledge/accept/cancel/remove lifecycle of one node; history [%s]", s.A.label(k), seq, s.A.render(got, false)))
		}
	}
}

// c27Flags describes where an enabled event's timestamp lies relative to the
// records that exist.
type c27Flags struct {
	EqualTs    bool // another record already carries the event's timestamp
	OutOfOrder bool // stamped before the newest record
	Boundary   bool // the newest record is exactly at timestamp + 12h (last one the look-ahead still reads)
	Inside     bool // stamped between two records of the event's own signer
	Beyond     bool // stamped earlier than newest - 12h: the write functions do not read the newest record(s)
}

// enabled is the driver precondition on timestamps. They are NOT monotone: an
// event may be stamped before records that already exist — inside the code's
// look-ahead (timestamp + KernelNodeAcceptPeriodMinimum >= newest record,
// boundary included) or beyond it (Beyond: the write functions do not read the
// newer records at all) — as long as
//   - it is stamped after the record it acts upon (remove: the signer's newest
//     ACCEPTED record; accept/cancel: its newest PLEDGING record; when there is
//     no such record, or for a pledge, the signer's first record), and
//   - no record of the same signer carries that timestamp (the record key is
//     (timestamp, signer): that would be an overwrite).
func (a *c27Alphabet) enabled(hist []c27Rec, e int) (ok bool, f c27Flags) {
	ev := a.Events[e]
	ts, signer := a.Times[ev.T], a.Signers[ev.S].PublicSpendKey
	want := map[int]string{c27Accept: common.NodeStatePledging, c27Cancel: common.NodeStatePledging, c27Remove: common.NodeStateAccepted}[ev.Op]
	var newest, first, acted, above uint64
	for _, r := range hist {
		if r.Ts > newest {
			newest = r.Ts
		}
		if r.Ts == ts {
			f.EqualTs = true
		}
		if r.Signer != signer {
			continue
		}
		if r.Ts == ts {
			return false, f
		}
		if first == 0 || r.Ts < first {
			first = r.Ts
		}
		if r.State == want && r.Ts > acted {
			acted = r.Ts
		}
		if r.Ts > ts {
			above = r.Ts
		}
	}
	bound := acted
	if bound == 0 {
		bound = first
	}
	if ts <= bound {
		return false, f
	}
	f.OutOfOrder = ts < newest
	f.Boundary = ts+uint64(config.KernelNodeAcceptPeriodMinimum) == newest
	f.Inside = above > 0
	f.Beyond = ts+uint64(config.KernelNodeAcceptPeriodMinimum) < newest
	return true, f
}

// apply runs one event through the real code and the oracle. enabled=false
// when the driver precondition does not hold (nothing is executed); accepted
// tells whether the operation was recorded.
func (s *c27State) apply(e int, replaying bool, report func(key, desc string)) (enabled, accepted bool) {
	ev := s.A.Events[e]
	ts := s.A.Times[ev.T]
	signerAddr, payee := s.A.Signers[ev.S], s.A.Payees[ev.P].PublicSpendKey
	signer := signerAddr.PublicSpendKey
	ok, flags := s.A.enabled(s.Hist, e)
	if !ok {
		return false, false
	}
	// every violation that arises for an event stamped beyond the look-ahead
	// has its own canonical key (suffix), distinct from the in-window classes
	order := ""
	if flags.Beyond {
		order = ":beyond-lookahead"
		inner := report
		report = func(key, desc string) { inner(key+order, desc) }
	} else if flags.OutOfOrder {
		order = ":out-of-order"
	}
	allowed, why := s.allows(ev.Op, signer, payee)
	store := s.L.Store
	var before map[string]string
	if !replaying {
		before = store.VerifDump(graphPrefixNodeStateQueue)
	}

	tx := s.build(ev.Op, signerAddr, payee, ts)
	hash := tx.PayloadHash()
	if _, final, err := store.ReadTransaction(hash); err != nil || final != "" {
		s.C.Require(false, "driver built an already finalized transaction for %s (%v)", s.A.name(e), err)
		return false, false
	}
	if err := tx.LockInputs(store, true); err != nil {
		s.C.Require(false, "driver could not lock the input of %s: %v", s.A.name(e), err)
		return false, false
	}
	var err error
	p := verifmc.Catch(func() { _, err = store.VerifFinalize(s.chain(), ts, false, tx) })
	accepted = p == nil && err == nil
	op := c27OpNames[ev.Op]
	// implied: a forbidden beyond-lookahead record was just reported under its
	// own key; the broken one-pledging / lifecycle invariants of the resulting
	// record set are its direct consequence and are not reported a second time
	// under further keys (the comparison with the reference still is)
	implied := false

	if accepted {
		s.Hist = append(s.Hist, c27Rec{Ts: ts, Signer: signer, Payee: payee, State: c27OpState[ev.Op], Tx: hash})
		if !replaying {
			s.N.accepted[ev.Op].Add(1)
			s.C.Outcome("accept:" + op)
			if flags.EqualTs {
				s.N.equalTsAccepted.Add(1)
			}
			if flags.Beyond {
				s.N.beyondAccepted[ev.Op].Add(1)
				if !allowed {
					s.N.beyondWrong[ev.Op].Add(1)
				}
			} else if flags.OutOfOrder {
				s.N.oooAccepted[ev.Op].Add(1)
			}
			if !allowed {
				k := "accepted-" + op + ":" + why + order
				if flags.Beyond {
					// one small, stable class per operation: the reason without
					// the state the node is really in (the wrapper adds the suffix)
					k = "accepted-" + op + ":" + strings.SplitN(why, "-but-", 2)[0]
					implied = true
				}
				report(k, fmt.Sprintf("%s was recorded although the statement forbids it (%s); history before: [%s]", s.A.name(e), why, s.A.render(c27Sort(s.Hist[:len(s.Hist)-1]), false)))
			}
			s.canonical(signer)
		}
	} else if !replaying {
		s.N.rejected[ev.Op].Add(1)
		class := c27ErrClass(p, err)
		s.C.Outcome("reject:" + op + ":" + class)
		if why == "payee-mismatch" {
			s.N.mismatchReject.Add(1)
		}
		if flags.Beyond {
			s.N.beyondRejected[ev.Op].Add(1)
		} else if flags.OutOfOrder {
			s.N.oooRejected[ev.Op].Add(1)
			if flags.Boundary {
				s.N.boundaryRejected.Add(1)
			}
			if flags.Inside && ev.Op == c27Remove && why == "node-not-accepted-but-"+common.NodeStateRemoved {
				s.N.reRemoveInside.Add(1)
			}
		}
		after := store.VerifDump(graphPrefixNodeStateQueue)
		if fmt.Sprint(verifmc.SortedKeys(before)) != fmt.Sprint(verifmc.SortedKeys(after)) || !c27SameMap(before, after) {
			report("rejected-but-history-changed:"+op, fmt.Sprintf("%s was rejected (%v %v) but the NODESTATEQUEUE records changed", s.A.name(e), p, err))
		}
		if allowed {
			s.C.Stricter(op + " allowed by the statement but rejected: " + class + order)
		}
	}
	if !replaying {
		s.check(flags.Beyond, implied, report)
	}
	return true, accepted
}

func c27SameMap(a, b map[string]string) bool {
	if len(a) != len(b) {
		return false
	}
	for k, v := range a {
		if w, ok := b[k]; !ok || w != v {
			return false
		}
	}
	return true
}

// canonical counts the canonical lifecycles reached with every step accepted.
func (s *c27State) canonical(signer crypto.Key) {
	seq := ""
	for _, r := range c27Sort(s.Hist) {
		if r.Signer == signer {
			seq += r.State[:1]
		}
	}
	switch seq {
	case "PAR":
		s.N.par.Add(1)
	case "PC":
		s.N.pc.Add(1)
	}
}

func (s *c27State) key() string { return s.A.render(c27Sort(s.Hist), false) }

func (a *c27Alphabet) find(name string) int {
	for e := range a.Events {
		if a.name(e) == name {
			return e
		}
	}
	panic(name)
}

func (a *c27Alphabet) names(h []int) []string {
	out := make([]string, len(h))
	for i, e := range h {
		out[i] = a.name(e)
	}
	return out
}

const (
	c27QuickDepth    = 3
	c27ThoroughDepth = 4
	c27Chunks        = 4
)

type c27Node struct {
	hist []int    // shortest event history reaching the state (accepted events only)
	recs []c27Rec // reference history of the state (for the enabledness pre-check)
}

// c27Reproduces re-runs history+event on a fresh instance (nothing else has
// touched it) and tells whether the violation key is reported again.
func c27Reproduces(c *verifmc.Check, a *c27Alphabet, hist []int, e int, key string) bool {
	s := c27New(a, c, &c27Counters{})
	defer s.L.Close()
	for _, pe := range hist {
		if en, acc := s.apply(pe, true, func(string, string) {}); !en || !acc {
			return false
		}
	}
	hit := false
	s.apply(e, false, func(k, _ string) {
		if k == key {
			hit = true
		}
	})
	return hit
}

// c27BFS is an explicit-state breadth-first search over event histories. A
// state is the durable membership history; it is identified with the shortest
// history of ACCEPTED events reaching it. Successors of a state are computed on
// instances that replayed that history through the real code; because a
// rejected event must leave the membership history untouched (checked on the
// raw NODESTATEQUEUE dump after every rejection) the same instance then tries
// the next event, and a new instance is only built after an accepted event.
// Every violation is re-run 5x on a fresh instance with only history+event
// (ViolationChecked) before it is reported; the state it leads to is not
// expanded (its record set already breaks the invariants).
func c27BFS(c *verifmc.Check, a *c27Alphabet, n *c27Counters, maxDepth int) (states, transitions int64, depth int) {
	seen := map[string]struct{}{}
	root := c27New(a, c, n)
	seen[root.key()] = struct{}{}
	frontier := []c27Node{{recs: append([]c27Rec{}, root.Hist...)}}
	root.L.Close()
	states = 1
	c.AddStates(1)
	ne := len(a.Events)
	var reported sync.Map
	var instances atomic.Int64

	for depth = 0; depth < maxDepth && len(frontier) > 0; depth++ {
		keys := make([]string, len(frontier)*ne)
		recs := make([][]c27Rec, len(frontier)*ne)
		complete := c.ParallelN(len(frontier)*c27Chunks, fmt.Sprintf("bfs depth %d", depth+1), func(_, j int) {
			ni, ch := j/c27Chunks, j%c27Chunks
			node := frontier[ni]
			var s *c27State
			defer func() {
				if s != nil {
					s.L.Close()
				}
			}()
			for e := ch * ne / c27Chunks; e < (ch+1)*ne/c27Chunks; e++ {
				if ok, _ := a.enabled(node.recs, e); !ok {
					continue
				}
				if s == nil {
					s = c27New(a, c, n)
					instances.Add(1)
					for _, pe := range node.hist {
						if en, acc := s.apply(pe, true, func(string, string) {}); !en || !acc {
							c.Require(false, "replay divergence: %s not accepted while replaying %v", a.name(pe), a.names(node.hist))
							return
						}
					}
				}
				nh := append(append(make([]int, 0, len(node.hist)+1), node.hist...), e)
				violated := false
				enabled, accepted := s.apply(e, false, func(key, desc string) {
					violated = true
					if _, dup := reported.LoadOrStore(key, true); dup {
						return
					}
					c.ViolationChecked(key, desc, map[string]any{"history": a.names(nh)}, func() bool { return c27Reproduces(c, a, node.hist, e, key) })
				})
				if !enabled {
					c.Require(false, "event %s enabled by the pre-check but not by the instance after %v", a.name(e), a.names(node.hist))
					continue
				}
				c.AddTrans(1)
				c.AddTraces(1)
				c.Eval(1)
				if accepted && !violated {
					keys[ni*ne+e] = s.key()
					recs[ni*ne+e] = append([]c27Rec{}, s.Hist...)
				}
				if violated {
					// a state in which the oracle failed is reported, not expanded
					n.pruned.Add(1)
				}
				if accepted || violated {
					s.L.Close()
					s = nil
				}
			}
		})
		var next []c27Node
		for i, k := range keys {
			if recs[i] == nil {
				continue
			}
			if _, ok := seen[k]; ok {
				continue
			}
			seen[k] = struct{}{}
			h := append(append([]int{}, frontier[i/ne].hist...), i%ne)
			next = append(next, c27Node{hist: h, recs: recs[i]})
			states++
			c.AddStates(1)
			c.Distinct(k)
			if len(h) >= 2 {
				c.Sample(map[string]any{"history": a.names(h), "state": k})
			}
		}
		if !complete {
			break
		}
		frontier = next
	}
	c.Set("bfs_depth_completed", depth)
	c.Set("bfs_frontier_left", len(frontier))
	c.Set("instances_built", instances.Load())
	return states, c.Evaluations(), depth
}

func TestMC_C27(t *testing.T) {
	c := verifmc.Start(t, "C27", "model_checking")
	defer c.Finish()
	a := c27NewAlphabet()
	n := &c27Counters{}
	c.SetRule("BFS over all sequences of node operations {pledge, accept, cancel, remove}(signer, payee)@ts with signer in a pool of 3 new keys, payee in a pool of 2 (so accept/cancel/remove carry keys that match or do not match the record), plus remove (matching / mismatching payee) and re-pledge of one genesis node; ts in {t, t+1, t+12h, t+12h+2}, NOT monotone: an event may be stamped before, at (equal timestamps across signers are forced) or after the newest record — inside the 12h look-ahead of the write functions (ts+12h >= newest, boundary t vs t+12h included) or beyond it (t and t+1 vs t+12h+2: the write functions do not read the newest records) — provided it is stamped after the record it acts upon (remove: the signer's ACCEPTED record, accept/cancel: its PLEDGING record, otherwise the signer's first record) and does not reuse a timestamp of its own signer; so e.g. a second remove is offered between a node's accept and its first remove, and an accept/cancel between a pledge and its accept/cancel. Violations of events stamped beyond the look-ahead have their own keys: accepted-<op>:<reason without the node's real state>:beyond-lookahead, after which the implied one-pledging / lifecycle failures of that record set are not reported again (any other failure carries the suffix too, lifecycle strings with runs collapsed). A state in which the oracle failed is reported and not expanded. The reference (latest record per signer by timestamp + the statement's rules) and all invariants are evaluated on the SET of records, independent of arrival order. Every event is a real node transaction (output type + Extra = signer||payee) finalized by LockInputs(fork) + WriteTransaction + WriteSnapshot without Validate, so valid and invalid operations reach writeNodePledge/Accept/Cancel/Remove through the real writeUTXO dispatch; it spends the output the operation names when that exists and is unspent (pledge output for accept/cancel, accept output for remove), otherwise a 13439 XIN wallet output from a custodian-signed deposit. Canonical state = the durable history (ts, signer, payee, state), identified with the shortest history of accepted events; successors are computed on instances that replayed that history; a rejected event must leave the NODESTATEQUEUE dump unchanged (checked), is a self-loop, and the same instance then tries the next event, a new instance is built after every accepted event; every violation is re-run 5x on a fresh instance with history+event only. Reference model = list of records + the statement's rules; oracle evaluated after every event")
	c.Assume(
		"storage layer only: common.Validate (validateNode*) and the kernel's validateNode*Snapshot are not called; the full layer of DESIGN.md C27 (same events through validation, timestamps going backwards or leaving the hour windows) is out of scope of this check",
		"an operation is stamped after the record it acts upon (the transaction it spends is finalized earlier) and never reuses a timestamp of its own signer (the record key is (timestamp, signer); the kernel layer never produces an overwrite)",
		"signatures, input ownership and amounts of the node transactions are not examined by the storage layer; Badger transactions are atomic",
		"one snapshot per node transaction, written on a genesis chain's head round",
	)
	all := make([]crypto.Key, 0)
	for _, s := range a.Signers {
		all = append(all, s.PublicSpendKey)
	}
	below, above := 0, 0
	for _, k := range all[:3] {
		if bytes.Compare(k[:], all[3][:]) < 0 {
			below++
		} else {
			above++
		}
	}
	c.Set("pool_signers_ordered_before_genesis_signer", below)
	c.Set("pool_signers_ordered_after_genesis_signer", above)
	c.Require(below > 0 && above > 0, "key pool does not cover both record orders at equal timestamps (below=%d above=%d)", below, above)

	// vacuity guard: the canonical lifecycles are accepted
	func() {
		s := c27New(a, c, n)
		defer s.L.Close()
		s.check(false, false, func(key, desc string) { c.Violation("genesis:"+key, desc, map[string]any{"history": []string{}}) })
		for _, name := range []string{"pledge(S0,P0)@t", "accept(S0,P0)@t+1", "remove(S0,P0)@t+12h", "pledge(S1,P1)@t+12h", "cancel(S1,P1)@t+12h+2", "remove(G,PG)@t+12h+2"} {
			enabled, accepted := s.apply(a.find(name), false, func(key, desc string) {
				c.Violation(key, desc, map[string]any{"history": "canonical", "event": name})
			})
			c.Require(enabled && accepted, "canonical event %s was not accepted (enabled=%v)", name, enabled)
		}
		c.Require(len(s.Hist) == 7+6 && s.Hist[len(s.Hist)-1].State == common.NodeStateRemoved, "canonical run ended in %s", s.key())
	}()

	depth := verifmc.Pick(c, c27QuickDepth, c27ThoroughDepth)
	states, trans, d := c27BFS(c, a, n, depth)
	c.Set("max_depth", d)
	c.Set("alphabet_size", len(a.Events))
	for op, name := range c27OpNames {
		c.Set("accepted_"+name, n.accepted[op].Load())
		c.Set("rejected_"+name, n.rejected[op].Load())
	}
	c.Set("canonical_pledge_accept_remove", n.par.Load())
	c.Set("canonical_pledge_cancel", n.pc.Load())
	c.Set("accepted_with_equal_timestamp_of_other_signer", n.equalTsAccepted.Load())
	c.Set("rejected_for_payee_mismatch_only", n.mismatchReject.Load())
	var oooA, oooR int64
	for op, name := range c27OpNames {
		c.Set("out_of_order_accepted_"+name, n.oooAccepted[op].Load())
		c.Set("out_of_order_rejected_"+name, n.oooRejected[op].Load())
		oooA += n.oooAccepted[op].Load()
		oooR += n.oooRejected[op].Load()
	}
	var byA, byR, byW int64
	for op, name := range c27OpNames {
		c.Set("beyond_lookahead_recorded_"+name, n.beyondAccepted[op].Load())
		c.Set("beyond_lookahead_recorded_though_forbidden_"+name, n.beyondWrong[op].Load())
		c.Set("beyond_lookahead_rejected_"+name, n.beyondRejected[op].Load())
		byA += n.beyondAccepted[op].Load()
		byR += n.beyondRejected[op].Load()
		byW += n.beyondWrong[op].Load()
	}
	c.Set("beyond_lookahead_recorded_though_forbidden_total", byW)
	c.Set("violating_states_not_expanded", n.pruned.Load())
	c.Set("out_of_order_rejected_at_lookahead_boundary", n.boundaryRejected.Load())
	c.Set("second_remove_between_accept_and_first_remove_rejected", n.reRemoveInside.Load())
	c.Set("events_spending_the_named_output", n.naturalInput.Load())
	c.Set("events_spending_a_wallet_output", n.fundedInput.Load())
	c.Set("wallet_deposits_finalized", n.deposits.Load())
	if c.Violations() == 0 && d == depth {
		c.Require(states > 100 && trans > 1000, "vacuous C27 exploration: %d states %d transitions", states, trans)
		for op, name := range c27OpNames {
			c.Require(n.accepted[op].Load() > 0 && n.rejected[op].Load() > 0, "%s: accepted %d rejected %d", name, n.accepted[op].Load(), n.rejected[op].Load())
		}
		c.Require(n.par.Load() > 0 && n.pc.Load() > 0, "canonical sequences not reached inside the BFS: pledge-accept-remove %d, pledge-cancel %d", n.par.Load(), n.pc.Load())
		c.Require(n.equalTsAccepted.Load() > 0, "no record with a timestamp equal to another signer's record")
		c.Require(n.mismatchReject.Load() > 0, "no rejection for mismatching payee")
		c.Require(oooA > 0 && oooR > 0, "out-of-order events: accepted %d rejected %d", oooA, oooR)
		c.Require(n.oooRejected[c27Remove].Load() > 0 && n.oooAccepted[c27Remove].Load() > 0 && n.oooAccepted[c27Pledge].Load() > 0, "out-of-order removes / pledges not covered")
		for op, name := range c27OpNames {
			c.Require(n.beyondAccepted[op].Load()+n.beyondRejected[op].Load() > 0, "%s never offered beyond the look-ahead", name)
		}
		c.Require(byA > 0 && byR > 0, "beyond-lookahead events: recorded %d rejected %d", byA, byR)
		c.Require(n.reRemoveInside.Load() > 0, "no second remove stamped between a node's accept and its first remove")
		c.Require(n.boundaryRejected.Load() > 0, "look-ahead boundary (newest record at ts+12h) not exercised")
	}
}
