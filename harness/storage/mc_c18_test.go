//go:build verif

package storage

import (
	"fmt"
	"testing"
	"time"

	"github.com/MixinNetwork/mixin/common"
	"github.com/MixinNetwork/mixin/crypto"
	"github.com/MixinNetwork/mixin/verifmc"
)

// C18, storage part — the startup validator on real ledgers.
//
// The kernel part (package kernel) compares the three round-hash
// implementations on enumerated snapshot sets. This part closes the loop on a
// real store: rounds are closed with the hash the LIVE implementation
// (common.ComputeRoundHash) gives for the snapshots read back from the store,
// and the startup validator (ValidateGraphEntries, one goroutine per node, its
// own computeRoundHash) must find every one of them. Enumerated: how many
// snapshots chains A, B, C carry in the closed round (0..3 each) and the
// timestamp pattern (all distinct / all equal / first two equal).
//
// The validator runs its nodes concurrently; no scheduling point separates its
// hashing steps, so the free-running -race pass (TestMCRace_C18) is what covers
// unsynchronised sharing between those goroutines.

type c18Plan struct {
	counts  [3]int
	pattern int // 0 distinct, 1 all equal, 2 first two equal
}

func (p c18Plan) String() string {
	return fmt.Sprintf("counts=%v pattern=%s", p.counts, []string{"distinct", "all-equal", "first-two-equal"}[p.pattern])
}

// c18Build closes round 1 of chains 0..2 per plan; returns ledger and the number
// of transactions the validator should visit.
func c18Build(p c18Plan) (*mcLedger, int, error) {
	l := newMCLedger("")
	w := newMCWallet(l)
	base := l.Net.Epoch + uint64(time.Hour)
	extra := 0
	for ci := 0; ci < 3; ci++ {
		node := l.Net.NodeIds[ci]
		for k := 0; k < p.counts[ci]; k++ {
			ts := base + uint64(ci)*uint64(time.Minute)
			switch p.pattern {
			case 0:
				ts += uint64(k+1) * uint64(time.Second)
			case 1:
				ts += uint64(time.Second)
			case 2:
				if k < 2 {
					ts += uint64(time.Second)
				} else {
					ts += uint64(k+1) * uint64(time.Second)
				}
			}
			tx := w.txDeposit(common.XINAssetId, fmt.Sprint(ci*10+k+1))
			if _, err := l.Store.VerifFinalize(node, ts, true, tx); err != nil {
				return l, 0, fmt.Errorf("finalize %d/%d: %w", ci, k, err)
			}
			extra++
		}
	}
	for ci := 0; ci < 3; ci++ {
		if p.counts[ci] == 0 {
			continue
		}
		node := l.Net.NodeIds[ci]
		head, err := l.Store.ReadRound(node)
		if err != nil || head == nil {
			return l, 0, fmt.Errorf("head of chain %d: %v", ci, err)
		}
		snaps, err := l.Store.ReadSnapshotsForNodeRound(node, head.Number)
		if err != nil || len(snaps) != p.counts[ci] {
			return l, 0, fmt.Errorf("round %d of chain %d holds %d snapshots, want %d (%v)", head.Number, ci, len(snaps), p.counts[ci], err)
		}
		rs := make([]*common.Snapshot, len(snaps))
		for i, s := range snaps {
			rs[i] = s.Snapshot
		}
		start, _, hash := common.ComputeRoundHash(node, head.Number, rs)
		other, err := l.Store.ReadRound(l.Net.NodeIds[(ci+3)%len(l.Net.NodeIds)])
		if err != nil || other == nil {
			return l, 0, fmt.Errorf("external head: %v", err)
		}
		link := &common.RoundLink{Self: hash, External: other.References.Self}
		if err := l.Store.StartNewRound(node, head.Number+1, link, start); err != nil {
			return l, 0, fmt.Errorf("StartNewRound chain %d: %w", ci, err)
		}
	}
	return l, extra, nil
}

func c18Plans() []c18Plan {
	var out []c18Plan
	for a := 0; a <= 3; a++ {
		for b := 0; b <= 3; b++ {
			for cc := 0; cc <= 3; cc++ {
				for pat := 0; pat < 3; pat++ {
					if pat > 0 && a < 2 && b < 2 && cc < 2 {
						continue // pattern only matters with two or more snapshots somewhere
					}
					out = append(out, c18Plan{[3]int{a, b, cc}, pat})
				}
			}
		}
	}
	return out
}

func c18Validate(p c18Plan) (genesisTotal, total, invalid int, err error, pv any) {
	l, _, berr := c18Build(p)
	defer l.Close()
	if berr != nil {
		return 0, 0, 0, berr, nil
	}
	pv = verifmc.Catch(func() { total, invalid, err = l.Store.ValidateGraphEntries(l.Net.NetworkId, 10) })
	return
}

func TestMC_C18(t *testing.T) {
	c := verifmc.Start(t, "C18", "exploration")
	defer c.Finish()
	c.SetRule("storage part: full product of snapshot counts {0..3}^3 on three chains x timestamp pattern {distinct, all equal, first two equal}; each closed round is linked with the hash common.ComputeRoundHash gives for the stored snapshots, then the startup validator (ValidateGraphEntries, concurrent per node) must visit every transaction and report no invalid entry")
	c.Assume("rounds are closed by the harness through Store.StartNewRound with the live implementation's hash (the kernel's own path is C19/C20's subject)")
	base, _, _, berr, _ := func() (int, int, int, error, any) {
		_, tot, inv, err, pv := c18Validate(c18Plan{})
		return tot, inv, 0, err, pv
	}()
	c.Require(berr == nil && base > 0, "genesis ledger does not validate: total=%d err=%v", base, berr)
	plans := c18Plans()
	c.ParallelN(len(plans), "C18 storage plans", func(_, i int) {
		p := plans[i]
		_, total, invalid, err, pv := c18Validate(p)
		c.Eval(1)
		want := base + p.counts[0] + p.counts[1] + p.counts[2]
		switch {
		case pv != nil:
			c.Violation("validator:panic", fmt.Sprintf("%s: ValidateGraphEntries panicked: %v", p, pv), map[string]any{"plan": p.String()})
		case err != nil:
			c.Violation("validator:error", fmt.Sprintf("%s: ValidateGraphEntries failed: %v", p, err), map[string]any{"plan": p.String()})
		case invalid != 0:
			c.Violation("validator:live-round-hash-not-found", fmt.Sprintf("%s: the startup validator reports %d invalid entries on a ledger whose rounds were closed with the live implementation's hash", p, invalid), map[string]any{"plan": p.String()})
		case total != want:
			c.Violation("validator:visited-count", fmt.Sprintf("%s: validator visited %d transactions, ledger holds %d in the validated rounds", p, total, want), map[string]any{"plan": p.String()})
		default:
			c.Outcome("valid")
			if p.counts[0]+p.counts[1]+p.counts[2] >= 2 {
				c.Distinct(p.String())
			}
		}
		if i < 3 {
			c.Sample(map[string]any{"plan": p.String(), "validated_transactions": total, "invalid": invalid})
		}
	})
	c.Require(c.OutcomeCount("valid") > 50 || c.Violations() > 0, "vacuous storage part: %d valid ledgers", c.OutcomeCount("valid"))
}

// TestMCRace_C18 is the separate free-running pass (go test -race): the
// validator's per-node goroutines on ledgers where three chains have a closed
// round to hash.
func TestMCRace_C18(t *testing.T) {
	n := 0
	for _, p := range []c18Plan{{[3]int{3, 3, 3}, 0}, {[3]int{3, 2, 3}, 1}, {[3]int{2, 3, 3}, 2}} {
		for it := 0; it < 4; it++ {
			if _, _, _, err, pv := c18Validate(p); err != nil || pv != nil {
				t.Fatalf("%s: %v %v", p, err, pv)
			}
			n++
		}
	}
	verifmc.FreeExecutions.Add(int64(n))
	verifmc.RacePassDone("C18")
}

var _ = crypto.Hash{}
