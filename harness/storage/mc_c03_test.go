//go:build verif

package storage

import (
	"fmt"
	"sort"
	"strings"
	"sync"
	"testing"

	"github.com/MixinNetwork/mixin/common"
	"github.com/MixinNetwork/mixin/crypto"
	"github.com/MixinNetwork/mixin/verifmc"
	"github.com/MixinNetwork/mixin/verifmc/fixc"
	"github.com/dgraph-io/badger/v4"
)

// C03 — an output / deposit / mint slot is locked by at most one transaction.
// (1) explicit-state BFS over sequential histories against a reference map
// slot -> holder; (2) preemption-bounded DFS over goroutine interleavings of
// concurrent lock / finalization calls, each execution checked for
// linearisability against the same reference.

// ---- fixture: slots and competing transactions -------------------------

type c03Tx struct {
	name  string
	ver   *common.VersionedTransaction
	hash  crypto.Hash
	slots []string // slot names in input order
}

type c03Fix struct {
	w     *mcWallet
	txs   []*c03Tx
	slots []string
	read  map[string]func() crypto.Hash // slot -> current holder as stored
	group string
}

func c03Setup(group string, dir string) *c03Fix {
	l := newMCLedger(dir)
	w := newMCWallet(l)
	f := &c03Fix{w: w, read: map[string]func() crypto.Hash{}, group: group}
	add := func(name string, ver *common.VersionedTransaction, slots ...string) {
		f.txs = append(f.txs, &c03Tx{name: name, ver: ver, hash: ver.PayloadHash(), slots: slots})
	}
	switch group {
	case "utxo":
		// two spendable outputs U1, U2 of ONE source transaction (same hash,
		// indexes 0 and 1)
		var us []*common.Input
		{
			dep := l.Net.DepositBTC("c03-fund", "20", w.acct(), 1)
			if v, e := w.admit(dep); v != nil || e != nil {
				panic(fmt.Sprint(v, e))
			}
			split := w.sign(fixc.Transfer(common.BitcoinAssetId, []*common.Input{{Hash: dep.PayloadHash(), Index: 0}}, []fixc.Out{{To: w.acct(), T: 1, Amount: "10"}, {To: w.acct(), T: 1, Amount: "10"}}, "c03-split"))
			if v, e := w.admit(split); v != nil || e != nil {
				panic(fmt.Sprint(v, e))
			}
			us = append(us, &common.Input{Hash: split.PayloadHash(), Index: 0}, &common.Input{Hash: split.PayloadHash(), Index: 1})
		}
		mk := func(label string, ins ...*common.Input) *common.VersionedTransaction {
			amt := fmt.Sprint(10 * len(ins))
			tx := fixc.Transfer(common.BitcoinAssetId, ins, []fixc.Out{{To: w.acct(), T: 1, Amount: amt}}, "c03-"+label)
			return w.sign(tx)
		}
		add("A", mk("A", us[0]), "U1")
		add("B", mk("B", us[0]), "U1")
		add("C", mk("C", us[0], us[1]), "U1", "U2")
		add("D", mk("D", us[1], us[0]), "U2", "U1")
		add("E", mk("E", us[1]), "U2")
		for i, name := range []string{"U1", "U2"} {
			in := us[i]
			f.read[name] = func() crypto.Hash {
				u, err := l.Store.ReadUTXOLock(in.Hash, in.Index)
				if err != nil || u == nil {
					panic(fmt.Sprint("utxo unreadable ", err))
				}
				return u.LockHash
			}
		}
		f.slots = []string{"U1", "U2"}
	case "deposit":
		// deposits that differ only in output index / transaction id / chain
		type dd struct {
			slot, ext string
			idx       uint64
			chain     crypto.Hash
		}
		base := dd{"D1", "c03-ext", 0, common.BitcoinAssetId}
		vars := []dd{base, {"D2", "c03-ext", 1, common.BitcoinAssetId}, {"D3", "c03-ext2", 0, common.BitcoinAssetId}, {"D4", "c03-ext", 0, common.EthereumAssetId}}
		mk := func(d dd, label string) *common.VersionedTransaction {
			return l.Net.Deposit(common.BitcoinAssetId, d.chain, fixc.BTCAssetKey, d.ext, d.idx, common.NewIntegerFromString("3"), w.acct(), 1, "c03-"+label)
		}
		add("A", mk(vars[0], "dA"), "D1")
		add("B", mk(vars[0], "dB"), "D1")
		add("C", mk(vars[1], "dC"), "D2")
		add("E", mk(vars[2], "dE"), "D3")
		add("F", mk(vars[3], "dF"), "D4")
		// same external output (chain, transaction id, index) claimed under a
		// different asset key: the SAME deposit identifier, hence the same slot
		add("G", l.Net.Deposit(common.BitcoinAssetId, base.chain, fixc.BTCAssetKey+"-other", base.ext, base.idx, common.NewIntegerFromString("3"), w.acct(), 1, "c03-dG"), "D1")
		for _, v := range vars {
			data := &common.DepositData{Chain: v.chain, AssetKey: fixc.BTCAssetKey, Transaction: v.ext, Index: v.idx, Amount: common.NewIntegerFromString("3")}
			f.read[v.slot] = func() crypto.Hash {
				h, err := l.Store.ReadDepositLock(data)
				if err != nil {
					panic(err)
				}
				return h
			}
			f.slots = append(f.slots, v.slot)
		}
	case "mint":
		mk := func(batch uint64, label string) *common.VersionedTransaction {
			tx := common.NewTransactionV5(common.XINAssetId)
			tx.AddUniversalMintInput(batch, common.NewIntegerFromString("500"))
			tx.AddScriptOutput(w.acct(), common.NewThresholdScript(1), common.NewIntegerFromString("500"), fixc.Seed64("c03-"+label))
			ver := tx.AsVersioned()
			if err := ver.SignRaw(l.Net.Signers[0].PrivateSpendKey); err != nil {
				panic(err)
			}
			return ver
		}
		add("A", mk(1, "mA"), "M1")
		add("B", mk(1, "mB"), "M1")
		add("C", mk(2, "mC"), "M2")
		for i, name := range []string{"M1", "M2"} {
			batch := uint64(i + 1)
			f.read[name] = func() crypto.Hash {
				var h crypto.Hash
				_ = l.Store.snapshotsDB.View(func(txn *badger.Txn) error {
					d, err := readMintInput(txn, &common.MintData{Group: "UNIVERSAL", Batch: batch})
					if err == nil {
						h = d.Transaction
					}
					return nil
				})
				return h
			}
			f.slots = append(f.slots, name)
		}
	}
	return f
}

// ---- reference model -----------------------------------------------------

type c03Model struct {
	holder map[string]string // slot -> tx name
	body   map[string]bool
	final  map[string]bool
}

func c03NewModel() *c03Model {
	return &c03Model{holder: map[string]string{}, body: map[string]bool{}, final: map[string]bool{}}
}

func (m *c03Model) clone() *c03Model {
	n := c03NewModel()
	for k, v := range m.holder {
		n.holder[k] = v
	}
	for k, v := range m.body {
		n.body[k] = v
	}
	for k, v := range m.final {
		n.final[k] = v
	}
	return n
}

// lock applies the statement's rules; returns ok. On failure nothing changes.
func (m *c03Model) lock(tx *c03Tx, fork bool) bool {
	n := m.clone()
	for _, s := range tx.slots {
		h := n.holder[s]
		if h != "" && h != tx.name {
			if !fork {
				return false
			}
			if n.final[h] {
				return false // a finalized holder is never displaced
			}
			delete(n.body, h) // displaced pending holder loses its body in the same write
		}
		n.holder[s] = tx.name
	}
	*m = *n
	return true
}

func (m *c03Model) holdsAll(tx *c03Tx) bool {
	for _, s := range tx.slots {
		if m.holder[s] != tx.name {
			return false
		}
	}
	return true
}

func (m *c03Model) key() string {
	var p []string
	for _, s := range verifmc.SortedKeys(m.holder) {
		p = append(p, s+"="+m.holder[s])
	}
	p = append(p, "body:"+strings.Join(verifmc.SortedKeys(m.body), ""))
	p = append(p, "final:"+strings.Join(verifmc.SortedKeys(m.final), ""))
	return strings.Join(p, " ")
}

// ---- one operation on the implementation ---------------------------------

const (
	c03Lock = iota
	c03Fork
	c03Write
	c03Finalize
	c03NOps
)

var c03OpNames = []string{"lock", "lock-fork", "write", "snapshot"}

// c03Do performs op on the real store, returns ok (nil error, no panic).
func (f *c03Fix) do(tx *c03Tx, op int) (ok bool, detail string) {
	var err error
	p := verifmc.Catch(func() {
		switch op {
		case c03Lock:
			err = tx.ver.LockInputs(f.w.L.Store, false)
		case c03Fork:
			err = tx.ver.LockInputs(f.w.L.Store, true)
		case c03Write:
			err = f.w.L.Store.WriteTransaction(tx.ver)
		case c03Finalize:
			// the last primitive of the finalization path: WriteSnapshot only
			// (the path is fork-lock, write body, snapshot: three separate calls)
			st := f.w.L.Store
			node := f.w.L.Net.NodeIds[2]
			head, herr := st.ReadRound(node)
			if herr != nil {
				panic(herr)
			}
			f.w.Time += 1e9
			snap := &common.Snapshot{Version: common.SnapshotVersionCommonEncoding, NodeId: node, RoundNumber: head.Number, References: head.References, Timestamp: f.w.Time}
			snap.AddTransaction(tx.hash)
			snap.Hash = snap.PayloadHash()
			snap.Signature = &crypto.CosiSignature{Mask: 1}
			topo := &common.SnapshotWithTopologicalOrder{Snapshot: snap, TopologicalOrder: st.VerifNextTopology()}
			err = st.WriteSnapshot(topo, []crypto.Hash{node})
		}
	})
	if p != nil {
		return false, fmt.Sprint("panic: ", p)
	}
	if err != nil {
		return false, err.Error()
	}
	return true, ""
}

// observe reads the implementation's state in the model's vocabulary.
func (f *c03Fix) observe() *c03Model {
	m := c03NewModel()
	byHash := map[crypto.Hash]string{}
	for _, tx := range f.txs {
		byHash[tx.hash] = tx.name
	}
	for _, s := range f.slots {
		h := f.read[s]()
		if h.HasValue() {
			n, ok := byHash[h]
			if !ok {
				n = "?" + h.String()[:8]
			}
			m.holder[s] = n
		}
	}
	for _, tx := range f.txs {
		ver, snap, err := f.w.L.Store.ReadTransaction(tx.hash)
		if err != nil {
			panic(err)
		}
		if ver != nil {
			m.body[tx.name] = true
		}
		if snap != "" {
			m.final[tx.name] = true
		}
	}
	return m
}

// modelStep applies (tx,op) to the model; returns (enabled, expectOK).
func c03ModelStep(m *c03Model, tx *c03Tx, op int, group string) (enabled, ok bool) {
	switch op {
	case c03Lock:
		return true, m.lock(tx, false)
	case c03Fork:
		return true, m.lock(tx, true)
	case c03Write:
		// driver precondition (config.Debug assertion): all inputs locked by tx
		if !m.holdsAll(tx) {
			return false, false
		}
		if group == "deposit" && (tx.name == "F" || tx.name == "G") {
			return false, false // asset info of the chain / asset-key variant conflicts; not part of the lock property
		}
		m.body[tx.name] = true
		return true, true
	case c03Finalize:
		if m.final[tx.name] {
			return false, false // UNIQUE per node: a driver precondition
		}
		if group == "deposit" && tx.name == "F" {
			return false, false
		}
		if !m.body[tx.name] {
			return false, false // config.Debug: "snapshot transaction not exist"
		}
		m.final[tx.name] = true
		return true, true
	}
	return false, false
}

type c03State struct {
	f *c03Fix
	m *c03Model
}

func c03RunBFS(c *verifmc.Check, group string, depth int) (int64, int64) {
	probe := c03Setup(group, "")
	ntx := len(probe.txs)
	names := make([]string, 0, ntx*c03NOps)
	for _, tx := range probe.txs {
		for op := 0; op < c03NOps; op++ {
			names = append(names, group+":"+c03OpNames[op]+"("+tx.name+")")
		}
	}
	probe.w.L.Close()
	b := &verifmc.BFS[*c03State]{
		C: c, NumEvents: ntx * c03NOps, MaxDepth: depth,
		EventName: func(e int) string { return names[e] },
		New:       func(int) *c03State { return &c03State{f: c03Setup(group, ""), m: c03NewModel()} },
		Close:     func(s *c03State) { s.f.w.L.Close() },
		Key:       func(s *c03State) string { return group + "|" + s.m.key() },
		Apply: func(s *c03State, e int, replaying bool, report func(key, desc string)) bool {
			tx, op := s.f.txs[e/c03NOps], e%c03NOps
			before := s.m.clone()
			enabled, want := c03ModelStep(s.m, tx, op, group)
			if !enabled {
				return false
			}
			got, detail := s.f.do(tx, op)
			if replaying {
				return true
			}
			obs := s.f.observe()
			if got != want {
				if got {
					report(fmt.Sprintf("%s:%s-accepted", group, c03OpNames[op]), fmt.Sprintf("%s(%s) succeeded in state [%s] where the statement requires it to fail; stored state now [%s]", c03OpNames[op], tx.name, before.key(), obs.key()))
				} else {
					report(fmt.Sprintf("%s:%s-refused", group, c03OpNames[op]), fmt.Sprintf("%s(%s) failed (%s) in state [%s] where it must succeed", c03OpNames[op], tx.name, detail, before.key()))
				}
				return true
			}
			if obs.key() != s.m.key() {
				report(fmt.Sprintf("%s:%s-state", group, c03OpNames[op]), fmt.Sprintf("after %s(%s) from [%s]: stored state [%s], reference [%s]", c03OpNames[op], tx.name, before.key(), obs.key(), s.m.key()))
			}
			return true
		},
	}
	st, tr, _, _ := b.Run()
	return st, tr
}

// ---- concurrent part -------------------------------------------------------

type c03Call struct {
	tx  string
	op  int
	ok  bool
	det string
}

type c03Scenario struct {
	name    string
	group   string
	pre     [][2]any   // sequential prefix: (tx name, op)
	threads [][][2]any // per thread list of (tx name, op)
}

func c03Scenarios() []c03Scenario {
	L, F, W, Z := c03Lock, c03Fork, c03Write, c03Finalize
	_ = W
	return []c03Scenario{
		{"utxo: lock(A) || lock(B)", "utxo", nil, [][][2]any{{{"A", L}}, {{"B", L}}}},
		{"utxo: lock(A) || fork(B)", "utxo", nil, [][][2]any{{{"A", L}}, {{"B", F}}}},
		{"utxo: lock(C=U1,U2) || lock(D=U2,U1)", "utxo", nil, [][][2]any{{{"C", L}}, {{"D", L}}}},
		{"utxo: fork(C) || fork(D) || lock(A)", "utxo", nil, [][][2]any{{{"C", F}}, {{"D", F}}, {{"A", L}}}},
		{"utxo: [A locked+written] snapshot(A) || fork(B)", "utxo", [][2]any{{"A", L}, {"A", W}}, [][][2]any{{{"A", Z}}, {{"B", F}}}},
		{"utxo: [A locked+written] snapshot(A) || fork(C) || lock(B)", "utxo", [][2]any{{"A", L}, {"A", W}}, [][][2]any{{{"A", Z}}, {{"C", F}}, {{"B", L}}}},
		{"utxo: fork(A);write(A);snapshot(A) || fork(B);write(B)", "utxo", nil, [][][2]any{{{"A", F}, {"A", W}, {"A", Z}}, {{"B", F}, {"B", W}}}},
		{"utxo: lock(A);lock(A) || fork(B);lock(B)", "utxo", nil, [][][2]any{{{"A", L}, {"A", L}}, {{"B", F}, {"B", L}}}},
		{"utxo: [A,E locked+written, E final] fork(C) || lock(B)", "utxo", [][2]any{{"A", L}, {"A", W}, {"E", L}, {"E", W}, {"E", Z}}, [][][2]any{{{"C", F}}, {{"B", L}}}},
		{"deposit: lock(A) || lock(G asset-key variant)", "deposit", nil, [][][2]any{{{"A", L}}, {{"G", L}}}},
		{"deposit: lock(A) || lock(B) || lock(C index variant)", "deposit", nil, [][][2]any{{{"A", L}}, {{"B", L}}, {{"C", L}}}},
		{"deposit: lock(A) || fork(B) || lock(E txid variant)", "deposit", nil, [][][2]any{{{"A", L}}, {{"B", F}}, {{"E", L}}}},
		{"deposit: fork(A);write(A);snapshot(A) || fork(B)", "deposit", nil, [][][2]any{{{"A", F}, {"A", W}, {"A", Z}}, {{"B", F}}}},
		{"mint: lock(A) || lock(B) || lock(C batch2)", "mint", nil, [][][2]any{{{"A", L}}, {{"B", L}}, {{"C", L}}}},
		{"mint: fork(A);write(A);snapshot(A) || fork(B)", "mint", nil, [][][2]any{{{"A", F}, {"A", W}, {"A", Z}}, {{"B", F}}}},
	}
}

// c03Linearizable: is there an order of the calls respecting each thread's
// program order under which the reference model reproduces every result and
// the observed final state?
func c03Linearizable(f *c03Fix, start *c03Model, threads [][]*c03Call, final *c03Model) bool {
	idx := make([]int, len(threads))
	var rec func(m *c03Model) bool
	rec = func(m *c03Model) bool {
		done := true
		for t := range threads {
			if idx[t] < len(threads[t]) {
				done = false
				call := threads[t][idx[t]]
				var tx *c03Tx
				for _, x := range f.txs {
					if x.name == call.tx {
						tx = x
					}
				}
				n := m.clone()
				enabled, ok := c03ModelStep(n, tx, call.op, f.group)
				if !enabled {
					// precondition of the debug assertions violated in this order: the
					// implementation refuses (panic) without writing
					ok = false
					n = m.clone()
				}
				if ok == call.ok {
					idx[t]++
					if rec(n) {
						idx[t]--
						return true
					}
					idx[t]--
				}
			}
		}
		if done {
			return m.key() == final.key()
		}
		return false
	}
	return rec(start)
}

func TestMC_C03(t *testing.T) {
	c := verifmc.Start(t, "C03", "model_checking")
	defer c.Finish()
	c.SetRule("(1) BFS over all sequential histories of {lock, fork-lock, write body, finalize} x competing transactions per slot group (2 outputs / 4 deposit ids differing only in index, tx id or chain / 2 mint batches), real store compared with a slot->holder reference after every call; (2) for 15 concurrent scenarios every goroutine interleaving up to the preemption bound at store-mutex and Badger txn begin/commit points, each execution's call results and final stored state must be linearisable w.r.t. the same reference")
	c.Assume("Badger's serializable snapshot isolation: a transaction's reads are fixed at begin and its writes appear atomically at commit, so begin/commit and the store mutex are the only scheduling points that matter", "config.Debug assertions in WriteTransaction/WriteSnapshot are driver preconditions")
	depth := verifmc.Pick(c, 4, 5)
	var st, tr int64
	for _, g := range []string{"utxo", "deposit", "mint"} {
		s, x := c03RunBFS(c, g, depth)
		st += s
		tr += x
		c.Set("bfs_"+g, map[string]int64{"states": s, "transitions": x})
	}
	c.Require(st > 60 && tr > 500, "vacuous sequential exploration: %d states, %d transitions", st, tr)
	c03Concurrent(c)
}

// TestMCRace_C03 is the separate free-running pass (go test -race): the bodies
// of the concurrent scenarios on plain goroutines. It discharges the
// assumption that code between two scheduling points is free of data races.
func TestMCRace_C03(t *testing.T) {
	c := verifmc.Start(t, "C03", "model_checking")
	defer c.Finish()
	c03Concurrent(c)
	verifmc.RacePassDone("C03")
}

func c03Concurrent(c *verifmc.Check) {
	// concurrent part
	badger.VerifHook = func(kind, dir string, writes int) error {
		verifmc.Point("txn." + kind)
		return nil
	}
	defer func() { badger.VerifHook = nil }()
	scen := c03Scenarios()
	bound := verifmc.Pick(c, 2, 3)
	var mu sync.Mutex
	var execs int64
	contended := 0
	c.ParallelN(len(scen), "concurrent scenarios", func(_, i int) {
		sc := scen[i]
		ex := &verifmc.Explorer{C: c, Bound: bound, Name: sc.name}
		ex.Body = func(s *verifmc.Sched, report func(key, desc string)) string {
			f := c03Setup(sc.group, "")
			defer f.w.L.Close()
			find := func(n any) *c03Tx {
				for _, x := range f.txs {
					if x.name == n.(string) {
						return x
					}
				}
				panic(n)
			}
			start := c03NewModel()
			for _, p := range sc.pre {
				if ok, d := f.do(find(p[0]), p[1].(int)); !ok {
					panic("prefix failed: " + d)
				}
				c03ModelStep(start, find(p[0]), p[1].(int), sc.group)
			}
			calls := make([][]*c03Call, len(sc.threads))
			for ti, ops := range sc.threads {
				for _, o := range ops {
					calls[ti] = append(calls[ti], &c03Call{tx: o[0].(string), op: o[1].(int)})
				}
				mine := calls[ti]
				s.Go(fmt.Sprint("t", ti), func() {
					for _, call := range mine {
						call.ok, call.det = f.do(find(call.tx), call.op)
					}
				})
			}
			panics := s.RunAll()
			for ti, p := range panics {
				if p != nil {
					report("concurrent:thread-panic", fmt.Sprintf("thread %d: %v", ti, p))
				}
			}
			if s.Deadlock {
				report("concurrent:deadlock", "no enabled goroutine: "+strings.Join(s.Trace, " "))
				return "deadlock"
			}
			final := f.observe()
			var pat []string
			for ti := range calls {
				for _, call := range calls[ti] {
					pat = append(pat, fmt.Sprintf("%s(%s)=%v", c03OpNames[call.op], call.tx, call.ok))
				}
			}
			sort.Strings(pat)
			out := strings.Join(pat, " ") + " => " + final.key()
			if !c03Linearizable(f, start, calls, final) {
				report("concurrent:not-linearizable:"+sc.group, fmt.Sprintf("scenario %q: results [%s] are not explained by any sequential order of the calls under the reference model", sc.name, out))
			}
			return out
		}
		ex.Run()
		mu.Lock()
		execs += ex.Executions
		if len(ex.Outcomes) >= 2 {
			contended++
		}
		mu.Unlock()
	})
	c.Set("concurrent_scenarios", len(scen))
	c.Set("concurrent_executions", execs)
	c.Set("preemption_bound", bound)
	c.Set("scenarios_with_several_outcomes", contended)
	c.Require(verifmc.FreeRunning() || contended >= len(scen)/2 || c.Violations() > 0, "only %d of %d scenarios produced more than one outcome", contended, len(scen))
}
