//go:build verif

package storage

import (
	"bytes"
	"fmt"
	"hash/crc32"
	"strings"
	"sync"
	"sync/atomic"

	"github.com/MixinNetwork/mixin/common"
	"github.com/MixinNetwork/mixin/crypto"
	"github.com/MixinNetwork/mixin/verifmc"
	"github.com/MixinNetwork/mixin/verifmc/fixc"
)

// C23 "sizes" sub-part (sequential, storage): the BFS of mc_c23_test.go works on
// 3 payloads, so every list it hands to the cache is far below the internal
// batch size of CacheRemoveTransactions (100, visited 101 at a time) and below
// any interesting CacheRetrieveTransactions limit. This part enumerates the
// complete product of
//
//	removal-list lengths straddling every batch boundary x body patterns x follow-up
//	retrieval limits x queue lengths x queue compositions
//
// on the real cache DB with distinct small transactions, and compares every
// returned list and every body (CacheGetTransaction) with the same token model
// as the BFS (body, queued flag, ordered queue tokens), generalised to n payloads.

type c23SzBody struct {
	ver   *common.VersionedTransaction
	bytes []byte
	hash  crypto.Hash
}

var (
	c23SzPoolOnce sync.Once
	c23SzPoolVal  []*c23SzBody
	c23SzIndex    map[crypto.Hash]int
)

const c23SzPoolSize = 420

// c23SzPool: distinct small transactions built like c23Bodies (a deposit input
// and one script output); the payloads differ in the deposit transaction id
// and the extra bytes.
func c23SzPool() []*c23SzBody {
	c23SzPoolOnce.Do(func() {
		net := fixc.NewNet(7, "net7")
		to := fixc.Addr("c23")
		c23SzIndex = make(map[crypto.Hash]int)
		for i := 0; i < c23SzPoolSize; i++ {
			ext := fmt.Sprintf("c23-sz-%d", i)
			tx := common.NewTransactionV5(common.BitcoinAssetId)
			tx.AddDepositInput(&common.DepositData{Chain: common.BitcoinAssetId, AssetKey: fixc.BTCAssetKey, Transaction: ext, Index: 0, Amount: common.NewIntegerFromString("1")})
			tx.AddScriptOutput([]*common.Address{&to}, common.NewThresholdScript(1), common.NewIntegerFromString("1"), fixc.Seed64("c23:"+ext))
			ver := tx.AsVersioned()
			if err := ver.SignRaw(net.Custodian.PrivateSpendKey); err != nil {
				panic(err)
			}
			b := &c23SzBody{ver: ver, bytes: ver.Marshal(), hash: ver.PayloadHash()}
			if _, dup := c23SzIndex[b.hash]; dup {
				panic("c23 sizes pool: payload hash collision")
			}
			c23SzIndex[b.hash] = i
			c23SzPoolVal = append(c23SzPoolVal, b)
		}
	})
	return c23SzPoolVal
}

// ---- the token model of mc_c23_test.go over n payloads ----

type c23SzModel struct {
	body   []bool
	queued []bool
	tokens []int
}

func c23SzNewModel(n int) *c23SzModel {
	return &c23SzModel{body: make([]bool, n), queued: make([]bool, n)}
}

func (m *c23SzModel) queue(p int) {
	if m.queued[p] {
		return
	}
	m.queued[p] = true
	m.body[p] = true
	m.tokens = append(m.tokens, p)
}

func (m *c23SzModel) store(p int) { m.body[p] = true }

func (m *c23SzModel) remove(ps []int) {
	for _, p := range ps {
		m.body[p] = false
		m.queued[p] = false
	}
}

func (m *c23SzModel) retrieve(limit int) []int {
	var out []int
	seen := map[int]bool{}
	used := 0
	for _, p := range m.tokens {
		if len(out) >= limit {
			break
		}
		used++
		m.queued[p] = false
		if seen[p] {
			continue
		}
		seen[p] = true
		if m.body[p] {
			out = append(out, p)
		}
	}
	m.tokens = append([]int(nil), m.tokens[used:]...)
	return out
}

// ---- one case = a real store driven in lockstep with the model ----

type c23SzCase struct {
	st     *BadgerStore
	m      *c23SzModel
	pool   []*c23SzBody
	size   int // payload indices 0..size-1 are in use
	report func(key, desc string)
	broken bool
}

func c23SzNewCase(size int, report func(key, desc string)) *c23SzCase {
	return &c23SzCase{st: c23Open(), m: c23SzNewModel(size), pool: c23SzPool(), size: size, report: report}
}

func (cs *c23SzCase) close() { _ = cs.st.cacheDB.Close() }

func (cs *c23SzCase) fail(key, desc string) {
	cs.broken = true
	cs.report(key, desc)
}

func (cs *c23SzCase) queue(p int) {
	if err := cs.st.CacheQueueTransaction(cs.pool[p].ver); err != nil {
		cs.fail("sizes:error:queue", fmt.Sprintf("CacheQueueTransaction(#%d) failed: %v", p, err))
	}
	cs.m.queue(p)
}

func (cs *c23SzCase) store(p int) {
	if err := cs.st.CacheStoreTransaction(cs.pool[p].ver); err != nil {
		cs.fail("sizes:error:store", fmt.Sprintf("CacheStoreTransaction(#%d) failed: %v", p, err))
	}
	cs.m.store(p)
}

// removeChunked is only used to prepare queues with body-less entries: lists of
// at most 50 hashes, far from the batch boundary under test.
func (cs *c23SzCase) removeChunked(ps []int) {
	for len(ps) > 0 {
		k := min(len(ps), 50)
		hs := make([]crypto.Hash, k)
		for i, p := range ps[:k] {
			hs[i] = cs.pool[p].hash
		}
		if err := cs.st.CacheRemoveTransactions(hs); err != nil {
			cs.fail("sizes:error:remove", fmt.Sprintf("CacheRemoveTransactions(%d hashes) failed: %v", k, err))
		}
		cs.m.remove(ps[:k])
		ps = ps[k:]
	}
}

// bodies compares CacheGetTransaction of every payload in use with the model;
// returns the payloads present though the model has none (extra) and the
// payloads missing or different though the model has one (lost).
func (cs *c23SzCase) bodies() (extra, lost []int) {
	for p := 0; p < cs.size; p++ {
		ver, err := cs.st.CacheGetTransaction(cs.pool[p].hash)
		if err != nil {
			cs.fail("sizes:error:get", fmt.Sprintf("CacheGetTransaction(#%d) failed: %v", p, err))
			continue
		}
		switch {
		case ver != nil && !cs.m.body[p]:
			extra = append(extra, p)
		case ver == nil && cs.m.body[p]:
			lost = append(lost, p)
		case ver != nil && !bytes.Equal(ver.Marshal(), cs.pool[p].bytes):
			lost = append(lost, p)
		}
	}
	return
}

// retrieve calls the real CacheRetrieveTransactions and the model; returns both
// lists as payload indices (-1 = a transaction that was never given to the cache).
func (cs *c23SzCase) retrieve(limit int) (got, want []int) {
	want = cs.m.retrieve(limit)
	txs, err := cs.st.CacheRetrieveTransactions(limit)
	if err != nil {
		cs.fail("sizes:error:retrieve", fmt.Sprintf("CacheRetrieveTransactions(%d) failed: %v", limit, err))
		return nil, want
	}
	for _, tx := range txs {
		p, ok := c23SzIndex[tx.PayloadHash()]
		if !ok || p >= cs.size {
			p = -1
		}
		got = append(got, p)
	}
	return got, want
}

// drain empties the queue with CacheRetrieveTransactions(255) calls (the
// kernel's limit) in lockstep with the model; returns how often each payload
// was returned by the real store, by the model, and whether every call agreed.
func (cs *c23SzCase) drain() (gotN, wantN map[int]int, same bool, detail string) {
	gotN, wantN, same = map[int]int{}, map[int]int{}, true
	for round := 0; round < 16; round++ {
		pending := len(cs.m.tokens)
		got, want := cs.retrieve(255)
		for _, p := range got {
			gotN[p]++
		}
		for _, p := range want {
			wantN[p]++
		}
		if len(got) > 255 {
			cs.fail("sizes:retrieve-over-limit:limit>0", fmt.Sprintf("CacheRetrieveTransactions(255) returned %d transactions", len(got)))
		}
		if same && !c23SzEqual(got, want) {
			same = false
			detail = fmt.Sprintf("drain call %d: returned %s, the contract gives %s", round+1, c23SzShow(got), c23SzShow(want))
		}
		if len(got) == 0 && pending == 0 {
			return
		}
	}
	cs.fail("sizes:drain-does-not-terminate", "16 CacheRetrieveTransactions(255) calls did not empty a queue of at most 600 entries")
	return
}

func c23SzEqual(a, b []int) bool {
	if len(a) != len(b) {
		return false
	}
	for i := range a {
		if a[i] != b[i] {
			return false
		}
	}
	return true
}

func c23SzShow(l []int) string {
	if len(l) <= 8 {
		return fmt.Sprintf("%d%v", len(l), l)
	}
	return fmt.Sprintf("%d[%d %d %d .. %d %d]", len(l), l[0], l[1], l[2], l[len(l)-2], l[len(l)-1])
}

func c23SzBucket(n int) string {
	switch {
	case n <= 100:
		return "n<=100"
	case n == 101:
		return "n=101"
	}
	return "n>101"
}

func c23SzLimitClass(l int) string {
	if l == 0 {
		return "limit=0"
	}
	return "limit>0"
}

// ---- removal lists ----

var c23SzPatterns = []string{"queued", "stored", "alternate", "mixed3", "none"}

// c23SzSetup: how list member i is put into the cache before the removal.
// Q = CacheQueueTransaction (body + order + queue record), S = only
// CacheStoreTransaction (body), A = absent.
func c23SzSetup(pattern string, i int) byte {
	switch pattern {
	case "queued":
		return 'Q'
	case "stored":
		return 'S'
	case "alternate":
		return "QA"[i%2]
	case "mixed3":
		return "QSA"[i%3]
	}
	return 'A'
}

type c23SzRemoveCase struct {
	N       int    `json:"removal_list_length"`
	Pattern string `json:"pattern"`
	Variant string `json:"variant"` // drain | requeue
	Order   string `json:"list_order"`
}

func c23SzRunRemove(rc c23SzRemoveCase, report func(key, desc string)) (sig string, deleted int) {
	const sent = 3 // payloads 0,1,2 are sentinels that are never in the list
	cs := c23SzNewCase(sent+rc.N, report)
	defer cs.close()
	bucket := c23SzBucket(rc.N)
	what := fmt.Sprintf("removal list of %d hashes (%s, %s order, then %s)", rc.N, rc.Pattern, rc.Order, rc.Variant)

	cs.queue(0) // queued before the list members
	var setup strings.Builder
	for i := 0; i < rc.N; i++ {
		k := c23SzSetup(rc.Pattern, i)
		setup.WriteByte(k)
		switch k {
		case 'Q':
			cs.queue(sent + i)
		case 'S':
			cs.store(sent + i)
		}
	}
	cs.store(1) // body only, never queued
	cs.queue(2) // queued after the list members
	sig = fmt.Sprintf("sizes:remove:n=%d:%s:%s:%08x", rc.N, rc.Variant, rc.Order, crc32.ChecksumIEEE([]byte(setup.String())))
	if extra, lost := cs.bodies(); len(extra)+len(lost) > 0 {
		cs.fail("sizes:setup-bodies", fmt.Sprintf("%s: before the removal %d bodies are present that were never given, %d given bodies are missing", what, len(extra), len(lost)))
	}
	if cs.broken {
		return
	}

	list := make([]int, rc.N)
	hashes := make([]crypto.Hash, rc.N)
	for i := range list {
		p := sent + i
		if rc.Order == "reverse" {
			p = sent + rc.N - 1 - i
		}
		list[i], hashes[i] = p, cs.pool[p].hash
		if cs.m.body[p] {
			deleted++
		}
	}
	if err := cs.st.CacheRemoveTransactions(hashes); err != nil {
		cs.fail("sizes:remove-error:"+bucket, fmt.Sprintf("%s: CacheRemoveTransactions failed: %v", what, err))
		return
	}
	cs.m.remove(list)

	// removal deletes the body (of every list member) and touches nothing else
	extra, lost := cs.bodies()
	if len(extra) > 0 {
		pos := -1
		for i, p := range list {
			if p == extra[0] {
				pos = i
			}
		}
		cs.fail("sizes:remove-left-body:"+bucket, fmt.Sprintf("%s: CacheRemoveTransactions returned nil but %d of the removed bodies are still returned by CacheGetTransaction, first at list position %d", what, len(extra), pos))
	}
	if len(lost) > 0 {
		cs.fail("sizes:remove-touched-other:"+bucket, fmt.Sprintf("%s: bodies of transactions not in the list are gone or changed: %v", what, lost))
	}
	if cs.broken {
		return
	}

	inList := func(p int) bool { return p >= sent }
	switch rc.Variant {
	case "drain":
		gotN, _, same, detail := cs.drain()
		left := 0
		for p, k := range gotN {
			if inList(p) && k > 0 {
				left++
			}
		}
		if left > 0 {
			cs.fail("sizes:remove-left-eligible:"+bucket, fmt.Sprintf("%s: %d removed transactions are returned by the following CacheRetrieveTransactions(255) calls", what, left))
		}
		if gotN[0] != 1 || gotN[2] != 1 || gotN[1] != 0 || gotN[-1] != 0 {
			cs.fail("sizes:remove-touched-other:"+bucket, fmt.Sprintf("%s: the two queued transactions outside the list were retrieved %d and %d times (contract: once each), the stored-only one %d times, unknown transactions %d times", what, gotN[0], gotN[2], gotN[1], gotN[-1]))
		}
		if !cs.broken && !same {
			cs.fail("sizes:remove-drain-differs:"+bucket, what+": "+detail)
		}
	case "requeue":
		// queueing a removed transaction again makes it eligible again (the order
		// record is deleted with the body) and stores the body again
		for _, p := range list {
			cs.queue(p)
		}
		if extra, lost := cs.bodies(); len(extra)+len(lost) > 0 {
			cs.fail("sizes:requeue-after-remove-body:"+bucket, fmt.Sprintf("%s: after queueing all list members again %d of their bodies are missing", what, len(lost)))
		}
		gotN, wantN, same, detail := cs.drain()
		never := 0
		for _, p := range list {
			if gotN[p] == 0 && wantN[p] > 0 {
				never++
			}
		}
		if never > 0 {
			cs.fail("sizes:requeue-after-remove-not-eligible:"+bucket, fmt.Sprintf("%s: %d transactions queued again after their removal are never returned by retrieval", what, never))
		}
		if gotN[0] != 1 || gotN[2] != 1 || gotN[1] != 0 || gotN[-1] != 0 {
			cs.fail("sizes:remove-touched-other:"+bucket, fmt.Sprintf("%s: the two queued transactions outside the list were retrieved %d and %d times (contract: once each), the stored-only one %d times, unknown transactions %d times", what, gotN[0], gotN[2], gotN[1], gotN[-1]))
		}
		if !cs.broken && !same {
			cs.fail("sizes:requeue-after-remove-differs:"+bucket, what+": "+detail)
		}
	}
	// retrieval keeps the stored body: everything the model still holds is there
	if extra, lost := cs.bodies(); !cs.broken && len(extra)+len(lost) > 0 {
		cs.fail("sizes:retrieve-dropped-body", fmt.Sprintf("%s: after draining the queue %d bodies are missing and %d unexpected bodies are present", what, len(lost), len(extra)))
	}
	return
}

// ---- retrieval limits ----

var c23SzComps = []string{"plain", "holes", "dups"}

type c23SzRetrieveCase struct {
	Limit int    `json:"limit"`
	Queue int    `json:"queue_entries"`
	Comp  string `json:"composition"`
}

// c23SzRunRetrieve: a queue of rc.Queue entries (plain: every entry has its
// body; holes: every third body was removed afterwards, its queue record
// stays; dups: half of the removed ones were queued again, so the queue holds
// two records of one payload), 4 stored-only transactions that must never be
// returned, then ONE CacheRetrieveTransactions(limit) compared with the model,
// then the returned ones are queued again and the queue is drained.
func c23SzRunRetrieve(rc c23SzRetrieveCase, report func(key, desc string)) (sig string, returned int) {
	const storedOnly = 4
	cs := c23SzNewCase(rc.Queue+storedOnly, report)
	defer cs.close()
	what := fmt.Sprintf("CacheRetrieveTransactions(%d) on a queue of %d entries (%s)", rc.Limit, rc.Queue, rc.Comp)
	lc := c23SzLimitClass(rc.Limit)

	for p := 0; p < rc.Queue; p++ {
		cs.queue(p)
		if p%100 == 50 {
			cs.store(rc.Queue + (p/100)%storedOnly)
		}
	}
	for p := rc.Queue; p < rc.Queue+storedOnly; p++ {
		cs.store(p)
	}
	if rc.Comp != "plain" {
		var holes, again []int
		for p := 0; p < rc.Queue; p++ {
			if p%3 == 1 {
				holes = append(holes, p)
				if p%6 == 1 {
					again = append(again, p)
				}
			}
		}
		cs.removeChunked(holes)
		if rc.Comp == "dups" {
			for _, p := range again {
				cs.queue(p)
			}
		}
	}
	sig = fmt.Sprintf("sizes:retrieve:limit=%d:tokens=%d:bodies=%d", rc.Limit, len(cs.m.tokens), c23SzCount(cs.m.body))
	if extra, lost := cs.bodies(); len(extra)+len(lost) > 0 {
		cs.fail("sizes:setup-bodies", fmt.Sprintf("%s: before the retrieval %d unexpected bodies, %d missing bodies", what, len(extra), len(lost)))
	}
	if cs.broken {
		return
	}

	got, want := cs.retrieve(rc.Limit)
	returned = len(got)
	if len(got) > max(rc.Limit, 0) {
		cs.fail("sizes:retrieve-over-limit:"+lc, fmt.Sprintf("%s returned %d transactions", what, len(got)))
	}
	seen := map[int]bool{}
	for _, p := range got {
		if seen[p] {
			cs.fail("sizes:retrieve-duplicate:"+lc, fmt.Sprintf("%s returned transaction #%d twice", what, p))
		}
		seen[p] = true
		if p < 0 || p >= rc.Queue {
			cs.fail("sizes:retrieve-not-eligible:"+lc, fmt.Sprintf("%s returned a transaction that was only stored, never queued (#%d)", what, p))
		}
	}
	if !cs.broken && !c23SzEqual(got, want) {
		cs.fail("sizes:retrieve-differs:"+lc, fmt.Sprintf("%s returned %s, the contract gives %s", what, c23SzShow(got), c23SzShow(want)))
	}
	if extra, lost := cs.bodies(); len(extra)+len(lost) > 0 {
		cs.fail("sizes:retrieve-dropped-body", fmt.Sprintf("%s: afterwards %d bodies are missing and %d unexpected bodies are present", what, len(lost), len(extra)))
	}
	if cs.broken {
		return
	}

	// re-queueing after retrieval makes the transaction eligible again; then each
	// queueing still pending is returned by exactly the retrieval the model names
	for _, p := range got {
		cs.queue(p)
	}
	gotN, wantN, same, detail := cs.drain()
	lostN, twice := 0, 0
	for p, k := range wantN {
		if gotN[p] < k {
			lostN++
		}
	}
	for p, k := range gotN {
		if k > wantN[p] {
			twice++
		}
	}
	if lostN > 0 {
		cs.fail("sizes:retrieve-consumed-unreturned:"+lc, fmt.Sprintf("%s: %d queued transactions with a body (or queued again after retrieval) are never returned by the following CacheRetrieveTransactions(255) calls", what, lostN))
	}
	if twice > 0 {
		cs.fail("sizes:retrieve-returned-again:"+lc, fmt.Sprintf("%s: %d transactions are returned more often than they were queued", what, twice))
	}
	if !cs.broken && !same {
		cs.fail("sizes:retrieve-drain-differs:"+lc, what+": "+detail)
	}
	if extra, lost := cs.bodies(); !cs.broken && len(extra)+len(lost) > 0 {
		cs.fail("sizes:retrieve-dropped-body", fmt.Sprintf("%s: after draining the queue %d bodies are missing and %d unexpected bodies are present", what, len(lost), len(extra)))
	}
	return
}

func c23SzCount(b []bool) (n int) {
	for _, x := range b {
		if x {
			n++
		}
	}
	return
}

// c23Sizes is the sequential "sizes" sub-part; not run in the free-running pass.
func c23Sizes(c *verifmc.Check) {
	removeSizes := []int{0, 1, 2, 100, 101, 102, 103, 150, 201, 202, 203, 255, 256}
	limits := []int{0, 1, 2, 100, 101, 255}
	queues := []int{0, 1, 150, 300}
	orders := []string{"queue"}
	if c.Thorough() {
		removeSizes = append(removeSizes, 3, 99, 199, 200, 204, 254, 300, 301, 302, 303, 401, 402, 403)
		limits = append(limits, 3, 99, 149, 150, 151, 254, 256, 300, 301)
		queues = append(queues, 2, 100, 101, 255, 256)
		orders = append(orders, "reverse")
	}
	c23SzPool()

	var rcs []c23SzRemoveCase
	for _, n := range removeSizes {
		for _, p := range c23SzPatterns {
			for _, v := range []string{"drain", "requeue"} {
				for _, o := range orders {
					rcs = append(rcs, c23SzRemoveCase{N: n, Pattern: p, Variant: v, Order: o})
				}
			}
		}
	}
	var deleted, over101 atomic.Int64
	c.ParallelN(len(rcs), "sizes: removal lists", func(_, i int) {
		if c.Expired("sizes: removal lists") {
			return
		}
		rc := rcs[i]
		bad := false
		sig, del := c23SzRunRemove(rc, func(key, desc string) {
			bad = true
			c.Violation(key, desc, map[string]any{"part": "sizes-remove", "case": rc})
		})
		c.Eval(1)
		if sig != "" && c.Distinct(sig) {
			c.Sample(map[string]any{"part": "sizes-remove", "case": rc, "bodies_deleted": del})
		}
		deleted.Add(int64(del))
		if rc.N > 101 && del > 0 {
			over101.Add(1)
		}
		if bad {
			c.Outcome("sizes:remove:differs")
		} else if del > 0 {
			c.Outcome("sizes:remove:bodies-deleted")
		} else {
			c.Outcome("sizes:remove:nothing-to-delete")
		}
	})

	var rts []c23SzRetrieveCase
	for _, l := range limits {
		for _, q := range queues {
			for _, cp := range c23SzComps {
				rts = append(rts, c23SzRetrieveCase{Limit: l, Queue: q, Comp: cp})
			}
		}
	}
	var full, short, zeroOnFilled atomic.Int64
	c.ParallelN(len(rts), "sizes: retrieval limits", func(_, i int) {
		if c.Expired("sizes: retrieval limits") {
			return
		}
		rc := rts[i]
		bad := false
		sig, ret := c23SzRunRetrieve(rc, func(key, desc string) {
			bad = true
			c.Violation(key, desc, map[string]any{"part": "sizes-retrieve", "case": rc})
		})
		c.Eval(1)
		if sig != "" && c.Distinct(sig) {
			c.Sample(map[string]any{"part": "sizes-retrieve", "case": rc, "returned": ret})
		}
		switch {
		case bad:
			c.Outcome("sizes:retrieve:differs")
		case rc.Limit == 0 && rc.Queue > 0:
			zeroOnFilled.Add(1)
			c.Outcome("sizes:retrieve:limit-0-returns-nothing")
		case ret == rc.Limit && rc.Queue > rc.Limit:
			full.Add(1)
			c.Outcome("sizes:retrieve:cut-at-limit")
		default:
			short.Add(1)
			c.Outcome("sizes:retrieve:queue-exhausted")
		}
	})

	c.Set("sizes_removal_lengths", removeSizes)
	c.Set("sizes_removal_cases", len(rcs))
	c.Set("sizes_removal_bodies_deleted", deleted.Load())
	c.Set("sizes_retrieve_limits", limits)
	c.Set("sizes_retrieve_queue_lengths", queues)
	c.Set("sizes_retrieve_cases", len(rts))
	if c.Violations() == 0 && !c.Expired("sizes") {
		c.Require(over101.Load() >= 12 && deleted.Load() > 3000, "vacuous sizes part: %d removal cases above 101 hashes deleted bodies, %d bodies deleted", over101.Load(), deleted.Load())
		c.Require(full.Load() >= 8 && short.Load() >= 8 && zeroOnFilled.Load() >= 3, "vacuous sizes part: retrievals cut at the limit %d, exhausting the queue %d, limit 0 on a filled queue %d", full.Load(), short.Load(), zeroOnFilled.Load())
	}
}
