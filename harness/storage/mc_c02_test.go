//go:build verif

package storage

import (
	"bytes"
	"crypto/sha512"
	"encoding/binary"
	"encoding/hex"
	"fmt"
	"math/bits"
	"sort"
	"strings"
	"syscall"
	"testing"
	"time"

	"filippo.io/edwards25519"
	"github.com/MixinNetwork/mixin/common"
	"github.com/MixinNetwork/mixin/crypto"
	"github.com/MixinNetwork/mixin/verifmc"
	"github.com/MixinNetwork/mixin/verifmc/fixc"
)

// C02 — spending requires threshold signatures over the payload hash.
//
// Bounded-exhaustive enumeration (E1) of signature-map shapes, aggregate signer
// lists and single-bit tampering against the real Validate over a real
// BadgerStore ledger; oracle = independent reference written on edwards25519
// (no call into crypto.Verify / BatchVerify / AggregateVerify).

var (
	c02Ns = []int{1, 2, 3}
	c02Ts = []int{0, 1, 2, 3, 64}
)

const (
	c02Absent = iota
	c02Valid
	c02OtherSame
	c02OtherInput
	c02OtherPayload
	c02Junk
	c02Kinds
)

// ---------------------------------------------------------------- reference

var c02Identity = edwards25519.NewIdentityPoint()

func c02Scalar64(parts ...[]byte) *edwards25519.Scalar {
	h := sha512.New()
	for _, p := range parts {
		h.Write(p)
	}
	s, err := edwards25519.NewScalar().SetUniformBytes(h.Sum(nil))
	if err != nil {
		panic(err)
	}
	return s
}

// c02RefPoint decodes a canonical, prime-order, non-identity point.
func c02RefPoint(b []byte) *edwards25519.Point {
	if len(b) != 32 {
		return nil
	}
	p, err := edwards25519.NewIdentityPoint().SetBytes(b)
	if err != nil || !bytes.Equal(p.Bytes(), b) || p.Equal(c02Identity) == 1 {
		return nil
	}
	// [l]P = [l-1]P + P must be the identity (l-1 = -1 mod l as an integer scalar)
	one := make([]byte, 32)
	one[0] = 1
	s1, _ := edwards25519.NewScalar().SetCanonicalBytes(one)
	lm1 := edwards25519.NewScalar().Negate(s1)
	q := edwards25519.NewIdentityPoint().ScalarMult(lm1, p)
	q.Add(q, p)
	if q.Equal(c02Identity) != 1 {
		return nil
	}
	return p
}

// c02RefVerify is the reference Schnorr verifier of crypto/signature.go's
// scheme: x = H512(R || A || m) mod l ; [s]B == R + [x]A ; R, A canonical
// prime-order points, s canonical.
func c02RefVerify(pub []byte, msg crypto.Hash, sig []byte) bool {
	if len(sig) != 64 {
		return false
	}
	A := c02RefPoint(pub)
	R := c02RefPoint(sig[:32])
	if A == nil || R == nil {
		return false
	}
	s, err := edwards25519.NewScalar().SetCanonicalBytes(sig[32:])
	if err != nil {
		return false
	}
	x := c02Scalar64(sig[:32], pub, msg[:])
	lhs := edwards25519.NewIdentityPoint().ScalarBaseMult(s)
	rhs := edwards25519.NewIdentityPoint().ScalarMult(x, A)
	rhs.Add(rhs, R)
	return lhs.Equal(rhs) == 1
}

// c02RefAggVerify is the reference of crypto/aggregation.go: weighted key
// sum(c_i P_i), c_i = H512(domain || transcript || be32(i) || P_i), transcript
// = be32(len) || (be32(i) || P_i)*, strictly increasing in-range signers.
func c02RefAggVerify(sig *crypto.Signature, publics []*crypto.Key, signers []int, msg crypto.Hash) bool {
	if len(signers) == 0 {
		return false
	}
	prev := -1
	transcript := binary.BigEndian.AppendUint32(nil, uint32(len(signers)))
	for _, i := range signers {
		if i <= prev || i >= len(publics) {
			return false
		}
		prev = i
		transcript = binary.BigEndian.AppendUint32(transcript, uint32(i))
		transcript = append(transcript, publics[i][:]...)
	}
	A := edwards25519.NewIdentityPoint()
	for _, i := range signers {
		P := c02RefPoint(publics[i][:])
		if P == nil {
			return false
		}
		coeff := c02Scalar64([]byte("mixin-aggregate-coefficient-v1"), transcript, binary.BigEndian.AppendUint32(nil, uint32(i)), publics[i][:])
		A.Add(A, edwards25519.NewIdentityPoint().ScalarMult(coeff, P))
	}
	return c02RefVerify(A.Bytes(), msg, sig[:])
}

// ---------------------------------------------------------------- ledger

type c02UTXO struct {
	Label string
	N, T  int
	Hash  crypto.Hash
	Keys  []*crypto.Key
	Priv  []*crypto.Key
}

type c02MemoKey struct {
	pub crypto.Key
	msg crypto.Hash
	sig crypto.Signature
}

type c02World struct {
	L      *mcLedger
	A, B   []*c02UTXO // index = ni*len(c02Ts)+ti
	F      *c02UTXO   // foreign utxo, never an input
	seq    int
	ts     uint64
	spends map[string]*c02Spend
	memo   map[c02MemoKey]bool
	bases  []*c02Base
}

func (w *c02World) refVerify(pub *crypto.Key, msg crypto.Hash, sig *crypto.Signature) bool {
	k := c02MemoKey{*pub, msg, *sig}
	if v, ok := w.memo[k]; ok {
		return v
	}
	v := c02RefVerify(pub[:], msg, sig[:])
	w.memo[k] = v
	return v
}

func (w *c02World) deposit(label string, n, t int) *c02UTXO {
	addrs := make([]common.Address, n)
	to := make([]*common.Address, n)
	for j := range addrs {
		addrs[j] = fixc.Addr(fmt.Sprintf("c02-%s-k%d", label, j))
		to[j] = &addrs[j]
	}
	tx := w.L.Net.DepositXIN("c02-dep-"+label, "1", to, uint8(t))
	ts := w.L.Net.Epoch + uint64(time.Hour) + uint64(w.seq)*uint64(time.Second)
	w.seq++
	if err := tx.Validate(w.L.Store, ts, false); err != nil {
		panic(fmt.Sprintf("C02 fixture: deposit %s does not validate: %v", label, err))
	}
	if _, err := w.L.Store.VerifFinalize(w.L.Net.NodeIds[1], ts, true, tx); err != nil {
		panic(fmt.Sprintf("C02 fixture: deposit %s not finalized: %v", label, err))
	}
	h := tx.PayloadHash()
	ku, err := w.L.Store.ReadUTXOKeys(h, 0)
	if err != nil || ku == nil || len(ku.Keys) != n {
		panic(fmt.Sprintf("C02 fixture: utxo keys of %s: %v", label, err))
	}
	lock, err := w.L.Store.ReadUTXOLock(h, 0)
	if err != nil || lock == nil || len(lock.Script) != 3 || int(lock.Script[2]) != t || lock.LockHash.HasValue() {
		panic(fmt.Sprintf("C02 fixture: utxo %s stored wrongly: %v", label, err))
	}
	u := &c02UTXO{Label: label, N: n, T: t, Hash: h, Keys: ku.Keys}
	for _, k := range ku.Keys {
		var found *crypto.Key
		for j := range addrs {
			priv := crypto.DeriveGhostPrivateKey(&ku.Mask, &addrs[j].PrivateViewKey, &addrs[j].PrivateSpendKey, 0)
			if priv.Public() == *k {
				found = priv
			}
		}
		if found == nil {
			panic("C02 fixture: ghost private key not derivable for " + label)
		}
		u.Priv = append(u.Priv, found)
	}
	return u
}

func c02NewWorld() *c02World {
	w := &c02World{L: newMCLedger(""), spends: map[string]*c02Spend{}, memo: map[c02MemoKey]bool{}}
	for _, n := range c02Ns {
		for _, t := range c02Ts {
			w.A = append(w.A, w.deposit(fmt.Sprintf("A-n%d-t%d", n, t), n, t))
			w.B = append(w.B, w.deposit(fmt.Sprintf("B-n%d-t%d", n, t), n, t))
		}
	}
	w.F = w.deposit("F-n3-t1", 3, 1)
	w.ts = w.L.Net.Epoch + 2*uint64(time.Hour)
	return w
}

func c02Kind(n, t int) int {
	for ni, nn := range c02Ns {
		for ti, tt := range c02Ts {
			if nn == n && tt == t {
				return ni*len(c02Ts) + ti
			}
		}
	}
	panic("no such utxo kind")
}

// ---------------------------------------------------------------- spends

type c02Spend struct {
	Label string
	Ins   []*c02UTXO
	Tx    *common.Transaction
	H, H2 crypto.Hash
	Keys  []*crypto.Key
	Priv  []*crypto.Key
	Off   []int
	S     int
	// signature-map menu: [input][index 0..n][kind]
	sig   [][][c02Kinds]*crypto.Signature
	desc  [][][c02Kinds]string
	vmask [][][c02Kinds]uint32 // reference: global key indexes the signature verifies under (over H)
	own   []uint32             // global key mask of every input
}

func c02Junk64(label string) *crypto.Signature {
	var s crypto.Signature
	copy(s[:], fixc.Seed64("c02-junk:"+label))
	return &s
}

func (w *c02World) spend(ins ...*c02UTXO) *c02Spend {
	var labels []string
	for _, u := range ins {
		labels = append(labels, u.Label)
	}
	label := strings.Join(labels, "+")
	if sp := w.spends[label]; sp != nil {
		return sp
	}
	sp := &c02Spend{Label: label, Ins: ins}
	tx := common.NewTransactionV5(common.XINAssetId)
	for _, u := range ins {
		tx.AddInput(u.Hash, 0)
		sp.Off = append(sp.Off, len(sp.Keys))
		sp.Keys = append(sp.Keys, u.Keys...)
		sp.Priv = append(sp.Priv, u.Priv...)
	}
	sp.S = len(sp.Keys)
	recv := fixc.Addr("c02-recv")
	// the outputs (ghost keys) are a function of the input combination = of the payload hash
	tx.AddScriptOutput([]*common.Address{&recv}, common.NewThresholdScript(1), common.NewIntegerFromString(fmt.Sprint(len(ins))), fixc.Seed64("c02-out:"+label))
	sp.Tx = tx
	sp.H = tx.AsVersioned().PayloadHash()
	other := *tx
	other.Extra = []byte("c02-other-payload")
	sp.H2 = other.AsVersioned().PayloadHash()
	if sp.H == sp.H2 {
		panic("payload hashes collide")
	}

	okH := make([]*crypto.Signature, sp.S)
	okH2 := make([]*crypto.Signature, sp.S)
	for g, priv := range sp.Priv {
		a, b := priv.Sign(sp.H), priv.Sign(sp.H2)
		okH[g], okH2[g] = &a, &b
	}
	foreign := make([]*crypto.Signature, len(w.F.Priv))
	for j, priv := range w.F.Priv {
		s := priv.Sign(sp.H)
		foreign[j] = &s
	}
	maskOf := func(sig *crypto.Signature) uint32 {
		var m uint32
		for g, k := range sp.Keys {
			if w.refVerify(k, sp.H, sig) {
				m |= 1 << uint(g)
			}
		}
		return m
	}
	for p, u := range ins {
		var own uint32
		for j := 0; j < u.N; j++ {
			own |= 1 << uint(sp.Off[p]+j)
		}
		sp.own = append(sp.own, own)
		sigs := make([][c02Kinds]*crypto.Signature, u.N+1)
		desc := make([][c02Kinds]string, u.N+1)
		vm := make([][c02Kinds]uint32, u.N+1)
		for i := 0; i <= u.N; i++ {
			self := i % u.N // the out-of-range index n carries key 0's signatures
			g := sp.Off[p] + self
			sigs[i][c02Valid], desc[i][c02Valid] = okH[g], fmt.Sprintf("k%dh", g)
			g2 := sp.Off[p] + (self+1)%u.N
			sigs[i][c02OtherSame], desc[i][c02OtherSame] = okH[g2], fmt.Sprintf("k%dh", g2)
			if len(ins) == 2 {
				q := 1 - p
				g3 := sp.Off[q] + min(i, ins[q].N-1)
				sigs[i][c02OtherInput], desc[i][c02OtherInput] = okH[g3], fmt.Sprintf("k%dh", g3)
			} else {
				sigs[i][c02OtherInput], desc[i][c02OtherInput] = foreign[i%len(foreign)], fmt.Sprintf("f%dh", i%len(foreign))
			}
			sigs[i][c02OtherPayload], desc[i][c02OtherPayload] = okH2[g], fmt.Sprintf("k%dx", g)
			sigs[i][c02Junk], desc[i][c02Junk] = c02Junk64(fmt.Sprintf("%s:%d:%d", label, p, i)), "junk"
			for k := c02Valid; k < c02Kinds; k++ {
				vm[i][k] = maskOf(sigs[i][k])
			}
		}
		sp.sig = append(sp.sig, sigs)
		sp.desc = append(sp.desc, desc)
		sp.vmask = append(sp.vmask, vm)
	}
	w.spends[label] = sp
	return sp
}

func (sp *c02Spend) shape() string {
	var ns, ts []string
	for _, u := range sp.Ins {
		ns = append(ns, fmt.Sprint(u.N))
		ts = append(ts, fmt.Sprint(u.T))
	}
	return "n=" + strings.Join(ns, ",") + ":t=" + strings.Join(ts, ",")
}

// ---------------------------------------------------------------- classification of Validate results

var c02PostAuth = []string{
	"invalid input amount", "invalid input output amount", "invalid output", "invalid script",
	"duplicated ghost key", "ghost key", "invalid utxo type",
}

var c02Auth = [][2]string{
	{"invalid signature map index", "map-index-out-of-range"},
	{"invalid signature keys", "below-threshold"},
	{"batch verification not ready", "not-ready"},
	{"batch verification failure", "batch-fail"},
	{"aggregate verification failure AggregateVerify aggregateWeightedPublicKey invalid aggregation signer index", "agg-signer-out-of-range"},
	{"aggregate verification failure AggregateVerify aggregateWeightedPublicKey", "agg-signer-list"},
	{"aggregate verification failure AggregateVerify signature verify failed", "agg-verify-fail"},
	{"aggregate verification failure", "agg-fail"},
	{"invalid aggregated signer order", "signers-not-increasing"},
	{"too many aggregated signers", "signers-too-many"},
	{"invalid tx signature number", "sigmap-count"},
	{"invalid signature map count", "sigmap-count"},
	{"invalid signatures map", "both-forms"},
}

var c02Pre = [][2]string{
	{"invalid tx version", "version"}, {"invalid tx type", "type"}, {"invalid tx inputs or outputs", "io-count"},
	{"invalid input index", "input-index"}, {"invalid extra size", "extra-size"}, {"invalid transaction size", "size"},
	{"too many references", "references"}, {"reference not found", "references"}, {"invalid genesis", "genesis-input"},
	{"input not found", "input-not-found"}, {"invalid input asset", "input-asset"}, {"input locked for transaction", "input-locked"},
	{"invalid input type", "input-type"}, {"pledge input used", "input-type"}, {"accept input used", "input-type"},
	{"should do more validation", "input-type"}, {"invalid input ", "duplicate-input"},
}

// c02Classify maps a Validate error to the stage that produced it:
// "accept", "pre" (before any signature is looked at), "auth" (the
// authorization checks of validateInputs/validateUTXO), "post" (something
// after validateInputs returned nil: authorization PASSED), "unknown".
func c02Classify(err error) (stage, class string) {
	if err == nil {
		return "accept", "accept"
	}
	m := err.Error()
	for _, p := range c02PostAuth {
		if strings.HasPrefix(m, p) {
			return "post", "post:" + strings.ReplaceAll(p, " ", "-")
		}
	}
	for _, p := range c02Auth {
		if strings.HasPrefix(m, p[0]) {
			return "auth", "reject:" + p[1]
		}
	}
	for _, p := range c02Pre {
		if strings.HasPrefix(m, p[0]) {
			return "pre", "reject-early:" + p[1]
		}
	}
	return "unknown", "unknown:" + m
}

func (w *c02World) validate(ver *common.VersionedTransaction) (stage, class string) {
	var err error
	p, site := verifmc.CatchSite(func() { err = ver.Validate(w.L.Store, w.ts, false) })
	if p != nil {
		return "panic", "panic:" + site
	}
	return c02Classify(err)
}

func c02Hex(ver *common.VersionedTransaction) string {
	var out string
	if p := verifmc.Catch(func() { out = hex.EncodeToString(ver.Marshal()) }); p != nil {
		return fmt.Sprintf("not encodable: %v", p)
	}
	return out
}

// c02Acc collects the per-case counters of one work unit and hands them to
// the engine in one burst (the engine's counters sit behind one mutex).
type c02Acc struct {
	c        *verifmc.Check
	outcomes map[string]int64
	stricter map[string]int64
	keys     []string
	evals    int64
}

func c02NewAcc(c *verifmc.Check) *c02Acc {
	return &c02Acc{c: c, outcomes: map[string]int64{}, stricter: map[string]int64{}}
}

func (a *c02Acc) flush() {
	a.c.Eval(a.evals)
	for k, n := range a.outcomes {
		for ; n > 0; n-- {
			a.c.Outcome(k)
		}
	}
	for k, n := range a.stricter {
		for ; n > 0; n-- {
			a.c.Stricter(k)
		}
	}
	for _, k := range a.keys {
		a.c.Distinct(k)
	}
	*a = *c02NewAcc(a.c)
}

// c02Judge applies the one-directional oracle.
func c02Judge(a *c02Acc, form, stage, class string, authorized bool, why string, tamper bool, key func() string, replay func() any) {
	c := a.c
	a.evals++
	a.outcomes[form+":"+class]++
	switch stage {
	case "unknown":
		c.Require(false, "unclassified Validate result in %s: %s", form, class)
		return
	case "post":
		c.Require(tamper, "unexpected post-authorization failure in %s: %s", form, class)
	}
	passed := stage == "accept" || stage == "post"
	switch {
	case passed && !authorized:
		c.Violation(key(), fmt.Sprintf("%s: authorization passed (%s) but the reference finds it unauthorized: %s", form, class, why), replay())
	case !passed && authorized && stage != "pre":
		a.stricter[form+" "+class+" although "+why]++
	}
}

// ---------------------------------------------------------------- signature-map form

// runMap enumerates every signature map of the spend (digit per (input,index):
// absent or one of 5 signature kinds). first>=0 fixes the first digit (work split).
//
// reducedOOR: the out-of-range index n (no key exists there, so "another key"
// / "other payload" have no distinct meaning) takes {absent, a valid signature
// of key 0, junk} only.
func (w *c02World) runMap(c *verifmc.Check, sp *c02Spend, first int, throughBytes, reducedOOR bool) {
	type slot struct {
		p, i  int
		kinds []int
	}
	full := []int{c02Absent, c02Valid, c02OtherSame, c02OtherInput, c02OtherPayload, c02Junk}
	var slots []slot
	for p, u := range sp.Ins {
		for i := 0; i <= u.N; i++ {
			if i == u.N && reducedOOR {
				slots = append(slots, slot{p, i, []int{c02Absent, c02Valid, c02Junk}})
			} else {
				slots = append(slots, slot{p, i, full})
			}
		}
	}
	radices := make([]int, len(slots))
	for k := range radices {
		radices[k] = len(slots[k].kinds)
	}
	lo := 0
	if first >= 0 {
		radices = radices[1:]
		lo = 1
	}
	form := fmt.Sprintf("map%d", len(sp.Ins))
	digits := make([]int, len(slots))
	maps := make([]map[uint16]*crypto.Signature, len(sp.Ins))
	var kb strings.Builder
	acc := c02NewAcc(c)
	defer acc.flush()
	for p := range maps {
		maps[p] = make(map[uint16]*crypto.Signature, 4)
	}
	// one transaction object per unit: the payload (and its cached hash) is the
	// same for every case, only the signature maps change
	shared := sp.Tx.AsVersioned()
	verifmc.Product(radices, func(d []int) bool {
		if first >= 0 {
			digits[0] = first
		}
		copy(digits[lo:], d)
		for p := range maps {
			clear(maps[p])
		}
		kb.Reset()
		kb.WriteString(form + "|" + sp.Label)
		var valid [2]uint32
		zeroT := false
		for k, s := range slots {
			kind := s.kinds[digits[k]]
			if kind == c02Absent {
				continue
			}
			maps[s.p][uint16(s.i)] = sp.sig[s.p][s.i][kind]
			valid[s.p] |= sp.vmask[s.p][s.i][kind] & sp.own[s.p]
			kb.WriteByte('|')
			kb.WriteByte(byte('0' + s.p))
			kb.WriteByte('.')
			kb.WriteByte(byte('0' + s.i))
			kb.WriteByte('=')
			kb.WriteString(sp.desc[s.p][s.i][kind])
		}
		authorized, why := true, "every input reaches its threshold"
		for p, u := range sp.Ins {
			if got := bits.OnesCount32(valid[p]); got < u.T {
				authorized, why = false, fmt.Sprintf("input %d has valid signatures of %d of its own keys, threshold %d", p, got, u.T)
				break
			}
			if u.T == 0 {
				zeroT = true
			}
		}
		ver := shared
		ver.SignaturesMap = maps
		if throughBytes {
			dec, err := common.UnmarshalVersionedTransaction(ver.Marshal())
			if err != nil {
				c.Require(false, "map form does not round trip: %v", err)
				return true
			}
			ver = dec
		}
		stage, class := w.validate(ver)
		acc.keys = append(acc.keys, kb.String())
		if stage == "accept" && zeroT {
			c.Add("accepted_spending_a_threshold_zero_output", 1)
		}
		c02Judge(acc, form, stage, class, authorized, why, false,
			func() string { return form + ":accept-unauthorized" },
			func() any {
				return map[string]any{"form": "signature-map", "inputs": sp.Label, "thresholds": sp.shape(), "choice_per_input_index": append([]int(nil), digits...), "case": kb.String(), "tx": c02Hex(ver)}
			})
		if stage == "accept" && len(sp.Ins) == 2 && sp.Ins[0].T == 2 && sp.Ins[1].T == 1 && first == 1 {
			c.Sample(map[string]any{"case": kb.String(), "thresholds": sp.shape(), "verdict": "accept", "reference": why})
		}
		return true
	})
}

// ---------------------------------------------------------------- aggregate form

func (sp *c02Spend) aggSign(publics []*crypto.Key, privOf func(pos int) *crypto.Key, signers []int, msg crypto.Hash) *crypto.Signature {
	privs := make([]*crypto.Key, len(signers))
	for k, m := range signers {
		privs[k] = privOf(m)
	}
	sig, err := crypto.AggregateSign(privs, publics, signers, fixc.Seed64("c02-agg-seed"), msg)
	if err != nil {
		panic(fmt.Sprintf("C02 harness: AggregateSign(%v): %v", signers, err))
	}
	return sig
}

// aggSigs returns the aggregate-signature menu for the claimed signer list.
func (sp *c02Spend) aggSigs(list []int) map[string]*crypto.Signature {
	seen := map[int]bool{}
	var in []int
	for _, m := range list {
		if m >= 0 && m < sp.S && !seen[m] {
			seen[m] = true
			in = append(in, m)
		}
	}
	sort.Ints(in)
	direct := func(pos int) *crypto.Key { return sp.Priv[pos] }
	out := map[string]*crypto.Signature{}
	if len(in) == 0 {
		s := sp.Priv[0].Sign(sp.H)
		out["exact"] = &s
		return out
	}
	out["exact"] = sp.aggSign(sp.Keys, direct, in, sp.H)
	out["other-payload"] = sp.aggSign(sp.Keys, direct, in, sp.H2)
	if len(in) >= 2 {
		out["strict-subset"] = sp.aggSign(sp.Keys, direct, in[:len(in)-1], sp.H)
	}
	rot := 1
	if len(sp.Ins) == 2 {
		rot = sp.Ins[0].N
	}
	if rot%sp.S != 0 {
		// layout shifted by rot: position j of the shifted list holds key (j+rot)%S
		pubs := make([]*crypto.Key, sp.S)
		for j := range pubs {
			pubs[j] = sp.Keys[(j+rot)%sp.S]
		}
		shifted := func(pos int) *crypto.Key { return sp.Priv[(pos+rot)%sp.S] }
		// (a) the keys of the other positions sign, claiming the listed indexes
		out["shifted-keys"] = sp.aggSign(pubs, shifted, in, sp.H)
		// (b) the listed keys sign, but for their indexes in the shifted layout
		var l2 []int
		for _, m := range in {
			l2 = append(l2, (m-rot+sp.S)%sp.S)
		}
		sort.Ints(l2)
		out["shifted-layout"] = sp.aggSign(pubs, shifted, l2, sp.H)
	}
	return out
}

func (sp *c02Spend) aggReference(w *c02World, as *common.AggregatedSignature) (bool, string) {
	prev := -1
	for _, m := range as.Signers {
		if m <= prev {
			return false, "signer list is not strictly increasing"
		}
		if m >= sp.S {
			return false, "signer index beyond the inputs' keys"
		}
		prev = m
	}
	for p, u := range sp.Ins {
		n := 0
		for _, m := range as.Signers {
			if m >= sp.Off[p] && m < sp.Off[p]+u.N {
				n++
			}
		}
		if n < u.T {
			return false, fmt.Sprintf("input %d has %d of its own keys in the signer list, threshold %d", p, n, u.T)
		}
	}
	if !c02RefAggVerify(&as.Signature, sp.Keys, as.Signers, sp.H) {
		return false, "aggregate signature does not verify for the listed keys over the payload hash"
	}
	return true, "listed keys signed and every input reaches its threshold"
}

func (w *c02World) aggCase(acc *c02Acc, sp *c02Spend, list []int, kind string, sig *crypto.Signature, regular bool) {
	c := acc.c
	form := fmt.Sprintf("agg%d", len(sp.Ins))
	if !regular {
		form += "-forged-envelope"
	}
	ver := sp.Tx.AsVersioned()
	ver.AggregatedSignature = &common.AggregatedSignature{Signers: append([]int{}, list...), Signature: *sig}
	if regular {
		// regular lists travel through the canonical bytes
		dec, err := common.UnmarshalVersionedTransaction(ver.Marshal())
		if err != nil || dec.AggregatedSignature == nil || fmt.Sprint(dec.AggregatedSignature.Signers) != fmt.Sprint(list) {
			c.Require(false, "aggregate form %v does not round trip: %v", list, err)
			return
		}
		ver = dec
	}
	authorized, why := sp.aggReference(w, ver.AggregatedSignature)
	stage, class := w.validate(ver)
	key := fmt.Sprintf("%s|%s|%v|%s", form, sp.Label, list, kind)
	acc.keys = append(acc.keys, key)
	if stage == "accept" {
		for _, u := range sp.Ins {
			if u.T == 0 {
				c.Add("accepted_spending_a_threshold_zero_output", 1)
				break
			}
		}
		if len(sp.Ins) == 2 && sp.Ins[0].T == 2 {
			c.Sample(map[string]any{"case": key, "thresholds": sp.shape(), "verdict": "accept", "reference": why})
		}
	}
	c02Judge(acc, form, stage, class, authorized, why, false,
		func() string { return fmt.Sprintf("%s:accept-unauthorized:sig=%s", form, kind) },
		func() any {
			return map[string]any{"form": "aggregate", "inputs": sp.Label, "thresholds": sp.shape(), "signers": list, "signature_kind": kind, "signature": sig.String(), "tx": c02Hex(ver)}
		})
}

// c02SparseBytes hand-encodes an aggregate envelope in the sparse form.
func (sp *c02Spend) sparseBytes(list []int, sig *crypto.Signature) []byte {
	unsigned := sp.Tx.AsVersioned().PayloadMarshal()
	b := append([]byte{}, unsigned[:len(unsigned)-2]...) // drop the empty signature count
	b = append(b, 0xff, 0xff, 0xff, 0x01)
	b = append(b, sig[:]...)
	b = append(b, 0x01)
	b = binary.BigEndian.AppendUint16(b, uint16(len(list)))
	for _, m := range list {
		b = binary.BigEndian.AppendUint16(b, uint16(m))
	}
	return b
}

func (w *c02World) runAgg(c *verifmc.Check, sp *c02Spend) {
	acc := c02NewAcc(c)
	defer acc.flush()
	// every strictly increasing sequence over 0..S (S itself is out of range)
	verifmc.Subsets(sp.S+1, func(_ uint32, members []int) {
		list := append([]int{}, members...)
		sigs := sp.aggSigs(list)
		for _, kind := range []string{"exact", "strict-subset", "shifted-keys", "shifted-layout", "other-payload"} {
			if sig := sigs[kind]; sig != nil {
				w.aggCase(acc, sp, list, kind, sig, true)
			}
		}
	})
	// lists the decoder can never produce
	S := sp.S
	irregular := [][]int{{0, 0}, {S - 1, S - 1}, {S, S}, {0, S + 1}, {S + 1}, {0, 65535}, {0, 65536}, {0, 1 << 20}, {-1}, {-1, 0}, {0, -1}}
	if S >= 2 {
		irregular = append(irregular, []int{1, 0}, []int{0, 1, 1}, []int{S - 1, 0}, []int{0, 0, 1}, []int{1, 0, 1})
	}
	if S >= 3 {
		irregular = append(irregular, []int{2, 0, 1}, []int{0, 2, 1}, []int{2, 1, 0})
	}
	for _, list := range irregular {
		sigs := sp.aggSigs(list)
		sorted := sort.IntsAreSorted(list)
		strict := sorted
		encodable := true
		for k, m := range list {
			if k > 0 && list[k-1] == m {
				strict = false
			}
			if m < 0 || m > 0xffff {
				encodable = false
			}
		}
		for _, kind := range []string{"exact", "other-payload"} {
			sig := sigs[kind]
			if sig == nil {
				continue
			}
			if strict && encodable {
				w.aggCase(acc, sp, list, kind, sig, true) // sorted but out of range: a regular envelope
				continue
			}
			w.aggCase(acc, sp, list, kind, sig, false)
			if !encodable {
				continue
			}
			// the same envelope as bytes
			raw := sp.sparseBytes(list, sig)
			dec, err := common.UnmarshalVersionedTransaction(raw)
			if err != nil {
				acc.evals++
				acc.outcomes["agg-bytes:decoder-refused"]++
				continue
			}
			acc.outcomes["agg-bytes:decoded"]++
			authorized, why := sp.aggReference(w, dec.AggregatedSignature)
			stage, class := w.validate(dec)
			c02Judge(acc, "agg-bytes", stage, class, authorized, why, false,
				func() string { return "agg-bytes:accept-unauthorized" },
				func() any { return map[string]any{"form": "aggregate-bytes", "inputs": sp.Label, "signers": list, "bytes": hex.EncodeToString(raw)} })
		}
	}
}

// ---------------------------------------------------------------- tamper sweep

type c02Base struct {
	Name  string
	Bytes []byte
	Hash  crypto.Hash
	Sigs  string
}

func c02SigMaterial(ver *common.VersionedTransaction) string {
	var s []string
	for _, m := range ver.SignaturesMap {
		for _, sig := range m {
			s = append(s, sig.String())
		}
	}
	if ver.AggregatedSignature != nil {
		s = append(s, ver.AggregatedSignature.Signature.String())
	}
	sort.Strings(s)
	return strings.Join(s, ",")
}

func (w *c02World) makeBases(c *verifmc.Check) {
	a32, a22, b21 := w.A[c02Kind(3, 2)], w.A[c02Kind(2, 2)], w.B[c02Kind(2, 1)]
	add := func(name string, ver *common.VersionedTransaction) {
		raw := ver.Marshal()
		dec, err := common.UnmarshalVersionedTransaction(raw)
		if err != nil {
			panic(err)
		}
		stage, class := w.validate(dec)
		c.Require(stage == "accept", "tamper base %s is not accepted: %s", name, class)
		w.bases = append(w.bases, &c02Base{Name: name, Bytes: raw, Hash: dec.PayloadHash(), Sigs: c02SigMaterial(dec)})
	}
	{
		sp := w.spend(a32)
		ver := sp.Tx.AsVersioned()
		ver.SignaturesMap = []map[uint16]*crypto.Signature{{0: sp.sig[0][0][c02Valid], 1: sp.sig[0][1][c02Valid]}}
		add("map-2-of-3", ver)
		ver = sp.Tx.AsVersioned()
		ver.AggregatedSignature = &common.AggregatedSignature{Signers: []int{0, 2}, Signature: *sp.aggSigs([]int{0, 2})["exact"]}
		add("aggregate-2-of-3", ver)
	}
	{
		sp := w.spend(a22, b21)
		ver := sp.Tx.AsVersioned()
		ver.SignaturesMap = []map[uint16]*crypto.Signature{{0: sp.sig[0][0][c02Valid], 1: sp.sig[0][1][c02Valid]}, {1: sp.sig[1][1][c02Valid]}}
		add("two-input-map", ver)
		ver = sp.Tx.AsVersioned()
		ver.AggregatedSignature = &common.AggregatedSignature{Signers: []int{0, 1, 3}, Signature: *sp.aggSigs([]int{0, 1, 3})["exact"]}
		add("two-input-aggregate", ver)
	}
}

// genericReference decides authorization of an arbitrary decoded transaction
// from the ledger's records (key list and script of every ordinary input).
func (w *c02World) genericReference(ver *common.VersionedTransaction) (ordinary, authorized, allPositive bool, why string) {
	h := ver.PayloadHash()
	var all []*crypto.Key
	type in struct{ off, n, t int }
	var ins []in
	allPositive = true
	for _, i := range ver.Inputs {
		if i.Deposit != nil || i.Mint != nil || len(i.Genesis) > 0 {
			return false, false, false, "not an ordinary input"
		}
		u, err := w.L.Store.ReadUTXOLock(i.Hash, i.Index)
		if err != nil || u == nil {
			return true, false, false, "input does not exist"
		}
		if u.Script.VerifyFormat() != nil {
			return true, false, false, "stored script malformed"
		}
		ins = append(ins, in{len(all), len(u.Keys), int(u.Script[2])})
		all = append(all, u.Keys...)
		if u.Script[2] == 0 {
			allPositive = false
		}
	}
	if as := ver.AggregatedSignature; as != nil {
		prev := -1
		for _, m := range as.Signers {
			if m <= prev || m >= len(all) {
				return true, false, allPositive, "signer list irregular or out of range"
			}
			prev = m
		}
		for p, i := range ins {
			n := 0
			for _, m := range as.Signers {
				if m >= i.off && m < i.off+i.n {
					n++
				}
			}
			if n < i.t {
				return true, false, allPositive, fmt.Sprintf("input %d: %d listed own keys, threshold %d", p, n, i.t)
			}
		}
		if !c02RefAggVerify(&as.Signature, all, as.Signers, h) {
			return true, false, allPositive, "aggregate signature invalid over the payload hash"
		}
		return true, true, allPositive, "authorized"
	}
	for p, i := range ins {
		n := 0
		if p < len(ver.SignaturesMap) {
			for _, k := range all[i.off : i.off+i.n] {
				for _, sig := range ver.SignaturesMap[p] {
					if sig != nil && w.refVerify(k, h, sig) {
						n++
						break
					}
				}
			}
		}
		if n < i.t {
			return true, false, allPositive, fmt.Sprintf("input %d: valid signatures of %d own keys, threshold %d", p, n, i.t)
		}
	}
	return true, true, allPositive, "authorized"
}

func (w *c02World) tamper(c *verifmc.Check, b *c02Base, byteIdx int) {
	acc := c02NewAcc(c)
	defer acc.flush()
	for bit := 0; bit < 8; bit++ {
		raw := append([]byte{}, b.Bytes...)
		raw[byteIdx] ^= 1 << uint(bit)
		form := "tamper:" + b.Name
		c.Distinct(fmt.Sprintf("%s|%d|%d", form, byteIdx, bit))
		var dec *common.VersionedTransaction
		var err error
		if p := verifmc.Catch(func() { dec, err = common.UnmarshalVersionedTransaction(raw) }); p != nil {
			c.Eval(1)
			c.Outcome(form + ":decoder-panic")
			c.Add("tamper_decoder_panics", 1)
			continue
		}
		if err != nil {
			c.Eval(1)
			c.Outcome(form + ":undecodable")
			continue
		}
		c.Add("tamper_mutants_decoded_and_validated", 1)
		stage, class := w.validate(dec)
		passed := stage == "accept" || stage == "post"
		ordinary, authorized, allPositive, why := true, false, true, "not evaluated (rejected)"
		if passed {
			ordinary, authorized, allPositive, why = w.genericReference(dec)
		}
		if !ordinary {
			c.Eval(1)
			c.Outcome(form + ":no-ordinary-input:" + class)
			continue
		}
		changed := dec.PayloadHash() != b.Hash || c02SigMaterial(dec) != b.Sigs
		rep := func() any {
			return map[string]any{"form": "tamper", "base": b.Name, "base_tx": hex.EncodeToString(b.Bytes), "byte": byteIdx, "bit": bit, "mutant": hex.EncodeToString(raw), "result": class}
		}
		if passed && changed && allPositive {
			// the statement's sentence, checked without the reference
			c.Violation("tamper:"+b.Name+":changed-byte-still-authorized", fmt.Sprintf("flipping bit %d of byte %d of an accepted %s transaction changed payload/signature bytes and still passed authorization (%s)", bit, byteIdx, b.Name, class), rep())
		}
		if !passed {
			authorized = false // rejected mutants are never evaluated against the reference (one-directional oracle)
		}
		c02Judge(acc, form, stage, class, authorized, why, true,
			func() string { return "tamper:" + b.Name + ":accept-unauthorized" }, rep)
	}
}

// ---------------------------------------------------------------- BatchVerify == AND of Verify

type c02Pair struct {
	pub  *crypto.Key
	priv crypto.Key
	good crypto.Signature
}

func c02Corrupt(pool []c02Pair, msg crypto.Hash, i, kind int) crypto.Signature {
	p := pool[i]
	s := p.good
	switch kind {
	case 0: // bit of R
		s[3] ^= 0x10
	case 1: // bit of s
		s[40] ^= 0x01
	case 2: // signature over another message
		s = p.priv.Sign(fixc.Hash("c02-bv-other-msg"))
	case 3: // signature of another pool member
		s = pool[(i+1)%len(pool)].good
	case 4: // s + l: same residue, non-canonical scalar
		l := []byte{0xed, 0xd3, 0xf5, 0x5c, 0x1a, 0x63, 0x12, 0x58, 0xd6, 0x9c, 0xf7, 0xa2, 0xde, 0xf9, 0xde, 0x14, 0, 0, 0, 0, 0, 0, 0, 0, 0, 0, 0, 0, 0, 0, 0, 0x10}
		carry := 0
		for k := 0; k < 32; k++ {
			v := int(s[32+k]) + int(l[k]) + carry
			s[32+k] = byte(v)
			carry = v >> 8
		}
	case 5: // R' = R + T2 (order-2 torsion), s' fitted to the cofactored equation only
		z := c02Scalar64([]byte("c02-torsion-nonce"), p.priv[:])
		R := edwards25519.NewIdentityPoint().ScalarBaseMult(z)
		tb := make([]byte, 32)
		for k := range tb {
			tb[k] = 0xff
		}
		tb[0], tb[31] = 0xec, 0x7f
		T, err := edwards25519.NewIdentityPoint().SetBytes(tb)
		if err != nil {
			panic(err)
		}
		R.Add(R, T)
		x := c02Scalar64(R.Bytes(), p.pub[:], msg[:])
		y, err := edwards25519.NewScalar().SetCanonicalBytes(p.priv[:])
		if err != nil {
			panic(err)
		}
		sv := edwards25519.NewScalar().MultiplyAdd(x, y, z)
		copy(s[:32], R.Bytes())
		copy(s[32:], sv.Bytes())
	}
	return s
}

func c02Batch(c *verifmc.Check) {
	msg := fixc.Hash("c02-bv-msg")
	pool := make([]c02Pair, 5)
	for i := range pool {
		priv := fixc.Key(fmt.Sprintf("c02-bv-%d", i))
		pub := priv.Public()
		pool[i] = c02Pair{pub: &pub, priv: priv, good: priv.Sign(msg)}
	}
	const kinds = 6
	// corruption configurations: none, one member (x kind), two members (x kind x kind)
	type cfg struct{ m, k [2]int }
	cfgs := []cfg{{[2]int{-1, -1}, [2]int{}}}
	for i := 0; i < 5; i++ {
		for k := 0; k < kinds; k++ {
			cfgs = append(cfgs, cfg{[2]int{i, -1}, [2]int{k, 0}})
		}
	}
	for i := 0; i < 5; i++ {
		for j := i + 1; j < 5; j++ {
			for k := 0; k < kinds; k++ {
				for k2 := 0; k2 < kinds; k2++ {
					cfgs = append(cfgs, cfg{[2]int{i, j}, [2]int{k, k2}})
				}
			}
		}
	}
	kindName := []string{"R-bit", "s-bit", "other-message", "other-key", "s-plus-l", "R-plus-torsion"}
	c.ParallelN(len(cfgs), "batch-verify configurations", func(_, ci int) {
		cf := cfgs[ci]
		sigs := make([]crypto.Signature, 5)
		single := make([]bool, 5)
		var label []string
		for i := range pool {
			sigs[i] = pool[i].good
			for q := 0; q < 2; q++ {
				if cf.m[q] == i {
					sigs[i] = c02Corrupt(pool, msg, i, cf.k[q])
					label = append(label, fmt.Sprintf("%d:%s", i, kindName[cf.k[q]]))
				}
			}
			single[i] = pool[i].pub.Verify(msg, sigs[i])
			ref := c02RefVerify(pool[i].pub[:], msg, sigs[i][:])
			c.Require(ref == single[i], "reference verifier and Key.Verify disagree on pool member %d (%v): ref=%v code=%v", i, label, ref, single[i])
			corrupted := cf.m[0] == i || cf.m[1] == i
			c.Require(ref == !corrupted, "batch pool member %d (%v) is not what the harness meant: valid=%v", i, label, ref)
		}
		verifmc.Subsets(5, func(mask uint32, members []int) {
			if len(members) == 0 {
				return // an empty batch is refused by contract; the AND of nothing is not a signature check
			}
			for order := 0; order < 2; order++ {
				var ks []*crypto.Key
				var ss []*crypto.Signature
				want := true
				for k := range members {
					i := members[k]
					if order == 1 {
						i = members[len(members)-1-k]
					}
					ks = append(ks, pool[i].pub)
					s := sigs[i]
					ss = append(ss, &s)
					want = want && single[i]
				}
				var got bool
				p := verifmc.Catch(func() { got = crypto.BatchVerify(msg, ks, ss) })
				c.Eval(1)
				c.Distinct(fmt.Sprintf("batch|%v|%05b|%d", label, mask, order))
				if p != nil {
					c.Violation("batch:panic", fmt.Sprintf("BatchVerify panics: %v", p), map[string]any{"corrupted": label, "subset_mask": mask, "order": order})
					continue
				}
				c.Outcome(fmt.Sprintf("batch:%v", got))
				if got != want {
					dir := "batch-accepts-what-single-rejects"
					if want {
						dir = "batch-rejects-what-single-accepts"
					}
					var hs []string
					for k := range ks {
						hs = append(hs, ks[k].String()+":"+ss[k].String())
					}
					c.Violation(fmt.Sprintf("batch:%s:size=%d", dir, len(ks)), fmt.Sprintf("BatchVerify=%v but the AND of per-signature Verify=%v for subset %05b (order %d) with corrupted members %v", got, want, mask, order, label),
						map[string]any{"message": msg.String(), "pairs_key:sig": hs, "corrupted": label})
				}
			}
		})
	})
}

// ---------------------------------------------------------------- driver

func TestMC_C02(t *testing.T) {
	c := verifmc.Start(t, "C02", "exploration")
	defer c.Finish()
	c.SetRule("ledger of custodian-signed deposits with key lists n in {1,2,3} x script threshold t in {0,1,2,3,64}; (1) signature-map form, 1 and 2 inputs: per (input, index 0..n) absent or one of {valid, valid for another key of the same utxo, valid for a key of the other input (1 input: of a foreign utxo), valid over another payload, 64 junk bytes} = full product 6^(sum(n+1)) per input combination, distinct by the (index -> signing key/payload) assignment; (2) aggregate form: every subset of 0..sum(n) as signer list x {exact, strict subset, shifted keys, shifted layout, other payload} through the canonical bytes, plus unsorted/duplicated/out-of-range/negative lists through the struct and through hand-encoded bytes; (3) every single-bit flip of the canonical bytes of 4 accepted transactions; (4) BatchVerify against the AND of Verify on every non-empty subset x both orders of a pool of 5 pairs with 0..2 members corrupted in 6 ways")
	c.Assume("the reference verifier (canonical prime-order points, x=SHA512(R||A||m) mod l, [s]B=R+[x]A; aggregate key = sum of SHA512-derived coefficients times keys) is the intended scheme; filippo.io/edwards25519 group arithmetic, SHA-512 and the ledger's stored key lists/scripts are trusted; a Validate error raised after validateInputs returned (output/amount/ghost-key checks) counts as 'authorization passed'")

	workers := c.Workers()
	worlds := make([]*c02World, workers+1)
	world := func(k int) *c02World {
		if worlds[k] == nil {
			worlds[k] = c02NewWorld()
		}
		return worlds[k]
	}
	defer func() {
		for _, w := range worlds {
			if w != nil {
				w.L.Close()
			}
		}
	}()
	c.Set("threshold_0_and_64_outputs_created_through_real_validation", true) // deposit() panics otherwise
	c.Set("synthetic_utxo_records", 0)

	cpu := func() float64 {
		var ru syscall.Rusage
		_ = syscall.Getrusage(syscall.RUSAGE_SELF, &ru)
		return float64(ru.Utime.Sec+ru.Stime.Sec) + float64(ru.Utime.Usec+ru.Stime.Usec)/1e6
	}
	lastCPU, lastWall := cpu(), time.Now()
	phase := func(name string) {
		now := cpu()
		c.Set("phase_cpu_s/wall_s:"+name, fmt.Sprintf("%.1f/%.1f", now-lastCPU, time.Since(lastWall).Seconds()))
		lastCPU, lastWall = now, time.Now()
	}

	// (4) first: cheap and independent of the ledger
	c02Batch(c)
	phase("batch")

	// (1a) one input, all kinds, also through bytes
	kinds := len(c02Ns) * len(c02Ts)
	c.ParallelN(kinds, "one-input signature maps", func(k, i int) {
		w := world(k)
		w.runMap(c, w.spend(w.A[i]), -1, true, false)
	})

	phase("map1")

	// (1b) two inputs
	maxN, maxSum, reducedOOR := verifmc.Pick(c, 2, 3), verifmc.Pick(c, 4, 5), verifmc.Pick(c, true, false)
	type unit struct{ a, b, first int }
	var units []unit
	for a := 0; a < kinds; a++ {
		for b := 0; b < kinds; b++ {
			na, nb := c02Ns[a/len(c02Ts)], c02Ns[b/len(c02Ts)]
			if na > maxN || nb > maxN || na+nb > maxSum {
				continue
			}
			for f := 0; f < c02Kinds; f++ {
				units = append(units, unit{a, b, f})
			}
		}
	}
	// big units first for an even tail
	sort.SliceStable(units, func(i, j int) bool {
		si := c02Ns[units[i].a/len(c02Ts)] + c02Ns[units[i].b/len(c02Ts)]
		sj := c02Ns[units[j].a/len(c02Ts)] + c02Ns[units[j].b/len(c02Ts)]
		return si > sj
	})
	c.Set("two_input_map_bound", fmt.Sprintf("n1,n2 <= %d and n1+n2 <= %d, every threshold pair; out-of-range index restricted to {absent, valid, junk}: %v", maxN, maxSum, reducedOOR))
	c.ParallelN(len(units), "two-input signature maps", func(k, i int) {
		w := world(k)
		u := units[i]
		w.runMap(c, w.spend(w.A[u.a], w.B[u.b]), u.first, false, reducedOOR)
	})

	phase("map2")

	// (2) aggregate form: one input (15) and two inputs (225 combinations)
	type aunit struct{ a, b int }
	var aunits []aunit
	for a := 0; a < kinds; a++ {
		aunits = append(aunits, aunit{a, -1})
		for b := 0; b < kinds; b++ {
			aunits = append(aunits, aunit{a, b})
		}
	}
	c.ParallelN(len(aunits), "aggregate signer lists", func(k, i int) {
		w := world(k)
		u := aunits[i]
		if u.b < 0 {
			w.runAgg(c, w.spend(w.A[u.a]))
		} else {
			w.runAgg(c, w.spend(w.A[u.a], w.B[u.b]))
		}
	})

	phase("aggregate")

	// hand-encoder self check: a sorted sparse list must equal the canonical bytes
	{
		w := world(workers)
		sp := w.spend(w.A[c02Kind(3, 2)])
		sig := sp.aggSigs([]int{0})["exact"]
		ver := sp.Tx.AsVersioned()
		ver.AggregatedSignature = &common.AggregatedSignature{Signers: []int{0, 40}, Signature: *sig}
		c.Require(bytes.Equal(ver.Marshal(), sp.sparseBytes([]int{0, 40}, sig)), "hand encoder of the sparse aggregate envelope differs from the canonical encoder")
	}

	// (3) tamper sweep
	{
		w0 := world(workers)
		w0.makeBases(c)
		type tunit struct{ base, byteIdx int }
		var tunits []tunit
		for bi, b := range w0.bases {
			c.Set("tamper_base_bytes:"+b.Name, len(b.Bytes))
			for k := range b.Bytes {
				tunits = append(tunits, tunit{bi, k})
			}
		}
		c.ParallelN(len(tunits), "tamper sweep", func(k, i int) {
			w := world(k)
			if len(w.bases) == 0 {
				w.makeBases(c) // reserves the base transactions' ghost keys first, as on a node that saw the original
			}
			w.tamper(c, w.bases[tunits[i].base], tunits[i].byteIdx)
		})
	}

	phase("tamper")

	c.Sample(map[string]any{"form": "tamper", "what": "each of the 8 bits of every byte of 4 accepted transactions (map 2-of-3, aggregate 2-of-3 signers [0 2], two-input map, two-input aggregate signers [0 1 3])"})
	c.Sample(map[string]any{"form": "aggregate forged envelope", "signers": []int{0, 0}, "through": "struct and hand-encoded sparse bytes"})

	// vacuity guards
	for _, f := range []string{"map1", "map2", "agg1", "agg2"} {
		c.Require(c.OutcomeCount(f+":accept") > 0, "no accepted case in %s", f)
	}
	c.Require(c.OutcomeCount("map2:reject:batch-fail") > 0 && c.OutcomeCount("map2:reject:below-threshold") > 0 && c.OutcomeCount("map2:reject:map-index-out-of-range") > 0, "signature-map rejections not reached")
	c.Require(c.OutcomeCount("agg2:reject:agg-verify-fail") > 0 && c.OutcomeCount("agg2:reject:below-threshold") > 0 && c.OutcomeCount("agg2:reject:agg-signer-out-of-range") > 0, "aggregate rejections not reached")
	c.Require(c.OutcomeCount("agg2-forged-envelope:reject:signers-not-increasing") > 0 && c.OutcomeCount("agg-bytes:decoder-refused") > 0, "forged envelopes not exercised")
	c.Require(c.OutcomeCount("batch:true") > 0 && c.OutcomeCount("batch:false") > 0, "batch comparison vacuous")
	c.Require(c.OutcomeCount("tamper:map-2-of-3:undecodable") > 0 && c.OutcomeCount("tamper:map-2-of-3:reject:batch-fail") > 0 && c.OutcomeCount("tamper:aggregate-2-of-3:reject:agg-verify-fail") > 0, "tamper sweep vacuous")
}
