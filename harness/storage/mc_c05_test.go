//go:build verif

package storage

import (
	"fmt"
	"math/big"
	"sort"
	"sync"
	"testing"

	"github.com/MixinNetwork/mixin/common"
	"github.com/MixinNetwork/mixin/verifmc"
)

// C05 — validating any decodable transaction never crashes the node.
// Bounded-exhaustive enumeration (E1): the C01 product plus five families of
// shapes (full products each) aimed at the places where Validate indexes,
// dereferences or calls panicking arithmetic. Every transaction is encoded and
// decoded first; the decoded transaction is validated under recover().

// c05Job is a slice of one family: it emits (ledger, time index, shape).
type c05Job struct {
	Fam string
	Run func(emit func(e *txgEnv, ti int, s *txgShape))
}

var c05Types = []uint8{
	common.OutputTypeScript, common.OutputTypeWithdrawalSubmit, common.OutputTypeNodePledge, common.OutputTypeNodeAccept,
	0xa5 /* resign, retired */, common.OutputTypeNodeRemove, common.OutputTypeWithdrawalClaim, common.OutputTypeNodeCancel,
	common.OutputTypeCustodianUpdateNodes, common.OutputTypeCustodianSlashNodes, 0x77, 0xa2, 0xff,
}

// "=" marks an output that takes a share of what the ordinary inputs hold in
// the store (so that the amount check passes and the per-type validators are
// reached); the shares follow the rules of the first output's type.
var c05Bal = txgAmount{Name: "="}

func c05Balance(e *txgEnv, s *txgShape) {
	total := new(big.Int)
	if len(s.Ins) > 0 && (s.Ins[0].Kind == txgInDeposit || s.Ins[0].Kind == txgInMint || s.Ins[0].Kind == txgInDepMint) {
		total = mcUnits(s.InAmt.V)
	} else {
		seen := map[string]bool{}
		for i, in := range s.Ins {
			if in.Kind != txgInRef || seen[in.Ref] {
				continue
			}
			seen[in.Ref] = true
			r := e.Ref[in.Ref]
			if u, _ := e.store().ReadUTXOLock(r.Hash, r.Index); u != nil {
				total.Add(total, mcUnits(u.Amount))
			}
			_ = i
		}
	}
	var open []int
	for i, o := range s.Outs {
		if o.Amt.Name == "=" {
			open = append(open, i)
		} else {
			total.Sub(total, mcUnits(o.Amt.V))
		}
	}
	if len(open) == 0 {
		return
	}
	small := big.NewInt(10000) // 0.0001
	set := func(i int, v *big.Int) {
		if v.Sign() <= 0 {
			v = txgXIN(1)
		}
		s.Outs[i].Amt = txgAmount{Name: "=", V: txgUnits(v)}
	}
	rest := new(big.Int).Set(total)
	first := open[0]
	switch {
	case len(open) >= 2 && first == 0 && s.Outs[0].Type == common.OutputTypeNodeCancel:
		// 1% penalty, remainder refunded
		pen := new(big.Int).Div(total, big.NewInt(100))
		set(0, pen)
		rest.Sub(rest, pen)
		for _, i := range open[2:] {
			set(i, small)
			rest.Sub(rest, small)
		}
		set(open[1], rest)
	case len(open) >= 2 && first == 0 && s.Outs[0].Type == common.OutputTypeWithdrawalClaim:
		set(0, small)
		rest.Sub(rest, small)
		for _, i := range open[2:] {
			set(i, small)
			rest.Sub(rest, small)
		}
		set(open[1], rest)
	default:
		for _, i := range open[1:] {
			set(i, small)
			rest.Sub(rest, small)
		}
		set(first, rest)
	}
}

func c05Ref(n string) txgIn { return txgIn{Kind: txgInRef, Ref: n} }

func TestMC_C05(t *testing.T) {
	c := verifmc.Start(t, "C05", "exploration")
	defer c.Finish()
	c.SetRule("union of full products, every member encoded with Marshal and decoded with UnmarshalVersionedTransaction before Validate: (0) the C01 product (thorough: its lists<=2 block over the large alphabet, 6 ledgers, 3 times); (1) types x signatures: output layouts [t],[t,script],[script,t] over 13 type bytes x 28 input lists over outputs of every stored type x 11 signature modes (map count 0/len-1/len/len+1, zero/misindexed/empty maps, aggregated real/zero/no-signers/out-of-range) x amounts {balanced,5} x asset {XIN,BTC}; (2) storage amounts: 8 amounts incl. 2^64*0.0001 and 2^520-1 on a one-key fffe40 output in 6 layouts x inputs {script,deposit,mint,missing} x 10 extra lengths x 2 fills x 2 signature modes x asset; (3) extra x references: 12 per-type templates x (auto + 10 lengths x 3 fills) x 7 reference lists x 3 signature modes x times; (4) all ordered pairs of 13 type bytes (and singles) x 5 output forms of the first output x 5 inputs x 2 signature modes x asset; (5) all input lists of length 1..2 (thorough 1..3) over 20 input kinds x 8 output layouts x 5 signature modes x asset. A case is distinct/non-trivial when (family, ledger, time, shape) is new, the bytes decode and the real TransactionType() is not Unknown")
	c.Assume("snapshot times are > genesis epoch + 1ns (the custodian record exists)", "ledger states are built through real finalization; steps that bypassed Validate are listed as synthetic_steps of the ledger in the samples", "encoder panics and undecodable encodings are counted, not raised: only decodable byte strings are validated", "one-time output keys are unique per case (valid prime-order points); valid signatures use a fixed nonce per harness key")

	var ec txgEnvCache
	defer ec.close()
	thorough := c.Thorough()
	mainEnvs := []*txgEnv{ec.get("alltypes"), ec.get("deposits")}
	if thorough {
		mainEnvs = append(mainEnvs, ec.get("submit"), ec.get("genesis"))
	}
	all := ec.get("alltypes")
	timesOf := func(quick []int) []int {
		if thorough {
			return []int{0, 1, 2}
		}
		return quick
	}
	amt := txgC01Amounts()
	five := txgPickAmounts(amt, "5")[0]
	var jobs []c05Job

	// ---- family 1: types x signatures
	{
		var layouts [][]txgOut
		seen := map[string]bool{}
		addLayout := func(l []txgOut) {
			k := fmt.Sprint(l)
			if !seen[k] {
				seen[k] = true
				layouts = append(layouts, l)
			}
		}
		for _, ty := range c05Types {
			addLayout([]txgOut{{Type: ty}})
			addLayout([]txgOut{{Type: ty}, {Type: common.OutputTypeScript}})
			addLayout([]txgOut{{Type: common.OutputTypeScript}, {Type: ty}})
		}
		var inLists [][]txgIn
		for _, n := range []string{"xin7", "xin5", "btc5", "cancel-refund", "claim-change", "accept0", "accept6", "custodian", "pledge", "pledge-a", "cancel", "remove", "claim", "missing"} {
			inLists = append(inLists, []txgIn{c05Ref(n)})
		}
		inLists = append(inLists, []txgIn{{Kind: txgInDeposit}}, []txgIn{{Kind: txgInMint}})
		for _, n := range []string{"xin5", "pledge", "accept0", "remove", "missing", "custodian"} {
			inLists = append(inLists, []txgIn{c05Ref(n), c05Ref("xin7")}, []txgIn{c05Ref("xin7"), c05Ref(n)})
		}
		c.Set("family1", fmt.Sprintf("%d output layouts x %d input lists x %d signature modes x 2 amounts x 2 assets x %d ledgers x %d times", len(layouts), len(inLists), len(txgSigNames), len(mainEnvs), len(timesOf([]int{1}))))
		for _, e := range mainEnvs {
			for _, ti := range timesOf([]int{1}) {
				for as := 0; as < 2; as++ {
					for _, ins := range inLists {
						e, ti, as, ins := e, ti, as, ins
						jobs = append(jobs, c05Job{"types-x-sigs", func(emit func(*txgEnv, int, *txgShape)) {
							for _, l := range layouts {
								for sig := range txgSigNames {
									for _, bal := range []bool{true, false} {
										s := &txgShape{Asset: as, Ins: ins, InAmt: five, Sig: sig, ExtraLen: -1, Refs: txgRefAuto}
										for _, o := range l {
											o.Amt = five
											if bal {
												o.Amt = c05Bal
											}
											s.Outs = append(s.Outs, o)
										}
										emit(e, ti, s)
									}
								}
							}
						}})
					}
				}
			}
		}
	}

	// ---- family 2: storage output amounts x extra lengths
	step := big.NewInt(10000) // 0.0001 in units
	two64 := txgPow2(64)
	storageAmounts := []txgAmount{
		txgAmt("0", big.NewInt(0)), txgAmt("1u", big.NewInt(1)), txgAmt("step-1u", big.NewInt(9999)), txgAmt("step", step),
		txgAmt("2^63u", txgPow2(63)), txgAmt("2^64*step-1u", new(big.Int).Sub(new(big.Int).Mul(two64, step), big.NewInt(1))),
		txgAmt("2^64*step", new(big.Int).Mul(two64, step)), txgAmt("2^520-1u", new(big.Int).Sub(txgPow2(520), big.NewInt(1))),
	}
	custodianLen := 64 + 353*7 + 64
	extraLens := []int{0, 31, 32, 63, 64, 95, 96, 97, custodianLen - 1, custodianLen}
	{
		type layout struct {
			name string
			outs func(a txgAmount) []txgOut
		}
		st := func(ty uint8, a txgAmount) txgOut { return txgOut{Type: ty, Form: txgFormStorage, Amt: a} }
		layouts := []layout{
			{"[storage(a)]", func(a txgAmount) []txgOut { return []txgOut{st(0, a)} }},
			{"[script(5),storage(a)]", func(a txgAmount) []txgOut { return []txgOut{{Type: 0, Amt: five}, st(0, a)} }},
			{"[storage(a),storage(1u)]", func(a txgAmount) []txgOut { return []txgOut{st(0, a), st(0, storageAmounts[1])} }},
			{"[custodian-update storage(a)]", func(a txgAmount) []txgOut { return []txgOut{st(common.OutputTypeCustodianUpdateNodes, a)} }},
			{"[0x77 storage(a)]", func(a txgAmount) []txgOut { return []txgOut{st(0x77, a)} }},
			{"[pledge storage(a)]", func(a txgAmount) []txgOut { return []txgOut{st(common.OutputTypeNodePledge, a)} }},
		}
		inLists := [][]txgIn{{c05Ref("xin7")}, {{Kind: txgInDeposit}}, {{Kind: txgInMint}}, {c05Ref("missing")}}
		c.Set("family2", fmt.Sprintf("%d amounts x %d layouts x %d inputs x %d extra lengths x 2 fills x 2 signature modes x 2 assets x %d ledgers", len(storageAmounts), len(layouts), len(inLists), len(extraLens), len(mainEnvs)))
		for _, e := range mainEnvs {
			for as := 0; as < 2; as++ {
				for _, l := range layouts {
					e, as, l := e, as, l
					jobs = append(jobs, c05Job{"storage-amounts", func(emit func(*txgEnv, int, *txgShape)) {
						for _, a := range storageAmounts {
							for _, ins := range inLists {
								for _, el := range extraLens {
									for _, fill := range []int{txgExtraZeros, txgExtraAuto} {
										for _, sig := range []int{txgSigCorrect, txgSigNone} {
											emit(e, 1, &txgShape{Asset: as, Ins: ins, InAmt: a, Outs: l.outs(a), Sig: sig, ExtraLen: el, ExtraFil: fill, Refs: txgRefAuto})
										}
									}
								}
							}
						}
					}})
				}
			}
		}
	}

	// ---- family 3: extra x references per transaction type
	{
		type tmpl struct {
			name  string
			asset int
			ins   []txgIn
			outs  []txgOut
		}
		b := func(ty uint8) txgOut { return txgOut{Type: ty, Amt: c05Bal} }
		tmpls := []tmpl{
			{"script", 0, []txgIn{c05Ref("xin7")}, []txgOut{b(0)}},
			{"submit", 1, []txgIn{c05Ref("btc5")}, []txgOut{b(common.OutputTypeWithdrawalSubmit), b(0)}},
			{"claim", 0, []txgIn{c05Ref("xin7")}, []txgOut{b(common.OutputTypeWithdrawalClaim), b(0)}},
			{"pledge", 0, []txgIn{c05Ref("xin7")}, []txgOut{b(common.OutputTypeNodePledge)}},
			{"cancel", 0, []txgIn{c05Ref("pledge")}, []txgOut{b(common.OutputTypeNodeCancel), b(0)}},
			{"accept", 0, []txgIn{c05Ref("pledge")}, []txgOut{b(common.OutputTypeNodeAccept)}},
			{"remove", 0, []txgIn{c05Ref("accept0")}, []txgOut{b(common.OutputTypeNodeRemove)}},
			{"remove-script-input", 0, []txgIn{c05Ref("xin7")}, []txgOut{b(common.OutputTypeNodeRemove)}},
			{"custodian-update", 0, []txgIn{c05Ref("xin7")}, []txgOut{b(common.OutputTypeCustodianUpdateNodes)}},
			{"custodian-slash", 0, []txgIn{c05Ref("xin7")}, []txgOut{b(common.OutputTypeCustodianSlashNodes)}},
			{"mint", 0, []txgIn{{Kind: txgInMint}}, []txgOut{b(0)}},
			{"deposit", 1, []txgIn{{Kind: txgInDeposit}}, []txgOut{b(0)}},
		}
		envs := []*txgEnv{all, ec.get("deposits")}
		if thorough {
			envs = append(envs, ec.get("submit"))
		}
		c.Set("family3", fmt.Sprintf("%d templates x (auto + %d lengths x 3 fills) x %d reference lists x 3 signature modes x %d ledgers x 3 times", len(tmpls), len(extraLens), len(txgRefNames), len(envs)))
		for _, e := range envs {
			for _, tp := range tmpls {
				for ti := 0; ti < 3; ti++ {
					e, tp, ti := e, tp, ti
					jobs = append(jobs, c05Job{"extra-x-refs", func(emit func(*txgEnv, int, *txgShape)) {
						for _, el := range append([]int{-1}, extraLens...) {
							fills := []int{txgExtraAuto, txgExtraZeros, txgExtraFF}
							if el <= 0 {
								fills = fills[:1]
							}
							for _, fill := range fills {
								for refs := range txgRefNames {
									for _, sig := range []int{txgSigCorrect, txgSigNone, txgSigZero} {
										emit(e, ti, &txgShape{Asset: tp.asset, Ins: tp.ins, InAmt: five, Outs: append([]txgOut{}, tp.outs...), Sig: sig, ExtraLen: el, ExtraFil: fill, Refs: refs})
									}
								}
							}
						}
					}})
				}
			}
		}
	}

	// ---- family 4: every type byte in first / second position x output forms
	{
		inLists := [][]txgIn{{c05Ref("xin7")}, {c05Ref("pledge")}, {c05Ref("accept0")}, {c05Ref("remove")}, {{Kind: txgInDeposit}}}
		forms := []int{txgFormCanonical, txgFormStorage, txgFormBare, txgFormKeyed, txgFormWithdrawal}
		c.Set("family4", fmt.Sprintf("(%d + %d^2) type layouts x %d forms x %d inputs x 2 signature modes x 2 assets", len(c05Types), len(c05Types), len(forms), len(inLists)))
		for as := 0; as < 2; as++ {
			for _, ins := range inLists {
				for _, t1 := range c05Types {
					as, ins, t1 := as, ins, t1
					jobs = append(jobs, c05Job{"type-pairs-x-forms", func(emit func(*txgEnv, int, *txgShape)) {
						for t2i := -1; t2i < len(c05Types); t2i++ {
							for _, f := range forms {
								for _, sig := range []int{txgSigCorrect, txgSigNone} {
									outs := []txgOut{{Type: t1, Form: f, Amt: c05Bal}}
									if t2i >= 0 {
										outs = append(outs, txgOut{Type: c05Types[t2i], Amt: c05Bal})
									}
									emit(all, 1, &txgShape{Asset: as, Ins: ins, InAmt: five, Outs: outs, Sig: sig, ExtraLen: -1, Refs: txgRefAuto})
									if t2i >= 0 && f != txgFormStorage {
										// a ZERO amount on the first output of every type, the second carries the whole input
										zero := txgAmt("0", big.NewInt(0))
										outs0 := []txgOut{{Type: t1, Form: f, Amt: zero}, {Type: c05Types[t2i], Amt: c05Bal}}
										emit(all, 1, &txgShape{Asset: as, Ins: ins, InAmt: five, Outs: outs0, Sig: sig, ExtraLen: -1, Refs: txgRefAuto})
									}
								}
							}
						}
					}})
				}
			}
		}
	}

	// ---- family 5: input lists over outputs of every type
	{
		alpha := []txgIn{}
		for _, n := range []string{"xin7", "xin5", "btc5", "cancel-refund", "accept0", "accept6", "custodian", "pledge", "pledge-a", "cancel", "remove", "claim", "missing"} {
			alpha = append(alpha, c05Ref(n))
		}
		alpha = append(alpha, txgIn{Kind: txgInDup}, txgIn{Kind: txgInDeposit}, txgIn{Kind: txgInMint}, txgIn{Kind: txgInGenesis}, txgIn{Kind: txgInDepMint}, txgIn{Kind: txgInFar}, txgIn{Kind: txgInTooFar})
		b := func(ty uint8) txgOut { return txgOut{Type: ty, Amt: c05Bal} }
		layouts := [][]txgOut{{b(0)}, {b(common.OutputTypeNodeRemove)}, {b(common.OutputTypeNodePledge)}, {b(common.OutputTypeWithdrawalSubmit)}, {b(common.OutputTypeNodeAccept)},
			{b(common.OutputTypeNodeCancel), b(0)}, {b(common.OutputTypeWithdrawalClaim), b(0)}, {b(common.OutputTypeCustodianUpdateNodes)}}
		sigs := []int{txgSigCorrect, txgSigNone, txgSigLess, txgSigAggZero, txgSigAggReal}
		seqs := txgSeqs(len(alpha), 1, verifmc.Pick(c, 2, 3))
		c.Set("family5", fmt.Sprintf("%d input lists (alphabet %d) x %d output layouts x %d signature modes x 2 assets", len(seqs), len(alpha), len(layouts), len(sigs)))
		for as := 0; as < 2; as++ {
			for lo := 0; lo < len(seqs); lo += 40 {
				as, lo := as, lo
				jobs = append(jobs, c05Job{"input-lists", func(emit func(*txgEnv, int, *txgShape)) {
					for _, seq := range seqs[lo:min(lo+40, len(seqs))] {
						var ins []txgIn
						for _, x := range seq {
							ins = append(ins, alpha[x])
						}
						for _, l := range layouts {
							for _, sig := range sigs {
								emit(all, 1, &txgShape{Asset: as, Ins: ins, InAmt: five, Outs: append([]txgOut{}, l...), Sig: sig, ExtraLen: -1, Refs: txgRefAuto})
							}
						}
					}
				}})
			}
		}
	}

	// ---- family 0: the C01 product
	c01Blocks := txgC01Blocks(thorough, ec.get)
	if thorough {
		// the length-3 blocks of the thorough C01 product are C01's own cost; here
		// the lists<=2 block over the large alphabet, 6 ledgers and 3 times is kept
		c01Blocks = c01Blocks[:1]
	}
	c01Items := txgItems(c01Blocks, amt)
	c.Set("family0", fmt.Sprintf("C01 product: %d work items (ledger,time,asset,input list,a), every output list each", len(c01Items)))

	// unspent output types per ledger: the statement asks for states holding one
	// unspent output of every type a finalized transaction can leave behind.
	for _, ty := range []uint8{common.OutputTypeScript, common.OutputTypeNodePledge, common.OutputTypeNodeCancel, common.OutputTypeNodeAccept, common.OutputTypeNodeRemove, common.OutputTypeWithdrawalClaim, common.OutputTypeCustodianUpdateNodes} {
		c.Require(all.Types[ty] > 0, "ledger alltypes has no unspent output of type %02x", ty)
	}
	for _, d := range ec.describe() {
		if d["ledger"] == "alltypes" {
			c.Sample(d)
		}
	}

	// ---- run
	var mu sync.Mutex
	checked := map[string]bool{}
	panicSamples := map[string]int{}
	byFamily := map[string]int64{}
	acceptedTypes := map[string]int{}
	report := func(fam string, e *txgEnv, ti int, shape *txgShape, key string, res *txgResult) {
		c.Eval(1)
		if res.Stage != "validated" {
			c.Outcome(res.Stage)
			return
		}
		if res.Tx.TransactionType() != common.TransactionTypeUnknown {
			c.Distinct(fam + "|" + key)
		}
		if res.Panic == nil {
			c.Outcome(txgErrClass(res.Err))
			if res.Err == nil {
				ty := fmt.Sprintf("type=%02x", res.Tx.TransactionType())
				mu.Lock()
				acceptedTypes[ty]++
				first := acceptedTypes[ty] == 1
				mu.Unlock()
				// one accepted sample for the two rarest transaction types
				if first && (res.Tx.TransactionType() == common.TransactionTypeCustodianUpdateNodes || res.Tx.TransactionType() == common.TransactionTypeWithdrawalClaim) {
					c.Sample(map[string]any{"family": fam, "ledger": e.Name, "time": e.TimeNames[ti], "shape": shape.Key(), "result": "accept", "tx": verifmc.Hex(res.Raw)})
				}
			}
			return
		}
		vk := txgPanicKey(res.Site, res.Tx.TransactionType())
		c.Outcome(vk)
		raw, ts := res.Raw, e.Times[ti]
		desc := fmt.Sprintf("Validate panicked (%v) at %s; family %s ledger %s time %s shape %s", res.Panic, res.Site, fam, e.Name, e.TimeNames[ti], shape.Key())
		replay := map[string]any{"ledger": e.recipe(), "snapshot_time": ts, "snapshot_time_name": e.TimeNames[ti], "family": fam, "shape": shape.Key(), "transaction_hex": txgHex(raw), "panic": fmt.Sprint(res.Panic), "site": res.Site}
		mu.Lock()
		first := !checked[vk]
		checked[vk] = true
		panicSamples[vk]++
		mu.Unlock()
		if first {
			c.Sample(map[string]any{"family": fam, "ledger": e.Name, "time": e.TimeNames[ti], "shape": shape.Key(), "result": vk, "tx": verifmc.Hex(raw)})
			c.ViolationChecked(vk, desc, replay, func() bool {
				_, p, site := txgReplayRaw(e, raw, ts)
				return p != nil && txgPanicKey(site, res.Tx.TransactionType()) == vk
			})
			return
		}
		c.Violation(vk, desc, replay)
	}
	nJobs := len(jobs)
	complete := c.ParallelN(nJobs+len(c01Items), "C05 families", func(_, k int) {
		if k >= nJobs {
			txgRunItem(c01Items[k-nJobs], amt, func(e *txgEnv, ti int, shape *txgShape, key string, res *txgResult) {
				report("c01-product", e, ti, shape, key, res)
			})
			mu.Lock()
			byFamily["c01-product"] += int64(len(c01Items[k-nJobs].B.OutSeqs))
			mu.Unlock()
			return
		}
		j := jobs[k]
		kg := txgNewKeyGen(fmt.Sprintf("c05/%s/%d", j.Fam, k))
		n := int64(0)
		j.Run(func(e *txgEnv, ti int, s *txgShape) {
			c05Balance(e, s)
			key := fmt.Sprintf("%s@%s %s", e.Name, e.TimeNames[ti], s.Key())
			ver := txgBuild(e, s, key, kg)
			report(j.Fam, e, ti, s, key, txgRun(e, ver, e.Times[ti]))
			n++
		})
		mu.Lock()
		byFamily[j.Fam] += n
		mu.Unlock()
	})
	var fams []string
	for f, n := range byFamily {
		fams = append(fams, fmt.Sprintf("%s:%d", f, n))
	}
	sort.Strings(fams)
	c.Set("cases_by_family", fams)
	var ps []string
	for k, n := range panicSamples {
		ps = append(ps, fmt.Sprintf("%s:%d", k, n))
	}
	sort.Strings(ps)
	c.Set("panics_by_site", ps)
	c.Set("ledgers", ec.describe())
	var at []string
	for k, n := range acceptedTypes {
		at = append(at, fmt.Sprintf("%s:%d", k, n))
	}
	sort.Strings(at)
	c.Set("accepted_by_transaction_type", at)
	c.Require(!complete || len(acceptedTypes) >= 7, "vacuous: accepted transactions of only %d types: %v", len(acceptedTypes), at)
	c.Require(c.OutcomeCount("accept") >= 100, "vacuous: only %d accepted transactions", c.OutcomeCount("accept"))
	c.Require(c.OutcomeCount("undecodable")+c.OutcomeCount("encode-panic") > 0, "vacuous: no encoder refusal reached")
	for _, o := range []string{"invalid_tx_signature_number", "invalid_extra_size", "too_many_references", "reference_not_found", "invalid_withdrawal_claim_information", "invalid_custodian_update_extra", "batch_verification_failure", "accept_input_used_for_invalid_transaction"} {
		c.Require(!complete || c.OutcomeCount(o) > 0, "vacuous: outcome class %q never reached", o)
	}
}
