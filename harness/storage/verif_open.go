//go:build verif

package storage

import (
	"encoding/hex"
	sync "github.com/MixinNetwork/mixin/verifmc/vsync"
	"os"

	"github.com/MixinNetwork/mixin/common"
	"github.com/MixinNetwork/mixin/config"
	"github.com/MixinNetwork/mixin/crypto"
	"github.com/dgraph-io/badger/v4"
	"github.com/dgraph-io/badger/v4/options"
)

// This file is injected through the overlay (tag verif) and only ADDS helpers
// used by the /verif harnesses of other packages; it is not part of /repo.

var (
	verifBaseOnce sync.Once
	verifBaseOpts [2]badger.Options
)

// OpenForVerif opens a store. dir=="" gives two in-memory Badger DBs.
func OpenForVerif(dir string) (*BadgerStore, error) {
	custom := &config.Custom{}
	custom.Node.CacheTTL = 7200
	if dir != "" {
		return NewBadgerStore(custom, dir)
	}
	// The in-memory databases take every semantic option (conflict detection,
	// managed mode, value threshold, ...) from the options the repository's own
	// openDB produces for a directory store, read once per process; only the
	// location and the sizing differ. A change of openDB's options therefore
	// reaches every harness store.
	verifBaseOnce.Do(func() {
		dir, err := os.MkdirTemp("", "verif-opts-")
		if err != nil {
			panic(err)
		}
		defer os.RemoveAll(dir)
		st, err := NewBadgerStore(custom, dir)
		if err != nil {
			panic(err)
		}
		verifBaseOpts[0], verifBaseOpts[1] = st.snapshotsDB.Opts(), st.cacheDB.Opts()
		if err := st.Close(); err != nil {
			panic(err)
		}
	})
	open := func(i int) (*badger.DB, error) {
		opts := verifBaseOpts[i]
		opts.Dir, opts.ValueDir = "", ""
		opts = opts.WithInMemory(true).WithSyncWrites(false)
		opts = opts.WithCompression(options.None).WithBlockCacheSize(0).WithIndexCacheSize(0)
		opts = opts.WithMetricsEnabled(false).WithLoggingLevel(badger.ERROR)
		opts = opts.WithNumCompactors(2).WithMemTableSize(8 << 20).WithNumMemtables(2)
		return badger.Open(opts)
	}
	sdb, err := open(0)
	if err != nil {
		return nil, err
	}
	cdb, err := open(1)
	if err != nil {
		return nil, err
	}
	return &BadgerStore{custom: custom, snapshotsDB: sdb, cacheDB: cdb, mutex: new(sync.RWMutex)}, nil
}

func dumpDB(db *badger.DB, prefix string) map[string]string {
	out := map[string]string{}
	_ = db.View(func(txn *badger.Txn) error {
		opts := badger.DefaultIteratorOptions
		opts.Prefix = []byte(prefix)
		it := txn.NewIterator(opts)
		defer it.Close()
		for it.Rewind(); it.Valid(); it.Next() {
			k := it.Item().KeyCopy(nil)
			v, _ := it.Item().ValueCopy(nil)
			out[hex.EncodeToString(k)] = hex.EncodeToString(v)
		}
		return nil
	})
	return out
}

// VerifDump returns every key/value of the snapshot DB with the given prefix
// ("" = everything), hex encoded.
func (s *BadgerStore) VerifDump(prefix string) map[string]string {
	return dumpDB(s.snapshotsDB, prefix)
}

// VerifDumpCache does the same for the cache DB.
func (s *BadgerStore) VerifDumpCache(prefix string) map[string]string {
	return dumpDB(s.cacheDB, prefix)
}

// VerifSnapshotsDir is the directory of the snapshot DB (for the commit hook).
func (s *BadgerStore) VerifSnapshotsDir() string { return s.snapshotsDB.Opts().Dir }

// VerifNextTopology returns the highest stored topology position + 1.
func (s *BadgerStore) VerifNextTopology() uint64 {
	last, _ := s.LastSnapshot()
	if last == nil {
		return 0
	}
	return last.TopologicalOrder + 1
}

// VerifFinalize writes txs (already locked / written or not) as one finalized
// snapshot on chain nodeId's current head round through the real
// WriteTransaction + WriteSnapshot path. Lock the inputs first when
// lock==true (ordinary admission path).
func (s *BadgerStore) VerifFinalize(nodeId crypto.Hash, timestamp uint64, lock bool, txs ...*common.VersionedTransaction) (*common.SnapshotWithTopologicalOrder, error) {
	topo, err := s.VerifPrepare(nodeId, timestamp, s.VerifNextTopology(), lock, txs...)
	if err != nil {
		return nil, err
	}
	return topo, s.WriteSnapshot(topo, []crypto.Hash{nodeId})
}

// VerifPrepare does everything VerifFinalize does except the final
// WriteSnapshot: inputs locked (when lock), bodies stored, the snapshot built on
// the node's head round with the given topological order. Concurrent harnesses
// prepare sequentially and hand only the WriteSnapshot calls to their threads.
func (s *BadgerStore) VerifPrepare(nodeId crypto.Hash, timestamp, order uint64, lock bool, txs ...*common.VersionedTransaction) (*common.SnapshotWithTopologicalOrder, error) {
	head, err := s.ReadRound(nodeId)
	if err != nil {
		return nil, err
	}
	snap := &common.Snapshot{Version: common.SnapshotVersionCommonEncoding, NodeId: nodeId, RoundNumber: head.Number, References: head.References, Timestamp: timestamp}
	hashes := make([]crypto.Hash, 0, len(txs))
	for _, tx := range txs {
		if lock {
			if err := tx.LockInputs(s, false); err != nil {
				return nil, err
			}
		}
		if err := s.WriteTransaction(tx); err != nil {
			return nil, err
		}
		hashes = append(hashes, tx.PayloadHash())
	}
	// snapshots carry strictly increasing hashes
	for i := range hashes {
		for j := i + 1; j < len(hashes); j++ {
			if string(hashes[j][:]) < string(hashes[i][:]) {
				hashes[i], hashes[j] = hashes[j], hashes[i]
			}
		}
	}
	for _, h := range hashes {
		snap.AddTransaction(h)
	}
	snap.Hash = snap.PayloadHash()
	snap.Signature = &crypto.CosiSignature{Mask: 1}
	return &common.SnapshotWithTopologicalOrder{Snapshot: snap, TopologicalOrder: order}, nil
}

// VerifSnapshotOnly writes a finalized snapshot naming transactions that are
// already stored, WITHOUT locking or writing bodies first: what the kernel does
// for transactions it finds in the store (validateSnapshotTransaction skips
// validation and locking for them).
func (s *BadgerStore) VerifSnapshotOnly(nodeId crypto.Hash, timestamp uint64, hashes ...crypto.Hash) (*common.SnapshotWithTopologicalOrder, error) {
	head, err := s.ReadRound(nodeId)
	if err != nil {
		return nil, err
	}
	snap := &common.Snapshot{Version: common.SnapshotVersionCommonEncoding, NodeId: nodeId, RoundNumber: head.Number, References: head.References, Timestamp: timestamp}
	for _, h := range hashes {
		snap.AddTransaction(h)
	}
	snap.Hash = snap.PayloadHash()
	snap.Signature = &crypto.CosiSignature{Mask: 1}
	topo := &common.SnapshotWithTopologicalOrder{Snapshot: snap, TopologicalOrder: s.VerifNextTopology()}
	return topo, s.WriteSnapshot(topo, []crypto.Hash{nodeId})
}
