//go:build verif

package storage

import (
	"fmt"
	"math/big"
	"sort"
	"strings"
	"sync"
	"testing"
	"time"

	"github.com/MixinNetwork/mixin/common"
	"github.com/MixinNetwork/mixin/crypto"
	"github.com/MixinNetwork/mixin/verifmc"
	"github.com/MixinNetwork/mixin/verifmc/fixc"
	"github.com/dgraph-io/badger/v4"
)

// C17, concurrent part (E3). Supply records are read-modify-write: a
// finalization adds to / subtracts from the ASSETTOTAL record it read. The BFS
// of mc_c17_test.go covers every sequential history; here finalizations of
// different chains (and a finalization racing a takeover by a competing
// spender) run as threads, and every interleaving up to the preemption bound at
// the store mutex and the Badger begin/commit points is executed on a fresh
// ledger. After each execution the statement's invariant (recorded total =
// reference history = sum of unconsumed outputs) is evaluated with the
// reference advanced by exactly the calls that returned success.

type c17Call struct {
	name  string
	topo  *common.SnapshotWithTopologicalOrder
	delta map[crypto.Hash]*big.Int // effect on the reference totals when it succeeds
	run   func() error
	must  bool // the sequential reference says this call succeeds in every order
	err   error
	pv    any
}

type c17Scenario struct {
	name  string
	build func(w *mcWallet) [][]*c17Call
}

func c17Units(s string) *big.Int { return mcUnits(common.NewIntegerFromString(s)) }

func c17Scenarios() []c17Scenario {
	base := func(w *mcWallet) uint64 { return w.Time + uint64(time.Minute) }
	finalize := func(w *mcWallet, name string, chain int, order uint64, tx *common.VersionedTransaction, delta map[crypto.Hash]*big.Int, lock bool) *c17Call {
		node := w.L.Net.NodeIds[chain]
		topo, err := w.L.Store.VerifPrepare(node, base(w)+uint64(chain), order, lock, tx)
		if err != nil {
			panic(fmt.Sprintf("prepare %s: %v", name, err))
		}
		cl := &c17Call{name: name, topo: topo, delta: delta, must: true}
		cl.run = func() error { return w.L.Store.WriteSnapshot(topo, []crypto.Hash{node}) }
		return cl
	}
	admitOK := func(w *mcWallet, tx *common.VersionedTransaction, what string) {
		if verr, werr := w.admit(tx); verr != nil || werr != nil {
			panic(fmt.Sprintf("prefix %s: %v %v", what, verr, werr))
		}
	}
	return []c17Scenario{
		{"finalize(deposit XIN 3)@A || finalize(deposit XIN 5)@B", func(w *mcWallet) [][]*c17Call {
			n := w.L.Store.VerifNextTopology()
			a := finalize(w, "dep3@A", 2, n, w.txDeposit(common.XINAssetId, "3"), map[crypto.Hash]*big.Int{common.XINAssetId: c17Units("3")}, true)
			b := finalize(w, "dep5@B", 3, n+1, w.txDeposit(common.XINAssetId, "5"), map[crypto.Hash]*big.Int{common.XINAssetId: c17Units("5")}, true)
			return [][]*c17Call{{a}, {b}}
		}},
		{"[BTC 5] finalize(deposit BTC 3)@A || finalize(submit BTC 1)@B", func(w *mcWallet) [][]*c17Call {
			dep := w.txDeposit(common.BitcoinAssetId, "5")
			admitOK(w, dep, "deposit BTC 5")
			w.RefTotal[common.BitcoinAssetId] = new(big.Int).Add(w.RefTotal[common.BitcoinAssetId], c17Units("5"))
			n := w.L.Store.VerifNextTopology()
			a := finalize(w, "depBTC3@A", 2, n, w.txDeposit(common.BitcoinAssetId, "3"), map[crypto.Hash]*big.Int{common.BitcoinAssetId: c17Units("3")}, true)
			sub := w.txSubmit(common.BitcoinAssetId, "1")
			if sub == nil {
				panic("no submit")
			}
			b := finalize(w, "submitBTC1@B", 3, n+1, sub, map[crypto.Hash]*big.Int{common.BitcoinAssetId: new(big.Int).Neg(mcUnits(sub.Outputs[0].Amount))}, true)
			return [][]*c17Call{{a}, {b}}
		}},
		{"finalize(deposit XIN 3)@A || finalize(deposit XIN 5)@B || finalize(mint 500)@C", func(w *mcWallet) [][]*c17Call {
			n := w.L.Store.VerifNextTopology()
			a := finalize(w, "dep3@A", 2, n, w.txDeposit(common.XINAssetId, "3"), map[crypto.Hash]*big.Int{common.XINAssetId: c17Units("3")}, true)
			b := finalize(w, "dep5@B", 3, n+1, w.txDeposit(common.XINAssetId, "5"), map[crypto.Hash]*big.Int{common.XINAssetId: c17Units("5")}, true)
			m := finalize(w, "mint500@C", 4, n+2, w.txMint(w.MintBatch+1, "500"), map[crypto.Hash]*big.Int{common.XINAssetId: c17Units("500")}, true)
			return [][]*c17Call{{a}, {b}, {m}}
		}},
		{"[BTC 5, T1 admitted] finalize(T1)@A || takeover(T2: fork-lock, store, finalize)@B", func(w *mcWallet) [][]*c17Call {
			dep := w.txDeposit(common.BitcoinAssetId, "5")
			admitOK(w, dep, "deposit BTC 5")
			w.RefTotal[common.BitcoinAssetId] = new(big.Int).Add(w.RefTotal[common.BitcoinAssetId], c17Units("5"))
			n := w.L.Store.VerifNextTopology()
			t1 := w.txSplit(common.BitcoinAssetId)
			if t1 == nil {
				panic("no split")
			}
			// a second, different spender of the same output
			in := t1.Inputs[0]
			tx := common.NewTransactionV5(common.BitcoinAssetId)
			tx.AddInput(in.Hash, in.Index)
			tx.AddScriptOutput(w.acct(), common.NewThresholdScript(1), common.NewIntegerFromString("5"), fixc.Seed64("c17-takeover-seed"))
			t2 := w.sign(tx)
			a := finalize(w, "finalize(T1)@A", 2, n, t1, nil, true)
			a.must = false
			nodeB := w.L.Net.NodeIds[3]
			b := &c17Call{name: "takeover(T2)@B"}
			b.run = func() error {
				if err := t2.LockInputs(w.L.Store, true); err != nil {
					return err
				}
				if err := w.L.Store.WriteTransaction(t2); err != nil {
					return err
				}
				head, err := w.L.Store.ReadRound(nodeB)
				if err != nil {
					return err
				}
				snap := &common.Snapshot{Version: common.SnapshotVersionCommonEncoding, NodeId: nodeB, RoundNumber: head.Number, References: head.References, Timestamp: base(w) + 3}
				snap.AddTransaction(t2.PayloadHash())
				snap.Hash = snap.PayloadHash()
				snap.Signature = &crypto.CosiSignature{Mask: 1}
				return w.L.Store.WriteSnapshot(&common.SnapshotWithTopologicalOrder{Snapshot: snap, TopologicalOrder: n + 1}, []crypto.Hash{nodeB})
			}
			return [][]*c17Call{{a}, {b}}
		}},
	}
}

func c17Concurrent(c *verifmc.Check) {
	badger.VerifHook = func(kind, dir string, writes int) error {
		verifmc.Point("txn." + kind)
		return nil
	}
	defer func() { badger.VerifHook = nil }()
	scen := c17Scenarios()
	bound := verifmc.Pick(c, 2, 3)
	var mu sync.Mutex
	var execs int64
	several := 0
	c.ParallelN(len(scen), "C17 concurrent scenarios", func(_, i int) {
		sc := scen[i]
		ex := &verifmc.Explorer{C: c, Bound: bound, Name: "concurrent:" + sc.name}
		ex.Body = func(s *verifmc.Sched, report func(key, desc string)) string {
			w := newMCWallet(newMCLedger(""))
			defer w.L.Close()
			threads := sc.build(w)
			for ti, calls := range threads {
				mine := calls
				s.Go(fmt.Sprint("t", ti), func() {
					for _, cl := range mine {
						cl.pv = verifmc.Catch(func() { cl.err = cl.run() })
					}
				})
			}
			for ti, p := range s.RunAll() {
				if p != nil {
					report("concurrent:thread-panic", fmt.Sprintf("thread %d: %v", ti, p))
				}
			}
			if s.Deadlock {
				report("concurrent:deadlock", strings.Join(s.Trace, " "))
				return "deadlock"
			}
			var pat []string
			okCount := 0
			for _, calls := range threads {
				for _, cl := range calls {
					ok := cl.err == nil && cl.pv == nil
					pat = append(pat, fmt.Sprintf("%s=%v", cl.name, ok))
					if ok {
						okCount++
						for a, d := range cl.delta {
							w.RefTotal[a] = new(big.Int).Add(w.RefTotal[a], d)
						}
					} else if cl.must {
						report("concurrent:finalization-failed", fmt.Sprintf("scenario %q: %s failed (%v %v) although it succeeds in every sequential order", sc.name, cl.name, cl.err, cl.pv))
					}
				}
			}
			if okCount == 0 {
				report("concurrent:no-call-succeeded", fmt.Sprintf("scenario %q: every call failed %v", sc.name, pat))
			}
			sort.Strings(pat)
			if pv := verifmc.Catch(func() {
				c17Check(w, func(key, desc string) {
					report("concurrent:"+key, fmt.Sprintf("scenario %q after [%s]: %s", sc.name, strings.Join(pat, " "), desc))
				})
			}); pv != nil {
				// the ledger scan itself found an impossible record (e.g. a
				// finalization whose transaction body is gone)
				report("concurrent:ledger-inconsistent", fmt.Sprintf("scenario %q after [%s]: %v", sc.name, strings.Join(pat, " "), pv))
				return strings.Join(pat, " ") + " => inconsistent ledger"
			}
			var tot []string
			for _, a := range c17Assets() {
				_, bal, _ := w.L.Store.ReadAssetWithBalance(a)
				tot = append(tot, bal.String())
			}
			return strings.Join(pat, " ") + " => totals " + strings.Join(tot, "/")
		}
		ex.Run()
		mu.Lock()
		execs += ex.Executions
		if len(ex.Outcomes) >= 2 {
			several++
		}
		mu.Unlock()
	})
	c.Set("concurrent_scenarios", len(scen))
	c.Set("concurrent_executions", execs)
	c.Set("preemption_bound", bound)
	c.Set("scenarios_with_several_outcomes", several)
	c.Require(verifmc.FreeRunning() || execs >= 20, "vacuous concurrent part: %d executions", execs)
}

// TestMCRace_C17 is the separate free-running pass (go test -race) over the
// bodies of the concurrent scenarios.
func TestMCRace_C17(t *testing.T) {
	c := verifmc.Start(t, "C17", "model_checking")
	defer c.Finish()
	c17Concurrent(c)
	verifmc.RacePassDone("C17")
}
