//go:build verif

package storage

import (
	"crypto/sha512"
	"encoding/hex"
	"fmt"
	"math/big"
	"runtime"
	"sort"
	"strings"
	"sync"
	"time"

	"filippo.io/edwards25519"
	"github.com/MixinNetwork/mixin/common"
	"github.com/MixinNetwork/mixin/config"
	"github.com/MixinNetwork/mixin/crypto"
	"github.com/MixinNetwork/mixin/verifmc"
	"github.com/MixinNetwork/mixin/verifmc/fixc"
)

// Shared transaction generator of the C01 (value conservation) and C05
// (Validate never panics) harnesses: deterministic ledger recipes built with
// the wallet through real admission + finalization, and a shape -> transaction
// builder. A shape is pure data; the builder is a function of (ledger, shape),
// so that every case can be rebuilt from its printed shape.

// ---------------------------------------------------------------- amounts

// txgUnits turns an integer number of 1e-8 units into a common.Integer.
func txgUnits(u *big.Int) common.Integer {
	if u.Sign() < 0 {
		panic("negative units")
	}
	s := u.String()
	for len(s) < 9 {
		s = "0" + s
	}
	return common.NewIntegerFromString(s[:len(s)-8] + "." + s[len(s)-8:])
}

func txgPow2(e int64) *big.Int { return new(big.Int).Exp(big.NewInt(2), big.NewInt(e), nil) }

func txgBig(s string) *big.Int {
	b, ok := new(big.Int).SetString(s, 10)
	if !ok {
		panic(s)
	}
	return b
}

type txgAmount struct {
	Name string
	V    common.Integer
}

func txgAmt(name string, units *big.Int) txgAmount {
	return txgAmount{Name: name, V: txgUnits(units)}
}

func txgXIN(n int64) *big.Int { return new(big.Int).Mul(big.NewInt(n), big.NewInt(100000000)) }

// ---------------------------------------------------------------- ledgers

// txgEnv is one ledger state, reached from the generated genesis through real
// finalized transactions (recipe), plus the names of interesting outputs.
type txgEnv struct {
	Name      string
	Recipe    []string // steps in order; every step is Validate + LockInputs + WriteTransaction + WriteSnapshot unless listed in Synthetic
	Synthetic []string // steps finalized WITHOUT passing Validate (flagged)
	W         *mcWallet
	Ref       map[string]*common.Input // named output references (existing or not in this state)
	Priv      map[string]*crypto.Key   // one-time private key of a named output we can sign for
	Submit    *crypto.Hash             // finalized withdrawal submit
	Other     *crypto.Hash             // finalized ordinary transaction
	Pledge    *common.VersionedTransaction
	Times     []uint64
	TimeNames []string
	Types     map[uint8]int // unspent outputs per type in this state (measured)
}

func (e *txgEnv) store() *BadgerStore { return e.W.L.Store }

func (e *txgEnv) recipe() map[string]any {
	return map[string]any{"ledger": e.Name, "steps": e.Recipe, "synthetic_steps": e.Synthetic, "genesis": "fixc.NewNet(7,\"net7\")"}
}

var txgGenesisTx = func() []*common.VersionedTransaction {
	_, _, txs, err := mcNet7.Genesis.BuildSnapshots()
	if err != nil {
		panic(err)
	}
	return txs
}()

var txgRecipes = map[string][]string{
	"genesis":  {},
	"deposits": {"deposits"},
	"transfer": {"deposits", "transfer-xin12"},
	"spent":    {"deposits", "transfer-xin12", "spend-xin5"},
	"submit":   {"deposits", "transfer-xin12", "spend-xin5", "submit-btc3"},
	"alltypes": {"deposits", "deposits-node", "submit-btc3", "remove-node6", "pledge-a", "cancel-a", "claim", "pledge-b"},
}

func txgNewEnv(name string) *txgEnv {
	steps, ok := txgRecipes[name]
	if !ok {
		panic("unknown ledger recipe " + name)
	}
	w := newMCWallet(newMCLedger(""))
	e := &txgEnv{Name: name, W: w, Ref: map[string]*common.Input{}, Priv: map[string]*crypto.Key{}, Types: map[uint8]int{}}
	net := w.L.Net
	// every deposit is *built* in every state (same labels, same hashes); it is
	// admitted only when the recipe says so. In the other states the name
	// refers to an output that does not exist.
	type dep struct {
		name   string
		asset  crypto.Hash
		amount string
		group  string
	}
	deps := []dep{
		{"xin5", common.XINAssetId, "5", "deposits"}, {"xin7", common.XINAssetId, "7", "deposits"},
		{"btc5", common.BitcoinAssetId, "5", "deposits"}, {"xin12", common.XINAssetId, "12", "deposits"},
		{"btc3", common.BitcoinAssetId, "3", "deposits"},
		{"xinp1", common.XINAssetId, "13439", "deposits-node"}, {"xinp2", common.XINAssetId, "13439", "deposits-node"},
		{"xin20", common.XINAssetId, "20", "deposits-node"},
	}
	depTx := map[string]*common.VersionedTransaction{}
	for _, d := range deps {
		tx := w.txDeposit(d.asset, d.amount)
		depTx[d.name] = tx
		e.Ref[d.name] = &common.Input{Hash: tx.PayloadHash(), Index: 0}
	}
	for _, n := range []string{"missing", "t1a", "t1b", "t2", "change", "remove", "pledge", "pledge-a", "cancel", "cancel-refund", "claim", "claim-change"} {
		e.Ref[n] = &common.Input{Hash: fixc.Hash("txg-absent-" + n), Index: 0}
	}
	for i := range net.Signers {
		e.Ref[fmt.Sprintf("accept%d", i)] = &common.Input{Hash: txgGenesisTx[i].PayloadHash(), Index: 0}
	}
	e.Ref["custodian"] = &common.Input{Hash: txgGenesisTx[len(net.Signers)].PayloadHash(), Index: 0}

	admit := func(step string, tx *common.VersionedTransaction) {
		verr, werr := w.admit(tx)
		if verr != nil || werr != nil {
			panic(fmt.Sprintf("ledger recipe %s step %s: validate=%v write=%v", name, step, verr, werr))
		}
	}
	xfer := func(label string, in string, amounts ...string) *common.VersionedTransaction {
		var outs []fixc.Out
		for _, a := range amounts {
			outs = append(outs, fixc.Out{To: w.acct(), T: 1, Amount: a})
		}
		r := e.Ref[in]
		asset := common.XINAssetId
		if strings.HasPrefix(in, "btc") {
			asset = common.BitcoinAssetId
		}
		tx := fixc.Transfer(asset, []*common.Input{{Hash: r.Hash, Index: r.Index}}, outs, "txg-"+label)
		return fixc.SignAll(tx, w.L.Store, [][]*common.Address{w.acct()})
	}
	var pledgeA *common.VersionedTransaction
	for _, s := range steps {
		e.Recipe = append(e.Recipe, s)
		switch s {
		case "deposits", "deposits-node":
			for _, d := range deps {
				if d.group == s {
					admit(s+":"+d.name, depTx[d.name])
				}
			}
		case "transfer-xin12":
			tx := xfer("t1", "xin12", "6", "6")
			admit(s, tx)
			e.Ref["t1a"] = &common.Input{Hash: tx.PayloadHash(), Index: 0}
			e.Ref["t1b"] = &common.Input{Hash: tx.PayloadHash(), Index: 1}
			h := tx.PayloadHash()
			e.Other = &h
		case "spend-xin5":
			tx := xfer("t2", "xin5", "5")
			admit(s, tx)
			e.Ref["t2"] = &common.Input{Hash: tx.PayloadHash(), Index: 0}
		case "submit-btc3":
			r := e.Ref["btc3"]
			tx := common.NewTransactionV5(common.BitcoinAssetId)
			tx.AddInput(r.Hash, r.Index)
			tx.Outputs = append(tx.Outputs, &common.Output{Type: common.OutputTypeWithdrawalSubmit, Amount: common.NewIntegerFromString("1"), Withdrawal: &common.WithdrawalData{Address: "bc1-txg", Tag: ""}})
			tx.AddScriptOutput(w.acct(), common.NewThresholdScript(1), common.NewIntegerFromString("2"), fixc.Seed64("txg-submit-change"))
			ver := fixc.SignAll(tx, w.L.Store, [][]*common.Address{w.acct()})
			admit(s, ver)
			h := ver.PayloadHash()
			e.Submit = &h
			e.Ref["change"] = &common.Input{Hash: h, Index: 1}
			if e.Other == nil {
				o := depTx["xin5"].PayloadHash()
				e.Other = &o
			}
		case "remove-node6":
			i := len(net.Signers) - 1
			payee := net.Payees[i]
			tx := common.NewTransactionV5(common.XINAssetId)
			r := e.Ref[fmt.Sprintf("accept%d", i)]
			tx.AddInput(r.Hash, r.Index)
			tx.AddOutputWithType(common.OutputTypeNodeRemove, []*common.Address{&payee}, common.NewThresholdScript(1), common.KernelNodePledgeAmount, fixc.Seed64("txg-remove"))
			tx.Extra = append(append([]byte{}, net.Signers[i].PublicSpendKey[:]...), payee.PublicSpendKey[:]...)
			ver := tx.AsVersioned()
			admit(s, ver)
			e.Ref["remove"] = &common.Input{Hash: ver.PayloadHash(), Index: 0}
		case "pledge-a":
			pledgeA = w.txPledge(0)
			if pledgeA == nil {
				panic("no pledge input")
			}
			admit(s, pledgeA)
			e.Ref["pledge-a"] = &common.Input{Hash: pledgeA.PayloadHash(), Index: 0}
		case "cancel-a":
			tx := w.txCancel(pledgeA)
			if verr := tx.Validate(w.L.Store, w.Time, false); verr != nil {
				// the validator refuses every cancel transaction ("batch verification not
				// ready"): finalize it without admission and flag the state.
				e.Synthetic = append(e.Synthetic, fmt.Sprintf("%s (finalized without Validate: %v)", s, txgErrClass(verr)))
				var err error
				p := verifmc.Catch(func() { _, err = w.L.Store.VerifFinalize(net.NodeIds[w.Chain], w.Time, true, tx) })
				if p != nil || err != nil {
					panic(fmt.Sprint("synthetic cancel failed ", p, err))
				}
				w.Time += uint64(time.Second)
			} else {
				admit(s, tx)
			}
			e.Ref["cancel"] = &common.Input{Hash: tx.PayloadHash(), Index: 0}
			e.Ref["cancel-refund"] = &common.Input{Hash: tx.PayloadHash(), Index: 1}
		case "claim":
			fee := common.NewIntegerFromString(config.WithdrawalClaimFee)
			r := e.Ref["xin20"]
			tx := common.NewTransactionV5(common.XINAssetId)
			tx.AddInput(r.Hash, r.Index)
			tx.Outputs = append(tx.Outputs, &common.Output{Type: common.OutputTypeWithdrawalClaim, Amount: fee})
			tx.AddScriptOutput(w.acct(), common.NewThresholdScript(1), common.NewIntegerFromString("20").Sub(fee), fixc.Seed64("txg-claim-change"))
			tx.References = []crypto.Hash{*e.Submit}
			tx.Extra = txgClaimExtra(net, *e.Submit)
			ver := fixc.SignAll(tx, w.L.Store, [][]*common.Address{w.acct()})
			admit(s, ver)
			e.Ref["claim"] = &common.Input{Hash: ver.PayloadHash(), Index: 0}
			e.Ref["claim-change"] = &common.Input{Hash: ver.PayloadHash(), Index: 1}
		case "pledge-b":
			tx := w.txPledge(1)
			if tx == nil {
				panic("no second pledge input")
			}
			admit(s, tx)
			e.Pledge = tx
			e.Ref["pledge"] = &common.Input{Hash: tx.PayloadHash(), Index: 0}
		default:
			panic("unknown step " + s)
		}
	}
	// one-time private keys of the outputs we own
	owners := []common.Address{w.Acct, net.Payees[len(net.Payees)-1]}
	for n, r := range e.Ref {
		u, err := w.L.Store.ReadUTXOLock(r.Hash, r.Index)
		if err != nil {
			panic(err)
		}
		if u == nil || len(u.Keys) != 1 {
			continue
		}
		for _, a := range owners {
			priv := crypto.DeriveGhostPrivateKey(&u.Mask, &a.PrivateViewKey, &a.PrivateSpendKey, uint64(r.Index))
			if priv.Public() == *u.Keys[0] {
				e.Priv[n] = priv
			}
		}
	}
	spent := w.finalizedInputs()
	for _, u := range w.scanUTXOs() {
		if !spent[fmt.Sprintf("%s:%d", u.Hash, u.Index)] {
			e.Types[u.Type]++
		}
	}
	e.Times = []uint64{net.Epoch + 2, w.Time, w.Time + uint64(24*time.Hour)}
	e.TimeNames = []string{"epoch+2ns", "now", "now+1d"}
	return e
}

func txgClaimExtra(net *fixc.Net, submit crypto.Hash) []byte {
	payload := []byte("external-withdrawal-tx-" + submit.String())
	sig := net.Custodian.PrivateSpendKey.Sign(crypto.Blake3Hash(payload))
	return append(sig[:], payload...)
}

// txgCustodianExtra is a well formed custodian update: a new custodian
// account, the genesis nodes with their payees, approved by the current
// (genesis) custodian.
var txgCustodianExtraCache []byte

func txgCustodianExtra(net *fixc.Net) []byte {
	if txgCustodianExtraCache != nil {
		return txgCustodianExtraCache
	}
	nc := fixc.Addr("txg-new-custodian")
	extra := append(append([]byte{}, nc.PublicSpendKey[:]...), nc.PublicViewKey[:]...)
	type node struct {
		key   crypto.Key
		extra []byte
	}
	var nodes []node
	for i := range net.Signers {
		cu, pa := fixc.Pub(net.Custodians[i]), fixc.Pub(net.Payees[i])
		ss, ps, cs := net.Signers[i].PrivateSpendKey, net.Payees[i].PrivateSpendKey, net.Custodians[i].PrivateSpendKey
		nodes = append(nodes, node{cu.PublicSpendKey, common.EncodeCustodianNode(&cu, &pa, &ss, &ps, &cs, net.NetworkId)})
	}
	sort.Slice(nodes, func(i, j int) bool { return string(nodes[i].key[:]) < string(nodes[j].key[:]) })
	for _, n := range nodes {
		extra = append(extra, n.extra...)
	}
	sig := net.Custodian.PrivateSpendKey.Sign(crypto.Blake3Hash(extra))
	txgCustodianExtraCache = append(extra, sig[:]...)
	return txgCustodianExtraCache
}

// ---------------------------------------------------------------- shapes

// input kinds
const (
	txgInRef     = iota // ordinary input: named output of the ledger (Ref)
	txgInDup            // the same (hash,index) as the previous input; at position 0: index 1 of the xin7 deposit (no such output)
	txgInDeposit        // deposit of the shape's InAmt in the transaction's asset, signed by the custodian
	txgInMint           // universal mint of InAmt, next batch
	txgInGenesis        // genesis input (network id bytes)
	txgInDepMint        // one input carrying deposit AND mint data
	txgInFar            // the xin7 deposit transaction, output index 1024 (the largest encodable index)
	txgInTooFar         // ... index 1025 (the encoder refuses)
)

type txgIn struct {
	Kind int
	Ref  string
}

func (i txgIn) String() string {
	switch i.Kind {
	case txgInRef:
		return i.Ref
	case txgInDup:
		return "dup"
	case txgInDeposit:
		return "deposit"
	case txgInMint:
		return "mint"
	case txgInGenesis:
		return "genesis"
	case txgInDepMint:
		return "deposit+mint"
	case txgInFar:
		return "xin7#1024"
	case txgInTooFar:
		return "xin7#1025"
	}
	return "?"
}

// output forms
const (
	txgFormCanonical = iota // the form validateOutputs asks for, for the type byte
	txgFormStorage          // one key, script fffe40 (storage output / custodian receiver)
	txgFormBare             // no keys, no script, no mask (kernel multisig form) whatever the type
	txgFormKeyed            // one key, script fffe01, mask  (script form) whatever the type
	txgFormWithdrawal       // bare + withdrawal data whatever the type
)

type txgOut struct {
	Type uint8
	Form int
	Amt  txgAmount
}

func (o txgOut) String() string {
	f := [...]string{"", "/storage", "/bare", "/keyed", "/wd"}[o.Form]
	return fmt.Sprintf("%02x%s(%s)", o.Type, f, o.Amt.Name)
}

// signature modes
const (
	txgSigCorrect = iota // one map per input; real signatures where we own the key (deposit: custodian, mint: node 0, cancel/accept: the required key)
	txgSigNone           // no maps at all
	txgSigLess           // correct list without its last map
	txgSigMore           // correct list plus one surplus map {0: zero signature}
	txgSigZero           // one map {0: zero signature} per input
	txgSigIdx9           // one map {9: real-or-zero signature} per input
	txgSigEmpty          // one empty map per input
	txgSigAggReal        // aggregated signature built by the real AggregateSign over the owned inputs (falls back to AggZero)
	txgSigAggZero        // aggregated: signers [0..n-1], zero signature
	txgSigAggNone        // aggregated: no signers, zero signature
	txgSigAggFar         // aggregated: signers [0, 300] (beyond every key list)
)

var txgSigNames = []string{"correct", "none", "len-1", "len+1", "zero@0", "idx9", "empty-maps", "agg-real", "agg-zero", "agg-nosigners", "agg-far"}

// extra modes: ExtraLen < 0 means "what the transaction type wants" (auto).
const (
	txgExtraAuto  = iota // type appropriate content (valid keys, custodian signature, ...), cut / zero-padded to the length
	txgExtraZeros        // zero bytes
	txgExtraFF           // 0xff bytes (no valid key, no canonical scalar)
)

// reference modes
const (
	txgRefAuto    = iota // withdrawal claim: the finalized submit; otherwise none
	txgRefNone           //
	txgRefSubmit         // [finalized submit] (or a finalized ordinary tx when the ledger has no submit)
	txgRefOther          // [finalized non-submit transaction]
	txgRefMissing        // [unknown hash]
	txgRefTwo            // [submit, other]
	txgRef17             // 17 x other (above the limit of 16)
)

var txgRefNames = []string{"auto", "none", "[submit]", "[other]", "[missing]", "[submit,other]", "17x"}

type txgShape struct {
	Asset    int // 0 XIN, 1 BTC, 2 never-seen asset
	Ins      []txgIn
	InAmt    txgAmount // deposit / mint amount
	Outs     []txgOut
	Sig      int
	ExtraLen int // -1 auto
	ExtraFil int
	Refs     int
}

var txgAssetNames = []string{"XIN", "BTC", "UNKNOWN"}
var txgAssets = []crypto.Hash{common.XINAssetId, common.BitcoinAssetId, crypto.Sha256Hash([]byte("txg-never-seen-asset"))}

func (s *txgShape) Key() string {
	var b strings.Builder
	b.WriteString(txgAssetNames[s.Asset])
	b.WriteString(" in[")
	dep := false
	for i, in := range s.Ins {
		if i > 0 {
			b.WriteByte(',')
		}
		b.WriteString(in.String())
		dep = dep || in.Kind == txgInDeposit || in.Kind == txgInMint || in.Kind == txgInDepMint
	}
	b.WriteString("]")
	if dep {
		b.WriteString(" a=" + s.InAmt.Name)
	}
	b.WriteString(" out[")
	for i, o := range s.Outs {
		if i > 0 {
			b.WriteByte(',')
		}
		b.WriteString(o.String())
	}
	fmt.Fprintf(&b, "] sig=%s extra=", txgSigNames[s.Sig])
	if s.ExtraLen < 0 {
		b.WriteString("auto")
	} else {
		fmt.Fprintf(&b, "%d/%d", s.ExtraLen, s.ExtraFil)
	}
	b.WriteString(" refs=" + txgRefNames[s.Refs])
	return b.String()
}

// ---------------------------------------------------------------- builder

var txgZeroSig crypto.Signature

// txgOutKeys derives real one-time keys for an account (two scalar multiplications).
func txgOutKeys(seedLabel string, index int, form int, to *common.Address) (crypto.Key, *crypto.Key) {
	r := crypto.NewKeyFromSeed(fixc.Seed64(seedLabel))
	mask := r.Public()
	if form == txgFormStorage {
		return mask, crypto.DeriveGhostPublicKeyForInternalVanish(&r, &to.PublicViewKey, &to.PublicSpendKey, uint64(index))
	}
	return mask, crypto.DeriveGhostPublicKey(&r, &to.PublicViewKey, &to.PublicSpendKey, uint64(index))
}

// txgKeyGen hands out fresh one-time output keys cheaply: the points
// B+G, B+2G, ... for a base point B derived from a label (one point addition
// per key instead of two scalar multiplications). Every key is a valid
// prime-order point and is used by exactly one case.
type txgKeyGen struct {
	cur  *edwards25519.Point
	g    *edwards25519.Point
	mask crypto.Key
	n    int
}

func txgNewKeyGen(label string) *txgKeyGen {
	k := fixc.Key("txg-keygen:" + label)
	sc, err := edwards25519.NewScalar().SetCanonicalBytes(k[:])
	if err != nil {
		panic(err)
	}
	return &txgKeyGen{
		cur:  new(edwards25519.Point).ScalarBaseMult(sc),
		g:    edwards25519.NewGeneratorPoint(),
		mask: fixc.Key("txg-keygen-mask").Public(),
	}
}

func (g *txgKeyGen) next() *crypto.Key {
	g.cur.Add(g.cur, g.g)
	g.n++
	var k crypto.Key
	copy(k[:], g.cur.Bytes())
	return &k
}

// txgSigner produces valid signatures of one private key with a fixed nonce:
// R = zG and the public key are computed once, a signature then costs one hash
// and one scalar multiply-add instead of two base-point multiplications. The
// signatures verify under the real Key.Verify / BatchVerify (nonce reuse is of
// no concern for keys that only exist in this harness).
type txgSigner struct {
	y, z *edwards25519.Scalar
	pub  crypto.Key
	r    [32]byte
}

var txgSigners sync.Map // crypto.Key (private) -> *txgSigner

func txgSignerOf(priv *crypto.Key) *txgSigner {
	if v, ok := txgSigners.Load(*priv); ok {
		return v.(*txgSigner)
	}
	y, err := edwards25519.NewScalar().SetCanonicalBytes(priv[:])
	if err != nil {
		panic(err)
	}
	zk := fixc.Key("txg-nonce:" + priv.String())
	z, _ := edwards25519.NewScalar().SetCanonicalBytes(zk[:])
	sg := &txgSigner{y: y, z: z, pub: priv.Public()}
	copy(sg.r[:], new(edwards25519.Point).ScalarBaseMult(z).Bytes())
	v, _ := txgSigners.LoadOrStore(*priv, sg)
	return v.(*txgSigner)
}

func (sg *txgSigner) sign(msg crypto.Hash) *crypto.Signature {
	h := sha512.New()
	h.Write(sg.r[:])
	h.Write(sg.pub[:])
	h.Write(msg[:])
	var digest [64]byte
	h.Sum(digest[:0])
	x, err := edwards25519.NewScalar().SetUniformBytes(digest[:])
	if err != nil {
		panic(err)
	}
	s := edwards25519.NewScalar().MultiplyAdd(x, sg.y, sg.z)
	var sig crypto.Signature
	copy(sig[:], sg.r[:])
	copy(sig[32:], s.Bytes())
	return &sig
}

// txgBuild builds the transaction of a shape against a ledger. Validate
// reserves the output keys of a transaction that passes the amount check
// (LockGhostKeys), so cases sharing keys would not be independent: with kg the
// one-time keys come from the generator (unique per case), without it they
// are derived for the wallet account from salt (unique when salt is).
func txgBuild(e *txgEnv, s *txgShape, salt string, kg *txgKeyGen) *common.VersionedTransaction {
	net := e.W.L.Net
	tx := common.NewTransactionV5(txgAssets[s.Asset])
	for i, in := range s.Ins {
		switch in.Kind {
		case txgInRef:
			r := e.Ref[in.Ref]
			if r == nil {
				panic("unknown ref " + in.Ref)
			}
			tx.Inputs = append(tx.Inputs, &common.Input{Hash: r.Hash, Index: r.Index})
		case txgInDup:
			if i == 0 {
				tx.Inputs = append(tx.Inputs, &common.Input{Hash: e.Ref["xin7"].Hash, Index: 1})
			} else {
				p := tx.Inputs[i-1]
				cp := *p
				tx.Inputs = append(tx.Inputs, &cp)
			}
		case txgInDeposit, txgInDepMint:
			d := &common.DepositData{Chain: common.BitcoinAssetId, AssetKey: fixc.BTCAssetKey, Transaction: "txg-ext-" + salt, Index: uint64(i), Amount: s.InAmt.V}
			if s.Asset == 0 {
				d.Chain, d.AssetKey = common.XINAsset.Chain, common.XINAsset.AssetKey
			}
			input := &common.Input{Deposit: d}
			if in.Kind == txgInDepMint {
				// mint data wins the classification (TransactionType, LockInputs): the
				// value created is the mint amount; the deposit data carries a DIFFERENT
				// amount so that any site that reads it instead becomes visible
				input.Mint = &common.MintData{Group: "UNIVERSAL", Batch: e.W.MintBatch + 1, Amount: s.InAmt.V}
				alt := common.NewIntegerFromString("12")
				if s.InAmt.V.Cmp(alt) == 0 {
					alt = common.NewIntegerFromString("5")
				}
				d.Amount = alt
			}
			tx.Inputs = append(tx.Inputs, input)
		case txgInMint:
			tx.Inputs = append(tx.Inputs, &common.Input{Mint: &common.MintData{Group: "UNIVERSAL", Batch: e.W.MintBatch + 1, Amount: s.InAmt.V}})
		case txgInGenesis:
			tx.Inputs = append(tx.Inputs, &common.Input{Genesis: net.NetworkId[:]})
		case txgInFar:
			tx.Inputs = append(tx.Inputs, &common.Input{Hash: e.Ref["xin7"].Hash, Index: 1024})
		case txgInTooFar:
			tx.Inputs = append(tx.Inputs, &common.Input{Hash: e.Ref["xin7"].Hash, Index: 1025})
		}
	}
	to := e.W.Acct
	for i, o := range s.Outs {
		out := &common.Output{Type: o.Type, Amount: o.Amt.V, Keys: []*crypto.Key{}}
		form := o.Form
		if form == txgFormCanonical {
			switch o.Type {
			case common.OutputTypeWithdrawalSubmit:
				form = txgFormWithdrawal
			case common.OutputTypeWithdrawalClaim, common.OutputTypeNodePledge, common.OutputTypeNodeCancel, common.OutputTypeNodeAccept:
				form = txgFormBare
			case common.OutputTypeCustodianUpdateNodes:
				form = txgFormStorage
			default:
				form = txgFormKeyed
			}
		}
		switch form {
		case txgFormKeyed, txgFormStorage:
			if kg != nil {
				out.Mask, out.Keys = kg.mask, []*crypto.Key{kg.next()}
			} else {
				mask, key := txgOutKeys(fmt.Sprintf("txg-out:%s:%d", salt, i), i, form, &to)
				out.Mask, out.Keys = mask, []*crypto.Key{key}
			}
			out.Script = common.NewThresholdScript(1)
			if form == txgFormStorage {
				out.Script = common.NewThresholdScript(64)
			}
		case txgFormWithdrawal:
			out.Withdrawal = &common.WithdrawalData{Address: "bc1-txg-withdrawal", Tag: ""}
		}
		tx.Outputs = append(tx.Outputs, out)
	}
	ver := tx.AsVersioned()
	txType := ver.TransactionType()

	// references
	other := fixc.Hash("txg-no-other")
	if e.Other != nil {
		other = *e.Other
	}
	submit := other
	if e.Submit != nil {
		submit = *e.Submit
	}
	switch s.Refs {
	case txgRefAuto:
		if txType == common.TransactionTypeWithdrawalClaim {
			ver.References = []crypto.Hash{submit}
		}
	case txgRefSubmit:
		ver.References = []crypto.Hash{submit}
	case txgRefOther:
		ver.References = []crypto.Hash{other}
	case txgRefMissing:
		ver.References = []crypto.Hash{fixc.Hash("txg-missing-reference")}
	case txgRefTwo:
		ver.References = []crypto.Hash{submit, other}
	case txgRef17:
		for i := 0; i < 17; i++ {
			ver.References = append(ver.References, other)
		}
	}

	// extra
	var auto []byte
	switch txType {
	case common.TransactionTypeNodePledge:
		sg, pa := fixc.NodeAddr("txg-signer"), fixc.NodeAddr("txg-payee")
		auto = append(append([]byte{}, sg.PublicSpendKey[:]...), pa.PublicSpendKey[:]...)
	case common.TransactionTypeNodeAccept:
		if e.Pledge != nil {
			auto = append([]byte{}, e.Pledge.Extra...)
		} else {
			auto = make([]byte, 64)
		}
	case common.TransactionTypeNodeCancel:
		if e.Pledge != nil {
			auto = append([]byte{}, e.Pledge.Extra...)
		} else {
			auto = make([]byte, 64)
		}
		auto = append(auto, e.W.Acct.PrivateViewKey[:]...)
	case common.TransactionTypeNodeRemove:
		// the extra of the accept transaction of the first input when it is a genesis accept output
		auto = append(append([]byte{}, net.Signers[0].PublicSpendKey[:]...), net.Payees[0].PublicSpendKey[:]...)
		for i := range net.Signers {
			if len(ver.Inputs) > 0 && ver.Inputs[0].Hash == txgGenesisTx[i].PayloadHash() {
				auto = append([]byte{}, txgGenesisTx[i].Extra...)
			}
		}
	case common.TransactionTypeWithdrawalClaim:
		auto = txgClaimExtra(net, submit)
	case common.TransactionTypeCustodianUpdateNodes:
		auto = txgCustodianExtra(net)
	}
	if s.ExtraLen < 0 {
		ver.Extra = auto
	} else {
		ex := make([]byte, s.ExtraLen)
		switch s.ExtraFil {
		case txgExtraAuto:
			copy(ex, auto)
		case txgExtraFF:
			for i := range ex {
				ex[i] = 0xff
			}
		}
		ver.Extra = ex
	}
	if len(ver.Extra) == 0 {
		ver.Extra = nil
	}

	// signatures (over the final payload)
	var hash crypto.Hash
	if p := verifmc.Catch(func() { hash = ver.PayloadHash() }); p != nil {
		return ver // not encodable: txgRun records the encoder's refusal
	}
	sign := func(k *crypto.Key) *crypto.Signature { return txgSignerOf(k).sign(hash) }
	correct := func(idx uint16) []map[uint16]*crypto.Signature {
		var maps []map[uint16]*crypto.Signature
		for i, in := range ver.Inputs {
			m := map[uint16]*crypto.Signature{}
			switch {
			case in.Mint != nil:
				m[idx] = sign(&net.Signers[0].PrivateSpendKey)
			case in.Deposit != nil:
				m[idx] = sign(&net.Custodian.PrivateSpendKey)
			case len(in.Genesis) > 0:
			case txType == common.TransactionTypeNodeCancel && e.Pledge != nil && in.Hash == e.Pledge.PayloadHash():
				// the owner of the pledge's input signs the cancellation
				pin := e.Pledge.Inputs[0]
				for n, r := range e.Ref {
					if r.Hash == pin.Hash && r.Index == pin.Index && e.Priv[n] != nil {
						m[idx] = sign(e.Priv[n])
					}
				}
			case txType == common.TransactionTypeNodeAccept && e.Pledge != nil && in.Hash == e.Pledge.PayloadHash():
				sk := fixc.NodeAddr("pledge-signer-1").PrivateSpendKey
				m[idx] = sign(&sk)
			default:
				// the named output this input points at (a duplicate points at its predecessor's)
				name := ""
				for j := i; j >= 0; j-- {
					if s.Ins[j].Kind == txgInRef {
						name = s.Ins[j].Ref
						break
					}
					if s.Ins[j].Kind != txgInDup {
						break
					}
				}
				if k := e.Priv[name]; k != nil {
					m[idx] = sign(k)
				}
			}
			maps = append(maps, m)
		}
		return maps
	}
	zeroMaps := func(n int, idx uint16, empty bool) []map[uint16]*crypto.Signature {
		var maps []map[uint16]*crypto.Signature
		for i := 0; i < n; i++ {
			m := map[uint16]*crypto.Signature{}
			if !empty {
				z := txgZeroSig
				m[idx] = &z
			}
			maps = append(maps, m)
		}
		return maps
	}
	n := len(ver.Inputs)
	switch s.Sig {
	case txgSigCorrect:
		ver.SignaturesMap = correct(0)
	case txgSigNone:
	case txgSigLess:
		if m := correct(0); len(m) > 0 {
			ver.SignaturesMap = m[:len(m)-1]
		}
	case txgSigMore:
		ver.SignaturesMap = append(correct(0), zeroMaps(1, 0, false)...)
	case txgSigZero:
		ver.SignaturesMap = zeroMaps(n, 0, false)
	case txgSigIdx9:
		ver.SignaturesMap = correct(9)
		for _, m := range ver.SignaturesMap {
			if len(m) == 0 {
				z := txgZeroSig
				m[9] = &z
			}
		}
	case txgSigEmpty:
		ver.SignaturesMap = zeroMaps(n, 0, true)
	case txgSigAggReal, txgSigAggZero:
		as := &common.AggregatedSignature{}
		for i := 0; i < n; i++ {
			as.Signers = append(as.Signers, i)
		}
		if s.Sig == txgSigAggReal {
			if real := txgAggregate(e, s, ver); real != nil {
				as = real
			}
		}
		ver.AggregatedSignature = as
	case txgSigAggNone:
		ver.AggregatedSignature = &common.AggregatedSignature{}
	case txgSigAggFar:
		ver.AggregatedSignature = &common.AggregatedSignature{Signers: []int{0, 300}}
	}
	if len(ver.SignaturesMap) == 0 {
		ver.SignaturesMap = nil
	}
	return ver
}

// txgAggregate builds a real aggregated signature when every input is an
// owned one-key output; nil otherwise.
func txgAggregate(e *txgEnv, s *txgShape, ver *common.VersionedTransaction) *common.AggregatedSignature {
	var signers []int
	var pubs, privs []*crypto.Key
	for i, in := range s.Ins {
		if in.Kind != txgInRef || e.Priv[in.Ref] == nil {
			return nil
		}
		for j := 0; j < i; j++ {
			if s.Ins[j].Ref == in.Ref {
				return nil
			}
		}
		k := e.Priv[in.Ref]
		pub := k.Public()
		signers = append(signers, len(pubs))
		pubs = append(pubs, &pub)
		privs = append(privs, k)
	}
	seed := fixc.Seed64("txg-aggregate")
	sig, err := crypto.AggregateSign(privs, pubs, signers, seed, ver.PayloadHash())
	if err != nil {
		return nil
	}
	as := &common.AggregatedSignature{Signers: signers}
	copy(as.Signature[:], sig[:])
	return as
}

// ---------------------------------------------------------------- running

type txgResult struct {
	Stage  string // "encode-panic", "undecodable", "validated"
	Raw    []byte
	Tx     *common.VersionedTransaction // the DECODED transaction (what a peer's bytes turn into)
	Err    error
	Panic  any
	Site   string
	Detail string
}

// txgSite is verifmc.CatchSite with a fallback for scratch worktrees: the
// engine recognises repository frames by the path fragment "/repo/"; when the
// code under test lives elsewhere (VERIF_REPO=/var/tmp/...) the frames are
// taken by module path instead.
func txgCatchSite(f func()) (p any, site string) {
	defer func() {
		if r := recover(); r != nil {
			p = r
			site = verifmc.PanicSite()
			if site == "" {
				site = txgPanicSite()
			}
		}
	}()
	f()
	return nil, ""
}

func txgPanicSite() string {
	buf := make([]byte, 32768)
	n := runtime.Stack(buf, false)
	lines := strings.Split(string(buf[:n]), "\n")
	var out []string
	for i := 0; i+1 < len(lines); i++ {
		fn := strings.TrimSpace(lines[i])
		loc := strings.TrimSpace(lines[i+1])
		if !strings.HasPrefix(fn, "github.com/MixinNetwork/mixin/") || !strings.Contains(loc, ".go:") {
			continue
		}
		if strings.Contains(loc, "zzverif") || strings.Contains(fn, "/verifmc") || strings.Contains(loc, "/vendor/") {
			continue
		}
		if j := strings.LastIndex(fn, "("); j > 0 {
			fn = fn[:j]
		}
		if j := strings.LastIndex(fn, "/"); j >= 0 {
			fn = fn[j+1:]
		}
		out = append(out, fn)
		if len(out) >= 3 {
			break
		}
	}
	return strings.Join(out, "<")
}

// txgPanicKey is the canonical class of a panic: its two innermost repository
// frames. A panic below one of the type dependent validators (validateInputs,
// validateOutputs, validate<Type>...) is classed by the transaction type as
// well, so that a known finding for one transaction type cannot hide the same
// fault becoming reachable for another type; a panic in the type independent
// prefix of Validate (e.g. GetExtraLimit) is classed by site alone.
func txgPanicKey(site string, txType uint8) string {
	parts := strings.Split(site, "<")
	if len(parts) > 2 {
		parts = parts[:2]
	}
	key := "panic:" + strings.Join(parts, "<")
	if strings.Contains(site, "validate") {
		key += fmt.Sprintf(":tx=%02x", txType)
	}
	return key
}

// txgRun pushes ver through Marshal -> UnmarshalVersionedTransaction and
// validates the decoded transaction at snapshot time ts.
func txgRun(e *txgEnv, ver *common.VersionedTransaction, ts uint64) *txgResult {
	res := &txgResult{}
	var raw []byte
	if p := verifmc.Catch(func() { raw = ver.Marshal() }); p != nil {
		res.Stage, res.Detail = "encode-panic", fmt.Sprint(p)
		return res
	}
	res.Raw = raw
	var dec *common.VersionedTransaction
	var derr error
	if p := verifmc.Catch(func() { dec, derr = common.UnmarshalVersionedTransaction(raw) }); p != nil {
		res.Stage, res.Detail = "decode-panic", fmt.Sprint(p)
		return res
	}
	if derr != nil {
		res.Stage, res.Detail = "undecodable", derr.Error()
		return res
	}
	res.Tx = dec
	res.Stage = "validated"
	res.Panic, res.Site = txgCatchSite(func() { res.Err = dec.Validate(e.store(), ts, false) })
	return res
}

// txgReplayRaw validates an encoded transaction again (determinism gate / replay).
func txgReplayRaw(e *txgEnv, raw []byte, ts uint64) (err error, p any, site string) {
	dec, derr := common.UnmarshalVersionedTransaction(raw)
	if derr != nil {
		return derr, nil, ""
	}
	p, site = txgCatchSite(func() { err = dec.Validate(e.store(), ts, false) })
	return
}

// txgValidateRaw validates an encoded transaction with the given fork flag
// (fork=true is how the kernel validates a transaction carried by a finalized
// snapshot: an input reserved for another transaction is then admissible).
func txgValidateRaw(e *txgEnv, raw []byte, ts uint64, fork bool) (dec *common.VersionedTransaction, err error, p any) {
	dec, derr := common.UnmarshalVersionedTransaction(raw)
	if derr != nil {
		return nil, derr, nil
	}
	p, _ = txgCatchSite(func() { err = dec.Validate(e.store(), ts, fork) })
	return
}

// txgErrClass normalises an error message to its class: words only, tokens
// with digits or long hex strings dropped, first six words.
func txgErrClass(err error) string {
	if err == nil {
		return "accept"
	}
	var out []string
	for _, tok := range strings.FieldsFunc(err.Error(), func(r rune) bool { return r == ' ' || r == ':' || r == '[' || r == ']' || r == '{' || r == '}' || r == '&' }) {
		if strings.ContainsAny(tok, "0123456789") || len(tok) > 24 {
			continue
		}
		out = append(out, tok)
		if len(out) >= 6 {
			break
		}
	}
	return strings.Join(out, "_")
}

func txgHex(b []byte) string { return hex.EncodeToString(b) }

// txgSeqs enumerates all sequences of length minLen..maxLen over k symbols.
func txgSeqs(k, minLen, maxLen int) [][]int {
	var out [][]int
	verifmc.Sequences(k, minLen, maxLen, func(s []int) bool {
		out = append(out, append([]int{}, s...))
		return true
	})
	return out
}

// ---------------------------------------------------------------- the C01 product (shared with C05)

func txgC01Amounts() []txgAmount {
	return []txgAmount{
		txgAmt("1u", big.NewInt(1)), txgAmt("5", txgXIN(5)), txgAmt("7", txgXIN(7)), txgAmt("12", txgXIN(12)),
		txgAmt("2^64u", txgPow2(64)), txgAmt("2^256-1u", new(big.Int).Sub(txgPow2(256), big.NewInt(1))),
	}
}

func txgPickAmounts(all []txgAmount, names ...string) []txgAmount {
	var r []txgAmount
	for _, n := range names {
		for _, a := range all {
			if a.Name == n {
				r = append(r, a)
			}
		}
	}
	if len(r) != len(names) {
		panic(fmt.Sprint("unknown amount name in ", names))
	}
	return r
}

// txgBlock is one full product: asset x input lists x (a) x output lists x ledgers x times.
type txgBlock struct {
	Name     string
	InAlpha  []txgIn
	OutAlpha []txgOut
	InSeqs   [][]int
	OutSeqs  [][]int
	Envs     []*txgEnv
	NTimes   int
}

type txgItem struct {
	B     *txgBlock
	Env   *txgEnv
	Time  int
	Asset int
	In    []int
	A     int
}

type txgKindMenu struct {
	T    uint8
	Amts []txgAmount
}

func txgOutAlphabet(menus []txgKindMenu) []txgOut {
	var out []txgOut
	for _, m := range menus {
		for _, a := range m.Amts {
			out = append(out, txgOut{Type: m.T, Amt: a})
		}
	}
	return append(out, txgOut{Type: common.OutputTypeScript, Amt: txgAmt("0", big.NewInt(0))})
}

// txgC01Blocks is the product of DESIGN.md C01. quick: one block, lists of
// length 1..2. thorough: the same with the larger output alphabet and more
// ledgers/times, plus input lists of length 3 and output lists of length 3
// (each against the quick alphabet of the other side).
func txgC01Blocks(thorough bool, env func(string) *txgEnv) []*txgBlock {
	am := txgC01Amounts()
	inAlpha := []txgIn{{txgInRef, "xin5"}, {txgInRef, "xin7"}, {txgInRef, "btc5"}, {txgInRef, "missing"}, {Kind: txgInDup}, {Kind: txgInDeposit}, {Kind: txgInMint}, {Kind: txgInGenesis}, {Kind: txgInDepMint}}
	small := txgOutAlphabet([]txgKindMenu{
		{common.OutputTypeScript, am},
		{common.OutputTypeWithdrawalSubmit, txgPickAmounts(am, "5", "12", "2^64u")},
		{common.OutputTypeNodePledge, txgPickAmounts(am, "5", "12")},
		{0x77, txgPickAmounts(am, "5")},
	})
	envs := func(names ...string) []*txgEnv {
		var r []*txgEnv
		for _, n := range names {
			r = append(r, env(n))
		}
		return r
	}
	if !thorough {
		return []*txgBlock{{Name: "lists<=2", InAlpha: inAlpha, OutAlpha: small, InSeqs: txgSeqs(len(inAlpha), 1, 2), OutSeqs: txgSeqs(len(small), 1, 2),
			Envs: envs("genesis", "deposits", "transfer", "spent"), NTimes: 2}}
	}
	large := txgOutAlphabet([]txgKindMenu{
		{common.OutputTypeScript, am}, {common.OutputTypeWithdrawalSubmit, am}, {common.OutputTypeNodePledge, am},
		{common.OutputTypeNodeRemove, txgPickAmounts(am, "5", "12")}, {common.OutputTypeWithdrawalClaim, txgPickAmounts(am, "1u", "5")},
		{common.OutputTypeCustodianUpdateNodes, txgPickAmounts(am, "5", "12")}, {common.OutputTypeNodeCancel, txgPickAmounts(am, "5")},
		{0x77, txgPickAmounts(am, "5", "2^256-1u")},
	})
	all := envs("genesis", "deposits", "transfer", "spent", "submit", "alltypes")
	return []*txgBlock{
		{Name: "lists<=2/large-alphabet", InAlpha: inAlpha, OutAlpha: large, InSeqs: txgSeqs(len(inAlpha), 1, 2), OutSeqs: txgSeqs(len(large), 1, 2), Envs: all, NTimes: 3},
		{Name: "inputs=3", InAlpha: inAlpha, OutAlpha: small, InSeqs: txgSeqs(len(inAlpha), 3, 3), OutSeqs: txgSeqs(len(small), 1, 2), Envs: all, NTimes: 2},
		{Name: "outputs=3", InAlpha: inAlpha, OutAlpha: small, InSeqs: txgSeqs(len(inAlpha), 1, 2), OutSeqs: txgSeqs(len(small), 3, 3), Envs: all, NTimes: 2},
	}
}

// txgItems expands blocks into work items (ledger, time, asset, input list, a);
// a runs over the amount menu only when the input list has a deposit / mint.
func txgItems(blocks []*txgBlock, amounts []txgAmount) []txgItem {
	var items []txgItem
	for _, b := range blocks {
		for _, e := range b.Envs {
			for ti := 0; ti < b.NTimes; ti++ {
				for as := range txgAssets {
					for _, seq := range b.InSeqs {
						na := 1
						for _, k := range seq {
							if kd := b.InAlpha[k].Kind; kd == txgInDeposit || kd == txgInMint || kd == txgInDepMint {
								na = len(amounts)
							}
						}
						for a := 0; a < na; a++ {
							items = append(items, txgItem{b, e, ti, as, seq, a})
						}
					}
				}
			}
		}
	}
	return items
}

// txgRunItem builds and validates every output list of one item.
func txgRunItem(it txgItem, amounts []txgAmount, fn func(e *txgEnv, ti int, shape *txgShape, key string, res *txgResult)) {
	e := it.Env
	shape := txgShape{Asset: it.Asset, InAmt: amounts[it.A], Sig: txgSigCorrect, ExtraLen: -1, Refs: txgRefAuto}
	for _, x := range it.In {
		shape.Ins = append(shape.Ins, it.B.InAlpha[x])
	}
	kg := txgNewKeyGen(fmt.Sprintf("c01/%s/%s/%d/%d/%v/%d", it.B.Name, e.Name, it.Time, it.Asset, it.In, it.A))
	for _, os := range it.B.OutSeqs {
		shape.Outs = shape.Outs[:0]
		for _, x := range os {
			shape.Outs = append(shape.Outs, it.B.OutAlpha[x])
		}
		key := fmt.Sprintf("%s@%s %s", e.Name, e.TimeNames[it.Time], shape.Key())
		ver := txgBuild(e, &shape, key, kg)
		fn(e, it.Time, &shape, key, txgRun(e, ver, e.Times[it.Time]))
	}
}

// txgEnvCache builds every ledger at most once per test.
type txgEnvCache struct {
	mu   sync.Mutex
	envs map[string]*txgEnv
}

func (ec *txgEnvCache) get(name string) *txgEnv {
	ec.mu.Lock()
	defer ec.mu.Unlock()
	if ec.envs == nil {
		ec.envs = map[string]*txgEnv{}
	}
	if e := ec.envs[name]; e != nil {
		return e
	}
	e := txgNewEnv(name)
	ec.envs[name] = e
	return e
}

func (ec *txgEnvCache) close() {
	for _, e := range ec.envs {
		e.W.L.Close()
	}
}

func (ec *txgEnvCache) describe() []map[string]any {
	var names []string
	for n := range ec.envs {
		names = append(names, n)
	}
	sort.Strings(names)
	var out []map[string]any
	for _, n := range names {
		e := ec.envs[n]
		types := map[string]int{}
		for t, k := range e.Types {
			types[fmt.Sprintf("%02x", t)] = k
		}
		out = append(out, map[string]any{"ledger": n, "steps": e.Recipe, "synthetic_steps": e.Synthetic, "unspent_outputs_by_type": types})
	}
	return out
}
