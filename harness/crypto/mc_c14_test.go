//go:build verif

package crypto

import (
	"crypto/sha512"
	"encoding/binary"
	"fmt"
	"sort"
	"sync/atomic"
	"testing"

	"filippo.io/edwards25519"
	"github.com/MixinNetwork/mixin/verifmc"
)

// C14 — aggregate transaction signatures are sound and bound to their signer
// set. Bounded-exhaustive enumeration (E1): key vectors n in {1,2,3,4,6,300};
// a signature for every non-empty sorted signer subset (n <= 6) and message,
// verified against the full product (vector variant x signer list x message)
// of the same n; malformed signer lists (unsorted, duplicated, out of range);
// partial-key forgeries for every S subset of S'; rogue-key vectors.

// ---- independent reference Schnorr verifier (plain edwards25519) ----------
// crypto/signature.go: x = SHA-512(R || A || m) mod l; s*B == R + x*A.
func c14RefChallenge(R, A, msg []byte) *edwards25519.Scalar {
	h := sha512.New()
	h.Write(R)
	h.Write(A)
	h.Write(msg)
	x, err := edwards25519.NewScalar().SetUniformBytes(h.Sum(nil))
	if err != nil {
		panic(err)
	}
	return x
}

func c14RefVerify(A []byte, sig *Signature, msg []byte) bool {
	pp, err := edwards25519.NewIdentityPoint().SetBytes(A)
	if err != nil {
		return false
	}
	rp, err := edwards25519.NewIdentityPoint().SetBytes(sig[:32])
	if err != nil {
		return false
	}
	ss, err := edwards25519.NewScalar().SetCanonicalBytes(sig[32:])
	if err != nil {
		return false
	}
	x := c14RefChallenge(sig[:32], A, msg)
	lhs := edwards25519.NewIdentityPoint().ScalarBaseMult(ss)
	rhs := edwards25519.NewIdentityPoint().ScalarMult(x, pp)
	rhs.Add(rhs, rp)
	return lhs.Equal(rhs) == 1
}

// ---- independent reference of the weighted aggregate key --------------------
// crypto/aggregation.go (unchanged tree): transcript = u32be(len(signers)) ||
// for each signer in order: u32be(index) || key; coefficient a_i =
// SHA-512("mixin-aggregate-coefficient-v1" || transcript || u32be(index_i) ||
// key_i) mod l; aggregate key = sum a_i * X_i. l must be strictly ascending
// and inside the vector.
func c14RefCoefficients(pub []*Key, l []int) []*edwards25519.Scalar {
	tr := binary.BigEndian.AppendUint32(nil, uint32(len(l)))
	for _, i := range l {
		tr = binary.BigEndian.AppendUint32(tr, uint32(i))
		tr = append(tr, pub[i][:]...)
	}
	out := make([]*edwards25519.Scalar, 0, len(l))
	for _, i := range l {
		h := sha512.New()
		h.Write([]byte("mixin-aggregate-coefficient-v1"))
		h.Write(tr)
		h.Write(binary.BigEndian.AppendUint32(nil, uint32(i)))
		h.Write(pub[i][:])
		a, err := edwards25519.NewScalar().SetUniformBytes(h.Sum(nil))
		if err != nil {
			panic(err)
		}
		out = append(out, a)
	}
	return out
}

// c14RefAggKey returns sum a_i*X_i (nil when a key does not decode).
func c14RefAggKey(pub []*Key, l []int) ([]byte, []*edwards25519.Scalar) {
	coeffs := c14RefCoefficients(pub, l)
	acc := edwards25519.NewIdentityPoint()
	for k, i := range l {
		p, err := edwards25519.NewIdentityPoint().SetBytes(pub[i][:])
		if err != nil {
			return nil, coeffs
		}
		acc.Add(acc, edwards25519.NewIdentityPoint().ScalarMult(coeffs[k], p))
	}
	return acc.Bytes(), coeffs
}

func c14WellFormed(l []int, n int) bool {
	prev := -1
	for _, i := range l {
		if i <= prev || i >= n {
			return false
		}
		prev = i
	}
	return len(l) > 0
}

// ---- fixtures ---------------------------------------------------------------

func c14Seed(label string) []byte {
	h := sha512.Sum512([]byte(label))
	return h[:]
}

func c14Key(label string) *Key {
	k := NewKeyFromSeed(c14Seed(label))
	return &k
}

type c14Vec struct {
	name string
	pub  []*Key
}

type c14Net struct {
	n    int
	name string
	priv []*Key
	base *c14Vec
	vecs []*c14Vec // base first, then swaps and replacements
}

func c14NewNet(n int, swaps [][2]int, replace []int) *c14Net {
	net := &c14Net{n: n, name: fmt.Sprintf("n%d", n)}
	base := &c14Vec{name: "base"}
	for i := 0; i < n; i++ {
		k := c14Key(fmt.Sprintf("c14/key/%d/%d", n, i))
		p := k.Public()
		net.priv = append(net.priv, k)
		base.pub = append(base.pub, &p)
	}
	net.base = base
	net.vecs = append(net.vecs, base)
	for _, sw := range swaps {
		v := &c14Vec{name: fmt.Sprintf("swap(%d,%d)", sw[0], sw[1]), pub: append([]*Key(nil), base.pub...)}
		v.pub[sw[0]], v.pub[sw[1]] = v.pub[sw[1]], v.pub[sw[0]]
		net.vecs = append(net.vecs, v)
	}
	for _, p := range replace {
		f := c14Key(fmt.Sprintf("c14/foreign/%d/%d", n, p)).Public()
		v := &c14Vec{name: fmt.Sprintf("replace(%d)", p), pub: append([]*Key(nil), base.pub...)}
		v.pub[p] = &f
		net.vecs = append(net.vecs, v)
	}
	return net
}

type c14List struct {
	l    []int
	kind string // sorted | unsorted | duplicate | out-of-range
}

func c14Ints(a []int) []int { return append([]int(nil), a...) }

func c14Equal(a, b []int) bool {
	if len(a) != len(b) {
		return false
	}
	for i := range a {
		if a[i] != b[i] {
			return false
		}
	}
	return true
}

func c14Contains(a []int, x int) bool {
	for _, y := range a {
		if x == y {
			return true
		}
	}
	return false
}

// all signer lists of the design for a small vector of n keys
func c14Lists(n int) (sorted, malformed []c14List) {
	seen := map[string]bool{}
	add := func(dst *[]c14List, l []int, kind string) {
		k := fmt.Sprint(l)
		if seen[k] {
			return
		}
		seen[k] = true
		*dst = append(*dst, c14List{c14Ints(l), kind})
	}
	var subsets [][]int
	verifmc.Subsets(n, func(_ uint32, m []int) {
		if len(m) > 0 {
			subsets = append(subsets, c14Ints(m))
		}
	})
	for _, s := range subsets {
		add(&sorted, s, "sorted")
	}
	for _, s := range subsets {
		if len(s) >= 2 && len(s) <= 3 {
			verifmc.Permutations(len(s), func(p []int) {
				l := make([]int, len(s))
				for i, pi := range p {
					l[i] = s[pi]
				}
				if !sort.IntsAreSorted(l) {
					add(&malformed, l, "unsorted")
				}
			})
		}
		for p := range s { // one duplicate, adjacent (keeps the list non-decreasing)
			l := append(c14Ints(s[:p+1]), s[p:]...)
			add(&malformed, l, "duplicate")
		}
		if len(s) >= 2 { // one duplicate, wrapped around
			add(&malformed, append(c14Ints(s), s[0]), "duplicate")
		}
		add(&malformed, append(c14Ints(s), n), "out-of-range")
		add(&malformed, append(c14Ints(s), n+7), "out-of-range")
		add(&malformed, append([]int{-1}, s...), "out-of-range")
	}
	add(&malformed, []int{n}, "out-of-range")
	add(&malformed, []int{-1}, "out-of-range")
	return
}

type c14Sig struct {
	net *c14Net
	s   []int
	mi  int
	sig *Signature
}

type c14Run struct {
	c     *verifmc.Check
	msgs  []Hash
	refOK atomic.Int64
	refNo atomic.Int64
}

func (r *c14Run) sign(net *c14Net, pub []*Key, l []int, mi int, seedLabel string) (sig *Signature, err error) {
	privs := make([]*Key, len(l))
	for i, x := range l {
		if x >= 0 && x < net.n {
			privs[i] = net.priv[x]
		} else {
			privs[i] = c14Key("c14/outsider")
		}
	}
	if p := verifmc.Catch(func() { sig, err = AggregateSign(privs, pub, l, c14Seed(seedLabel), r.msgs[mi]) }); p != nil {
		return nil, fmt.Errorf("panic: %v", p)
	}
	return sig, err
}

func (r *c14Run) verify(sig *Signature, pub []*Key, l []int, mi int) (err error, panicked bool) {
	if p := verifmc.Catch(func() { err = AggregateVerify(sig, pub, l, r.msgs[mi]) }); p != nil {
		return fmt.Errorf("panic: %v", p), true
	}
	if err == nil && sig != nil && c14WellFormed(l, len(pub)) {
		// direction: accepted => valid Schnorr signature under the reference key sum a_i*X_i
		A, _ := c14RefAggKey(pub, l)
		if A != nil && c14RefVerify(A, sig, r.msgs[mi][:]) {
			r.refOK.Add(1)
		} else {
			r.c.Outcome("accepted-but-invalid-under-reference-key")
			r.c.Violation("accepted:invalid-under-reference-aggregate-key", fmt.Sprintf("AggregateVerify accepts a signature for signers %v over %d keys that is not a Schnorr signature under the weighted key sum a_i*X_i recomputed from the transcript definition", l, len(pub)),
				map[string]any{"n": len(pub), "signers": l, "message": mi, "signature": sig.String(), "keys": c14KeyStrings(pub, l)})
		}
	}
	return err, false
}

func c14KeyStrings(pub []*Key, l []int) []string {
	var out []string
	for _, i := range l {
		out = append(out, pub[i].String())
	}
	return out
}

// classification of a wrongly accepted target
func c14Class(net *c14Net, sg *c14Sig, v *c14Vec, l c14List, mi int) string {
	if l.kind != "sorted" {
		return l.kind
	}
	if !c14Equal(l.l, sg.s) {
		sameKeys := len(l.l) == len(sg.s)
		for i := 0; sameKeys && i < len(l.l); i++ {
			sameKeys = *v.pub[l.l[i]] == *net.base.pub[sg.s[i]]
		}
		sup := len(l.l) > len(sg.s)
		for _, x := range sg.s {
			sup = sup && c14Contains(l.l, x)
		}
		switch {
		case sameKeys:
			return "same-keys-at-other-indexes"
		case sup:
			return "superset-of-signers"
		case len(l.l) < len(sg.s):
			return "fewer-signers"
		default:
			return "other-signer-set"
		}
	}
	if mi != sg.mi {
		return "other-message"
	}
	return "selected-key-changed"
}

// one signature against every (vector variant, signer list, message) target
func (r *c14Run) matrix(sg *c14Sig, vecs []*c14Vec, sorted, malformed []c14List, sameSizeOnly bool) {
	c := r.c
	net := sg.net
	tag := fmt.Sprintf("%s|%v|%d|", net.name, sg.s, sg.mi)
	check := func(v *c14Vec, l c14List, mi int) {
		c.Eval(1)
		c.Distinct(tag + v.name + "|" + fmt.Sprint(l.l) + "|" + fmt.Sprint(mi))
		want := l.kind == "sorted" && c14Equal(l.l, sg.s) && mi == sg.mi
		if want {
			for _, i := range sg.s {
				want = want && *v.pub[i] == *net.base.pub[i]
			}
		}
		err, panicked := r.verify(sg.sig, v.pub, l.l, mi)
		rep := map[string]any{"n": net.n, "vector_family": net.name, "signed_set": sg.s, "signed_message": sg.mi, "verify_vector": v.name, "verify_signers": l.l, "verify_message": mi,
			"keys": "NewKeyFromSeed(sha512('c14/key/<n>/<i>'))", "seed": "sha512('c14/seed/<n>/<set>/<msg>')"}
		switch {
		case panicked:
			c.Outcome("panic")
			c.Violation("panic:AggregateVerify:"+l.kind, fmt.Sprintf("AggregateVerify panics for signers %v over %d keys: %v", l.l, net.n, err), rep)
		case want && err != nil && v == net.base:
			c.Outcome("honest:rejected")
			c.Violation("honest:verify-rejected", fmt.Sprintf("%s: signature by %v does not verify for its own vector, set and message: %v", net.name, sg.s, err), rep)
		case want && err != nil:
			// only an unselected key differs; refusing is stricter than the construction promises
			c.Outcome("unselected-key-changed:reject")
			c.Stricter("verification fails when only an unselected key of the vector changes")
		case want && v == net.base:
			c.Outcome("accept:own-triple")
		case want:
			c.Outcome("accept:unselected-key-changed")
		case err == nil:
			cl := c14Class(net, sg, v, l, mi)
			c.Outcome("accepted-wrongly:" + cl)
			c.Violation("accepted:"+cl, fmt.Sprintf("%s: signature made for (base, %v, msg%d) verifies for (%s, %v, msg%d)", net.name, sg.s, sg.mi, v.name, l.l, mi), rep)
		default:
			if l.kind == "sorted" {
				c.Outcome("reject:" + c14Class(net, sg, v, l, mi))
			} else {
				c.Outcome("reject:" + l.kind)
			}
		}
	}
	for _, v := range vecs {
		for _, l := range sorted {
			if sameSizeOnly && v != net.base && len(l.l) != len(sg.s) {
				continue
			}
			for mi := range r.msgs {
				check(v, l, mi)
			}
		}
	}
	for _, l := range malformed {
		for mi := range r.msgs {
			check(net.base, l, mi)
		}
	}
}

// signing with a malformed list: either refused, or the result must not verify
func (r *c14Run) selfSigned(net *c14Net, l c14List) {
	c := r.c
	c.Eval(1)
	c.Distinct(fmt.Sprintf("%d|selfsigned|%v", net.n, l.l))
	sig, err := r.sign(net, net.base.pub, l.l, 0, fmt.Sprintf("c14/seed/%d/%v/0", net.n, l.l))
	if err != nil || sig == nil {
		c.Outcome("sign-malformed:" + l.kind + ":refused")
		return
	}
	verr, _ := r.verify(sig, net.base.pub, l.l, 0)
	if verr == nil {
		distinct := map[int]bool{}
		for _, x := range l.l {
			distinct[x] = true
		}
		c.Outcome("sign-malformed:" + l.kind + ":verifies")
		c.Violation("accepted:"+l.kind+"-selfsigned", fmt.Sprintf("n=%d: AggregateSign and AggregateVerify both accept the %s signer list %v (%d entries from %d private keys)", net.n, l.kind, l.l, len(l.l), len(distinct)),
			map[string]any{"n": net.n, "signers": l.l, "message": 0})
	} else {
		c.Outcome("sign-malformed:" + l.kind + ":signed-but-rejected")
	}
}

// partial-key forgery: the holders of S (a subset of T) run the signing
// equation for signer list T with their keys only, once with the coefficients
// and aggregate key the repository yields and once with the reference ones.
func (r *c14Run) forge(net *c14Net, S, T []int, mi int) {
	c := r.c
	msg := r.msgs[mi]
	codeA, codeCoeffs, _, err := aggregateWeightedPublicKey(net.base.pub, T)
	if err != nil {
		c.Require(false, "aggregateWeightedPublicKey(%v) failed: %v", T, err)
		return
	}
	refA, refCoeffs := c14RefAggKey(net.base.pub, T)
	for _, src := range []string{"code", "reference"} {
		c.Eval(1)
		c.Distinct(fmt.Sprintf("%s|forge|%s|%v|%v|%d", net.name, src, S, T, mi))
		A, coeffs := codeA[:], codeCoeffs
		if src == "reference" {
			A, coeffs = refA, refCoeffs
		}
		R := edwards25519.NewIdentityPoint()
		var zs []*edwards25519.Scalar
		for _, i := range S {
			z, _ := edwards25519.NewScalar().SetUniformBytes(c14Seed(fmt.Sprintf("c14/forge-nonce/%s/%v/%v/%d/%d", net.name, S, T, mi, i)))
			zs = append(zs, z)
			R.Add(R, edwards25519.NewIdentityPoint().ScalarBaseMult(z))
		}
		x := c14RefChallenge(R.Bytes(), A, msg[:])
		sum := edwards25519.NewScalar()
		for k, i := range S {
			pos := sort.SearchInts(T, i)
			y, _ := edwards25519.NewScalar().SetCanonicalBytes(net.priv[i][:])
			w := edwards25519.NewScalar().Multiply(coeffs[pos], y)
			sum.Add(sum, edwards25519.NewScalar().MultiplyAdd(x, w, zs[k]))
		}
		var sig Signature
		copy(sig[:32], R.Bytes())
		copy(sig[32:], sum.Bytes())
		verr, _ := r.verify(&sig, net.base.pub, T, mi)
		full := len(S) == len(T)
		rep := map[string]any{"vector": net.name, "keys_used": S, "claimed": T, "message": mi, "coefficients": src}
		switch {
		case full && verr != nil && src == "reference":
			c.Outcome("forge:complete-keys-rejected")
			c.Violation("honest:scheme-signature-rejected", fmt.Sprintf("%s: signature computed by all holders of %v with the coefficients of the transcript definition does not verify: %v", net.name, T, verr), rep)
		case full && verr != nil:
			c.Require(false, "forging construction is wrong: complete key set %v does not verify: %v", T, verr)
		case full:
			c.Outcome("forge:complete-keys-verify")
		case verr == nil:
			c.Outcome("forge:accepted")
			c.Violation("accepted:subset-of-private-keys", fmt.Sprintf("%s: signature computed with the private keys of %v only (%s coefficients) verifies for signer set %v", net.name, S, src, T), rep)
		default:
			c.Outcome("forge:reject")
		}
	}
}

// every scalar a forger could plausibly weight its key with: 1, each
// coefficient of the claimed set by the reference formula, each coefficient
// the repository's code yields.
func c14Weights(pub []*Key, T []int) ([]*edwards25519.Scalar, []string) {
	one, _ := edwards25519.NewScalar().SetCanonicalBytes(append([]byte{1}, make([]byte, 31)...))
	ws, names := []*edwards25519.Scalar{one}, []string{"1"}
	seen := map[string]bool{string(one.Bytes()): true}
	add := func(a *edwards25519.Scalar, name string) {
		if !seen[string(a.Bytes())] {
			seen[string(a.Bytes())] = true
			ws = append(ws, edwards25519.NewScalar().Set(a))
			names = append(names, name)
		}
	}
	for k, a := range c14RefCoefficients(pub, T) {
		add(a, fmt.Sprintf("reference-coefficient[%d]", k))
	}
	var cc []*edwards25519.Scalar
	if verifmc.Catch(func() { _, cc, _, _ = aggregateWeightedPublicKey(pub, T) }) == nil {
		for k, a := range cc {
			add(a, fmt.Sprintf("code-coefficient[%d]", k))
		}
	}
	return ws, names
}

// single-scalar forgery: the holders of S (proper subset of T) sign with the
// plain Schnorr key w * sum_{i in S} y_i for every candidate weight w. This is
// what succeeds when the listed keys outside S cancel each other and the
// coefficients do not keep them apart.
func (r *c14Run) scalarForge(net *c14Net, S, T []int, mi int) {
	c := r.c
	msg := r.msgs[mi]
	ysum := edwards25519.NewScalar()
	for _, i := range S {
		y, _ := edwards25519.NewScalar().SetCanonicalBytes(net.priv[i][:])
		ysum.Add(ysum, y)
	}
	if ysum.Equal(edwards25519.NewScalar()) == 1 {
		return
	}
	ws, names := c14Weights(net.base.pub, T)
	for k, w := range ws {
		c.Eval(1)
		c.Distinct(fmt.Sprintf("%s|scalar-forge|%v|%v|%d|%s", net.name, S, T, mi, names[k]))
		var fk Key
		copy(fk[:], edwards25519.NewScalar().Multiply(w, ysum).Bytes())
		sig := fk.Sign(msg)
		verr, _ := r.verify(&sig, net.base.pub, T, mi)
		if verr == nil {
			c.Outcome("scalar-forge:accepted")
			c.Violation("accepted:subset-of-private-keys", fmt.Sprintf("%s: plain signature with scalar %s * (sum of the private keys of %v) verifies for signer set %v", net.name, names[k], S, T),
				map[string]any{"vector": net.name, "keys_used": S, "claimed": T, "message": mi, "weight": names[k]})
		} else {
			c.Outcome("scalar-forge:reject")
		}
	}
}

var c14Order2 = func() *edwards25519.Point { // (0,-1), order 2
	var b [32]byte
	for i := range b {
		b[i] = 0xff
	}
	b[0], b[31] = 0xec, 0x7f
	p, err := edwards25519.NewIdentityPoint().SetBytes(b[:])
	if err != nil {
		panic(err)
	}
	return p
}()

// rogue key at position rpos of S: key = X - sum of the other selected keys
// (optionally plus a point of order 2); the attacker signs alone with w*x for
// every candidate weight w.
func (r *c14Run) rogue(net *c14Net, S []int, rpos int, mi int) {
	c := r.c
	msg := r.msgs[mi]
	x := c14Key(fmt.Sprintf("c14/attacker/%s/%v/%d", net.name, S, rpos))
	xs, _ := edwards25519.NewScalar().SetCanonicalBytes(x[:])
	X := x.Public()
	acc, err := edwards25519.NewIdentityPoint().SetBytes(X[:])
	if err != nil {
		panic(err)
	}
	for k, i := range S {
		if k == rpos {
			continue
		}
		p, _ := edwards25519.NewIdentityPoint().SetBytes(net.base.pub[i][:])
		acc.Subtract(acc, p)
	}
	for _, torsion := range []bool{false, true} {
		pt := edwards25519.NewIdentityPoint().Set(acc)
		if torsion {
			pt.Add(pt, c14Order2)
		}
		var rk Key
		copy(rk[:], pt.Bytes())
		if rk.CheckKey() == torsion {
			c.Require(false, "rogue key validity is not as constructed (torsion=%v)", torsion)
			continue
		}
		pub := append([]*Key(nil), net.base.pub...)
		pub[S[rpos]] = &rk
		name := map[bool]string{false: "valid-point", true: "small-order-component"}[torsion]
		ws, names := c14Weights(pub, S)
		for k, w := range ws {
			c.Eval(1)
			c.Distinct(fmt.Sprintf("%s|rogue|%v|%d|%d|%v|%s", net.name, S, rpos, mi, torsion, names[k]))
			var fk Key
			copy(fk[:], edwards25519.NewScalar().Multiply(w, xs).Bytes())
			sig := fk.Sign(msg)
			fp := fk.Public()
			if !c14RefVerify(fp[:], &sig, msg[:]) {
				c.Require(false, "attacker signature is not a valid Schnorr signature")
				continue
			}
			r.refOK.Add(1)
			verr, _ := r.verify(&sig, pub, S, mi)
			if verr == nil {
				c.Outcome("rogue:" + name + ":accepted")
				c.Violation("accepted:rogue-key", fmt.Sprintf("%s: key cancellation forgery verifies for signers %v (rogue key at index %d, %s, attacker scalar %s * x)", net.name, S, S[rpos], name, names[k]),
					map[string]any{"vector": net.name, "signers": S, "rogue_index": S[rpos], "message": mi, "torsion": torsion, "weight": names[k]})
			} else {
				c.Outcome("rogue:" + name + ":reject")
			}
		}
	}
}

// key vectors whose members cancel: roles "X", "-X", "Y", "-Y", "Z".
func c14CancelNet(roles []string) *c14Net {
	name := "cancel" + fmt.Sprint(roles)
	net := &c14Net{n: len(roles), name: name}
	base := &c14Vec{name: "base"}
	for _, role := range roles {
		neg := role[0] == '-'
		if neg {
			role = role[1:]
		}
		k := c14Key("c14/cancel/" + role)
		if neg {
			y, _ := edwards25519.NewScalar().SetCanonicalBytes(k[:])
			var nk Key
			copy(nk[:], edwards25519.NewScalar().Negate(y).Bytes())
			k = &nk
		}
		p := k.Public()
		net.priv = append(net.priv, k)
		base.pub = append(base.pub, &p)
	}
	net.base = base
	net.vecs = []*c14Vec{base}
	return net
}


// ---- commitment (nonce) binding ------------------------------------------------
// Every signature of one family of private keys must carry its own commitment
// R: the same signers, seed and vector with two different messages, or the same
// private keys under another seed / signer set / index layout, must never share
// R. When two messages share R the weighted aggregate private key
// w = (S1-S2)/(x1-x2) follows from public data; the harness then forges a
// signature on a third message with it (end-to-end oracle).
type c14NonceRec struct {
	vec  *c14Vec
	set  []int
	seed int
	mi   int
	sig  *Signature
}

func (r *c14Run) nonceMessages() []Hash {
	m0 := Blake3Hash([]byte("c14/nonce-message"))
	m1, m2 := m0, m0
	m1[0] ^= 0x01
	m2[31] ^= 0x80
	return []Hash{m0, m1, m2, {}, Blake3Hash([]byte("c14/nonce-message0"))}
}

func (r *c14Run) nonces(net *c14Net, sorted []c14List, nRecs *atomic.Int64) {
	c := r.c
	msgs := r.nonceMessages()
	third := Blake3Hash([]byte("c14/forged-message"))
	seen := map[[32]byte]c14NonceRec{}
	privFor := func(v *c14Vec, i int) *Key {
		for j, p := range net.base.pub {
			if *p == *v.pub[i] {
				return net.priv[j]
			}
		}
		return nil
	}
	record := func(v *c14Vec, set []int, seed, mi int) {
		privs := make([]*Key, len(set))
		for k, i := range set {
			if privs[k] = privFor(v, i); privs[k] == nil {
				return // a replaced key: nobody of this family can sign
			}
		}
		c.Eval(1)
		c.Distinct(fmt.Sprintf("%s|nonce|%s|%v|%d|%d", net.name, v.name, set, seed, mi))
		var sig *Signature
		var err error
		if p := verifmc.Catch(func() {
			sig, err = AggregateSign(privs, v.pub, set, c14Seed(fmt.Sprintf("c14/nonce-seed/%d", seed)), msgs[mi])
		}); p != nil || err != nil || sig == nil {
			c.Outcome("honest:sign-failed")
			c.Violation("honest:sign-failed", fmt.Sprintf("%s: AggregateSign refuses sorted signers %v on %s: %v %v", net.name, set, v.name, err, p), map[string]any{"vector": net.name, "variant": v.name, "signers": set})
			return
		}
		nRecs.Add(1)
		if e := AggregateVerify(sig, v.pub, set, msgs[mi]); e != nil {
			c.Violation("honest:verify-rejected", fmt.Sprintf("%s: signature by %v on %s does not verify: %v", net.name, set, v.name, e), map[string]any{"vector": net.name, "variant": v.name, "signers": set, "message": mi})
			return
		}
		var R [32]byte
		copy(R[:], sig[:32])
		cur := c14NonceRec{vec: v, set: set, seed: seed, mi: mi, sig: sig}
		old, dup := seen[R]
		if !dup {
			seen[R] = cur
			c.Outcome("nonce:distinct")
			return
		}
		rep := map[string]any{"family": net.name, "first": map[string]any{"vector": old.vec.name, "signers": old.set, "seed": old.seed, "message": old.mi},
			"second": map[string]any{"vector": v.name, "signers": set, "seed": seed, "message": mi}, "commitment": fmt.Sprintf("%x", R[:])}
		if old.vec != v || !c14Equal(old.set, set) || old.seed != seed {
			c.Outcome("nonce:reused-across-contexts")
			c.Violation("nonce:reused-across-contexts", fmt.Sprintf("%s: the same commitment R is used for (%s, %v, seed %d, msg %d) and (%s, %v, seed %d, msg %d)", net.name, old.vec.name, old.set, old.seed, old.mi, v.name, set, seed, mi), rep)
			return
		}
		// same signers, seed and vector, two messages, one commitment: extract the weighted key and forge
		A, _, _, err := aggregateWeightedPublicKey(v.pub, set)
		if err != nil {
			c.Require(false, "aggregateWeightedPublicKey failed: %v", err)
			return
		}
		x1 := c14RefChallenge(R[:], A[:], msgs[old.mi][:])
		x2 := c14RefChallenge(R[:], A[:], msgs[mi][:])
		s1, e1 := edwards25519.NewScalar().SetCanonicalBytes(old.sig[32:])
		s2, e2 := edwards25519.NewScalar().SetCanonicalBytes(sig[32:])
		dx := edwards25519.NewScalar().Subtract(x1, x2)
		forged := false
		if e1 == nil && e2 == nil && dx.Equal(edwards25519.NewScalar()) != 1 {
			w := edwards25519.NewScalar().Multiply(edwards25519.NewScalar().Subtract(s1, s2), edwards25519.NewScalar().Invert(dx))
			z, _ := edwards25519.NewScalar().SetUniformBytes(c14Seed("c14/forger-nonce"))
			Rf := edwards25519.NewIdentityPoint().ScalarBaseMult(z).Bytes()
			x3 := c14RefChallenge(Rf, A[:], third[:])
			var fs Signature
			copy(fs[:32], Rf)
			copy(fs[32:], edwards25519.NewScalar().MultiplyAdd(x3, w, z).Bytes())
			forged = verifmc.Catch(func() { forged = AggregateVerify(&fs, v.pub, set, third) == nil }) == nil && forged
			rep["forged_signature_on_third_message"] = fs.String()
		}
		if forged {
			c.Outcome("nonce:reuse-forgery")
			c.Violation("soundness:nonce-reuse-forgery", fmt.Sprintf("%s: signers %v with seed %d produce the same commitment for messages %d and %d; the weighted private key computed from the two public signatures forges a verifying signature on a third message", net.name, set, seed, old.mi, mi), rep)
		} else {
			c.Outcome("nonce:not-bound-to-message")
			c.Violation("nonce:not-bound-to-message", fmt.Sprintf("%s: signers %v with seed %d produce the same commitment for messages %d and %d", net.name, set, seed, old.mi, mi), rep)
		}
	}
	for _, sl := range sorted {
		for seed := 0; seed < 2; seed++ {
			for mi := range msgs {
				record(net.base, sl.l, seed, mi)
			}
		}
	}
	// the same private keys at other indexes / in other company
	for _, v := range net.vecs[1:] {
		for _, sl := range sorted {
			touches := false
			for _, i := range sl.l {
				touches = touches || *v.pub[i] != *net.base.pub[i]
			}
			if touches {
				record(v, sl.l, 0, 0)
			}
		}
	}
}

func TestMC_C14(t *testing.T) {
	c := verifmc.Start(t, "C14", "exploration")
	defer c.Finish()
	c.SetRule("key vectors n in {1,2,3,4,6,300}. n<=6: one signature per (non-empty sorted subset S, message of 2); each verified against every (vector variant in {base, every swap of two keys, every single key replaced} x every sorted subset x 2 messages) and every malformed list (all unsorted permutations of subsets of size 2..3, every single duplicate, index n / n+7 / -1 added) x 2 messages [quick tier, n=6 only: the non-base vector variants are restricted to swaps and replacements that touch S, combined with the sorted subsets of the same size as S; the base vector still meets every list]; every malformed list is also signed with; every S proper subset of T forged with partial keys (signing equation with the code's and with the reference coefficients) and, for n<=4, with the single scalar w*sum(y_S) for every weight w in {1, every reference coefficient of T, every coefficient the code yields}; rogue key (with and without small-order component) at first and last position of every S with |S|>=2, attacker scalar w*x for every such w. 13 key vectors with cancelling members (X,-X / Y,-Y in every arrangement of 2..4 keys): every subset signed honestly and verified against every subset, every S subset of T forged both ways, rogue key at every position. Every acceptance anywhere is re-verified under the reference weighted key. Commitment binding (n<=4 and n=300; n=6 thorough): every sorted subset x 2 seeds x 5 messages (one-bit neighbours, zero hash, longer preimage) on the base vector plus every swapped vector touching the subset; all commitments R of one key family must be pairwise distinct; on a collision between two messages the weighted private key is extracted from the two signatures and a forgery on a third message attempted. n=300: signatures for {0},{299},{0,299},{127,128},{255,256}, each verified against 15 sorted and 12 malformed lists x 9 swapped / 5 replaced vectors (including index pairs that differ by 256) x 2 messages. A case is distinct by (n, signed set, signed message, target vector, target list, target message) or by the forgery parameters")
	c.Assume("reference verifier: plain Schnorr on filippo.io/edwards25519 with challenge SHA-512(R||A||m) (crypto/signature.go); used to validate the attacker's own signature in the rogue-key scenario and the accepted honest signatures against the weighted key computed by the repository",
		"equality of triples is taken on the selected keys (DESIGN.md): a target that differs only in an unselected key is expected to verify; a refusal there is recorded as stricter-than-statement, not as a violation",
		"reference weighted key: a_i = SHA-512('mixin-aggregate-coefficient-v1' || transcript || u32be(i) || X_i) mod l with transcript = u32be(|S|) || (u32be(i) || X_i)*, A = sum a_i*X_i, recomputed in the harness from the definition in crypto/aggregation.go of the unchanged tree; used in the direction accepted => reference-valid, and as a source of forger weights. A deliberate change of the transcript format requires updating this reference",
		"the partial-key forgery is run with the coefficients and aggregate key the repository yields and with the reference ones")

	r := &c14Run{c: c}
	r.msgs = []Hash{Blake3Hash([]byte("c14/message/0")), Blake3Hash([]byte("c14/message/1"))}

	type job func()
	var jobs []job
	var nSigs, nForge, nRogue, nSelf, nScalar, nCancel, nNonce atomic.Int64

	for _, n := range []int{1, 2, 3, 4, 6} {
		var swaps [][2]int
		var repl []int
		for a := 0; a < n; a++ {
			repl = append(repl, a)
			for b := a + 1; b < n; b++ {
				swaps = append(swaps, [2]int{a, b})
			}
		}
		net := c14NewNet(n, swaps, repl)
		sorted, malformed := c14Lists(n)
		c.Add(fmt.Sprintf("lists_n%d_sorted", n), int64(len(sorted)))
		c.Add(fmt.Sprintf("lists_n%d_malformed", n), int64(len(malformed)))
		allPairs := n <= 4 || c.Thorough()
		if allPairs {
			jobs = append(jobs, func() { r.nonces(net, sorted, &nNonce) })
		}
		for _, sl := range sorted {
			for mi := range r.msgs {
				S, mi := sl.l, mi
				jobs = append(jobs, func() {
					c.Eval(1)
					sig, err := r.sign(net, net.base.pub, S, mi, fmt.Sprintf("c14/seed/%d/%v/%d", n, S, mi))
					if err != nil {
						c.Outcome("honest:sign-failed")
						c.Violation("honest:sign-failed", fmt.Sprintf("n=%d: AggregateSign refuses sorted signers %v: %v", n, S, err), map[string]any{"n": n, "signers": S, "message": mi})
						return
					}
					nSigs.Add(1)
					// a second seed gives another signature that verifies as well
					sig2, err2 := r.sign(net, net.base.pub, S, mi, fmt.Sprintf("c14/seed2/%d/%v/%d", n, S, mi))
					if err2 != nil || *sig2 == *sig {
						c.Require(false, "second seed: err=%v or identical signature", err2)
					} else if e, _ := r.verify(sig2, net.base.pub, S, mi); e != nil {
						c.Violation("honest:verify-rejected", fmt.Sprintf("n=%d: signature by %v with the second seed does not verify: %v", n, S, e), map[string]any{"n": n, "signers": S, "message": mi, "seed": "seed2"})
					}
					// reference check of an accepted signature against the repository's weighted key
					if A, _, _, e := aggregateWeightedPublicKey(net.base.pub, S); e == nil {
						if ve, _ := r.verify(sig, net.base.pub, S, mi); ve == nil {
							if c14RefVerify(A[:], sig, r.msgs[mi][:]) {
								r.refOK.Add(1)
							} else {
								c.Violation("accepted:invalid-by-reference", fmt.Sprintf("n=%d: AggregateVerify accepts a signature for %v that is not a Schnorr signature under the weighted key", n, S), map[string]any{"n": n, "signers": S, "message": mi})
							}
						}
						if c14RefVerify(A[:], sig, r.msgs[1-mi][:]) {
							c.Require(false, "reference accepts the wrong message")
						} else {
							r.refNo.Add(1)
						}
					}
					vecs := net.vecs
					if !allPairs {
						vecs = nil
						for _, v := range net.vecs {
							touches := v == net.base
							for _, i := range S {
								touches = touches || v.pub[i] != net.base.pub[i]
							}
							if touches {
								vecs = append(vecs, v)
							}
						}
					}
					r.matrix(&c14Sig{net: net, s: S, mi: mi, sig: sig}, vecs, sorted, malformed, !allPairs)
				})
			}
		}
		for _, ml := range malformed {
			ml := ml
			jobs = append(jobs, func() { nSelf.Add(1); r.selfSigned(net, ml) })
		}
		for _, tl := range sorted {
			T := tl.l
			jobs = append(jobs, func() {
				verifmc.Subsets(len(T), func(_ uint32, m []int) {
					if len(m) == 0 {
						return
					}
					S := make([]int, len(m))
					for i, k := range m {
						S[i] = T[k]
					}
					for mi := range r.msgs {
						nForge.Add(1)
						r.forge(net, S, T, mi)
						if len(S) < len(T) && (n <= 4 || c.Thorough()) {
							nScalar.Add(1)
							r.scalarForge(net, S, T, mi)
						}
					}
				})
				if len(T) >= 2 {
					for _, rpos := range []int{0, len(T) - 1} {
						for mi := range r.msgs {
							nRogue.Add(1)
							r.rogue(net, T, rpos, mi)
						}
					}
				}
			})
		}
	}

	// key vectors with cancelling members (X and -X, two such pairs)
	for _, roles := range [][]string{
		{"X", "-X"}, {"-X", "X"},
		{"X", "Y", "-X"}, {"X", "-X", "Y"}, {"Y", "X", "-X"}, {"-X", "Y", "X"}, {"-X", "X", "Y"}, {"Y", "-X", "X"},
		{"X", "Y", "Y", "-X"}, {"X", "Y", "Z", "-X"}, {"X", "-X", "Y", "-Y"}, {"X", "Y", "-X", "-Y"}, {"Y", "X", "-X", "Z"},
	} {
		net := c14CancelNet(roles)
		var sorted []c14List
		verifmc.Subsets(net.n, func(_ uint32, m []int) {
			if len(m) > 0 {
				sorted = append(sorted, c14List{c14Ints(m), "sorted"})
			}
		})
		nCancel.Add(1)
		for _, tl := range sorted {
			T := tl.l
			jobs = append(jobs, func() {
				for mi := range r.msgs {
					c.Eval(1)
					sig, err := r.sign(net, net.base.pub, T, mi, fmt.Sprintf("c14/seed/%s/%v/%d", net.name, T, mi))
					if err != nil {
						c.Outcome("honest:sign-failed")
						c.Violation("honest:sign-failed", fmt.Sprintf("%s: AggregateSign refuses sorted signers %v: %v", net.name, T, err), map[string]any{"vector": net.name, "signers": T, "message": mi})
						continue
					}
					nSigs.Add(1)
					r.matrix(&c14Sig{net: net, s: T, mi: mi, sig: sig}, net.vecs, sorted, nil, false)
				}
				verifmc.Subsets(len(T), func(_ uint32, m []int) {
					if len(m) == 0 {
						return
					}
					S := make([]int, len(m))
					for i, k := range m {
						S[i] = T[k]
					}
					for mi := range r.msgs {
						nForge.Add(1)
						r.forge(net, S, T, mi)
						if len(S) < len(T) {
							nScalar.Add(1)
							r.scalarForge(net, S, T, mi)
						}
					}
				})
				if len(T) >= 2 {
					for rpos := range T {
						nRogue.Add(1)
						r.rogue(net, T, rpos, 0)
					}
				}
			})
		}
	}

	// n = 300
	{
		n := 300
		net := c14NewNet(n, [][2]int{{0, 299}, {127, 128}, {255, 256}, {128, 256}, {0, 1}, {1, 298}, {0, 256}, {43, 299}}, []int{0, 1, 127, 256, 299})
		var sorted, malformed []c14List
		for _, s := range [][]int{{0}, {299}, {0, 299}, {127, 128}, {255, 256}, {1}, {298}, {1, 299}, {0, 298}, {127, 256}, {128, 255}, {256}, {43}, {43, 256}, {256, 299}} {
			sorted = append(sorted, c14List{s, "sorted"})
		}
		for _, s := range [][]int{{299, 0}, {128, 127}, {256, 255}} {
			malformed = append(malformed, c14List{s, "unsorted"})
		}
		for _, s := range [][]int{{0, 0}, {299, 299}, {127, 128, 128}, {255, 255, 256}} {
			malformed = append(malformed, c14List{s, "duplicate"})
		}
		for _, s := range [][]int{{300}, {0, 300}, {299, 300}, {255, 256, 65536}, {-1, 0}} {
			malformed = append(malformed, c14List{s, "out-of-range"})
		}
		jobs = append(jobs, func() { r.nonces(net, sorted[:5], &nNonce) })
		for _, sl := range sorted[:5] {
			for mi := range r.msgs {
				S, mi := sl.l, mi
				jobs = append(jobs, func() {
					c.Eval(1)
					sig, err := r.sign(net, net.base.pub, S, mi, fmt.Sprintf("c14/seed/%d/%v/%d", n, S, mi))
					if err != nil {
						c.Violation("honest:sign-failed", fmt.Sprintf("n=%d: AggregateSign refuses sorted signers %v: %v", n, S, err), map[string]any{"n": n, "signers": S, "message": mi})
						return
					}
					nSigs.Add(1)
					r.matrix(&c14Sig{net: net, s: S, mi: mi, sig: sig}, net.vecs, sorted, malformed, false)
				})
			}
		}
		for _, ml := range malformed {
			ml := ml
			jobs = append(jobs, func() { nSelf.Add(1); r.selfSigned(net, ml) })
		}
		jobs = append(jobs, func() {
			for _, p := range [][2][]int{{{0}, {0, 299}}, {{299}, {0, 299}}, {{127}, {127, 128}}, {{256}, {255, 256}}, {{0, 299}, {0, 299}}} {
				nForge.Add(1)
				r.forge(net, p[0], p[1], 0)
			}
			for _, T := range [][]int{{0, 299}, {127, 128}, {255, 256}} {
				nRogue.Add(2)
				r.rogue(net, T, 0, 0)
				r.rogue(net, T, 1, 1)
			}
		})
	}

	c.ParallelN(len(jobs), "C14 jobs", func(_, i int) { jobs[i]() })

	c.Set("signatures", nSigs.Load())
	c.Set("partial_key_forgeries", nForge.Load())
	c.Set("single_scalar_forgery_groups", nScalar.Load())
	c.Set("cancelling_key_vectors", nCancel.Load())
	c.Set("commitment_binding_signatures", nNonce.Load())
	c.Set("rogue_key_attempts", nRogue.Load())
	c.Set("malformed_lists_signed_with", nSelf.Load())
	c.Set("reference_accepts", r.refOK.Load())
	c.Set("reference_rejects", r.refNo.Load())
	c.Sample(map[string]any{"n": 3, "signed": map[string]any{"vector": "base", "signers": []int{0, 1}, "message": 0}, "verify": map[string]any{"vector": "swap(1,2)", "signers": []int{0, 2}, "message": 0}, "expect": "error (same two keys, other index)"})
	c.Sample(map[string]any{"n": 4, "signed": map[string]any{"vector": "base", "signers": []int{1, 3}, "message": 1}, "verify": map[string]any{"vector": "replace(0)", "signers": []int{1, 3}, "message": 1}, "expect": "nil (only an unselected key differs)"})
	c.Sample(map[string]any{"n": 6, "signed": map[string]any{"vector": "base", "signers": []int{0, 2}, "message": 0}, "verify": map[string]any{"vector": "base", "signers": []int{0, 2, 2}, "message": 0}, "expect": "error (duplicate)"})
	c.Sample(map[string]any{"n": 4, "forgery": "keys of {1} only, signing equation for {1,2}", "expect": "error"})
	c.Sample(map[string]any{"n": 3, "rogue": "v[2] = X - v[0] - v[1], plain signature by x, signers {0,1,2}", "expect": "error"})
	c.Sample(map[string]any{"n": 300, "signed": map[string]any{"signers": []int{127, 128}}, "verify": map[string]any{"vector": "swap(128,256)", "signers": []int{127, 256}}, "expect": "error"})

	if c.Violations() == 0 && !c.Expired("final guards") {
		c.Require(c.OutcomeCount("accept:own-triple") == nSigs.Load() && nSigs.Load() > 0, "own triple accepted %d times for %d signatures", c.OutcomeCount("accept:own-triple"), nSigs.Load())
		for _, o := range []string{"accept:unselected-key-changed", "reject:same-keys-at-other-indexes", "reject:superset-of-signers", "reject:fewer-signers", "reject:other-signer-set", "reject:other-message", "reject:selected-key-changed",
			"reject:unsorted", "reject:duplicate", "reject:out-of-range", "forge:reject", "forge:complete-keys-verify", "scalar-forge:reject", "nonce:distinct", "rogue:valid-point:reject", "rogue:small-order-component:reject",
			"sign-malformed:unsorted:refused", "sign-malformed:duplicate:refused", "sign-malformed:out-of-range:refused"} {
			c.Require(c.OutcomeCount(o) > 0, "outcome %q never reached", o)
		}
		c.Require(r.refOK.Load() > 0 && r.refNo.Load() > 0, "reference verifier not exercised in both directions")
	}
}
