//go:build verif

package crypto

import (
	"bytes"
	"errors"
	"fmt"
	"sort"
	"strings"
	"sync"
	"testing"
	"time"

	"filippo.io/edwards25519"
	"github.com/MixinNetwork/mixin/verifmc"
)

// C12 — a CoSi nonce never answers two different challenges.
// Engine E3: every interleaving (bounded preemptions) of concurrent Response
// calls on one nonce handle and a copy of it. crypto/nonce.go is compiled with
// the vsync shim (n.Lock is a scheduling point and the lock is modelled) and
// with a scheduling point before every top-level statement of respond().

func c12Key(label string) Key {
	h := Blake3Hash([]byte("c12:" + label))
	return NewKeyFromSeed(append(h[:], h[:]...))
}

type c12Fixture struct {
	priv    []Key
	pubs    []*Key
	others  []*Key // commitments of signers 1,2
	msgs    []Hash
	seed    []byte
	nonceR  Key
}

func c12NewFixture() *c12Fixture {
	f := &c12Fixture{}
	for i := 0; i < 3; i++ {
		k := c12Key(fmt.Sprint("priv", i))
		p := k.Public()
		f.priv = append(f.priv, k)
		f.pubs = append(f.pubs, &p)
	}
	for i := 1; i < 3; i++ {
		r := c12Key(fmt.Sprint("rand", i)).Public()
		f.others = append(f.others, &r)
	}
	f.msgs = []Hash{Blake3Hash([]byte("c12 message 1")), Blake3Hash([]byte("c12 message 2"))}
	h := Blake3Hash([]byte("c12 nonce seed"))
	f.seed = append(h[:], h[:]...)
	return f
}

// challenge menu: 0 = (mask{0,1}, m1), 1 = identical to 0 but separately built,
// 2 = (mask{0,1}, m2), 3 = (mask{0,1,2}, m1), 4 = as 0 (same commitments, mask
// and message) but over a different signer key vector
func (f *c12Fixture) publics(id int) []*Key {
	if id != 4 {
		return f.pubs
	}
	alt := c12Key("alt-signer-1").Public()
	return []*Key{f.pubs[0], &alt, f.pubs[2]}
}

func (f *c12Fixture) challenge(n *CosiNonce, id int) (*CosiSignature, Hash) {
	pub := n.Public()
	cm := map[int]*Key{0: &pub, 1: f.others[0]}
	if id == 3 {
		cm[2] = f.others[1]
	}
	sig, err := CosiAggregateCommitment(cm)
	if err != nil {
		panic(err)
	}
	msg := f.msgs[0]
	if id == 2 {
		msg = f.msgs[1]
	}
	return sig, msg
}

type c12Call struct {
	thread, ch int
	resp       *[32]byte
	err        error
	chal       [32]byte
}

// c12Oracle evaluates one finished execution.
func c12Oracle(f *c12Fixture, calls []*c12Call, panics []any, report func(key, desc string)) string {
	for i, p := range panics {
		if p != nil {
			report("panic-in-response", fmt.Sprintf("thread %d panicked: %v", i, p))
		}
	}
	answered := map[[32]byte][][32]byte{}
	var pattern []string
	for _, c := range calls {
		switch {
		case c.err == nil && c.resp != nil:
			answered[c.chal] = append(answered[c.chal], *c.resp)
			pattern = append(pattern, fmt.Sprintf("t%d:c%d=ok", c.thread, c.ch))
		case errors.Is(c.err, ErrCosiNonceReuse):
			pattern = append(pattern, fmt.Sprintf("t%d:c%d=reuse", c.thread, c.ch))
		default:
			pattern = append(pattern, fmt.Sprintf("t%d:c%d=err", c.thread, c.ch))
			if c.err != nil {
				report("unexpected-error", fmt.Sprintf("call t%d c%d returned %v (neither a response nor the nonce-reuse error)", c.thread, c.ch, c.err))
			}
		}
	}
	if len(answered) > 1 {
		// the statement's consequence: two responses for different challenges reveal the key
		var cs [][32]byte
		for k := range answered {
			cs = append(cs, k)
		}
		sort.Slice(cs, func(i, j int) bool { return bytes.Compare(cs[i][:], cs[j][:]) < 0 })
		c1, _ := edwards25519.NewScalar().SetCanonicalBytes(cs[0][:])
		c2, _ := edwards25519.NewScalar().SetCanonicalBytes(cs[1][:])
		s1, e1 := edwards25519.NewScalar().SetCanonicalBytes(answered[cs[0]][0][:])
		s2, e2 := edwards25519.NewScalar().SetCanonicalBytes(answered[cs[1]][0][:])
		leak := "responses not canonical"
		if e1 == nil && e2 == nil {
			ds := edwards25519.NewScalar().Subtract(s1, s2)
			dc := edwards25519.NewScalar().Subtract(c1, c2)
			a := edwards25519.NewScalar().Multiply(ds, edwards25519.NewScalar().Invert(dc))
			leak = fmt.Sprintf("private key recoverable from the two responses: %v", bytes.Equal(a.Bytes(), f.priv[0][:]))
		}
		report("two-challenges-answered", fmt.Sprintf("the nonce produced responses for %d different challenges (%s)", len(answered), leak))
	}
	for ch, rs := range answered {
		for _, r := range rs[1:] {
			if r != rs[0] {
				report("same-challenge-different-response", fmt.Sprintf("challenge %x got two different responses", ch[:8]))
			}
		}
	}
	if len(answered) == 0 && len(calls) > 0 {
		report("no-response-at-all", "every call failed although the nonce was fresh")
	}
	if len(answered) == 1 {
		// every call with the winning challenge must have succeeded, all others refused
		var win [32]byte
		for k := range answered {
			win = k
		}
		for _, c := range calls {
			if c.chal == win && c.err != nil {
				report("identical-retry-refused", fmt.Sprintf("call t%d c%d repeated the bound challenge but got %v", c.thread, c.ch, c.err))
			}
			if c.chal != win && c.err == nil {
				report("two-challenges-answered", "a different challenge was answered")
			}
		}
	}
	return strings.Join(pattern, " ")
}

type c12Scenario struct {
	name    string
	threads [][]int // per thread the challenge ids of its calls
	copyOn  int     // thread index that uses a copy of the handle struct (-1 none)
	bound   int
}

func c12Scenarios(c *verifmc.Check) []c12Scenario {
	var out []c12Scenario
	b2 := verifmc.Pick(c, 2, 3)
	// two threads, one call each: all 16 assignments
	for a := 0; a < 5; a++ {
		for b := 0; b < 5; b++ {
			out = append(out, c12Scenario{fmt.Sprintf("2x1[%d|%d]", a, b), [][]int{{a}, {b}}, 1, b2})
		}
	}
	// two threads, two calls each
	menu := [][2][2]int{{{0, 2}, {2, 0}}, {{0, 0}, {2, 2}}, {{0, 1}, {1, 2}}, {{0, 3}, {3, 0}}, {{2, 1}, {0, 3}}, {{0, 2}, {1, 3}}, {{0, 4}, {4, 0}}, {{4, 1}, {2, 4}}}
	for _, m := range menu {
		out = append(out, c12Scenario{fmt.Sprintf("2x2[%d%d|%d%d]", m[0][0], m[0][1], m[1][0], m[1][1]), [][]int{{m[0][0], m[0][1]}, {m[1][0], m[1][1]}}, 0, verifmc.Pick(c, 2, 3)})
	}
	// three threads, one call each: all assignments over {0,1,2} quick / {0,1,2,3} thorough
	k := verifmc.Pick(c, 3, 4)
	for a := 0; a < k; a++ {
		for b := 0; b < k; b++ {
			for d := 0; d < k; d++ {
				out = append(out, c12Scenario{fmt.Sprintf("3x1[%d|%d|%d]", a, b, d), [][]int{{a}, {b}, {d}}, 2, verifmc.Pick(c, 2, 3)})
			}
		}
	}
	return out
}

func TestMC_C12(t *testing.T) {
	c := verifmc.Start(t, "C12", "model_checking")
	defer c.Finish()
	c.SetRule("for every scenario (assignment of the 5-challenge menu {c1, c1 rebuilt, other message, other mask, other signer key vector} to the calls of 2-3 goroutines, one of them using a copy of the handle struct) every interleaving with at most B preemptions, scheduling points at the nonce mutex and before every top-level statement of respond(); an execution is distinct by (scenario, observed result pattern)")
	c.Assume("scheduling points: vsync mutex Lock + a yield before each top-level statement of (*nonce).respond; code between two points runs atomically (data races are the -race pass's subject: TestMCRace_C12)")
	f := c12NewFixture()
	scen := c12Scenarios(c)
	var mu sync.Mutex
	var totalExec, maxPoints int64
	incomplete := 0
	c.ParallelN(len(scen), "scenarios", func(_, i int) {
		sc := scen[i]
		ex := &verifmc.Explorer{C: c, Bound: sc.bound, Name: sc.name, StepTimeout: 5 * time.Minute}
		ex.Body = func(s *verifmc.Sched, report func(key, desc string)) string {
			n := CosiCommitNonce(bytes.NewReader(f.seed))
			cp := *n // a copy of the handle shares the state
			var calls []*c12Call
			for ti, chs := range sc.threads {
				ti, chs := ti, chs
				h := n
				if ti == sc.copyOn {
					h = &cp
				}
				for _, ch := range chs {
					calls = append(calls, &c12Call{thread: ti, ch: ch})
				}
				mine := calls[len(calls)-len(chs):]
				s.Go(fmt.Sprint("t", ti), func() {
					for _, call := range mine {
						sig, msg := f.challenge(h, call.ch)
						x, err := sig.Challenge(f.publics(call.ch), msg)
						if err != nil {
							panic(err)
						}
						copy(call.chal[:], x.Bytes())
						call.resp, call.err = h.Response(sig, &f.priv[0], f.publics(call.ch), msg)
						if call.err == nil && call.resp != nil {
							if verr := sig.VerifyResponse(f.publics(call.ch), 0, call.resp, msg); verr != nil {
								call.err = fmt.Errorf("returned response does not verify: %w", verr)
							}
						}
					}
				})
			}
			panics := s.RunAll()
			return c12Oracle(f, calls, panics, report)
		}
		ok := ex.Run()
		mu.Lock()
		totalExec += ex.Executions
		if int64(ex.MaxPoints) > maxPoints {
			maxPoints = int64(ex.MaxPoints)
		}
		if !ok {
			incomplete++
		}
		if ok && len(ex.Outcomes) < 2 && len(sc.threads) >= 2 && sc.threads[0][0] != sc.threads[1][0] && !(sc.threads[0][0] < 2 && sc.threads[1][0] < 2) {
			c.Require(false, "scenario %s: only %d distinct outcome(s) from %d executions (no contention reached)", sc.name, len(ex.Outcomes), ex.Executions)
		}
		mu.Unlock()
	})
	c.Set("scenarios", len(scen))
	c.Set("executions", totalExec)
	c.Set("max_points_per_execution", maxPoints)
	c.Set("preemption_bound", map[string]any{"2x1": verifmc.Pick(c, 2, 3), "2x2": verifmc.Pick(c, 2, 3), "3x1": verifmc.Pick(c, 2, 3)})
	c.Require(totalExec > 1000, "too few executions: %d", totalExec)
	c.Require(incomplete == 0 || c.Expired("check") || c.Violations() > 0, "incomplete explorations without cap: %d", incomplete)
}

// TestMCRace_C12 is the separate free-running pass (run with -race): the same
// bodies without the explorer. Reported separately; not part of the exhaustive claim.
func TestMCRace_C12(t *testing.T) {
	defer fmt.Println("VERIF-RACE property=C12 iterations=300 bodies=4")
	f := c12NewFixture()
	for it := 0; it < 300; it++ {
		n := CosiCommitNonce(bytes.NewReader(f.seed))
		cp := *n
		var wg sync.WaitGroup
		results := make([]error, 4)
		resp := make([]*[32]byte, 4)
		for g := 0; g < 4; g++ {
			wg.Add(1)
			go func(g int) {
				defer wg.Done()
				h := n
				if g%2 == 1 {
					h = &cp
				}
				sig, msg := f.challenge(h, (g+it)%4)
				resp[g], results[g] = h.Response(sig, &f.priv[0], f.pubs, msg)
			}(g)
		}
		wg.Wait()
		ok := 0
		for g := range results {
			if results[g] == nil {
				ok++
			} else if !errors.Is(results[g], ErrCosiNonceReuse) {
				t.Fatalf("unexpected error %v", results[g])
			}
		}
		if ok == 0 {
			t.Fatalf("no response")
		}
	}
}
