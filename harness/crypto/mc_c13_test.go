//go:build verif

package crypto

import (
	"bytes"
	"crypto/sha512"
	"fmt"
	"math/bits"
	"sort"
	"sync/atomic"
	"testing"

	"filippo.io/edwards25519"
	"github.com/MixinNetwork/mixin/verifmc"
)

// C13 — collective signatures verify exactly when built from valid shares.
// Bounded-exhaustive enumeration (E1): key vectors n in {1,2,3,5,8,64}, every
// mask for n <= 8, every single index / adjacent pair / full mask for n = 64,
// two messages, the whole threshold menu, and every single-share tamper of
// every member of every mask, against the real CosiAggregateCommitment /
// Response / VerifyResponse / AggregateResponse / FullVerify.

// ---- independent reference Schnorr verifier (plain edwards25519) ----------
// Scheme of the repository (crypto/signature.go, crypto/cosi.go):
//   x = SHA-512(R || A || m) reduced mod l (SetUniformBytes), accept iff
//   s canonical and s*B == R + x*A.  For CoSi, R = sum R_i, A = sum P_i over
//   the masked signers (plain sums), and share i is valid iff
//   s_i*B == R_i + x*P_i with the same aggregate challenge x.

func c13RefChallenge(R, A, msg []byte) *edwards25519.Scalar {
	h := sha512.New()
	h.Write(R)
	h.Write(A)
	h.Write(msg)
	x, err := edwards25519.NewScalar().SetUniformBytes(h.Sum(nil))
	if err != nil {
		panic(err)
	}
	return x
}

// c13RefShare: s*B == R + x*P, s canonical, R and P decodable.
func c13RefShare(P, R, s []byte, x *edwards25519.Scalar) bool {
	pp, err := edwards25519.NewIdentityPoint().SetBytes(P)
	if err != nil {
		return false
	}
	rp, err := edwards25519.NewIdentityPoint().SetBytes(R)
	if err != nil {
		return false
	}
	ss, err := edwards25519.NewScalar().SetCanonicalBytes(s)
	if err != nil {
		return false
	}
	lhs := edwards25519.NewIdentityPoint().ScalarBaseMult(ss)
	rhs := edwards25519.NewIdentityPoint().ScalarMult(x, pp)
	rhs.Add(rhs, rp)
	return lhs.Equal(rhs) == 1
}

func c13RefVerify(A []byte, sig Signature, msg []byte) bool {
	return c13RefShare(A, sig[:32], sig[32:], c13RefChallenge(sig[:32], A, msg))
}

func c13RefSum(keys []*Key) []byte {
	acc := edwards25519.NewIdentityPoint()
	for _, k := range keys {
		p, err := edwards25519.NewIdentityPoint().SetBytes(k[:])
		if err != nil {
			panic(err)
		}
		acc.Add(acc, p)
	}
	return acc.Bytes()
}

// ---- deterministic fixtures ------------------------------------------------

func c13Key(label string) *Key {
	h := sha512.Sum512([]byte(label))
	k := NewKeyFromSeed(h[:])
	return &k
}

type c13Vec struct {
	n    int
	priv []*Key
	pub  []*Key
}

func c13Vector(n int) *c13Vec {
	v := &c13Vec{n: n}
	for i := 0; i < n; i++ {
		k := c13Key(fmt.Sprintf("c13/key/%d/%d", n, i))
		p := k.Public()
		v.priv = append(v.priv, k)
		v.pub = append(v.pub, &p)
	}
	return v
}

// group order l, little endian
var c13L = [32]byte{0xed, 0xd3, 0xf5, 0x5c, 0x1a, 0x63, 0x12, 0x58, 0xd6, 0x9c, 0xf7, 0xa2, 0xde, 0xf9, 0xde, 0x14,
	0, 0, 0, 0, 0, 0, 0, 0, 0, 0, 0, 0, 0, 0, 0, 0x10}

func c13AddL(s *[32]byte) *[32]byte {
	var out [32]byte
	carry := 0
	for i := 0; i < 32; i++ {
		v := int(s[i]) + int(c13L[i]) + carry
		out[i] = byte(v)
		carry = v >> 8
	}
	if carry != 0 {
		panic("c13AddL overflow")
	}
	return &out
}

func c13PlusOne(s *[32]byte) *[32]byte {
	var one [32]byte
	one[0] = 1
	a, err := edwards25519.NewScalar().SetCanonicalBytes(s[:])
	if err != nil {
		panic(err)
	}
	b, _ := edwards25519.NewScalar().SetCanonicalBytes(one[:])
	var out [32]byte
	copy(out[:], edwards25519.NewScalar().Add(a, b).Bytes())
	return &out
}

func c13SumScalars(rs map[int]*[32]byte, skip int) []byte {
	acc := edwards25519.NewScalar()
	for i, r := range rs {
		if i == skip {
			continue
		}
		s, err := edwards25519.NewScalar().SetCanonicalBytes(r[:])
		if err != nil {
			panic(err)
		}
		acc.Add(acc, s)
	}
	return acc.Bytes()
}

func c13Members(mask uint64) []int {
	var m []int
	for i := 0; i < 64; i++ {
		if mask&(uint64(1)<<uint(i)) != 0 {
			m = append(m, i)
		}
	}
	return m
}

func c13EqualInts(a, b []int) bool {
	if len(a) != len(b) {
		return false
	}
	for i := range a {
		if a[i] != b[i] {
			return false
		}
	}
	return true
}

type c13Case struct {
	vec  *c13Vec
	mask uint64
	mi   int
}

type c13Run struct {
	c        *verifmc.Check
	msgs     []Hash
	foreign  *Key
	noop     atomic.Int64
	refOK    atomic.Int64
	refBad   atomic.Int64
	idxCover [64]atomic.Int64
}

func (r *c13Run) viol(cs c13Case, key, desc string, extra map[string]any) {
	rep := map[string]any{"n": cs.vec.n, "mask": fmt.Sprintf("%016x", cs.mask), "message": cs.mi, "keys": "sha512('c13/key/<n>/<i>') via NewKeyFromSeed", "nonces": "sha512('c13/nonce/<n>/<mask>/<msg>/<i>')"}
	for k, v := range extra {
		rep[k] = v
	}
	r.c.Violation(key, fmt.Sprintf("n=%d mask=%016x msg=%d: %s", cs.vec.n, cs.mask, cs.mi, desc), rep)
}

// one (vector, mask, message) case: honest flow, thresholds, all tampers.
func (r *c13Run) runCase(cs c13Case) {
	c := r.c
	v := cs.vec
	msg := r.msgs[cs.mi]
	other := r.msgs[1-cs.mi]
	members := c13Members(cs.mask)
	k := len(members)
	tag := fmt.Sprintf("%d|%016x|%d|", v.n, cs.mask, cs.mi)

	nonce := map[int]*Key{}
	commit := map[int]*Key{}
	var commitList, keyList []*Key
	for _, i := range members {
		z := c13Key(fmt.Sprintf("c13/nonce/%d/%016x/%d/%d", v.n, cs.mask, cs.mi, i))
		R := z.Public()
		nonce[i] = z
		commit[i] = &R
		commitList = append(commitList, &R)
		keyList = append(keyList, v.pub[i])
	}
	build := func() *CosiSignature {
		rm := make(map[int]*Key, k)
		for i, R := range commit {
			rm[i] = R
		}
		cosi, err := CosiAggregateCommitment(rm)
		if err != nil {
			return nil
		}
		return cosi
	}
	cpResp := func(src map[int]*[32]byte) map[int]*[32]byte {
		out := make(map[int]*[32]byte, len(src))
		for i, s := range src {
			out[i] = s
		}
		return out
	}

	// ---------- honest flow ----------
	c.Eval(1)
	c.Distinct(tag + "honest")
	cosi := build()
	if cosi == nil {
		c.Outcome("honest:commit-rejected")
		r.viol(cs, "honest:commit-rejected", "CosiAggregateCommitment refuses a signer set inside the key vector", nil)
		return
	}
	if !c13EqualInts(cosi.Keys(), members) {
		c.Outcome("honest:mask-mismatch")
		r.viol(cs, "commit:mask-differs-from-committed-set", fmt.Sprintf("mask lists %v for committed signers %v", cosi.Keys(), members), nil)
		return
	}
	refR := c13RefSum(commitList)
	refA := c13RefSum(keyList)
	if !bytes.Equal(cosi.Signature[:32], refR) {
		r.viol(cs, "commit:aggregate-commitment-differs", "aggregate commitment is not the sum of the masked commitments", nil)
		return
	}
	refX := c13RefChallenge(refR, refA, msg[:])
	resp := map[int]*[32]byte{}
	for _, i := range members {
		s, err := cosi.Response(v.priv[i], nonce[i], v.pub, msg)
		if err != nil {
			c.Outcome("honest:response-error")
			r.viol(cs, "honest:response-error", fmt.Sprintf("Response for masked signer %d: %v", i, err), map[string]any{"signer": i})
			return
		}
		resp[i] = s
		c.Eval(1)
		if err := cosi.VerifyResponse(v.pub, i, s, msg); err != nil {
			c.Outcome("honest:single-rejected")
			r.viol(cs, "honest:single-rejected", fmt.Sprintf("VerifyResponse rejects the valid share of signer %d: %v", i, err), map[string]any{"signer": i})
			return
		}
		if !c13RefShare(v.pub[i][:], commit[i][:], s[:], refX) {
			// accepted by the code, not a valid share of the repository's scheme
			r.viol(cs, "single:accepted-invalid-by-reference", fmt.Sprintf("VerifyResponse accepts a share of signer %d that does not satisfy s*B = R_i + x*P_i", i), map[string]any{"signer": i})
			return
		}
		r.refOK.Add(1)
		r.idxCover[i].Add(1)
	}
	if err := cosi.AggregateResponse(v.pub, cpResp(resp), msg, true); err != nil {
		c.Outcome("honest:strict-rejected")
		r.viol(cs, "honest:strict-rejected", fmt.Sprintf("strict AggregateResponse rejects valid shares: %v", err), nil)
		return
	}
	honestSig := cosi.Signature
	if loose := build(); loose.AggregateResponse(v.pub, cpResp(resp), msg, false) != nil || loose.Signature != honestSig {
		r.viol(cs, "honest:nonstrict-differs", "non-strict aggregation of valid shares fails or differs from strict aggregation", nil)
		return
	}
	c.Outcome("honest:ok")

	// ---------- thresholds ----------
	seenT := map[int]bool{}
	for _, t := range []int{0, 1, k - 1, k, k + 1, 65} {
		if seenT[t] {
			continue
		}
		seenT[t] = true
		c.Eval(1)
		c.Distinct(fmt.Sprintf("%sthreshold|%d", tag, t))
		err := cosi.FullVerify(v.pub, t, msg)
		switch {
		case t <= 0:
			// not covered by the statement; the code refuses
			if err != nil {
				c.Outcome("threshold<=0:reject")
			} else {
				c.Outcome("threshold<=0:accept")
			}
		case t <= k:
			if err != nil {
				c.Outcome("threshold:honest-rejected")
				r.viol(cs, "honest:fullverify-rejected", fmt.Sprintf("FullVerify(threshold=%d) rejects an honest signature of %d signers: %v", t, k, err), map[string]any{"threshold": t})
			} else if !c13RefVerify(refA, honestSig, msg[:]) {
				r.viol(cs, "full:accepted-invalid-by-reference", "FullVerify accepts a signature the reference Schnorr verifier rejects", map[string]any{"threshold": t})
			} else {
				r.refOK.Add(1)
				c.Outcome("threshold:accept")
			}
		default:
			if err == nil {
				c.Outcome("threshold:above-accepted")
				r.viol(cs, "threshold:above-mask-size-accepted", fmt.Sprintf("FullVerify(threshold=%d) accepts a signature of only %d signers", t, k), map[string]any{"threshold": t})
			} else {
				c.Outcome("threshold:reject-above")
			}
		}
	}

	// ---------- single share tampering ----------
	kinds := []string{"other-signer", "other-message", "plus-one", "non-canonical"}
	for mi, i := range members {
		for _, kind := range kinds {
			var bad *[32]byte
			switch kind {
			case "other-signer":
				if k >= 2 {
					bad = resp[members[(mi+1)%k]] // the real share of another masked signer
				} else {
					pk := r.foreign
					if v.n >= 2 {
						pk = v.priv[(i+1)%v.n]
					}
					s, err := cosi.Response(pk, nonce[i], v.pub, msg)
					if err != nil {
						panic(err)
					}
					bad = s
				}
			case "other-message":
				s, err := cosi.Response(v.priv[i], nonce[i], v.pub, other)
				if err != nil {
					panic(err)
				}
				bad = s
			case "plus-one":
				bad = c13PlusOne(resp[i])
			case "non-canonical":
				bad = c13AddL(resp[i])
			}
			c.Distinct(fmt.Sprintf("%stamper|%d|%s", tag, i, kind))
			if *bad == *resp[i] || c13RefShare(v.pub[i][:], commit[i][:], bad[:], refX) {
				r.noop.Add(1) // not a tamper at all: harness guard
				continue
			}
			r.refBad.Add(1)
			tr := cpResp(resp)
			tr[i] = bad
			rep := map[string]any{"signer": i, "tamper": kind}

			c.Eval(1)
			if err := build().AggregateResponse(v.pub, cpResp(tr), msg, true); err == nil {
				c.Outcome("tamper:" + kind + ":strict-accepted")
				r.viol(cs, "strict:accepted:"+kind, fmt.Sprintf("strict AggregateResponse accepts a %s share for signer %d", kind, i), rep)
			} else {
				c.Outcome("tamper:" + kind + ":strict-reject")
			}
			c.Eval(1)
			if err := build().VerifyResponse(v.pub, i, bad, msg); err == nil {
				c.Outcome("tamper:" + kind + ":single-accepted")
				r.viol(cs, "single:accepted:"+kind, fmt.Sprintf("VerifyResponse accepts a %s share for signer %d", kind, i), rep)
			} else {
				c.Outcome("tamper:" + kind + ":single-reject")
			}
			c.Eval(1)
			loose := build()
			if err := loose.AggregateResponse(v.pub, cpResp(tr), msg, false); err != nil {
				c.Outcome("tamper:" + kind + ":nonstrict-agg-reject")
			} else if c13RefVerify(refA, loose.Signature, msg[:]) {
				r.noop.Add(1)
			} else if loose.FullVerify(v.pub, k, msg) == nil || loose.FullVerify(v.pub, 1, msg) == nil {
				c.Outcome("tamper:" + kind + ":full-accepted")
				r.viol(cs, "full:accepted:"+kind, fmt.Sprintf("FullVerify accepts the non-strict aggregate containing a %s share for signer %d", kind, i), rep)
			} else {
				r.refBad.Add(1)
				c.Outcome("tamper:" + kind + ":full-reject")
			}
		}

		// ---------- a response missing ----------
		c.Distinct(fmt.Sprintf("%smissing|%d", tag, i))
		miss := cpResp(resp)
		delete(miss, i)
		rep := map[string]any{"signer": i, "tamper": "missing-response"}
		for _, strict := range []bool{true, false} {
			c.Eval(1)
			m := build()
			if err := m.AggregateResponse(v.pub, cpResp(miss), msg, strict); err != nil {
				c.Outcome("missing:agg-reject")
			} else if m.FullVerify(v.pub, 1, msg) == nil {
				c.Outcome("missing:accepted")
				r.viol(cs, "full:accepted:missing-response", fmt.Sprintf("signature verifies although signer %d never responded", i), rep)
			} else {
				c.Outcome("missing:full-reject")
			}
		}
		// the aggregate built by hand from the remaining shares, full mask and reduced mask
		c.Eval(2)
		hand := build()
		copy(hand.Signature[32:], c13SumScalars(resp, i))
		if hand.FullVerify(v.pub, 1, msg) == nil {
			c.Outcome("missing:accepted")
			r.viol(cs, "full:accepted:missing-response", fmt.Sprintf("hand-made aggregate without the share of signer %d verifies", i), rep)
		} else {
			c.Outcome("missing:full-reject")
		}
		hand.Mask &^= uint64(1) << uint(i)
		if hand.FullVerify(v.pub, 1, msg) == nil {
			c.Outcome("missing:accepted")
			r.viol(cs, "full:accepted:missing-signer-in-mask", fmt.Sprintf("commitment of signer %d aggregated but signer dropped from mask: verifies", i), rep)
		} else {
			c.Outcome("missing:full-reject")
		}

		// ---------- repeated signer: index marked twice (mask bit toggled off, commitment kept) ----------
		c.Distinct(fmt.Sprintf("%srepeat|%d", tag, i))
		c.Eval(1)
		rp := build()
		_ = rp.mark(i)
		rresp := map[int]*[32]byte{}
		ok := true
		for _, j := range members {
			s, err := rp.Response(v.priv[j], nonce[j], v.pub, msg)
			if err != nil {
				ok = false // mask became empty: no challenge can be formed
				break
			}
			rresp[j] = s
		}
		if !ok {
			c.Outcome("repeat:no-challenge")
		} else {
			rep := map[string]any{"signer": i, "tamper": "index marked twice"}
			if err := rp.AggregateResponse(v.pub, cpResp(rresp), msg, true); err == nil {
				c.Outcome("repeat:strict-accepted")
				r.viol(cs, "strict:accepted:response-outside-mask", fmt.Sprintf("strict AggregateResponse accepts a response for index %d that the mask does not contain (signer repeated)", i), rep)
			} else {
				c.Outcome("repeat:strict-reject")
			}
			rp2 := build()
			_ = rp2.mark(i)
			if err := rp2.AggregateResponse(v.pub, cpResp(rresp), msg, false); err == nil && (rp2.FullVerify(v.pub, 1, msg) == nil) {
				c.Outcome("repeat:full-accepted")
				r.viol(cs, "full:accepted:repeated-signer", fmt.Sprintf("signature with repeated signer %d verifies", i), rep)
			}
		}
	}

	// ---------- two shares altered together (deviations cancel in the sum) ----------
	// oracle: strict AggregateResponse rejects iff some share fails VerifyResponse
	if k >= 2 {
		type pr struct{ a, b int }
		var pairs []pr
		if v.n <= 5 {
			for a := 0; a < k; a++ {
				for b := 0; b < k; b++ {
					if a != b {
						pairs = append(pairs, pr{a, b})
					}
				}
			}
		} else {
			seen := map[pr]bool{}
			for _, q := range []pr{{0, k - 1}, {k - 1, 0}, {0, 1}, {k - 2, k - 1}, {k - 1, k - 2}, {k / 2, k - 1}, {k - 1, k / 2}} {
				if q.a != q.b && !seen[q] {
					seen[q] = true
					pairs = append(pairs, q)
				}
			}
		}
		one := edwards25519.NewScalar()
		one, _ = one.SetCanonicalBytes(append([]byte{1}, make([]byte, 31)...))
		minusOne := edwards25519.NewScalar().Negate(one)
		fixed, _ := edwards25519.NewScalar().SetUniformBytes(func() []byte { h := sha512.Sum512([]byte("c13/pair-delta")); return h[:] }())
		deltas := []struct {
			name string
			d    *edwards25519.Scalar
		}{{"d=1", one}, {"d=l-1", minusOne}, {"d=fixed", fixed}}
		shift := func(sv *[32]byte, d *edwards25519.Scalar, neg bool) *[32]byte {
			x, _ := edwards25519.NewScalar().SetCanonicalBytes(sv[:])
			if neg {
				x.Subtract(x, d)
			} else {
				x.Add(x, d)
			}
			var out [32]byte
			copy(out[:], x.Bytes())
			return &out
		}
		runPair := func(name string, a, b int, sa, sb *[32]byte) {
			ia, ib := members[a], members[b]
			c.Eval(1)
			c.Distinct(fmt.Sprintf("%spair|%d|%d|%s", tag, ia, ib, name))
			tr := cpResp(resp)
			tr[ia], tr[ib] = sa, sb
			probe := build()
			badA := probe.VerifyResponse(v.pub, ia, sa, msg) != nil
			badB := probe.VerifyResponse(v.pub, ib, sb, msg) != nil
			if badA != !c13RefShare(v.pub[ia][:], commit[ia][:], sa[:], refX) || badB != !c13RefShare(v.pub[ib][:], commit[ib][:], sb[:], refX) {
				if !badA || !badB {
					r.viol(cs, "single:accepted:pair-"+name, fmt.Sprintf("VerifyResponse accepts an altered share of signer %d or %d (%s)", ia, ib, name), map[string]any{"signers": []int{ia, ib}, "tamper": name})
				}
				return
			}
			if !badA && !badB {
				r.noop.Add(1)
				return
			}
			r.refBad.Add(1)
			err := build().AggregateResponse(v.pub, tr, msg, true)
			if err == nil {
				c.Outcome("pair:" + name + ":strict-accepted")
				r.viol(cs, "strict:accepted:pair-"+name, fmt.Sprintf("strict AggregateResponse of %d responses accepts altered shares of signers %d and %d (%s) although VerifyResponse rejects them", k, ia, ib, name),
					map[string]any{"signers": []int{ia, ib}, "tamper": name, "responses": k})
			} else {
				c.Outcome("pair:" + name + ":strict-reject")
			}
		}
		for _, q := range pairs {
			for _, dl := range deltas {
				runPair("cancelling-"+dl.name, q.a, q.b, shift(resp[members[q.a]], dl.d, false), shift(resp[members[q.b]], dl.d, true))
			}
			if q.a < q.b {
				runPair("swapped", q.a, q.b, resp[members[q.b]], resp[members[q.a]])
			}
		}
	}

	// ---------- mask / threshold tampering of a value that has already been verified ----------
	// (same value and by-value copy: Keys()/FullVerify ran before Mask is changed)
	{
		type mt struct {
			class string
			mask  uint64
			t     int
		}
		var tampers []mt
		for _, i := range members {
			tampers = append(tampers, mt{"drop-signer", cs.mask &^ (uint64(1) << uint(i)), 1})
			if k >= 2 {
				tampers = append(tampers, mt{"below-threshold", cs.mask &^ (uint64(1) << uint(i)), k})
			}
		}
		var non []int
		for j := 0; j < v.n; j++ {
			if cs.mask&(uint64(1)<<uint(j)) == 0 {
				non = append(non, j)
			}
		}
		if v.n > 10 && len(non) > 2 {
			non = []int{non[0], non[len(non)-1]}
		}
		for _, j := range non {
			tampers = append(tampers, mt{"add-signer", cs.mask | uint64(1)<<uint(j), 1})
		}
		for _, j := range []int{v.n, 63} {
			if j >= v.n && j <= 63 {
				tampers = append(tampers, mt{"outside-vector", cs.mask | uint64(1)<<uint(j), 1})
			}
		}
		tampers = append(tampers, mt{"shifted", cs.mask << 1, 1})
		for ti, tm := range tampers {
			if tm.mask == cs.mask {
				continue
			}
			// is the tampered mask really invalid for this signature? (reference)
			inside := true
			var tk []*Key
			for _, j := range c13Members(tm.mask) {
				if j >= v.n {
					inside = false
					break
				}
				tk = append(tk, v.pub[j])
			}
			if inside && len(tk) > 0 && len(tk) >= tm.t && c13RefVerify(c13RefSum(tk), honestSig, msg[:]) {
				r.noop.Add(1)
				continue
			}
			for _, mode := range []string{"same-value", "copy"} {
				c.Eval(1)
				c.Distinct(fmt.Sprintf("%safter-use|%d|%s|%s", tag, ti, tm.class, mode))
				used := build()
				if used.AggregateResponse(v.pub, cpResp(resp), msg, false) != nil || used.FullVerify(v.pub, k, msg) != nil || !c13EqualInts(used.Keys(), members) {
					r.viol(cs, "honest:fullverify-rejected", "second honest aggregation of the same shares fails", nil)
					continue
				}
				target := used
				if mode == "copy" {
					cp := *used
					target = &cp
				}
				target.Mask = tm.mask
				rep := map[string]any{"tamper": tm.class, "new_mask": fmt.Sprintf("%016x", tm.mask), "threshold": tm.t, "applied_to": mode + " after FullVerify and Keys()"}
				if target.FullVerify(v.pub, tm.t, msg) == nil {
					c.Outcome("after-use:" + tm.class + ":accepted")
					r.viol(cs, "full:accepted-after-use:"+tm.class, fmt.Sprintf("verified signature keeps verifying (threshold %d) after its Mask is changed to %016x (%s, %s)", tm.t, tm.mask, tm.class, mode), rep)
					continue
				}
				c.Outcome("after-use:" + tm.class + ":reject")
				// and back: the right mask on a value that has just been used with a wrong one
				target.Mask = cs.mask
				if err := target.FullVerify(v.pub, k, msg); err != nil {
					c.Outcome("after-use:restore-rejected")
					r.viol(cs, "honest:fullverify-rejected-after-mask-restored", fmt.Sprintf("honest signature no longer verifies once its Mask was changed to %016x and back: %v", tm.mask, err), rep)
				}
			}
		}
	}

	// ---------- every commitment index shifted by one ----------
	c.Eval(1)
	c.Distinct(tag + "shift")
	{
		sh := &CosiSignature{Signature: honestSig, Mask: cs.mask << 1}
		if sh.FullVerify(v.pub, 1, msg) == nil {
			c.Outcome("shift:accepted")
			r.viol(cs, "full:accepted:shifted-mask", "honest signature verifies for the mask shifted by one index", nil)
		} else {
			c.Outcome("shift:reject")
		}
		shifted := make(map[int]*Key, k)
		for _, i := range members {
			shifted[i+1] = commit[i]
		}
		sc, err := CosiAggregateCommitment(shifted)
		if err != nil {
			c.Outcome("shift:commit-reject") // index 64
		} else {
			sresp := map[int]*[32]byte{}
			for _, i := range members {
				s, err := sc.Response(v.priv[i], nonce[i], v.pub, msg)
				if err != nil {
					sresp = nil // shifted index left the key vector
					break
				}
				sresp[i+1] = s
			}
			if sresp == nil {
				c.Outcome("shift:no-challenge")
			} else {
				c.Eval(2 + int64(k))
				for _, i := range members {
					if sc.VerifyResponse(v.pub, i+1, sresp[i+1], msg) == nil {
						r.viol(cs, "single:accepted:shifted-index", fmt.Sprintf("share of signer %d accepted at index %d", i, i+1), map[string]any{"signer": i})
					}
				}
				if sc.AggregateResponse(v.pub, cpResp(sresp), msg, true) == nil {
					r.viol(cs, "strict:accepted:shifted-index", "strict aggregation accepts shares of signers i at indexes i+1", nil)
				}
				s2, _ := CosiAggregateCommitment(shifted)
				if s2.AggregateResponse(v.pub, cpResp(sresp), msg, false) == nil && s2.FullVerify(v.pub, 1, msg) == nil {
					c.Outcome("shift:accepted")
					r.viol(cs, "full:accepted:shifted-index", "aggregate of shares of signers i at indexes i+1 verifies", nil)
				} else {
					c.Outcome("shift:api-reject")
				}
			}
		}
	}

	// ---------- mask index outside the key vector ----------
	for _, j := range []int{v.n, 63} {
		if j < v.n || j > 63 {
			continue
		}
		c.Eval(2)
		c.Distinct(fmt.Sprintf("%soutside|%d", tag, j))
		ex := &CosiSignature{Signature: honestSig, Mask: cs.mask | uint64(1)<<uint(j)}
		if ex.FullVerify(v.pub, 1, msg) == nil || ex.FullVerify(v.pub, k+1, msg) == nil {
			c.Outcome("outside:accepted")
			r.viol(cs, "full:accepted:mask-index-outside-vector", fmt.Sprintf("signature with extra mask bit %d >= n verifies", j), map[string]any{"extra_bit": j})
		} else {
			c.Outcome("outside:reject")
		}
		// the same through the API: a commitment registered at index j
		rm := make(map[int]*Key, k+1)
		for i, R := range commit {
			rm[i] = R
		}
		zx := c13Key(fmt.Sprintf("c13/nonce-extra/%d/%016x/%d/%d", v.n, cs.mask, cs.mi, j))
		Rx := zx.Public()
		rm[j] = &Rx
		if ec, err := CosiAggregateCommitment(rm); err == nil {
			eresp := map[int]*[32]byte{}
			for _, i := range members {
				s, err := ec.Response(v.priv[i], nonce[i], v.pub, msg)
				if err != nil {
					eresp = nil
					break
				}
				eresp[i] = s
			}
			if eresp == nil {
				c.Outcome("outside:no-challenge")
			} else {
				s, _ := ec.Response(r.foreign, zx, v.pub, msg)
				eresp[j] = s
				if ec.AggregateResponse(v.pub, eresp, msg, false) == nil && ec.FullVerify(v.pub, 1, msg) == nil {
					c.Outcome("outside:accepted")
					r.viol(cs, "full:accepted:mask-index-outside-vector", fmt.Sprintf("signature with committed index %d >= n verifies", j), map[string]any{"extra_bit": j})
				} else {
					c.Outcome("outside:reject")
				}
			}
		}
	}
	if top := members[k-1]; top >= 1 {
		c.Eval(1)
		c.Distinct(tag + "truncated")
		if cosi.FullVerify(v.pub[:top], 1, msg) == nil {
			c.Outcome("outside:accepted")
			r.viol(cs, "full:accepted:mask-index-outside-vector", fmt.Sprintf("signature verifies against the key vector truncated to %d keys", top), map[string]any{"truncated_to": top})
		} else {
			c.Outcome("outside:reject")
		}
	}
}

// boundary of the 64-bit mask: indexes 64 and -1 with a 65-key vector. Either
// the commitment set is refused, or the mask must list exactly the committed
// signers (otherwise their valid responses can never yield a verifying
// signature).
func (r *c13Run) runBoundary(v65 *c13Vec) {
	c := r.c
	for mi := range r.msgs {
		msg := r.msgs[mi]
		for _, set := range [][]int{{64}, {0, 64}, {63, 64}, {-1}, {-1, 0}, {0, 63}} {
			c.Eval(1)
			c.Distinct(fmt.Sprintf("boundary|%v|%d", set, mi))
			rm := map[int]*Key{}
			nz := map[int]*Key{}
			for _, i := range set {
				z := c13Key(fmt.Sprintf("c13/nonce/65/%v/%d/%d", set, mi, i))
				R := z.Public()
				nz[i] = z
				rm[i] = &R
			}
			cosi, err := CosiAggregateCommitment(rm)
			inside := true
			for _, i := range set {
				if i < 0 || i > 63 {
					inside = false
				}
			}
			cs := c13Case{vec: v65, mi: mi}
			if err != nil {
				if inside {
					r.viol(cs, "honest:commit-rejected", fmt.Sprintf("CosiAggregateCommitment refuses %v: %v", set, err), map[string]any{"set": set})
				} else {
					c.Outcome("boundary:commit-reject")
				}
				continue
			}
			sorted := append([]int(nil), set...)
			sort.Ints(sorted)
			if c13EqualInts(cosi.Keys(), sorted) {
				c.Outcome("boundary:commit-ok")
				if !inside {
					r.viol(cs, "commit:mask-differs-from-committed-set", fmt.Sprintf("unrepresentable set %v reported as mask %v", set, cosi.Keys()), map[string]any{"set": set})
				}
				continue
			}
			// accepted, but the mask does not list the committed signers: show the consequence
			verdict := "no challenge can be formed"
			resp := map[int]*[32]byte{}
			for _, i := range set {
				if i < 0 {
					resp = nil
					break
				}
				s, err := cosi.Response(v65.priv[i], nz[i], v65.pub, msg)
				if err != nil {
					resp = nil
					break
				}
				resp[i] = s
			}
			if resp != nil {
				if err := cosi.AggregateResponse(v65.pub, resp, msg, true); err != nil {
					verdict = "valid responses of the committed signers are refused: " + err.Error()
				} else if err := cosi.FullVerify(v65.pub, 1, msg); err != nil {
					verdict = "aggregate of valid responses does not verify: " + err.Error()
				} else {
					verdict = fmt.Sprintf("aggregate verifies with mask %v", cosi.Keys())
				}
			}
			c.Outcome("boundary:mask-mismatch")
			r.viol(cs, "commit:mask-differs-from-committed-set", fmt.Sprintf("CosiAggregateCommitment accepts signer set %v but the mask lists %v; %s", set, cosi.Keys(), verdict), map[string]any{"set": set})
		}
	}
}

func TestMC_C13(t *testing.T) {
	c := verifmc.Start(t, "C13", "exploration")
	defer c.Finish()
	c.SetRule("key vectors n in {1,2,3,5,8,64} x masks (all 2^n-1 for n<=8; for n=64 every single index 0..63, every adjacent pair, the full mask; thorough tier adds n in {4,6,7,10} with all masks and every index pair for n=64) x 2 messages; per case: honest flow, threshold menu {0,1,|M|-1,|M|,|M|+1,65}, every member x {share of another signer, share for the other message, s+1, s+l non-canonical, response missing, index marked twice}, two shares altered together (s_a+d, s_b-d for d in {1, l-1, a fixed scalar} and s_a<->s_b swapped; all ordered member pairs for n<=5, boundary pairs otherwise; oracle: strict aggregation rejects iff a share fails VerifyResponse), all indexes shifted by one, extra mask bit at n and 63, truncated key vector; every mask/threshold tamper (each signer dropped, dropped with threshold |M|, each outside signer added [n=64: lowest and highest], bit n / 63 added, mask shifted) also applied to a value that has already been aggregated and verified, both in place and on a by-value copy, followed by restoring the mask; plus a 13-key vector (thorough: 21) with signer counts {1,2,3,4,5,7..13} (thorough {1..13,16,17,21}) as low prefix / high suffix / alternating masks, every position tampered; plus index 64 / -1 sets with a 65-key vector. A case is distinct by (n, mask, message, scenario, signer, tamper kind)")
	c.Assume("reference verifier: plain Schnorr on filippo.io/edwards25519 with challenge SHA-512(R||A||m), A and R plain sums over masked signers (the construction of crypto/signature.go and crypto/cosi.go)",
		"keys and nonces are derived deterministically from SHA-512 of labels through NewKeyFromSeed; nonce single-use handling (CosiNonce) is the subject of C12 and bypassed here (CosiSignature.Response is called directly)",
		"the 'index marked twice' scenario is produced in-package with CosiSignature.mark because a Go map cannot carry a duplicated index")

	r := &c13Run{c: c, foreign: c13Key("c13/foreign")}
	r.msgs = []Hash{Blake3Hash([]byte("c13/message/0")), Blake3Hash([]byte("c13/message/1"))}

	var cases []c13Case
	sizes := verifmc.Pick(c, []int{1, 2, 3, 5, 8, 64}, []int{1, 2, 3, 4, 5, 6, 7, 8, 10, 64})
	nMasks := 0
	for _, n := range sizes {
		v := c13Vector(n)
		var masks []uint64
		if n <= 10 {
			for m := uint64(1); m < uint64(1)<<uint(n); m++ {
				masks = append(masks, m)
			}
		} else {
			for i := 0; i < n; i++ {
				masks = append(masks, uint64(1)<<uint(i))
			}
			for i := 0; i+1 < n; i++ {
				masks = append(masks, uint64(3)<<uint(i))
			}
			if c.Thorough() { // every pair, not only adjacent ones
				for i := 0; i < n; i++ {
					for j := i + 2; j < n; j++ {
						masks = append(masks, uint64(1)<<uint(i)|uint64(1)<<uint(j))
					}
				}
			}
			masks = append(masks, ^uint64(0))
		}
		nMasks += len(masks)
		for _, m := range masks {
			for mi := range r.msgs {
				cases = append(cases, c13Case{vec: v, mask: m, mi: mi})
			}
		}
	}
	// signer counts around the worker/batch boundaries of strict aggregation: every
	// count of the menu as low prefix, high suffix and alternating members of one vector
	{
		nBig := verifmc.Pick(c, 13, 21)
		counts := verifmc.Pick(c, []int{1, 2, 3, 4, 5, 7, 8, 9, 10, 11, 12, 13}, []int{1, 2, 3, 4, 5, 6, 7, 8, 9, 10, 11, 12, 13, 16, 17, 21})
		v := c13Vector(nBig)
		seen := map[uint64]bool{}
		for _, k := range counts {
			low := uint64(1)<<uint(k) - 1
			cand := []uint64{low, low << uint(nBig-k)}
			if 2*k-1 <= nBig {
				var alt uint64
				for i := 0; i < k; i++ {
					alt |= uint64(1) << uint(2*i)
				}
				cand = append(cand, alt)
			}
			for _, m := range cand {
				if seen[m] {
					continue
				}
				seen[m] = true
				nMasks++
				for mi := range r.msgs {
					cases = append(cases, c13Case{vec: v, mask: m, mi: mi})
				}
			}
		}
		c.Set("signer_count_menu", counts)
	}
	// largest cases first for a balanced parallel schedule
	sort.SliceStable(cases, func(a, b int) bool {
		return bits.OnesCount64(cases[a].mask) > bits.OnesCount64(cases[b].mask)
	})
	c.Set("masks", nMasks)
	c.Set("cases", len(cases))
	c.ParallelN(len(cases), "C13 cases", func(_, i int) { r.runCase(cases[i]) })
	r.runBoundary(c13Vector(65))

	covered := 0
	for i := range r.idxCover {
		if r.idxCover[i].Load() > 0 {
			covered++
		}
	}
	c.Set("mask_indexes_with_verified_share", covered)
	c.Set("reference_accepts", r.refOK.Load())
	c.Set("reference_rejects", r.refBad.Load())
	c.Sample(map[string]any{"n": 8, "mask": "00000000000000a5", "message": 0, "scenario": "share of signer 2 replaced by the share of signer 5", "expect": "strict AggregateResponse, VerifyResponse(2) and FullVerify of the non-strict aggregate all fail"})
	c.Sample(map[string]any{"n": 64, "mask": "8000000000000000", "message": 1, "scenario": "honest single signer at index 63", "expect": "FullVerify(threshold=1) nil, FullVerify(threshold=2) and (65) error"})
	c.Sample(map[string]any{"n": 5, "mask": "0000000000000013", "message": 0, "scenario": "extra mask bit 5 (= n) set on the honest signature", "expect": "FullVerify error"})
	c.Sample(map[string]any{"n": 65, "set": []int{63, 64}, "scenario": "commitment registered at index 64", "expect": "CosiAggregateCommitment error"})
	c.Sample(map[string]any{"n": 3, "mask": "0000000000000007", "message": 1, "scenario": "s_1 + l (non-canonical encoding of the valid share)", "expect": "strict aggregation and VerifyResponse fail"})

	if c.Violations() == 0 && !c.Expired("final guards") {
		c.Require(r.noop.Load() == 0, "%d tamper cases were no-ops", r.noop.Load())
		c.Require(covered == 64, "only %d of 64 mask indexes exercised", covered)
		c.Require(c.OutcomeCount("honest:ok") == int64(len(cases)), "honest flow completed for %d of %d cases", c.OutcomeCount("honest:ok"), len(cases))
		for _, kind := range []string{"other-signer", "other-message", "plus-one", "non-canonical"} {
			c.Require(c.OutcomeCount("tamper:"+kind+":strict-reject") > 0 && c.OutcomeCount("tamper:"+kind+":single-reject") > 0, "tamper %s never rejected", kind)
		}
		c.Require(c.OutcomeCount("tamper:plus-one:full-reject") > 0 && c.OutcomeCount("tamper:non-canonical:nonstrict-agg-reject") > 0, "non-strict tamper outcomes missing")
		c.Require(c.OutcomeCount("threshold:accept") > 0 && c.OutcomeCount("threshold:reject-above") > 0, "threshold outcomes missing")
		c.Require(c.OutcomeCount("repeat:strict-reject") > 0 && c.OutcomeCount("missing:agg-reject") > 0 && c.OutcomeCount("missing:full-reject") > 0, "missing/repeated signer outcomes missing")
		for _, cl := range []string{"drop-signer", "below-threshold", "add-signer", "outside-vector", "shifted"} {
			c.Require(c.OutcomeCount("after-use:"+cl+":reject") > 0, "after-use tamper %s never rejected", cl)
		}
		c.Require(c.OutcomeCount("outside:reject") > 0 && c.OutcomeCount("shift:api-reject") > 0 && c.OutcomeCount("boundary:commit-reject") > 0, "mask fault outcomes missing")
		for _, o := range []string{"pair:cancelling-d=1:strict-reject", "pair:cancelling-d=l-1:strict-reject", "pair:cancelling-d=fixed:strict-reject", "pair:swapped:strict-reject"} {
			c.Require(c.OutcomeCount(o) > 0, "outcome %q never reached", o)
		}
		c.Require(r.refOK.Load() > 0 && r.refBad.Load() > 0, "reference verifier not exercised in both directions")
	}
}
