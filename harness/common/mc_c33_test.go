//go:build verif

package common

import (
	"encoding/json"
	"fmt"
	"math"
	"math/big"
	"strings"
	"testing"

	"github.com/MixinNetwork/mixin/verifmc"
)

// C33 — fixed-point amounts behave like exact decimal arithmetic.
// Bounded-exhaustive enumeration (E1): all ordered pairs / triples of a
// boundary value menu for every operation, against math/big references, and a
// full product of decimal string shapes for parse/print.

func c33Int(b *big.Int) Integer {
	var v Integer
	v.i.Set(b)
	return v
}

func c33Values() []*big.Int {
	pow := func(b, e int64) *big.Int { return new(big.Int).Exp(big.NewInt(b), big.NewInt(e), nil) }
	two64 := pow(2, 64)
	base := []*big.Int{
		big.NewInt(0), big.NewInt(1), big.NewInt(2), big.NewInt(3), big.NewInt(7),
		big.NewInt(99999999), big.NewInt(100000000), big.NewInt(100000001),
		new(big.Int).SetUint64(math.MaxInt64), pow(2, 63), new(big.Int).Sub(two64, big.NewInt(1)), two64,
		new(big.Int).Sub(new(big.Int).Mul(two64, big.NewInt(10000)), big.NewInt(1)),
		new(big.Int).Mul(two64, big.NewInt(10000)),
		new(big.Int).Add(new(big.Int).Mul(two64, big.NewInt(10000)), big.NewInt(1)),
		pow(2, 128), pow(2, 256), new(big.Int).Sub(pow(2, 520), big.NewInt(1)),
		big.NewInt(-1), big.NewInt(-100000000),
	}
	return base
}

func TestMC_C33(t *testing.T) {
	c := verifmc.Start(t, "C33", "exploration")
	defer c.Finish()
	c.SetRule("full product of a boundary value menu (pairs for Add/Sub/Cmp/Ration/Count, triples for Product/ratio Cmp, value x scalar for Mul/Div) and full product of decimal string shapes (integer part x every fraction over {0,1,9} up to length 8/9 x sign prefix x exponent); a case is distinct by (operation, operands) or by the literal string")
	c.Assume("reference is math/big exact arithmetic followed by floor; rejection table is the statement's (negative or zero operands where the current contract documents them)")

	vals := c33Values()
	one := big.NewInt(1)
	_ = one

	type res struct {
		panicked bool
		v        *big.Int
		u        uint64
	}
	call := func(f func() *big.Int) res {
		var out *big.Int
		p := verifmc.Catch(func() { out = f() })
		return res{panicked: p != nil, v: out}
	}
	report := func(op string, args string, want string, got string) {
		c.Violation("arith:"+op, fmt.Sprintf("%s(%s): want %s got %s", op, args, want, got), map[string]any{"op": op, "args": args})
	}
	check := func(op, args string, mustPanic bool, want *big.Int, r res) {
		c.Eval(1)
		c.Distinct(op + "|" + args)
		switch {
		case mustPanic && !r.panicked:
			c.Outcome(op + ":missing-reject")
			report(op, args, "panic (documented rejection)", "value "+r.v.String())
		case !mustPanic && r.panicked:
			c.Outcome(op + ":extra-reject")
			report(op, args, want.String(), "panic")
		case mustPanic:
			c.Outcome(op + ":reject")
		default:
			c.Outcome(op + ":ok")
			if r.v.Cmp(want) != 0 {
				report(op, args, want.String(), r.v.String())
			}
		}
	}

	for _, xb := range vals {
		for _, yb := range vals {
			x, y := c33Int(xb), c33Int(yb)
			args := xb.String() + "," + yb.String()
			xs, ys := xb.Sign(), yb.Sign()
			// Add
			check("Add", args, xs < 0 || ys <= 0, new(big.Int).Add(xb, yb), call(func() *big.Int { v := x.Add(y); return &v.i }))
			// Sub
			check("Sub", args, xs < 0 || ys <= 0 || xb.Cmp(yb) < 0, new(big.Int).Sub(xb, yb), call(func() *big.Int { v := x.Sub(y); return &v.i }))
			// Cmp
			check("Cmp", args, false, big.NewInt(int64(xb.Cmp(yb))), call(func() *big.Int { return big.NewInt(int64(x.Cmp(y))) }))
			// Count
			{
				must := xs <= 0 || ys <= 0 || xb.Cmp(yb) < 0
				var want *big.Int
				if !must {
					want = new(big.Int).Div(xb, yb)
					if !want.IsUint64() {
						must = true // not representable: must refuse, never truncate
					}
				}
				check("Count", args, must, want, call(func() *big.Int { return new(big.Int).SetUint64(x.Count(y)) }))
			}
			// Ration + Product with every z, ratio Cmp with a fixed set
			rOK := !(xs < 0 || ys <= 0)
			var r RationalNumber
			rp := verifmc.Catch(func() { r = x.Ration(y) })
			c.Eval(1)
			c.Distinct("Ration|" + args)
			if rOK && rp != nil {
				report("Ration", args, "ratio", "panic")
				continue
			}
			if !rOK {
				if rp == nil {
					report("Ration", args, "panic", "ratio")
				}
				c.Outcome("Ration:reject")
				continue
			}
			c.Outcome("Ration:ok")
			for _, zb := range vals {
				z := c33Int(zb)
				a3 := args + "," + zb.String()
				want := new(big.Int).Div(new(big.Int).Mul(zb, xb), yb)
				check("Product", a3, zb.Sign() < 0, want, call(func() *big.Int { v := r.Product(z); return &v.i }))
			}
			if rs := r.String(); true {
				want := c33Int(new(big.Int).Div(new(big.Int).Mul(big.NewInt(100000000), xb), yb)).String()
				c.Eval(1)
				if rs != want {
					report("RatString", args, want, rs)
				}
			}
		}
	}
	// ratio comparison over all pairs of ratios built from the non-negative / positive menu (small sub-menu for cost)
	sub := vals[:14]
	for _, a := range sub {
		for _, b := range sub {
			if b.Sign() <= 0 {
				continue
			}
			for _, cc := range sub {
				for _, d := range sub {
					if d.Sign() <= 0 {
						continue
					}
					r1, r2 := c33Int(a).Ration(c33Int(b)), c33Int(cc).Ration(c33Int(d))
					want := new(big.Int).Mul(a, d).Cmp(new(big.Int).Mul(cc, b))
					args := fmt.Sprintf("%s/%s,%s/%s", a, b, cc, d)
					check("RatCmp", args, false, big.NewInt(int64(want)), call(func() *big.Int { return big.NewInt(int64(r1.Cmp(r2))) }))
				}
			}
		}
	}
	// Mul / Div by scalars
	scalars := []int{math.MinInt, -1, 0, 1, 2, 3, 7, 100, 100000000, math.MaxInt}
	for _, xb := range vals {
		x := c33Int(xb)
		for _, k := range scalars {
			args := fmt.Sprintf("%s,%d", xb, k)
			must := xb.Sign() < 0 || k <= 0
			var wm, wd *big.Int
			if !must {
				wm = new(big.Int).Mul(xb, big.NewInt(int64(k)))
				wd = new(big.Int).Div(xb, big.NewInt(int64(k)))
			}
			check("Mul", args, must, wm, call(func() *big.Int { v := x.Mul(k); return &v.i }))
			check("Div", args, must, wd, call(func() *big.Int { v := x.Div(k); return &v.i }))
		}
	}
	// NewInteger
	for _, u := range []uint64{0, 1, 2, 184467440737, 184467440738, math.MaxUint32, math.MaxInt64, math.MaxUint64} {
		want := new(big.Int).Mul(new(big.Int).SetUint64(u), big.NewInt(100000000))
		check("NewInteger", fmt.Sprint(u), false, want, call(func() *big.Int { v := NewInteger(u); return &v.i }))
	}

	// ---- strings: parse -> value, print -> normalized, reparse, JSON ----
	intParts := []string{"", "0", "1", "9", "10", "007", "123456789012345678901234567890"}
	maxFrac := verifmc.Pick(c, 8, 9)
	digits := []byte{'0', '1', '9'}
	var fracs []string
	fracs = append(fracs, "")
	for l, prev := 1, []string{""}; l <= maxFrac; l++ {
		var cur []string
		for _, p := range prev {
			for _, d := range digits {
				cur = append(cur, p+string(d))
			}
		}
		fracs = append(fracs, cur...)
		prev = cur
	}
	prefixes := []string{"", "+", "-"}
	exps := []struct {
		s string
		e int
	}{{"", 0}, {"e2", 2}, {"e-2", -2}, {"E1", 1}}
	dots := []bool{true, false}
	ten := big.NewInt(10)
	type job struct{ ip, pf, ex int }
	var jobs []job
	for ip := range intParts {
		for pf := range prefixes {
			for ex := range exps {
				jobs = append(jobs, job{ip, pf, ex})
			}
		}
	}
	c.ParallelN(len(jobs), "string product", func(_, ji int) {
		j := jobs[ji]
		ip, pf, ex := intParts[j.ip], prefixes[j.pf], exps[j.ex]
		for _, fr := range fracs {
			for _, dot := range dots {
				if !dot && fr != "" {
					continue
				}
				if ip == "" && fr == "" {
					continue // no digits at all: not a number in any grammar; decoder behaviour unspecified
				}
				s := pf + ip
				if dot {
					s += "." + fr
				}
				s += ex.s
				// exact value = (ip.fr) * 10^e ; units = floor(value * 1e8)
				num, _ := new(big.Int).SetString("0"+ip+fr, 10)
				shift := 8 + ex.e - len(fr)
				var units *big.Int
				if shift >= 0 {
					units = new(big.Int).Mul(num, new(big.Int).Exp(ten, big.NewInt(int64(shift)), nil))
				} else {
					units = new(big.Int).Div(num, new(big.Int).Exp(ten, big.NewInt(int64(-shift)), nil))
				}
				negative := pf == "-" && num.Sign() != 0
				var got Integer
				p := verifmc.Catch(func() { got = NewIntegerFromString(s) })
				c.Eval(1)
				c.Distinct("str|" + s)
				if negative {
					if p == nil {
						c.Violation("parse:negative-accepted", fmt.Sprintf("NewIntegerFromString(%q) accepted a negative amount as %s", s, got.String()), s)
					}
					c.Outcome("parse:reject-negative")
					continue
				}
				if p != nil {
					// the statement's grammar is "decimal text"; the decoder being stricter on
					// exotic shapes is informational only
					c.Stricter("parse refuses " + pf + "<int>" + map[bool]string{true: ".", false: ""}[dot] + "<frac>" + ex.s)
					c.Outcome("parse:stricter")
					continue
				}
				c.Outcome("parse:ok")
				if got.i.Cmp(units) != 0 {
					c.Violation("parse:value", fmt.Sprintf("NewIntegerFromString(%q) = %s units, exact floor is %s", s, got.i.String(), units.String()), s)
					continue
				}
				out := got.String()
				// normalized text: integer digits without leading zeros, '.', exactly 8 digits
				us := units.String()
				for len(us) < 9 {
					us = "0" + us
				}
				norm := us[:len(us)-8] + "." + us[len(us)-8:]
				if out != norm {
					c.Violation("print:normalized", fmt.Sprintf("String() of %s units = %q, normalized text is %q", units, out, norm), s)
					continue
				}
				var back Integer
				if p := verifmc.Catch(func() { back = NewIntegerFromString(out) }); p != nil || back.Cmp(got) != 0 {
					c.Violation("print:reparse", fmt.Sprintf("%q does not reparse to itself", out), s)
				}
				if ji%7 == 0 && len(fr) <= 3 {
					b, err := json.Marshal(got)
					var jb Integer
					if err != nil || json.Unmarshal(b, &jb) != nil || jb.Cmp(got) != 0 || string(b) != `"`+norm+`"` {
						c.Violation("json:roundtrip", fmt.Sprintf("JSON round trip of %q failed: %s", norm, b), s)
					}
				}
			}
		}
	})
	// print of every menu value (non-negative), including values < 1e-8 boundary
	for _, xb := range vals {
		if xb.Sign() < 0 {
			continue
		}
		x := c33Int(xb)
		out := x.String()
		c.Eval(1)
		i := strings.IndexByte(out, '.')
		if i < 1 || len(out)-i-1 != 8 {
			c.Violation("print:normalized", fmt.Sprintf("String() of %s units = %q lacks exactly 8 fraction digits", xb, out), xb.String())
			continue
		}
		if back := NewIntegerFromString(out); back.Cmp(x) != 0 {
			c.Violation("print:reparse", fmt.Sprintf("%q reparses to %s", out, back.i.String()), xb.String())
		}
	}
	c.Sample(map[string]any{"op": "Count", "x": vals[13].String(), "y": "1", "expect": "panic (quotient 2^64*10^4 does not fit uint64)"})
	c.Sample(map[string]any{"string": "-007.019e-2", "expect": "panic (negative)"})
	c.Sample(map[string]any{"string": "123456789012345678901234567890.999999999E1", "expect": "units floor"})
	c.Require(c.OutcomeCount("parse:ok") > 1000 && c.OutcomeCount("Count:reject") > 0 && c.OutcomeCount("Count:ok") > 0, "vacuous C33 run")
}
