//go:build verif

package common

import (
	"bytes"
	"encoding/binary"
	"encoding/hex"
	"fmt"
	"math"
	"sort"
	"strings"
	"sync"
	"testing"

	"github.com/MixinNetwork/mixin/crypto"
	"github.com/MixinNetwork/mixin/verifmc"
)

// C07 — snapshot encoding is canonical and the snapshot hash commits the payload.
//
// Bounded-exhaustive enumeration (E1):
//  (A) full product of snapshot field menus, written by an independent raw
//      reference writer (so that structurally invalid shapes the real encoder
//      refuses — 0 / 256 transactions, duplicates, decreasing order, round-zero
//      shapes, zero mask followed by a signature body — reach the decoder too),
//      and, where the real encoder accepts the structure, by the real encoder;
//  (B) for every accepted encoding of a seed set: every truncation, every
//      extension by 1..9 bytes over a byte alphabet, every single-byte
//      substitution by every other value.
// Oracle on every accepted byte string: structural rules of the statement,
// bytes == VersionedMarshal(decoded) or that minus its 8-byte suffix when the
// decoded topology is 0. PayloadHash: injective on the payload tuple, constant
// over signature / topology.

type c07Fields struct {
	ver   byte
	node  crypto.Hash
	round uint64
	refs  *RoundLink
	txs   []crypto.Hash
	ts    uint64
	sig   int // 0 none (mask 0), 1 mask 0 followed by a 64-byte body, 2 mask != 0 + body
	topo  int // 0 absent, 1 -> 0, 2 -> 1, 3 -> 2^64-1
}

var c07TopoVals = []uint64{0, 0, 1, math.MaxUint64}

const c07SigMask = uint64(0x0b)

func c07Hash(fill byte) crypto.Hash {
	var h crypto.Hash
	for i := range h {
		h[i] = fill
	}
	return h
}

func c07SigBody() crypto.Signature {
	var s crypto.Signature
	for i := range s {
		s[i] = byte(0xa0 + i%16)
	}
	return s
}

// c07Raw is the independent reference writer of the documented layout.
func c07Raw(f *c07Fields) []byte {
	b := []byte{0x77, 0x77, 0x00, f.ver}
	b = append(b, f.node[:]...)
	b = binary.BigEndian.AppendUint64(b, f.round)
	if f.refs == nil {
		b = append(b, 0, 0)
	} else {
		b = append(b, 0, 2)
		b = append(b, f.refs.Self[:]...)
		b = append(b, f.refs.External[:]...)
	}
	b = binary.BigEndian.AppendUint16(b, uint16(len(f.txs)))
	for _, t := range f.txs {
		b = append(b, t[:]...)
	}
	b = binary.BigEndian.AppendUint64(b, f.ts)
	body := c07SigBody()
	switch f.sig {
	case 0:
		b = binary.BigEndian.AppendUint64(b, 0)
	case 1:
		b = binary.BigEndian.AppendUint64(b, 0)
		b = append(b, body[:]...)
	case 2:
		b = binary.BigEndian.AppendUint64(b, c07SigMask)
		b = append(b, body[:]...)
	}
	if f.topo != 0 {
		b = binary.BigEndian.AppendUint64(b, c07TopoVals[f.topo])
	}
	return b
}

func c07StrictlyIncreasing(txs []crypto.Hash) bool {
	for i := 1; i < len(txs); i++ {
		if bytes.Compare(txs[i-1][:], txs[i][:]) >= 0 {
			return false
		}
	}
	return true
}

// c07StatementValid: the structure is one the statement allows to be accepted
// when written in canonical (sorted) form.
func c07StatementValid(f *c07Fields) bool {
	if f.ver != SnapshotVersionCommonEncoding || f.sig == 1 {
		return false
	}
	n := len(f.txs)
	if n < 1 || n > 255 || !c07StrictlyIncreasing(f.txs) {
		return false
	}
	if f.round == 0 {
		return n == 1 && f.refs == nil
	}
	return f.refs != nil
}

func c07PayloadTuple(ver byte, node crypto.Hash, round uint64, refs *RoundLink, txs []crypto.Hash, ts uint64) string {
	sorted := append([]crypto.Hash{}, txs...)
	sort.Slice(sorted, func(i, j int) bool { return bytes.Compare(sorted[i][:], sorted[j][:]) < 0 })
	var sb strings.Builder
	fmt.Fprintf(&sb, "v%d|n%x|r%d|", ver, node[:], round)
	if refs == nil {
		sb.WriteString("refs-|")
	} else {
		fmt.Fprintf(&sb, "refs(%x,%x)|", refs.Self[:], refs.External[:])
	}
	fmt.Fprintf(&sb, "t%d[", len(sorted))
	for _, t := range sorted {
		fmt.Fprintf(&sb, "%x,", t[:])
	}
	fmt.Fprintf(&sb, "]|ts%d", ts)
	return sb.String()
}

var c07ErrClasses = []string{
	"EOF", "data short", "invalid version", "invalid snapshot version", "invalid references count",
	"invalid transactions count", "non-canonical snapshot transaction order", "invalid transactions",
	"no references for snapshot round", "unexpected ending", "large int",
}

func c07ErrClass(err error) string {
	s := err.Error()
	for _, p := range c07ErrClasses {
		if strings.HasPrefix(s, p) {
			return strings.ReplaceAll(p, " ", "-")
		}
	}
	return "other"
}

// c07Judge runs the decoder on b and applies the acceptance oracle. It returns
// the outcome class and, for a failing accepted input, the canonical violation
// key and a description ("" when the input is fine).
func c07Judge(b []byte) (outcome, key, desc string, dec *SnapshotWithTopologicalOrder) {
	var err error
	if p := verifmc.Catch(func() { dec, err = UnmarshalVersionedSnapshot(b) }); p != nil {
		return "reject:panic", "", "", nil
	}
	if err != nil {
		return "reject:" + c07ErrClass(err), "", "", nil
	}
	if dec == nil || dec.Snapshot == nil {
		return "accept", "decode:nil-result", "decoder returned no error and no snapshot", nil
	}
	s := dec.Snapshot
	n := len(s.Transactions)
	// structural rules of the statement (before re-encoding: the encoder sorts in place)
	switch {
	case s.Version != SnapshotVersionCommonEncoding:
		return "accept", "structure:version", fmt.Sprintf("accepted snapshot version %d", s.Version), dec
	case n < 1 || n > 255:
		return "accept", "structure:tx-count", fmt.Sprintf("accepted snapshot with %d transactions (allowed 1..255)", n), dec
	case !c07StrictlyIncreasing(s.Transactions):
		return "accept", "structure:tx-order", fmt.Sprintf("accepted snapshot whose %d transaction hashes are not strictly increasing", n), dec
	case s.RoundNumber == 0 && (n != 1 || s.References != nil):
		return "accept", "structure:round0", fmt.Sprintf("accepted round-zero snapshot with %d transactions, references present=%v", n, s.References != nil), dec
	case s.RoundNumber != 0 && s.References == nil:
		return "accept", "structure:no-references", fmt.Sprintf("accepted round %d snapshot without references", s.RoundNumber), dec
	}
	var enc []byte
	if p := verifmc.Catch(func() { enc = dec.VersionedMarshal() }); p != nil {
		return "accept", "accept:unencodable", fmt.Sprintf("accepted snapshot cannot be encoded: %v", p), dec
	}
	if len(enc) < 8 {
		return "accept", "accept:unencodable", "encoding shorter than its topology suffix", dec
	}
	base := enc[:len(enc)-8]
	switch {
	case bytes.Equal(b, enc):
		return "accept:with-topology", "", "", dec
	case bytes.Equal(b, base) && dec.TopologicalOrder == 0:
		return "accept:no-suffix", "", "", dec
	case len(b) > len(base) && len(b) < len(enc) && bytes.Equal(b[:len(base)], base):
		return "accept", "decode:partial-topology-suffix",
			fmt.Sprintf("decoder accepts the suffix-less encoding (%d bytes) followed by %d trailing byte(s) %x: neither a full 8-byte topology suffix nor none; decoded topology=%d",
				len(base), len(b)-len(base), b[len(base):], dec.TopologicalOrder), dec
	case len(b) > len(enc) && bytes.Equal(b[:len(enc)], enc):
		return "accept", "decode:trailing-bytes",
			fmt.Sprintf("decoder accepts the full encoding (%d bytes) followed by %d extra byte(s) %x", len(enc), len(b)-len(enc), b[len(enc):]), dec
	case bytes.Equal(b, base):
		return "accept", "decode:suffixless-with-topology",
			fmt.Sprintf("accepted bytes carry no suffix but decoded topology is %d", dec.TopologicalOrder), dec
	}
	return "accept", "decode:non-canonical",
		fmt.Sprintf("accepted %d bytes differ from the %d-byte encoding of the decoded snapshot (and from that minus its suffix)", len(b), len(enc)), dec
}

type c07Finding struct {
	ord, desc, how string
	b              []byte
}

func c07Replay(b []byte, how string) map[string]any {
	return map[string]any{"how": how, "len": len(b), "bytes_hex": hex.EncodeToString(b),
		"call": "common.UnmarshalVersionedSnapshot(bytes); compare with VersionedMarshal() of the result"}
}

// c07Finalized evaluates the hash oracle on a finalized-looking object: Hash
// field set to its own PayloadHash and a signature attached. The hash must not
// depend on the Hash field, the signature, the topology wrapper or a
// marshal/decode round trip, and after every in-place change of one payload
// field it must equal the hash of a fresh unsigned struct with the same fields
// (and differ from the old one).
func c07Finalized(c *verifmc.Check, f *c07Fields, name string, fresh crypto.Hash, checks, muts *int64) {
	build := func() *Snapshot {
		return &Snapshot{Version: f.ver, NodeId: f.node, RoundNumber: f.round, References: f.refs,
			Transactions: append([]crypto.Hash{}, f.txs...), Timestamp: f.ts}
	}
	hashOf := func(s *Snapshot) (h crypto.Hash, ok bool) {
		ok = verifmc.Catch(func() { h = s.PayloadHash() }) == nil
		return
	}
	same := func(what string, s *Snapshot) {
		*checks++
		c.Eval(1)
		if h, ok := hashOf(s); !ok || h != fresh {
			c.Outcome("finalized:VIOLATING")
			c.Violation("hash:depends-on-signature-hash-field-or-topology",
				fmt.Sprintf("%s: finalized-looking object (%s) hashes to %s (ok=%v), a fresh unsigned struct with the same payload hashes to %s", name, what, h, ok, fresh),
				map[string]any{"case": name, "variant": what})
			return
		}
		c.Outcome("finalized:hash-stable")
	}
	fin := build()
	fin.Hash = fresh
	fin.Signature = &crypto.CosiSignature{Mask: c07SigMask, Signature: c07SigBody()}
	same("Hash=PayloadHash, signature attached", fin)
	fin.Signature = &crypto.CosiSignature{Mask: c07SigMask ^ 0xff00, Signature: c07SigBody()}
	same("other signature mask", fin)
	fin.Hash = c07Hash(0x5e)
	same("Hash field holds an unrelated value", fin)
	fin.Hash = fresh
	topo := &SnapshotWithTopologicalOrder{Snapshot: fin, TopologicalOrder: c07TopoVals[f.topo]}
	same("through the topology wrapper", topo.Snapshot)
	var enc []byte
	if verifmc.Catch(func() { enc = topo.VersionedMarshal() }) == nil {
		if dec, err := UnmarshalVersionedSnapshot(enc); err == nil {
			same("own marshalled and decoded bytes", dec.Snapshot)
			dec.Hash = fresh
			same("decoded bytes with Hash field set", dec.Snapshot)
		}
	}

	other := c07Hash(0x7d)
	type mutation struct {
		field string
		apply func(s *Snapshot)
	}
	mutations := []mutation{
		{"node", func(s *Snapshot) { s.NodeId[31] ^= 0x01 }},
		{"round+1", func(s *Snapshot) { s.RoundNumber++ }},
		{"round^high", func(s *Snapshot) { s.RoundNumber ^= 1 << 63 }},
		{"timestamp+1", func(s *Snapshot) { s.Timestamp++ }},
		{"timestamp^high", func(s *Snapshot) { s.Timestamp ^= 1 << 63 }},
		{"references.self", func(s *Snapshot) {
			if s.References != nil {
				s.References = &RoundLink{Self: other, External: s.References.External}
			} else {
				s.References = &RoundLink{Self: other, External: other}
			}
		}},
		{"references.external", func(s *Snapshot) {
			if s.References != nil {
				s.References = &RoundLink{Self: s.References.Self, External: other}
			} else {
				s.References = &RoundLink{External: other}
			}
		}},
		{"references->nil", func(s *Snapshot) { s.References = nil }},
		{"transactions[0]", func(s *Snapshot) { s.Transactions[0][0] ^= 0x80 }},
		{"transactions[last]", func(s *Snapshot) { s.Transactions[len(s.Transactions)-1][31] ^= 0x01 }},
		{"transactions+1", func(s *Snapshot) { s.Transactions = append(s.Transactions, other) }},
		{"transactions-1", func(s *Snapshot) { s.Transactions = s.Transactions[:len(s.Transactions)-1] }},
	}
	for _, m := range mutations {
		ref := build()
		m.apply(ref)
		want, ok := hashOf(ref) // fresh, unsigned, Hash field zero
		if !ok {
			continue // the changed structure is one the encoder refuses (e.g. round 0 with 2 transactions)
		}
		obj := build()
		obj.Hash = fresh
		obj.Signature = &crypto.CosiSignature{Mask: c07SigMask, Signature: c07SigBody()}
		m.apply(obj)
		got, gok := hashOf(obj)
		*muts++
		c.Eval(1)
		c.Distinct("finalized|" + name + "|" + m.field)
		switch {
		case want == fresh:
			if f.refs == nil && m.field == "references->nil" {
				continue // no change
			}
			c.Outcome("finalized:VIOLATING")
			c.Violation("hash:payload-field-ignored", fmt.Sprintf("%s: changing %s does not change the PayloadHash of a fresh unsigned struct", name, m.field),
				map[string]any{"case": name, "field": m.field})
		case !gok || got != want:
			c.Outcome("finalized:VIOLATING")
			c.Violation("hash:does-not-follow-payload",
				fmt.Sprintf("%s: after Hash = PayloadHash(), attaching a signature and changing %s in place, PayloadHash() = %s (ok=%v); stale value %s, a fresh struct with the same fields hashes to %s", name, m.field, got, gok, fresh, want),
				map[string]any{"case": name, "field": m.field, "recipe": "s.Hash = s.PayloadHash(); s.Signature = sig; mutate field; s.PayloadHash() must equal the hash of a fresh struct"})
		default:
			c.Outcome("finalized:hash-follows-payload")
		}
	}
}

func TestMC_C07(t *testing.T) {
	c := verifmc.Start(t, "C07", "exploration")
	defer c.Finish()
	thorough := c.Thorough()
	c.SetRule("(A) full product version{2} x node{2} x round{0,1,2^64-1} x references{nil,pair,pair'} x transaction lists{all 40 sequences of length 0..3 over 3 hashes, 255 and 256 increasing hashes} x timestamp{0,1,2^64-1} x signature{none, mask 0 + body, mask!=0 + body} x topology{absent,0,1,2^64-1}, written by a raw reference writer and (where it accepts) by the real encoder; (B) for each accepted seed encoding every truncation, every extension by 1..9 bytes over the byte alphabet, every single-byte substitution by all 255 other values. A byte-level case is counted distinct by (seed, mutation kind, position, outcome class); a structure case by its field tuple")
	c.Assume("raw reference writer follows the layout of common/encoding.go (cross-checked byte-for-byte against the real encoder on every structure the real encoder accepts in sorted form)",
		"only version 2 exists in this tree, so hash sensitivity to the version is exercised only through the version byte substitution (all other versions must be refused)",
		"a decoder panic is counted as a refusal (outcome reject:panic), the statement speaks about accepted inputs only",
		"in-memory transaction order is not part of the payload (the encoder sorts), so the payload tuple uses the sorted list")

	h := []crypto.Hash{c07Hash(0x11), c07Hash(0x22), c07Hash(0x33)}
	h[1][31] = 0x23 // not a pure fill: order is decided on the first byte, last byte differs too
	long := func(n int) []crypto.Hash {
		out := make([]crypto.Hash, n)
		for i := range out {
			out[i] = c07Hash(0x44)
			binary.BigEndian.PutUint16(out[i][:2], uint16(0x4000+i))
		}
		return out
	}
	var lists [][]crypto.Hash
	verifmc.Sequences(3, 0, 3, func(s []int) bool {
		l := make([]crypto.Hash, len(s))
		for i, d := range s {
			l[i] = h[d]
		}
		lists = append(lists, l)
		return true
	})
	lists = append(lists, long(255), long(256))
	nodes := []crypto.Hash{c07Hash(0xc1), c07Hash(0xc2)}
	rounds := []uint64{0, 1, math.MaxUint64}
	refs := []*RoundLink{nil, {Self: c07Hash(0xe1), External: c07Hash(0xe2)}, {Self: c07Hash(0xe1), External: c07Hash(0xe3)}}
	tss := []uint64{0, 1, math.MaxUint64}

	type seed struct {
		b    []byte
		f    c07Fields
		long bool
	}
	var seeds []seed
	hashOf := map[crypto.Hash]string{} // PayloadHash -> payload tuple
	tupleHash := map[string]crypto.Hash{}
	var accepted, rejected, structInvalidRejected, realEncoded, realRefused int64
	byteOutcomes := map[string]int64{}
	var finalizedChecks, finalizedMutations int64

	report := func(key, desc string, b []byte, how string) {
		c.Violation(key, desc, c07Replay(b, how))
	}

	radices := []int{len(nodes), len(rounds), len(refs), len(lists), len(tss), 3, 4}
	verifmc.Product(radices, func(d []int) bool {
		f := c07Fields{ver: SnapshotVersionCommonEncoding, node: nodes[d[0]], round: rounds[d[1]], refs: refs[d[2]],
			txs: lists[d[3]], ts: tss[d[4]], sig: d[5], topo: d[6]}
		name := fmt.Sprintf("node%d round=%d refs=%d txlist#%d(len %d) ts=%d sig=%d topo=%d", d[0], f.round, d[2], d[3], len(f.txs), f.ts, f.sig, f.topo)
		valid := c07StatementValid(&f)
		raw := c07Raw(&f)
		c.Eval(1)
		c.Distinct("struct|" + name)
		out, key, desc, dec := c07Judge(raw)
		c.Outcome("struct:" + out)
		if key != "" {
			report(key, "raw structure "+name+": "+desc, raw, "structure product, raw writer: "+name)
		}
		if strings.HasPrefix(out, "accept") {
			accepted++
			if !valid && key == "" {
				// accepted and canonical but the harness' validity table says the shape is forbidden
				report("structure:table-mismatch", "raw structure "+name+" accepted although the statement's structural rules forbid it", raw, name)
			}
			if key == "" && valid {
				// fidelity of the decoded fields against the reference writer's input
				s := dec.Snapshot
				same := s.NodeId == f.node && s.RoundNumber == f.round && s.Timestamp == f.ts && len(s.Transactions) == len(f.txs) &&
					(s.References == nil) == (f.refs == nil) && dec.TopologicalOrder == c07TopoVals[f.topo] &&
					(s.Signature == nil) == (f.sig == 0)
				if same && f.refs != nil {
					same = *s.References == *f.refs
				}
				if same && s.Signature != nil {
					same = s.Signature.Mask == c07SigMask && s.Signature.Signature == c07SigBody()
				}
				for i := 0; same && i < len(f.txs); i++ {
					same = s.Transactions[i] == f.txs[i]
				}
				if !same {
					report("decode:field-mismatch", "raw structure "+name+": decoded fields differ from the written fields although the re-encoding matches", raw, name)
				}
				if (thorough || (d[0] == 0 && d[4] == 1)) && (len(f.txs) < 255 || thorough || d[1] == 1 && d[2] == 1) {
					seeds = append(seeds, seed{b: raw, f: f, long: len(f.txs) >= 255})
				}
			}
		} else {
			rejected++
			if valid {
				c.Stricter("decoder refuses a structurally valid canonical encoding: " + out)
			} else {
				structInvalidRejected++
			}
		}

		// real encoder leg (cannot express "mask 0 + body" nor "absent")
		if f.sig != 1 && f.topo != 0 {
			s := &Snapshot{Version: f.ver, NodeId: f.node, RoundNumber: f.round, References: f.refs,
				Transactions: append([]crypto.Hash{}, f.txs...), Timestamp: f.ts}
			if f.sig == 2 {
				s.Signature = &crypto.CosiSignature{Mask: c07SigMask, Signature: c07SigBody()}
			}
			topo := &SnapshotWithTopologicalOrder{Snapshot: s, TopologicalOrder: c07TopoVals[f.topo]}
			var enc []byte
			c.Eval(1)
			if p := verifmc.Catch(func() { enc = topo.VersionedMarshal() }); p != nil {
				realRefused++
				c.Outcome("encode:refused")
			} else {
				realEncoded++
				c.Outcome("encode:ok")
				if valid {
					c.Require(bytes.Equal(enc, raw), "reference writer and real encoder disagree on %s", name)
				}
				o2, k2, d2, _ := c07Judge(enc)
				c.Outcome("real:" + o2)
				if k2 != "" {
					report(k2, "real encoding of "+name+": "+d2, enc, "VersionedMarshal of "+name)
				}
			}
			// payload hash
			s2 := &Snapshot{Version: f.ver, NodeId: f.node, RoundNumber: f.round, References: f.refs,
				Transactions: append([]crypto.Hash{}, f.txs...), Timestamp: f.ts, Signature: s.Signature}
			var ph crypto.Hash
			c.Eval(1)
			if p := verifmc.Catch(func() { ph = s2.PayloadHash() }); p == nil {
				c.Outcome("hash:ok")
				tuple := c07PayloadTuple(f.ver, f.node, f.round, f.refs, f.txs, f.ts)
				if old, ok := hashOf[ph]; ok && old != tuple {
					c.Violation("hash:collision", fmt.Sprintf("PayloadHash %s is shared by different payloads: %s and %s", ph, old, tuple),
						map[string]any{"a": old, "b": tuple})
				}
				hashOf[ph] = tuple
				if old, ok := tupleHash[tuple]; ok && old != ph {
					c.Violation("hash:depends-on-signature-or-topology", fmt.Sprintf("payload %s hashes to %s and to %s depending on signature / topology / in-memory order (%s)", tuple, old, ph, name),
						map[string]any{"payload": tuple, "case": name})
				}
				tupleHash[tuple] = ph
				c07Finalized(c, &f, name, ph, &finalizedChecks, &finalizedMutations)
			} else {
				c.Outcome("hash:refused")
			}
		}
		return true
	})
	c.Set("finalized_object_hash_checks", finalizedChecks)
	c.Set("finalized_object_field_mutations", finalizedMutations)
	c.Require(finalizedChecks > 10000 && finalizedMutations > 10000, "finalized-object hash oracle not exercised: %d checks, %d mutations", finalizedChecks, finalizedMutations)
	c.Set("structure_cases", verifmc.ProductSize(radices))
	c.Set("structure_accepted", accepted)
	c.Set("structure_rejected", rejected)
	c.Set("real_encoder_accepted", realEncoded)
	c.Set("real_encoder_refused", realRefused)
	c.Set("distinct_payload_hashes", len(hashOf))
	c.Set("byte_level_seeds", len(seeds))
	c.Require(accepted > 100 && structInvalidRejected > 1000, "vacuous structure product: accepted=%d invalid-rejected=%d", accepted, structInvalidRejected)
	c.Require(len(hashOf) > 100 && len(hashOf) == len(tupleHash), "payload hash coverage: %d hashes for %d tuples", len(hashOf), len(tupleHash))
	c.Require(len(seeds) >= 100, "too few byte-level seeds: %d", len(seeds))

	// ---- (B) byte level ----
	extAlphabet := verifmc.Pick(c, []byte{0x00, 0x01}, []byte{0x00, 0x01, 0xff})
	var mu sync.Mutex
	var byteCases, byteAccepted int64
	findBest := map[string]c07Finding{} // per key the failing case with the smallest order: independent of worker timing
	findCount := map[string]int64{}
	c.ParallelN(len(seeds), "byte-level mutation of seeds", func(_, si int) {
		sd := seeds[si]
		n := len(sd.b)
		local := map[string]int64{}
		keys := map[string]struct{}{}
		var cases, acc int64
		judge := func(b []byte, kind string, pos int, how func() string) {
			out, key, desc, _ := c07Judge(b)
			cases++
			if key != "" {
				out = "VIOLATING-" + key
				ord := fmt.Sprintf("%05d|%s|%06d|%x", si, kind, pos, b[max(0, len(b)-9):])
				mu.Lock()
				findCount[key]++
				if old, ok := findBest[key]; !ok || ord < old.ord {
					findBest[key] = c07Finding{ord: ord, desc: desc + " [" + how() + "]", b: append([]byte{}, b...), how: how()}
				}
				mu.Unlock()
			}
			if strings.HasPrefix(out, "accept") {
				acc++
			}
			local[kind+":"+out]++
			keys[fmt.Sprintf("%d|%s|%d|%s", si, kind, pos, out)] = struct{}{}
		}
		// truncations: every proper prefix
		for l := 0; l < n; l++ {
			judge(sd.b[:l], "trunc", l, func() string { return fmt.Sprintf("seed %d truncated to %d of %d bytes", si, l, n) })
		}
		// extensions by 1..9 bytes over the alphabet
		for k := 1; k <= 9; k++ {
			rad := make([]int, k)
			for i := range rad {
				rad[i] = len(extAlphabet)
			}
			buf := make([]byte, n+k)
			copy(buf, sd.b)
			verifmc.Product(rad, func(d []int) bool {
				for i, x := range d {
					buf[n+i] = extAlphabet[x]
				}
				judge(buf, "extend", k, func() string { return fmt.Sprintf("seed %d (%d bytes) extended by %x", si, n, buf[n:]) })
				return true
			})
		}
		// single-byte substitutions
		buf := append([]byte{}, sd.b...)
		headLen := 4 + 32 + 8 + 2 + 64 + 2 + 64 // up to and including the second transaction hash
		tailLen := 32 + 8 + 8 + 64 + 8          // last transaction hash and everything after it
		for p := 0; p < n; p++ {
			if sd.long && !(thorough && sd.f.node == nodes[0] && sd.f.ts == 1) && p >= headLen && p < n-tailLen {
				continue // long lists: the middle hashes are parsed by the same loop iteration
			}
			orig := buf[p]
			for v := 0; v < 256; v++ {
				if byte(v) == orig {
					continue
				}
				buf[p] = byte(v)
				judge(buf, "subst", p, func() string { return fmt.Sprintf("seed %d byte %d: %02x -> %02x", si, p, orig, v) })
			}
			buf[p] = orig
		}
		c.Eval(cases)
		for k := range keys {
			c.Distinct(k)
		}
		mu.Lock()
		byteCases += cases
		byteAccepted += acc
		for k, v := range local {
			byteOutcomes[k] += v
		}
		mu.Unlock()
		for k := range local {
			c.Outcome("seeds-with:" + k) // counted per seed; per-case counts are in byte_level_outcome_counts
		}
		if si < 300 && si%50 == 0 {
			c.Sample(map[string]any{"seed": si, "len": n, "seed_hex": verifmc.Hex(sd.b), "mutants": cases, "accepted_mutants": acc})
		}
	})
	{
		keys := make([]string, 0, len(findBest))
		for k := range findBest {
			keys = append(keys, k)
		}
		sort.Strings(keys)
		for _, k := range keys {
			f := findBest[k]
			for n := int64(0); n < findCount[k]; n++ { // one call per failing case keeps the known-finding case count honest
				report(k, f.desc, f.b, f.how)
			}
		}
	}
	c.Set("byte_level_cases", byteCases)
	c.Set("byte_level_accepted", byteAccepted)
	c.Set("byte_level_outcome_counts", byteOutcomes)
	c.Set("extension_alphabet", fmt.Sprintf("%x", extAlphabet))
	c.Require(byteAccepted > 1000 && byteCases-byteAccepted > 1000, "vacuous byte level: %d accepted of %d", byteAccepted, byteCases)
	c.Require(byteOutcomes["trunc:accept:no-suffix"] > 0, "no truncation reached the suffix-less form")
	c.Require(byteOutcomes["extend:accept:with-topology"] > 0, "no extension of a suffix-less seed reached the full form")
}
