//go:build verif

package common

import (
	"bytes"
	"crypto/sha256"
	"encoding/json"
	"fmt"
	"math/big"
	"strings"
	"sync"
	"testing"

	"github.com/MixinNetwork/mixin/crypto"
	"github.com/MixinNetwork/mixin/util/base58"
	"github.com/MixinNetwork/mixin/verifmc"
)

// C32 — one-time keys and addresses round-trip correctly.
// Bounded-exhaustive enumeration (E1):
//   (a) every (address seed x mask seed x output index of the uvarint boundary
//       menu): sender/recipient derivation agreement, view recovery, and the
//       pairwise negative cases (other index / other mask / other view key);
//   (b) print -> parse of every Key / Hash / Signature / CosiSignature / Address
//       of the pool, string and JSON forms;
//   (c) the address string mutation sweep: every position x every base58
//       alphabet character + a few non-alphabet ones, every truncation, single
//       deletions, appended characters, leading '1' insertions, alternate
//       checksum recipes, alternate prefixes, structurally invalid keys with a
//       correct checksum. Oracle direction of (c): a string that is ACCEPTED
//       must print back identically; rejection is never an alarm.

const c32Alphabet = "123456789ABCDEFGHJKLMNPQRSTUVWXYZabcdefghijkmnopqrstuvwxyz"

func c32Seed(label string) []byte {
	a := crypto.Blake3Hash([]byte("verif-c32-a:" + label))
	b := crypto.Blake3Hash([]byte("verif-c32-b:" + label))
	return append(a[:], b[:]...)
}

// c32Indexes is the complete uvarint length boundary menu of uint64 plus the
// byte / word boundaries named in DESIGN.md.
func c32Indexes() []uint64 {
	set := map[uint64]bool{0: true, 1: true, 2: true, 7: true, 255: true, 256: true, 65535: true, 65536: true,
		1<<32 - 1: true, 1 << 32: true, 1<<63 - 1: true, 1 << 63: true, 1<<64 - 1: true}
	for k := uint(1); k <= 9; k++ {
		set[1<<(7*k)-1] = true
		set[1<<(7*k)] = true
	}
	var out []uint64
	for v := range set {
		out = append(out, v)
	}
	for i := range out { // insertion sort: deterministic order
		for j := i; j > 0 && out[j-1] > out[j]; j-- {
			out[j-1], out[j] = out[j], out[j-1]
		}
	}
	return out
}

func c32UvarintLen(v uint64) int {
	n := 1
	for v >= 0x80 {
		v >>= 7
		n++
	}
	return n
}

type c32Acct struct {
	label string
	a     Address
}

type c32Mask struct {
	label string
	r, R  crypto.Key
}

// c32Encode builds prefix + base58(keys || checksum) for the structured mutants.
func c32Encode(prefix string, data64 []byte, checksum []byte) string {
	d := append(append([]byte{}, data64...), checksum...)
	return prefix + base58.Encode(d)
}

func TestMC_C32(t *testing.T) {
	c := verifmc.Start(t, "C32", "exploration")
	defer c.Finish()
	c.SetRule("full product address seed x mask seed x uvarint-boundary index menu (agreement + all pairwise negatives: every other index of the menu, every other mask, every other address' view key); print/parse of every pool value in string and JSON form; per printed address every position x 64 replacement characters, every prefix/suffix truncation, every single deletion, 64 appended characters, '1' insertions, 50+ alternate checksum recipes, alternate prefixes, invalid-key payloads with a correct checksum; a case is distinct by (address,mask,index[,other]) or by the literal string")
	c.Assume("the negative derivation cases and the rejection of structurally altered strings rely on 2^-32 (checksum) resp. 2^-250 (scalar) collision bounds only for their OUTCOME COUNTS; the alarm for strings is raised solely when an accepted string does not print back identically, which no collision can cause",
		"edwards25519 scalar/point arithmetic (filippo.io/edwards25519) and encoding/hex, encoding/json are trusted")

	nAddr := verifmc.Pick(c, 6, 16)
	nMask := verifmc.Pick(c, 4, 8)
	nSweep := verifmc.Pick(c, 6, 16)
	idx := c32Indexes()
	c.Set("index_menu", fmt.Sprint(idx))

	var accts []c32Acct
	for i := 0; i < nAddr; i++ {
		l := fmt.Sprintf("addr-%d", i)
		accts = append(accts, c32Acct{l, NewAddressFromSeedInternalVanish(c32Seed(l))})
	}
	// an address whose spend key encodes with a leading zero byte (base58 '1' digit
	// at the front): first hit among seeds 0..4095, deterministic
	var lz *c32Acct
	lzHits := 0
	for i := 0; i < 4096; i++ {
		l := fmt.Sprintf("lz-%d", i)
		a := NewAddressFromSeedInternalVanish(c32Seed(l))
		if a.PublicSpendKey[0] == 0 {
			lzHits++
			if lz == nil {
				lz = &c32Acct{l, a}
			}
		}
	}
	c.Set("leading_zero_seeds_found", lzHits)
	c.Require(lz != nil, "no address with a leading zero spend key byte among seeds 0..4095")
	if lz == nil {
		return
	}
	accts = append(accts, *lz)
	capped := false

	// addresses whose printed base58 body ENDS in a run of '1' (zero digits): the
	// 68-byte payload is 0 modulo 58^k. Deterministic search over pairs of a spend
	// key pool x a view key pool (the checksum depends on both); the modulus is
	// tested arithmetically, only hits are printed. Spend keys with a small first
	// byte (92-character body) come first.
	crafted, craftedInfo := c32TrailingOnes(verifmc.Pick(c, 1200, 2000))
	c.Set("trailing_one_addresses", craftedInfo)
	var masks []c32Mask
	for i := 0; i < nMask; i++ {
		l := fmt.Sprintf("mask-%d", i)
		r := crypto.NewKeyFromSeed(c32Seed(l))
		masks = append(masks, c32Mask{l, r, r.Public()})
	}

	// pools for the print/parse part
	var poolMu sync.Mutex
	keyPool := map[crypto.Key]bool{}
	sigPool := map[crypto.Signature]bool{}
	addKey := func(ks ...crypto.Key) {
		poolMu.Lock()
		for _, k := range ks {
			keyPool[k] = true
		}
		poolMu.Unlock()
	}
	addSig := func(s crypto.Signature) { poolMu.Lock(); sigPool[s] = true; poolMu.Unlock() }

	// ---------------- (a) derivation ----------------
	type pair struct{ ai, mi int }
	var pairs []pair
	for ai := range accts {
		for mi := range masks {
			pairs = append(pairs, pair{ai, mi})
		}
	}
	msg := crypto.Blake3Hash([]byte("c32 spend message"))
	capped = !c.ParallelN(len(pairs), "derivation product", func(_, pi int) {
		ac, mk := accts[pairs[pi].ai], masks[pairs[pi].mi]
		A, B := ac.a.PublicViewKey, ac.a.PublicSpendKey
		a, b := ac.a.PrivateViewKey, ac.a.PrivateSpendKey
		r, R := mk.r, mk.R
		addKey(A, B, a, b, r, R)
		for _, i := range idx {
			replay := map[string]any{"address_seed_label": ac.label, "mask_seed_label": mk.label, "index": fmt.Sprint(i), "seed_fn": "blake3('verif-c32-a:'+label)||blake3('verif-c32-b:'+label)"}
			cls := fmt.Sprintf("uvarint%d", c32UvarintLen(i))
			var P, p, V, PV *crypto.Key
			if pv := verifmc.Catch(func() {
				P = crypto.DeriveGhostPublicKey(&r, &A, &B, i)
				p = crypto.DeriveGhostPrivateKey(&R, &a, &b, i)
				V = crypto.ViewGhostOutputKey(P, &a, &R, i)
				PV = crypto.DeriveGhostPublicKeyForInternalVanish(&r, &A, &B, i)
			}); pv != nil {
				c.Violation("derive:panic:"+cls, fmt.Sprintf("derivation panicked for valid keys at index %d: %v", i, pv), replay)
				continue
			}
			c.Eval(1)
			c.Distinct(fmt.Sprintf("derive|%s|%s|%d", ac.label, mk.label, i))
			addKey(*P, *p)
			ok := true
			if p.Public() != *P {
				ok = false
				c.Violation("derive:pub-priv-mismatch:"+cls, fmt.Sprintf("index %d: sender one-time key %s != Public() of recipient's one-time private key %s", i, P, p.Public()), replay)
			}
			if *V != B {
				ok = false
				c.Violation("derive:view-mismatch:"+cls, fmt.Sprintf("index %d: ViewGhostOutputKey gives %s, public spend key is %s", i, V, B), replay)
			}
			if *PV != *P {
				ok = false
				c.Violation("derive:vanish-variant-mismatch:"+cls, fmt.Sprintf("index %d: DeriveGhostPublicKeyForInternalVanish differs", i), replay)
			}
			sig := p.Sign(msg)
			addSig(sig)
			if ok && !P.Verify(msg, sig) {
				ok = false
				c.Violation("derive:spend-signature:"+cls, fmt.Sprintf("index %d: signature by the recipient's one-time private key does not verify under the sender's one-time public key", i), replay)
			}
			if ok {
				c.Outcome("derive:agree:" + cls)
			} else {
				c.Outcome("derive:DISAGREE")
			}
			// negatives: other index
			for _, j := range idx {
				if j == i {
					continue
				}
				var V2, p2 *crypto.Key
				verifmc.Catch(func() {
					V2 = crypto.ViewGhostOutputKey(P, &a, &R, j)
					p2 = crypto.DeriveGhostPrivateKey(&R, &a, &b, j)
				})
				c.Eval(1)
				c.Distinct(fmt.Sprintf("neg-index|%s|%s|%d|%d", ac.label, mk.label, i, j))
				if V2 != nil && p2 != nil && (*V2 == B || p2.Public() == *P) {
					c.Outcome("neg:index-COLLIDES")
					rp := map[string]any{"base": replay, "other_index": fmt.Sprint(j)}
					c.Violation(fmt.Sprintf("derive:index-not-bound:%s-vs-uvarint%d", cls, c32UvarintLen(j)), fmt.Sprintf("one-time key of index %d is also recovered/owned with index %d", i, j), rp)
				} else {
					c.Outcome("neg:index-differs")
				}
			}
			// negatives: other mask
			for mj, om := range masks {
				if mj == pairs[pi].mi {
					continue
				}
				oR := om.R
				var V2 *crypto.Key
				verifmc.Catch(func() { V2 = crypto.ViewGhostOutputKey(P, &a, &oR, i) })
				c.Eval(1)
				c.Distinct(fmt.Sprintf("neg-mask|%s|%s|%d|%s", ac.label, mk.label, i, om.label))
				if V2 != nil && *V2 == B {
					c.Outcome("neg:mask-COLLIDES")
					c.Violation("derive:mask-not-bound", fmt.Sprintf("index %d: spend key recovered with a different mask", i), map[string]any{"base": replay, "other_mask": om.label})
				} else {
					c.Outcome("neg:mask-differs")
				}
			}
			// negatives: other view key (another account scanning the output)
			for aj, oa := range accts {
				if aj == pairs[pi].ai {
					continue
				}
				oa := oa
				var V2 *crypto.Key
				verifmc.Catch(func() { V2 = crypto.ViewGhostOutputKey(P, &oa.a.PrivateViewKey, &R, i) })
				c.Eval(1)
				c.Distinct(fmt.Sprintf("neg-view|%s|%s|%d|%s", ac.label, mk.label, i, oa.label))
				if V2 != nil && (*V2 == B || *V2 == oa.a.PublicSpendKey) {
					c.Outcome("neg:view-COLLIDES")
					c.Violation("derive:view-not-bound", fmt.Sprintf("index %d: another account's view key recovers a spend key", i), map[string]any{"base": replay, "other_address": oa.label})
				} else {
					c.Outcome("neg:view-differs")
				}
			}
		}
	}) || capped

	// ---------------- (b) print / parse ----------------
	patterns := [][32]byte{{}, {}, {}, {}}
	for i := range patterns[1] {
		patterns[1][i] = 0xff
	}
	patterns[2][31] = 1 // leading zero bytes must survive
	patterns[3][0] = 0x0a
	patterns[3][1] = 0xbc
	for _, p := range patterns {
		keyPool[crypto.Key(p)] = true
	}
	var keys []crypto.Key
	for k := range keyPool {
		keys = append(keys, k)
	}
	for _, k := range keys {
		s := k.String()
		c.Eval(1)
		c.Distinct("key|" + s)
		back, err := crypto.KeyFromString(s)
		var jb crypto.Key
		j, jerr := json.Marshal(k)
		var uerr error
		if jerr == nil {
			uerr = json.Unmarshal(j, &jb)
		}
		if err != nil || back != k || len(s) != 64 {
			c.Outcome("key:ROUNDTRIP-FAIL")
			c.Violation("key:string-roundtrip", fmt.Sprintf("Key %x prints %q, parses back to %x err=%v", k[:], s, back[:], err), s)
		} else if jerr != nil || uerr != nil || jb != k || string(j) != `"`+s+`"` {
			c.Outcome("key:JSON-FAIL")
			c.Violation("key:json-roundtrip", fmt.Sprintf("Key %x JSON %s back %x err=%v/%v", k[:], j, jb[:], jerr, uerr), s)
		} else {
			c.Outcome("key:roundtrip")
		}
		// hashes: the same 32 bytes as a Hash, and a digest of them
		for _, h := range []crypto.Hash{crypto.Hash(k), crypto.Sha256Hash(k[:]), crypto.Blake3Hash(k[:])} {
			hs := h.String()
			c.Eval(1)
			c.Distinct("hash|" + hs)
			hb, err := crypto.HashFromString(hs)
			var hj crypto.Hash
			j, jerr := json.Marshal(h)
			var uerr error
			if jerr == nil {
				uerr = json.Unmarshal(j, &hj)
			}
			if err != nil || hb != h || len(hs) != 64 {
				c.Outcome("hash:ROUNDTRIP-FAIL")
				c.Violation("hash:string-roundtrip", fmt.Sprintf("Hash %x prints %q parses to %x err=%v", h[:], hs, hb[:], err), hs)
			} else if jerr != nil || uerr != nil || hj != h || string(j) != `"`+hs+`"` {
				c.Outcome("hash:JSON-FAIL")
				c.Violation("hash:json-roundtrip", fmt.Sprintf("Hash %x JSON %s back %x", h[:], j, hj[:]), hs)
			} else {
				c.Outcome("hash:roundtrip")
			}
		}
	}
	// malformed hex for key/hash parsers: informational outcome classes only
	{
		base := keys[0].String()
		for l := 0; l <= 68; l++ {
			s := base
			if l <= 64 {
				s = base[:l]
			} else {
				s = base + strings.Repeat("a", l-64)
			}
			c.Eval(1)
			_, e1 := crypto.KeyFromString(s)
			_, e2 := crypto.HashFromString(s)
			if (e1 == nil || e2 == nil) && l != 64 {
				c.Outcome("hex:accepts-wrong-length")
				c.Set("hex_parser_accepts_length", l)
			} else if l == 64 {
				c.Outcome("hex:accept")
			} else {
				c.Outcome("hex:reject-length")
			}
		}
	}
	var sigs []crypto.Signature
	for s := range sigPool {
		sigs = append(sigs, s)
	}
	{
		var z, f, lzs crypto.Signature
		for i := range f {
			f[i] = 0xff
		}
		lzs[63] = 7
		sigs = append(sigs, z, f, lzs)
	}
	cosiMasks := []uint64{0, 1, 0xf, 0xffffffff, 1 << 32, 1 << 63, 1<<64 - 1, 0x0123456789abcdef, 0x00000000000000a0}
	for _, s := range sigs {
		ss := s.String()
		c.Eval(1)
		c.Distinct("sig|" + ss)
		var sb crypto.Signature
		j, jerr := json.Marshal(s)
		var uerr error
		if jerr == nil {
			uerr = json.Unmarshal(j, &sb)
		}
		if jerr != nil || uerr != nil || sb != s || string(j) != `"`+ss+`"` || len(ss) != 128 {
			c.Outcome("sig:JSON-FAIL")
			c.Violation("signature:json-roundtrip", fmt.Sprintf("Signature %s JSON %s back %s err=%v/%v", ss, j, sb, jerr, uerr), ss)
		} else {
			c.Outcome("sig:roundtrip")
		}
		for _, m := range cosiMasks {
			cs := crypto.CosiSignature{Signature: s, Mask: m}
			str := cs.String()
			c.Eval(1)
			c.Distinct("cosi|" + str)
			var cb crypto.CosiSignature
			j, jerr := json.Marshal(cs)
			var uerr error
			if jerr == nil {
				uerr = json.Unmarshal(j, &cb)
			}
			var pj []byte
			if uerr == nil {
				pj, _ = json.Marshal(&cb)
			}
			if jerr != nil || uerr != nil || cb.Signature != s || cb.Mask != m || !bytes.Equal(pj, j) {
				c.Outcome("cosi:JSON-FAIL")
				c.Violation(fmt.Sprintf("cosi:json-roundtrip:mask-bits%d", 64-c32LeadingZeros(m)), fmt.Sprintf("CosiSignature mask %#x prints %s, parses to mask %#x (err %v/%v)", m, j, cb.Mask, jerr, uerr), map[string]any{"signature": ss, "mask": fmt.Sprintf("%#x", m)})
			} else {
				c.Outcome("cosi:roundtrip")
			}
		}
	}

	// addresses: string and JSON forms of every pool element (and of the crafted trailing-'1' addresses)
	for _, ac := range append(append([]c32Acct{}, accts...), crafted...) {
		s := ac.a.String()
		c.Eval(1)
		c.Distinct("addr|" + s)
		back, err := NewAddressFromString(s)
		if err != nil || back.PublicSpendKey != ac.a.PublicSpendKey || back.PublicViewKey != ac.a.PublicViewKey {
			c.Outcome("addr:ROUNDTRIP-FAIL")
			c.Violation("address:string-roundtrip", fmt.Sprintf("address %s (seed %s) does not parse back to itself: %v", s, ac.label, err), map[string]any{"seed_label": ac.label, "string": s})
			continue
		}
		if back.String() != s {
			c.Outcome("addr:ROUNDTRIP-FAIL")
			c.Violation("address:accepted-prints-differently:own-print", fmt.Sprintf("%s prints back as %s", s, back.String()), s)
			continue
		}
		j, jerr := json.Marshal(ac.a)
		var jb Address
		var uerr error
		if jerr == nil {
			uerr = json.Unmarshal(j, &jb)
		}
		if jerr != nil || uerr != nil || string(j) != `"`+s+`"` || jb.PublicSpendKey != ac.a.PublicSpendKey || jb.PublicViewKey != ac.a.PublicViewKey || jb.PrivateSpendKey.HasValue() || jb.PrivateViewKey.HasValue() {
			c.Outcome("addr:JSON-FAIL")
			c.Violation("address:json-roundtrip", fmt.Sprintf("address %s JSON %s err=%v/%v", s, j, jerr, uerr), s)
			continue
		}
		c.Outcome("addr:roundtrip")
	}

	// base58 on its own: decode(encode(b)) == b with 0..4 leading zero bytes, lengths 0..70
	for _, ac := range accts[:2] {
		d := append(append([]byte{}, ac.a.PublicSpendKey[:]...), ac.a.PublicViewKey[:]...)
		d = append(d, 1, 2, 3, 4, 5, 6)
		for l := 0; l <= len(d); l++ {
			for z := 0; z <= 4 && z <= l; z++ {
				b := append([]byte{}, d[:l]...)
				for i := 0; i < z; i++ {
					b[i] = 0
				}
				e := base58.Encode(b)
				c.Eval(1)
				c.Distinct("b58|" + e)
				if got := base58.Decode(e); !bytes.Equal(got, b) {
					c.Outcome("b58:ROUNDTRIP-FAIL")
					c.Violation(fmt.Sprintf("base58:roundtrip:zeros%d", z), fmt.Sprintf("base58 %x -> %q -> %x", b, e, got), fmt.Sprintf("%x", b))
				} else {
					c.Outcome("b58:roundtrip")
				}
			}
		}
	}

	// base58 structure: strings built from 10-character chunk patterns (Decode works
	// on chunks of ten digits): full product of <=3 full chunks x every partial tail
	// length 0..9 x tail patterns. base58 is a bijection between alphabet strings
	// and byte strings (leading '1' <-> leading zero byte), so Encode(Decode(s)) == s.
	{
		chunkPats := []string{"1111111111", "1111111112", "2111111111", "zzzzzzzzzz", "3mJr7AoUXx", "11111z1111"}
		nChunks := verifmc.Pick(c, 3, 4)
		var heads []string
		level := []string{""}
		heads = append(heads, "")
		for k := 1; k <= nChunks; k++ {
			var next []string
			for _, h := range level {
				for _, p := range chunkPats {
					next = append(next, h+p)
				}
			}
			heads = append(heads, next...)
			level = next
		}
		tailSet := map[string]bool{"": true}
		for l := 1; l <= 9; l++ {
			tailSet[strings.Repeat("1", l)] = true
			tailSet[strings.Repeat("1", l-1)+"2"] = true
			tailSet["2"+strings.Repeat("1", l-1)] = true
			tailSet[strings.Repeat("z", l)] = true
			tailSet["3mJr7AoUXx"[:l]] = true
			tailSet["1z1111111"[:l]] = true
		}
		var tails []string
		for t := range tailSet {
			tails = append(tails, t)
		}
		c.Set("base58_chunk_strings", len(heads)*len(tails))
		for _, h := range heads {
			if c.Expired("base58 chunk strings") {
				capped = true
				break
			}
			for _, t := range tails {
				str := h + t
				c.Eval(1)
				c.Distinct("b58s|" + str)
				d := base58.Decode(str)
				back := base58.Encode(d)
				if back != str {
					c.Outcome("b58s:ROUNDTRIP-FAIL")
					cls := "inner-zero-chunk"
					if strings.Trim(t, "1") == "" && t != "" {
						cls = "trailing-zero-chunk"
					}
					c.Violation("base58:string-roundtrip:"+cls, fmt.Sprintf("base58.Encode(base58.Decode(%q)) = %q (decoded %x)", str, back, d), map[string]any{"string": str})
				} else {
					c.Outcome("b58s:roundtrip")
				}
			}
		}
		// bytes with zero runs at every offset: lengths 0..12 completely, 68-byte payloads with runs {1,2,4,8,16}
		bytesCase := func(b []byte, kind string) {
			e := base58.Encode(b)
			c.Eval(1)
			c.Distinct("b58z|" + string(b))
			if got := base58.Decode(e); !bytes.Equal(got, b) {
				c.Outcome("b58:ROUNDTRIP-FAIL")
				c.Violation("base58:roundtrip:"+kind, fmt.Sprintf("base58 %x -> %q -> %x", b, e, got), fmt.Sprintf("%x", b))
			} else {
				c.Outcome("b58:roundtrip")
			}
		}
		for l := 0; l <= 12; l++ {
			for _, bg := range []byte{0xff, 0x01, 0x3a} {
				for o := 0; o <= l; o++ {
					for r := 0; o+r <= l; r++ {
						b := bytes.Repeat([]byte{bg}, l)
						for i := o; i < o+r; i++ {
							b[i] = 0
						}
						bytesCase(b, "zero-run")
					}
				}
			}
		}
		pay := append(append([]byte{}, accts[0].a.PublicSpendKey[:]...), accts[0].a.PublicViewKey[:]...)
		pay = append(pay, 9, 8, 7, 6)
		for o := 0; o < len(pay); o++ {
			for _, r := range []int{1, 2, 4, 8, 16} {
				if o+r > len(pay) {
					continue
				}
				b := append([]byte{}, pay...)
				for i := o; i < o+r; i++ {
					b[i] = 0
				}
				bytesCase(b, "zero-run-68")
			}
		}
		// payloads that are multiples of 58^k (body ends in k '1' digits), k = 1..12, with 0..2 leading zero bytes
		for k := 1; k <= 12; k++ {
			m := new(big.Int).Exp(big.NewInt(58), big.NewInt(int64(k)), nil)
			for _, mult := range []int64{1, 57, 58, 59, 3363} {
				v := new(big.Int).Mul(m, big.NewInt(mult))
				for z := 0; z <= 2; z++ {
					bytesCase(append(make([]byte, z), v.Bytes()...), "multiple-of-58^k")
				}
			}
		}
	}

	// ---------------- (c) address string mutation sweep ----------------
	// oracle: accepted => prints back identically
	try := func(kind, s string, replay any) {
		c.Eval(1)
		if !c.Distinct("mut|" + s) {
			return
		}
		var a Address
		var err error
		if pv := verifmc.Catch(func() { a, err = NewAddressFromString(s) }); pv != nil {
			c.Outcome("mut:PANIC")
			c.Violation("address:parse-panic:"+kind, fmt.Sprintf("NewAddressFromString(%q) panicked: %v", s, pv), replay)
			return
		}
		if err != nil {
			c.Outcome("mut:reject:" + strings.ReplaceAll(err.Error(), " ", "-"))
			return
		}
		out := a.String()
		if out != s {
			c.Outcome("mut:ACCEPT-noncanonical")
			c.Violation("address:accepted-prints-differently:"+kind, fmt.Sprintf("NewAddressFromString accepts %q, which prints back as %q", s, out), replay)
			return
		}
		c.Outcome("mut:accept-canonical")
	}
	extra := []string{"0", "O", "I", "l", " ", "é", "\x00", "\xff"}
	var repl []string
	for _, ch := range c32Alphabet {
		repl = append(repl, string(ch))
	}
	repl = append(repl, extra...)
	c.Set("replacement_characters", len(repl))

	sweep := append([]c32Acct{}, accts[:min(nSweep, nAddr)]...)
	sweep = append(sweep, *lz)
	sweep = append(sweep, crafted...)
	for _, ac := range sweep {
		if c.Expired("address mutation sweep") {
			capped = true
			break
		}
		s := ac.a.String()
		try("identity", s, s)
		// runs of 1..10 '1' characters inserted at EVERY offset of the body (this covers
		// every 10-character chunk boundary of the decoder and its neighbours)
		for pos := 3; pos <= len(s); pos++ {
			for n := 1; n <= 10; n++ {
				kind := "insert-1-run"
				if (pos-3)%10 == 0 {
					kind = "insert-1-run-chunk-aligned"
				}
				try(kind, s[:pos]+strings.Repeat("1", n)+s[pos:], map[string]any{"base": s, "insert_at": pos, "ones": n})
			}
		}
		for pos := 0; pos < len(s); pos++ {
			for _, ch := range repl {
				if s[pos:pos+1] == ch {
					continue
				}
				m := s[:pos] + ch + s[pos+1:]
				try(fmt.Sprintf("substitute-%s", c32Region(pos, len(s))), m, map[string]any{"base": s, "pos": pos, "char": ch})
			}
			try("delete", s[:pos]+s[pos+1:], map[string]any{"base": s, "delete_pos": pos})
			try("truncate-tail", s[:pos], map[string]any{"base": s, "keep_prefix": pos})
			if pos > 0 {
				try("truncate-head", s[pos:], map[string]any{"base": s, "drop_prefix": pos})
				try("truncate-head-reprefixed", MainAddressPrefix+s[pos:], map[string]any{"base": s, "drop_prefix": pos, "reprefixed": true})
			}
			if pos+1 < len(s) && s[pos] != s[pos+1] {
				m := s[:pos] + s[pos+1:pos+2] + s[pos:pos+1] + s[pos+2:]
				try("transpose", m, map[string]any{"base": s, "transpose_pos": pos})
			}
		}
		for _, ch := range repl {
			try("append", s+ch, map[string]any{"base": s, "append": ch})
		}
		for n := 1; n <= 3; n++ {
			ones := strings.Repeat("1", n)
			try("insert-1-after-prefix", MainAddressPrefix+ones+s[3:], map[string]any{"base": s, "ones_after_prefix": n})
			try("insert-1-front", ones+s, map[string]any{"base": s, "ones_at_front": n})
		}
		if s[3] == '1' {
			try("strip-leading-1", MainAddressPrefix+s[4:], map[string]any{"base": s, "strip_leading_one": true})
		}

		// alternate checksum recipes over the same 64 key bytes
		data := append(append([]byte{}, ac.a.PublicSpendKey[:]...), ac.a.PublicViewKey[:]...)
		pre := []byte(MainAddressPrefix)
		realCS := crypto.Sha256Hash(append(append([]byte{}, pre...), data...))
		type recipe struct {
			name string
			cs   []byte
		}
		s2 := sha256.Sum256(append(append([]byte{}, pre...), data...))
		s2d := sha256.Sum256(s2[:])
		s2n := sha256.Sum256(data)
		noPre := crypto.Sha256Hash(data)
		b3 := crypto.Blake3Hash(append(append([]byte{}, pre...), data...))
		b3n := crypto.Blake3Hash(data)
		spendOnly := crypto.Sha256Hash(append(append([]byte{}, pre...), data[:32]...))
		post := crypto.Sha256Hash(append(append([]byte{}, data...), pre...))
		rs := []recipe{
			{"sha3-without-prefix", noPre[:4]}, {"sha3-prefix-appended", post[:4]}, {"sha3-bytes-4-8", realCS[4:8]}, {"sha3-last4", realCS[28:]},
			{"sha2-with-prefix", s2[:4]}, {"sha2-double", s2d[:4]}, {"sha2-without-prefix", s2n[:4]},
			{"blake3-with-prefix", b3[:4]}, {"blake3-without-prefix", b3n[:4]}, {"sha3-spend-only", spendOnly[:4]},
			{"zero", []byte{0, 0, 0, 0}}, {"ff", []byte{255, 255, 255, 255}},
			{"reversed", []byte{realCS[3], realCS[2], realCS[1], realCS[0]}},
			{"short3", realCS[:3]}, {"long5", realCS[:5]}, {"none", nil},
		}
		for bit := 0; bit < 32; bit++ {
			cs := append([]byte{}, realCS[:4]...)
			cs[bit/8] ^= 1 << (bit % 8)
			rs = append(rs, recipe{fmt.Sprintf("bitflip-byte%d", bit/8), cs})
		}
		for _, r := range rs {
			try("checksum-"+r.name, c32Encode(MainAddressPrefix, data, r.cs), map[string]any{"base": s, "checksum_recipe": r.name})
		}
		// alternate prefixes, checksum computed over that prefix and over the real one
		for _, p := range []string{"", "xin", "XIM", "XI", "XINXIN", "XIN ", " XIN", "BTC"} {
			alt := crypto.Sha256Hash(append([]byte(p), data...))
			try("prefix-own-checksum", c32Encode(p, data, alt[:4]), map[string]any{"base": s, "prefix": p, "checksum": "over-own-prefix"})
			try("prefix-real-checksum", c32Encode(p, data, realCS[:4]), map[string]any{"base": s, "prefix": p, "checksum": "over-XIN"})
		}
		// correct checksum over structurally invalid keys
		bad := c32BadPoints()
		for bi, bp := range bad {
			for side := 0; side < 2; side++ {
				d := append([]byte{}, data...)
				copy(d[side*32:], bp[:])
				cs := crypto.Sha256Hash(append(append([]byte{}, pre...), d...))
				try(fmt.Sprintf("invalid-key-side%d", side), c32Encode(MainAddressPrefix, d, cs[:4]), map[string]any{"base": s, "bad_point": bi, "side": side})
			}
		}
	}
	// pure junk
	for _, s := range []string{"", "X", "XI", "XIN", "XIN1", "XIN" + strings.Repeat("1", 68), "XIN" + strings.Repeat("1", 93), "XIN" + strings.Repeat("z", 93), "XIN" + strings.Repeat("z", 200), strings.Repeat("é", 40)} {
		try("junk", s, s)
	}

	c.Sample(map[string]any{"derive": map[string]any{"address_seed_label": accts[0].label, "mask_seed_label": masks[0].label, "index": "4294967296"}, "expect": "P == p.Public(), View == B"})
	c.Sample(map[string]any{"address": accts[0].a.String(), "expect": "parses back, prints identically"})
	c.Sample(map[string]any{"leading_zero_address": lz.a.String(), "seed_label": lz.label})
	c.Sample(map[string]any{"mutant": accts[0].a.String()[:20] + "0" + accts[0].a.String()[21:], "expect": "rejected (or, if accepted, prints back identically)"})
	c.Sample(map[string]any{"cosi": crypto.CosiSignature{Signature: sigs[0], Mask: 0xa0}.String(), "expect": "JSON round trip keeps mask 0xa0"})

	if capped {
		return // wall-clock cap: partial enumeration, no completeness guards (run is reported exhaustive:false)
	}
	c.Require(len(crafted) >= 4, "trailing-'1' address search found only %d of the wanted shapes: %v", len(crafted), craftedInfo)
	nIdx := int64(len(idx))
	nPairs := int64(len(pairs))
	c.Require(c.OutcomeCount("neg:index-differs") == nPairs*nIdx*(nIdx-1) || c.Violations() > 0, "negative index cases incomplete: %d", c.OutcomeCount("neg:index-differs"))
	var agree int64
	for l := 1; l <= 10; l++ {
		n := c.OutcomeCount(fmt.Sprintf("derive:agree:uvarint%d", l))
		c.Require(n > 0 || c.Violations() > 0, "no agreeing derivation with a %d-byte index encoding", l)
		agree += n
	}
	c.Require(agree == nPairs*nIdx || c.Violations() > 0, "derivation product incomplete: %d of %d", agree, nPairs*nIdx)
	c.Require(c.OutcomeCount("mut:accept-canonical") >= int64(len(sweep)) || c.Violations() > 0, "no accepted address string")
	c.Require(c.OutcomeCount("mut:reject:invalid-address-checksum") > 1000 && c.OutcomeCount("mut:reject:invalid-address-format") > 100 && c.OutcomeCount("mut:reject:invalid-address-network") > 100, "mutation sweep did not reach the checksum/format/network rejections")
	c.Require(c.OutcomeCount("mut:reject:invalid-address-public-spend-key") > 0 && c.OutcomeCount("mut:reject:invalid-address-public-view-key") > 0, "invalid-key payloads with a correct checksum never reached the key checks")
	c.Require(c.OutcomeCount("cosi:roundtrip") > 0 && c.OutcomeCount("key:roundtrip") > 100 && c.OutcomeCount("sig:roundtrip") > 10 || c.Violations() > 0, "print/parse pools are empty")
}

func c32LeadingZeros(m uint64) int {
	n := 0
	for b := uint64(1) << 63; b != 0 && m&b == 0; b >>= 1 {
		n++
	}
	return n
}

func c32Region(pos, n int) string {
	switch {
	case pos < 3:
		return "prefix"
	case pos == 3:
		return "first-digit"
	case pos >= n-6:
		return "checksum-tail"
	default:
		return "body"
	}
}

// c32BadPoints: byte strings that are not acceptable public keys (small order,
// non-canonical, not on the curve) — and one that is.
func c32BadPoints() [][32]byte {
	var out [][32]byte
	var id, zero, yp, ff, two [32]byte
	id[0] = 1 // identity (order 1)
	// y = p (non-canonical encoding of y = 0)
	for i := range yp {
		yp[i] = 0xff
	}
	yp[0], yp[31] = 0xed, 0x7f
	for i := range ff {
		ff[i] = 0xff
	}
	two[0] = 2
	// order-2 point (0,-1): y = p-1
	var o2 [32]byte
	for i := range o2 {
		o2[i] = 0xff
	}
	o2[0], o2[31] = 0xec, 0x7f
	out = append(out, id, zero, yp, ff, two, o2)
	return out
}

// c32TrailingOnes searches pairs (spend key i, view key j) of two deterministic
// pools of n keys for printed addresses whose base58 body ends in exactly 1, 2
// and 3 '1' characters, for the 93-character body and (ends in 1 / 2) for the
// 92-character body. First hit per shape in i-major order.
func c32TrailingOnes(n int) ([]c32Acct, []string) {
	type k struct {
		label string
		priv  crypto.Key
		pub   crypto.Key
		mod   uint64
	}
	const M = 58 * 58 * 58
	bm := big.NewInt(M)
	shift := func(pub crypto.Key, bits uint) uint64 {
		v := new(big.Int).SetBytes(pub[:])
		v.Lsh(v, bits)
		return v.Mod(v, bm).Uint64()
	}
	var small, normal, views []k
	for i := 0; i < n; i++ {
		ls, lv := fmt.Sprintf("sfx-spend-%d", i), fmt.Sprintf("sfx-view-%d", i)
		sp := crypto.NewKeyFromSeed(c32Seed(ls))
		vp := crypto.NewKeyFromSeed(c32Seed(lv))
		ks := k{ls, sp, sp.Public(), 0}
		ks.mod = shift(ks.pub, 288)
		kv := k{lv, vp, vp.Public(), 0}
		kv.mod = shift(kv.pub, 32)
		if ks.pub[0] <= 7 {
			small = append(small, ks)
		} else {
			normal = append(normal, ks)
		}
		views = append(views, kv)
	}
	want := map[string]bool{"93/1": true, "93/2": true, "93/3": true, "92/1": true, "92/2": true}
	var out []c32Acct
	var info []string
	buf := make([]byte, 0, 3+64)
	for _, sp := range append(small, normal...) {
		if len(want) == 0 {
			break
		}
		for _, vw := range views {
			buf = append(append(append(buf[:0], MainAddressPrefix...), sp.pub[:]...), vw.pub[:]...)
			cs := crypto.Sha256Hash(buf)
			tot := (sp.mod + vw.mod + uint64(cs[0])<<24 + uint64(cs[1])<<16 + uint64(cs[2])<<8 + uint64(cs[3])) % M
			if tot%58 != 0 {
				continue
			}
			a := Address{PrivateSpendKey: sp.priv, PrivateViewKey: vw.priv, PublicSpendKey: sp.pub, PublicViewKey: vw.pub}
			body := a.String()[3:]
			ones := len(body) - len(strings.TrimRight(body, "1"))
			shape := fmt.Sprintf("%d/%d", len(body), ones)
			if want[shape] {
				delete(want, shape)
				out = append(out, c32Acct{"trailing-ones:" + sp.label + "+" + vw.label, a})
				info = append(info, fmt.Sprintf("body-len/trailing-ones=%s seeds=%s+%s %s", shape, sp.label, vw.label, a.String()))
			}
		}
	}
	return out, info
}
