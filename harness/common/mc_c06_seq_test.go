//go:build verif

package common

import (
	"bytes"
	"encoding/hex"
	"fmt"
	"slices"

	"github.com/MixinNetwork/mixin/crypto"
	"github.com/MixinNetwork/mixin/verifmc"
)

// C06, part "history": the observable results of PayloadMarshal, PayloadHash,
// Marshal and decode(Marshal()) on ONE object must not depend on which of these
// operations were called before. Every operation sequence up to a depth is
// enumerated on a fresh subject and every step is compared with the value
// computed on independent fresh objects before any operation ran.
//
// C06, part "aggregate boundary": aggregated signer lists at the sizes around
// the decoder's slice limits, in dense (ordinary mask) and spaced (sparse
// mask) form, as produced by the real encoder.

var c06AggSizes = []int{1, 2, 255, 256, 257, 258, 1000}
var c06AggSteps = []int{1, 16, 17, 64} // 1,16 -> ordinary mask; 17,64 -> sparse list (for the larger sizes)

func c06AggSigners(size, step int) []int {
	s := make([]int, size)
	for i := range s {
		s[i] = i * step
	}
	return s
}

// c06AggBoundaryProduct is appended to the structure products (full round trip
// through checkTx).
func c06AggBoundaryProduct() *c06Product {
	return &c06Product{name: "aggregate-boundary", radices: []int{len(c06AggSizes), len(c06AggSteps), 2}, build: func(d []int) *SignedTransaction {
		tx := c06NewTx(0xa5)
		if d[2] == 1 {
			tx.Inputs = []*Input{c06Input(0, 0)}
			tx.Outputs = []*Output{c06Output(c06OutID(0, 1, 1, 1, 1, 0))}
			tx.Extra = []byte{0xff, 0xff}
		}
		tx.AggregatedSignature = &AggregatedSignature{Signers: c06AggSigners(c06AggSizes[d[0]], c06AggSteps[d[1]]), Signature: *c06Sig(0xa9, 2)}
		return tx
	}}
}

// c06AggDirect drives EncodeAggregatedSignature / ReadAggregatedSignature directly.
func c06AggDirect(c *verifmc.Check, st *c06State) {
	var sparse, ordinary int64
	for si, size := range c06AggSizes {
		for ti, step := range c06AggSteps {
			signers := c06AggSigners(size, step)
			name := fmt.Sprintf("aggregate signers size=%d step=%d", size, step)
			ord := fmt.Sprintf("0|9|%04d|%04d", si, ti)
			replay := map[string]any{"size": size, "step": step, "call": "EncodeAggregatedSignature then ReadAggregatedSignature"}
			c.Eval(1)
			c.Distinct("aggdirect|" + name)
			js := &AggregatedSignature{Signers: slices.Clone(signers), Signature: *c06Sig(0xa9, 3)}
			var enc []byte
			if pv := verifmc.Catch(func() {
				e := NewEncoder()
				e.EncodeAggregatedSignature(js)
				enc = e.Bytes()
			}); pv != nil {
				c.Outcome("aggregate:encode-refused")
				c.Stricter(fmt.Sprintf("encoder refuses %s: %v", name, pv))
				continue
			}
			if len(enc) < 4+64+1 {
				st.found.add("aggregate:short-encoding", ord, name+": encoding too short", replay)
				continue
			}
			switch enc[4+64] {
			case AggregatedSignatureSparseMask:
				sparse++
				c.Outcome("aggregate:sparse")
			default:
				ordinary++
				c.Outcome("aggregate:ordinary")
			}
			dec, err := NewDecoder(enc[4:]).ReadAggregatedSignature()
			if err != nil {
				st.found.add("aggregate:own-encoding-rejected", ord, fmt.Sprintf("%s: ReadAggregatedSignature refuses the encoder's output: %v", name, err), replay)
				continue
			}
			if !slices.Equal(dec.Signers, signers) || dec.Signature != js.Signature {
				st.found.add("aggregate:signers-mismatch", ord,
					fmt.Sprintf("%s: ReadAggregatedSignature returns %d signers (last %v), encoded %d signers (last %d)", name, len(dec.Signers), dec.Signers[max(0, len(dec.Signers)-1):], len(signers), signers[len(signers)-1]), replay)
				continue
			}
			re := NewEncoder()
			re.EncodeAggregatedSignature(dec)
			if !bytes.Equal(re.Bytes(), enc) {
				st.found.add("aggregate:reencode-differs", ord, name+": decoded aggregate re-encodes to different bytes", replay)
			}
		}
	}
	c.Set("aggregate_direct_sparse", sparse)
	c.Set("aggregate_direct_ordinary", ordinary)
	c.Require(sparse >= 8 && ordinary >= 8, "aggregate boundary menu must reach both mask kinds: sparse=%d ordinary=%d", sparse, ordinary)
}

// ---------- history independence ----------

const (
	c06OpPayloadMarshal = iota
	c06OpPayloadHash
	c06OpMarshal
	c06OpRoundTrip
	c06OpCount
)

var c06OpNames = []string{"PayloadMarshal", "PayloadHash", "Marshal", "Unmarshal(Marshal)"}

type c06SeqTx struct {
	name  string
	build func() *SignedTransaction
}

func c06SeqMenu() []c06SeqTx {
	frames := []struct {
		name string
		mk   func() *SignedTransaction
	}{
		{"empty", func() *SignedTransaction { return c06NewTx(0xa5) }},
		{"populated", func() *SignedTransaction {
			tx := c06NewTx(0xa6)
			tx.Inputs = []*Input{c06Input(0, 0), c06Input(3, 1)}
			tx.Outputs = []*Output{c06Output(c06OutID(1, 3, 2, 1, 1, 2)), c06Output(c06OutID(0, 1, 1, 1, 1, 0))}
			tx.References = c06Refs(1)
			tx.Extra = []byte("extra")
			return tx
		}},
	}
	auths := []struct {
		name  string
		apply func(tx *SignedTransaction)
	}{
		{"unsigned", func(tx *SignedTransaction) {}},
		{"sigmap-1", func(tx *SignedTransaction) {
			tx.SignaturesMap = []map[uint16]*crypto.Signature{{0: c06Sig(1, 1)}}
		}},
		{"sigmap-2", func(tx *SignedTransaction) {
			tx.SignaturesMap = []map[uint16]*crypto.Signature{{0: c06Sig(1, 1), 1: c06Sig(2, 2)}}
		}},
		{"two-sigmaps", func(tx *SignedTransaction) {
			tx.SignaturesMap = []map[uint16]*crypto.Signature{{0: c06Sig(1, 1)}, {65535: c06Sig(3, 3)}}
		}},
		{"aggregate-ordinary", func(tx *SignedTransaction) {
			tx.AggregatedSignature = &AggregatedSignature{Signers: []int{0, 1, 7, 8}, Signature: *c06Sig(0xa9, 1)}
		}},
		{"aggregate-sparse", func(tx *SignedTransaction) {
			tx.AggregatedSignature = &AggregatedSignature{Signers: []int{1, 64}, Signature: *c06Sig(0xa9, 1)}
		}},
	}
	var menu []c06SeqTx
	for _, f := range frames {
		for _, a := range auths {
			menu = append(menu, c06SeqTx{name: f.name + "/" + a.name, build: func() *SignedTransaction {
				tx := f.mk()
				a.apply(tx)
				return tx
			}})
		}
	}
	return menu
}

func c06Sequences(c *verifmc.Check, st *c06State) {
	depth := verifmc.Pick(c, 3, 4)
	menu := c06SeqMenu()
	var seqs, steps int64
	for ti, m := range menu {
		// reference values: each from its own fresh object, before any other operation touched it
		var refFull, refPayload []byte
		var refHash crypto.Hash
		if pv := verifmc.Catch(func() {
			refFull = slices.Clone(m.build().AsVersioned().marshalWithCapacity(0))
			refPayload = slices.Clone(m.build().AsVersioned().PayloadMarshal())
			refHash = m.build().AsVersioned().PayloadHash()
		}); pv != nil {
			c.Require(false, "history menu member %s cannot be encoded: %v", m.name, pv)
			continue
		}
		c.Require(bytes.Equal(slices.Clone(m.build().AsVersioned().Marshal()), refFull), "history menu member %s: fresh Marshal differs from fresh marshalWithCapacity", m.name)
		refPT, refAT := c06Tuple(m.build())
		for subject := 0; subject < 2; subject++ {
			subjName := []string{"built", "decoded"}[subject]
			verifmc.Sequences(c06OpCount, 1, depth, func(seq []int) bool {
				seqs++
				var ver *VersionedTransaction
				if subject == 0 {
					ver = m.build().AsVersioned()
				} else {
					d, err := UnmarshalVersionedTransaction(slices.Clone(refFull))
					if err != nil {
						c.Require(false, "history menu member %s: reference bytes are refused: %v", m.name, err)
						return false
					}
					ver = d
				}
				hist := ""
				type ret struct {
					op   int
					at   int
					b    []byte
					want []byte
				}
				var returned []ret
				fail := func(key string, step int, desc string) {
					ord := fmt.Sprintf("0|8|%04d|%d|%02d|%s", ti, subject, len(seq), hist)
					c.Outcome("history:VIOLATING")
					st.found.add(key, ord, fmt.Sprintf("%s (%s object), operations %s: step %d %s", m.name, subjName, hist, step+1, desc),
						map[string]any{"transaction": m.name, "subject": subjName, "operations": hist, "failing_step": step + 1})
				}
				for i, op := range seq {
					if hist != "" {
						hist += ">"
					}
					hist += c06OpNames[op]
					steps++
					c.Eval(1)
					var gotB []byte
					var gotH crypto.Hash
					var dec *VersionedTransaction
					var derr error
					if pv := verifmc.Catch(func() {
						switch op {
						case c06OpPayloadMarshal:
							gotB = ver.PayloadMarshal()
						case c06OpPayloadHash:
							gotH = ver.PayloadHash()
						case c06OpMarshal:
							gotB = ver.Marshal()
						case c06OpRoundTrip:
							gotB = ver.Marshal()
							dec, derr = UnmarshalVersionedTransaction(gotB)
						}
					}); pv != nil {
						fail("history:panic", i, fmt.Sprintf("panics: %v", pv))
						return true
					}
					switch op {
					case c06OpPayloadMarshal:
						if !bytes.Equal(gotB, refPayload) {
							fail("history:payload-marshal-differs", i, fmt.Sprintf("returns %s, a fresh object returns %s", hex.EncodeToString(gotB[max(0, len(gotB)-8):]), hex.EncodeToString(refPayload[len(refPayload)-8:]))+" (last 8 bytes)")
							return true
						}
						returned = append(returned, ret{op, i, gotB, refPayload})
					case c06OpPayloadHash:
						if gotH != refHash {
							fail("history:payload-hash-differs", i, fmt.Sprintf("returns %s, a fresh object returns %s", gotH, refHash))
							return true
						}
					case c06OpMarshal, c06OpRoundTrip:
						if !bytes.Equal(gotB, refFull) {
							fail("history:marshal-differs", i, fmt.Sprintf("returns %d bytes that differ from the %d bytes of a fresh object", len(gotB), len(refFull)))
							return true
						}
						returned = append(returned, ret{op, i, gotB, refFull})
						if op == c06OpRoundTrip {
							if derr != nil {
								fail("history:roundtrip-differs", i, fmt.Sprintf("own Marshal output refused: %v", derr))
								return true
							}
							pt, at := c06Tuple(&dec.SignedTransaction)
							if pt != refPT || at != refAT || dec.PayloadHash() != refHash {
								fail("history:roundtrip-differs", i, "decoded transaction differs from the content")
								return true
							}
						}
					}
					// slices handed out earlier must not change retroactively
					for _, r := range returned {
						if !bytes.Equal(r.b, r.want) {
							fail("history:returned-bytes-mutated", i, fmt.Sprintf("changed the bytes returned earlier by step %d (%s)", r.at+1, c06OpNames[r.op]))
							return true
						}
					}
					// the object's content itself must be untouched
					if pt, at := c06Tuple(&ver.SignedTransaction); pt != refPT || at != refAT {
						fail("history:content-mutated", i, "changed the fields of the object")
						return true
					}
				}
				c.Distinct("history|" + m.name + "|" + subjName + "|" + hist)
				c.Outcome("history:independent")
				return true
			})
		}
	}
	c.Set("history_transactions", len(menu))
	c.Set("history_depth", depth)
	c.Set("history_sequences", seqs)
	c.Set("history_steps", steps)
	c.Require(seqs >= int64(len(menu))*2*84, "history part did not enumerate all sequences: %d", seqs)
}
