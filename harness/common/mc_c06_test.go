//go:build verif

package common

import (
	"bytes"
	"crypto/sha256"
	"encoding/hex"
	"fmt"
	"math/big"
	"sort"
	"strings"
	"sync"
	"sync/atomic"
	"testing"

	"github.com/MixinNetwork/mixin/crypto"
	"github.com/MixinNetwork/mixin/verifmc"
)

// C06 — transaction encoding is canonical and its hash is content-addressed.
//
// Bounded-exhaustive enumeration (E1) of four full products of field menus
// (outputs-deep, frame, authorization, <=2-leaf perturbations of a fully
// populated transaction) against the real encoder / decoder, and of every
// single-byte substitution / truncation / one-byte extension of seed encodings.
//
// Oracles: (1) decode(encode(x)) has the same field tuple as x and re-encodes
// to the same bytes; (2) payload encodings are injective on the payload field
// tuple (global hash set, confirmed by rebuilding both cases on a hit);
// (3) PayloadHash is injective on the payload tuple and constant over the
// authorization; (4) every accepted byte string re-encodes to itself, and no
// two accepted byte strings decode to the same transaction.

// ---------- field tuple: an independent, injective rendering ----------

func c06Tuple(tx *SignedTransaction) (payload, auth string) {
	var sb strings.Builder
	fmt.Fprintf(&sb, "v%d;a%x;I%d[", tx.Version, tx.Asset[:], len(tx.Inputs))
	for _, in := range tx.Inputs {
		fmt.Fprintf(&sb, "{h%x;i%d;g%d:%x;", in.Hash[:], in.Index, len(in.Genesis), in.Genesis)
		if d := in.Deposit; d != nil {
			fmt.Fprintf(&sb, "D(%x;%d:%x;%d:%x;%d;%s)", d.Chain[:], len(d.AssetKey), d.AssetKey, len(d.Transaction), d.Transaction, d.Index, d.Amount.i.String())
		} else {
			sb.WriteString("D-")
		}
		if m := in.Mint; m != nil {
			fmt.Fprintf(&sb, "M(%d:%x;%d;%s)", len(m.Group), m.Group, m.Batch, m.Amount.i.String())
		} else {
			sb.WriteString("M-")
		}
		sb.WriteString("}")
	}
	fmt.Fprintf(&sb, "];O%d[", len(tx.Outputs))
	for _, o := range tx.Outputs {
		fmt.Fprintf(&sb, "{t%d;m%s;k%d[", o.Type, o.Amount.i.String(), len(o.Keys))
		for _, k := range o.Keys {
			if k == nil {
				sb.WriteString("nil,")
			} else {
				fmt.Fprintf(&sb, "%x,", k[:])
			}
		}
		fmt.Fprintf(&sb, "];k%x;s%d:%x;", o.Mask[:], len(o.Script), []byte(o.Script))
		if w := o.Withdrawal; w != nil {
			fmt.Fprintf(&sb, "W(%d:%x;%d:%x)", len(w.Address), w.Address, len(w.Tag), w.Tag)
		} else {
			sb.WriteString("W-")
		}
		sb.WriteString("}")
	}
	fmt.Fprintf(&sb, "];R%d[", len(tx.References))
	for _, r := range tx.References {
		fmt.Fprintf(&sb, "%x,", r[:])
	}
	fmt.Fprintf(&sb, "];E%d:%x", len(tx.Extra), tx.Extra)
	payload = sb.String()

	sb.Reset()
	if js := tx.AggregatedSignature; js != nil {
		fmt.Fprintf(&sb, "A(%x;n%d%v)", js.Signature[:], len(js.Signers), js.Signers)
		if len(tx.SignaturesMap) > 0 {
			fmt.Fprintf(&sb, "+S%d", len(tx.SignaturesMap))
		}
	} else {
		fmt.Fprintf(&sb, "S%d[", len(tx.SignaturesMap))
		for _, sm := range tx.SignaturesMap {
			idx := make([]int, 0, len(sm))
			for i := range sm {
				idx = append(idx, int(i))
			}
			sort.Ints(idx)
			fmt.Fprintf(&sb, "{%d;", len(sm))
			for _, i := range idx {
				if s := sm[uint16(i)]; s == nil {
					fmt.Fprintf(&sb, "%d:nil,", i)
				} else {
					fmt.Fprintf(&sb, "%d:%x,", i, s[:])
				}
			}
			sb.WriteString("}")
		}
		sb.WriteString("]")
	}
	return payload, sb.String()
}

func c06Digest(s string) (d [16]byte) {
	h := sha256.Sum256([]byte(s))
	copy(d[:], h[:16])
	return d
}

func c06DigestB(b []byte) (d [16]byte) {
	h := sha256.Sum256(b)
	copy(d[:], h[:16])
	return d
}

// ---------- menus ----------

func c06Fill32(fill byte) (h [32]byte) {
	for i := range h {
		h[i] = fill
	}
	return h
}

func c06Sig(a, b byte) *crypto.Signature {
	var s crypto.Signature
	for i := range s {
		s[i] = a ^ byte(i)
	}
	s[0], s[63] = a, b
	return &s
}

func c06Amount(i int) Integer {
	var v Integer
	switch i {
	case 0:
	case 1:
		v.i.SetInt64(1)
	case 2:
		v.i.SetInt64(255)
	case 3:
		v.i.SetInt64(256)
	default:
		v.i.Lsh(big.NewInt(1), 64)
	}
	return v
}

const c06InputKinds = 6

// kind: 0 ordinary idx 0, 1 ordinary idx 1024, 2 deposit with empty strings,
// 3 deposit with non-empty strings, 4 mint, 5 genesis bytes. pos varies the hash.
func c06Input(kind, pos int) *Input {
	in := &Input{}
	switch kind {
	case 0:
		in.Hash = crypto.Hash(c06Fill32(byte(0x10 + pos)))
	case 1:
		in.Hash = crypto.Hash(c06Fill32(byte(0x10 + pos)))
		in.Index = InputIndexLimit
	case 2:
		in.Deposit = &DepositData{Chain: crypto.Hash(c06Fill32(0xd0))}
	case 3:
		in.Deposit = &DepositData{Chain: crypto.Hash(c06Fill32(0xd1)), AssetKey: "ak", Transaction: "0xtx", Index: ^uint64(0), Amount: c06Amount(3)}
	case 4:
		in.Mint = &MintData{Group: "KERNELNODE", Batch: 7, Amount: c06Amount(1)}
	case 5:
		in.Genesis = []byte{0x67, 0x00, 0x77}
	}
	return in
}

// list index over lists of length 0..2 of a menu of size k: 0 -> [], 1..k -> [a], k+1.. -> [a,b]
func c06ListCount(k, maxLen int) int {
	n, p := 1, 1
	for l := 1; l <= maxLen; l++ {
		p *= k
		n += p
	}
	return n
}

func c06ListDigits(k, idx int) []int {
	if idx == 0 {
		return nil
	}
	idx--
	p := k
	for l := 1; ; l++ {
		if idx < p {
			d := make([]int, l)
			for i := l - 1; i >= 0; i-- {
				d[i] = idx % k
				idx /= k
			}
			return d
		}
		idx -= p
		p *= k
	}
}

func c06Inputs(listIdx int) []*Input {
	var out []*Input
	for pos, k := range c06ListDigits(c06InputKinds, listIdx) {
		out = append(out, c06Input(k, pos))
	}
	return out
}

var c06OutRadices = []int{2, 5, 3, 2, 2, 3} // type, amount, keys, mask, script, withdrawal

func c06Output(id int) *Output {
	d := verifmc.Digits(c06OutRadices, int64(id), nil)
	o := &Output{Type: []uint8{OutputTypeScript, OutputTypeWithdrawalSubmit}[d[0]], Amount: c06Amount(d[1])}
	for i := 0; i < d[2]; i++ {
		k := crypto.Key(c06Fill32(byte(0x51 + i)))
		o.Keys = append(o.Keys, &k)
	}
	if d[3] == 1 {
		o.Mask = crypto.Key(c06Fill32(0x3a))
	}
	if d[4] == 1 {
		o.Script = Script{OperatorCmp, OperatorSum, 1}
	}
	switch d[5] {
	case 1:
		o.Withdrawal = &WithdrawalData{}
	case 2:
		o.Withdrawal = &WithdrawalData{Address: "addr", Tag: "t"}
	}
	return o
}

func c06OutID(d ...int) int {
	id := 0
	for i, r := range c06OutRadices {
		id = id*r + d[i]
	}
	return id
}

func c06Outputs(menu []int, listIdx int) []*Output {
	var out []*Output
	for _, k := range c06ListDigits(len(menu), listIdx) {
		out = append(out, c06Output(menu[k]))
	}
	return out
}

func c06Refs(n int) []crypto.Hash {
	var out []crypto.Hash
	for i := 0; i < n; i++ {
		out = append(out, crypto.Hash(c06Fill32(byte(0xe1+i))))
	}
	return out
}

func c06Extra(i int) []byte {
	switch i {
	case 0:
		return nil
	case 1:
		return []byte{0x00}
	}
	b := make([]byte, 256)
	for i := range b {
		b[i] = byte(i)
	}
	return b
}

var c06SigIndexes = []uint16{0, 1, 65535}
var c06AggPositions = []int{0, 1, 7, 8, 15, 16, 17, 64, 65535}

// authorization menu: 0 none; then lists of 1..2 signature maps, each map one of
// the 7 subsets of size <=2 of indexes {0,1,65535}; then aggregates over every
// subset of size <=3 of c06AggPositions.
type c06AuthMenu struct {
	mapSubsets [][]uint16
	aggSubsets [][]int
}

func c06NewAuthMenu() *c06AuthMenu {
	m := &c06AuthMenu{}
	verifmc.Subsets(len(c06SigIndexes), func(_ uint32, mem []int) {
		if len(mem) <= 2 {
			var s []uint16
			for _, i := range mem {
				s = append(s, c06SigIndexes[i])
			}
			m.mapSubsets = append(m.mapSubsets, s)
		}
	})
	verifmc.Subsets(len(c06AggPositions), func(_ uint32, mem []int) {
		if len(mem) <= 3 {
			var s []int
			for _, i := range mem {
				s = append(s, c06AggPositions[i])
			}
			m.aggSubsets = append(m.aggSubsets, s)
		}
	})
	return m
}

func (m *c06AuthMenu) size() int {
	k := len(m.mapSubsets)
	return 1 + k + k*k + len(m.aggSubsets)
}

func (m *c06AuthMenu) apply(tx *SignedTransaction, a int) {
	if a == 0 {
		return
	}
	a--
	k := len(m.mapSubsets)
	if a < k+k*k {
		var maps []int
		if a < k {
			maps = []int{a}
		} else {
			a -= k
			maps = []int{a / k, a % k}
		}
		for pos, mi := range maps {
			sm := make(map[uint16]*crypto.Signature)
			for _, idx := range m.mapSubsets[mi] {
				sm[idx] = c06Sig(byte(0x80+pos), byte(idx))
			}
			tx.SignaturesMap = append(tx.SignaturesMap, sm)
		}
		return
	}
	a -= k + k*k
	js := &AggregatedSignature{Signature: *c06Sig(0xa9, 0x01)}
	js.Signers = append(js.Signers, m.aggSubsets[a]...)
	tx.AggregatedSignature = js
}

func c06NewTx(asset byte) *SignedTransaction {
	tx := &SignedTransaction{}
	tx.Version = TxVersionHashSignature
	tx.Asset = crypto.Hash(c06Fill32(asset))
	return tx
}

// ---------- products ----------

type c06Product struct {
	name    string
	radices []int
	build   func(d []int) *SignedTransaction
}

func (p *c06Product) at(idx int64) *SignedTransaction {
	return p.build(verifmc.Digits(p.radices, idx, nil))
}

// leaf perturbations of a fully populated transaction (alt 0 = base)
type c06Leaf struct {
	name string
	set  func(tx *SignedTransaction, alt int)
}

func c06BaseTx() *SignedTransaction {
	tx := c06NewTx(0xa5)
	tx.Inputs = []*Input{c06Input(0, 0), c06Input(3, 1), c06Input(4, 2), c06Input(5, 3)}
	tx.Outputs = []*Output{c06Output(c06OutID(1, 3, 2, 1, 1, 2)), c06Output(c06OutID(0, 1, 1, 1, 1, 0))}
	tx.References = c06Refs(2)
	tx.Extra = []byte("extra")
	tx.SignaturesMap = []map[uint16]*crypto.Signature{{0: c06Sig(1, 1), 2: c06Sig(2, 2)}}
	return tx
}

func c06Leaves() []c06Leaf {
	pick := func(alt int, a, b string) string { return []string{"", a, b}[alt] }
	bump := func(b []byte, alt int) {
		if alt == 1 {
			b[0] ^= 0x01
		} else {
			b[len(b)-1] ^= 0x80
		}
	}
	return []c06Leaf{
		{"asset", func(tx *SignedTransaction, alt int) { bump(tx.Asset[:], alt) }},
		{"in0.hash", func(tx *SignedTransaction, alt int) { bump(tx.Inputs[0].Hash[:], alt) }},
		{"in0.index", func(tx *SignedTransaction, alt int) { tx.Inputs[0].Index = []uint{0, 1, 256}[alt] }},
		{"dep.chain", func(tx *SignedTransaction, alt int) { bump(tx.Inputs[1].Deposit.Chain[:], alt) }},
		{"dep.assetkey", func(tx *SignedTransaction, alt int) { tx.Inputs[1].Deposit.AssetKey = pick(alt, "a", "ak0x") }},
		{"dep.transaction", func(tx *SignedTransaction, alt int) { tx.Inputs[1].Deposit.Transaction = pick(alt, "k0xtx", "tx") }},
		{"dep.index", func(tx *SignedTransaction, alt int) { tx.Inputs[1].Deposit.Index = []uint64{0, 1, 1 << 32}[alt] }},
		{"dep.amount", func(tx *SignedTransaction, alt int) { tx.Inputs[1].Deposit.Amount = c06Amount([]int{0, 2, 4}[alt]) }},
		{"mint.group", func(tx *SignedTransaction, alt int) { tx.Inputs[2].Mint.Group = pick(alt, "", "KERNELNODE\x00") }},
		{"mint.batch", func(tx *SignedTransaction, alt int) { tx.Inputs[2].Mint.Batch = []uint64{0, 8, 7 << 8}[alt] }},
		{"mint.amount", func(tx *SignedTransaction, alt int) { tx.Inputs[2].Mint.Amount = c06Amount([]int{0, 0, 3}[alt]) }},
		{"genesis", func(tx *SignedTransaction, alt int) {
			tx.Inputs[3].Genesis = [][]byte{nil, {0x67, 0x00}, {0x67, 0x00, 0x77, 0x77}}[alt]
		}},
		{"out0.type", func(tx *SignedTransaction, alt int) { tx.Outputs[0].Type = []uint8{0, OutputTypeScript, OutputTypeNodePledge}[alt] }},
		{"out0.amount", func(tx *SignedTransaction, alt int) { tx.Outputs[0].Amount = c06Amount([]int{0, 2, 4}[alt]) }},
		{"out0.key0", func(tx *SignedTransaction, alt int) { bump(tx.Outputs[0].Keys[0][:], alt) }},
		{"out0.key1", func(tx *SignedTransaction, alt int) { bump(tx.Outputs[0].Keys[1][:], alt) }},
		{"out0.mask", func(tx *SignedTransaction, alt int) { bump(tx.Outputs[0].Mask[:], alt) }},
		{"out0.script", func(tx *SignedTransaction, alt int) {
			tx.Outputs[0].Script = []Script{nil, {OperatorCmp, OperatorSum, 2}, {OperatorCmp, OperatorSum}}[alt]
		}},
		{"out0.address", func(tx *SignedTransaction, alt int) { tx.Outputs[0].Withdrawal.Address = pick(alt, "add", "addrt") }},
		{"out0.tag", func(tx *SignedTransaction, alt int) { tx.Outputs[0].Withdrawal.Tag = pick(alt, "rt", "") }},
		{"out1.amount", func(tx *SignedTransaction, alt int) { tx.Outputs[1].Amount = c06Amount([]int{0, 0, 3}[alt]) }},
		{"ref0", func(tx *SignedTransaction, alt int) { bump(tx.References[0][:], alt) }},
		{"ref1", func(tx *SignedTransaction, alt int) { bump(tx.References[1][:], alt) }},
		{"extra", func(tx *SignedTransaction, alt int) { tx.Extra = [][]byte{nil, []byte("extr"), []byte("extra\x00")}[alt] }},
		// authorization leaves: must not move the hash
		{"AUTH.sig", func(tx *SignedTransaction, alt int) { bump(tx.SignaturesMap[0][0][:], alt) }},
		{"AUTH.index", func(tx *SignedTransaction, alt int) {
			sm := tx.SignaturesMap[0]
			sm[uint16(2+alt)] = sm[2]
			delete(sm, 2)
		}},
	}
}

// ---------- deterministic reporting ----------

// c06Collector keeps, per violation key, the finding with the smallest order
// string, so that the reported instance does not depend on worker timing.
type c06Collector struct {
	mu    sync.Mutex
	best  map[string]c06Finding
	count map[string]int64
}

type c06Finding struct {
	ord, desc string
	replay    any
}

func (k *c06Collector) add(key, ord, desc string, replay any) {
	k.mu.Lock()
	defer k.mu.Unlock()
	if k.best == nil {
		k.best = map[string]c06Finding{}
		k.count = map[string]int64{}
	}
	k.count[key]++
	if old, ok := k.best[key]; !ok || ord < old.ord {
		k.best[key] = c06Finding{ord, desc, replay}
	}
}

func (k *c06Collector) flush(c *verifmc.Check) {
	k.mu.Lock()
	defer k.mu.Unlock()
	keys := make([]string, 0, len(k.best))
	for key := range k.best {
		keys = append(keys, key)
	}
	sort.Strings(keys)
	for _, key := range keys {
		f := k.best[key]
		c.Violation(key, fmt.Sprintf("%s (%d failing cases of this class)", f.desc, k.count[key]), f.replay)
	}
	k.best, k.count = nil, nil
}

// ---------- shared state ----------

type c06Ent struct {
	tuple [16]byte
	hash  crypto.Hash
	enc   [16]byte
	prod  int
	idx   int64
}

type c06Shard struct {
	mu      sync.Mutex
	byEnc   map[[16]byte]c06Ent
	byHash  map[crypto.Hash]c06Ent
	byTuple map[[16]byte]c06Ent
}

type c06State struct {
	c      *verifmc.Check
	found  c06Collector
	prods  []*c06Product
	shards [64]c06Shard
	// full tuple digest -> digest of the accepted full encoding + recipe
	fullMu   sync.Mutex
	fullEnc  map[[16]byte][16]byte
	fullFrom map[[16]byte]string

	accepted, payloadDup atomic.Int64
}

func (st *c06State) payloadOf(prod int, idx int64) (tuple string, enc []byte, h crypto.Hash) {
	tx := st.prods[prod].at(idx)
	tuple, _ = c06Tuple(tx)
	ver := tx.AsVersioned()
	enc = ver.payloadMarshal()
	return tuple, enc, ver.PayloadHash()
}

func (st *c06State) caseName(prod int, idx int64) string {
	p := st.prods[prod]
	return fmt.Sprintf("%s%v", p.name, verifmc.Digits(p.radices, idx, nil))
}

// record inserts one payload into the global sets and reports confirmed conflicts.
func (st *c06State) record(e c06Ent) {
	confirm := func(old c06Ent) (ta, tb string, ea, eb []byte, ha, hb crypto.Hash) {
		ta, ea, ha = st.payloadOf(old.prod, old.idx)
		tb, eb, hb = st.payloadOf(e.prod, e.idx)
		return
	}
	replay := func(old c06Ent) map[string]any {
		return map[string]any{"case_a": st.caseName(old.prod, old.idx), "case_b": st.caseName(e.prod, e.idx)}
	}
	ord := func(old c06Ent) string {
		a, b := fmt.Sprintf("%d|%012d", old.prod, old.idx), fmt.Sprintf("%d|%012d", e.prod, e.idx)
		if b < a {
			a, b = b, a
		}
		return "1|" + a + "|" + b
	}
	sh := &st.shards[e.enc[0]%64]
	sh.mu.Lock()
	old, ok := sh.byEnc[e.enc]
	if !ok {
		sh.byEnc[e.enc] = e
	}
	sh.mu.Unlock()
	if ok && old.tuple != e.tuple {
		if ta, tb, ea, eb, _, _ := confirm(old); ta != tb && bytes.Equal(ea, eb) {
			st.found.add("inject:payload-collision", ord(old), fmt.Sprintf("two different payloads share the payload encoding %s: %s vs %s", verifmc.Hex(ea), ta, tb), replay(old))
		}
	}
	sh = &st.shards[e.hash[0]%64]
	sh.mu.Lock()
	old, ok = sh.byHash[e.hash]
	if !ok {
		sh.byHash[e.hash] = e
	}
	sh.mu.Unlock()
	if ok && old.tuple != e.tuple {
		if ta, tb, _, _, ha, hb := confirm(old); ta != tb && ha == hb {
			st.found.add("hash:payload-field-ignored", ord(old), fmt.Sprintf("PayloadHash %s is shared by two different payloads: %s vs %s", ha, ta, tb), replay(old))
		}
	}
	sh = &st.shards[e.tuple[0]%64]
	sh.mu.Lock()
	old, ok = sh.byTuple[e.tuple]
	if !ok {
		sh.byTuple[e.tuple] = e
	}
	sh.mu.Unlock()
	if ok {
		st.payloadDup.Add(1)
		if old.hash != e.hash || old.enc != e.enc {
			ta, tb, ea, eb, ha, hb := confirm(old)
			if ta == tb && ha != hb {
				st.found.add("hash:depends-on-authorization", ord(old), fmt.Sprintf("the same payload %s hashes to %s and %s in cases that differ only in authorization", ta, ha, hb), replay(old))
			} else if ta == tb && !bytes.Equal(ea, eb) {
				st.found.add("payload:depends-on-authorization", ord(old), fmt.Sprintf("the same payload %s has two payload encodings in cases that differ only in authorization", ta), replay(old))
			}
		}
	}
}

// noteAccepted: no two accepted byte strings may decode to the same transaction.
func (st *c06State) noteAccepted(fullTuple string, enc []byte, ord, from string) {
	td, ed := c06Digest(fullTuple), c06DigestB(enc)
	st.fullMu.Lock()
	old, ok := st.fullEnc[td]
	oldFrom := st.fullFrom[td]
	if !ok {
		st.fullEnc[td] = ed
		st.fullFrom[td] = from
	}
	st.fullMu.Unlock()
	if ok && old != ed {
		a, b := oldFrom, from
		if b < a {
			a, b = b, a
		}
		st.found.add("canon:two-encodings", ord, fmt.Sprintf("two different accepted byte strings decode to the same transaction (%s and %s)", a, b),
			map[string]any{"a": a, "b": b})
	}
}

var c06ErrClasses = []string{
	"EOF", "data short", "invalid version", "too many transaction inputs", "too many transaction outputs", "too many transaction references",
	"too many output keys", "invalid extra size", "invalid prefix", "unexpected ending", "invalid input index", "malformed",
	"invalid output type", "signatures count", "large int", "invalid mask type", "invalid aggregated signer order",
	"too many aggregated signers", "non-canonical transaction encoding", "transaction too large",
}

func c06ErrClass(err error) string {
	s := err.Error()
	for _, p := range c06ErrClasses {
		if strings.HasPrefix(s, p) {
			return strings.ReplaceAll(p, " ", "-")
		}
	}
	return "other"
}

func c06HasMultiMap(tx *SignedTransaction) bool {
	for _, sm := range tx.SignaturesMap {
		if len(sm) >= 2 {
			return true
		}
	}
	return false
}

// checkTx applies oracles 1-3 to one structure.
func (st *c06State) checkTx(prod int, idx int64) {
	c := st.c
	p := st.prods[prod]
	tx := p.at(idx)
	name := func() string { return st.caseName(prod, idx) }
	ord := fmt.Sprintf("0|%d|%012d", prod, idx)
	bad := func(key, desc string) {
		c.Outcome("VIOLATING-" + key)
		st.found.add(key, ord, name()+": "+desc, map[string]any{"product": p.name, "digits": verifmc.Digits(p.radices, idx, nil)})
	}
	c.Eval(1)
	pt, at := c06Tuple(tx)
	c.Distinct(pt + "#" + at)
	ver := tx.AsVersioned()
	var enc []byte
	if pv := verifmc.Catch(func() { enc = ver.marshal() }); pv != nil {
		c.Outcome("encode:refused")
		c.Stricter(fmt.Sprintf("encoder refuses a menu structure: %v", pv))
		return
	}
	ok := true
	reps := 1
	if c06HasMultiMap(tx) {
		reps = 8
	}
	for r := 0; r < reps && ok; r++ {
		if again := p.at(idx).AsVersioned().marshal(); !bytes.Equal(again, enc) {
			bad("encode:nondeterministic", fmt.Sprintf("two encodings of the same transaction differ: %s vs %s", hex.EncodeToString(enc), hex.EncodeToString(again)))
			ok = false
		}
	}
	var pub []byte
	if pv := verifmc.Catch(func() { pub = p.at(idx).AsVersioned().Marshal() }); pv != nil {
		bad("roundtrip:own-encoding-rejected", fmt.Sprintf("Marshal() self-check refuses the encoder's own output: %v", pv))
		ok = false
	} else if ok && !bytes.Equal(pub, enc) {
		bad("encode:nondeterministic", "Marshal() and marshal() differ")
		ok = false
	}
	if dec, err := UnmarshalVersionedTransaction(enc); err != nil {
		bad("roundtrip:own-encoding-rejected", fmt.Sprintf("decoder refuses the encoder's own output (%d bytes): %v", len(enc), err))
		ok = false
	} else {
		if pt2, at2 := c06Tuple(&dec.SignedTransaction); pt2 != pt || at2 != at {
			bad("roundtrip:field-mismatch", fmt.Sprintf("decode(encode(x)) != x: %s#%s vs %s#%s", pt, at, pt2, at2))
			ok = false
		}
		if re := dec.marshal(); !bytes.Equal(re, enc) {
			bad("roundtrip:remarshal-differs", "decoded transaction re-encodes to different bytes")
			ok = false
		}
		var h1, h2 crypto.Hash
		if pv := verifmc.Catch(func() { h1, h2 = dec.PayloadHash(), p.at(idx).AsVersioned().PayloadHash() }); pv == nil && h1 != h2 {
			bad("hash:roundtrip", "decoded transaction has a different PayloadHash")
			ok = false
		}
	}
	// payload: recorded in the global sets even when the round trip failed
	var pm []byte
	var ph crypto.Hash
	if pv := verifmc.Catch(func() { pm = ver.payloadMarshal(); ph = ver.PayloadHash() }); pv != nil {
		bad("payload:own-encoding-rejected", fmt.Sprintf("PayloadHash self-check failed: %v", pv))
		return
	}
	if pdec, err := UnmarshalVersionedTransaction(pm); err != nil {
		bad("payload:own-encoding-rejected", fmt.Sprintf("payload encoding is refused by the decoder: %v", err))
		ok = false
	} else if ppt, pat := c06Tuple(&pdec.SignedTransaction); ppt != pt || pat != "S0[]" {
		bad("payload:field-mismatch", fmt.Sprintf("payload encoding decodes to %s#%s, expected %s with no authorization", ppt, pat, pt))
		ok = false
	}
	if ok {
		if at == "S0[]" {
			c.Outcome("ok:unsigned")
		} else if tx.AggregatedSignature != nil {
			c.Outcome("ok:aggregated")
		} else {
			c.Outcome("ok:signature-maps")
		}
		st.accepted.Add(1)
	}
	st.record(c06Ent{tuple: c06Digest(pt), hash: ph, enc: c06DigestB(pm), prod: prod, idx: idx})
}

// judgeBytes applies oracle 4 to one byte string.
func (st *c06State) judgeBytes(b []byte, ord string, from func() string) string {
	var ver *VersionedTransaction
	var err error
	if pv := verifmc.Catch(func() { ver, err = UnmarshalVersionedTransaction(b) }); pv != nil {
		return "reject:panic"
	}
	if err != nil {
		return "reject:" + c06ErrClass(err)
	}
	var re []byte
	if pv := verifmc.Catch(func() { re = ver.marshal() }); pv != nil {
		st.found.add("canon:accepted-unencodable", ord, fmt.Sprintf("%s: accepted transaction cannot be encoded: %v", from(), pv), map[string]any{"from": from(), "bytes_hex": hex.EncodeToString(b)})
		return "accept:VIOLATING"
	}
	if !bytes.Equal(re, b) {
		key := "canon:reencode-samelen"
		if len(re) < len(b) {
			key = "canon:reencode-shorter"
		} else if len(re) > len(b) {
			key = "canon:reencode-longer"
		}
		st.found.add(key, ord, fmt.Sprintf("%s: decoder accepts %d bytes that re-encode to %d different bytes (%s)", from(), len(b), len(re), verifmc.Hex(re)),
			map[string]any{"from": from(), "bytes_hex": hex.EncodeToString(b), "reencoded_hex": hex.EncodeToString(re)})
		return "accept:VIOLATING"
	}
	pt, at := c06Tuple(&ver.SignedTransaction)
	st.noteAccepted(pt+"#"+at, b, ord, from())
	return "accept"
}

func TestMC_C06(t *testing.T) {
	c := verifmc.Start(t, "C06", "exploration")
	defer c.Finish()
	thorough := c.Thorough()
	c.SetRule("history part: every sequence of length 1..3 (thorough 4) over {PayloadMarshal, PayloadHash, Marshal, Unmarshal(Marshal)} on one object (built and freshly decoded) for 2 payload frames x 6 authorization forms, every step compared with independent fresh objects; aggregate boundary: signer counts {1,2,255,256,257,258,1000} x spacing {1,16,17,64} through the full round trip and through EncodeAggregatedSignature/ReadAggregatedSignature directly; five full products: outputs-deep (every list of 0..2 outputs over the 360-member output menu type{script,withdrawal} x amount{0,1,255,256,2^64} x keys{0,1,2} x mask{zero,set} x script{0,3} x withdrawal{none,empty,set}), frame (every list of 0..2 inputs over {ordinary idx 0, ordinary idx 1024, deposit empty, deposit set, mint, genesis} x every list of 0..2 outputs over a reduced output menu x references 0..2 x extra len{0,1,256}), authorization (none | 1..2 signature maps each a subset of size <=2 of indexes {0,1,65535} | aggregate over every subset of size <=3 of {0,1,7,8,15,16,17,64,65535}) x frames x asset{2}, and every <=2-leaf perturbation (2 alternatives per leaf) of a fully populated transaction; then for seed encodings every single-byte substitution by all 255 other values, every truncation, every one-byte extension. A structure case is distinct by its full field tuple; a byte case by (seed, kind, position, outcome)")
	c.Assume("field tuple rendering (length-prefixed hex, decimal amounts) is the equality on transactions; nil and empty slices / strings are the same value",
		"menus hold canonical in-memory forms only (non-negative amounts, non-nil signatures, either signature maps or an aggregate)",
		"128-bit digests index the global sets; every hit is confirmed by rebuilding both cases and comparing real bytes and tuples before it is reported",
		"a decoder panic on arbitrary bytes is counted as a refusal (outcome reject:panic)")

	st := &c06State{c: c, fullEnc: map[[16]byte][16]byte{}, fullFrom: map[[16]byte]string{}}
	for i := range st.shards {
		st.shards[i].byEnc = map[[16]byte]c06Ent{}
		st.shards[i].byHash = map[crypto.Hash]c06Ent{}
		st.shards[i].byTuple = map[[16]byte]c06Ent{}
	}
	auth := c06NewAuthMenu()
	c.Require(auth.size() == 1+7+49+130, "authorization menu size %d", auth.size())

	// reduced output menu of the frame product
	var reduced []int
	for _, ty := range []int{0, 1} {
		for _, am := range []int{0, 3} {
			for _, keys := range verifmc.Pick(c, []int{1}, []int{0, 2}) {
				for _, mask := range []int{1} {
					for _, sc := range []int{0, 1} {
						for _, wd := range []int{0, 1, 2} {
							reduced = append(reduced, c06OutID(ty, am, keys, mask, sc, wd))
						}
					}
				}
			}
		}
	}
	fullMenu := make([]int, 360)
	for i := range fullMenu {
		fullMenu[i] = i
	}
	deepInputs := verifmc.Pick(c, 1, 1+c06InputKinds) // thorough: every input list of length <= 1
	authFrameOutputs := []int{c06OutID(0, 1, 1, 1, 1, 0), c06OutID(1, 4, 2, 0, 0, 2), c06OutID(0, 0, 0, 0, 0, 1), c06OutID(1, 2, 1, 1, 1, 1)}
	authIn := verifmc.Pick(c, 1+c06InputKinds, c06ListCount(c06InputKinds, 2))
	authOut := verifmc.Pick(c, 3, c06ListCount(len(authFrameOutputs), 1))
	leaves := c06Leaves()

	st.prods = []*c06Product{
		{name: "outputs-deep", radices: []int{deepInputs, c06ListCount(360, 2)}, build: func(d []int) *SignedTransaction {
			tx := c06NewTx(0xa5)
			if d[0] == 0 {
				tx.Inputs = []*Input{c06Input(0, 0)}
			} else {
				tx.Inputs = c06Inputs(d[0] - 1)
			}
			tx.Outputs = c06Outputs(fullMenu, d[1])
			return tx
		}},
		{name: "frame", radices: []int{c06ListCount(c06InputKinds, 2), c06ListCount(len(reduced), 2), 3, 3}, build: func(d []int) *SignedTransaction {
			tx := c06NewTx(0xa5)
			tx.Inputs = c06Inputs(d[0])
			tx.Outputs = c06Outputs(reduced, d[1])
			tx.References = c06Refs(d[2])
			tx.Extra = c06Extra(d[3])
			return tx
		}},
		{name: "authorization", radices: []int{2, authIn, authOut, 2, 3, auth.size()}, build: func(d []int) *SignedTransaction {
			tx := c06NewTx([]byte{0xa5, 0xa6}[d[0]])
			tx.Inputs = c06Inputs(d[1])
			tx.Outputs = c06Outputs(authFrameOutputs, d[2])
			tx.References = c06Refs(d[3] * 2)
			tx.Extra = c06Extra(d[4])
			auth.apply(tx, d[5])
			return tx
		}},
		{name: "perturbation", radices: []int{len(leaves), len(leaves), 3, 3}, build: func(d []int) *SignedTransaction {
			tx := c06BaseTx()
			// d[0] <= d[1] is the canonical pair; other orderings build the same transaction
			i, j := d[0], d[1]
			if i > j {
				i, j = j, i
			}
			if d[2] != 0 {
				leaves[i].set(tx, d[2])
			}
			if j != i && d[3] != 0 {
				leaves[j].set(tx, d[3])
			}
			return tx
		}},
		c06AggBoundaryProduct(),
	}
	var totalStructs int64
	for pi, p := range st.prods {
		n := verifmc.ProductSize(p.radices)
		totalStructs += n
		c.Set("product_"+p.name, n)
		if !c.ParallelN(int(n), "structure product "+p.name, func(_, i int) { st.checkTx(pi, int64(i)) }) {
			break
		}
	}
	c06AggDirect(c, st)
	c06Sequences(c, st)
	st.found.flush(c)
	var distinctPayloads int
	for i := range st.shards {
		distinctPayloads += len(st.shards[i].byTuple)
	}
	c.Set("structures", totalStructs)
	c.Set("structures_roundtripped", st.accepted.Load())
	c.Set("distinct_payloads", distinctPayloads)
	c.Set("payload_repeats_with_other_authorization", st.payloadDup.Load())
	c.Require(st.accepted.Load() > totalStructs/2, "most structures should round-trip: %d of %d", st.accepted.Load(), totalStructs)
	c.Require(distinctPayloads > 100000 && st.payloadDup.Load() > 10000, "payload set too small: %d distinct, %d repeats", distinctPayloads, st.payloadDup.Load())
	c.Require(c.OutcomeCount("ok:aggregated") > 1000 && c.OutcomeCount("ok:signature-maps") > 1000 && c.OutcomeCount("ok:unsigned") > 1000, "authorization kinds not all reached")

	// ---- byte level ----
	var seeds []*SignedTransaction
	{
		s1 := c06NewTx(0xa5)
		s1.Inputs = []*Input{c06Input(3, 0)}
		s1.Outputs = []*Output{c06Output(c06OutID(1, 3, 1, 1, 1, 2))}
		s1.References = c06Refs(1)
		s1.Extra = []byte{1, 2, 3}
		auth.apply(s1, 1+6) // one map with two entries
		s2 := c06NewTx(0xa5)
		s2.Inputs = []*Input{c06Input(4, 0)}
		s2.Outputs = []*Output{c06Output(c06OutID(0, 4, 2, 1, 1, 0))}
		s2.AggregatedSignature = &AggregatedSignature{Signers: []int{1, 64}, Signature: *c06Sig(0xa9, 1)}
		s3 := c06NewTx(0xa5)
		s3.Inputs = []*Input{c06Input(0, 0), c06Input(1, 1)}
		s3.Outputs = []*Output{c06Output(c06OutID(0, 1, 1, 1, 1, 0)), c06Output(c06OutID(1, 2, 0, 0, 0, 1))}
		s3.References = c06Refs(2)
		s3.Extra = []byte{0}
		s3.SignaturesMap = []map[uint16]*crypto.Signature{{0: c06Sig(1, 1)}, {1: c06Sig(2, 2), 65535: c06Sig(3, 3)}}
		s4 := c06NewTx(0xa5)
		s4.Inputs = []*Input{c06Input(5, 0)}
		s4.Outputs = []*Output{c06Output(c06OutID(0, 0, 0, 0, 0, 0))}
		s4.AggregatedSignature = &AggregatedSignature{Signers: []int{0, 1, 7, 8}, Signature: *c06Sig(0xa9, 1)}
		seeds = []*SignedTransaction{s1, s2, s3, s4}
		if thorough {
			// one seed per authorization menu member over a populated frame
			for a := 1; a < auth.size(); a++ {
				s := c06NewTx(0xa5)
				s.Inputs = []*Input{c06Input(a%c06InputKinds, 0)}
				s.Outputs = []*Output{c06Output(authFrameOutputs[a%len(authFrameOutputs)])}
				s.References = c06Refs(a % 3)
				s.Extra = c06Extra(a % 2)
				auth.apply(s, a)
				seeds = append(seeds, s)
			}
		}
	}
	var mu sync.Mutex
	counts := map[string]int64{}
	var byteCases, byteAccepted int64
	type job struct{ seed, pos int }
	var jobs []job
	encs := make([][]byte, len(seeds))
	for si, s := range seeds {
		encs[si] = s.AsVersioned().marshal()
		_, err := UnmarshalVersionedTransaction(encs[si])
		c.Require(err == nil, "seed %d is not accepted: %v", si, err)
		for p := -2; p < len(encs[si]); p++ { // -2: truncations, -1: extensions
			jobs = append(jobs, job{si, p})
		}
		if si < 6 {
			c.Sample(map[string]any{"seed": si, "len": len(encs[si]), "hex": verifmc.Hex(encs[si])})
		}
	}
	c.ParallelN(len(jobs), "byte-level mutation", func(_, ji int) {
		j := jobs[ji]
		seed := encs[j.seed]
		n := len(seed)
		local := map[string]int64{}
		keys := map[string]struct{}{}
		var cases, acc int64
		run := func(b []byte, kind string, pos int, from func() string) {
			out := st.judgeBytes(b, fmt.Sprintf("2|%04d|%s|%06d|%x", j.seed, kind, pos, c06DigestB(b)), from)
			cases++
			if strings.HasPrefix(out, "accept") {
				acc++
			}
			local[kind+":"+out]++
			keys[fmt.Sprintf("%d|%s|%d|%s", j.seed, kind, pos, out)] = struct{}{}
		}
		switch j.pos {
		case -2:
			for l := 0; l < n; l++ {
				run(seed[:l], "trunc", l, func() string { return fmt.Sprintf("seed %d truncated to %d of %d bytes", j.seed, l, n) })
			}
		case -1:
			buf := append(append([]byte{}, seed...), 0)
			for v := 0; v < 256; v++ {
				buf[n] = byte(v)
				run(buf, "extend", v, func() string { return fmt.Sprintf("seed %d (%d bytes) extended by %02x", j.seed, n, v) })
			}
		default:
			buf := append([]byte{}, seed...)
			for v := 0; v < 256; v++ {
				if byte(v) == seed[j.pos] {
					continue
				}
				buf[j.pos] = byte(v)
				run(buf, "subst", j.pos, func() string { return fmt.Sprintf("seed %d byte %d: %02x -> %02x", j.seed, j.pos, seed[j.pos], v) })
			}
		}
		c.Eval(cases)
		for k := range keys {
			c.Distinct(k)
		}
		for k := range local {
			c.Outcome("positions-with:" + k) // counted per (seed, position); per-case counts are in byte_level_outcome_counts
		}
		mu.Lock()
		byteCases += cases
		byteAccepted += acc
		for k, v := range local {
			counts[k] += v
		}
		mu.Unlock()
	})
	st.found.flush(c)
	c.Set("byte_level_seeds", len(seeds))
	c.Set("byte_level_cases", byteCases)
	c.Set("byte_level_accepted", byteAccepted)
	c.Set("byte_level_outcome_counts", counts)
	c.Require(byteAccepted > 1000 && byteCases-byteAccepted > 1000, "vacuous byte level: %d accepted of %d", byteAccepted, byteCases)
	c.Require(counts["subst:reject:non-canonical-transaction-encoding"] > 0, "no mutant reached the canonical re-encoding comparison")
}
