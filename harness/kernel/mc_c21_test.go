//go:build verif

package kernel

import (
	"fmt"
	"strings"
	"sync"
	"testing"
	"time"

	"github.com/MixinNetwork/mixin/common"
	"github.com/MixinNetwork/mixin/crypto"
	"github.com/MixinNetwork/mixin/verifmc"
)

// C21 — consensus bookkeeping survives a crash after any finalization.
// Two chains finalize concurrently through the real cosiHandleFinalization:
// chain A a consensus-class singleton snapshot (node pledge), chain B ordinary
// snapshots. Every interleaving of their durable commits (bounded preemptions,
// commits are the scheduling points) x every crash cut is executed on an
// on-disk store, the process state abandoned, the directory reopened with the
// real SetupNode, and the recovery invariant evaluated.

type c21Result struct {
	durableLog string
	outcome    string
}

func c21Body(s *verifmc.Sched, kind string, cut int64, nOrdinary int, base string, seq *int64, mu *sync.Mutex, report func(key, desc string)) string {
	mu.Lock()
	*seq++
	dir := mcSubdir(base, int(*seq))
	mu.Unlock()
	defer mcRemoveAll(dir)

	run := mcOpenRun(dir, 0, true)
	m := run.M
	// setup (not subject to the cut): fund the pledge
	fund := &mcDelivery{Name: "fund", Chain: 2, TsOffset: 0, Build: mcCrDepositXIN("c21-pledge-fund", "13439")}
	mcDeliver(m, fund)
	pledgeTs := m.Net.Epoch + uint64(mcCrashBase+10*time.Second)
	elected := m.Node.electSnapshotNode(common.TransactionTypeNodePledge, pledgeTs)
	bChain := 3
	for m.Net.NodeIds[bChain] == elected || bChain == 2 {
		bChain++
	}
	pledge := &mcDelivery{Name: "pledge", Chain: -1, Elect: common.TransactionTypeNodePledge, TsOffset: 10 * time.Second, Build: mcCrPledge("c21-pledge-fund", 0)}
	if kind == "mint" {
		// the consensus-class snapshot is a mint, proposed by the chain elected for mints
		pledge = &mcDelivery{Name: "mint", Chain: -1, Elect: common.TransactionTypeMint, TailOnly: true, TsOffset: 10 * time.Second, Build: mcCrMint("c21")}
		elected = m.Node.electSnapshotNode(common.TransactionTypeMint, pledgeTs)
		bChain = 3
		for m.Net.NodeIds[bChain] == elected || bChain == 2 {
			bChain++
		}
	}
	var ordinary []*mcDelivery
	for i := 0; i < nOrdinary; i++ {
		ordinary = append(ordinary, &mcDelivery{Name: fmt.Sprint("ordinary", i), Chain: bChain, TsOffset: time.Duration(11+i) * time.Second, Build: mcCrDepositBTC(fmt.Sprint("c21-b", i), "1")})
	}
	run.Ctl.count.Store(0)
	run.Ctl.cut = cut

	s.LazyLocks = true // commits are the choice points
	var scHash crypto.Hash
	var bHashes []crypto.Hash
	var hmu sync.Mutex
	s.Go("A", func() {
		// the hash is known before the handler runs
		defer func() { _ = recover() }() // a failed commit panics inside the node: that is the crash
		snap := mcDeliver(m, pledge)
		hmu.Lock()
		scHash = snap.Hash
		hmu.Unlock()
	})
	s.Go("B", func() {
		defer func() { _ = recover() }()
		for _, d := range ordinary {
			snap := mcDeliver(m, d)
			hmu.Lock()
			bHashes = append(bHashes, snap.Hash)
			hmu.Unlock()
		}
	})
	s.RunAll()
	if s.Deadlock {
		run.Crash()
		report("harness:deadlock", strings.Join(s.Trace, " "))
		return "deadlock"
	}
	commits := run.Ctl.count.Load()
	if !pledge.Hash.HasValue() {
		// the crash hit before the pledge snapshot was even built (cannot happen: built before any commit of A)
		pledge.Hash = scHash
	}
	run.Crash()

	// ---- restart ----
	var re *mcReopen
	if pp, site := verifmc.CatchSite(func() { re = mcOpenRunNoSetup(dir) }); pp != nil {
		report(kind+":restart-panicked:"+site, fmt.Sprintf("SetupNode after crash at commit %d panicked: %v (schedule %s)", cut, pp, strings.Join(s.Trace, " ")))
		return "restart-panicked"
	}
	if re.err != nil {
		report("restart-failed", fmt.Sprintf("SetupNode after crash at commit %d failed: %v (schedule %s)", cut, re.err, strings.Join(s.Trace, " ")))
		return "restart-failed"
	}
	defer re.m.Close()
	st := re.m.Store
	sc, err := st.ReadSnapshot(pledge.Hash)
	if err != nil {
		report("restart-read-error", err.Error())
		return "read-error"
	}
	last, err := st.ReadLastConsensusSnapshot()
	if err != nil || last == nil {
		report("restart-read-error", fmt.Sprint("ReadLastConsensusSnapshot: ", last, err))
		return "read-error"
	}
	lastSnap, _ := st.LastSnapshot()
	out := fmt.Sprintf("commits=%d sc-durable=%v marker-is-sc=%v last-topology-is-sc=%v", min64(commits, cut-1), sc != nil, last.PayloadHash() == pledge.Hash, lastSnap != nil && lastSnap.PayloadHash() == pledge.Hash)
	if sc != nil && last.PayloadHash() != pledge.Hash {
		class := "marker-lost:consensus-snapshot-is-last-topology-entry"
		if lastSnap == nil || lastSnap.PayloadHash() != pledge.Hash {
			class = "marker-lost:ordinary-snapshot-written-after-consensus-snapshot"
		}
		report(kind+":"+class, fmt.Sprintf("consensus snapshot %s (%s) is durable but after restart the last recorded consensus operation is %s (timestamp %d); crash before commit %d; schedule %s", pledge.Hash, kind, last.PayloadHash(), last.Timestamp, cut, strings.Join(s.Trace, " ")))
	}
	return out
}

func min64(a, b int64) int64 {
	if b < a && b >= 0 {
		return b
	}
	return a
}

type mcReopen struct {
	m   *mcNode
	err error
}

func mcOpenRunNoSetup(dir string) *mcReopen {
	m, err := newMCNode(mcNet7, 0, dir)
	return &mcReopen{m: m, err: err}
}

func TestMC_C21(t *testing.T) {
	c := verifmc.Start(t, "C21", "model_checking")
	defer c.Finish()
	c.SetRule("base part: chain A finalizes a node-pledge / mint (consensus-class singleton) snapshot, chain B finalizes N ordinary snapshots, both through the real cosiHandleFinalization on an on-disk store; for every crash cut k (commit k and later fail) every interleaving of the two goroutines at commit granularity up to the preemption bound; after each: close, reopen, real SetupNode, then the invariant 'consensus snapshot durable => last recorded consensus operation is it'. " +
		"history part: product {B = mint | pledge} x {recorded consensus transaction A re-included by a snapshot of another chain before B: no | yes} x {timestamps of the other chain's ordinary snapshots relative to recorded consensus snapshot A: older | equal | newer (thorough: also ordered pairs)}; history = prefix [A finalized+recorded, re-inclusion R] then thread A [B] || thread B [ordinary snapshots]; every crash cut of the WHOLE history (prefix commits included) x every interleaving of the concurrent part at commit granularity up to the preemption bound; after each: node abandoned, real SetupNode over the committed state, then 'consensus record == last finalized consensus snapshot in topological order (a re-inclusion of the recorded transaction does not move it)'")
	c.Assume("a Badger transaction commit is the atomic durable unit (crash points are commit boundaries of the snapshot DB)", "commits are the only scheduling points; kernel/topology.go's sequence mutex and the store mutex are modelled by the scheduler", "consensus-class operations exercised: node pledge (through the complete cosiHandleFinalization) and mint (through the post-validation tail: takeover lock, persist, AddSnapshot, reloadConsensusState); remove/custodian update share the pledge branch of reloadConsensusState",
		"history part: the store is an in-memory Badger that survives the crash as committed (no close/reopen; the base part does the on-disk reopen); the re-inclusion R goes through the post-validation tail (AddSnapshot + reloadConsensusState) and lands before B is proposed (a re-inclusion validated before and written after B's record is a live-path matter, not a crash matter)")
	tStart := time.Now()
	base := mcScratchDir("c21-")
	defer mcRemoveAll(base)
	nOrdinary := verifmc.Pick(c, 1, 2)
	bound := verifmc.Pick(c, 1, 2)

	var seq int64
	var mu sync.Mutex
	var execs int64
	markerOK := 0
	kinds := []string{"pledge", "mint"}
	totals := make([]int64, len(kinds))
	scenarios := c21Scenarios(c.Thorough())
	info := &c21HistInfo{total: map[string]int64{}, prefix: map[string]int64{}, reached: map[string]int64{}}

	// ---- probe runs without cut: number of commits of each workload ----
	c.ParallelN(len(kinds)+len(scenarios), "probe runs", func(_, i int) {
		if i < len(kinds) {
			kind := kinds[i]
			ex := &verifmc.Explorer{C: c, Bound: 0, Name: kind + ":probe"}
			ex.Body = func(s *verifmc.Sched, report func(key, desc string)) string {
				return c21Body(s, kind, 0, nOrdinary, base, &seq, &mu, report)
			}
			ex.Run()
			for o := range ex.Outcomes {
				fmt.Sscanf(o, "commits=%d", &totals[i])
			}
			return
		}
		sc := scenarios[i-len(kinds)]
		ex := &verifmc.Explorer{C: c, Bound: 0, Name: sc.name() + ":probe"}
		ex.Body = func(s *verifmc.Sched, report func(key, desc string)) string {
			return c21HistBody(s, sc, 0, info, report)
		}
		ex.Run()
		var pre, tot int64
		for o := range ex.Outcomes {
			fmt.Sscanf(o, "prefix=%d commits=%d", &pre, &tot)
		}
		info.mu.Lock()
		info.prefix[sc.name()], info.total[sc.name()] = pre, tot
		info.mu.Unlock()
	})

	// ---- every (workload, crash cut) is one unit; the on-disk units first ----
	type unit struct {
		kind string       // base part
		sc   *c21Scenario // history part
		cut  int64
	}
	var units []unit
	for i, kind := range kinds {
		c.Require(totals[i] >= 6, "%s probe found only %d commits", kind, totals[i])
		c.Set("commits_in_workload_"+kind, totals[i])
		for cut := int64(1); cut <= totals[i]+1; cut++ { // total+1 = no crash
			units = append(units, unit{kind: kind, cut: cut})
		}
	}
	var histCuts, histPrefixCuts int64
	for i := range scenarios {
		sc := &scenarios[i]
		pre, tot := info.prefix[sc.name()], info.total[sc.name()]
		want := int64(4) // A: lock, persist, snapshot, record
		c.Require(pre >= want && tot >= pre+6, "%s probe found only %d prefix / %d total commits", sc.name(), pre, tot)
		for cut := int64(1); cut <= tot+1; cut++ {
			units = append(units, unit{sc: sc, cut: cut})
			histCuts++
			if cut <= pre {
				histPrefixCuts++
			}
		}
	}
	var histExecs int64
	var baseBusy, histBusy time.Duration
	tUnits := time.Now()
	fmt.Printf("C21-TIMING probes done at %v\n", time.Since(tStart))
	c.ParallelN(len(units), "crash cuts", func(_, i int) {
		u := units[i]
		t0 := time.Now()
		defer func() {
			mu.Lock()
			if u.sc == nil {
				baseBusy += time.Since(t0)
			} else {
				histBusy += time.Since(t0)
			}
			mu.Unlock()
		}()
		if u.sc == nil {
			ex := &verifmc.Explorer{C: c, Bound: bound, Name: fmt.Sprintf("%s:cut=%d", u.kind, u.cut)}
			ex.Body = func(s *verifmc.Sched, report func(key, desc string)) string {
				return c21Body(s, u.kind, u.cut, nOrdinary, base, &seq, &mu, report)
			}
			ex.Run()
			mu.Lock()
			execs += ex.Executions
			for o := range ex.Outcomes {
				if strings.Contains(o, "sc-durable=true marker-is-sc=true") {
					markerOK++
				}
			}
			mu.Unlock()
			return
		}
		ex := &verifmc.Explorer{C: c, Bound: bound, Name: fmt.Sprintf("%s:cut=%d", u.sc.name(), u.cut)}
		ex.Body = func(s *verifmc.Sched, report func(key, desc string)) string {
			return c21HistBody(s, *u.sc, u.cut, info, report)
		}
		ex.Run()
		mu.Lock()
		execs += ex.Executions
		histExecs += ex.Executions
		mu.Unlock()
	})
	fmt.Printf("C21-TIMING units wall %v; worker-busy base(on-disk) %v for %d execs, history(in-memory) %v for %d execs\n", time.Since(tUnits), baseBusy, execs-histExecs, histBusy, histExecs)
	c.Set("executions", execs)
	c.Set("preemption_bound", bound)
	c.Set("ordinary_snapshots", nOrdinary)
	c.Set("history_scenarios", len(scenarios))
	c.Set("history_crash_cuts", histCuts)
	c.Set("history_crash_cuts_in_prefix", histPrefixCuts)
	c.Set("history_executions", histExecs)
	for k, v := range info.reached {
		c.Set("history_reached:"+k, v)
	}
	for _, h := range info.harness {
		c.Require(false, "history part: %s", h)
	}
	if c.Violations() == 0 && !c.Expired("guards") {
		c.Require(markerOK > 0, "no execution reached a durable consensus snapshot with its marker")
		for _, k := range []string{
			"unrecorded-is-head",
			"unrecorded-then-ordinary:head-older-than-recorded",
			"unrecorded-then-ordinary:head-equal-to-recorded",
			"unrecorded-then-ordinary:head-newer-than-recorded",
			"unrecorded-then-ordinary:after-reinclusion-of-recorded",
			"reinclusion-durable-record-unmoved",
		} {
			c.Require(info.reached[k] > 0, "history part: no execution reached the restart in situation %q", k)
		}
	}
}
