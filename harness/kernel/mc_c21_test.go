//go:build verif

package kernel

import (
	"fmt"
	"strings"
	"sync"
	"sync/atomic"
	"testing"
	"time"

	"github.com/MixinNetwork/mixin/common"
	"github.com/MixinNetwork/mixin/crypto"
	"github.com/MixinNetwork/mixin/verifmc"
)

// C21 — consensus bookkeeping survives a crash after any finalization.
// Two chains finalize concurrently through the real cosiHandleFinalization:
// chain A a consensus-class singleton snapshot (node pledge), chain B ordinary
// snapshots. Every interleaving of their durable commits (bounded preemptions,
// commits are the scheduling points) x every crash cut is executed on an
// on-disk store, the process state abandoned, the directory reopened with the
// real SetupNode, and the recovery invariant evaluated.

type c21Result struct {
	durableLog string
	outcome    string
}

func c21Body(s *verifmc.Sched, kind string, cut int64, nOrdinary int, base string, seq *int64, mu *sync.Mutex, report func(key, desc string)) string {
	mu.Lock()
	*seq++
	dir := mcSubdir(base, int(*seq))
	mu.Unlock()
	defer mcRemoveAll(dir)

	run := mcOpenRun(dir, 0, true)
	m := run.M
	// setup (not subject to the cut): fund the pledge
	fund := &mcDelivery{Name: "fund", Chain: 2, TsOffset: 0, Build: mcCrDepositXIN("c21-pledge-fund", "13439")}
	mcDeliver(m, fund)
	pledgeTs := m.Net.Epoch + uint64(mcCrashBase+10*time.Second)
	elected := m.Node.electSnapshotNode(common.TransactionTypeNodePledge, pledgeTs)
	bChain := 3
	for m.Net.NodeIds[bChain] == elected || bChain == 2 {
		bChain++
	}
	pledge := &mcDelivery{Name: "pledge", Chain: -1, Elect: common.TransactionTypeNodePledge, TsOffset: 10 * time.Second, Build: mcCrPledge("c21-pledge-fund", 0)}
	if kind == "mint" {
		// the consensus-class snapshot is a mint, proposed by the chain elected for mints
		pledge = &mcDelivery{Name: "mint", Chain: -1, Elect: common.TransactionTypeMint, TailOnly: true, TsOffset: 10 * time.Second, Build: mcCrMint("c21")}
		elected = m.Node.electSnapshotNode(common.TransactionTypeMint, pledgeTs)
		bChain = 3
		for m.Net.NodeIds[bChain] == elected || bChain == 2 {
			bChain++
		}
	}
	var ordinary []*mcDelivery
	for i := 0; i < nOrdinary; i++ {
		ordinary = append(ordinary, &mcDelivery{Name: fmt.Sprint("ordinary", i), Chain: bChain, TsOffset: time.Duration(11+i) * time.Second, Build: mcCrDepositBTC(fmt.Sprint("c21-b", i), "1")})
	}
	run.Ctl.count.Store(0)
	run.Ctl.cut = cut

	s.LazyLocks = true // commits are the choice points
	var scHash crypto.Hash
	var bHashes []crypto.Hash
	var hmu sync.Mutex
	s.Go("A", func() {
		// the hash is known before the handler runs
		defer func() { _ = recover() }() // a failed commit panics inside the node: that is the crash
		snap := mcDeliver(m, pledge)
		hmu.Lock()
		scHash = snap.Hash
		hmu.Unlock()
	})
	s.Go("B", func() {
		defer func() { _ = recover() }()
		for _, d := range ordinary {
			snap := mcDeliver(m, d)
			hmu.Lock()
			bHashes = append(bHashes, snap.Hash)
			hmu.Unlock()
		}
	})
	s.RunAll()
	if s.Deadlock {
		run.Crash()
		report("harness:deadlock", strings.Join(s.Trace, " "))
		return "deadlock"
	}
	commits := run.Ctl.count.Load()
	if !pledge.Hash.HasValue() {
		// the crash hit before the pledge snapshot was even built (cannot happen: built before any commit of A)
		pledge.Hash = scHash
	}
	run.Crash()

	// ---- restart ----
	var re *mcReopen
	if pp, site := verifmc.CatchSite(func() { re = mcOpenRunNoSetup(dir) }); pp != nil {
		report(kind+":restart-panicked:"+site, fmt.Sprintf("SetupNode after crash at commit %d panicked: %v (schedule %s)", cut, pp, strings.Join(s.Trace, " ")))
		return "restart-panicked"
	}
	if re.err != nil {
		report("restart-failed", fmt.Sprintf("SetupNode after crash at commit %d failed: %v (schedule %s)", cut, re.err, strings.Join(s.Trace, " ")))
		return "restart-failed"
	}
	defer re.m.Close()
	st := re.m.Store
	sc, err := st.ReadSnapshot(pledge.Hash)
	if err != nil {
		report("restart-read-error", err.Error())
		return "read-error"
	}
	last, err := st.ReadLastConsensusSnapshot()
	if err != nil || last == nil {
		report("restart-read-error", fmt.Sprint("ReadLastConsensusSnapshot: ", last, err))
		return "read-error"
	}
	lastSnap, _ := st.LastSnapshot()
	out := fmt.Sprintf("commits=%d sc-durable=%v marker-is-sc=%v last-topology-is-sc=%v", min64(commits, cut-1), sc != nil, last.PayloadHash() == pledge.Hash, lastSnap != nil && lastSnap.PayloadHash() == pledge.Hash)
	if sc != nil && last.PayloadHash() != pledge.Hash {
		class := "marker-lost:consensus-snapshot-is-last-topology-entry"
		if lastSnap == nil || lastSnap.PayloadHash() != pledge.Hash {
			class = "marker-lost:ordinary-snapshot-written-after-consensus-snapshot"
		}
		report(kind+":"+class, fmt.Sprintf("consensus snapshot %s (%s) is durable but after restart the last recorded consensus operation is %s (timestamp %d); crash before commit %d; schedule %s", pledge.Hash, kind, last.PayloadHash(), last.Timestamp, cut, strings.Join(s.Trace, " ")))
	}
	return out
}

func min64(a, b int64) int64 {
	if b < a && b >= 0 {
		return b
	}
	return a
}

type mcReopen struct {
	m   *mcNode
	err error
}

func mcOpenRunNoSetup(dir string) *mcReopen {
	m, err := newMCNode(mcNet7, 0, dir)
	return &mcReopen{m: m, err: err}
}

func TestMC_C21(t *testing.T) {
	c := verifmc.Start(t, "C21", "model_checking")
	defer c.Finish()
	c.SetRule("base part: chain A finalizes a node-pledge / mint (consensus-class singleton) snapshot, chain B finalizes N ordinary snapshots, both through the real cosiHandleFinalization on an on-disk store; for every crash cut k (commit k and later fail) every interleaving of the two goroutines at commit granularity up to the on-disk preemption bound (quick 0: both non-preemptive orders; thorough 2); after each: close, reopen, real SetupNode, then the invariant 'consensus snapshot durable => last recorded consensus operation is it'. " +
		"long-window part (sequential, in memory): recorded mint A, then g in {0,1,99,100,101,102,200,201,202,301,302,303,402,403,404,498,499,500} ordinary single-transaction snapshots of other chains (or m in {19,20,21,25} batch snapshots of 25 transactions), then mint B finalized by WriteSnapshot with the stop before its consensus record, then k in {1,3} later ordinary snapshots (batch variant k=1); node abandoned, real SetupNode; B is inside the repository's 500-entry repair window in every case, so the record after restart must be B. " +
		"history part: the base workloads again in memory (recorded = genesis) plus the product {B = mint | pledge} x {recorded consensus transaction A re-included by a snapshot of another chain before B: no | yes} x {timestamps of the other chain's ordinary snapshots relative to recorded consensus snapshot A: older | equal | newer (thorough: also ordered pairs)}; history = prefix [A finalized+recorded, re-inclusion R] then thread A [B] || thread B [ordinary snapshots]; every crash cut of the WHOLE history (prefix commits included) x every interleaving of the concurrent part at commit granularity up to the preemption bound; after each: node abandoned, real SetupNode over the committed state, then 'consensus record == last finalized consensus snapshot in topological order (a re-inclusion of the recorded transaction does not move it)'")
	c.Assume("a Badger transaction commit is the atomic durable unit (crash points are commit boundaries of the snapshot DB)", "commits are the only scheduling points; kernel/topology.go's sequence mutex and the store mutex are modelled by the scheduler", "consensus-class operations exercised: node pledge (through the complete cosiHandleFinalization) and mint (through the post-validation tail: takeover lock, persist, AddSnapshot, reloadConsensusState); remove/custodian update share the pledge branch of reloadConsensusState",
		"long-window part: the ordinary snapshots are storage-level finalizations (lock, WriteTransaction, WriteSnapshot at the next topological position) of fresh custodian-signed deposits; the repair window promised is the repository's own (the most recent 500 topology entries)",
		"history part: the store is an in-memory Badger that survives the crash as committed (no close/reopen; the base part does the on-disk reopen); the re-inclusion R goes through the post-validation tail (AddSnapshot + reloadConsensusState) and lands before B is proposed (a re-inclusion validated before and written after B's record is a live-path matter, not a crash matter)")
	tStart := time.Now()
	base := mcScratchDir("c21-")
	defer mcRemoveAll(base)
	nOrdinary := verifmc.Pick(c, 1, 2)
	bound := verifmc.Pick(c, 1, 2)
	// quick: the on-disk units run the non-preemptive orders of every cut only;
	// the preempting interleavings of the same two workloads are explored in
	// memory (history scenarios "recorded=genesis"). An on-disk execution costs
	// 10-30x an in-memory one (four Badger directory databases opened and closed).
	diskBound := verifmc.Pick(c, 0, 2)

	var seq int64
	var mu sync.Mutex
	var execs, histExecs int64
	var baseBusy, histBusy time.Duration
	markerOK := 0
	kinds := []string{"pledge", "mint"}
	totals := make([]int64, len(kinds))
	scenarios := c21Scenarios(c.Thorough())
	info := &c21HistInfo{total: map[string]int64{}, prefix: map[string]int64{}, reached: map[string]int64{}}

	// one unit = one workload with one crash cut (0 = no crash), all schedules
	runBase := func(kind string, cut int64) *verifmc.Explorer {
		t0 := time.Now()
		ex := &verifmc.Explorer{C: c, Bound: diskBound, Name: fmt.Sprintf("%s:cut=%d", kind, cut)}
		if cut == 0 {
			ex.Name = kind + ":no-crash"
		}
		ex.Body = func(s *verifmc.Sched, report func(key, desc string)) string {
			return c21Body(s, kind, cut, nOrdinary, base, &seq, &mu, report)
		}
		ex.Run()
		mu.Lock()
		execs += ex.Executions
		baseBusy += time.Since(t0)
		for o := range ex.Outcomes {
			if strings.Contains(o, "sc-durable=true marker-is-sc=true") {
				markerOK++
			}
		}
		mu.Unlock()
		return ex
	}
	runHist := func(sc c21Scenario, cut int64) *verifmc.Explorer {
		t0 := time.Now()
		ex := &verifmc.Explorer{C: c, Bound: bound, Name: fmt.Sprintf("%s:cut=%d", sc.name(), cut)}
		if cut == 0 {
			ex.Name = sc.name() + ":no-crash"
		}
		ex.Body = func(s *verifmc.Sched, report func(key, desc string)) string {
			return c21HistBody(s, sc, cut, info, report)
		}
		ex.Run()
		mu.Lock()
		execs += ex.Executions
		histExecs += ex.Executions
		histBusy += time.Since(t0)
		mu.Unlock()
		return ex
	}

	// ---- base part, on disk: its own small pool (the directory databases of one
	// process slow each other down), running beside the in-memory history part.
	// Per workload: the no-crash unit first (it tells the number of commits),
	// then the cuts 1..commits.
	var dwg sync.WaitGroup
	for i, kind := range kinds {
		dwg.Add(1)
		go func() {
			defer dwg.Done()
			ex := runBase(kind, 0)
			for o := range ex.Outcomes {
				fmt.Sscanf(o, "commits=%d", &totals[i])
			}
			var next atomic.Int64
			var wg sync.WaitGroup
			for w := 0; w < 4; w++ {
				wg.Add(1)
				go func() {
					defer wg.Done()
					for {
						cut := next.Add(1)
						if cut > totals[i] || c.Expired("crash cuts (on-disk units)") {
							return
						}
						runBase(kind, cut)
					}
				}()
			}
			wg.Wait()
		}()
	}

	// ---- long-window part: sequential cases, in memory, beside the on-disk pool
	c21LongPart(c)
	fmt.Printf("C21-TIMING long-window part done at %v\n", time.Since(tStart))

	// ---- history part, in memory: no-crash units, then every cut of every scenario
	c.ParallelN(len(scenarios), "no-crash runs", func(_, i int) {
		sc := scenarios[i]
		ex := runHist(sc, 0)
		var pre, tot int64
		for o := range ex.Outcomes {
			fmt.Sscanf(o, "prefix=%d commits=%d", &pre, &tot)
		}
		info.mu.Lock()
		info.prefix[sc.name()], info.total[sc.name()] = pre, tot
		info.mu.Unlock()
	})
	fmt.Printf("C21-TIMING in-memory no-crash units done at %v\n", time.Since(tStart))
	type unit struct {
		sc  *c21Scenario
		cut int64
	}
	var units []unit
	var histCuts, histPrefixCuts int64
	for i := range scenarios {
		sc := &scenarios[i]
		pre, tot := info.prefix[sc.name()], info.total[sc.name()]
		want := int64(4) // A: lock, persist, snapshot, record
		if sc.NoA {
			want = 0
		}
		c.Require(c.Expired("guards") || c.Violations() > 0 || (pre >= want && tot >= pre+6), "%s no-crash run found only %d prefix / %d total commits", sc.name(), pre, tot)
		histCuts++ // the no-crash unit
		for cut := int64(1); cut <= tot; cut++ {
			units = append(units, unit{sc: sc, cut: cut})
			histCuts++
			if cut <= pre {
				histPrefixCuts++
			}
		}
	}
	c.ParallelN(len(units), "crash cuts (in-memory units)", func(_, i int) { runHist(*units[i].sc, units[i].cut) })
	fmt.Printf("C21-TIMING in-memory units done at %v\n", time.Since(tStart))
	dwg.Wait()
	var baseCuts int64
	for i, kind := range kinds {
		c.Require(c.Expired("guards") || c.Violations() > 0 || totals[i] >= 6, "%s no-crash run found only %d commits", kind, totals[i])
		c.Set("commits_in_workload_"+kind, totals[i])
		baseCuts += totals[i] + 1
	}
	fmt.Printf("C21-TIMING all units done at %v; worker-busy base(on-disk) %v for %d execs, history(in-memory) %v for %d execs\n", time.Since(tStart), baseBusy, execs-histExecs, histBusy, histExecs)
	c.Set("executions", execs)
	c.Set("preemption_bound", bound)
	c.Set("preemption_bound_on_disk_units", diskBound)
	c.Set("ordinary_snapshots", nOrdinary)
	c.Set("base_crash_cuts", baseCuts)
	c.Set("base_executions", execs-histExecs)
	c.Set("history_scenarios", len(scenarios))
	c.Set("history_crash_cuts", histCuts)
	c.Set("history_crash_cuts_in_prefix", histPrefixCuts)
	c.Set("history_executions", histExecs)
	for k, v := range info.reached {
		c.Set("history_reached:"+k, v)
	}
	for _, h := range info.harness {
		c.Require(false, "history part: %s", h)
	}
	if c.Violations() == 0 && !c.Expired("guards") {
		c.Require(markerOK > 0, "no execution reached a durable consensus snapshot with its marker")
		for _, k := range []string{
			"unrecorded-is-head",
			"unrecorded-then-ordinary:head-older-than-recorded",
			"unrecorded-then-ordinary:head-equal-to-recorded",
			"unrecorded-then-ordinary:head-newer-than-recorded",
			"unrecorded-then-ordinary:after-reinclusion-of-recorded",
			"reinclusion-durable-record-unmoved",
		} {
			c.Require(info.reached[k] > 0, "history part: no execution reached the restart in situation %q", k)
		}
	}
}
