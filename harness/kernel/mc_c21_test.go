//go:build verif

package kernel

import (
	"fmt"
	"strings"
	"sync"
	"testing"
	"time"

	"github.com/MixinNetwork/mixin/common"
	"github.com/MixinNetwork/mixin/crypto"
	"github.com/MixinNetwork/mixin/verifmc"
)

// C21 — consensus bookkeeping survives a crash after any finalization.
// Two chains finalize concurrently through the real cosiHandleFinalization:
// chain A a consensus-class singleton snapshot (node pledge), chain B ordinary
// snapshots. Every interleaving of their durable commits (bounded preemptions,
// commits are the scheduling points) x every crash cut is executed on an
// on-disk store, the process state abandoned, the directory reopened with the
// real SetupNode, and the recovery invariant evaluated.

type c21Result struct {
	durableLog string
	outcome    string
}

func c21Body(s *verifmc.Sched, kind string, cut int64, nOrdinary int, base string, seq *int64, mu *sync.Mutex, report func(key, desc string)) string {
	mu.Lock()
	*seq++
	dir := mcSubdir(base, int(*seq))
	mu.Unlock()
	defer mcRemoveAll(dir)

	run := mcOpenRun(dir, 0, true)
	m := run.M
	// setup (not subject to the cut): fund the pledge
	fund := &mcDelivery{Name: "fund", Chain: 2, TsOffset: 0, Build: mcCrDepositXIN("c21-pledge-fund", "13439")}
	mcDeliver(m, fund)
	pledgeTs := m.Net.Epoch + uint64(mcCrashBase+10*time.Second)
	elected := m.Node.electSnapshotNode(common.TransactionTypeNodePledge, pledgeTs)
	bChain := 3
	for m.Net.NodeIds[bChain] == elected || bChain == 2 {
		bChain++
	}
	pledge := &mcDelivery{Name: "pledge", Chain: -1, Elect: common.TransactionTypeNodePledge, TsOffset: 10 * time.Second, Build: mcCrPledge("c21-pledge-fund", 0)}
	if kind == "mint" {
		// the consensus-class snapshot is a mint, proposed by the chain elected for mints
		pledge = &mcDelivery{Name: "mint", Chain: -1, Elect: common.TransactionTypeMint, TailOnly: true, TsOffset: 10 * time.Second, Build: mcCrMint("c21")}
		elected = m.Node.electSnapshotNode(common.TransactionTypeMint, pledgeTs)
		bChain = 3
		for m.Net.NodeIds[bChain] == elected || bChain == 2 {
			bChain++
		}
	}
	var ordinary []*mcDelivery
	for i := 0; i < nOrdinary; i++ {
		ordinary = append(ordinary, &mcDelivery{Name: fmt.Sprint("ordinary", i), Chain: bChain, TsOffset: time.Duration(11+i) * time.Second, Build: mcCrDepositBTC(fmt.Sprint("c21-b", i), "1")})
	}
	run.Ctl.count.Store(0)
	run.Ctl.cut = cut

	s.LazyLocks = true // commits are the choice points
	var scHash crypto.Hash
	var bHashes []crypto.Hash
	var hmu sync.Mutex
	s.Go("A", func() {
		// the hash is known before the handler runs
		defer func() { _ = recover() }() // a failed commit panics inside the node: that is the crash
		snap := mcDeliver(m, pledge)
		hmu.Lock()
		scHash = snap.Hash
		hmu.Unlock()
	})
	s.Go("B", func() {
		defer func() { _ = recover() }()
		for _, d := range ordinary {
			snap := mcDeliver(m, d)
			hmu.Lock()
			bHashes = append(bHashes, snap.Hash)
			hmu.Unlock()
		}
	})
	s.RunAll()
	if s.Deadlock {
		run.Crash()
		report("harness:deadlock", strings.Join(s.Trace, " "))
		return "deadlock"
	}
	commits := run.Ctl.count.Load()
	if !pledge.Hash.HasValue() {
		// the crash hit before the pledge snapshot was even built (cannot happen: built before any commit of A)
		pledge.Hash = scHash
	}
	run.Crash()

	// ---- restart ----
	var re *mcReopen
	if pp, site := verifmc.CatchSite(func() { re = mcOpenRunNoSetup(dir) }); pp != nil {
		report(kind+":restart-panicked:"+site, fmt.Sprintf("SetupNode after crash at commit %d panicked: %v (schedule %s)", cut, pp, strings.Join(s.Trace, " ")))
		return "restart-panicked"
	}
	if re.err != nil {
		report("restart-failed", fmt.Sprintf("SetupNode after crash at commit %d failed: %v (schedule %s)", cut, re.err, strings.Join(s.Trace, " ")))
		return "restart-failed"
	}
	defer re.m.Close()
	st := re.m.Store
	sc, err := st.ReadSnapshot(pledge.Hash)
	if err != nil {
		report("restart-read-error", err.Error())
		return "read-error"
	}
	last, err := st.ReadLastConsensusSnapshot()
	if err != nil || last == nil {
		report("restart-read-error", fmt.Sprint("ReadLastConsensusSnapshot: ", last, err))
		return "read-error"
	}
	lastSnap, _ := st.LastSnapshot()
	out := fmt.Sprintf("commits=%d sc-durable=%v marker-is-sc=%v last-topology-is-sc=%v", min64(commits, cut-1), sc != nil, last.PayloadHash() == pledge.Hash, lastSnap != nil && lastSnap.PayloadHash() == pledge.Hash)
	if sc != nil && last.PayloadHash() != pledge.Hash {
		class := "marker-lost:consensus-snapshot-is-last-topology-entry"
		if lastSnap == nil || lastSnap.PayloadHash() != pledge.Hash {
			class = "marker-lost:ordinary-snapshot-written-after-consensus-snapshot"
		}
		report(kind+":"+class, fmt.Sprintf("consensus snapshot %s (%s) is durable but after restart the last recorded consensus operation is %s (timestamp %d); crash before commit %d; schedule %s", pledge.Hash, kind, last.PayloadHash(), last.Timestamp, cut, strings.Join(s.Trace, " ")))
	}
	return out
}

func min64(a, b int64) int64 {
	if b < a && b >= 0 {
		return b
	}
	return a
}

type mcReopen struct {
	m   *mcNode
	err error
}

func mcOpenRunNoSetup(dir string) *mcReopen {
	m, err := newMCNode(mcNet7, 0, dir)
	return &mcReopen{m: m, err: err}
}

func TestMC_C21(t *testing.T) {
	c := verifmc.Start(t, "C21", "model_checking")
	defer c.Finish()
	c.SetRule("workload: chain A finalizes a node-pledge (consensus-class singleton) snapshot, chain B finalizes N ordinary snapshots, both through the real cosiHandleFinalization on an on-disk store; for every crash cut k (commit k and later fail) every interleaving of the two goroutines at commit granularity up to the preemption bound; after each: close, reopen, real SetupNode, then the invariant 'consensus snapshot durable => last recorded consensus operation is it'")
	c.Assume("a Badger transaction commit is the atomic durable unit (crash points are commit boundaries of the snapshot DB)", "commits are the only scheduling points; kernel/topology.go's sequence mutex and the store mutex are modelled by the scheduler", "consensus-class operations exercised: node pledge (through the complete cosiHandleFinalization) and mint (through the post-validation tail: takeover lock, persist, AddSnapshot, reloadConsensusState); remove/custodian update share the pledge branch of reloadConsensusState")
	base := mcScratchDir("c21-")
	defer mcRemoveAll(base)
	nOrdinary := verifmc.Pick(c, 1, 2)
	bound := verifmc.Pick(c, 1, 2)

	var seq int64
	var mu sync.Mutex
	var execs int64
	markerOK := 0
	for _, kind := range []string{"pledge", "mint"} {
		kind := kind
		// probe run without cut: number of commits of the workload
		var total int64
		{
			ex := &verifmc.Explorer{C: c, Bound: 0, Name: kind + ":probe"}
			ex.Body = func(s *verifmc.Sched, report func(key, desc string)) string {
				return c21Body(s, kind, 0, nOrdinary, base, &seq, &mu, report)
			}
			ex.Run()
			for o := range ex.Outcomes {
				fmt.Sscanf(o, "commits=%d", &total)
			}
		}
		c.Require(total >= 6, "%s probe found only %d commits", kind, total)
		c.Set("commits_in_workload_"+kind, total)
		c.ParallelN(int(total)+1, "crash cuts", func(_, i int) {
			cut := int64(i + 1) // 1..total+1 (total+1 = no crash)
			ex := &verifmc.Explorer{C: c, Bound: bound, Name: fmt.Sprintf("%s:cut=%d", kind, cut)}
			ex.Body = func(s *verifmc.Sched, report func(key, desc string)) string {
				return c21Body(s, kind, cut, nOrdinary, base, &seq, &mu, report)
			}
			ex.Run()
			mu.Lock()
			execs += ex.Executions
			for o := range ex.Outcomes {
				if strings.Contains(o, "sc-durable=true marker-is-sc=true") {
					markerOK++
				}
			}
			mu.Unlock()
		})
	}
	c.Set("executions", execs)
	c.Set("preemption_bound", bound)
	c.Set("ordinary_snapshots", nOrdinary)
	c.Require(markerOK > 0, "no execution reached a durable consensus snapshot with its marker")
}
