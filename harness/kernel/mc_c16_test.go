//go:build verif

package kernel

import (
	"bytes"
	"fmt"
	"math/big"
	"regexp"
	"sort"
	"strings"
	"sync"
	"sync/atomic"
	"testing"
	"time"

	"github.com/MixinNetwork/mixin/common"
	"github.com/MixinNetwork/mixin/crypto"
	"github.com/MixinNetwork/mixin/verifmc"
	"github.com/MixinNetwork/mixin/verifmc/fixc"
)

// C16 — transactions that validate together can always be finalized.
//
// Every snapshot of the exploration goes through the node's REAL
// validateSnapshotTransaction(s,false) (validate + batch rules + lock + persist
// of every member) and, when that accepts with nothing missing, through the real
// finalization path validateSnapshotTransaction(s,true) + TopoWrite (which
// panics when WriteSnapshot fails). Oracle: accepted at signing time ⇒ the
// write does not fail. A small reference ledger (totals, asset infos, finalized
// set, output keys) is kept next to the node; it is used (a) as a self check of
// the harness after every successful write and (b) to name the class of a
// failing write from the batch composition, never as the oracle itself.

// ---- alphabet ----

// batchable candidate kinds first, then the non batchable mint
var c16Kinds = []string{
	"d1250", "d1249.9", "d0.1", "d0.05", "d3000", // custodian-signed BTC deposits (capacity 2500)
	"du",  // deposit of a never seen asset id with the huge default capacity
	"du2", // deposit of the same asset id carrying different asset info
	"t1",  // BTC transfer (split of the smallest free output)
	"t2",  // BTC transfer spending the same output as t1 (double spend)
	"tx",  // XIN transfer
	"tg",  // XIN transfer whose output reuses the one-time key of t1's first output
	"s",   // withdrawal submit of 0.5 BTC
	"c",   // withdrawal claim referencing the latest submit of an earlier snapshot
	"cs",  // withdrawal claim referencing the submit candidate of the same step
	"m",   // universal mint (not batchable)
}

const c16NBatchable = 14

var c16Bases = []string{"none", "b0", "b1250", "b2499.9"}

var c16AssetU = fixc.Hash("c16-unseen-asset")

func c16CapOf(asset crypto.Hash) *big.Int { return mcKUnits(common.GetAssetCapacity(asset)) }

func c16AssetName(a crypto.Hash) string {
	switch a {
	case common.BitcoinAssetId:
		return "BTC"
	case common.XINAssetId:
		return "XIN"
	case c16AssetU:
		return "U"
	}
	return a.String()[:8]
}

var c16Assets = []crypto.Hash{common.XINAssetId, common.BitcoinAssetId, c16AssetU, c16AssetV}

// ---- near-miss asset identities (deposit asset-info menu) ----
//
// A deposit carries (asset id, chain, asset key). The menu deposits an asset
// whose identity is (or is about to be) registered with an info that misses the
// registered one narrowly: key differing only in letter case, padded with a
// space, or the same key on another chain.

// c16AssetV is registered by the menu itself with a mixed-case (checksum style)
// hex contract address, so that upper, lower and mixed variants all differ.
var c16AssetV = fixc.Hash("c16-checksum-asset")

const c16KeyV = "0xdAC17F958D2ee523a2206206994597C13D831ec7"

var c16NMAssets = []string{"BTC", "XIN", "V"}
var c16NMVariants = []string{"upper", "lower", "mixed", "trailing-space", "leading-space", "other-chain"}

// pending-first / pending-second name the finalization order of the two signed snapshots
var c16NMContexts = []string{"alone", "same-batch", "pending-first", "pending-second", "after-finalized"}

// c16NMCanonical returns (asset id, registered chain, registered key, amount).
func c16NMCanonical(asset string) (crypto.Hash, crypto.Hash, string, string) {
	switch asset {
	case "BTC":
		return common.BitcoinAssetId, common.BitcoinAssetId, fixc.BTCAssetKey, "0.01"
	case "XIN":
		return common.XINAssetId, common.XINAsset.Chain, common.XINAsset.AssetKey, "1"
	case "V":
		return c16AssetV, common.EthereumAssetId, c16KeyV, "5"
	}
	panic(asset)
}

// c16NMInfo applies a variant to the registered info; ok=false when the result
// is identical to the registered info (nothing to miss).
func c16NMInfo(chain crypto.Hash, key, variant string) (crypto.Hash, string, bool) {
	nc, nk := chain, key
	switch variant {
	case "upper":
		nk = strings.ToUpper(key)
	case "lower":
		nk = strings.ToLower(key)
	case "mixed":
		b, n := []byte(key), 0
		for i, ch := range b {
			lo, up := ch >= 'a' && ch <= 'z', ch >= 'A' && ch <= 'Z'
			if !lo && !up {
				continue
			}
			if n%2 == 0 {
				if lo {
					b[i] = ch - 'a' + 'A'
				} else {
					b[i] = ch - 'A' + 'a'
				}
			}
			n++
		}
		nk = string(b)
	case "trailing-space":
		nk = key + " "
	case "leading-space":
		nk = " " + key
	case "other-chain":
		nc = common.BitcoinAssetId
		if chain == nc {
			nc = common.EthereumAssetId
		}
	default:
		panic(variant)
	}
	return nc, nk, nc != chain || nk != key
}

// c16NMVariantOf names how info d misses the registered info old.
func c16NMVariantOf(old common.Asset, d *common.DepositData) string {
	switch {
	case old.Chain != d.Chain && old.AssetKey == d.AssetKey:
		return "other-chain"
	case old.Chain != d.Chain:
		return "other"
	case strings.EqualFold(old.AssetKey, d.AssetKey):
		switch d.AssetKey {
		case strings.ToUpper(old.AssetKey):
			return "upper"
		case strings.ToLower(old.AssetKey):
			return "lower"
		}
		return "mixed"
	case strings.TrimSpace(d.AssetKey) == old.AssetKey && strings.HasPrefix(d.AssetKey, old.AssetKey):
		return "trailing-space"
	case strings.TrimSpace(d.AssetKey) == old.AssetKey:
		return "leading-space"
	}
	return "other"
}

// ---- reference ledger ----

type c16Model struct {
	total map[crypto.Hash]*big.Int
	info  map[crypto.Hash]common.Asset
	final map[crypto.Hash]bool
	ghost map[crypto.Key]crypto.Hash
}

func (m *c16Model) clone() *c16Model {
	n := &c16Model{total: map[crypto.Hash]*big.Int{}, info: map[crypto.Hash]common.Asset{}, final: map[crypto.Hash]bool{}, ghost: map[crypto.Key]crypto.Hash{}}
	for k, v := range m.total {
		n.total[k] = new(big.Int).Set(v)
	}
	for k, v := range m.info {
		n.info[k] = v
	}
	for k, v := range m.final {
		n.final[k] = v
	}
	for k, v := range m.ghost {
		n.ghost[k] = v
	}
	return n
}

func (m *c16Model) tot(a crypto.Hash) *big.Int {
	if m.total[a] == nil {
		m.total[a] = new(big.Int)
	}
	return m.total[a]
}

type c16Tx struct {
	kind string
	ver  *common.VersionedTransaction
	hash crypto.Hash
}

type c16Snap struct {
	s       *common.Snapshot
	signers []crypto.Hash
	txs     []*c16Tx // snapshot (= hash) order
	// the reference ledger as it was when the snapshot was validated (signed)
	val *c16Model
}

func (sn *c16Snap) kinds() []string {
	out := make([]string, len(sn.txs))
	for i, t := range sn.txs {
		out[i] = t.kind
	}
	sort.Strings(out)
	return out
}

// c16Classify names the finalization precondition that writing sn violates,
// given the reference ledger at write time (cur) and at validation time
// (sn.val) and the other pending snapshots. "" = the model sees no reason.
func c16Classify(sn *c16Snap, cur *c16Model, pending []*c16Snap) string {
	m := cur.clone()
	inSnap := map[crypto.Hash]bool{}
	for _, t := range sn.txs {
		inSnap[t.hash] = true
	}
	inPending := func(h crypto.Hash) bool {
		for _, p := range pending {
			for _, t := range p.txs {
				if t.hash == h {
					return true
				}
			}
		}
		return false
	}
	// output keys are locked at signing time: a pending snapshot owns its keys
	for _, p := range pending {
		for _, t := range p.txs {
			for _, o := range t.ver.Outputs {
				for _, k := range o.Keys {
					if _, ok := m.ghost[*k]; !ok {
						m.ghost[*k] = t.hash
					}
				}
			}
		}
	}
	own := map[crypto.Hash]*big.Int{} // deposits of this snapshot so far, per asset
	for _, t := range sn.txs {
		if m.final[t.hash] {
			continue // second snapshot of a final transaction: finalizeTransaction returns early
		}
		tx := t.ver
		switch tx.TransactionType() {
		case common.TransactionTypeDeposit:
			d := tx.DepositData()
			if old, ok := m.info[tx.Asset]; ok && (old.Chain != d.Chain || old.AssetKey != d.AssetKey) {
				if _, seen := sn.val.info[tx.Asset]; !seen {
					for _, o := range sn.txs {
						if o != t && o.ver.TransactionType() == common.TransactionTypeDeposit && o.ver.Asset == tx.Asset {
							od := o.ver.DepositData()
							if od.Chain != d.Chain || od.AssetKey != d.AssetKey {
								return "deposits-unseen-asset-conflicting-info"
							}
						}
					}
					return "pending-deposits-unseen-asset-conflicting-info"
				}
				// the asset was registered when this deposit was validated: validation
				// compared the infos and let a different one through
				return "deposit-asset-key-near-miss:" + c16NMVariantOf(old, d)
			}
			x := mcKUnits(d.Amount)
			if own[tx.Asset] == nil {
				own[tx.Asset] = new(big.Int)
			}
			own[tx.Asset].Add(own[tx.Asset], x)
			cp := c16CapOf(tx.Asset)
			if new(big.Int).Add(m.tot(tx.Asset), x).Cmp(cp) > 0 {
				_, seen := sn.val.info[tx.Asset]
				if !seen && x.Cmp(cp) > 0 {
					return "deposit-unseen-asset-above-capacity"
				}
				if new(big.Int).Add(sn.val.tot(tx.Asset), own[tx.Asset]).Cmp(cp) > 0 {
					return "deposits-jointly-above-capacity"
				}
				return "pending-deposits-jointly-above-capacity"
			}
		case common.TransactionTypeMint:
			x := mcKUnits(tx.Inputs[0].Mint.Amount)
			if new(big.Int).Add(m.tot(tx.Asset), x).Cmp(c16CapOf(tx.Asset)) > 0 {
				return "mint-above-capacity"
			}
		case common.TransactionTypeWithdrawalClaim:
			r := tx.References[0]
			if !m.final[r] {
				if inSnap[r] {
					return "claim-with-submit-in-same-batch"
				}
				if inPending(r) {
					return "claim-with-submit-pending-unfinalized"
				}
				return "claim-with-unfinalized-submit"
			}
		}
		if verifmc.Catch(func() { tx.UnspentOutputs() }) != nil {
			// an output type byte finalization has no rule for
			return "output-type-undefined"
		}
		for _, o := range tx.Outputs {
			for _, k := range o.Keys {
				if by, ok := m.ghost[*k]; ok && by != t.hash {
					if inSnap[by] {
						return "output-key-reused-in-batch"
					}
					return "output-key-reused-across-snapshots"
				}
			}
		}
		m.apply(tx, t.hash)
	}
	return ""
}

// apply is the reference effect of finalizing tx.
func (m *c16Model) apply(tx *common.VersionedTransaction, h crypto.Hash) {
	if m.final[h] {
		return
	}
	m.final[h] = true
	switch tx.TransactionType() {
	case common.TransactionTypeDeposit:
		d := tx.DepositData()
		if _, ok := m.info[tx.Asset]; !ok {
			m.info[tx.Asset] = *d.Asset()
		}
		m.tot(tx.Asset).Add(m.tot(tx.Asset), mcKUnits(d.Amount))
	case common.TransactionTypeMint:
		m.tot(tx.Asset).Add(m.tot(tx.Asset), mcKUnits(tx.Inputs[0].Mint.Amount))
	case common.TransactionTypeWithdrawalSubmit:
		for _, o := range tx.Outputs {
			if o.Type == common.OutputTypeWithdrawalSubmit {
				m.tot(tx.Asset).Sub(m.tot(tx.Asset), mcKUnits(o.Amount))
			}
		}
	}
	for _, o := range tx.Outputs {
		for _, k := range o.Keys {
			m.ghost[*k] = h
		}
	}
}

// ---- instance ----

type c16Inst struct {
	m    *mcNode
	w    *mcKWallet
	mod  *c16Model
	t0   uint64
	step int
	memo map[string]*c16Tx
	// wallet memory across steps
	prevT1      *mcKUTXO // input of the t1 of an earlier validated snapshot
	prevT1Label string
	curT1       *mcKUTXO
	lastSubmit  *crypto.Hash
	dead        bool
}

func c16New() (*c16Inst, error) {
	m, err := newMCNode(mcNet7, 0, "")
	if err != nil {
		return nil, err
	}
	in := &c16Inst{m: m, w: newMCKWallet(m)}
	// 08:00 of mint day 1707, the first batch of this kernel: a fixed instant > epoch+1
	in.t0 = mcKMintTime(m.Node.Epoch, KernelNetworkLegacyEnding+1)
	in.mod = &c16Model{total: map[crypto.Hash]*big.Int{}, info: map[crypto.Hash]common.Asset{}, final: map[crypto.Hash]bool{}, ghost: map[crypto.Key]crypto.Hash{}}
	for _, a := range c16Assets {
		info, bal, err := m.Store.ReadAssetWithBalance(a)
		if err != nil {
			m.Close()
			return nil, err
		}
		if info != nil {
			in.mod.info[a] = *info
			in.mod.total[a] = mcKUnits(bal)
		}
	}
	return in, nil
}

func (in *c16Inst) close() { in.m.Close() }

var c16HalfBTC = common.NewIntegerFromString("0.5")

// cand builds (once per step) the candidate transaction of a kind against the
// current store content; nil = not enabled in this state.
func (in *c16Inst) cand(kind string) *c16Tx {
	if t, ok := in.memo[kind]; ok {
		return t
	}
	var ver *common.VersionedTransaction
	w := in.w
	lbl := fmt.Sprintf("c16-%s-s%d", kind, in.step)
	switch kind {
	case "d1250", "d1249.9", "d0.1", "d0.05", "d3000":
		ver = w.txDepositBTC(lbl, kind[1:])
	case "du":
		ver = w.txDepositAsset(c16AssetU, common.EthereumAssetId, "0xc16unseen-a", lbl, "3000")
	case "du2":
		ver = w.txDepositAsset(c16AssetU, common.EthereumAssetId, "0xc16unseen-b", lbl, "7")
	case "t1":
		if us := w.spendable(common.BitcoinAssetId); len(us) > 0 {
			u := us[0]
			if half := u.Amount.Div(2); half.Sign() > 0 {
				in.curT1 = u
				ver = w.txTransfer(u, []common.Integer{half, u.Amount.Sub(half)}, lbl)
			}
		}
	case "t2":
		u := in.prevT1
		if u == nil && in.cand("t1") != nil {
			u = in.curT1
		}
		if u != nil {
			if q := u.Amount.Div(4); q.Sign() > 0 {
				ver = w.txTransfer(u, []common.Integer{u.Amount.Sub(q), q}, lbl)
			}
		}
	case "tx":
		if us := w.spendable(common.XINAssetId); len(us) > 0 {
			u := us[0]
			if half := u.Amount.Div(2); half.Sign() > 0 {
				ver = w.txTransfer(u, []common.Integer{half, u.Amount.Sub(half)}, lbl)
			}
		}
	case "tg":
		label := in.prevT1Label
		if label == "" && in.cand("t1") != nil {
			label = fmt.Sprintf("c16-t1-s%d", in.step)
		}
		if us := w.spendable(common.XINAssetId); len(us) > 0 && label != "" {
			u := us[len(us)-1]
			ver = w.txTransfer(u, []common.Integer{u.Amount}, label) // same seed, receiver and index as t1's output 0
		}
	case "s":
		us := w.spendable(common.BitcoinAssetId)
		for i := len(us) - 1; i >= 0; i-- {
			if us[i].Amount.Cmp(c16HalfBTC) > 0 {
				ver = w.txSubmit(us[i], c16HalfBTC, lbl)
				break
			}
		}
	case "c":
		if us := w.spendable(common.XINAssetId); len(us) > 0 && in.lastSubmit != nil {
			u := us[0]
			if len(us) > 1 {
				u = us[1]
			}
			ver = w.txClaim(u, *in.lastSubmit, lbl)
		}
	case "cs":
		if us := w.spendable(common.XINAssetId); len(us) > 0 && in.cand("s") != nil {
			u := us[len(us)-1]
			if len(us) > 2 {
				u = us[2]
			}
			sh := in.cand("s").hash
			// the claim sorts after the submit in the snapshot (the order in
			// which a finalization could see the submit final)
			for salt := 0; salt < 64 && ver == nil; salt++ {
				v := w.txClaim(u, sh, fmt.Sprintf("%s-%d", lbl, salt))
				if v == nil {
					break
				}
				if vh := v.PayloadHash(); bytes.Compare(vh[:], sh[:]) > 0 {
					ver = v
				}
			}
		}
	case "m":
		ver = w.txMint(in.t0 + uint64(in.step)*uint64(time.Second))
	default:
		panic(kind)
	}
	var t *c16Tx
	if ver != nil {
		t = &c16Tx{kind: kind, ver: ver, hash: ver.PayloadHash()}
	}
	in.memo[kind] = t
	return t
}

func (in *c16Inst) beginStep(step int) {
	in.step = step
	in.memo = map[string]*c16Tx{}
	in.curT1 = nil
}

// propose puts the transactions into the node's cache (as received from
// clients / peers) and builds the snapshot on chain's head round.
func (in *c16Inst) propose(txs []*c16Tx, chain crypto.Hash, ts uint64) (*c16Snap, error) {
	head, err := in.m.Store.ReadRound(chain)
	if err != nil || head == nil {
		return nil, fmt.Errorf("ReadRound: %v", err)
	}
	s := &common.Snapshot{Version: common.SnapshotVersionCommonEncoding, NodeId: chain, RoundNumber: head.Number, References: head.References, Timestamp: ts}
	sorted := append([]*c16Tx{}, txs...)
	sort.Slice(sorted, func(i, j int) bool { return bytes.Compare(sorted[i].hash[:], sorted[j].hash[:]) < 0 })
	for _, t := range sorted {
		if err := in.m.Store.CacheStoreTransaction(t.ver); err != nil {
			return nil, err
		}
		s.AddTransaction(t.hash)
	}
	s.Hash = s.PayloadHash()
	s.Signature = &crypto.CosiSignature{Mask: 1}
	return &c16Snap{s: s, signers: []crypto.Hash{chain}, txs: sorted}, nil
}

var c16ReVar = regexp.MustCompile(`\{[^}]*\}|[0-9a-fA-F]{16,}|[0-9]+(\.[0-9]+)?`)

// c16ErrClass strips hashes, numbers and struct dumps from an error text.
func c16ErrClass(err error) string {
	s := c16ReVar.ReplaceAllString(err.Error(), " ")
	s = strings.Join(strings.Fields(s), "_")
	if len(s) > 60 {
		s = s[:60]
	}
	return s
}

// validate = the signing-time path of the real node.
// returns ("", nil) when accepted; otherwise the rejection class.
func (in *c16Inst) validate(sn *c16Snap) (reject string, panicked any) {
	var found map[crypto.Hash]*common.VersionedTransaction
	var missing []crypto.Hash
	var err error
	sn.val = in.mod.clone()
	p, _ := verifmc.CatchSite(func() { found, missing, err = in.m.Node.validateSnapshotTransaction(sn.s, false) })
	if p != nil {
		return "panic", p
	}
	if err != nil {
		return c16ErrClass(err), nil
	}
	if len(missing) > 0 || len(found) != len(sn.txs) {
		return "missing", nil
	}
	// remember what later candidates may refer to
	for _, t := range sn.txs {
		switch t.kind {
		case "t1":
			in.prevT1, in.prevT1Label = in.curT1, fmt.Sprintf("c16-t1-s%d", in.step)
		case "s", "sall":
			h := t.hash
			in.lastSubmit = &h
		}
	}
	return "", nil
}

type c16WriteResult struct {
	rejected string // finalization-time validation refused (no write attempted)
	failed   any    // TopoWrite panicked
	site     string
}

// finalize = the finalization path of the real node: re-validation with
// finalized=true, then TopoWrite.
func (in *c16Inst) finalize(sn *c16Snap) c16WriteResult {
	var found map[crypto.Hash]*common.VersionedTransaction
	var missing []crypto.Hash
	var err error
	p, site := verifmc.CatchSite(func() { found, missing, err = in.m.Node.validateSnapshotTransaction(sn.s, true) })
	if p != nil {
		return c16WriteResult{failed: fmt.Sprintf("finalization-time validation panicked: %v", p), site: site}
	}
	if err != nil {
		return c16WriteResult{rejected: c16ErrClass(err)}
	}
	if len(missing) > 0 || len(found) != len(sn.txs) {
		return c16WriteResult{rejected: "missing"}
	}
	p, site = verifmc.CatchSite(func() { in.m.Node.TopoWrite(sn.s, sn.signers) })
	if p != nil {
		in.dead = true
		return c16WriteResult{failed: p, site: site}
	}
	for _, t := range sn.txs {
		in.mod.apply(t.ver, t.hash)
	}
	return c16WriteResult{}
}

// selfCheck compares the reference totals with the store (harness guard).
func (in *c16Inst) selfCheck() error {
	for _, a := range c16Assets {
		info, bal, err := in.m.Store.ReadAssetWithBalance(a)
		if err != nil {
			return err
		}
		_, known := in.mod.info[a]
		if (info != nil) != known {
			return fmt.Errorf("asset %s known=%v in store, %v in model", c16AssetName(a), info != nil, known)
		}
		if info != nil && mcKUnits(bal).Cmp(in.mod.tot(a)) != 0 {
			return fmt.Errorf("asset %s total %s in store, %s units in model", c16AssetName(a), bal, in.mod.tot(a))
		}
	}
	return nil
}

// key is the canonical ledger state: per asset (known, total), the multiset of
// all output records with their status, and the wallet memory that shapes the
// next candidates.
func (in *c16Inst) key() string {
	var parts []string
	for _, a := range c16Assets {
		info, bal, err := in.m.Store.ReadAssetWithBalance(a)
		if err != nil {
			panic(err)
		}
		if info == nil {
			parts = append(parts, c16AssetName(a)+"=-")
		} else {
			parts = append(parts, fmt.Sprintf("%s=%s/%s", c16AssetName(a), bal, info.AssetKey))
		}
	}
	var us []string
	for _, u := range in.w.scan() {
		st := "free"
		if u.Spent {
			st = "spent"
		} else if u.Lock.HasValue() {
			st = "locked"
		}
		us = append(us, fmt.Sprintf("%s/%x/%s/%s", c16AssetName(u.Asset), u.Type, u.Amount, st))
	}
	sort.Strings(us)
	sub := "-"
	if in.lastSubmit != nil {
		sub = "unclaimed"
		if len(in.m.Store.VerifDump("WITHDRAWAL")) > 0 {
			sub = "claimed"
		}
	}
	return strings.Join(parts, " ") + " |" + strings.Join(us, ",") + fmt.Sprintf("| sub=%s mint=%d t1=%v", sub, in.m.Node.lastMintDistribution().Batch, in.prevT1 != nil)
}

// setup drives the node from genesis into a base state through the same path.
func (in *c16Inst) setup(base string) error {
	w := in.w
	dep := func(amount string) *c16Tx {
		v := w.txDepositBTC("c16-base-"+amount, amount)
		return &c16Tx{kind: "base-d" + amount, ver: v, hash: v.PayloadHash()}
	}
	first := []*c16Tx{}
	for _, a := range []string{"10", "20", "30", "40"} {
		v := w.txDepositXIN("c16-base-xin-"+a, a)
		first = append(first, &c16Tx{kind: "base-x" + a, ver: v, hash: v.PayloadHash()})
	}
	switch base {
	case "none":
	case "b0":
		first = append(first, dep("1250"))
	case "b1250":
		first = append(first, dep("1000"), dep("250"))
	case "b2499.9":
		first = append(first, dep("1000"), dep("250"), dep("1249.9"))
	default:
		return fmt.Errorf("base %s", base)
	}
	chain := in.m.Net.NodeIds[3]
	admit := func(txs []*c16Tx, ts uint64) error {
		sn, err := in.propose(txs, chain, ts)
		if err != nil {
			return err
		}
		if rej, p := in.validate(sn); rej != "" {
			return fmt.Errorf("setup snapshot %v rejected: %s %v", sn.kinds(), rej, p)
		}
		if r := in.finalize(sn); r.rejected != "" || r.failed != nil {
			return fmt.Errorf("setup snapshot %v not written: %s %v", sn.kinds(), r.rejected, r.failed)
		}
		return nil
	}
	in.beginStep(0)
	if err := admit(first, in.t0-10*uint64(time.Second)); err != nil {
		return err
	}
	if base == "b0" {
		us := w.spendable(common.BitcoinAssetId)
		if len(us) != 1 {
			return fmt.Errorf("b0: %d BTC outputs", len(us))
		}
		v := w.txSubmit(us[0], us[0].Amount, "c16-base-sall")
		if err := admit([]*c16Tx{{kind: "sall", ver: v, hash: v.PayloadHash()}}, in.t0-9*uint64(time.Second)); err != nil {
			return err
		}
	}
	if err := w.prepareMint(in.t0); err != nil {
		return fmt.Errorf("prepareMint: %v", err)
	}
	return in.selfCheck()
}

// ---- events ----

type c16Event []int // candidate indexes, ascending

func (e c16Event) names() []string {
	out := make([]string, len(e))
	for i, k := range e {
		out[i] = c16Kinds[k]
	}
	return out
}

func (e c16Event) String() string { return strings.Join(e.names(), "+") }

// c16Events returns every subset of size 1..maxK of the batchable candidates,
// then the singleton mint and one mixed batch with the non batchable mint.
func c16Events(maxK int) []c16Event {
	var out []c16Event
	var rec func(start int, cur []int)
	rec = func(start int, cur []int) {
		if len(cur) > 0 {
			out = append(out, append(c16Event{}, cur...))
		}
		if len(cur) == maxK {
			return
		}
		for i := start; i < c16NBatchable; i++ {
			rec(i+1, append(cur, i))
		}
	}
	rec(0, nil)
	sort.SliceStable(out, func(i, j int) bool { return len(out[i]) < len(out[j]) })
	out = append(out, c16Event{c16NBatchable})
	if maxK >= 2 {
		out = append(out, c16Event{2, c16NBatchable})
	}
	return out
}

func (in *c16Inst) chainFor(step int, txs []*c16Tx) crypto.Hash {
	if len(txs) == 1 && txs[0].kind == "m" {
		return in.m.Node.electSnapshotNode(common.TransactionTypeMint, in.t0+uint64(step)*uint64(time.Second))
	}
	return in.m.Net.NodeIds[step] // step 1 -> chain 1, step 2 -> chain 2
}

// stepSnap builds the candidates of event e for step; nil when a member is not enabled.
func (in *c16Inst) stepSnap(step int, e c16Event) (*c16Snap, error) {
	in.beginStep(step)
	txs := make([]*c16Tx, 0, len(e))
	for _, k := range e {
		t := in.cand(c16Kinds[k])
		if t == nil {
			return nil, nil
		}
		txs = append(txs, t)
	}
	return in.propose(txs, in.chainFor(step, txs), in.t0+uint64(step)*uint64(time.Second))
}

// ---- driver ----

type c16Case struct {
	Base  string   `json:"base"`
	Mode  string   `json:"mode"` // single | sequential | pipelined
	Steps []string `json:"snapshots"`
	Order string   `json:"finalization_order,omitempty"`
}

type c16Run struct {
	c    *verifmc.Check
	mu   sync.Mutex
	vp   int64       // panics inside signing-time validation
	wok  int64       // snapshots written
	rej  int64       // snapshots rejected at signing time (single / sequential)
	prej int64       // second pending snapshot rejected at signing time (pipelined)
	frej int64       // snapshots refused by the finalization-time validation
	cut  atomic.Bool // the wall-clock cap skipped part of the second level
}

// report raises the violation of the statement for a failed write.
func (r *c16Run) report(in *c16Inst, sn *c16Snap, res c16WriteResult, pending []*c16Snap, cs c16Case) string {
	class := c16Classify(sn, in.mod, pending)
	if class == "" {
		class = "write-failed-unexplained:" + strings.Join(sn.kinds(), "+")
	}
	desc := fmt.Sprintf("snapshot {%s} was accepted by validateSnapshotTransaction(s,false) on base %s (%s) but writing it failed: %v [%s]", strings.Join(sn.kinds(), ","), cs.Base, cs.Mode, res.failed, res.site)
	r.c.Violation(class, desc, cs)
	return class
}

// exec runs one snapshot completely (sign-time validation, then finalization).
// returns the outcome string and whether the snapshot was written.
func (r *c16Run) exec(in *c16Inst, sn *c16Snap, cs c16Case) (string, bool) {
	rej, p := in.validate(sn)
	if p != nil {
		r.mu.Lock()
		r.vp++
		r.mu.Unlock()
		r.c.Set("validation_panic_sample", fmt.Sprintf("%v on %+v", p, cs))
		in.dead = true
		return "validation-panic", false
	}
	if rej != "" {
		r.mu.Lock()
		r.rej++
		r.mu.Unlock()
		return "reject:" + rej, false
	}
	return r.finish(in, sn, nil, cs)
}

func (r *c16Run) finish(in *c16Inst, sn *c16Snap, pending []*c16Snap, cs c16Case) (string, bool) {
	r.c.AddTrans(1)
	r.c.AddTraces(1)
	res := in.finalize(sn)
	if res.failed != nil {
		return "write-failed:" + r.report(in, sn, res, pending, cs), false
	}
	if res.rejected != "" {
		r.mu.Lock()
		r.frej++
		r.mu.Unlock()
		return "reject-at-finalization:" + res.rejected, false
	}
	if err := in.selfCheck(); err != nil {
		r.c.Require(false, "reference ledger diverged after %+v: %v", cs, err)
	}
	r.mu.Lock()
	r.wok++
	r.mu.Unlock()
	return "written", true
}

func TestMC_C16(t *testing.T) {
	c := verifmc.Start(t, "C16", "model_checking")
	defer c.Finish()
	c.SetRule("4 base ledgers (BTC never seen / 0 after a full withdrawal / 1250 / 2499.9 of capacity 2500) x every snapshot = subset of size 1..k of 14 batchable candidates built by a deterministic wallet against the current state (5 BTC deposits 1250,1249.9,0.1,0.05,3000; unseen-asset deposit and one with conflicting asset info; BTC transfer, its double spend, XIN transfer, XIN transfer reusing an output key; withdrawal submit; claim of an earlier submit; claim of the submit of the same step) plus the singleton mint and mint+deposit; histories of <=2 snapshots: sequential (second validated after the first is written, from every distinct state) and pipelined (both validated, then finalized in both orders, on two chains). Plus the deposit asset-info menu: 4 bases x {BTC, XIN, a mixed-case hex-keyed asset} x info missing the registered one narrowly {key upper / lower / mixed case, trailing / leading space, same key on another chain} x registration context {alone, in one batch with the registering deposit, registering deposit pending on another chain (both finalization orders), after the registering deposit is final}. Each snapshot runs through the real validateSnapshotTransaction(s,false), then validateSnapshotTransaction(s,true)+TopoWrite. A case is distinct by (base, mode, compositions, order); a state by (asset totals/infos, multiset of output records with status, wallet memory)")
	c.Assume("snapshots are written on genesis chains' head rounds with a one-key signature mask (CoSi verification and round logic are not part of the property)",
		"the custodian signs any deposit the alphabet contains (including conflicting asset info and amounts above capacity): the statement quantifies over everything validation accepts",
		"finalization-time re-validation refusing a snapshot (no write attempted) is counted as an outcome, not as a failed write",
		"Badger transactions are atomic; a failed write ends the history (the node would have crashed)",
		"one chain never carries the same transaction in two snapshots (chain-level CoSi bookkeeping, asserted by WriteSnapshot): the two pending mints of one day on the elected chain are excluded")

	k1 := verifmc.Pick(c, 3, 3) // first snapshot
	k2 := verifmc.Pick(c, 1, 2) // second snapshot, sequential
	kp := verifmc.Pick(c, 1, 2) // both snapshots, pipelined
	ev1, ev2, evp := c16Events(k1), c16Events(k2), c16Events(kp)
	c.Set("events_first", len(ev1))
	c.Set("events_second_sequential", len(ev2))
	c.Set("events_pipelined", len(evp))
	r := &c16Run{c: c}

	fresh := func(base string) *c16Inst {
		in, err := c16New()
		if err != nil {
			c.Require(false, "node fixture: %v", err)
			return nil
		}
		if err := in.setup(base); err != nil {
			c.Require(false, "base %s: %v", base, err)
			in.close()
			return nil
		}
		return in
	}

	seen := map[string]bool{}
	addState := func(k string) bool {
		if seen[k] {
			return false
		}
		seen[k] = true
		c.AddStates(1)
		return true
	}
	// base states
	for _, b := range c16Bases {
		in := fresh(b)
		if in == nil {
			return
		}
		addState(in.key())
		in.close()
	}

	// ---- level 1: every first snapshot from every base ----
	type l1res struct {
		done    bool
		written bool
		key     string
		outcome string
	}
	n1 := len(c16Bases) * len(ev1)
	res1 := make([]l1res, n1)
	c.ParallelN(n1, "first snapshots", func(_, i int) {
		base, e := c16Bases[i/len(ev1)], ev1[i%len(ev1)]
		in := fresh(base)
		if in == nil {
			return
		}
		defer in.close()
		sn, err := in.stepSnap(1, e)
		if err != nil {
			c.Require(false, "propose: %v", err)
			return
		}
		if sn == nil {
			c.Outcome("disabled")
			return
		}
		cs := c16Case{Base: base, Mode: "single", Steps: []string{e.String()}}
		c.Eval(1)
		c.Distinct(fmt.Sprintf("%s|single|%s", base, e))
		out, written := r.exec(in, sn, cs)
		c.Outcome(out)
		res1[i] = l1res{done: true, written: written, outcome: out}
		if written {
			res1[i].key = in.key()
		}
	})
	singles := map[string]string{}
	for i := range res1 {
		if e := ev1[i%len(ev1)]; len(e) == 1 {
			o := res1[i].outcome
			if !res1[i].done {
				o = "disabled"
			}
			singles[c16Bases[i/len(ev1)]+":"+e.String()] = o
		}
	}
	c.Set("single_transaction_snapshots", singles)
	// first snapshots that were accepted at signing time, per base (the events of
	// the pipelined level are a subset of the first-level events)
	signed := map[string]bool{}
	for i := range res1 {
		if o := res1[i].outcome; res1[i].done && (o == "written" || strings.HasPrefix(o, "write-failed:") || strings.HasPrefix(o, "reject-at-finalization:")) {
			signed[c16Bases[i/len(ev1)]+"|"+ev1[i%len(ev1)].String()] = true
		}
	}
	type rep struct {
		base string
		e1   c16Event
	}
	var reps []rep
	for i := range res1 {
		if !res1[i].written {
			continue
		}
		if addState(res1[i].key) {
			reps = append(reps, rep{c16Bases[i/len(ev1)], ev1[i%len(ev1)]})
		}
	}
	c.Set("states_after_first_snapshot", len(reps))
	// evidence samples: one per mode and verdict, chosen by index (deterministic)
	samples := map[string]any{}
	sample := func(slot string, cs c16Case, outcome string) {
		if _, ok := samples[slot]; !ok {
			samples[slot] = map[string]any{"case": cs, "outcome": outcome}
		}
	}
	for i := range res1 {
		e := ev1[i%len(ev1)]
		cs := c16Case{Base: c16Bases[i/len(ev1)], Mode: "single", Steps: []string{e.String()}}
		if len(e) == 3 && res1[i].written && cs.Base == "b1250" {
			sample("1", cs, res1[i].outcome)
		}
		if len(e) >= 2 && strings.HasPrefix(res1[i].outcome, "reject:") {
			sample("2", cs, res1[i].outcome)
		}
	}

	orders := []string{"first-then-second", "second-then-first"}

	// ---- near-miss asset identities: base x asset x variant x registration context ----
	nnm := len(c16Bases) * len(c16NMAssets) * len(c16NMVariants) * len(c16NMContexts)
	keysnm := make([]string, nnm)
	var nmRejected, nmWritten atomic.Int64
	nmComplete := c.ParallelN(nnm, "near-miss asset identities", func(_, i int) {
		ctx := c16NMContexts[i%len(c16NMContexts)]
		j := i / len(c16NMContexts)
		variant := c16NMVariants[j%len(c16NMVariants)]
		j /= len(c16NMVariants)
		asset := c16NMAssets[j%len(c16NMAssets)]
		base := c16Bases[j/len(c16NMAssets)]
		id, chain, key, amount := c16NMCanonical(asset)
		vchain, vkey, differs := c16NMInfo(chain, key, variant)
		if !differs {
			c.Outcome("nm:disabled-variant-equals-registered-info")
			return
		}
		in := fresh(base)
		if in == nil {
			return
		}
		defer in.close()
		in.beginStep(1)
		mk := func(kind string, ch crypto.Hash, k string) *c16Tx {
			v := in.w.txDepositAsset(id, ch, k, fmt.Sprintf("c16-nm-%s-%s", asset, kind), amount)
			return &c16Tx{kind: kind, ver: v, hash: v.PayloadHash()}
		}
		reg := mk("reg"+asset, chain, key)
		nm := mk("nm"+asset+":"+variant, vchain, vkey)
		ts := in.t0 + uint64(time.Second)
		cs := c16Case{Base: base, Mode: "near-miss:" + ctx, Steps: []string{nm.kind}}
		c.Eval(1)
		c.Distinct(fmt.Sprintf("%s|nm|%s|%s|%s", base, asset, variant, ctx))
		note := func(out string, written bool) {
			c.Outcome("nm-" + ctx + ":" + out)
			if written {
				nmWritten.Add(1)
				keysnm[i] = in.key()
			} else if strings.HasPrefix(out, "reject") || strings.HasPrefix(out, "second-reject") {
				nmRejected.Add(1)
			}
		}
		switch ctx {
		case "alone":
			sn, err := in.propose([]*c16Tx{nm}, in.m.Net.NodeIds[1], ts)
			if err != nil {
				c.Require(false, "propose: %v", err)
				return
			}
			note(r.exec(in, sn, cs))
		case "same-batch":
			cs.Steps = []string{reg.kind + "+" + nm.kind}
			sn, err := in.propose([]*c16Tx{reg, nm}, in.m.Net.NodeIds[1], ts)
			if err != nil {
				c.Require(false, "propose: %v", err)
				return
			}
			note(r.exec(in, sn, cs))
		case "after-finalized":
			cs.Steps = []string{reg.kind, nm.kind}
			sn1, err := in.propose([]*c16Tx{reg}, in.m.Net.NodeIds[1], ts)
			if err != nil {
				c.Require(false, "propose: %v", err)
				return
			}
			if out, written := r.exec(in, sn1, cs); !written {
				c.Outcome("nm-after-finalized:registering-deposit-" + out)
				return
			}
			in.beginStep(2)
			sn2, err := in.propose([]*c16Tx{nm}, in.m.Net.NodeIds[2], ts+uint64(time.Second))
			if err != nil {
				c.Require(false, "propose: %v", err)
				return
			}
			note(r.exec(in, sn2, cs))
		case "pending-first", "pending-second":
			cs.Steps = []string{reg.kind, nm.kind}
			sn1, err := in.propose([]*c16Tx{reg}, in.m.Net.NodeIds[1], ts)
			if err != nil {
				c.Require(false, "propose: %v", err)
				return
			}
			if rej, p := in.validate(sn1); rej != "" || p != nil {
				c.Outcome("nm-" + ctx + ":registering-deposit-reject:" + rej)
				return
			}
			in.beginStep(2)
			sn2, err := in.propose([]*c16Tx{nm}, in.m.Net.NodeIds[2], ts+uint64(time.Second))
			if err != nil {
				c.Require(false, "propose: %v", err)
				return
			}
			rej, p := in.validate(sn2)
			if p != nil {
				r.mu.Lock()
				r.vp++
				r.mu.Unlock()
				c.Set("validation_panic_sample", fmt.Sprintf("%v on %+v", p, cs))
				return
			}
			if rej != "" {
				note("second-reject:"+rej, false)
				return
			}
			a, b := sn1, sn2
			if ctx == "pending-second" {
				a, b = sn2, sn1
				cs.Order = orders[1]
			} else {
				cs.Order = orders[0]
			}
			if out, written := r.finish(in, a, []*c16Snap{b}, cs); !written {
				note("first-"+out, false)
				return
			}
			note(r.finish(in, b, nil, cs))
		}
	})
	for _, k := range keysnm {
		if k != "" {
			addState(k)
		}
	}
	c.Set("near_miss_cases", nnm)
	c.Set("near_miss_rejected_at_signing", nmRejected.Load())
	c.Set("near_miss_written", nmWritten.Load())
	if nmComplete {
		c.Require(nmRejected.Load() > 100 && nmWritten.Load() > 10, "near-miss menu vacuous: %d rejected at signing time, %d written", nmRejected.Load(), nmWritten.Load())
	}

	// ---- transfers with an undefined output type byte ----
	// XIN transfer of 2 or 3 outputs, exactly one of them (every position, the
	// last one included) carries a type byte no rule exists for, the others are
	// script outputs; alone and batched with a deposit.
	otTypes := []uint8{0x77, 0xa5, 0xff}
	type otCase struct {
		base    string
		n, pos  int
		typ     uint8
		batched bool
	}
	var otCases []otCase
	for _, b := range c16Bases {
		for _, n := range []int{2, 3} {
			for pos := 0; pos < n; pos++ {
				for _, ty := range otTypes {
					otCases = append(otCases, otCase{b, n, pos, ty, false}, otCase{b, n, pos, ty, true})
				}
			}
		}
	}
	var otRejected atomic.Int64
	otComplete := c.ParallelN(len(otCases), "undefined output types", func(_, i int) {
		oc := otCases[i]
		in := fresh(oc.base)
		if in == nil {
			return
		}
		defer in.close()
		in.beginStep(1)
		us := in.w.spendable(common.XINAssetId)
		if len(us) == 0 {
			c.Require(false, "no XIN output in base %s", oc.base)
			return
		}
		u := us[0]
		part := u.Amount.Div(oc.n)
		amounts, types, seeds := make([]common.Integer, oc.n), make([]uint8, oc.n), make([]string, oc.n)
		rest := u.Amount
		for k := 0; k < oc.n; k++ {
			amounts[k] = part
			if k == oc.n-1 {
				amounts[k] = rest
			} else {
				rest = rest.Sub(part)
			}
			seeds[k] = fmt.Sprintf("c16-ot-%d", k)
		}
		types[oc.pos] = oc.typ
		v := in.w.txTransferTyped(u, amounts, types, seeds)
		where := "non-last"
		if oc.pos == oc.n-1 {
			where = "last"
		}
		txs := []*c16Tx{{kind: fmt.Sprintf("ot%d/%d:%#x", oc.pos, oc.n, oc.typ), ver: v, hash: v.PayloadHash()}}
		if oc.batched {
			txs = append(txs, in.cand("d0.05"))
		}
		sn, err := in.propose(txs, in.m.Net.NodeIds[1], in.t0+uint64(time.Second))
		if err != nil {
			c.Require(false, "propose: %v", err)
			return
		}
		cs := c16Case{Base: oc.base, Mode: "undefined-output-type", Steps: []string{strings.Join(sn.kinds(), "+")}}
		c.Eval(1)
		c.Distinct(fmt.Sprintf("%s|ot|%d|%d|%x|%v", oc.base, oc.n, oc.pos, oc.typ, oc.batched))
		out, _ := r.exec(in, sn, cs)
		if strings.HasPrefix(out, "reject:") {
			otRejected.Add(1)
		}
		c.Outcome("ot-" + where + ":" + out)
	})
	c.Set("undefined_output_type_cases", len(otCases))
	if otComplete {
		c.Require(otRejected.Load() == int64(len(otCases)), "undefined output types: %d of %d cases rejected at signing time (an accepted one must have raised a violation)", otRejected.Load(), len(otCases))
	}

	// ---- one-time output key collisions between two transfers ----
	// A = XIN transfer of n outputs; B = XIN transfer (other input) of n outputs
	// whose output at every position of a non-empty mask reuses A's seed (same
	// receiver and index, hence the same one-time key), other positions fresh.
	// Contexts: one batch; A pending then B signed, finalized A-first / B-first;
	// A final then B.
	kcContexts := []string{"same-batch", "pending-A-first", "pending-B-first", "after-A-final"}
	type kcCase struct {
		base    string
		n, mask int
		ctx     string
	}
	var kcCases []kcCase
	for _, b := range c16Bases {
		for _, n := range []int{2, 3} {
			for mask := 1; mask < 1<<n; mask++ {
				for _, ctx := range kcContexts {
					kcCases = append(kcCases, kcCase{b, n, mask, ctx})
				}
			}
		}
	}
	var kcRejected atomic.Int64
	kcComplete := c.ParallelN(len(kcCases), "output key collisions", func(_, i int) {
		kc := kcCases[i]
		in := fresh(kc.base)
		if in == nil {
			return
		}
		defer in.close()
		in.beginStep(1)
		us := in.w.spendable(common.XINAssetId)
		if len(us) < 2 {
			c.Require(false, "fewer than 2 XIN outputs in base %s", kc.base)
			return
		}
		build := func(u *mcKUTXO, who string) *c16Tx {
			part := u.Amount.Div(kc.n)
			amounts, types, seeds := make([]common.Integer, kc.n), make([]uint8, kc.n), make([]string, kc.n)
			rest := u.Amount
			for k := 0; k < kc.n; k++ {
				amounts[k] = part
				if k == kc.n-1 {
					amounts[k] = rest
				} else {
					rest = rest.Sub(part)
				}
				seeds[k] = fmt.Sprintf("c16-kc-A-%d", k)
				if who == "B" && kc.mask&(1<<k) == 0 {
					seeds[k] = fmt.Sprintf("c16-kc-B-%d", k)
				}
			}
			v := in.w.txTransferTyped(u, amounts, types, seeds)
			return &c16Tx{kind: fmt.Sprintf("k%s%d", who, kc.n), ver: v, hash: v.PayloadHash()}
		}
		a, b := build(us[0], "A"), build(us[1], "B")
		b.kind = fmt.Sprintf("kB%d:collides-at-%0*b", kc.n, kc.n, kc.mask)
		ts := in.t0 + uint64(time.Second)
		cs := c16Case{Base: kc.base, Mode: "output-key-collision:" + kc.ctx, Steps: []string{a.kind, b.kind}}
		c.Eval(1)
		c.Distinct(fmt.Sprintf("%s|kc|%d|%d|%s", kc.base, kc.n, kc.mask, kc.ctx))
		note := func(out string) {
			if strings.Contains(out, "reject:") {
				kcRejected.Add(1)
			}
			c.Outcome("kc-" + kc.ctx + ":" + out)
		}
		switch kc.ctx {
		case "same-batch":
			cs.Steps = []string{a.kind + "+" + b.kind}
			sn, err := in.propose([]*c16Tx{a, b}, in.m.Net.NodeIds[1], ts)
			if err != nil {
				c.Require(false, "propose: %v", err)
				return
			}
			out, _ := r.exec(in, sn, cs)
			note(out)
		case "after-A-final":
			sa, err := in.propose([]*c16Tx{a}, in.m.Net.NodeIds[1], ts)
			if err != nil {
				c.Require(false, "propose: %v", err)
				return
			}
			if out, written := r.exec(in, sa, cs); !written {
				c.Require(false, "key collision: transfer A alone %s on base %s", out, kc.base)
				return
			}
			in.beginStep(2)
			sb, err := in.propose([]*c16Tx{b}, in.m.Net.NodeIds[2], ts+uint64(time.Second))
			if err != nil {
				c.Require(false, "propose: %v", err)
				return
			}
			out, _ := r.exec(in, sb, cs)
			note(out)
		default:
			sa, err := in.propose([]*c16Tx{a}, in.m.Net.NodeIds[1], ts)
			if err != nil {
				c.Require(false, "propose: %v", err)
				return
			}
			if rej, p := in.validate(sa); rej != "" || p != nil {
				c.Require(false, "key collision: transfer A alone refused (%s %v) on base %s", rej, p, kc.base)
				return
			}
			in.beginStep(2)
			sb, err := in.propose([]*c16Tx{b}, in.m.Net.NodeIds[2], ts+uint64(time.Second))
			if err != nil {
				c.Require(false, "propose: %v", err)
				return
			}
			rej, p := in.validate(sb)
			if p != nil {
				r.mu.Lock()
				r.vp++
				r.mu.Unlock()
				c.Set("validation_panic_sample", fmt.Sprintf("%v on %+v", p, cs))
				return
			}
			if rej != "" {
				// B is not pending; A alone must still finalize
				out, _ := r.finish(in, sa, nil, cs)
				note("second-reject:" + rej + "/A:" + out)
				return
			}
			x, y := sa, sb
			cs.Order = orders[0]
			if kc.ctx == "pending-B-first" {
				x, y = sb, sa
				cs.Order = orders[1]
			}
			out, written := r.finish(in, x, []*c16Snap{y}, cs)
			if !written && in.dead {
				note("first-" + out)
				return
			}
			out2, _ := r.finish(in, y, nil, cs)
			note("first-" + out + "/second-" + out2)
		}
	})
	c.Set("output_key_collision_cases", len(kcCases))
	if kcComplete {
		c.Require(kcRejected.Load() == int64(len(kcCases)), "output key collisions: %d of %d colliding transfers rejected at signing time (an accepted one must have raised a violation or is a harness error)", kcRejected.Load(), len(kcCases))
	}

	// ---- level 2, sequential: from every distinct state, every second snapshot ----
	n2 := len(reps) * len(ev2)
	keys2 := make([]string, n2)
	out2 := make([]string, n2)
	c.ParallelN(n2, "second snapshots (sequential)", func(_, i int) {
		if c.Expired("sequential second snapshots") {
			r.cut.Store(true)
			return
		}
		rp, e2 := reps[i/len(ev2)], ev2[i%len(ev2)]
		in := fresh(rp.base)
		if in == nil {
			return
		}
		defer in.close()
		sn1, err := in.stepSnap(1, rp.e1)
		if err != nil || sn1 == nil {
			c.Require(false, "replay divergence (build) %s %s: %v", rp.base, rp.e1, err)
			return
		}
		if rej, p := in.validate(sn1); rej != "" {
			c.Require(false, "replay divergence (validate) %s %s: %s %v", rp.base, rp.e1, rej, p)
			return
		}
		if res := in.finalize(sn1); res.failed != nil || res.rejected != "" {
			c.Require(false, "replay divergence (write) %s %s: %v %s", rp.base, rp.e1, res.failed, res.rejected)
			return
		}
		sn2, err := in.stepSnap(2, e2)
		if err != nil {
			c.Require(false, "propose: %v", err)
			return
		}
		if sn2 == nil {
			c.Outcome("disabled")
			return
		}
		cs := c16Case{Base: rp.base, Mode: "sequential", Steps: []string{rp.e1.String(), e2.String()}}
		c.Eval(1)
		c.Distinct(fmt.Sprintf("%s|seq|%s|%s", rp.base, rp.e1, e2))
		out, written := r.exec(in, sn2, cs)
		c.Outcome("2:" + out)
		out2[i] = out
		if written {
			keys2[i] = in.key()
		}
	})
	for i, k := range keys2 {
		cs := c16Case{Base: reps[i/len(ev2)].base, Mode: "sequential", Steps: []string{reps[i/len(ev2)].e1.String(), ev2[i%len(ev2)].String()}}
		if k != "" && addState(k) && len(reps[i/len(ev2)].e1) > 1 {
			sample("3", cs, out2[i])
		}
		if strings.HasPrefix(out2[i], "reject:") && len(reps[i/len(ev2)].e1) > 1 {
			sample("4", cs, out2[i])
		}
	}

	// ---- level 2, pipelined: both signed on the same ledger, finalized in both orders ----
	np := len(c16Bases) * len(evp) * len(evp) * len(orders)
	keysp := make([]string, np)
	outp := make([]string, np)
	c.ParallelN(np, "pipelined snapshot pairs", func(_, i int) {
		if c.Expired("pipelined pairs") {
			r.cut.Store(true)
			return
		}
		o := i % len(orders)
		j := i / len(orders)
		e2 := evp[j%len(evp)]
		j /= len(evp)
		e1 := evp[j%len(evp)]
		base := c16Bases[j/len(evp)]
		if !signed[base+"|"+e1.String()] {
			return // first snapshot not enabled or refused at signing time: nothing pending
		}
		if o == 0 && e1.String() == e2.String() {
			// the SAME transactions proposed by two chains while pending (legal: both
			// snapshots are signed before either is finalized); finalize both
			func() {
				in2 := fresh(base)
				if in2 == nil {
					return
				}
				defer in2.close()
				a, err := in2.stepSnap(1, e1)
				if err != nil || a == nil || (len(a.txs) == 1 && a.txs[0].kind == "m") {
					return
				}
				if rej, p := in2.validate(a); rej != "" || p != nil {
					return
				}
				b, err := in2.propose(a.txs, in2.m.Net.NodeIds[3], in2.t0+3*uint64(time.Second))
				if err != nil {
					return
				}
				if rej, p := in2.validate(b); rej != "" || p != nil {
					c.Outcome("p-same:second-reject")
					return
				}
				cs := c16Case{Base: base, Mode: "pipelined-same-transactions-on-two-chains", Steps: []string{e1.String(), e1.String()}, Order: orders[0]}
				c.Eval(1)
				c.Distinct(fmt.Sprintf("%s|pipe-same|%s", base, e1))
				out, written := r.finish(in2, a, []*c16Snap{b}, cs)
				c.Outcome("p-same1:" + out)
				if !written {
					return
				}
				res := in2.finalize(b)
				if res.failed != nil {
					c.Violation("same-transactions-on-two-chains:second-write-failed", fmt.Sprintf("snapshot {%s} accepted on two chains while pending; the second finalization failed: %v [%s]", strings.Join(b.kinds(), ","), res.failed, res.site), cs)
					c.Outcome("p-same2:write-failed")
				} else {
					c.Outcome("p-same2:written")
				}
			}()
		}
		in := fresh(base)
		if in == nil {
			return
		}
		defer in.close()
		sn1, err := in.stepSnap(1, e1)
		if err != nil {
			c.Require(false, "propose: %v", err)
			return
		}
		if sn1 == nil {
			c.Require(false, "replay divergence (pipelined first snapshot disabled) %s %s", base, e1)
			return
		}
		if rej, p := in.validate(sn1); rej != "" {
			c.Require(false, "replay divergence (pipelined first snapshot) %s %s: %s %v", base, e1, rej, p)
			return
		}
		sn2, err := in.stepSnap(2, e2)
		if err != nil {
			c.Require(false, "propose: %v", err)
			return
		}
		if sn2 == nil {
			c.Outcome("p:disabled")
			return
		}
		if sn1.s.NodeId == sn2.s.NodeId {
			// a chain never carries one transaction in two snapshots (its CoSi
			// bookkeeping owns a pending transaction; WriteSnapshot asserts it)
			for _, a := range sn1.txs {
				for _, b := range sn2.txs {
					if a.hash == b.hash {
						c.Outcome("p:excluded-same-transaction-twice-on-one-chain")
						return
					}
				}
			}
		}
		cs := c16Case{Base: base, Mode: "pipelined", Steps: []string{e1.String(), e2.String()}, Order: orders[o]}
		rej, p := in.validate(sn2)
		if p != nil {
			r.mu.Lock()
			r.vp++
			r.mu.Unlock()
			c.Set("validation_panic_sample", fmt.Sprintf("%v on %+v", p, cs))
			c.Outcome("p:validation-panic")
			return
		}
		if rej != "" {
			if o == 0 {
				r.mu.Lock()
				r.prej++
				r.mu.Unlock()
				c.Eval(1)
				c.Distinct(fmt.Sprintf("%s|pipe-rejected|%s|%s", base, e1, e2))
				c.Outcome("p:second-reject:" + rej)
				outp[i] = "second snapshot refused at signing time: " + rej
			}
			return
		}
		c.Eval(1)
		c.Distinct(fmt.Sprintf("%s|pipe|%s|%s|%d", base, e1, e2, o))
		a, b := sn1, sn2
		if o == 1 {
			a, b = sn2, sn1
		}
		out, written := r.finish(in, a, []*c16Snap{b}, cs)
		c.Outcome("p1:" + out)
		if !written && in.dead {
			return
		}
		out, written = r.finish(in, b, nil, cs)
		c.Outcome("p2:" + out)
		outp[i] = "both signed; second finalization: " + out
		if written {
			keysp[i] = in.key()
		}
	})
	for i, k := range keysp {
		o := i % len(orders)
		j := i / len(orders)
		cs := c16Case{Base: c16Bases[j/len(evp)/len(evp)], Mode: "pipelined", Steps: []string{evp[(j/len(evp))%len(evp)].String(), evp[j%len(evp)].String()}, Order: orders[o]}
		if k != "" {
			addState(k)
			if cs.Base == "b1250" && o == 1 && cs.Steps[0] != cs.Steps[1] {
				sample("5", cs, outp[i])
			}
		}
		if strings.HasPrefix(outp[i], "second snapshot refused") && cs.Base == "b1250" {
			sample("6", cs, outp[i])
		}
	}
	for _, slot := range verifmc.SortedKeys(samples) {
		c.Sample(samples[slot])
	}

	c.Set("snapshots_written", r.wok)
	c.Set("validation_panics", r.vp)
	c.Set("rejected_at_finalization", r.frej)
	// vacuity guards
	c.Require(r.vp == 0, "%d snapshots made signing-time validation itself panic (outside the statement; see validation_panic_sample)", r.vp)
	if r.cut.Load() {
		return // capped run (exhaustive:false): the guards below need the complete second level
	}
	c.Require(r.wok > 500, "only %d snapshots were written", r.wok)
	c.Require(len(reps) > 100, "only %d distinct states after the first snapshot", len(reps))
	for _, want := range []string{"written", "2:written", "p2:written"} {
		c.Require(c.OutcomeCount(want) > 0, "outcome %q never reached", want)
	}
	c.Require(r.rej > 100 && r.prej > 10, "rejections at signing time: %d single/sequential, %d pipelined", r.rej, r.prej)
}
