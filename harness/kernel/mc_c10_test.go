//go:build verif

package kernel

import (
	"fmt"
	"runtime/debug"
	"sort"
	"sync"
	"testing"
	"time"

	"github.com/MixinNetwork/mixin/common"
	"github.com/MixinNetwork/mixin/config"
	"github.com/MixinNetwork/mixin/crypto"
	"github.com/MixinNetwork/mixin/storage"
	"github.com/MixinNetwork/mixin/verifmc"
	"github.com/MixinNetwork/mixin/verifmc/fixc"
	"github.com/dgraph-io/ristretto/v2"
)

// C10 — any two threshold certificates share more than a third of the signer
// set. Bounded-exhaustive enumeration (E1) of membership configurations x
// timestamps x chain kinds; the oracle is arithmetic on the two values the
// real functions return: T = ConsensusThreshold(ts, true) and
// K = ConsensusKeys(round, ts).

const (
	c10Hour   = uint64(time.Hour)
	c10Day    = 24 * c10Hour
	c10Second = uint64(time.Second)
	c10Mature = 30 * c10Second // reference-threshold maturity of the threshold base
)

type c10Store struct {
	storage.Store // nil: every other method panics
	nodes         []*common.Node
}

func (s *c10Store) ReadAllNodes(threshold uint64, withState bool) []*common.Node {
	out := make([]*common.Node, len(s.nodes))
	for i, n := range s.nodes {
		cp := *n
		out[i] = &cp
	}
	return out
}

type c10Rec struct {
	who   int
	ts    uint64
	state string
}

// c10Net is one network flavour: id + epoch (the epoch positions the query day
// relative to the mainnet signer-set fork).
type c10Net struct {
	name  string
	id    crypto.Hash
	epoch uint64
}

type c10Config struct {
	net     int // index in nets
	genesis bool
	n       int // base nodes before removals
	a, m, o int // additional accepted: <=30 s, 30 s..12 h, >12 h before the reference instant
	r       int // base nodes removed
	cn      int // additional pledged-then-cancelled nodes
	p       int // 0 no pledging node, 1 pledged 1 h before, 2 pledged 13 h before
	inWin   bool
}

func (cf c10Config) key(nets []c10Net) string {
	return fmt.Sprintf("%s|gen=%v|n=%d|a=%d|m=%d|o=%d|r=%d|c=%d|p=%d|win=%v", nets[cf.net].name, cf.genesis, cf.n, cf.a, cf.m, cf.o, cf.r, cf.cn, cf.p, cf.inWin)
}

const c10QueryDay = 200

var (
	c10KeysOnce sync.Once
	c10Signers  []common.Address
	c10Payees   []common.Address
	c10Privs    = map[crypto.Key]*crypto.Key{} // public spend key -> private spend key
)

// who indexes: 0..49 base, 50.. a, 53.. m, 56.. o, 59.. cancelled, 62 pledging
func c10Keys() {
	c10KeysOnce.Do(func() {
		for i := 0; i < 64; i++ {
			full := fixc.NodeAddr(fmt.Sprintf("c10-signer-%d", i))
			priv := full.PrivateSpendKey
			c10Privs[full.PublicSpendKey] = &priv
			c10Signers = append(c10Signers, fixc.Pub(full))
			c10Payees = append(c10Payees, fixc.Pub(fixc.NodeAddr(fmt.Sprintf("c10-payee-%d", i))))
		}
	})
}

func (cf c10Config) q0(nets []c10Net) uint64 {
	h := uint64(15)
	if !cf.inWin {
		h = 21
	}
	return nets[cf.net].epoch + c10QueryDay*c10Day + h*c10Hour + 30*uint64(time.Minute)
}

func (cf c10Config) records(nets []c10Net) []c10Rec {
	e, q := nets[cf.net].epoch, cf.q0(nets)
	var recs []c10Rec
	for i := 0; i < cf.n; i++ {
		ts := e
		if !cf.genesis {
			ts = e + uint64(i+1)*c10Second
		}
		recs = append(recs, c10Rec{i, ts, common.NodeStateAccepted})
	}
	remAge := []uint64{c10Day, c10Hour, 1}
	for j := 0; j < cf.r; j++ {
		recs = append(recs, c10Rec{j, q - remAge[j], common.NodeStateRemoved})
	}
	aAge := []uint64{c10Mature, 15 * c10Second, 1}
	for j := 0; j < cf.a; j++ {
		recs = append(recs, c10Rec{50 + j, q - aAge[j], common.NodeStateAccepted})
	}
	mAge := []uint64{c10Mature + 1, 6 * c10Hour, 12 * c10Hour}
	for j := 0; j < cf.m; j++ {
		recs = append(recs, c10Rec{53 + j, q - mAge[j], common.NodeStateAccepted})
	}
	oAge := []uint64{12*c10Hour + 1, 3 * c10Day, 30 * c10Day}
	for j := 0; j < cf.o; j++ {
		recs = append(recs, c10Rec{56 + j, q - oAge[j], common.NodeStateAccepted})
	}
	cAge := []uint64{13 * c10Hour, 2 * c10Day, 40 * c10Day}
	for j := 0; j < cf.cn; j++ {
		recs = append(recs, c10Rec{59 + j, q - cAge[j] - c10Hour, common.NodeStatePledging})
		recs = append(recs, c10Rec{59 + j, q - cAge[j], common.NodeStateCancelled})
	}
	switch cf.p {
	case 1:
		recs = append(recs, c10Rec{62, q - c10Hour, common.NodeStatePledging})
	case 2:
		recs = append(recs, c10Rec{62, q - 13*c10Hour, common.NodeStatePledging})
	}
	return recs
}

func c10BuildNode(net c10Net, recs []c10Rec, genesis bool) (*Node, error) {
	st := &c10Store{}
	for _, r := range recs {
		st.nodes = append(st.nodes, &common.Node{
			Signer:      c10Signers[r.who],
			Payee:       c10Payees[r.who],
			State:       r.state,
			Transaction: crypto.Blake3Hash([]byte(fmt.Sprintf("c10-tx-%d-%s-%d", r.who, r.state, r.ts))),
			Timestamp:   r.ts,
		})
	}
	node := &Node{
		Epoch:           net.epoch,
		networkId:       net.id,
		persistStore:    st,
		genesisNodesMap: map[crypto.Hash]bool{},
	}
	if genesis {
		for _, r := range recs {
			if r.ts == net.epoch && r.state == common.NodeStateAccepted {
				node.genesisNodesMap[c10Signers[r.who].Hash().ForNetwork(net.id)] = true
			}
		}
	}
	var err error
	if p := verifmc.Catch(func() { err = node.LoadConsensusNodes() }); p != nil {
		return nil, fmt.Errorf("LoadConsensusNodes panic: %v", p)
	}
	return node, err
}

// c10Verdict is the pure arithmetic of the statement.
type c10Verdict struct {
	T, K, bRef int
	fail       bool
	key, desc  string
	outcome    string
}

// c10Judge evaluates one (T, K) observation. refBase is the reference
// effective membership at ts (ids), pledging the id appended for round 0.
func c10Judge(chainKind string, T int, ids []crypto.Hash, refBase map[crypto.Hash]bool, pledging crypto.Hash) c10Verdict {
	k, b := len(ids), len(refBase)
	v := c10Verdict{T: T, K: k, bRef: b}
	if b < config.KernelMinimumNodesCount {
		if T <= k {
			v.fail = true
			v.key = chainKind + ":below-minimum:threshold-reachable"
			v.desc = fmt.Sprintf("effective membership %d is below the minimum %d but threshold %d can be met by the %d keys of the certificate key set", b, config.KernelMinimumNodesCount, T, k)
			v.outcome = "below-minimum:REACHABLE"
			return v
		}
		v.outcome = "below-minimum:unreachable-threshold"
		return v
	}
	if T > 64 {
		v.outcome = "sufficient-membership:threshold-unreachable(stricter)"
		return v
	}
	if 3*(2*T-k) > k {
		if T > k {
			v.outcome = "intersection-ok:T>K-unsatisfiable"
		} else {
			v.outcome = "intersection-ok"
		}
		return v
	}
	v.fail = true
	var extra []crypto.Hash
	for _, id := range ids {
		if !refBase[id] {
			extra = append(extra, id)
		}
	}
	switch {
	case chainKind == "round0-pledging" && len(extra) == 1 && extra[0] == pledging && k == b+1 && T == b*2/3+1:
		v.key = fmt.Sprintf("round0-pledging:bmod3=%d", b%3)
	case len(extra) > 0:
		v.key = chainKind + ":K-exceeds-base"
	default:
		v.key = chainKind + ":threshold-too-low"
	}
	v.outcome = "intersection-FAIL:" + v.key
	v.desc = fmt.Sprintf("threshold T=%d over key set |K|=%d (threshold base %d, %d key(s) of K outside the base): two certificates may share only 2T-|K|=%d signers, not more than |K|/3 (3*(2T-|K|)=%d <= %d)", T, k, b, len(extra), 2*T-k, 3*(2*T-k), k)
	return v
}

func TestMC_C10(t *testing.T) {
	c := verifmc.Start(t, "C10", "exploration")
	defer c.Finish()
	// the real sequence builders allocate a full node list per record; fewer GC cycles
	defer debug.SetGCPercent(debug.SetGCPercent(400))
	c10Keys()

	mainnet, err := crypto.HashFromString(config.KernelNetworkId)
	c.Require(err == nil, "mainnet id: %v", err)
	fork := mainnetConsensusNodeRemovalSignerSetForkAt
	align := uint64(config.KernelNodeAcceptTimeBegin) * c10Hour
	nets := []c10Net{
		{"testnet", fixc.Hash("c10-network"), uint64(fixc.EpochSec) * c10Second},
		{"mainnet-postfork", mainnet, fork - 100*c10Day - align},
		{"mainnet-prefork", mainnet, fork - 300*c10Day - align},
	}
	// per flavour: radices of the class counts {a, m, o, r, c}
	type flavour struct {
		net     int
		genesis bool
		inWin   bool // reference instant inside (15:30) or outside (21:30) the 13..19 window
		radices [5]int
	}
	flavours := verifmc.Pick(c,
		[]flavour{
			{0, true, true, [5]int{3, 3, 2, 2, 2}}, {0, true, false, [5]int{3, 2, 1, 1, 1}}, {0, false, true, [5]int{2, 2, 2, 2, 1}},
			{1, true, true, [5]int{2, 2, 1, 2, 1}}, {2, true, true, [5]int{2, 2, 1, 2, 1}}},
		[]flavour{
			{0, true, true, [5]int{4, 4, 4, 4, 4}}, {0, true, false, [5]int{4, 4, 4, 4, 4}}, {0, false, true, [5]int{3, 3, 3, 3, 3}}, {0, false, false, [5]int{3, 3, 3, 3, 3}},
			{1, true, true, [5]int{2, 2, 2, 2, 2}}, {1, true, false, [5]int{2, 2, 2, 2, 2}}, {2, true, true, [5]int{2, 2, 2, 2, 2}}, {2, true, false, [5]int{2, 2, 2, 2, 2}}})
	var fl []string
	for _, f := range flavours {
		fl = append(fl, fmt.Sprintf("%s/genesis-base=%v/reference-in-window=%v: counts below %v", nets[f.net].name, f.genesis, f.inWin, f.radices))
	}
	c.SetRule(fmt.Sprintf("full product per flavour (network {non-mainnet id, mainnet id after / before the signer-set fork}, base nodes genesis-marked or accepted long ago) of: base nodes n in 7..50 x additional accepted nodes per maturity class {a: <=30 s, m: 30 s..12 h, o: >12 h} x removed base nodes r x pledged-then-cancelled nodes c (count ranges {a,m,o,r,c} per flavour: %v) x pledging node {none, pledged 1 h ago, 13 h ago}, reference instant 15:30 (inside the 13..19 window) or 21:30 (outside) of day 200, accepted total <= 50; each configuration is queried at 11 timestamps (reference instant +-1 ns, +30 s, +12 h, +1 day, window start -1/0/+1 ns, window end last ns / first ns after) on an ordinary chain (round 1) and, while the pledging node is pledging, on its chain's round 0; plus one real 7-node fixture node with a really finalized pledge; distinct by (configuration, chain kind)", fl))
	c.Assume("membership of the synthetic configurations is installed by the real LoadConsensusNodes over a stub storage.Store returning synthetic records (over-approximates reachable histories)",
		"effective membership (used for the below-minimum clause and for naming the failing class only) = accepted nodes that are genesis or accepted more than 30 s before the timestamp, minus the node the real removingOrSlashingNodeAt predicts when the real fork gate is on",
		"the intersection inequality itself is evaluated on the values returned by the real ConsensusThreshold and ConsensusKeys only",
		"certificate part: honest CoSi certificates (real crypto) of every popcount around the thresholds are presented to the real verifyFinalization of a node that has finalized a removal; accepted => 3*(2*popcount-|K_used|) > |K_used| with K_used the key vector whose ids at the mask positions are the returned signers",
		"history part: one long-running Node and one Chain object per sequence; every sequence over {query at 4 timestamps, 3 membership changes learned through the stub store + real LoadConsensusNodes} up to the depth bound is replayed from scratch and its last step is compared with a node freshly loaded from the same records (restart); certificates are honest CoSi certificates over the key vectors the two nodes report",
		"schedule part: cooperative scheduler, one scheduling point before every top-level statement of LoadConsensusNodes and between the verifier's two reads; preemption bound 3")

	// ---- configurations ----
	var cfgs []c10Config
	for _, f := range flavours {
		for n := 7; n <= 50; n++ {
			rd := f.radices
			verifmc.Product([]int{rd[0], rd[1], rd[2], rd[3], rd[4], 3}, func(d []int) bool {
				cf := c10Config{net: f.net, genesis: f.genesis, n: n, a: d[0], m: d[1], o: d[2], r: d[3], cn: d[4], p: d[5], inWin: f.inWin}
				if cf.n-cf.r+cf.a+cf.m+cf.o > config.KernelMaximumNodesCount {
					return true
				}
				cfgs = append(cfgs, cf)
				return true
			})
		}
	}
	c.Set("configurations", int64(len(cfgs)))

	var mu sync.Mutex
	outcomes := map[string]int64{}
	tuples := map[string]struct{}{}
	var samples []any
	var zero crypto.Hash

	c.ParallelN(len(cfgs), "configuration sweep", func(_, ci int) {
		cf := cfgs[ci]
		net := nets[cf.net]
		recs := cf.records(nets)
		node, err := c10BuildNode(net, recs, cf.genesis)
		if err != nil {
			c.Require(false, "cannot build %s: %v", cf.key(nets), err)
			return
		}
		idOf := func(who int) crypto.Hash { return c10Signers[who].Hash().ForNetwork(net.id) }
		sorted := append([]c10Rec{}, recs...)
		sort.SliceStable(sorted, func(i, j int) bool { return sorted[i].ts < sorted[j].ts })

		ordinary := &Chain{node: node, ChainId: idOf(cf.n - 1)}
		var pledgingChain *Chain
		pid := zero
		if cf.p > 0 {
			pid = idOf(62)
			for _, cn := range node.NodesListWithoutState(cf.q0(nets)+1, false) {
				if cn.IdForNetwork == pid {
					pledgingChain = &Chain{node: node, ChainId: pid, ConsensusInfo: cn}
				}
			}
			if pledgingChain == nil {
				c.Require(false, "pledging node not visible in %s", cf.key(nets))
				return
			}
		}

		q := cf.q0(nets)
		d0 := net.epoch + (q-net.epoch)/c10Day*c10Day
		w, x := d0+13*c10Hour, d0+20*c10Hour
		menu := []uint64{q, q - 1, q + 1, q + c10Mature, q + 12*c10Hour, q + c10Day, w - 1, w, w + 1, x - 1, x}

		local := map[string]int64{}
		ltuples := map[string]struct{}{}
		var evals int64
		c.Distinct("cfg|" + cf.key(nets) + "|ordinary")
		if pledgingChain != nil {
			c.Distinct("cfg|" + cf.key(nets) + "|round0")
		}
		for ti, ts := range menu {
			// reference effective membership at ts
			latest := map[int]c10Rec{}
			for _, r := range sorted {
				if r.ts < ts {
					latest[r.who] = r
				}
			}
			var removing *CNode
			T := 0
			p := verifmc.Catch(func() {
				if node.usePredictiveNodeRemovalSignerSet(ts) {
					removing = node.removingOrSlashingNodeAt(ts)
				}
				T = node.ConsensusThreshold(ts, true)
			})
			if p != nil {
				c.Require(false, "threshold panicked for %s ts#%d: %v", cf.key(nets), ti, p)
				continue
			}
			refBase := map[crypto.Hash]bool{}
			for who, r := range latest {
				if r.state != common.NodeStateAccepted {
					continue
				}
				id := idOf(who)
				if (cf.genesis && who < 50) || r.ts+c10Mature < ts {
					if removing != nil && removing.IdForNetwork == id {
						continue
					}
					refBase[id] = true
				}
			}
			cand := "no-candidate"
			if removing != nil {
				cand = "candidate"
			}
			hour := int((ts - net.epoch) / c10Hour % 24)
			win := "out-window"
			if hour >= 13 && hour <= 19 {
				win = "in-window"
			}

			type query struct {
				kind  string
				chain *Chain
				round uint64
			}
			qs := []query{{"ordinary", ordinary, 1}}
			if pledgingChain != nil && latest[62].state == common.NodeStatePledging {
				if pn := node.PledgingNode(ts); pn != nil && pn.IdForNetwork == pid {
					qs = append(qs, query{"round0-pledging", pledgingChain, 0})
				}
			}
			for _, qq := range qs {
				var ids []crypto.Hash
				if p := verifmc.Catch(func() { ids, _ = qq.chain.ConsensusKeys(qq.round, ts) }); p != nil {
					c.Require(false, "ConsensusKeys panicked for %s ts#%d: %v", cf.key(nets), ti, p)
					continue
				}
				evals++
				v := c10Judge(qq.kind, T, ids, refBase, pid)
				local[qq.kind+":"+v.outcome]++
				local["shape:"+win+":"+cand]++
				ltuples[fmt.Sprintf("%s|%s|%s|%s|b=%d|T=%d|K=%d", net.name, qq.kind, win, cand, v.bRef, v.T, v.K)] = struct{}{}
				if v.fail {
					replay := map[string]any{"config": cf.key(nets), "timestamp": ts, "timestamp_index": ti, "epoch": net.epoch, "chain": qq.kind, "T": v.T, "K": v.K, "base": v.bRef, "in_window": win, "candidate": cand}
					c.Violation(v.key, cf.key(nets)+fmt.Sprintf(" ts#%d %s %s: ", ti, win, cand)+v.desc, replay)
					mu.Lock()
					if len(samples) < 2 {
						samples = append(samples, replay)
					}
					mu.Unlock()
				}
			}
		}
		c.Eval(evals)
		mu.Lock()
		for k, n := range local {
			outcomes[k] += n
		}
		for k := range ltuples {
			tuples[k] = struct{}{}
		}
		mu.Unlock()
	})

	// ---- real fixture: 7-node genesis, then a really finalized pledge ----
	c10Real(c, outcomes, tuples)

	// ---- the (threshold, key vector) pair verifyFinalization really uses ----
	c10Certificates(c, nets, outcomes)

	// ---- histories on one long-running node vs a restarted node ----
	c10Histories(c, nets, outcomes)

	// ---- membership reload racing a verifier (schedule exploration) ----
	c10ReloadRace(c, nets, outcomes)

	for k, n := range outcomes {
		c.Outcome(k) // classes; case counts are under count:<class>
		c.Set("count:"+k, n)
	}
	c.Set("distinct_observed_tuples(net,chain,window,candidate,base,T,K)", int64(len(tuples)))
	c.Sample(map[string]any{"config": "testnet|gen=true|n=9|a=0|m=0|o=0|r=0|c=0|p=0|win=true", "timestamp": "reference instant (15:30 of day 200)", "expect": "candidate predicted, base 8, T=6, |K|=8: 3*(12-8)=12 > 8"})
	c.Sample(map[string]any{"config": "testnet|gen=true|n=7|a=2|m=1|o=0|r=1|c=0|p=0|win=false", "timestamp": "reference instant", "expect": "base 6 (<7): T=1000 unreachable"})
	for _, s := range samples {
		c.Sample(s)
	}
	c.Sample(map[string]any{"fixture": "real 7-node genesis + finalized pledge", "chain": "pledging node round 0", "expect": "T=5 |K|=8 -> known finding round0-pledging:bmod3=1"})

	need := []string{
		"ordinary:intersection-ok", "ordinary:below-minimum:unreachable-threshold", "round0-pledging:intersection-ok",
		"shape:in-window:candidate", "shape:in-window:no-candidate", "shape:out-window:no-candidate",
		"real:ordinary:intersection-ok",
		"cert:mainnet-prefork:legacy-retry:accepted", "cert:mainnet-prefork:signer-view:rejected", "cert:mainnet-prefork:current:accepted",
		"cert:testnet:current:accepted", "cert:mainnet-postfork:current:accepted",
		"race:threshold-then-keys:ok", "race:mixed-view-observed",
		"history:compared", "history:view-changed-by-reload", "history:cert-accepted", "history:cert-rejected",
	}
	for _, k := range need {
		c.Require(outcomes[k] > 0, "outcome class %q never reached (%v)", k, outcomes)
	}
	c.Require(len(tuples) > 200, "only %d distinct (base,T,K) observations", len(tuples))
}

// c10Real checks the real fixture node: ordinary chains of the 7-node genesis
// and, after a pledge transaction finalized through the real write path and
// the real LoadConsensusNodes, the pledging node's round 0.
func c10Real(c *verifmc.Check, outcomes map[string]int64, tuples map[string]struct{}) {
	m, err := newMCNode(mcNet7, 0, "")
	c.Require(err == nil, "real fixture: %v", err)
	if err != nil {
		return
	}
	defer m.Close()
	net, node := m.Net, m.Node
	refBase := map[crypto.Hash]bool{}
	for _, id := range net.NodeIds {
		refBase[id] = true
	}
	var zero crypto.Hash
	judge := func(kind string, chain *Chain, round, ts uint64, pid crypto.Hash, label string) {
		var ids []crypto.Hash
		T := 0
		if p := verifmc.Catch(func() { T = node.ConsensusThreshold(ts, true); ids, _ = chain.ConsensusKeys(round, ts) }); p != nil {
			c.Require(false, "real fixture panicked at %s: %v", label, p)
			return
		}
		c.Eval(1)
		c.Distinct(fmt.Sprintf("real|%s|%s", kind, label))
		v := c10Judge(kind, T, ids, refBase, pid)
		outcomes["real:"+kind+":"+v.outcome]++
		tuples[fmt.Sprintf("real|%s|b=%d|T=%d|K=%d", kind, v.bRef, v.T, v.K)] = struct{}{}
		if v.fail {
			c.Violation(v.key, fmt.Sprintf("real 7-node fixture, %s at %s: ", kind, label)+v.desc, map[string]any{"fixture": "newMCNode(mcNet7,0)", "chain": kind, "at": label, "timestamp": ts, "T": v.T, "K": v.K})
		}
	}
	ord := m.chainOf(net.NodeIds[1])
	c.Require(ord != nil && !ord.IsPledging(), "ordinary chain of the real fixture is not available")
	if ord == nil {
		return
	}
	e := net.Epoch
	for _, off := range []uint64{1, 2, c10Mature, c10Mature + 1, 12 * c10Hour, 12*c10Hour + 1, c10Day + 13*c10Hour - 1, c10Day + 13*c10Hour, c10Day + 15*c10Hour, c10Day + 20*c10Hour - 1, c10Day + 20*c10Hour, 400 * c10Day} {
		judge("ordinary", ord, 1, e+off, zero, fmt.Sprintf("epoch+%d", off))
	}

	// fund a wallet with a custodian-signed XIN deposit, pledge it
	wallet := fixc.Addr("c10-wallet")
	dep := net.DepositXIN("c10-pledge-funding", "13439", []*common.Address{&wallet}, 1)
	tDep := e + 2*c10Day + c10Hour
	var perr error
	p := verifmc.Catch(func() { _, perr = m.Store.VerifFinalize(net.NodeIds[0], tDep, true, dep) })
	c.Require(p == nil && perr == nil, "deposit finalization failed: %v %v", p, perr)
	if p != nil || perr != nil {
		return
	}
	signer, payee := fixc.NodeAddr("c10-real-pledge-signer"), fixc.NodeAddr("c10-real-pledge-payee")
	tx := common.NewTransactionV5(common.XINAssetId)
	tx.AddInput(dep.PayloadHash(), 0)
	tx.AddOutputWithType(common.OutputTypeNodePledge, nil, common.Script{}, common.KernelNodePledgeAmount, fixc.Seed64("c10-real-pledge"))
	tx.Extra = append(signer.PublicSpendKey[:], payee.PublicSpendKey[:]...)
	var pledge *common.VersionedTransaction
	tPledge := e + 2*c10Day + 2*c10Hour
	p = verifmc.Catch(func() {
		pledge = fixc.SignAll(tx, m.Store, [][]*common.Address{{&wallet}})
		perr = pledge.Validate(m.Store, tPledge, false)
		if perr != nil {
			return
		}
		_, perr = m.Store.VerifFinalize(net.NodeIds[0], tPledge, true, pledge)
		if perr != nil {
			return
		}
		perr = node.LoadConsensusNodes()
	})
	c.Require(p == nil && perr == nil, "pledge finalization failed: %v %v", p, perr)
	if p != nil || perr != nil {
		return
	}
	pid := signer.Hash().ForNetwork(net.NetworkId)
	pn := node.PledgingNode(tPledge + 1)
	c.Require(pn != nil && pn.IdForNetwork == pid, "real pledging node not visible after LoadConsensusNodes")
	if pn == nil {
		return
	}
	pc := node.getOrCreateChain(pid)
	c.Require(pc != nil && pc.IsPledging(), "pledging chain of the real fixture is not in the pledging state")
	if pc == nil || !pc.IsPledging() {
		return
	}
	for _, off := range []uint64{1, c10Hour, 12 * c10Hour, 12*c10Hour + 1, 35 * c10Hour /* day 3 13:00 */, 37 * c10Hour, 7 * c10Day} {
		ts := tPledge + off
		judge("ordinary", ord, 1, ts, zero, fmt.Sprintf("pledge+%d", off))
		judge("round0-pledging", pc, 0, ts, pid, fmt.Sprintf("pledge+%d", off))
	}
	c.Require(outcomes["real:round0-pledging:intersection-ok"]+outcomes["real:round0-pledging:intersection-FAIL:round0-pledging:bmod3=1"] > 0, "real pledging chain never judged: %v", outcomes)
}

// c10Cert builds an honest CoSi certificate over the key vector (ids, publics)
// signed by exactly the given positions.
func c10Cert(chainId crypto.Hash, ts uint64, label string, publics []*crypto.Key, positions []int) (*common.Snapshot, error) {
	snap := &common.Snapshot{
		Version:      common.SnapshotVersionCommonEncoding,
		NodeId:       chainId,
		RoundNumber:  1,
		Timestamp:    ts,
		Transactions: []crypto.Hash{crypto.Blake3Hash([]byte(label))},
	}
	snap.Hash = snap.PayloadHash()
	nonces := map[int]*crypto.CosiNonce{}
	commitments := map[int]*crypto.Key{}
	for _, i := range positions {
		n := crypto.CosiCommitNonce(crypto.RandReader())
		pub := n.Public()
		nonces[i], commitments[i] = n, &pub
	}
	sig, err := crypto.CosiAggregateCommitment(commitments)
	if err != nil {
		return nil, err
	}
	responses := map[int]*[32]byte{}
	for _, i := range positions {
		priv := c10Privs[*publics[i]]
		if priv == nil {
			return nil, fmt.Errorf("no private key for position %d", i)
		}
		r, err := nonces[i].Response(sig, priv, publics, snap.Hash)
		if err != nil {
			return nil, err
		}
		responses[i] = r
	}
	if err := sig.AggregateResponse(publics, responses, snap.Hash, false); err != nil {
		return nil, err
	}
	snap.Signature = sig
	return snap, nil
}

func c10SameIds(a, b []crypto.Hash) bool {
	if len(a) != len(b) {
		return false
	}
	for i := range a {
		if a[i] != b[i] {
			return false
		}
	}
	return true
}

func c10NewCache() *ristretto.Cache[[]byte, any] {
	cache, err := ristretto.NewCache(&ristretto.Config[[]byte, any]{NumCounters: 1e3, MaxCost: 1 << 20, BufferItems: 64})
	if err != nil {
		panic(err)
	}
	return cache
}

// c10Certificates: a signer node that has not seen the removal of the oldest
// node (13:00:30 of the query day) and a verifier node that has. Honest
// certificates over the signer's and over the verifier's key vector, with
// every popcount from two below the smaller to one above the larger of the two
// thresholds (lowest and highest positions), are presented to the verifier's
// real verifyFinalization at four instants. Whatever is accepted must satisfy
// the intersection inequality for the key vector it was verified against.
func c10Certificates(c *verifmc.Check, nets []c10Net, outcomes map[string]int64) {
	type job struct {
		net, n int
	}
	var jobs []job
	for ni := range nets {
		for n := 8; n <= 50; n++ {
			if ni != 2 && !c.Thorough() && n > 13 && n < 49 {
				continue // quick: the legacy-retry flavour gets every n, the two others the small and the largest sizes
			}
			jobs = append(jobs, job{ni, n})
		}
	}
	var mu sync.Mutex
	c.ParallelN(len(jobs), "certificates", func(_, ji int) {
		j := jobs[ji]
		net := nets[j.net]
		d0 := net.epoch + c10QueryDay*c10Day
		w := d0 + 13*c10Hour
		removalAt := w + c10Mature
		var base []c10Rec
		for i := 0; i < j.n; i++ {
			base = append(base, c10Rec{i, net.epoch, common.NodeStateAccepted})
		}
		S, err := c10BuildNode(net, base, true)
		if err != nil {
			c.Require(false, "certificate signer node: %v", err)
			return
		}
		oldest := S.NodesListWithoutState(w, true)[0].IdForNetwork
		who := -1
		for i := 0; i < j.n; i++ {
			if c10Signers[i].Hash().ForNetwork(net.id) == oldest {
				who = i
			}
		}
		V, err := c10BuildNode(net, append(append([]c10Rec{}, base...), c10Rec{who, removalAt, common.NodeStateRemoved}), true)
		if err != nil || who < 0 {
			c.Require(false, "certificate verifier node: %v", err)
			return
		}
		S.cacheStore, V.cacheStore = c10NewCache(), c10NewCache()
		defer S.cacheStore.Close()
		defer V.cacheStore.Close()
		chainId := c10Signers[j.n-1].Hash().ForNetwork(net.id)
		if chainId == oldest {
			chainId = c10Signers[j.n-2].Hash().ForNetwork(net.id)
		}
		chS, chV := &Chain{node: S, ChainId: chainId}, &Chain{node: V, ChainId: chainId}
		local := map[string]int64{}
		var evals int64
		for ti, ts := range []uint64{removalAt + c10Second, d0 + 15*c10Hour + 30*uint64(time.Minute), d0 + 20*c10Hour - 1, d0 + 20*c10Hour} {
			idsS, pubS := chS.ConsensusKeys(1, ts)
			idsV, pubV := chV.ConsensusKeys(1, ts)
			tS, tV := S.ConsensusThreshold(ts, true), V.ConsensusThreshold(ts, true)
			if tS > 64 || tV > 64 {
				local["cert:"+net.name+":below-minimum-skipped"]++
				continue
			}
			lo, hi := min(tS, tV)-2, max(tS, tV)+1
			type vec struct {
				name string
				ids  []crypto.Hash
				pubs []*crypto.Key
			}
			vecs := []vec{{"verifier-view", idsV, pubV}}
			if !c10SameIds(idsS, idsV) {
				vecs = append(vecs, vec{"signer-view", idsS, pubS})
			}
			for _, v := range vecs {
				for p := max(lo, 1); p <= hi && p <= len(v.ids); p++ {
					for shape := 0; shape < 2; shape++ {
						positions := make([]int, p)
						for i := range positions {
							positions[i] = i
							if shape == 1 {
								positions[i] = len(v.ids) - p + i
							}
						}
						label := fmt.Sprintf("c10-cert|%s|%d|%d|%s|%d|%d", net.name, j.n, ti, v.name, p, shape)
						snap, err := c10Cert(chainId, ts, label, v.pubs, positions)
						if err != nil {
							c.Require(false, "cannot sign %s: %v", label, err)
							continue
						}
						var signers []crypto.Hash
						finalized := false
						if pv := verifmc.Catch(func() { signers, finalized = chV.verifyFinalization(snap) }); pv != nil {
							c.Require(false, "verifyFinalization panicked on %s: %v", label, pv)
							continue
						}
						evals++
						c.Distinct(label)
						if !finalized {
							local["cert:"+net.name+":"+v.name+":rejected"]++
							continue
						}
						// the vector the certificate was verified against
						used, path := []crypto.Hash(nil), ""
						for _, cand := range []vec{v, vecs[0], vecs[len(vecs)-1]} {
							ok := len(signers) == p
							for i := 0; ok && i < p; i++ {
								ok = positions[i] < len(cand.ids) && cand.ids[positions[i]] == signers[i]
							}
							if ok {
								used = cand.ids
								break
							}
						}
						if used == nil {
							c.Require(false, "%s accepted but the returned signers match neither key vector", label)
							continue
						}
						if c10SameIds(used, idsV) {
							path = "current"
						} else {
							path = "legacy-retry"
						}
						k := len(used)
						local["cert:"+net.name+":"+path+":accepted"]++
						if !(3*(2*p-k) > k) {
							key := "verify:" + path + ":threshold-too-low"
							local["cert:"+net.name+":"+path+":accepted-FAIL"]++
							c.Violation(key, fmt.Sprintf("%s n=%d ts#%d: verifyFinalization of a node that has finalized the removal accepts an honest certificate of %d signers over the %s key vector of %d keys (current vector %d keys, current threshold %d, signer-side threshold %d): two such certificates may share only %d signers, not more than |K|/3", net.name, j.n, ti, p, v.name, k, len(idsV), tV, tS, 2*p-k),
								map[string]any{"net": net.name, "n": j.n, "timestamp": ts, "epoch": net.epoch, "removal_at": removalAt, "vector": v.name, "popcount": p, "positions": positions, "K_used": k, "K_current": len(idsV), "T_current": tV, "T_signer": tS})
						}
					}
				}
			}
		}
		c.Eval(evals)
		mu.Lock()
		for k, n := range local {
			outcomes[k] += n
		}
		mu.Unlock()
	})
}

// c10ReloadRace explores the schedules of the real LoadConsensusNodes (run
// after a removal record reached the store) against a verifier that reads the
// threshold and the key vector of an ordinary chain for a timestamp after the
// removal. Every pair a verifier can observe must satisfy the inequality.
func c10ReloadRace(c *verifmc.Check, nets []c10Net, outcomes map[string]int64) {
	type scen struct {
		net, n int
		tsName string
		order  string // threshold-then-keys | keys-then-threshold
	}
	var scens []scen
	for ni := range nets {
		for _, n := range []int{9, 10, 11} {
			for _, tn := range []string{"in-window", "after-window", "next-night"} {
				for _, o := range []string{"threshold-then-keys", "keys-then-threshold"} {
					scens = append(scens, scen{ni, n, tn, o})
				}
			}
		}
	}
	instrumented := false
	for _, sc := range scens {
		sc := sc
		net := nets[sc.net]
		d0 := net.epoch + c10QueryDay*c10Day
		removalAt := d0 + 13*c10Hour + c10Mature
		ts := map[string]uint64{"in-window": d0 + 15*c10Hour, "after-window": d0 + 20*c10Hour + c10Second, "next-night": d0 + 27*c10Hour}[sc.tsName]
		var base []c10Rec
		for i := 0; i < sc.n; i++ {
			base = append(base, c10Rec{i, net.epoch, common.NodeStateAccepted})
		}
		name := fmt.Sprintf("reload|%s|n=%d|%s|%s", net.name, sc.n, sc.tsName, sc.order)
		ex := &verifmc.Explorer{C: c, Bound: 3, Name: name}
		ex.Body = func(s *verifmc.Sched, report func(key, desc string)) string {
			node, err := c10BuildNode(net, base, true)
			if err != nil {
				panic(err)
			}
			oldest := node.NodesListWithoutState(removalAt, true)[0]
			st := node.persistStore.(*c10Store)
			st.nodes = append(st.nodes, &common.Node{Signer: oldest.Signer, Payee: oldest.Payee, State: common.NodeStateRemoved,
				Transaction: crypto.Blake3Hash([]byte("c10-race-removal")), Timestamp: removalAt})
			chain := &Chain{node: node, ChainId: c10Signers[sc.n-1].Hash().ForNetwork(net.id)}
			var T, K int
			s.Go("reload", func() {
				if err := node.LoadConsensusNodes(); err != nil {
					panic(err)
				}
			})
			s.Go("verify", func() {
				if sc.order == "threshold-then-keys" {
					T = node.ConsensusThreshold(ts, true)
					verifmc.Yield()
					ids, _ := chain.ConsensusKeys(1, ts)
					K = len(ids)
				} else {
					ids, _ := chain.ConsensusKeys(1, ts)
					K = len(ids)
					verifmc.Yield()
					T = node.ConsensusThreshold(ts, true)
				}
			})
			for _, p := range s.RunAll() {
				if p != nil {
					report("reload-race:panic", fmt.Sprintf("%s: %v", name, p))
					return "panic"
				}
			}
			out := fmt.Sprintf("T=%d,K=%d", T, K)
			if T <= 64 && !(3*(2*T-K) > K) {
				report("reload-race:"+sc.order, fmt.Sprintf("%s: a verifier reading %s while LoadConsensusNodes installs the removal of the oldest node observes threshold %d with %d keys: two certificates may share only %d signers, not more than |K|/3", name, sc.order, T, K, 2*T-K))
				return out + ":FAIL"
			}
			return out + ":ok"
		}
		ex.Run()
		if ex.MaxPoints > 4 {
			instrumented = true
		}
		views := 0
		for o, n := range ex.Outcomes {
			views++
			if len(o) > 3 && o[len(o)-3:] == ":ok" {
				outcomes["race:"+sc.order+":ok"] += n
			} else {
				outcomes["race:"+sc.order+":FAIL"] += n
			}
		}
		if views > 1 {
			outcomes["race:mixed-view-observed"]++
		}
		c.Add("race_executions", ex.Executions)
	}
	c.Set("race_scenarios", int64(len(scens)))
	c.Require(instrumented, "LoadConsensusNodes offers no scheduling points (yield instrumentation of kernel/node.go missing)")
}

// c10Histories: sequences of steps on ONE long-running node and ONE chain
// object. Steps 0..3 query (key vector, threshold, verification of an
// in-flight certificate) at 15:00 of day d, 20:00:01 of day d, 03:00 and
// 15:00 of day d+1. Steps 4..6 append a membership record to the store and run
// the real LoadConsensusNodes: removal of the oldest node at 19:59:30 of day d,
// pledge of a new node at 22:00 of day d, its acceptance at 14:00 of day d+1
// (each at most once, acceptance only after the pledge; the order in which the
// node learns them is free). Every sequence up to the depth bound is replayed
// from scratch; its last step is compared with a freshly loaded node.
func c10Histories(c *verifmc.Check, nets []c10Net, outcomes map[string]int64) {
	depth := verifmc.Pick(c, 3, 4)
	const nQuery, nStep = 4, 7
	stepNames := []string{"query@d15:00", "query@d20:00:01", "query@d+1,03:00", "query@d+1,15:00", "learn-removal@d19:59:30", "learn-pledge@d22:00", "learn-accept@d+1,14:00"}
	type job struct {
		net, n int
		first  int
	}
	var jobs []job
	for _, ni := range []int{0, 2} { // predictive signer set (non-mainnet) and legacy (mainnet before the fork)
		for _, n := range []int{9, 10, 11} {
			for f := 0; f < nStep; f++ {
				jobs = append(jobs, job{ni, n, f})
			}
		}
	}
	type certKey struct {
		net, n   int
		ts       uint64
		p, shape int
		vec      crypto.Hash
	}
	var certMu sync.Mutex
	certs := map[certKey]*common.Snapshot{}
	vecHash := func(ids []crypto.Hash) crypto.Hash {
		var b []byte
		for _, id := range ids {
			b = append(b, id[:]...)
		}
		return crypto.Blake3Hash(b)
	}
	getCert := func(net, n int, chainId crypto.Hash, ts uint64, ids []crypto.Hash, pubs []*crypto.Key, p, shape int) (*common.Snapshot, []int, error) {
		positions := make([]int, p)
		for i := range positions {
			positions[i] = i
			if shape == 1 {
				positions[i] = len(ids) - p + i
			}
		}
		k := certKey{net, n, ts, p, shape, vecHash(ids)}
		certMu.Lock()
		snap := certs[k]
		certMu.Unlock()
		if snap != nil {
			return snap, positions, nil
		}
		snap, err := c10Cert(chainId, ts, fmt.Sprintf("c10-history|%d|%d|%d|%d|%d|%s", net, n, ts, p, shape, k.vec), pubs, positions)
		if err != nil {
			return nil, nil, err
		}
		certMu.Lock()
		if old := certs[k]; old != nil {
			snap = old
		} else {
			certs[k] = snap
		}
		certMu.Unlock()
		return snap, positions, nil
	}

	var mu sync.Mutex
	var sequences int64
	c.ParallelN(len(jobs), "histories", func(_, ji int) {
		j := jobs[ji]
		net := nets[j.net]
		d0 := net.epoch + c10QueryDay*c10Day
		tss := []uint64{d0 + 15*c10Hour, d0 + 20*c10Hour + c10Second, d0 + 27*c10Hour, d0 + 39*c10Hour}
		var base []c10Rec
		for i := 0; i < j.n; i++ {
			base = append(base, c10Rec{i, net.epoch, common.NodeStateAccepted})
		}
		chainId := zeroHashC10
		oldestWho := -1
		{
			probe, err := c10BuildNode(net, base, true)
			if err != nil {
				c.Require(false, "history probe node: %v", err)
				return
			}
			list := probe.NodesListWithoutState(d0, true)
			for i := 0; i < j.n; i++ {
				if c10Signers[i].Hash().ForNetwork(net.id) == list[0].IdForNetwork {
					oldestWho = i
				}
			}
			chainId = list[len(list)-1].IdForNetwork
		}
		mutation := func(step int) c10Rec {
			switch step {
			case 4:
				return c10Rec{oldestWho, d0 + 20*c10Hour - c10Mature, common.NodeStateRemoved}
			case 5:
				return c10Rec{62, d0 + 22*c10Hour, common.NodeStatePledging}
			default:
				return c10Rec{62, d0 + 38*c10Hour, common.NodeStateAccepted}
			}
		}
		local := map[string]int64{}
		var evals, seqs int64
		tail := make([]int, 0, depth)
		var run func(seq []int)
		run = func(seq []int) {
			// enabledness: each change once, acceptance only after the pledge
			used := map[int]bool{}
			for _, st := range seq {
				if st >= nQuery {
					if used[st] || (st == 6 && !used[5]) {
						return
					}
					used[st] = true
				}
			}
			seqs++
			name := ""
			for i, st := range seq {
				if i > 0 {
					name += " ; "
				}
				name += stepNames[st]
			}
			recs := append([]c10Rec{}, base...)
			node, err := c10BuildNode(net, recs, true)
			if err != nil {
				c.Require(false, "history node: %v", err)
				return
			}
			node.cacheStore = c10NewCache()
			defer node.cacheStore.Close()
			chain := &Chain{node: node, ChainId: chainId}
			store := node.persistStore.(*c10Store)
			learn := func(st int) bool {
				r := mutation(st)
				recs = append(recs, r)
				store.nodes = append(store.nodes, &common.Node{Signer: c10Signers[r.who], Payee: c10Payees[r.who], State: r.state,
					Transaction: crypto.Blake3Hash([]byte(fmt.Sprintf("c10-tx-%d-%s-%d", r.who, r.state, r.ts))), Timestamp: r.ts})
				var lerr error
				if p := verifmc.Catch(func() { lerr = node.LoadConsensusNodes() }); p != nil || lerr != nil {
					c.Require(false, "history %s/n=%d [%s]: reload failed: %v %v", net.name, j.n, name, p, lerr)
					return false
				}
				return true
			}
			replay := func(ts uint64) map[string]any {
				return map[string]any{"net": net.name, "n": j.n, "epoch": net.epoch, "sequence": name, "steps": append([]int{}, seq...), "compared_at": ts}
			}
			compare := func(ts uint64) {
				var idsL, idsF []crypto.Hash
				var pubsL, pubsF []*crypto.Key
				tL, tF := 0, 0
				fresh, ferr := c10BuildNode(net, recs, true)
				if ferr != nil {
					c.Require(false, "history fresh node: %v", ferr)
					return
				}
				fresh.cacheStore = c10NewCache()
				defer fresh.cacheStore.Close()
				fchain := &Chain{node: fresh, ChainId: chainId}
				if p := verifmc.Catch(func() {
					idsL, pubsL = chain.ConsensusKeys(1, ts)
					tL = node.ConsensusThreshold(ts, true)
					idsF, pubsF = fchain.ConsensusKeys(1, ts)
					tF = fresh.ConsensusThreshold(ts, true)
				}); p != nil {
					c.Require(false, "history %s/n=%d [%s]: query panicked: %v", net.name, j.n, name, p)
					return
				}
				evals++
				local["history:compared"]++
				where := fmt.Sprintf("%s n=%d after [%s] at %d", net.name, j.n, name, ts)
				sameKeys := c10SameIds(idsL, idsF)
				if !sameKeys {
					c.Violation("history:key-vector-differs-from-restarted-node", fmt.Sprintf("%s: the long-running node checks certificates against %d keys, a node restarted from the same ledger against %d", where, len(idsL), len(idsF)), replay(ts))
				}
				if tL != tF {
					c.Violation("history:threshold-differs-from-restarted-node", fmt.Sprintf("%s: the long-running node uses threshold %d, a node restarted from the same ledger %d", where, tL, tF), replay(ts))
				}
				okL := tL > 64 || 3*(2*tL-len(idsL)) > len(idsL)
				okF := tF > 64 || 3*(2*tF-len(idsF)) > len(idsF)
				switch {
				case !okL && okF:
					c.Violation("history:keys-threshold-mismatch-after-reload", fmt.Sprintf("%s: the long-running node pairs threshold %d with %d keys (restarted node: %d with %d): two certificates may share only %d signers, not more than |K|/3", where, tL, len(idsL), tF, len(idsF), 2*tL-len(idsL)), replay(ts))
				case !okL:
					c.Violation("history:intersection-fail-also-on-restarted-node", fmt.Sprintf("%s: threshold %d with %d keys on both the long-running and the restarted node", where, tL, len(idsL)), replay(ts))
				}
				if tL > 64 {
					local["history:below-minimum"]++
					return
				}
				// honest certificates over the vectors the two nodes report
				type vec struct {
					ids  []crypto.Hash
					pubs []*crypto.Key
				}
				vecs := []vec{{idsL, pubsL}}
				if !sameKeys {
					vecs = append(vecs, vec{idsF, pubsF})
				}
				pops := []int{tL - 1, tL}
				if tF != tL && tF <= 64 {
					pops = append(pops, tF)
				}
				for _, v := range vecs {
					for _, p := range pops {
						if p < 1 || p > len(v.ids) {
							continue
						}
						for shape := 0; shape < 2; shape++ {
							snap, positions, err := getCert(j.net, j.n, chainId, ts, v.ids, v.pubs, p, shape)
							if err != nil {
								c.Require(false, "history certificate: %v", err)
								continue
							}
							var sigL, sigF []crypto.Hash
							finL, finF := false, false
							if pv := verifmc.Catch(func() {
								sigL, finL = chain.verifyFinalization(snap)
								sigF, finF = fchain.verifyFinalization(snap)
							}); pv != nil {
								c.Require(false, "history %s: verifyFinalization panicked: %v", where, pv)
								continue
							}
							_ = sigF
							evals++
							if finL != finF {
								c.Violation("history:verdict-differs-from-restarted-node", fmt.Sprintf("%s: an honest certificate of %d signers over %d keys is final=%v on the long-running node and final=%v on a node restarted from the same ledger", where, p, len(v.ids), finL, finF), replay(ts))
							}
							if !finL {
								local["history:cert-rejected"]++
								continue
							}
							local["history:cert-accepted"]++
							k := 0
							for _, cand := range vecs {
								ok := len(sigL) == p
								for i := 0; ok && i < p; i++ {
									ok = positions[i] < len(cand.ids) && cand.ids[positions[i]] == sigL[i]
								}
								if ok {
									k = len(cand.ids)
									break
								}
							}
							if k == 0 {
								k = len(v.ids) // legacy retry vector: the certificate only verifies against the vector it was signed over
							}
							if !(3*(2*p-k) > k) {
								c.Violation("history:verify:threshold-too-low", fmt.Sprintf("%s: verifyFinalization of the long-running node accepts an honest certificate of %d signers over %d keys (threshold %d, restarted node: threshold %d over %d keys): the two canonical certificates {0..%d} and {%d..%d} share only %d signers", where, p, k, tL, tF, len(idsF), p-1, k-p, k-1, 2*p-k), replay(ts))
							}
						}
					}
				}
			}
			for i, st := range seq {
				last := i == len(seq)-1
				switch {
				case st >= nQuery:
					// (fresh chain objects are used for this probe so that it is not a step of the history)
					before, _ := (&Chain{node: node, ChainId: chainId}).ConsensusKeys(1, tss[3])
					tb := node.ConsensusThreshold(tss[3], true)
					if !learn(st) {
						return
					}
					after, _ := (&Chain{node: node, ChainId: chainId}).ConsensusKeys(1, tss[3])
					if !c10SameIds(before, after) || tb != node.ConsensusThreshold(tss[3], true) {
						local["history:view-changed-by-reload"]++
					}
					if last {
						for _, ts := range tss {
							compare(ts)
						}
					}
				case last:
					compare(tss[st])
				default:
					// an in-flight snapshot at this timestamp: keys, threshold, one finalization attempt
					ts := tss[st]
					if p := verifmc.Catch(func() {
						ids, pubs := chain.ConsensusKeys(1, ts)
						t := node.ConsensusThreshold(ts, true)
						if t <= len(ids) {
							if snap, _, err := getCert(j.net, j.n, chainId, ts, ids, pubs, t, 0); err == nil {
								chain.verifyFinalization(snap)
							}
						}
					}); p != nil {
						c.Require(false, "history %s/n=%d [%s]: step panicked: %v", net.name, j.n, name, p)
						return
					}
				}
			}
			c.Distinct(fmt.Sprintf("history|%s|%d|%v", net.name, j.n, seq))
		}
		var rec func()
		rec = func() {
			run(append([]int{j.first}, tail...))
			if len(tail)+1 >= depth {
				return
			}
			for st := 0; st < nStep; st++ {
				tail = append(tail, st)
				rec()
				tail = tail[:len(tail)-1]
			}
		}
		rec()
		c.Eval(evals)
		mu.Lock()
		for k, n := range local {
			outcomes[k] += n
		}
		sequences += seqs
		mu.Unlock()
	})
	c.Set("history_sequences", sequences)
	c.Set("history_depth", int64(depth))
}

var zeroHashC10 crypto.Hash
