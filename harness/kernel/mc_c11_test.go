//go:build verif

package kernel

import (
	"fmt"
	"os"
	"sort"
	"strings"
	"sync/atomic"
	"testing"

	"github.com/MixinNetwork/mixin/common"
	"github.com/MixinNetwork/mixin/crypto"
	"github.com/MixinNetwork/mixin/storage"
	"github.com/MixinNetwork/mixin/verifmc"
)

// C11 — historical consensus views depend only on earlier ledger records.
//
// Explicit-state BFS (E2) over membership / custodian histories written through
// the real storage write path on a real node (members_test.go). The oracle is
// differential: the observation at instant q taken on a prefix p must equal the
// observation at q after any extension of p whose records are not earlier
// than q; it must not depend on the order of the queries, on a second
// LoadConsensusNodes, nor (custodian) on which store handle / cache state
// serves it.

const c11Deltas = 3

// timestamp menu of an appended event relative to the previous event:
// equal, adjacent, and a 12 h jump (01:00 / 13:00 grid: window-open and 12 h
// maturity boundaries are hit exactly).
var c11Delta = [c11Deltas]uint64{0, 1, 12 * mcMemHour}
var c11DeltaName = [c11Deltas]string{"+0", "+1ns", "+12h"}

func c11EventName(e int) string {
	return mcMemKindNames[e/c11Deltas] + c11DeltaName[e%c11Deltas]
}

type c11State struct {
	d       *mcMemDriver
	hist    []int
	genesis int // founding members of the network
	build   func() (*mcMemDriver, error)
	pending []int // history not yet executed (the node is built only for enabled events)
}

// c11Structural: is event e possible at all after the (applied) history? Kinds
// only; saves building a node for events the driver would refuse anyway.
func c11Structural(genesis int, hist []int, e int) bool {
	pledging, accepted := false, genesis
	for _, he := range hist {
		switch he / c11Deltas {
		case mcMemPledge:
			pledging = true
		case mcMemAccept:
			pledging, accepted = false, accepted+1
		case mcMemCancel:
			pledging = false
		case mcMemRemove:
			accepted--
		}
	}
	switch e / c11Deltas {
	case mcMemPledge:
		return !pledging
	case mcMemAccept, mcMemCancel:
		return pledging
	case mcMemRemove:
		return !pledging && accepted > 7
	case mcMemCustodianSame:
		return e%c11Deltas != 1 // same-account updates: equal timestamp and +12 h only
	}
	return true
}

// materialize builds the node and executes the pending history.
func (s *c11State) materialize() bool {
	if s.d != nil {
		return true
	}
	d, err := s.build()
	if err != nil {
		panic(err)
	}
	s.d = d
	for _, e := range s.pending {
		if err := d.Apply(e/c11Deltas, s.nextTS(e)); err != nil {
			return false
		}
		s.hist = append(s.hist, e)
	}
	s.pending = nil
	return true
}

func c11Base(d *mcMemDriver) uint64 { return d.Net.Epoch + 10*mcMemDay + mcMemHour }

func (s *c11State) nextTS(e int) uint64 {
	last := c11Base(s.d)
	if len(s.d.Hist) > 0 {
		last = s.d.LastTS()
	}
	return last + c11Delta[e%c11Deltas]
}

// ---- observation -----------------------------------------------------------------

var c11Ops = []byte{common.TransactionTypeMint, common.TransactionTypeNodeRemove, common.TransactionTypeNodePledge, common.TransactionTypeCustodianUpdateNodes, common.TransactionTypeCustodianSlashNodes}

// kernel-level components use strict "before q" semantics, the two storage
// lookups are inclusive ("at or before q").
var c11KernelParts = []string{"nodes.all", "nodes.accepted", "keys.r1", "keys.r0", "threshold.final", "threshold.nonfinal", "pledging", "removing", "elect"}
var c11StoreParts = []string{"custodian", "custodian.list", "store.nodes.state", "store.nodes"}

func c11CNodes(nodes []*CNode) string {
	var b strings.Builder
	for _, n := range nodes {
		fmt.Fprintf(&b, "%s/%s/%s/%s/%d/%s/%d;", n.IdForNetwork, n.Signer.PublicSpendKey, n.Payee.PublicSpendKey, n.Transaction, n.Timestamp, n.State, n.ConsensusIndex)
	}
	return b.String()
}

func c11CNode(n *CNode) string {
	if n == nil {
		return "nil"
	}
	return c11CNodes([]*CNode{n})
}

func c11Custodian(store storage.Store, q uint64) string {
	var cur *common.CustodianUpdateRequest
	var err error
	if p := verifmc.Catch(func() { cur, err = store.ReadCustodian(q) }); p != nil {
		return fmt.Sprintf("panic:%v", p)
	}
	if err != nil {
		return "error:" + err.Error()
	}
	if cur == nil {
		return "nil"
	}
	var nb []byte
	for _, n := range cur.Nodes {
		nb = append(nb, n.Custodian.PublicSpendKey[:]...)
		nb = append(nb, n.Payee.PublicSpendKey[:]...)
		nb = append(nb, n.Extra...)
	}
	sig := "nil"
	if cur.Signature != nil {
		sig = cur.Signature.String()
	}
	return fmt.Sprintf("%s/%d/%s/%s/%s/%d", cur.Custodian.String(), len(cur.Nodes), crypto.Blake3Hash(nb), sig, cur.Transaction, cur.Timestamp)
}

func c11StoreNodes(nodes []*common.Node, asSet bool) string {
	parts := make([]string, len(nodes))
	for i, n := range nodes {
		parts[i] = fmt.Sprintf("%020d/%s/%s/%s/%s", n.Timestamp, n.Signer.PublicSpendKey, n.Payee.PublicSpendKey, n.Transaction, n.State)
	}
	if asSet {
		// ReadAllNodes(q, false) orders equal timestamps by map iteration: compared as a set
		sort.Strings(parts)
	}
	return strings.Join(parts, ";")
}

// c11View is what is being observed: a node, its store and one accepted chain.
type c11View struct {
	node  *Node
	store storage.Store
	chain *Chain
}

func c11ViewOf(d *mcMemDriver) *c11View {
	return &c11View{node: d.M.Node, store: d.M.Store, chain: d.M.chainOf(d.Net.NodeIds[2])}
}

// c11FreshView is a restarted node over the same store: a new Node whose
// membership is loaded by one real LoadConsensusNodes (full rebuild).
func c11FreshView(d *mcMemDriver) (*c11View, error) {
	old := d.M.Node
	n := &Node{IdForNetwork: old.IdForNetwork, Signer: old.Signer, Epoch: old.Epoch, networkId: old.networkId,
		persistStore: old.persistStore, genesisNodesMap: old.genesisNodesMap, cacheStore: old.cacheStore}
	if err := n.LoadConsensusNodes(); err != nil {
		return nil, err
	}
	return &c11View{node: n, store: d.M.Store, chain: &Chain{node: n, ChainId: d.Net.NodeIds[2]}}, nil
}

func c11CustodianList(store storage.Store, q uint64) string {
	var curs []*common.CustodianUpdateRequest
	var err error
	if p := verifmc.Catch(func() { curs, err = store.ListCustodianUpdates() }); p != nil {
		return fmt.Sprintf("panic:%v", p)
	}
	if err != nil {
		return "error:" + err.Error()
	}
	var b strings.Builder
	for _, cur := range curs {
		if cur.Timestamp > q {
			continue
		}
		var nb []byte
		for _, n := range cur.Nodes {
			nb = append(nb, n.Extra...)
		}
		fmt.Fprintf(&b, "%d/%s/%s/%s;", cur.Timestamp, cur.Transaction, cur.Custodian.String(), crypto.Blake3Hash(nb))
	}
	return b.String()
}

// c11Part evaluates one component of the observation at q through the real code.
func c11Part(d *mcMemDriver, part string, q uint64) string { return c11PartOf(c11ViewOf(d), part, q) }

func c11PartOf(v *c11View, part string, q uint64) (out string) {
	node := v.node
	gchain := v.chain
	p := verifmc.Catch(func() {
		switch part {
		case "nodes.all":
			out = c11CNodes(node.NodesListWithoutState(q, false))
		case "nodes.accepted":
			out = c11CNodes(node.NodesListWithoutState(q, true))
		case "keys.r1", "keys.r0":
			round := uint64(1)
			if part == "keys.r0" {
				round = 0
			}
			ids, pubs := gchain.ConsensusKeys(round, q)
			var b strings.Builder
			for i := range ids {
				fmt.Fprintf(&b, "%s/%s;", ids[i], pubs[i])
			}
			out = b.String()
		case "threshold.final":
			out = fmt.Sprint(node.ConsensusThreshold(q, true))
		case "threshold.nonfinal":
			out = fmt.Sprint(node.ConsensusThreshold(q, false))
		case "pledging":
			out = c11CNode(node.PledgingNode(q))
		case "removing":
			out = c11CNode(node.removingOrSlashingNodeAt(q))
		case "elect":
			var b strings.Builder
			for _, op := range c11Ops {
				fmt.Fprintf(&b, "%d=%s;", op, node.electSnapshotNode(op, q))
			}
			out = b.String()
		case "custodian":
			out = c11Custodian(v.store, q)
		case "custodian.list":
			out = c11CustodianList(v.store, q)
		case "store.nodes.state":
			out = c11StoreNodes(v.store.ReadAllNodes(q, true), false)
		case "store.nodes":
			out = c11StoreNodes(v.store.ReadAllNodes(q, false), true)
		default:
			panic("unknown part " + part)
		}
	})
	if p != nil {
		return fmt.Sprintf("panic:%v", p)
	}
	return out
}

func c11AllParts() []string {
	return append(append([]string{}, c11KernelParts...), c11StoreParts...)
}

type c11Obs map[string]string // "part@q" -> canonical value

func c11ObsKey(part string, q uint64) string { return fmt.Sprintf("%s@%d", part, q) }

// c11Observe evaluates all parts at all instants in the given order mode:
// 0 = instants ascending / parts in order, 1 = everything reversed,
// 2 = part-major interleaving (each part sweeps all instants, alternating direction).
func c11Observe(d *mcMemDriver, qs []uint64, mode int) c11Obs {
	parts := c11AllParts()
	obs := c11Obs{}
	switch mode {
	case 0:
		for _, q := range qs {
			for _, p := range parts {
				obs[c11ObsKey(p, q)] = c11Part(d, p, q)
			}
		}
	case 1:
		for i := len(qs) - 1; i >= 0; i-- {
			for j := len(parts) - 1; j >= 0; j-- {
				obs[c11ObsKey(parts[j], qs[i])] = c11Part(d, parts[j], qs[i])
			}
		}
	default:
		for j, p := range parts {
			for i := range qs {
				k := i
				if j%2 == 1 {
					k = len(qs) - 1 - i
				}
				obs[c11ObsKey(p, qs[k])] = c11Part(d, p, qs[k])
			}
		}
	}
	return obs
}

// c11Instants: every record boundary (ts-1, ts, ts+1) of the reference ledger
// (membership and custodian records) plus extra instants.
func c11Instants(d *mcMemDriver, extra ...uint64) []uint64 {
	set := map[uint64]bool{}
	add := func(ts uint64) {
		set[ts-1], set[ts], set[ts+1] = true, true, true
	}
	for _, r := range d.Recs {
		add(r.TS)
	}
	for _, c := range d.Custs {
		add(c.TS)
	}
	for _, e := range extra {
		add(e)
	}
	// the operation window (13:00-19:59) of the two days after the last record, and
	// instants outside it: the removal prediction is evaluated there
	last := c11Base(d)
	for q := range set {
		if q > last {
			last = q
		}
	}
	day := (last - d.Net.Epoch) / mcMemDay
	for _, dd := range []uint64{day + 1, day + 2} {
		w := d.Net.Epoch + dd*mcMemDay + 13*mcMemHour
		for _, q := range []uint64{w - 1, w, w + mcMemHour, w + 7*mcMemHour - 1, w + 7*mcMemHour, w + 8*mcMemHour} {
			set[q] = true
		}
	}
	out := make([]uint64, 0, len(set))
	for q := range set {
		out = append(out, q)
	}
	sort.Slice(out, func(i, j int) bool { return out[i] < out[j] })
	return out
}

// c11Short renders an observed value for a message: digest plus a prefix.
func c11Short(v string) string {
	if len(v) <= 96 {
		return v
	}
	h := crypto.Blake3Hash([]byte(v))
	return fmt.Sprintf("%s...(%d bytes, digest %s)", v[:80], len(v), h.String()[:16])
}

func c11IsStorePart(part string) bool {
	for _, p := range c11StoreParts {
		if p == part {
			return true
		}
	}
	return false
}

// c11RefCustodian: custodian of the latest reference record at or before q.
func c11RefCustodian(d *mcMemDriver, q uint64) (mcMemCust, bool) {
	var best mcMemCust
	found := false
	for _, c := range d.Custs {
		if c.TS <= q && (!found || c.TS >= best.TS) {
			best, found = c, true
		}
	}
	return best, found
}

type c11Counters struct {
	changedLater     atomic.Int64 // appended record changed the view at a later instant (sensitivity)
	compared         atomic.Int64 // (part, instant) pairs compared before/after an append
	tieStoreChanged  atomic.Int64 // inclusive storage lookups at q == appended timestamp (informational)
	equalTS          atomic.Int64 // transitions whose record shares its timestamp with another record
	coldChecks       atomic.Int64
	coldInstants     atomic.Int64
	custodianStates  atomic.Int64
	validated        atomic.Int64
	notValidated     atomic.Int64
	removals         atomic.Int64
	overwrites       atomic.Int64
	refCustodianSeen atomic.Int64
	freshCompared    atomic.Int64 // (part, instant) pairs compared between the long-running and a restarted node
	custOccupied     atomic.Int64 // same-account custodian updates stamped like an existing record (ignored by the ledger)
	custOccupiedCmp  atomic.Int64
	candidateSeen    atomic.Int64 // instants at which a removal candidate was predicted
	removePledgeAcc  atomic.Int64 // states reached through remove -> pledge -> accept
}

var c11Ctr c11Counters

func c11HistNames(h []int) []string {
	out := make([]string, len(h))
	for i, e := range h {
		out[i] = c11EventName(e)
	}
	return out
}

// c11ColdCheck replays the history on an on-disk store and compares
// ReadCustodian on the handle that wrote it (warm), on a fresh handle opened
// over the same directory (cold, reverse order), on that handle again (warm)
// and on the in-memory instance.
func c11ColdCheck(s *c11State, qs []uint64, mem map[uint64]string, report func(key, desc string)) {
	dir := mcMemScratch("c11-disk-")
	dd, err := newMCMemDriverNet(s.d.Net, dir)
	if err != nil {
		panic(err)
	}
	ds := &c11State{d: dd}
	for _, e := range s.hist {
		if err := dd.Apply(e/c11Deltas, ds.nextTS(e)); err != nil {
			dd.Close()
			report("disk-replay-diverged", fmt.Sprintf("history %v applies in memory but not on disk: %v", c11HistNames(s.hist), err))
			return
		}
	}
	warm := map[uint64]string{}
	for _, q := range qs {
		warm[q] = c11Custodian(dd.M.Store, q)
	}
	// close everything but keep the directory, reopen a fresh handle
	dd.M.Close()
	st, err := storage.OpenForVerif(dir)
	if err != nil {
		panic(err)
	}
	cold := map[uint64]string{}
	for i := len(qs) - 1; i >= 0; i-- {
		cold[qs[i]] = c11Custodian(st, qs[i])
	}
	again := map[uint64]string{}
	for _, q := range qs {
		again[q] = c11Custodian(st, q)
	}
	_ = st.Close()
	_ = os.RemoveAll(dir)
	c11Ctr.coldChecks.Add(1)
	for _, q := range qs {
		c11Ctr.coldInstants.Add(1)
		if warm[q] != cold[q] || cold[q] != again[q] || cold[q] != mem[q] {
			report("custodian-cache-differs", fmt.Sprintf("ReadCustodian(%d) after history %v: writer handle %q, fresh handle (cold) %q, fresh handle (second read) %q, in-memory instance %q", q, c11HistNames(s.hist), c11Short(warm[q]), c11Short(cold[q]), c11Short(again[q]), c11Short(mem[q])))
			return
		}
	}
}

func c11Apply(s *c11State, e int, replaying bool, report func(key, desc string)) bool {
	kind := e / c11Deltas
	if replaying && s.d == nil {
		s.pending = append(s.pending, e) // executed when an enabled event follows
		return true
	}
	if s.d == nil && !c11Structural(s.genesis, s.pending, e) {
		return false
	}
	if !s.materialize() {
		report("replay-diverged", fmt.Sprintf("a history that was applied before does not apply again: %v", c11HistNames(s.pending)))
		return false
	}
	d := s.d
	if !d.Enabled(kind) || !c11Structural(s.genesis, s.hist, e) {
		return false
	}
	ts := s.nextTS(e)
	if kind == mcMemCustodianSame && e%c11Deltas == 0 {
		// equal timestamp: only onto an existing custodian record (the case the ledger ignores)
		onto := false
		for _, cr := range d.Custs {
			if cr.TS == ts {
				onto = true
			}
		}
		if !onto {
			return false
		}
	}
	if replaying {
		if err := d.Apply(kind, ts); err != nil {
			return false
		}
		s.hist = append(s.hist, e)
		return true
	}

	// observation on the prefix, at every instant that is not later than the new record
	qsAll := c11Instants(d, ts)
	var qsPre []uint64
	for _, q := range qsAll {
		if q <= ts {
			qsPre = append(qsPre, q)
		}
	}
	pre := c11Observe(d, qsPre, 0)
	// a custodian update stamped like an existing custodian record must leave the
	// custodian history untouched at every instant (the ledger ignores or refuses it)
	occupied := false
	if kind == mcMemCustodian || kind == mcMemCustodianSame {
		for _, cr := range d.Custs {
			if cr.TS == ts {
				occupied = true
			}
		}
	}
	preCust := map[string]string{}
	if occupied {
		for _, q := range qsAll {
			for _, part := range []string{"custodian", "custodian.list"} {
				preCust[c11ObsKey(part, q)] = c11Part(d, part, q)
			}
		}
	}

	if err := d.Apply(kind, ts); err != nil {
		return false
	}
	s.hist = append(s.hist, e)
	names := c11HistNames(s.hist)
	c11Ctr.validated.Add(int64(d.Validated))
	c11Ctr.notValidated.Add(int64(d.NotValidated))
	if kind == mcMemRemove {
		c11Ctr.removals.Add(1)
	}
	nrec := 0
	for _, r := range d.Recs {
		if r.TS == ts {
			nrec++
		}
	}
	if nrec > 1 {
		c11Ctr.equalTS.Add(1)
	}

	// (1) later records never change earlier views
	qsPost := c11Instants(d, ts)
	post := c11Observe(d, qsPost, 1)
	for _, q := range qsPre {
		for _, part := range c11AllParts() {
			k := c11ObsKey(part, q)
			if c11IsStorePart(part) && q == ts {
				// inclusive lookups: a record stamped q belongs to the view at q by definition
				if pre[k] != post[k] {
					c11Ctr.tieStoreChanged.Add(1)
				}
				continue
			}
			c11Ctr.compared.Add(1)
			if pre[k] != post[k] {
				report("later-record-changed-view:"+part, fmt.Sprintf("%s at instant %d (appended record is stamped %d, %+d) was %q before and is %q after appending %s; history %v", part, q, ts, int64(q)-int64(ts), c11Short(pre[k]), c11Short(post[k]), c11EventName(e), names))
				return true
			}
		}
	}
	if occupied {
		c11Ctr.custOccupied.Add(1)
		for _, q := range qsAll {
			for _, part := range []string{"custodian", "custodian.list"} {
				k := c11ObsKey(part, q)
				c11Ctr.custOccupiedCmp.Add(1)
				if preCust[k] != post[k] {
					report("custodian-history-rewritten:"+part, fmt.Sprintf("%s at instant %d (%+d from the record) was %q before and is %q after appending %s at the timestamp %d of an existing custodian record; history %v", part, q, int64(q)-int64(ts), c11Short(preCust[k]), c11Short(post[k]), c11EventName(e), ts, names))
					return true
				}
			}
		}
	}
	// (1b) the long-running node (append + LoadConsensusNodes after every event) and a
	// restarted node (one full load from the same store) report the same history
	fresh, err := c11FreshView(d)
	if err != nil {
		report("restart-failed", fmt.Sprintf("LoadConsensusNodes on a fresh node failed: %v; history %v", err, names))
		return true
	}
	for _, q := range qsPost {
		for _, part := range c11KernelParts {
			c11Ctr.freshCompared.Add(1)
			if got := c11PartOf(fresh, part, q); got != post[c11ObsKey(part, q)] {
				report("restarted-node-differs:"+part, fmt.Sprintf("%s at instant %d (%+d from the appended record stamped %d): long-running node %q, node restarted over the same store %q; history %v", part, q, int64(q)-int64(ts), ts, c11Short(post[c11ObsKey(part, q)]), c11Short(got), names))
				return true
			}
		}
	}
	// sensitivity: the append is visible at some later instant
	changed := false
	for _, part := range c11AllParts() {
		k1 := c11ObsKey(part, ts+1)
		k0 := c11ObsKey(part, ts-1)
		if post[k1] != post[k0] {
			changed = true
		}
	}
	if changed || occupied {
		c11Ctr.changedLater.Add(1)
	}
	for _, q := range qsPost {
		if post[c11ObsKey("removing", q)] != "nil" {
			c11Ctr.candidateSeen.Add(1)
		}
	}
	if n := len(s.hist); n >= 3 && s.hist[n-3]/c11Deltas == mcMemRemove && s.hist[n-2]/c11Deltas == mcMemPledge && s.hist[n-1]/c11Deltas == mcMemAccept {
		c11Ctr.removePledgeAcc.Add(1)
	}

	// (2) order of the queries, and a second LoadConsensusNodes, are irrelevant
	fwd := c11Observe(d, qsPost, 0)
	inter := c11Observe(d, qsPost, 2)
	if err := d.Reload(); err != nil {
		report("reload-failed", fmt.Sprintf("second LoadConsensusNodes failed: %v; history %v", err, names))
		return true
	}
	again := c11Observe(d, qsPost, 0)
	for _, q := range qsPost {
		for _, part := range c11AllParts() {
			k := c11ObsKey(part, q)
			if post[k] != fwd[k] || fwd[k] != inter[k] || fwd[k] != again[k] {
				report("query-order-changed-view:"+part, fmt.Sprintf("%s at instant %d: reverse order %q, ascending %q, interleaved %q, after reload %q; history %v", part, q, c11Short(post[k]), c11Short(fwd[k]), c11Short(inter[k]), c11Short(again[k]), names))
				return true
			}
		}
	}

	// (3) custodian: reference ledger (latest record at or before q) and cold / warm handles
	hasCust := false
	for _, he := range s.hist {
		if k := he / c11Deltas; k == mcMemCustodian || k == mcMemCustodianSame {
			hasCust = true
		}
	}
	mem := map[uint64]string{}
	for _, q := range qsPost {
		v := fwd[c11ObsKey("custodian", q)]
		mem[q] = v
		ref, ok := c11RefCustodian(d, q)
		if !ok {
			if v != "nil" {
				report("custodian-before-first-record", fmt.Sprintf("ReadCustodian(%d) = %q but no custodian record is stamped at or before it; history %v", q, v, names))
				return true
			}
			continue
		}
		c11Ctr.refCustodianSeen.Add(1)
		want := fmt.Sprintf("%s/%d/", ref.Custodian, ref.Nodes)
		tail := fmt.Sprintf("/%s/%d", ref.Tx, ref.TS)
		if !strings.HasPrefix(v, want) || !strings.HasSuffix(v, tail) {
			report("custodian-not-latest-record", fmt.Sprintf("ReadCustodian(%d) = %q, the latest record at or before it is custodian %s (%d nodes) tx %s stamped %d; history %v", q, c11Short(v), ref.Custodian, ref.Nodes, ref.Tx, ref.TS, names))
			return true
		}
	}
	if hasCust {
		c11Ctr.custodianStates.Add(1)
	}
	if kind == mcMemCustodian {
		// the custodian records changed with this append (for other appends they are
		// those of the parent state, which was checked when it was reached)
		c11ColdCheck(s, qsPost, mem, report)
	}
	return true
}

func TestMC_C11(t *testing.T) {
	c := verifmc.Start(t, "C11", "model_checking")
	defer c.Finish()
	c.SetRule("BFS over all histories of real finalized membership / custodian events {pledge, accept, cancel, remove-oldest, custodian-update (new account), custodian-update-same-account (different transaction)} on a 7-node genesis and {pledge, accept, cancel, remove-oldest} on a 9-node genesis x timestamp {equal to, 1 ns after, 12 h after the previous event}; a state is a distinct history; per transition the observation (NodesListWithoutState both modes incl. ConsensusIndex, ConsensusKeys rounds 0/1, ConsensusThreshold final/non-final, PledgingNode, removal candidate, electSnapshotNode for 5 operations, ReadCustodian, ReadAllNodes both modes) is taken at every record boundary (ts-1, ts, ts+1) not later than the appended record before and after the append, and additionally at 6 instants in / around the operation window of each of the two following days, in ascending / reverse / interleaved order, after a second LoadConsensusNodes, on a restarted node (fresh Node, one LoadConsensusNodes over the same store), and (custodian) on cold and warm store handles over an on-disk copy")
	c.Assume("events are finalized at the storage layer (LockInputs, WriteTransaction, WriteSnapshot on a genesis chain's head round) followed by the real LoadConsensusNodes; kernel admission rules (hours, periods, election) are not applied, so some histories are not reachable through consensus",
		"the two storage lookups ReadCustodian / ReadAllNodes are inclusive (a record stamped q is part of the view at q): for them the instant q == appended timestamp is counted, not compared",
		"ReadAllNodes(q, false) orders equal timestamps by map iteration and is compared as a set")
	depth := verifmc.Pick(c, 3, 4)
	run := func(name string, kinds, genesis int, newDriver func() (*mcMemDriver, error)) (int64, int64, int) {
		b := &verifmc.BFS[*c11State]{
			C: c, NumEvents: kinds * c11Deltas, MaxDepth: depth,
			EventName: c11EventName,
			New:       func(int) *c11State { return &c11State{genesis: genesis, build: newDriver} },
			Apply:     c11Apply,
			Key:       func(s *c11State) string { return name + ":" + strings.Join(c11HistNames(s.hist), ",") },
			Close: func(s *c11State) {
				if s.d != nil {
					s.d.Close()
				}
			},
		}
		st, tr, dp, _ := b.Run()
		c.Set("states_"+name, st)
		c.Set("transitions_"+name, tr)
		return st, tr, dp
	}
	// (a) 7-node genesis, all five kinds; (b) 9-node genesis (removals possible from the
	// start: remove -> pledge -> accept puts a REMOVED record between accepted ones),
	// membership kinds only
	states, trans, d := run("net7", mcMemKinds, 7, func() (*mcMemDriver, error) { return newMCMemDriver("") })
	states9, trans9, _ := run("net9", mcMemRemove+1, 9, func() (*mcMemDriver, error) { return newMCMemDriverNet(mcMemNet9, "") })
	states, trans = states+states9, trans+trans9
	c.Set("max_depth", d)
	c.Set("compared_part_instants", c11Ctr.compared.Load())
	c.Set("appends_visible_later", c11Ctr.changedLater.Load())
	c.Set("appends_sharing_a_timestamp", c11Ctr.equalTS.Load())
	c.Set("inclusive_lookup_changed_at_equal_timestamp", c11Ctr.tieStoreChanged.Load())
	c.Set("custodian_states", c11Ctr.custodianStates.Load())
	c.Set("cold_handle_checks", c11Ctr.coldChecks.Load())
	c.Set("cold_handle_instants", c11Ctr.coldInstants.Load())
	c.Set("custodian_reference_checks", c11Ctr.refCustodianSeen.Load())
	c.Set("restarted_node_compared_part_instants", c11Ctr.freshCompared.Load())
	c.Set("custodian_updates_at_occupied_timestamp_ignored", c11Ctr.custOccupied.Load())
	c.Set("custodian_occupied_compared_part_instants", c11Ctr.custOccupiedCmp.Load())
	c.Set("removals", c11Ctr.removals.Load())
	c.Set("instants_with_removal_candidate", c11Ctr.candidateSeen.Load())
	c.Set("states_after_remove_pledge_accept", c11Ctr.removePledgeAcc.Load())
	c.Set("transactions_accepted_by_Validate", c11Ctr.validated.Load())
	c.Set("transactions_refused_by_Validate", c11Ctr.notValidated.Load())
	if c.Violations() > 0 {
		return
	}
	c.Require(states > 100 && trans > 100, "vacuous C11 exploration: %d states %d transitions", states, trans)
	c.Require(c11Ctr.changedLater.Load()*2 > trans, "observation is not sensitive: only %d of %d appends changed a later view", c11Ctr.changedLater.Load(), trans)
	c.Require(c11Ctr.equalTS.Load() > 10, "equal timestamps were not exercised (%d)", c11Ctr.equalTS.Load())
	c.Require(c11Ctr.coldChecks.Load() > 10 && c11Ctr.custodianStates.Load() > 10, "custodian cold/warm comparison not exercised (%d)", c11Ctr.coldChecks.Load())
	c.Require(c11Ctr.removals.Load() > 0, "no removal was reached")
	c.Require(c11Ctr.custOccupied.Load() > 5 && c11Ctr.freshCompared.Load() > 1000, "same-account custodian update at an occupied timestamp / restarted-node comparison not exercised (%d, %d)", c11Ctr.custOccupied.Load(), c11Ctr.freshCompared.Load())
	c.Require(states9 > 50 && c11Ctr.removePledgeAcc.Load() > 0, "9-node exploration did not reach remove -> pledge -> accept (%d states, %d)", states9, c11Ctr.removePledgeAcc.Load())
	c.Require(c11Ctr.candidateSeen.Load() > 100, "the removal prediction inside the operation window was not exercised (%d instants)", c11Ctr.candidateSeen.Load())
	c.Require(c11Ctr.validated.Load() > 0, "no driver transaction passed the real Validate")
}
