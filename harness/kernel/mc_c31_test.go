//go:build verif

package kernel

// C31 — every message the node builds to carry an admitted batch of
// transactions or a snapshot exchange fits the transport maximum (32 MiB).
//
// TWO tests are named TestMC_C31: this one (package kernel: batch accounting
// model + conformance against the real batcher and the real p2p builders; the
// main check) and /verif/harness/p2p/mc_c31_test.go (framing over a loopback
// QUIC pair). bin/verif-run runs the packages in the order of its PKGS list
// (common, crypto, storage, kernel, p2p), i.e. kernel first, p2p last, collects
// the evidence file each half writes and merges them itself (merge_evidence:
// counts summed, level and extra keys of the first part = this one, per-part
// coverage under "parts"). Each half reports its own violations through its own
// Check; neither reads the other's output.
//
// Model. Three REAL admissible transaction classes are built once on a real
// fixture node and pass the real Validate: S small transfer, P payload heavy
// (3.9 MiB extra paid by a storage output), H signature heavy (80 inputs of 256
// one-time keys, every key signs: 1.35 MB of signatures, 2.3 MiB extra). Their
// MEASURED (unsigned size, envelope size) pairs feed a mirror of the accounting
// loop of popAndProcessCacheQueue (c31Model). All multisets of the classes with
// up to 255 members are enumerated in the 6 class-sorted queue orders plus the
// rotations of the boundary element; every message built from the resulting
// batch is sized with the builders' length formula and must be <= max.
// Conformance: the formula against the real builders (every class combination
// of <= 3 members), the model against the real node.popAndProcessCacheQueue
// (probe, threshold, exact-threshold, worst, small and after-boundary traces). Which size the real batcher accounts (unsigned
// payload or signed envelope) is decided by the probe trace, not hard coded.

import (
	"fmt"
	"math"
	"runtime"
	"runtime/debug"
	"sort"
	"strings"
	"sync"
	"sync/atomic"
	"syscall"
	"testing"
	"time"

	"filippo.io/edwards25519"
	"github.com/MixinNetwork/mixin/common"
	"github.com/MixinNetwork/mixin/config"
	"github.com/MixinNetwork/mixin/crypto"
	"github.com/MixinNetwork/mixin/kernel/internal/clock"
	"github.com/MixinNetwork/mixin/p2p"
	"github.com/MixinNetwork/mixin/verifmc"
	"github.com/MixinNetwork/mixin/verifmc/fixc"
)

const (
	c31S = 0
	c31P = 1
	c31H = 2

	c31HInputs  = 80          // inputs of a class H member
	c31HKeys    = 256         // one-time keys per spent output, all sign
	c31HExtra   = 2355 * 1024 // 2.3 MiB
	c31PExtra   = 4089446     // 3.9 MiB
	c31RelayHdr = 1 + 32 + 32 // type, from, to
	c31Max      = p2p.TransportMessageMaxSize
	c31TxMax    = config.TransactionMaximumSize
	c31Retrieve = common.SnapshotTransactionsMaximum
)

var c31ClassName = [3]string{"S", "P", "H"}

type c31Tx struct {
	Class int
	Ver   *common.VersionedTransaction
	U, E  int // unsigned (validated) size, signed envelope size
}

// ---- the model -------------------------------------------------------------------

type c31Run struct{ Class, N int }

// c31Model mirrors the accounting loop of popAndProcessCacheQueue on a queue
// given as runs of equal-class members: at most 255 members are retrieved; the
// accounted size of EVERY retrieved (valid, non elected) member is accumulated;
// a batchable member joins the batch iff the accumulated size is below two
// thirds of the transport maximum; everything else is sent alone.
func c31Model(queue []c31Run, acct [3]int) (joined, alone [3]int, first int) {
	batchSize, retrieved, first := 0, 0, -1
	for _, r := range queue {
		for i := 0; i < r.N && retrieved < c31Retrieve; i++ {
			retrieved++
			batchSize += acct[r.Class]
			if /* all three classes are batchable script transactions */ batchSize < c31Max*2/3 {
				joined[r.Class]++
				continue
			}
			if alone[r.Class]++; first < 0 {
				first = r.Class // class of the first member sent alone
			}
		}
	}
	return joined, alone, first
}

// c31ModelFast is c31Model with every run handled in O(1); it is the one used
// for the 2.8 million multisets and is cross-checked against c31Model.
func c31ModelFast(queue []c31Run, acct [3]int) (joined, alone [3]int, first int) {
	batchSize, retrieved, first := 0, 0, -1
	t := c31Max * 2 / 3
	for _, r := range queue {
		n := min(r.N, c31Retrieve-retrieved)
		retrieved += n
		j := 0
		if batchSize < t {
			j = min(n, (t-batchSize-1)/acct[r.Class]) // largest j with batchSize + j*a < t
		}
		joined[r.Class] += j
		alone[r.Class] += n - j
		batchSize += n * acct[r.Class]
		if n > j && first < 0 {
			first = r.Class
		}
	}
	return joined, alone, first
}

// message kinds sized from a batch
var c31Kinds = []string{"bundle", "finalized-bundle", "transaction-challenge", "full-challenge"}

type c31Sizer struct {
	env      [3]int
	snapBase int // marshalled signed snapshot with 0 transactions
}

// payload = count byte + per member (4 byte length + envelope)
func (z *c31Sizer) payload(b [3]int) int {
	n := 1
	for cl := range b {
		n += b[cl] * (4 + z.env[cl])
	}
	return n
}

// sizes returns the length of the four messages built from batch b, by the
// builders' code: buildTransactionsMessage = type + payload;
// buildBatchTransactionChallengeMessage = type + snapshot hash 32 + signature 64
// + mask 8 + payload; buildBatchFullChallengeMessage = type + 4 + marshalled
// snapshot (base + 32 per transaction) + commitment 32 + challenge 32 + payload.
func (z *c31Sizer) sizes(b [3]int) [4]int {
	p := z.payload(b)
	n := b[0] + b[1] + b[2]
	return [4]int{1 + p, 1 + p, 1 + 32 + 64 + 8 + p, 1 + 4 + z.snapBase + 32*n + 32 + 32 + p}
}

func c31Key(b [3]int) string { return fmt.Sprintf("S%d.P%d.H%d", b[0], b[1], b[2]) }

func c31Members(b [3]int) int { return b[0] + b[1] + b[2] }

func c31Less(a, b [3]int) bool { // smaller multiset first: members, then H, P, S
	if c31Members(a) != c31Members(b) {
		return c31Members(a) < c31Members(b)
	}
	for _, cl := range []int{c31H, c31P, c31S} {
		if a[cl] != b[cl] {
			return a[cl] < b[cl]
		}
	}
	return false
}

var c31Perms = [6][3]int{{0, 1, 2}, {0, 2, 1}, {1, 0, 2}, {1, 2, 0}, {2, 0, 1}, {2, 1, 0}}

// c31Queues lists the queue orders of multiset m that matter: the class-sorted
// orders and, for each of them, the rotations of the boundary element (one
// later member of another class moved in front of the first member that does
// not join). Queues are normalised (empty runs dropped, equal neighbours merged)
// and deduplicated.
func c31Queues(m [3]int, acct [3]int, fn func(q []c31Run)) {
	var seen [24]uint64
	nseen := 0
	var buf [8]c31Run
	emit := func(q []c31Run) {
		nq := buf[:0]
		for _, r := range q {
			if r.N == 0 {
				continue
			}
			if l := len(nq); l > 0 && nq[l-1].Class == r.Class {
				nq[l-1].N += r.N
				continue
			}
			nq = append(nq, r)
		}
		k := uint64(1)
		for _, r := range nq {
			k = k<<11 | uint64(r.Class)<<9 | uint64(r.N)
		}
		for _, s := range seen[:nseen] {
			if s == k {
				return
			}
		}
		seen[nseen] = k
		nseen++
		fn(nq)
	}
	t := c31Max * 2 / 3
	for _, p := range c31Perms {
		q := [3]c31Run{{p[0], m[p[0]]}, {p[1], m[p[1]]}, {p[2], m[p[2]]}}
		emit(q[:])
		// boundary: first run with a member that does not join
		batchSize := 0
		for ri, r := range q {
			if r.N == 0 {
				continue
			}
			j := 0
			if batchSize < t {
				j = min(r.N, (t-batchSize-1)/acct[r.Class])
			}
			if j == r.N {
				batchSize += r.N * acct[r.Class]
				continue
			}
			for rj := ri + 1; rj < 3; rj++ {
				if q[rj].N == 0 {
					continue
				}
				var vb [8]c31Run
				v := vb[:0]
				v = append(v, q[:ri]...)
				v = append(v, c31Run{r.Class, j}, c31Run{q[rj].Class, 1}, c31Run{r.Class, r.N - j})
				for rk := ri + 1; rk < 3; rk++ {
					n := q[rk].N
					if rk == rj {
						n--
					}
					v = append(v, c31Run{q[rk].Class, n})
				}
				emit(v)
			}
			break
		}
	}
}

// ---- building the three real classes ----------------------------------------------

// c31Parallel runs fn(i) for i in [0,n) on all cores. The fixture cannot be
// cut short, so it does not use the cap-aware c.ParallelN.
func c31Parallel(n int, fn func(i int)) {
	var wg sync.WaitGroup
	var mu sync.Mutex
	next := 0
	for w := 0; w < min(n, runtime.NumCPU()); w++ {
		wg.Add(1)
		go func() {
			defer wg.Done()
			for {
				mu.Lock()
				i := next
				next++
				mu.Unlock()
				if i >= n {
					return
				}
				fn(i)
			}
		}()
	}
	wg.Wait()
}

type c31Fixture struct {
	M       *mcNode
	Dir     string
	W       common.Address
	KeyAddr []common.Address
	Chain   crypto.Hash
	Ts      uint64
	Now     uint64
	S, P, H []*c31Tx
	BuildS  float64
	spare   []*common.VersionedTransaction
}

// filler builds one more real transaction (storage output, padded extra) whose
// accounted size (unsigned payload or signed envelope) is EXACTLY target, so
// that a queue can put the accumulated size exactly on the threshold.
func (f *c31Fixture) filler(target int, signed bool) (*c31Tx, error) {
	if len(f.spare) == 0 {
		return nil, fmt.Errorf("no spare deposit")
	}
	dep := f.spare[0]
	f.spare = f.spare[1:]
	extra := target - 400
	for try := 0; try < 4 && extra > 0 && extra <= common.ExtraSizeStorageCapacity; try++ {
		tx := common.NewTransactionV5(common.XINAssetId)
		tx.AddInput(dep.PayloadHash(), 0)
		tx.AddScriptOutput(c31Wallet(), common.NewThresholdScript(64), common.NewIntegerFromString("1"), fixc.Seed64(fmt.Sprintf("c31-filler-out-%d", target)))
		tx.Extra = c31Pattern("c31-filler-extra", extra)
		ver := fixc.SignAll(tx, f.M.Store, [][]*common.Address{c31Wallet()})
		m := &c31Tx{Class: -1, Ver: ver, U: len(ver.PayloadMarshal()), E: len(ver.Marshal())}
		size := m.U
		if signed {
			size = m.E
		}
		if size == target {
			if err := ver.Validate(f.M.Store, f.Now, false); err != nil {
				return nil, err
			}
			if ver.ValidatedSize() != m.U {
				return nil, fmt.Errorf("validated size %d differs from payload size %d", ver.ValidatedSize(), m.U)
			}
			return m, nil
		}
		extra += target - size
	}
	return nil, fmt.Errorf("cannot pad a transaction to exactly %d bytes", target)
}

func c31Wallet() []*common.Address { a := fixc.Addr("c31-wallet"); return []*common.Address{&a} }

func (f *c31Fixture) finalize(txs ...*common.VersionedTransaction) {
	for len(txs) > 0 {
		n := min(len(txs), 100)
		f.Ts += uint64(time.Second)
		if _, err := f.M.Store.VerifFinalize(f.Chain, f.Ts, true, txs[:n]...); err != nil {
			panic(fmt.Errorf("c31 finalize: %w", err))
		}
		txs = txs[n:]
	}
}

func c31Pattern(label string, n int) []byte {
	b := make([]byte, n)
	seed := fixc.Seed64(label)
	for i := 0; i < n; i += len(seed) {
		copy(b[i:], seed)
	}
	return b
}

// c31NewFixture builds a real node over an on-disk store (the in-memory Badger
// of the common fixture refuses values above 1 MiB) and the member
// transactions of the three classes.
func c31NewFixture(c *verifmc.Check, nS, nP, nH int) *c31Fixture {
	t0 := time.Now()
	dir := mcScratchDir("c31-")
	m, err := newMCNode(mcNet7, 0, dir)
	if err != nil {
		panic(err)
	}
	f := &c31Fixture{M: m, Dir: dir, W: fixc.Addr("c31-wallet"), Chain: mcNet7.NodeIds[1], Ts: mcNet7.Epoch + uint64(time.Hour)}
	// the 256 co-owners of the signature-heavy outputs: 256 spend keys under one
	// shared view key, so that the one-time keys of an output are B_k + x*G with
	// ONE x = H(r*A, index) per output (derived below with the real
	// KeyMultPubPriv / HashScalar and checked against the real
	// DeriveGhostPublicKey / DeriveGhostPrivateKey on samples)
	view := fixc.Addr("c31-key-view")
	spendPoints := make([]*edwards25519.Point, c31HKeys)
	spendScalars := make([]*edwards25519.Scalar, c31HKeys)
	for i := 0; i < c31HKeys; i++ {
		a := fixc.Addr(fmt.Sprintf("c31-key-%03d", i))
		a.PrivateViewKey, a.PublicViewKey = view.PrivateViewKey, view.PublicViewKey
		f.KeyAddr = append(f.KeyAddr, a)
		spendPoints[i], _ = edwards25519.NewIdentityPoint().SetBytes(a.PublicSpendKey[:])
		spendScalars[i], _ = edwards25519.NewScalar().SetCanonicalBytes(a.PrivateSpendKey[:])
	}
	w := c31Wallet()
	store := m.Store

	// 1. custodian-signed XIN deposits: one per S, one per P, one per fan-out G
	nG := (nH + 2) / 3
	hOf := func(g int) int { return min(3, nH-3*g) } // class H members fed by fan-out g
	type dep struct {
		ver    *common.VersionedTransaction
		amount string
	}
	const nX = 2 // spare deposits for the exact-threshold filler
	deps := make([]*common.VersionedTransaction, nS+nP+nG+nX)
	c31Parallel(len(deps), func(i int) {
		amount := "1"
		if i >= nS+nP && i < nS+nP+nG {
			amount = common.NewIntegerFromString("0.005").Mul(c31HInputs * hOf(i-nS-nP)).String()
		}
		deps[i] = mcNet7.DepositXIN(fmt.Sprintf("c31-dep-%04d", i), amount, w, 1)
	})
	for _, d := range deps {
		if err := d.Validate(store, f.Ts, false); err != nil {
			panic(fmt.Errorf("c31 deposit validate: %w", err))
		}
	}
	f.finalize(deps...)
	cpu0 := c31CPU()
	stage := func(what string) {
		fmt.Printf("c31 fixture: %-24s at wall %.1fs cpu %.1fs\n", what, time.Since(t0).Seconds(), c31CPU()-cpu0)
	}
	stage("deposits finalized")

	// 2. fan-out transfers G: up to 240 outputs of 256 one-time keys, threshold 1
	gs := make([]*common.VersionedTransaction, nG)
	for g := range gs {
		tx := common.NewTransactionV5(common.XINAssetId)
		tx.AddInput(deps[nS+nP+g].PayloadHash(), 0)
		tx.Outputs = make([]*common.Output, c31HInputs*hOf(g))
		gs[g] = tx.AsVersioned()
	}
	type oref struct{ g, o int }
	var orefs []oref
	for g := range gs {
		for o := range gs[g].Outputs {
			orefs = append(orefs, oref{g, o})
		}
	}
	c31Parallel(len(orefs), func(i int) {
		r := crypto.NewKeyFromSeed(fixc.Seed64(fmt.Sprintf("c31-g-%d-%d", orefs[i].g, orefs[i].o)))
		out := &common.Output{Type: common.OutputTypeScript, Amount: common.NewIntegerFromString("0.005"), Script: common.NewThresholdScript(1), Mask: r.Public()}
		x := crypto.HashScalar(crypto.KeyMultPubPriv(&view.PublicViewKey, &r), uint64(orefs[i].o))
		xG := edwards25519.NewIdentityPoint().ScalarBaseMult(x)
		for k := range f.KeyAddr {
			var key crypto.Key
			copy(key[:], edwards25519.NewIdentityPoint().Add(spendPoints[k], xG).Bytes())
			out.Keys = append(out.Keys, &key)
		}
		if i%97 == 0 { // the shortcut equals the real derivation
			for _, k := range []int{0, c31HKeys - 1} {
				a := &f.KeyAddr[k]
				if *crypto.DeriveGhostPublicKey(&r, &a.PublicViewKey, &a.PublicSpendKey, uint64(orefs[i].o)) != *out.Keys[k] {
					panic("c31: one-time key shortcut differs from DeriveGhostPublicKey")
				}
			}
		}
		gs[orefs[i].g].Outputs[orefs[i].o] = out
	})
	stage("fan-out outputs derived")
	// the fan-outs are ordinary admissible transfers too; they go through the
	// real Validate (61 440 output keys each are point-checked, 10 s of CPU per
	// fan-out) in the thorough tier only: the property is about their spenders
	c31Parallel(len(gs), func(g int) {
		gs[g] = fixc.SignAll(&gs[g].Transaction, store, [][]*common.Address{w})
		if !c.Thorough() {
			return
		}
		if err := gs[g].Validate(store, f.Ts, false); err != nil {
			panic(fmt.Errorf("c31 fan-out validate: %w", err))
		}
	})
	stage("fan-outs validated")
	for g := range gs {
		f.finalize(gs[g])
	}
	stage("fan-outs finalized")

	f.spare = deps[nS+nP+nG:]
	// 3. members
	f.Now = clock.NowUnixNano()
	storage64 := common.NewThresholdScript(64)
	f.S, f.P, f.H = make([]*c31Tx, nS), make([]*c31Tx, nP), make([]*c31Tx, nH)
	c31Parallel(nS+nP, func(i int) {
		tx := common.NewTransactionV5(common.XINAssetId)
		tx.AddInput(deps[i].PayloadHash(), 0)
		cl := c31S
		if i < nS {
			tx.AddScriptOutput(w, common.NewThresholdScript(1), common.NewIntegerFromString("1"), fixc.Seed64(fmt.Sprintf("c31-s-out-%04d", i)))
			tx.Extra = []byte(fmt.Sprintf("c31-small-%04d", i))
		} else {
			cl = c31P
			tx.AddScriptOutput(w, storage64, common.NewIntegerFromString("1"), fixc.Seed64(fmt.Sprintf("c31-p-out-%04d", i)))
			tx.Extra = c31Pattern(fmt.Sprintf("c31-p-extra-%04d", i), c31PExtra)
		}
		ver := fixc.SignAll(tx, store, [][]*common.Address{w})
		if i < nS {
			f.S[i] = &c31Tx{Class: cl, Ver: ver}
		} else {
			f.P[i-nS] = &c31Tx{Class: cl, Ver: ver}
		}
	})
	for h := range f.H {
		tx := common.NewTransactionV5(common.XINAssetId)
		g := gs[h/3]
		for i := 0; i < c31HInputs; i++ {
			tx.AddInput(g.PayloadHash(), uint((h%3)*c31HInputs+i))
		}
		tx.AddScriptOutput(w, storage64, common.NewIntegerFromString("0.005").Mul(c31HInputs), fixc.Seed64(fmt.Sprintf("c31-h-out-%04d", h)))
		tx.Extra = c31Pattern(fmt.Sprintf("c31-h-extra-%04d", h), c31HExtra)
		ver := tx.AsVersioned()
		ver.SignaturesMap = make([]map[uint16]*crypto.Signature, c31HInputs)
		f.H[h] = &c31Tx{Class: c31H, Ver: ver}
	}
	c31Parallel(nH, func(h int) { f.H[h].Ver.PayloadHash() })
	// every one of the 256 keys of every input signs (parallel over inputs)
	c31Parallel(nH*c31HInputs, func(j int) {
		h, i := j/c31HInputs, j%c31HInputs
		ver := f.H[h].Ver
		msg := ver.PayloadHash()
		idx := (h%3)*c31HInputs + i
		mask := gs[h/3].Outputs[idx].Mask
		sigs := make(map[uint16]*crypto.Signature, c31HKeys)
		x := crypto.HashScalar(crypto.KeyMultPubPriv(&mask, &view.PrivateViewKey), uint64(idx))
		for k := range f.KeyAddr {
			var priv crypto.Key
			copy(priv[:], edwards25519.NewScalar().Add(x, spendScalars[k]).Bytes())
			if j%97 == 0 && (k == 0 || k == c31HKeys-1) {
				a := &f.KeyAddr[k]
				if *crypto.DeriveGhostPrivateKey(&mask, &a.PrivateViewKey, &a.PrivateSpendKey, uint64(idx)) != priv {
					panic("c31: one-time key shortcut differs from DeriveGhostPrivateKey")
				}
			}
			sig := priv.Sign(msg)
			sigs[uint16(k)] = &sig
		}
		ver.SignaturesMap[i] = sigs
	})
	stage("members signed")
	f.BuildS = time.Since(t0).Seconds()
	return f
}

// measure validates every member with the real Validate (sequential: it takes
// the store's ghost-key lock) and records the two sizes.
func (f *c31Fixture) measure(c *verifmc.Check) (unsigned, envelope [3]int, ok bool) {
	ok = true
	classes := [][]*c31Tx{f.S, f.P, f.H}
	var all []*c31Tx
	for cl, ms := range classes {
		for i, m := range ms {
			// member 0 of every class goes through the real Validate here
			// (sequential: it takes the store's ghost-key lock); the other
			// members (same shape, other inputs) are validated by the real
			// batcher in the replayed traces, where an invalid member would drop
			// out of the batch and show as a conformance mismatch
			if i == 0 {
				if err := m.Ver.Validate(f.M.Store, f.Now, false); err != nil {
					c.Require(false, "class %s member %d does not pass the real Validate: %v", c31ClassName[cl], i, err)
					return unsigned, envelope, false
				}
				m.U = m.Ver.ValidatedSize()
			}
			if !m.Ver.IsSnapshotBatchable() || f.M.Node.electSnapshotNode(m.Ver.TransactionType(), f.Now).HasValue() {
				c.Require(false, "class %s member is not an ordinary batchable transaction", c31ClassName[cl])
				ok = false
			}
			all = append(all, m)
		}
	}
	c31Parallel(len(all), func(i int) {
		m := all[i]
		if m.U == 0 {
			m.U = len(m.Ver.PayloadMarshal()) // = what Validate records as validated size
		}
		m.E = len(m.Ver.Marshal())
	})
	for cl, ms := range classes {
		unsigned[cl], envelope[cl] = ms[0].U, ms[0].E
		for _, m := range ms {
			if m.U != unsigned[cl] || m.E != envelope[cl] {
				c.Require(false, "class %s members differ in size: (%d,%d) vs (%d,%d)", c31ClassName[cl], m.U, m.E, unsigned[cl], envelope[cl])
				ok = false
			}
		}
	}
	return unsigned, envelope, ok
}

func (f *c31Fixture) Close() {
	f.M.Close()
	mcRemoveAll(f.Dir)
}

// member i of class cl
func (f *c31Fixture) member(cl, i int) *c31Tx { return [][]*c31Tx{f.S, f.P, f.H}[cl][i] }

// expand turns a run queue into concrete members (each member used once).
func (f *c31Fixture) expand(q []c31Run) ([]*c31Tx, bool) {
	var used [3]int
	var out []*c31Tx
	for _, r := range q {
		for i := 0; i < r.N; i++ {
			if used[r.Class] >= len([][]*c31Tx{f.S, f.P, f.H}[r.Class]) {
				return nil, false
			}
			out = append(out, f.member(r.Class, used[r.Class]))
			used[r.Class]++
		}
	}
	return out, true
}

// ---- the real batcher ---------------------------------------------------------------

// proposeReady puts the node's own chain into the state in which
// popAndProcessCacheQueue proposes locally: every peer reported a sync point at
// the own final round (CheckBroadcastedToPeers / CheckCatchUpWithPeers), the own
// cache round is > 0 and empty. The other chains' cache rounds are dated in the
// future so that findSnapshotNodes elects only the own chain: members that do
// not join the batch are then appended locally as single-transaction snapshots
// instead of being handed to node.Peer (nil in the fixture).
func (f *c31Fixture) proposeReady(c *verifmc.Check) bool {
	node := f.M.Node
	if node.chain == nil || node.chain.State == nil || node.chain.State.CacheRound == nil {
		c.Require(false, "fixture: own chain has no state")
		return false
	}
	final := node.chain.State.FinalRound
	for _, id := range f.M.Net.NodeIds {
		if id == node.IdForNetwork {
			continue
		}
		node.SyncPoints.Set(id, &p2p.SyncPoint{NodeId: node.IdForNetwork, Number: final.Number, Hash: final.Hash})
		ch := node.getChain(id)
		if ch == nil || ch.State == nil || ch.State.CacheRound == nil {
			c.Require(false, "fixture: chain %s not loaded", id)
			return false
		}
		ch.Lock()
		ch.State.CacheRound.Timestamp = math.MaxUint64 / 2
		ch.Unlock()
	}
	node.SyncPointsMap = node.SyncPoints.Map()
	all := node.ListWorkingAcceptedNodes(clock.NowUnixNano())
	if !node.canBatchSelfTransactions() || !node.chainCanProposeSnapshot(all, node.chain, clock.NowUnixNano()) {
		c.Require(false, "fixture: own chain cannot propose (cache round %d)", node.chain.State.CacheRound.Number)
		return false
	}
	ready := node.findSnapshotNodes(all, nil, nil, clock.Now(), crypto.Hash{})
	if len(ready) != 1 || ready[0] != node.IdForNetwork {
		c.Require(false, "fixture: findSnapshotNodes does not elect the own chain only: %v", ready)
		return false
	}
	return true
}

// runBatcher queues the members in order on the real cache queue, runs the real
// popAndProcessCacheQueue once and returns what the node appended to its own
// chain: the single-transaction snapshots in order and the batch (last action).
func (f *c31Fixture) runBatcher(queue []*c31Tx) (actions [][]crypto.Hash, ret int, panicked any) {
	node := f.M.Node
	for node.chain.CachePool.Poll() != nil {
	}
	for _, m := range queue {
		if err := node.persistStore.CacheQueueTransaction(m.Ver); err != nil {
			return nil, 0, fmt.Errorf("CacheQueueTransaction: %w", err)
		}
	}
	panicked = verifmc.Catch(func() { ret = node.popAndProcessCacheQueue() })
	for {
		a := node.chain.CachePool.Poll()
		if a == nil {
			break
		}
		if a.Action != CosiActionSelfEmpty || a.Snapshot == nil {
			return nil, ret, fmt.Errorf("unexpected action %d in the cache pool", a.Action)
		}
		actions = append(actions, append([]crypto.Hash{}, a.Snapshot.Transactions...))
	}
	return actions, ret, panicked
}

// expected actions of the literal model for a concrete queue
func c31Expect(queue []*c31Tx, signed bool) (actions [][]crypto.Hash, batch []*c31Tx) {
	var batchHashes []crypto.Hash
	batchSize := 0
	for i, m := range queue {
		if i >= c31Retrieve {
			break
		}
		if batchSize += m.U; signed {
			batchSize += m.E - m.U
		}
		if batchSize < c31Max*2/3 {
			batchHashes = append(batchHashes, m.Ver.PayloadHash())
			batch = append(batch, m)
			continue
		}
		actions = append(actions, []crypto.Hash{m.Ver.PayloadHash()})
	}
	if len(batchHashes) > 0 {
		actions = append(actions, batchHashes)
	}
	return actions, batch
}

func c31SameActions(a, b [][]crypto.Hash) bool {
	if len(a) != len(b) {
		return false
	}
	for i := range a {
		if len(a[i]) != len(b[i]) {
			return false
		}
		for j := range a[i] {
			if a[i][j] != b[i][j] {
				return false
			}
		}
	}
	return true
}

func c31Describe(q []c31Run) string {
	var s []string
	for _, r := range q {
		if r.N == 0 {
			continue
		}
		if l := len(s); l > 0 && strings.HasPrefix(s[l-1], c31ClassName[r.Class]+"^") {
			var n int
			fmt.Sscanf(s[l-1][2:], "%d", &n)
			s[l-1] = fmt.Sprintf("%s^%d", c31ClassName[r.Class], n+r.N)
			continue
		}
		s = append(s, fmt.Sprintf("%s^%d", c31ClassName[r.Class], r.N))
	}
	if len(s) == 0 {
		return "empty"
	}
	return strings.Join(s, " ")
}

func c31Shape(actions [][]crypto.Hash) string {
	var s []string
	for _, a := range actions {
		s = append(s, fmt.Sprint(len(a)))
	}
	return "[" + strings.Join(s, ",") + "]"
}

// ---- real messages ------------------------------------------------------------------

func c31Snapshot(f *c31Fixture, txs []*common.VersionedTransaction) *common.Snapshot {
	s := &common.Snapshot{Version: common.SnapshotVersionCommonEncoding, NodeId: f.M.Node.IdForNetwork, RoundNumber: 1, Timestamp: f.Now,
		References: &common.RoundLink{Self: fixc.Hash("c31-self"), External: fixc.Hash("c31-external")},
		Signature:  &crypto.CosiSignature{Mask: 0x7f}}
	for _, tx := range txs {
		s.Transactions = append(s.Transactions, tx.PayloadHash())
	}
	return s
}

// c31RealSizes builds the four real messages and their relay wrappings for the
// members; a builder panic is reported as size -1.
func c31RealSizes(f *c31Fixture, members []*c31Tx, skip ...int) (plain [4]int, relay [4]int, relayPanic [4]bool) {
	txs := make([]*common.VersionedTransaction, len(members))
	for i, m := range members {
		txs[i] = m.Ver
	}
	s := c31Snapshot(f, txs)
	key := fixc.Key("c31-commitment").Public()
	build := []func() []byte{
		func() []byte { return p2p.VerifBuildTransactionsMessage(txs, p2p.PeerMessageTypeTransactionBundle) },
		func() []byte {
			return p2p.VerifBuildTransactionsMessage(txs, p2p.PeerMessageTypeFinalizedTransactionBundle)
		},
		func() []byte { return p2p.VerifBuildTransactionChallenge(s.PayloadHash(), s.Signature, txs) },
		func() []byte { return p2p.VerifBuildFullChallenge(s, &key, &key, txs) },
	}
	self, to := f.M.Node.IdForNetwork, f.M.Net.NodeIds[1]
	for k, b := range build {
		if len(skip) > 0 && skip[0] == k { // kind not built: reported as -2
			plain[k], relay[k] = -2, -2
			continue
		}
		msg := b()
		plain[k] = len(msg)
		var rm []byte
		if p := verifmc.Catch(func() { rm = p2p.VerifBuildRelay(self, to, msg) }); p != nil {
			relayPanic[k] = true
			relay[k] = -1
			continue
		}
		relay[k] = len(rm)
	}
	return plain, relay, relayPanic
}

// ---- the test -------------------------------------------------------------------------

// c31CPU returns the process CPU seconds (user+system): the machine may be
// shared, so stage costs are reported in CPU time next to wall time.
func c31CPU() float64 {
	var ru syscall.Rusage
	if syscall.Getrusage(syscall.RUSAGE_SELF, &ru) != nil {
		return 0
	}
	return float64(ru.Utime.Sec+ru.Stime.Sec) + float64(ru.Utime.Usec+ru.Stime.Usec)/1e6
}

type c31Stages struct {
	t0   time.Time
	cpu0 float64
	rows []map[string]any
}

func (st *c31Stages) done(what string) {
	now, cpu := time.Now(), c31CPU()
	st.rows = append(st.rows, map[string]any{"stage": what, "wall_s": math.Round(now.Sub(st.t0).Seconds()*10) / 10, "cpu_s": math.Round((cpu-st.cpu0)*10) / 10})
	fmt.Printf("c31 stage: %-28s wall %.1fs cpu %.1fs\n", what, now.Sub(st.t0).Seconds(), cpu-st.cpu0)
	st.t0, st.cpu0 = now, cpu
}

type c31Finding struct {
	Multiset  [3]int
	Batch     [3]int
	Queue     string
	Size      int
	Accounted int
}

func TestMC_C31(t *testing.T) {
	c := verifmc.Start(t, "C31", "model_checking")
	distinct := c.Distinct
	defer c.Finish()
	c.SetRule("states = multisets of the three measured transaction classes (S small, P payload heavy, H signature heavy) with 0..255 members, each in the 6 class-sorted queue orders plus the rotations of the boundary element; a case is distinct by (batch composition, class of the first member that does not join); transitions = messages sized (bundle, finalized bundle, transaction challenge, full challenge, each also relay wrapped) from the batch the accounting mirror forms; traces = model traces replayed on the real popAndProcessCacheQueue plus length-formula checks against the real p2p builders")
	c.Assume("the three classes are real transactions that pass the real Validate; their sizes are measured, and the class abstraction is exact because all members of a class have identical sizes (asserted)",
		"the accounting mirror (c31Model) is validated against the real popAndProcessCacheQueue on the probe, threshold, worst, small and after-boundary traces; which size the batcher accounts is decided by the probe trace",
		"local proposal path: own chain made proposal-ready in-package (sync points of all peers at the own final round, other chains' cache rounds dated in the future), batches read from node.chain.CachePool; node.Peer is nil",
		"the store is the real on-disk BadgerStore (NewBadgerStore options) in a scratch directory; funding deposits are custodian-signed and finalized through VerifFinalize")

	defer debug.SetGCPercent(debug.SetGCPercent(400)) // few, large, short-lived buffers (32 MiB messages)
	st := &c31Stages{t0: time.Now(), cpu0: c31CPU()}
	defer func() { c.Set("stages", st.rows) }()
	// One validation of a signature-heavy member is 2-3 s of CPU (20 480
	// signatures). Quick tier: 2 such members; the probe is the queue with the
	// fewest H members on which the two accountings differ (P^4 H^2 with the
	// measured sizes: the second H is cut under the signed envelope, joins under
	// the unsigned payload), so H sits exactly at the accounting boundary.
	// Thorough tier: 10 members, probe H^10, and the H^(k-1), H^k, H^(k+1) traces.
	nS, nP, nH := 250, 7, verifmc.Pick(c, 2, 10)
	f := c31NewFixture(c, nS, nP, nH)
	defer f.Close()
	st.done("fixture: three real classes")
	tm := time.Now()
	unsigned, envelope, ok := f.measure(c)
	if !ok {
		return
	}
	c.Set("build_s", f.BuildS)
	c.Set("measure_s", time.Since(tm).Seconds())
	st.done("measure (real Validate)")
	fmt.Printf("c31: build %.1fs measure %.1fs unsigned=%v envelope=%v\n", f.BuildS, time.Since(tm).Seconds(), unsigned, envelope)
	c.Set("class_sizes", map[string]any{"unsigned": unsigned, "envelope": envelope, "order": "S,P,H"})
	for cl := range unsigned {
		c.Require(unsigned[cl] <= c31TxMax && envelope[cl] <= c31TxMax && envelope[cl] > unsigned[cl], "class %s sizes out of range: %d %d", c31ClassName[cl], unsigned[cl], envelope[cl])
	}
	c.Require(envelope[c31H]-unsigned[c31H] > 1300000 && unsigned[c31P] > 4000000, "classes are not the planned heavy ones: %v %v", unsigned, envelope)

	// snapshot length formula from the real encoder: base + 32 per transaction
	snapBase := len(c31Snapshot(f, []*common.VersionedTransaction{f.S[0].Ver}).VersionedMarshal()) - 32
	for n := 1; n <= c31Retrieve; n++ {
		s := c31Snapshot(f, nil)
		for i := 0; i < n; i++ {
			s.Transactions = append(s.Transactions, fixc.Hash(fmt.Sprint("c31-t", i)))
		}
		c.Require(len(s.VersionedMarshal()) == snapBase+32*n, "snapshot length is not base+32n at n=%d", n)
	}
	sizer := &c31Sizer{env: envelope, snapBase: snapBase}

	// ---- conformance (i): the length formula against the real builders ----
	var combos [][3]int
	for n := 1; n <= 3; n++ {
		for a := 0; a <= n; a++ {
			for b := 0; a+b <= n; b++ {
				// quick tier: every combination of <= 2 members and the mixed
				// triple (every builder call re-encodes and, config.Debug being
				// on, re-decodes every member); thorough: all of <= 3
				if m := [3]int{a, b, n - a - b}; n < 3 || c.Thorough() || m == [3]int{1, 1, 1} {
					combos = append(combos, m)
				}
			}
		}
	}
	var checked atomic.Int64
	c31Parallel(len(combos), func(i int) {
		b := combos[i]
		var members []*c31Tx
		for cl := range b {
			for j := 0; j < b[cl]; j++ {
				members = append(members, f.member(cl, j))
			}
		}
		want := sizer.sizes(b)
		// the finalized bundle is the same builder as the bundle with another type
		// byte: in the quick tier it is built for the single-member combinations only
		var skip []int
		if !c.Thorough() && len(members) > 1 {
			skip = []int{1}
		}
		plain, relay, _ := c31RealSizes(f, members, skip...)
		for k := range want {
			if plain[k] == -2 {
				continue
			}
			checked.Add(1)
			if plain[k] != want[k] || relay[k] != want[k]+c31RelayHdr {
				c.Violation("conformance:length-formula:"+c31Kinds[k], fmt.Sprintf("real %s of %s is %d bytes (relay %d), formula says %d (+%d)", c31Kinds[k], c31Key(b), plain[k], relay[k], want[k], c31RelayHdr), map[string]any{"members": c31Key(b)})
			}
		}
		c.AddTraces(1)
	})
	c.Set("formula_checks", checked.Load()*2) // plain and relay wrapped
	c.Set("formula_combinations", len(combos))
	st.done("formula vs real builders")

	// ---- conformance (ii) part 1: the probe decides the accounted size ----
	if !f.proposeReady(c) {
		return
	}
	candidates := map[string][3]int{"unsigned-payload": unsigned, "signed-envelope": envelope}
	replayed := map[string]bool{}
	var skipped []string
	replayH := 0
	type replayResult struct {
		queue   []*c31Tx
		actions [][]crypto.Hash
		ret     int
		batch   []*c31Tx // members of the last appended snapshot
		byHash  map[crypto.Hash]*c31Tx
	}
	runs := map[string]*replayResult{}
	// run executes one queue on the real batcher (once per distinct queue)
	runQueue := func(name string, queue []*c31Tx, why string) *replayResult {
		if r, ok := runs[name]; ok {
			return r
		}
		for _, m := range queue {
			if m.Class == c31H {
				replayH++
			}
		}
		tr, cpu := time.Now(), c31CPU()
		actions, ret, p := f.runBatcher(queue)
		fmt.Printf("c31 replay: %-28s %-18s -> %s wall %.1fs cpu %.1fs\n", name, why, c31Shape(actions), time.Since(tr).Seconds(), c31CPU()-cpu)
		if p != nil {
			c.Require(false, "trace %s: batcher run failed: %v", name, p)
			return nil
		}
		res := &replayResult{queue: queue, actions: actions, ret: ret, byHash: map[crypto.Hash]*c31Tx{}}
		for _, m := range queue {
			res.byHash[m.Ver.PayloadHash()] = m
		}
		if n := len(actions); n > 0 {
			for _, h := range actions[n-1] {
				res.batch = append(res.batch, res.byHash[h])
			}
		}
		runs[name] = res
		return res
	}
	run := func(q []c31Run, why string) *replayResult {
		queue, ok := f.expand(q)
		if !ok {
			skipped = append(skipped, c31Describe(q))
			return nil
		}
		return runQueue(c31Describe(q), queue, why)
	}
	var acct [3]int
	mode := ""
	var realOver []string
	// realOracle sizes what the real batcher appended with the real builders
	// (used when the accounting mirror does not describe the real batch)
	realOracle := func(name string, res *replayResult) {
		for _, a := range res.actions {
			var ms []*c31Tx
			for _, h := range a {
				ms = append(ms, res.byHash[h])
			}
			plain, relay, rp := c31RealSizes(f, ms)
			for k := range plain {
				if plain[k] > c31Max || relay[k] > c31Max || rp[k] {
					realOver = append(realOver, fmt.Sprintf("%s:%s=%d", name, c31Kinds[k], plain[k]))
					c.Violation(c31Kinds[k]+">max:real-batch-not-described-by-accounting-mirror", fmt.Sprintf("queue %s: the real popAndProcessCacheQueue formed a batch of %d members whose real %s is %d bytes (relay wrapping panics=%v) > %d", name, len(a), c31Kinds[k], plain[k], rp[k], c31Max), map[string]any{"trace": name, "batch_members": len(a)})
				}
			}
		}
	}
	// replay compares one model trace with the real batcher (once per distinct queue)
	var replayQueue func(name string, queue []*c31Tx, why string)
	replay := func(q []c31Run, why string) {
		if queue, ok := f.expand(q); ok {
			replayQueue(c31Describe(q), queue, why)
			return
		}
		skipped = append(skipped, c31Describe(q)) // more heavy members than this tier builds
	}
	replayQueue = func(name string, queue []*c31Tx, why string) {
		if replayed[name] {
			return
		}
		res := runQueue(name, queue, why)
		if res == nil {
			return
		}
		replayed[name] = true
		c.AddTraces(1)
		want, _ := c31Expect(res.queue, mode == "signed-envelope")
		c.Outcome("replay:" + why)
		if res.ret != min(len(res.queue), c31Retrieve) {
			c.Violation("conformance:retrieved-count", fmt.Sprintf("trace %s: popAndProcessCacheQueue returned %d for %d queued", name, res.ret, len(res.queue)), map[string]any{"trace": name})
		}
		if !c31SameActions(res.actions, want) {
			// the mirror cannot speak for this batch: size the REAL batch with the REAL builders
			c.Violation("conformance:batch-membership-differs-from-model", fmt.Sprintf("trace %s (%s): real batcher appended snapshots of sizes %s, the accounting mirror says %s", name, why, c31Shape(res.actions), c31Shape(want)), map[string]any{"trace": name, "real": c31Shape(res.actions), "model": c31Shape(want)})
			realOracle(name, res)
		}
	}

	probeQ := []c31Run{{c31H, nH}}
	if !c.Thorough() {
		probeQ = nil
	search:
		for h := 1; h <= nH; h++ {
			for p := 0; p <= nP; p++ {
				q := []c31Run{{c31P, p}, {c31H, h}}
				ju, au, _ := c31Model(q, unsigned)
				je, ae, _ := c31Model(q, envelope)
				if ju != je || au != ae {
					probeQ = q
					break search
				}
			}
		}
		if probeQ == nil {
			c.Require(false, "no probe queue with <= %d H members separates the two accountings", nH)
			return
		}
	}
	probe := run(probeQ, "probe")
	if probe == nil {
		return
	}
	var modes []string
	for name := range candidates {
		want, _ := c31Expect(probe.queue, name == "signed-envelope")
		if c31SameActions(probe.actions, want) {
			modes = append(modes, name)
		}
		c.Set("probe_"+name, c31Shape(want))
	}
	sort.Strings(modes)
	c.Set("probe_trace", c31Describe(probeQ))
	c.Set("probe_real", c31Shape(probe.actions))
	switch len(modes) {
	case 1:
		mode = modes[0]
	case 0:
		c.Violation("conformance:accounting-matches-no-model", fmt.Sprintf("probe trace %s: the real batcher appended snapshots of sizes %s; neither the unsigned-payload nor the signed-envelope accounting mirror (threshold two thirds of the maximum) forms that", c31Describe(probeQ), c31Shape(probe.actions)), map[string]any{"trace": c31Describe(probeQ), "real": c31Shape(probe.actions)})
		realOracle(c31Describe(probeQ), probe)
		mode = "signed-envelope" // continue with the accounting under which the statement is meant to hold
	default:
		c.Require(false, "probe trace does not discriminate the accounting candidates")
		return
	}
	acct = candidates[mode]
	c.Set("accounting_mode", mode)
	st.done("probe trace on real batcher")
	c.Outcome("accounting:" + mode)

	// ---- the model: all multisets, all orders that matter ----
	type worker struct {
		states, cases, messages int64
		minViol                 [4]*c31Finding // per builder: bundle, transaction challenge, full challenge, relay
		maxSize                 int
		maxQ                    []c31Run
		maxBatch                [3]int
		outcomes                map[string]int64
		seen                    map[uint32]string // distinct (batch, first member sent alone) -> outcome
		cross                   int64
	}
	workers := make([]*worker, c.Workers()+1)
	for i := range workers {
		workers[i] = &worker{outcomes: map[string]int64{}, seen: map[uint32]string{}}
	}
	complete := c.ParallelN(c31Retrieve+1, "multisets by number of S members", func(wi, a int) {
		w := workers[wi]
		for b := 0; a+b <= c31Retrieve; b++ {
			for h := 0; a+b+h <= c31Retrieve; h++ {
				m := [3]int{a, b, h}
				w.states++
				c31Queues(m, acct, func(q []c31Run) {
					w.cases++
					joined, alone, first := c31ModelFast(q, acct)
					if c31Members(m) <= 12 || (a%37 == 0 && b%5 == 0 && h%3 == 0) {
						if j2, a2, f2 := c31Model(q, acct); j2 != joined || a2 != alone || f2 != first {
							c.Require(false, "fast model differs from the literal mirror on %s", c31Describe(q))
						}
						w.cross++
					}
					sz := sizer.sizes(joined)
					w.messages += 8
					over := false
					// message builders: 0 bundle (= finalized bundle, same builder and
					// length), 1 transaction challenge, 2 full challenge, 3 relay wrapping
					for k, size := range [5]int{sz[0], sz[2], sz[3], sz[3] + c31RelayHdr, sz[0] + c31RelayHdr} {
						if size <= c31Max {
							continue
						}
						over = true
						if k == 4 { // smallest relay-wrapped message; the largest decides "any"
							continue
						}
						if old := w.minViol[k]; old == nil || c31Less(m, old.Multiset) {
							accounted := 0
							for cl := range joined {
								accounted += joined[cl] * acct[cl]
							}
							w.minViol[k] = &c31Finding{Multiset: m, Batch: joined, Queue: c31Describe(q), Size: size, Accounted: accounted}
						}
					}
					if sz[3] > w.maxSize {
						w.maxSize, w.maxQ, w.maxBatch = sz[3], append([]c31Run{}, q...), joined
					}
					oc := "fits"
					if over {
						oc = "exceeds"
					}
					if c31Members(alone) > 0 {
						oc += "+cut"
					}
					w.outcomes[oc]++
					dk := uint32(joined[0])<<24 | uint32(joined[1])<<16 | uint32(joined[2])<<8 | uint32(first+1)
					if _, ok := w.seen[dk]; !ok {
						w.seen[dk] = oc
					}
				})
			}
		}
	})
	total := &worker{outcomes: map[string]int64{}, seen: map[uint32]string{}}
	for _, w := range workers {
		total.cross += w.cross
		for k, v := range w.seen {
			total.seen[k] = v
		}
		total.states += w.states
		total.cases += w.cases
		total.messages += w.messages
		for k, v := range w.minViol {
			if old := total.minViol[k]; v != nil && (old == nil || c31Less(v.Multiset, old.Multiset)) {
				total.minViol[k] = v
			}
		}
		for k, v := range w.outcomes {
			total.outcomes[k] += v
		}
		if w.maxSize > total.maxSize {
			total.maxSize, total.maxQ, total.maxBatch = w.maxSize, w.maxQ, w.maxBatch
		}
	}
	for k, oc := range total.seen {
		name := "none"
		if f := int(k&0xff) - 1; f >= 0 {
			name = c31ClassName[f]
		}
		if distinct(fmt.Sprintf("S%d.P%d.H%d|%s", k>>24, k>>16&0xff, k>>8&0xff, name)) {
			c.Outcome("batch:" + oc)
		}
	}
	st.done("model enumeration")
	c.AddStates(total.states)
	c.AddTrans(total.messages)
	c.Eval(total.cases)
	c.Set("queue_orders_evaluated", total.cases)
	c.Set("case_outcomes", total.outcomes)
	c.Set("model_cross_checked_against_literal_mirror", total.cross)
	c.Set("largest_message", map[string]any{"kind": "relay(full-challenge)", "bytes": total.maxSize + c31RelayHdr, "queue": c31Describe(total.maxQ), "batch": c31Key(total.maxBatch), "max": c31Max})
	c.Require(!complete || total.states == 2829056, "expected C(258,3)=2829056 multisets, enumerated %d", total.states)
	c.Require(!complete || total.outcomes["fits+cut"] > 0 && total.outcomes["fits"] > 0, "vacuous: the accounting cut was never exercised: %v", total.outcomes)

	// ---- conformance (ii) part 2: traces around the threshold, worst, small ----
	kOf := func(cl int) int { j, _, _ := c31Model([]c31Run{{cl, c31Retrieve}}, acct); return j[cl] }
	kH, kP := kOf(c31H), kOf(c31P)
	c.Set("threshold_members", map[string]int{"H": kH, "P": kP, "S": kOf(c31S)})
	c.Require(kP+1 <= nP && (!c.Thorough() || kH+1 <= nH || mode != "signed-envelope"), "not enough members built for the threshold traces: kH=%d kP=%d", kH, kP)
	// quick tier: the heavy class H is replayed in the probe trace (kH+1 members
	// under the unsigned accounting: kH join, one is cut) and in the worst trace;
	// the separate kH-1 / kH traces and the smallest violating queues (3 s of
	// signature verification per H member) are left to the thorough tier
	replay(probeQ, "probe") // the probe run, now compared as an ordinary trace
	for _, d := range []int{-1, 0, 1} {
		if c.Thorough() && kH+d <= nH {
			replay([]c31Run{{c31H, kH + d}}, "threshold-H")
		}
		if kP+d <= nP {
			replay([]c31Run{{c31P, kP + d}}, "threshold-P")
		}
	}
	for n := 0; n <= 4; n++ {
		replay([]c31Run{{c31S, n}}, "small")
	}
	// after the boundary nothing joins any more, whatever its size
	replay([]c31Run{{c31P, kP + 1}, {c31S, 2}}, "after-boundary")
	replay([]c31Run{{c31P, kP}, {c31S, 1}, {c31P, 1}, {c31S, 1}}, "boundary-rotation")
	if c.Thorough() {
		replay([]c31Run{{c31S, 2}, {c31P, kP}, {c31S, 1}, {c31P, 1}}, "boundary-rotation")
	}
	// accumulated size EXACTLY on the threshold: kP payload-heavy members and a
	// filler padded to the byte; "below two thirds" is strict, so the filler and
	// whatever follows are sent alone
	if fill, err := f.filler(c31Max*2/3-kP*acct[c31P], mode == "signed-envelope"); err != nil {
		c.Require(false, "exact-threshold filler: %v", err)
	} else {
		queue, _ := f.expand([]c31Run{{c31P, kP}})
		queue = append(queue, fill, f.S[0])
		replayQueue(fmt.Sprintf("P^%d F(=threshold) S^1", kP), queue, "exact-threshold")
		queue2, _ := f.expand([]c31Run{{c31P, kP}})
		if fill1, err := f.filler(c31Max*2/3-kP*acct[c31P]-1, mode == "signed-envelope"); err == nil {
			queue2 = append(queue2, fill1, f.S[0])
			replayQueue(fmt.Sprintf("P^%d F(=threshold-1) S^1", kP), queue2, "exact-threshold")
		} else {
			c.Require(false, "exact-threshold filler (one byte below): %v", err)
		}
	}
	// the largest message of the whole model
	replay(total.maxQ, "worst")
	builders := [4]string{"bundle", "transaction-challenge", "full-challenge", "relay"}
	cause := ">max:sum-envelope-exceeds-while-accounted-size-below-two-thirds"
	if mode == "unsigned-payload" {
		cause = ">max:sum-envelope-exceeds-while-sum-payload-below-two-thirds"
	}
	if c.Thorough() {
		for _, v := range total.minViol {
			if v != nil {
				replay([]c31Run{{c31H, v.Multiset[c31H]}, {c31P, v.Multiset[c31P]}, {c31S, v.Multiset[c31S]}}, "smallest-violating")
			}
		}
		verifmc.Sequences(3, 1, 3, func(seq []int) bool {
			var q []c31Run
			for _, cl := range seq {
				q = append(q, c31Run{cl, 1})
			}
			replay(q, "all-sequences<=3")
			return true
		})
	}
	st.done("replayed traces")
	if len(skipped) > 0 {
		c.Set("traces_not_replayed_for_lack_of_members", skipped)
	}
	c.Set("replayed_traces", len(replayed))
	c.Set("replayed_H_validations", replayH)
	if len(realOver) > 0 {
		c.Set("real_batches_over_max", realOver)
	}

	// ---- verdicts of the model ----
	confirmed := map[[3]int]string{}
	for k, v := range total.minViol {
		if v == nil {
			continue
		}
		q := []c31Run{{c31H, v.Multiset[c31H]}, {c31P, v.Multiset[c31P]}, {c31S, v.Multiset[c31S]}}
		desc := fmt.Sprintf("smallest violating queue %s (batch %s, found in order %s): accounted %d bytes < %d (two thirds of %d) but the message is %d bytes", c31Describe(q), c31Key(v.Batch), v.Queue, v.Accounted, c31Max*2/3, c31Max, v.Size)
		// confirm on the real code: a batch of exactly this composition formed by
		// the REAL batcher in one of the replayed traces, the real builders, the
		// relay panic and the refusal by QuicClient.Send
		if _, ok := confirmed[v.Batch]; !ok {
			confirmed[v.Batch] = "; no replayed trace formed exactly this batch on the real batcher (thorough tier replays it)"
			var names []string
			for name := range runs {
				names = append(names, name)
			}
			sort.Strings(names)
			for _, name := range names {
				res := runs[name]
				var comp [3]int
				plainClasses := true
				for _, m := range res.batch {
					if m.Class < 0 {
						plainClasses = false
						continue
					}
					comp[m.Class]++
				}
				if !plainClasses || comp != v.Batch || !replayed[name] {
					continue
				}
				plain, relay, rp := c31RealSizes(f, res.batch)
				txs := make([]*common.VersionedTransaction, len(res.batch))
				for i, m := range res.batch {
					txs[i] = m.Ver
				}
				err := (&p2p.QuicClient{}).Send(p2p.VerifBuildTransactionsMessage(txs, p2p.PeerMessageTypeTransactionBundle))
				confirmed[v.Batch] = fmt.Sprintf("; CONFIRMED: the real popAndProcessCacheQueue formed this batch from queue %s; real builders give bundle %d, transaction challenge %d, full challenge %d bytes; buildRelayMessage panics=%v (relay sizes %v); QuicClient.Send: %v", name, plain[0], plain[2], plain[3], rp, relay, err)
				c.Set("violation_confirmed_on_real_code", map[string]any{"queue": name, "batch": c31Key(comp), "bundle": plain[0], "transaction_challenge": plain[2], "full_challenge": plain[3], "relay_panics": rp, "send_error": fmt.Sprint(err)})
				break
			}
		}
		desc += confirmed[v.Batch]
		c.Violation(builders[k]+cause, desc, map[string]any{"multiset": map[string]int{"S": v.Multiset[0], "P": v.Multiset[1], "H": v.Multiset[2]}, "queue": c31Describe(q), "class_unsigned": unsigned, "class_envelope": envelope, "accounting": mode, "message_bytes": v.Size})
	}
	c.Sample(map[string]any{"class": "S", "unsigned": unsigned[0], "envelope": envelope[0]})
	c.Sample(map[string]any{"class": "P", "unsigned": unsigned[1], "envelope": envelope[1], "extra": c31PExtra})
	c.Sample(map[string]any{"class": "H", "unsigned": unsigned[2], "envelope": envelope[2], "extra": c31HExtra, "inputs": c31HInputs, "signatures": c31HInputs * c31HKeys})
	c.Sample(map[string]any{"trace": c31Describe(probeQ), "real": c31Shape(probe.actions), "accounting": mode})
	c.Sample(map[string]any{"largest": c31Describe(total.maxQ), "bytes": total.maxSize + c31RelayHdr})
	c.Require(len(replayed) >= 12 || c.Violations() > 0, "too few traces replayed: %d", len(replayed))
}
