//go:build verif

package kernel

import (
	"bytes"
	"encoding/hex"
	"fmt"
	"math/big"
	"sort"
	"strings"
	"time"

	"github.com/MixinNetwork/mixin/common"
	"github.com/MixinNetwork/mixin/config"
	"github.com/MixinNetwork/mixin/crypto"
	"github.com/MixinNetwork/mixin/verifmc/fixc"
)

// mcKWallet is the kernel-package counterpart of harness/storage/wallet_test.go:
// a single 1-of-1 account that builds real, correctly signed transactions
// (custodian deposits, transfers, withdrawal submit / claim, universal mint)
// against the current content of a node's store. It only BUILDS transactions;
// admission (validation, locking, snapshot write) is up to the harness.
type mcKWallet struct {
	M    *mcNode
	Acct common.Address
}

// raw key prefixes of the snapshot DB (storage/badger_graph.go)
const (
	mcKPrefixUTXO         = "UTXO"
	mcKPrefixFinalization = "FINALIZATION"
)

type mcKUTXO struct {
	Hash   crypto.Hash
	Index  uint
	Amount common.Integer
	Asset  crypto.Hash
	Type   uint8
	Lock   crypto.Hash
	Spent  bool // an input of a finalized transaction
	Mine   bool // 1-of-1 script output owned by the wallet account
}

func newMCKWallet(m *mcNode) *mcKWallet {
	return &mcKWallet{M: m, Acct: fixc.Addr("wallet")}
}

// mcKUnits converts a decimal Integer (8 fractional digits) to base units.
func mcKUnits(i common.Integer) *big.Int {
	b, ok := new(big.Int).SetString(strings.Replace(i.String(), ".", "", 1), 10)
	if !ok {
		panic(i.String())
	}
	return b
}

func (w *mcKWallet) acct() []*common.Address { a := w.Acct; return []*common.Address{&a} }

// finalizedInputs returns the set "hash:index" of ordinary inputs of all
// finalized transactions.
func (w *mcKWallet) finalizedInputs() map[string]bool {
	spent := map[string]bool{}
	for k := range w.M.Store.VerifDump(mcKPrefixFinalization) {
		kb, err := hex.DecodeString(k)
		if err != nil {
			panic(err)
		}
		var h crypto.Hash
		copy(h[:], kb[len(mcKPrefixFinalization):])
		tx, _, err := w.M.Store.ReadTransaction(h)
		if err != nil || tx == nil {
			panic(fmt.Sprint("finalized transaction without body ", h, err))
		}
		for _, in := range tx.Inputs {
			if in.Genesis == nil && in.Deposit == nil && in.Mint == nil {
				spent[fmt.Sprintf("%s:%d", in.Hash, in.Index)] = true
			}
		}
	}
	return spent
}

// scan reads every UTXO record of the snapshot DB, sorted by (amount, hash, index).
func (w *mcKWallet) scan() []*mcKUTXO {
	spent := w.finalizedInputs()
	var out []*mcKUTXO
	for _, v := range w.M.Store.VerifDump(mcKPrefixUTXO) {
		b, err := hex.DecodeString(v)
		if err != nil {
			panic(err)
		}
		u, err := common.UnmarshalUTXO(b)
		if err != nil {
			panic(err)
		}
		m := &mcKUTXO{Hash: u.Hash, Index: u.Index, Amount: u.Amount, Asset: u.Asset, Type: u.Type, Lock: u.LockHash}
		m.Spent = spent[fmt.Sprintf("%s:%d", u.Hash, u.Index)]
		if u.Type == common.OutputTypeScript && len(u.Keys) == 1 {
			priv := crypto.DeriveGhostPrivateKey(&u.Mask, &w.Acct.PrivateViewKey, &w.Acct.PrivateSpendKey, uint64(u.Index))
			m.Mine = priv.Public() == *u.Keys[0]
		}
		out = append(out, m)
	}
	sort.Slice(out, func(i, j int) bool {
		if c := out[i].Amount.Cmp(out[j].Amount); c != 0 {
			return c < 0
		}
		if out[i].Hash != out[j].Hash {
			return bytes.Compare(out[i].Hash[:], out[j].Hash[:]) < 0
		}
		return out[i].Index < out[j].Index
	})
	return out
}

// spendable returns the wallet's unspent and unlocked outputs of asset, smallest first.
func (w *mcKWallet) spendable(asset crypto.Hash) []*mcKUTXO {
	var out []*mcKUTXO
	for _, u := range w.scan() {
		if u.Asset == asset && u.Mine && !u.Spent && !u.Lock.HasValue() {
			out = append(out, u)
		}
	}
	return out
}

func (w *mcKWallet) sign(tx *common.Transaction) *common.VersionedTransaction {
	accs := make([][]*common.Address, len(tx.Inputs))
	for i := range accs {
		accs[i] = w.acct()
	}
	return fixc.SignAll(tx, w.M.Store, accs)
}

// ---- builders (all deterministic in their arguments and the store content) ----

// txDepositBTC is a custodian-signed deposit of the capped Bitcoin asset.
func (w *mcKWallet) txDepositBTC(extID, amount string) *common.VersionedTransaction {
	return w.M.Net.DepositBTC(extID, amount, w.acct(), 1)
}

func (w *mcKWallet) txDepositXIN(extID, amount string) *common.VersionedTransaction {
	return w.M.Net.DepositXIN(extID, amount, w.acct(), 1)
}

// txDepositAsset deposits an arbitrary asset id with the given asset info.
func (w *mcKWallet) txDepositAsset(asset, chain crypto.Hash, assetKey, extID, amount string) *common.VersionedTransaction {
	return w.M.Net.Deposit(asset, chain, assetKey, extID, 0, common.NewIntegerFromString(amount), w.acct(), 1, "any:"+extID)
}

// txTransfer spends u into the given amounts back to the wallet; label fixes
// the output seeds (and therefore the one-time output keys).
func (w *mcKWallet) txTransfer(u *mcKUTXO, amounts []common.Integer, label string) *common.VersionedTransaction {
	outs := make([]fixc.Out, len(amounts))
	for i, a := range amounts {
		outs[i] = fixc.Out{To: w.acct(), T: 1, Amount: a.String()}
	}
	tx := fixc.Transfer(u.Asset, []*common.Input{{Hash: u.Hash, Index: u.Index}}, outs, label)
	return w.sign(tx)
}

// txTransferTyped spends u into outputs to the wallet with explicit output type
// bytes and explicit seed labels: equal (seed label, position) give equal
// one-time output keys and masks.
func (w *mcKWallet) txTransferTyped(u *mcKUTXO, amounts []common.Integer, types []uint8, seeds []string) *common.VersionedTransaction {
	tx := common.NewTransactionV5(u.Asset)
	tx.AddInput(u.Hash, u.Index)
	for i, a := range amounts {
		tx.AddOutputWithType(types[i], w.acct(), common.NewThresholdScript(1), a, fixc.Seed64("typed:"+seeds[i]))
	}
	return w.sign(tx)
}

// txSubmit is a withdrawal submit of amount out of u (change back to the wallet;
// no change output when amount equals the whole output).
func (w *mcKWallet) txSubmit(u *mcKUTXO, amount common.Integer, label string) *common.VersionedTransaction {
	tx := common.NewTransactionV5(u.Asset)
	tx.AddInput(u.Hash, u.Index)
	tx.Outputs = append(tx.Outputs, &common.Output{Type: common.OutputTypeWithdrawalSubmit, Amount: amount, Withdrawal: &common.WithdrawalData{Address: "bc1-" + label, Tag: ""}})
	if c := u.Amount.Cmp(amount); c > 0 {
		tx.AddScriptOutput(w.acct(), common.NewThresholdScript(1), u.Amount.Sub(amount), fixc.Seed64("chg:"+label))
	} else if c < 0 {
		return nil
	}
	return w.sign(tx)
}

// txClaim is a withdrawal claim referencing submit, paying the claim fee from u (XIN).
func (w *mcKWallet) txClaim(u *mcKUTXO, submit crypto.Hash, label string) *common.VersionedTransaction {
	fee := common.NewIntegerFromString(config.WithdrawalClaimFee)
	if u.Asset != common.XINAssetId || u.Amount.Cmp(fee) <= 0 {
		return nil
	}
	tx := common.NewTransactionV5(common.XINAssetId)
	tx.AddInput(u.Hash, u.Index)
	tx.Outputs = append(tx.Outputs, &common.Output{Type: common.OutputTypeWithdrawalClaim, Amount: fee})
	tx.AddScriptOutput(w.acct(), common.NewThresholdScript(1), u.Amount.Sub(fee), fixc.Seed64("claimchg:"+label))
	tx.References = []crypto.Hash{submit}
	payload := []byte("external-withdrawal-tx-" + label)
	sig := w.M.Net.Custodian.PrivateSpendKey.Sign(crypto.Blake3Hash(payload))
	tx.Extra = append(sig[:], payload...)
	return w.sign(tx)
}

// mcKMintTime is the instant 08:00 of mint day `batch` (inside the mint window).
func mcKMintTime(epoch, batch uint64) uint64 {
	return epoch + batch*OneDay + 8*uint64(time.Hour)
}

// prepareMint gives every accepted node but the last one work on the day before
// and on the day of ts plus a round-space checkpoint at that batch, which is the
// code's own precondition for building the universal mint of that day.
func (w *mcKWallet) prepareMint(ts uint64) error {
	node, store := w.M.Node, w.M.Store
	acc := node.NodesListWithoutState(ts, true)
	batch := (ts - node.Epoch) / OneDay
	active := len(acc) - 1
	mk := func(round, at uint64, i, count int, signers []crypto.Hash) []*common.SnapshotWork {
		out := make([]*common.SnapshotWork, count)
		for k := range out {
			out[k] = &common.SnapshotWork{Timestamp: at + uint64(k), Hash: crypto.Blake3Hash(fmt.Appendf(nil, "mck|%d|%d|%d", round, i, k)), Signers: signers}
		}
		return out
	}
	yesterday := node.Epoch + (batch-1)*OneDay + 12*uint64(time.Hour)
	for i := 0; i < active; i++ {
		signers := []crypto.Hash{acc[i].IdForNetwork, acc[(i+1)%active].IdForNetwork, acc[(i+2)%active].IdForNetwork}
		if err := store.WriteRoundWork(acc[i].IdForNetwork, 0, mk(0, yesterday, i, 1+i%3, signers), true); err != nil {
			return err
		}
	}
	for i := 0; i < active; i++ {
		id := acc[i].IdForNetwork
		if err := store.WriteRoundWork(id, 1, mk(1, ts-uint64(time.Hour), i, 1, []crypto.Hash{id}), true); err != nil {
			return err
		}
		if err := store.WriteRoundSpaceAndState(&common.RoundSpace{NodeId: id, Batch: batch, Round: 1}); err != nil {
			return err
		}
	}
	return nil
}

// txMint builds the universal mint the node itself would build at ts (nil when
// the node sees no mint possibility) and signs it like tryToMintUniversal does.
func (w *mcKWallet) txMint(ts uint64) *common.VersionedTransaction {
	node := w.M.Node
	cur, err := w.M.Store.ReadCustodian(ts)
	if err != nil || cur == nil {
		return nil
	}
	tx := node.buildUniversalMintTransaction(cur, ts, false)
	if tx == nil {
		return nil
	}
	if err := tx.SignInput(w.M.Store, 0, []*common.Address{&node.Signer}); err != nil {
		panic(err)
	}
	return tx
}
