//go:build verif

package kernel

import (
	"bytes"
	"crypto/sha512"
	"fmt"
	"math/bits"
	"sort"
	"strings"
	"sync"
	"sync/atomic"
	"testing"

	"filippo.io/edwards25519"
	"github.com/MixinNetwork/mixin/common"
	"github.com/MixinNetwork/mixin/config"
	"github.com/MixinNetwork/mixin/crypto"
	"github.com/MixinNetwork/mixin/storage"
	"github.com/MixinNetwork/mixin/verifmc"
	"github.com/MixinNetwork/mixin/verifmc/fixc"
	"github.com/dgraph-io/ristretto/v2"
)

// C09 — a snapshot is final only with a threshold certificate from historical keys.
//
// E1 over E2 histories: every membership history of bounded length that the
// real write path accepts (members_test.go) x every boundary instant x
// {genesis chain round 1, pledging chain round 0} x every non-empty signer
// mask over the key sets of the history x certificate kinds, each query issued
// three times on the same node (first, after cacheStore.Wait, after all
// conflicting queries). Oracle: a plain replay of the events gives the key set
// and the threshold at the instant; verifyFinalization may answer "finalized"
// only for certificates the reference accepts (one direction).

const (
	c09Unreachable = 1 << 20
	c09Mature      = 30 * mcMemSecond // SnapshotReferenceThreshold * SnapshotRoundGap
	c09Ready       = 12 * mcMemHour   // KernelNodeAcceptPeriodMinimum
)

// ---- histories ---------------------------------------------------------------------

func c09Window(epoch uint64, day int) uint64 {
	return epoch + uint64(day)*mcMemDay + uint64(config.KernelNodeAcceptTimeBegin)*mcMemHour
}

const c09WindowLen = uint64(config.KernelNodeAcceptTimeEnd-config.KernelNodeAcceptTimeBegin+1) * mcMemHour

// offsets of an event of each kind relative to the opening of the operation
// window of its day (boundary menu)
func c09Offsets(kind int) []int64 {
	h := int64(mcMemHour)
	w := int64(c09WindowLen)
	switch kind {
	case mcMemPledge:
		return []int64{-12 * h, -1, 0}
	case mcMemAccept:
		return []int64{-1, 0, 1, 12*h - 1, 12 * h, 12*h + 1, w - 1, w}
	case mcMemCancel:
		return []int64{0, w - 1}
	case mcMemRemove:
		return []int64{-1, 0, 1, w - 1, w}
	}
	return nil
}

func c09EventDay(i int) int { return 10 + 2*i }

// c09Histories enumerates all event sequences of length <= depth over the
// membership kinds with every offset of the menu (structural order only: the
// write path decides which are accepted).
func c09Histories(epoch uint64, depth int) [][]mcMemEvent {
	out := [][]mcMemEvent{{}}
	var rec func(prefix []mcMemEvent)
	rec = func(prefix []mcMemEvent) {
		if len(prefix) == depth {
			return
		}
		i := len(prefix)
		for kind := mcMemPledge; kind <= mcMemRemove; kind++ {
			for _, off := range c09Offsets(kind) {
				ts := uint64(int64(c09Window(epoch, c09EventDay(i))) + off)
				h := append(append([]mcMemEvent{}, prefix...), mcMemEvent{Kind: kind, TS: ts})
				out = append(out, h)
				rec(h)
			}
		}
	}
	rec(nil)
	return out
}

// c09Plausible prunes sequences whose order no ledger accepts (accept without a
// pledge...) before a node is built for them; it uses kinds only.
func c09Plausible(h []mcMemEvent) bool {
	pledging, accepted := false, 0
	for _, e := range h {
		switch e.Kind {
		case mcMemPledge:
			if pledging {
				return false
			}
			pledging = true
		case mcMemAccept:
			if !pledging {
				return false
			}
			pledging = false
			accepted++
		case mcMemCancel:
			if !pledging {
				return false
			}
			pledging = false
		case mcMemRemove:
			if pledging || accepted == 0 {
				return false
			}
			accepted--
		}
	}
	return true
}

// ---- reference membership model (plain replay of the events) -----------------------------

// c09Predictive: the removal candidate is excluded from the signer set on every
// network but mainnet, and on mainnet from the signer-set fork on.
func c09Predictive(d *mcMemDriver, ts uint64) bool {
	return d.Net.NetworkId.String() != config.KernelNetworkId || ts >= mainnetConsensusNodeRemovalSignerSetForkAt
}

func c09RefCandidate(d *mcMemDriver, ts uint64) (int, bool) {
	e := d.Net.Epoch
	if ts < e || !c09Predictive(d, ts) {
		return 0, false
	}
	hour := (ts - e) / mcMemHour % 24
	if hour < config.KernelNodeAcceptTimeBegin || hour > config.KernelNodeAcceptTimeEnd {
		return 0, false
	}
	start := c09Window(e, int((ts-e)/mcMemDay))
	list := d.RefList(start, false)
	var accepted []mcMemRec
	for _, r := range list {
		if start-r.TS < c09Ready {
			return 0, false
		}
		switch r.State {
		case common.NodeStateAccepted:
			accepted = append(accepted, r)
		case common.NodeStateCancelled, common.NodeStateRemoved:
		default:
			return 0, false // a node is pledging: no removal is predictable
		}
	}
	if len(accepted) <= config.KernelMinimumNodesCount {
		return 0, false
	}
	return accepted[0].Who, true
}

// c09Ref returns the reference key set (public keys and node ids, in mask
// order) and the reference threshold at ts. pledgingWho >= 0 appends that node
// (round 0 of its own chain while it is pledging).
func c09Ref(d *mcMemDriver, ts uint64, pledgingWho int) (keys []crypto.Key, ids []crypto.Hash, threshold int) {
	if ts < d.Net.Epoch {
		return nil, nil, c09Unreachable
	}
	cand, hasCand := c09RefCandidate(d, ts)
	base := 0
	for _, r := range d.RefList(ts, false) {
		if hasCand && r.Who == cand {
			continue
		}
		if r.State != common.NodeStateAccepted {
			continue
		}
		id := d.Idents[r.Who]
		if id.Genesis || r.TS+c09Mature < ts {
			base++
		}
		if id.Genesis || r.TS+c09Ready < ts {
			keys = append(keys, id.Signer.PublicSpendKey)
			ids = append(ids, id.Id)
		}
	}
	if pledgingWho >= 0 {
		keys = append(keys, d.Idents[pledgingWho].Signer.PublicSpendKey)
		ids = append(ids, d.Idents[pledgingWho].Id)
	}
	if base < config.KernelMinimumNodesCount {
		return keys, ids, c09Unreachable
	}
	return keys, ids, base*2/3 + 1
}

func c09RefPledgingAt(d *mcMemDriver, who int, ts uint64) bool {
	r, ok := mcMemLatest(d.Recs, ts)[who]
	return ok && r.State == common.NodeStatePledging
}

// ---- reference Schnorr verification --------------------------------------------------

func c09KeysKey(keys []crypto.Key) string {
	var b strings.Builder
	for _, k := range keys {
		b.Write(k[:])
	}
	return b.String()
}

var c09VerifyMemo sync.Map

// c09RefVerify: s*B == R + H(R || A || m)*A with A the plain sum of the keys.
func c09RefVerify(keys []crypto.Key, sig crypto.Signature, msg crypto.Hash) bool {
	mk := c09KeysKey(keys) + string(sig[:]) + string(msg[:])
	if v, ok := c09VerifyMemo.Load(mk); ok {
		return v.(bool)
	}
	ok := func() bool {
		if len(keys) == 0 {
			return false
		}
		A := edwards25519.NewIdentityPoint()
		for _, k := range keys {
			p, err := new(edwards25519.Point).SetBytes(k[:])
			if err != nil {
				return false
			}
			A.Add(A, p)
		}
		R, err := new(edwards25519.Point).SetBytes(sig[:32])
		if err != nil {
			return false
		}
		s, err := edwards25519.NewScalar().SetCanonicalBytes(sig[32:])
		if err != nil {
			return false
		}
		h := sha512.New()
		h.Write(sig[:32])
		h.Write(A.Bytes())
		h.Write(msg[:])
		x, err := edwards25519.NewScalar().SetUniformBytes(h.Sum(nil))
		if err != nil {
			return false
		}
		lhs := new(edwards25519.Point).ScalarBaseMult(s)
		rhs := new(edwards25519.Point).ScalarMult(x, A)
		rhs.Add(rhs, R)
		return lhs.Equal(rhs) == 1
	}()
	c09VerifyMemo.Store(mk, ok)
	return ok
}

// ---- certificates ----------------------------------------------------------------------

type c09Cert struct {
	Mask uint64
	Sig  crypto.Signature
	Hash crypto.Hash
	Kind string
}

var (
	c09H1 = fixc.Hash("c09-snapshot-hash-1")
	c09H2 = fixc.Hash("c09-snapshot-hash-2")
)

var c09SigMemo sync.Map
var c09Signed atomic.Int64

// c09Sign builds a real CoSi signature over msg by exactly the masked keys of
// K: CosiAggregateCommitment -> Response of every signer -> AggregateResponse
// (strict). One signature per (masked keys, message); nonces are deterministic.
func c09Sign(K []crypto.Key, mask uint64, msg crypto.Hash) crypto.Signature {
	var masked []crypto.Key
	var idx []int
	for i := range K {
		if mask&(1<<uint(i)) != 0 {
			masked = append(masked, K[i])
			idx = append(idx, i)
		}
	}
	mk := c09KeysKey(masked) + string(msg[:])
	if v, ok := c09SigMemo.Load(mk); ok {
		return v.(crypto.Signature)
	}
	publics := make([]*crypto.Key, len(K))
	for i := range K {
		k := K[i]
		publics[i] = &k
	}
	nonces := map[int]*crypto.CosiNonce{}
	commitments := map[int]*crypto.Key{}
	for _, i := range idx {
		seed := fixc.Seed64("c09-nonce:" + mk + fmt.Sprint(i))
		n := crypto.CosiCommitNonce(bytes.NewReader(seed))
		p := n.Public()
		nonces[i], commitments[i] = n, &p
	}
	sig, err := crypto.CosiAggregateCommitment(commitments)
	if err != nil {
		panic(err)
	}
	if sig.Mask != mask {
		panic("mask mismatch")
	}
	responses := map[int]*[32]byte{}
	for _, i := range idx {
		priv := mcMemPriv(K[i])
		if priv == nil {
			panic("no private key for consensus key " + K[i].String())
		}
		r, err := nonces[i].Response(sig, priv, publics, msg)
		if err != nil {
			panic(err)
		}
		responses[i] = r
	}
	if err := sig.AggregateResponse(publics, responses, msg, true); err != nil {
		panic(err)
	}
	c09Signed.Add(1)
	c09SigMemo.Store(mk, sig.Signature)
	return sig.Signature
}

var c09CertMemo sync.Map

// c09CertsFor lists, for every non-empty mask M over K, in this order (valid
// forms before their conflicting variants):
//
//	honest(M,h1) shown as (M,h1); honest(M,h2) shown as (M,h2);
//	the h2 signature shown with h1 and the h1 signature shown with h2;
//	the h1 signature shown with M +one bit, M -one bit, M one bit moved,
//	M + bit |K| and M + bit 63; 64 zero bytes; valid R with wrong s.
func c09CertsFor(K []crypto.Key) []c09Cert {
	kk := c09KeysKey(K)
	if v, ok := c09CertMemo.Load(kk); ok {
		return v.([]c09Cert)
	}
	n := uint(len(K))
	full := uint64(1)<<n - 1
	var out []c09Cert
	for m := uint64(1); m <= full; m++ {
		s1 := c09Sign(K, m, c09H1)
		s2 := c09Sign(K, m, c09H2)
		out = append(out,
			c09Cert{m, s1, c09H1, "honest"},
			c09Cert{m, s2, c09H2, "honest-h2"},
			c09Cert{m, s2, c09H1, "other-hash"},
			c09Cert{m, s1, c09H2, "other-hash"})
		absent := ^m & full
		if absent != 0 {
			lowAbsent := absent & -absent
			out = append(out, c09Cert{m | lowAbsent, s1, c09H1, "mask+1"})
			lowPresent := m & -m
			out = append(out, c09Cert{m&^lowPresent | lowAbsent, s1, c09H1, "mask-moved"})
		}
		if m&(m-1) != 0 {
			out = append(out, c09Cert{m &^ (m & -m), s1, c09H1, "mask-1"})
		}
		out = append(out,
			c09Cert{m | 1<<n, s1, c09H1, "mask+outside"},
			c09Cert{m | 1<<63, s1, c09H1, "mask+bit63"},
			c09Cert{m, crypto.Signature{}, c09H1, "zero-signature"})
		bad := s1
		bad[32] ^= 1
		out = append(out, c09Cert{m, bad, c09H1, "wrong-s"})
	}
	c09CertMemo.Store(kk, out)
	return out
}

// ---- one history -----------------------------------------------------------------------

type c09Counters struct {
	queries, accepted, rejected   atomic.Int64
	validRejected                 atomic.Int64
	histories, refused            atomic.Int64
	instants, classes             atomic.Int64
	cacheHits, cacheMisses, drops atomic.Int64
	pledgingQueries               atomic.Int64
	thresholdMet                  atomic.Int64 // (instant, chain) pairs with an accepted exact-threshold honest certificate
	thresholdPairs                atomic.Int64
	maxK                          atomic.Int64
	withCandidate                 atomic.Int64
	laterRoundPairs               atomic.Int64 // pledging chain, rounds 1 and 2
}

var c09Ctr c09Counters

type c09Target struct {
	chain  *Chain
	nodeId crypto.Hash
	round  uint64
	who    int // -1: genesis chain
}

func c09Instants(d *mcMemDriver) []uint64 {
	e := d.Net.Epoch
	set := map[uint64]bool{e - 1: true, e: true, e + 1: true, e + 2: true}
	days := map[int]bool{}
	for _, r := range d.Recs {
		if r.TS == e {
			continue
		}
		for _, q := range []uint64{r.TS - 1, r.TS, r.TS + 1} {
			set[q] = true
		}
		day := int((r.TS - e) / mcMemDay)
		days[day], days[day+1] = true, true
		switch r.State {
		case common.NodeStateAccepted:
			for _, q := range []uint64{r.TS + c09Mature, r.TS + c09Mature + 1, r.TS + c09Ready, r.TS + c09Ready + 1} {
				set[q] = true
			}
		case common.NodeStatePledging:
			// boundary of the non-final threshold rule (12 h - 90 s)
			for _, q := range []uint64{r.TS + c09Ready - 3*c09Mature, r.TS + c09Ready - 3*c09Mature + 1} {
				set[q] = true
			}
		}
	}
	last := 10
	for day := range days {
		if day > last {
			last = day
		}
	}
	days[last+1] = true
	for day := range days {
		w := c09Window(e, day)
		for _, q := range []uint64{w - 1, w, w + 1, w + mcMemHour, w + c09WindowLen - 1, w + c09WindowLen} {
			set[q] = true
		}
	}
	out := make([]uint64, 0, len(set))
	for q := range set {
		out = append(out, q)
	}
	sort.Slice(out, func(i, j int) bool { return out[i] < out[j] })
	return out
}

type c09Result struct {
	fin     bool
	signers uint64 // digest of the returned signer ids
}

func c09Digest(signers []crypto.Hash) uint64 {
	if signers == nil {
		return 0
	}
	h := uint64(1469598103934665603)
	for _, s := range signers {
		for _, b := range s[:8] {
			h = (h ^ uint64(b)) * 1099511628211
		}
	}
	return h ^ uint64(len(signers))
}

func c09Query(t c09Target, ts uint64, ct *c09Cert) ([]crypto.Hash, bool) {
	s := &common.Snapshot{
		Version:     common.SnapshotVersionCommonEncoding,
		NodeId:      t.nodeId,
		RoundNumber: t.round,
		Timestamp:   ts,
		Hash:        ct.Hash,
		Signature:   &crypto.CosiSignature{Signature: ct.Sig, Mask: ct.Mask},
	}
	return t.chain.verifyFinalization(s)
}

// c09RefSet is one key vector the certificate may have been verified against,
// with its threshold. The generated network has one per (instant, chain); a
// pre-fork mainnet instant inside the operation window has two (current and
// legacy, i.e. from before the window).
type c09RefSet struct {
	keys []crypto.Key
	ids  []crypto.Hash
	T    int
	name string
}

type c09Exercise struct {
	names   []string // rendering of the history / configuration
	epoch   uint64
	cache   interface{ Wait() }
	qs      []uint64
	targets []c09Target
	refs    [][][]c09RefSet // [instant][target] -> alternatives (nil: pair not queried)
	certs   []c09Cert
}

// c09CollectCerts adds the certificates of every key vector in refs.
func (ex *c09Exercise) collectCerts() {
	seenK := map[string]bool{}
	seenC := map[string]bool{}
	classes := map[string]bool{}
	for qi := range ex.qs {
		for ti := range ex.targets {
			for _, set := range ex.refs[qi][ti] {
				if len(set.keys) == 0 {
					continue
				}
				if int64(len(set.keys)) > c09Ctr.maxK.Load() {
					c09Ctr.maxK.Store(int64(len(set.keys)))
				}
				kk := c09KeysKey(set.keys)
				classes[fmt.Sprintf("%s|%d", kk, set.T)] = true
				if seenK[kk] {
					continue
				}
				seenK[kk] = true
				for _, ct := range c09CertsFor(set.keys) {
					ck := fmt.Sprintf("%d|%s|%s", ct.Mask, string(ct.Sig[:]), string(ct.Hash[:8]))
					if !seenC[ck] {
						seenC[ck] = true
						ex.certs = append(ex.certs, ct)
					}
				}
			}
		}
	}
	c09Ctr.classes.Add(int64(len(classes)))
}

type c09Verdict struct {
	member, enough, sigOK bool
	want                  []crypto.Hash
}

func (v c09Verdict) valid() bool { return v.member && v.enough && v.sigOK }

func c09Judge(set *c09RefSet, ct *c09Cert) c09Verdict {
	n := uint(len(set.keys))
	var v c09Verdict
	v.member = n > 0 && ct.Mask>>n == 0
	v.enough = bits.OnesCount64(ct.Mask) >= set.T
	if v.member {
		var masked []crypto.Key
		for j := uint(0); j < n; j++ {
			if ct.Mask&(1<<j) != 0 {
				masked = append(masked, set.keys[j])
				v.want = append(v.want, set.ids[j])
			}
		}
		v.sigOK = c09RefVerify(masked, ct.Sig, ct.Hash)
	}
	return v
}

// run issues every certificate at every (instant, target) pair three times and
// applies the oracle.
func (ex *c09Exercise) run(c *verifmc.Check) {
	names, qs, targets, certs := ex.names, ex.qs, ex.targets, ex.certs
	replay := func(q uint64, t c09Target, ct *c09Cert) map[string]any {
		return map[string]any{"history": names, "timestamp_minus_epoch": int64(q) - int64(ex.epoch), "chain": map[bool]string{true: "accepted-chain", false: "pledging-chain"}[t.who < 0], "round": t.round,
			"mask": fmt.Sprintf("%#x", ct.Mask), "signature": ct.Sig.String(), "hash": ct.Hash.String(), "kind": ct.Kind}
	}

	first := make([][][]c09Result, len(qs))
	sinceWait := 0
	outc := map[string]int64{}
	strict := map[string]int64{}
	var nQueries, nAccepted, nRejected, nValidRejected int64
	defer func() {
		// one Outcome per class and history (classes reached), exact counts as coverage keys
		for k, n := range outc {
			c.Outcome(k)
			c.Add("n:"+k, n)
		}
		for k, n := range strict {
			c.Stricter(k)
			c.Add("n:stricter:"+k, n)
		}
		c09Ctr.queries.Add(nQueries)
		c09Ctr.accepted.Add(nAccepted)
		c09Ctr.rejected.Add(nRejected)
		c09Ctr.validRejected.Add(nValidRejected)
	}()
	for qi, q := range qs {
		first[qi] = make([][]c09Result, len(targets))
		for ti, t := range targets {
			sets := ex.refs[qi][ti]
			if sets == nil {
				continue
			}
			c09Ctr.instants.Add(1)
			if t.who >= 0 {
				c09Ctr.pledgingQueries.Add(1)
			}
			res := make([]c09Result, len(certs))
			first[qi][ti] = res
			exactMet := make([]bool, len(sets))
			// pass 1: first time
			for i := range certs {
				ct := &certs[i]
				signers, fin := c09Query(t, q, ct)
				res[i] = c09Result{fin, c09Digest(signers)}
				nQueries++
				sinceWait++
				if sinceWait >= 4000 {
					ex.cache.Wait()
					sinceWait = 0
				}
				// reference verdict: valid under one of the admissible key vectors
				pop := bits.OnesCount64(ct.Mask)
				best, bestV := &sets[0], c09Judge(&sets[0], ct)
				for si := 1; si < len(sets) && !bestV.valid(); si++ {
					v := c09Judge(&sets[si], ct)
					if v.valid() || (v.member && v.sigOK && !(bestV.member && bestV.sigOK)) {
						best, bestV = &sets[si], v
					}
				}
				valid := bestV.valid()
				n := len(best.keys)
				if fin {
					nAccepted++
					outc["accept:"+ct.Kind]++
					if best.name != "" {
						outc["accept:under-"+best.name+"-key-vector"]++
					}
					if valid && ct.Kind == "honest" {
						for si := range sets {
							if pop == sets[si].T && c09Judge(&sets[si], ct).valid() {
								exactMet[si] = true
							}
						}
					}
				} else {
					nRejected++
					switch {
					case valid:
						outc["reject:valid-certificate(stricter)"]++
					case !bestV.member:
						outc["reject:names-non-member"]++
					case !bestV.enough:
						outc["reject:below-threshold"]++
					default:
						outc["reject:signature:"+ct.Kind]++
					}
				}
				where := fmt.Sprintf("%v, epoch%+d", names, int64(q)-int64(ex.epoch))
				if best.name != "" {
					where += ", " + best.name + " key vector"
				}
				switch {
				case fin && best.T == c09Unreachable:
					c.Violation("accepted:membership-below-minimum", fmt.Sprintf("verifyFinalization accepted a certificate at an instant where the reference membership has fewer than %d mature members (history %s)", config.KernelMinimumNodesCount, where), replay(q, t, ct))
				case fin && !bestV.member:
					c.Violation("accepted:mask-names-non-member:"+ct.Kind, fmt.Sprintf("verifyFinalization accepted mask %#x although the reference key set at the instant has only %d keys (history %s)", ct.Mask, n, where), replay(q, t, ct))
				case fin && !bestV.sigOK:
					c.Violation("accepted:signature-not-by-masked-keys:"+ct.Kind, fmt.Sprintf("verifyFinalization accepted a certificate (%s) whose signature does not verify over the presented hash for exactly the keys the mask names in the reference key set (mask %#x of %d keys, history %s)", ct.Kind, ct.Mask, n, where), replay(q, t, ct))
				case fin && !bestV.enough:
					c.Violation("accepted:below-threshold:"+ct.Kind, fmt.Sprintf("verifyFinalization accepted %d signers, the reference threshold of the key set they belong to is %d of %d keys (history %s)", pop, best.T, n, where), replay(q, t, ct))
				case fin && c09Digest(bestV.want) != res[i].signers:
					c.Violation("accepted:signers-differ-from-masked-members", fmt.Sprintf("verifyFinalization returned signers %v, the mask %#x names %v (history %s)", signers, ct.Mask, bestV.want, where), replay(q, t, ct))
				case !fin && valid:
					nValidRejected++
					strict["valid certificate rejected (kind "+ct.Kind+")"]++
				}
			}
			for si := range sets {
				if sets[si].T > len(sets[si].keys) {
					continue
				}
				c09Ctr.thresholdPairs.Add(1)
				if exactMet[si] {
					c09Ctr.thresholdMet.Add(1)
				} else {
					strict["no honest exact-threshold certificate accepted at an instant where the reference threshold can be met"]++
				}
			}
			// pass 2: remembered results
			ex.cache.Wait()
			sinceWait = 0
			for i := range certs {
				signers, fin := c09Query(t, q, &certs[i])
				nQueries++
				if fin != res[i].fin || c09Digest(signers) != res[i].signers {
					c.Violation("repetitions-disagree:second", fmt.Sprintf("the same query (kind %s, mask %#x) answered finalized=%v first and finalized=%v after cacheStore.Wait (history %v, epoch%+d)", certs[i].Kind, certs[i].Mask, res[i].fin, fin, names, int64(q)-int64(ex.epoch)), replay(q, t, &certs[i]))
					break
				}
			}
		}
	}
	// pass 3: everything again in reverse order, after all conflicting queries were issued
	ex.cache.Wait()
	for qi := len(qs) - 1; qi >= 0; qi-- {
		for ti := len(targets) - 1; ti >= 0; ti-- {
			res := first[qi][ti]
			if res == nil {
				continue
			}
			for i := len(certs) - 1; i >= 0; i-- {
				signers, fin := c09Query(targets[ti], qs[qi], &certs[i])
				nQueries++
				if fin != res[i].fin || c09Digest(signers) != res[i].signers {
					c.Violation("repetitions-disagree:third", fmt.Sprintf("the same query (kind %s, mask %#x) answered finalized=%v first and finalized=%v after the conflicting queries (history %v, epoch%+d)", certs[i].Kind, certs[i].Mask, res[i].fin, fin, names, int64(qs[qi])-int64(ex.epoch)), replay(qs[qi], targets[ti], &certs[i]))
					qi = -1
					break
				}
			}
			if qi < 0 {
				break
			}
		}
	}
	// degenerate forms
	for _, t := range targets {
		q := qs[len(qs)-1]
		for _, s := range []*common.Snapshot{
			{Version: common.SnapshotVersionCommonEncoding, NodeId: t.nodeId, RoundNumber: t.round, Timestamp: q, Hash: c09H1},
			{Version: common.SnapshotVersionCommonEncoding, NodeId: t.nodeId, RoundNumber: t.round, Timestamp: q, Hash: c09H1, Signature: &crypto.CosiSignature{}},
			{Version: 0, NodeId: t.nodeId, RoundNumber: t.round, Timestamp: q, Hash: c09H1, Signature: &crypto.CosiSignature{Mask: 1}},
		} {
			if _, fin := t.chain.verifyFinalization(s); fin {
				c.Violation("accepted:no-certificate", fmt.Sprintf("verifyFinalization accepted a snapshot without signature / with empty mask / of unknown version (history %v)", names), map[string]any{"history": names})
			}
			nQueries++
			outc["reject:no-certificate"]++
		}
	}
}

func c09Run(c *verifmc.Check, hist []mcMemEvent) {
	d, err := newMCMemDriver("")
	if err != nil {
		c.Require(false, "fixture: %v", err)
		return
	}
	defer d.Close()
	for _, e := range hist {
		if err := d.Apply(e.Kind, e.TS); err != nil {
			c09Ctr.refused.Add(1)
			c.Outcome("history:refused-by-write-path")
			return
		}
	}
	c09Ctr.histories.Add(1)
	c.Outcome("history:accepted-by-write-path")
	names := mcMemHistString(hist, d.Net.Epoch)
	c.Sample(map[string]any{"history": names})

	ex := &c09Exercise{names: names, epoch: d.Net.Epoch, cache: d.M.Cache, qs: c09Instants(d)}
	ex.targets = []c09Target{{chain: d.M.chainOf(d.Net.NodeIds[2]), nodeId: d.Net.NodeIds[2], round: 1, who: -1}}
	for who := range d.Idents {
		if d.Idents[who].Genesis {
			continue
		}
		ch := d.M.Node.getOrCreateChain(d.Idents[who].Id)
		if ch == nil {
			c.Require(false, "no chain for pledged node %d", who)
			return
		}
		// round 0 (the accept snapshot: the pledging node is a signer) and rounds 1, 2
		// on the same chain held in pledging state (the pledging node is NOT a signer)
		for round := uint64(0); round <= 2; round++ {
			ex.targets = append(ex.targets, c09Target{chain: ch, nodeId: d.Idents[who].Id, round: round, who: who})
		}
	}
	ex.refs = make([][][]c09RefSet, len(ex.qs))
	for qi, q := range ex.qs {
		ex.refs[qi] = make([][]c09RefSet, len(ex.targets))
		for ti, t := range ex.targets {
			if t.who >= 0 && !c09RefPledgingAt(d, t.who, q) {
				continue
			}
			if t.round == 2 && qi%2 == 1 {
				continue // round 2 at every second instant (same code path as round 1)
			}
			appendWho := -1
			if t.round == 0 {
				appendWho = t.who
			}
			if t.who >= 0 && t.round > 0 {
				c09Ctr.laterRoundPairs.Add(1)
			}
			keys, ids, T := c09Ref(d, q, appendWho)
			ex.refs[qi][ti] = []c09RefSet{{keys: keys, ids: ids, T: T}}
			if _, has := c09RefCandidate(d, q); has {
				c09Ctr.withCandidate.Add(1)
			}
		}
	}
	ex.collectCerts()
	c.Distinct("history:" + strings.Join(names, ","))
	ex.run(c)
	m := d.M.Cache.Metrics
	c09Ctr.cacheHits.Add(int64(m.Hits()))
	c09Ctr.cacheMisses.Add(int64(m.Misses()))
	c09Ctr.drops.Add(int64(m.SetsDropped() + m.SetsRejected()))
	c.Eval(1)
}

// ---- mainnet network id: pre-fork legacy retry and the fork boundary ---------------------

// c09LegacyStore serves synthetic node records to the real LoadConsensusNodes.
type c09LegacyStore struct {
	storage.Store // nil: every other method panics
	nodes         []*common.Node
}

func (s *c09LegacyStore) ReadAllNodes(threshold uint64, withState bool) []*common.Node {
	out := make([]*common.Node, len(s.nodes))
	for i, n := range s.nodes {
		cp := *n
		out[i] = &cp
	}
	return out
}

type c09LegacyConfig struct {
	n        int  // accepted founding members
	recent   bool // one more member accepted 2 h before the pre-fork window (mature, not ready)
	scenario int  // 0 removal 30 s into the last pre-fork window, 1 removal 30 s after the fork, 2 no removal
}

func (cf c09LegacyConfig) String() string {
	return fmt.Sprintf("mainnet-id:n=%d:recent=%v:%s", cf.n, cf.recent, []string{"removal-in-last-pre-fork-window", "removal-in-first-post-fork-window", "no-removal"}[cf.scenario])
}

var c09LegacyAccepted, c09LegacyQueries atomic.Int64

// c09RunLegacy: a node with the MAINNET network id and synthetic records (as
// kernel/removal_consensus_test.go builds it, but through the real
// LoadConsensusNodes over a stub store). Before the signer-set fork, inside the
// operation window, verifyFinalization retries with the key vector from before
// the window; the oracle admits either vector with its own threshold.
func c09RunLegacy(c *verifmc.Check, cf c09LegacyConfig) {
	fork := uint64(mainnetConsensusNodeRemovalSignerSetForkAt)
	epoch := fork - 100*mcMemDay - uint64(config.KernelNodeAcceptTimeBegin)*mcMemHour
	wp := fork - mcMemDay // opening of the last pre-fork window
	networkId, err := crypto.HashFromString(config.KernelNetworkId)
	if err != nil {
		panic(err)
	}
	d := &mcMemDriver{Net: &fixc.Net{Epoch: epoch, NetworkId: networkId}}
	st := &c09LegacyStore{}
	genesis := map[crypto.Hash]bool{}
	add := func(who int, state string, ts uint64) {
		id := d.Idents[who]
		tx := crypto.Blake3Hash([]byte(fmt.Sprintf("c09-legacy-tx-%d-%s-%d", who, state, ts)))
		d.Recs = append(d.Recs, mcMemRec{Who: who, State: state, TS: ts, Tx: tx})
		st.nodes = append(st.nodes, &common.Node{Signer: fixc.Pub(id.Signer), Payee: fixc.Pub(id.Payee), State: state, Transaction: tx, Timestamp: ts})
	}
	ident := func(i int, gen bool) int {
		id := mcMemIdent{Signer: fixc.NodeAddr(fmt.Sprintf("mem-signer-%d", 7+i)), Payee: fixc.NodeAddr(fmt.Sprintf("mem-payee-%d", 7+i)), Genesis: gen}
		id.Id = id.Signer.Hash().ForNetwork(networkId)
		d.Idents = append(d.Idents, id)
		if gen {
			genesis[id.Id] = true
		}
		return len(d.Idents) - 1
	}
	for i := 0; i < cf.n; i++ {
		add(ident(i, true), common.NodeStateAccepted, epoch+uint64(i))
	}
	if cf.recent {
		add(ident(cf.n, false), common.NodeStateAccepted, wp-2*mcMemHour)
	}
	removal := uint64(0)
	switch cf.scenario {
	case 0:
		removal = wp + 30*mcMemSecond
	case 1:
		removal = fork + 30*mcMemSecond
	}
	if removal != 0 {
		add(0, common.NodeStateRemoved, removal)
	}
	cache, err := ristretto.NewCache(&ristretto.Config[[]byte, any]{NumCounters: 1e5, MaxCost: 1 << 26, BufferItems: 64, Metrics: true})
	if err != nil {
		panic(err)
	}
	defer cache.Close()
	node := &Node{Epoch: epoch, networkId: networkId, persistStore: st, genesisNodesMap: genesis, cacheStore: cache}
	if err := node.LoadConsensusNodes(); err != nil {
		c.Require(false, "legacy fixture: %v", err)
		return
	}
	chainId := d.Idents[1].Id
	ex := &c09Exercise{names: []string{cf.String()}, epoch: epoch, cache: cache}
	ex.targets = []c09Target{{chain: &Chain{node: node, ChainId: chainId}, nodeId: chainId, round: 1, who: -1}}
	w := c09WindowLen
	set := map[uint64]bool{}
	for _, q := range []uint64{wp - mcMemHour, wp - 1, wp, wp + 1, wp + 30*mcMemSecond, wp + 30*mcMemSecond + 1, wp + 61*mcMemSecond, wp + mcMemHour, wp + 2*mcMemHour + 5, wp + w - 1, wp + w,
		fork - 1, fork, fork + 1, fork + 30*mcMemSecond + 1, fork + 61*mcMemSecond, fork + mcMemHour, fork + w - 1, fork + w, fork + mcMemDay, fork + mcMemDay + mcMemHour} {
		set[q] = true
	}
	for q := range set {
		ex.qs = append(ex.qs, q)
	}
	sort.Slice(ex.qs, func(i, j int) bool { return ex.qs[i] < ex.qs[j] })
	ex.refs = make([][][]c09RefSet, len(ex.qs))
	minT := c09Unreachable
	for qi, q := range ex.qs {
		keys, ids, T := c09Ref(d, q, -1)
		sets := []c09RefSet{{keys: keys, ids: ids, T: T, name: "current"}}
		hour := (q - epoch) / mcMemHour % 24
		if !c09Predictive(d, q) && hour >= config.KernelNodeAcceptTimeBegin && hour <= config.KernelNodeAcceptTimeEnd {
			legacyTS := q - (hour+1-config.KernelNodeAcceptTimeBegin)*mcMemHour
			lk, li, lt := c09Ref(d, legacyTS, -1)
			sets = append(sets, c09RefSet{keys: lk, ids: li, T: lt, name: "legacy"})
		}
		for _, s := range sets {
			if s.T < minT {
				minT = s.T
			}
		}
		ex.refs[qi] = [][]c09RefSet{sets}
		if _, has := c09RefCandidate(d, q); has {
			c09Ctr.withCandidate.Add(1)
		}
	}
	ex.collectCerts()
	// all masks naming at least (smallest threshold - 2) signers
	kept := ex.certs[:0]
	for _, ct := range ex.certs {
		if bits.OnesCount64(ct.Mask&^(1<<63)) >= minT-2 {
			kept = append(kept, ct)
		}
	}
	ex.certs = kept
	c.Distinct(cf.String())
	c.Sample(map[string]any{"configuration": cf.String(), "instants": len(ex.qs), "certificates": len(ex.certs)})
	ex.run(c)
	m := cache.Metrics
	c09Ctr.cacheHits.Add(int64(m.Hits()))
	c09Ctr.cacheMisses.Add(int64(m.Misses()))
	c09Ctr.drops.Add(int64(m.SetsDropped() + m.SetsRejected()))
	c09LegacyQueries.Add(int64(len(ex.qs)) * int64(len(ex.certs)) * 3)
	c.Outcome("configuration:mainnet-id")
	c.Eval(1)
}

func TestMC_C09(t *testing.T) {
	c := verifmc.Start(t, "C09", "exploration")
	defer c.Finish()
	depth := verifmc.Pick(c, 2, 3)
	c.SetRule("all membership histories of <= " + fmt.Sprint(depth) + " real finalized events {pledge, accept, cancel, remove-oldest} at the boundary offsets of their day's operation window that the write path accepts; per history every record / maturity (30 s, 12 h) / window boundary instant (+-1 ns) x {genesis chain round 1, pledging chain rounds 0, 1, 2 while pledging (the pledging node signs round 0 only)} x every non-empty mask over every key set of the history (|K| 7..9) x {honest CoSi over h1 and h2, shown with the other hash, with mask +1/-1/moved bit, + bit |K|, + bit 63, zero signature, wrong s}; each query three times on one node (first, after cacheStore.Wait, reverse order after all conflicting queries); plus nodes with the MAINNET network id and synthetic records (8..11 founding members, optionally one recent member, a removal 30 s into the last pre-fork window / the first post-fork window / none) at 21 instants around both windows with every mask naming >= threshold-2 signers over the current and the legacy key vector; a distinct case is a distinct history / configuration")
	c.Assume("events are finalized at the storage layer (LockInputs, WriteTransaction, WriteSnapshot on a genesis chain) followed by the real LoadConsensusNodes; the real clock (years after the fixture epoch) is 'now' for chain identities",
		"the snapshot hash is an input of verifyFinalization: the same two hashes are presented at every instant",
		"reference key set / threshold: plain replay of the events (accepted members, 12 h readiness, 30 s maturity, predictable removal candidate inside the operation window, base*2/3+1, minimum 7); only acceptances that the reference rejects are violations",
		"mainnet id before the signer-set fork, inside the operation window: a certificate may also be valid for the key vector from before the window with that vector's own threshold (legacy rule)")
	hs := c09Histories(mcNet7.Epoch, depth)
	var list [][]mcMemEvent
	for _, h := range hs {
		if c09Plausible(h) {
			list = append(list, h)
		}
	}
	// longest first: better load balance
	sort.SliceStable(list, func(i, j int) bool { return len(list[i]) > len(list[j]) })
	c.Set("histories_enumerated", len(hs))
	c.Set("histories_structurally_possible", len(list))
	// mainnet-id configurations (pre-fork legacy retry, fork boundary)
	var legacy []c09LegacyConfig
	for scenario := 0; scenario < 3; scenario++ {
		if c.Thorough() {
			for n := 8; n <= 11; n++ {
				legacy = append(legacy, c09LegacyConfig{n, false, scenario}, c09LegacyConfig{n, true, scenario})
			}
		} else {
			legacy = append(legacy, c09LegacyConfig{9, false, scenario}, c09LegacyConfig{8, true, scenario}, c09LegacyConfig{10, false, scenario})
		}
	}
	c.Set("mainnet_id_configurations", len(legacy))
	c.ParallelN(len(legacy)+len(list), "histories", func(w, i int) {
		if c.Violations() >= 8 || c.Expired("histories") {
			return
		}
		if i < len(legacy) {
			c09RunLegacy(c, legacy[i])
			return
		}
		c09Run(c, list[i-len(legacy)])
	})
	c.Set("mainnet_id_queries", c09LegacyQueries.Load())
	c.Set("accepted_under_legacy_key_vector", c.OutcomeCount("accept:under-legacy-key-vector"))
	k := &c09Ctr
	c.Set("histories_accepted_by_write_path", k.histories.Load())
	c.Set("histories_refused_by_write_path", k.refused.Load())
	c.Set("instant_chain_pairs", k.instants.Load())
	c.Set("pledging_chain_pairs", k.pledgingQueries.Load())
	c.Set("pledging_chain_round_1_2_pairs", k.laterRoundPairs.Load())
	c.Set("instants_with_removal_candidate", k.withCandidate.Load())
	c.Set("key_set_threshold_classes", k.classes.Load())
	c.Set("max_key_set", k.maxK.Load())
	c.Set("queries", k.queries.Load())
	c.Set("accepted", k.accepted.Load())
	c.Set("rejected", k.rejected.Load())
	c.Set("valid_rejected", k.validRejected.Load())
	c.Set("cosi_signatures_built", c09Signed.Load())
	c.Set("cache_hits", k.cacheHits.Load())
	c.Set("cache_misses", k.cacheMisses.Load())
	c.Set("cache_sets_dropped_or_rejected", k.drops.Load())
	c.Set("pairs_with_exact_threshold_certificate_accepted", k.thresholdMet.Load())
	c.Set("pairs", k.thresholdPairs.Load())
	if c.Violations() > 0 {
		return
	}
	c.Require(k.histories.Load() >= 20, "only %d histories were accepted by the write path", k.histories.Load())
	c.Require(k.accepted.Load() > 1000 && k.rejected.Load() > 1000, "vacuous: %d accepted, %d rejected", k.accepted.Load(), k.rejected.Load())
	c.Require(k.thresholdMet.Load() == k.thresholdPairs.Load(), "honest exact-threshold certificates were accepted at only %d of the %d (instant, chain) pairs where the reference threshold can be met", k.thresholdMet.Load(), k.thresholdPairs.Load())
	c.Require(k.cacheHits.Load() > k.queries.Load()/2, "remembered results were not exercised: %d cache hits for %d queries", k.cacheHits.Load(), k.queries.Load())
	c.Require(k.laterRoundPairs.Load() > 0, "rounds 1 and 2 of a pledging chain were not queried")
	c.Require(k.pledgingQueries.Load() > 0 && k.withCandidate.Load() > 0 && k.maxK.Load() >= 8, "pledging chain / removal window / grown key set not reached (%d, %d, %d)", k.pledgingQueries.Load(), k.withCandidate.Load(), k.maxK.Load())
	c.Require(c.OutcomeCount("accept:under-legacy-key-vector") > 0 && c.OutcomeCount("accept:under-current-key-vector") > 0, "mainnet-id part: the legacy retry was not reached (%d / %d)", c.OutcomeCount("accept:under-legacy-key-vector"), c.OutcomeCount("accept:under-current-key-vector"))
	c.Require(c.OutcomeCount("accept:honest") > 0 && c.OutcomeCount("accept:honest-h2") > 0, "no honest certificate accepted")
}
