//go:build verif

package kernel

import (
	"io"
	"log"

	"github.com/MixinNetwork/mixin/common"
	"github.com/MixinNetwork/mixin/config"
	"github.com/MixinNetwork/mixin/crypto"
	"github.com/MixinNetwork/mixin/kernel/internal"
	"github.com/MixinNetwork/mixin/logger"
	"github.com/MixinNetwork/mixin/storage"
	"github.com/MixinNetwork/mixin/verifmc/fixc"
	"github.com/dgraph-io/ristretto/v2"
)

func init() {
	log.SetOutput(io.Discard)
	logger.SetLevel(0)
	internal.ToggleMockRunAggregators(true)
}

var mcNet7 = fixc.NewNet(7, "net7")

// mcNode is the kernel-level fixture: a real Node built by the real SetupNode
// over a real BadgerStore loaded from a generated 7-node genesis. No chain
// loops run (MockRunAggregators).
type mcNode struct {
	Net   *fixc.Net
	Store *storage.BadgerStore
	Node  *Node
	Cache *ristretto.Cache[[]byte, any]
}

func mcCustom(net *fixc.Net, self int) *config.Custom {
	c := &config.Custom{}
	c.Node.Signer = net.Signers[self].PrivateSpendKey
	c.Node.KernelOprationPeriod = 700
	c.Node.MemoryCacheSize = 64
	c.Node.CacheTTL = 7200
	return c
}

// newMCNode builds a node for signer index self. dir=="" uses in-memory Badger.
func newMCNode(net *fixc.Net, self int, dir string) (*mcNode, error) {
	store, err := storage.OpenForVerif(dir)
	if err != nil {
		return nil, err
	}
	return newMCNodeOnStore(net, self, store)
}

func newMCNodeOnStore(net *fixc.Net, self int, store *storage.BadgerStore) (*mcNode, error) {
	cache, err := ristretto.NewCache(&ristretto.Config[[]byte, any]{NumCounters: 1e4, MaxCost: 1 << 24, BufferItems: 64})
	if err != nil {
		return nil, err
	}
	node, err := SetupNode(mcCustom(net, self), store, cache, net.Genesis)
	if err != nil {
		cache.Close()
		_ = store.Close()
		return nil, err
	}
	return &mcNode{Net: net, Store: store, Node: node, Cache: cache}, nil
}

// Close abandons the node (stops the topology stats goroutine) and closes the store.
func (m *mcNode) Close() {
	select {
	case <-m.Node.done:
	default:
		close(m.Node.done)
	}
	m.Cache.Close()
	_ = m.Store.Close()
}

// Abandon drops the in-memory node but keeps the store open (crash model).
func (m *mcNode) Abandon() {
	select {
	case <-m.Node.done:
	default:
		close(m.Node.done)
	}
	m.Cache.Close()
}

// chainOf returns (creating it if needed) the Chain object of a node id.
func (m *mcNode) chainOf(id crypto.Hash) *Chain { return m.Node.getOrCreateChain(id) }

// mcSign produces a real CoSi signature over s.Hash by the consensus keys with
// the given indexes (positions in the key list cks, private keys looked up in
// the net by public spend key).
func mcCosiSign(net *fixc.Net, publics []*crypto.Key, signerIdx []int, msg crypto.Hash) (*crypto.CosiSignature, error) {
	priv := map[crypto.Key]*crypto.Key{}
	for i := range net.Signers {
		k := net.Signers[i].PrivateSpendKey
		priv[net.Signers[i].PublicSpendKey] = &k
	}
	nonces := map[int]*crypto.CosiNonce{}
	commitments := map[int]*crypto.Key{}
	for _, i := range signerIdx {
		n := crypto.CosiCommitNonce(crypto.RandReader())
		p := n.Public()
		nonces[i], commitments[i] = n, &p
	}
	sig, err := crypto.CosiAggregateCommitment(commitments)
	if err != nil {
		return nil, err
	}
	responses := map[int]*[32]byte{}
	for _, i := range signerIdx {
		r, err := nonces[i].Response(sig, priv[*publics[i]], publics, msg)
		if err != nil {
			return nil, err
		}
		responses[i] = r
	}
	if err := sig.AggregateResponse(publics, responses, msg, true); err != nil {
		return nil, err
	}
	return sig, nil
}

var _ = common.XINAssetId
